-- This module serves as the root of the `TorchDataVerif` library.
-- Import modules here that should be built as part of the library.
import TorchDataVerif.Basic
