-- Root of the `TorchDataVerif` library: models, proofs and property theorems.
import TorchDataVerif.Model.Incr
import TorchDataVerif.Drv.Incr
