-- Root of the `TorchDataVerif` library: models, proofs, property theorems and model drivers.
import TorchDataVerif.Model.Incr
import TorchDataVerif.Proofs.Incr
import TorchDataVerif.Props.C07
import TorchDataVerif.Drv.Incr
import TorchDataVerif.Model.NodeCore
import TorchDataVerif.Model.Sampler
import TorchDataVerif.Proofs.Sampler
import TorchDataVerif.Props.C15
import TorchDataVerif.Drv.Sampler
import TorchDataVerif.Model.Weighted
import TorchDataVerif.Proofs.Weighted
import TorchDataVerif.Props.C14
import TorchDataVerif.Drv.Weighted
import TorchDataVerif.Model.Loader
import TorchDataVerif.Props.C13
import TorchDataVerif.Drv.Loader
