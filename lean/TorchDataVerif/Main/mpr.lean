import TorchDataVerif.Drv.MPR
def main : IO Unit := TDV.Drv.mainLoop TDV.Drv.MPR.handle
