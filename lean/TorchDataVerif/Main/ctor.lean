import TorchDataVerif.Drv.Ctor
def main : IO Unit := TDV.Drv.mainLoop TDV.Drv.Ctor.handle
