import TorchDataVerif.Drv.Nodes
def main : IO Unit := TDV.Drv.mainLoop TDV.Drv.Nodes.handle
