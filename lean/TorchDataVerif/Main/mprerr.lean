import TorchDataVerif.Drv.MPRErr
def main : IO Unit := TDV.Drv.mainLoop TDV.Drv.MPRErr.handle
