import TorchDataVerif.Drv.Loader
def main : IO Unit := TDV.Drv.mainLoop TDV.Drv.Loader.handle
