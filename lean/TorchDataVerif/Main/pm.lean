import TorchDataVerif.Drv.PM
def main : IO Unit := TDV.Drv.mainLoop TDV.Drv.PM.handle
