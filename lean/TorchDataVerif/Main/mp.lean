import TorchDataVerif.Drv.MP
def main : IO Unit := TDV.Drv.mainLoop TDV.Drv.MP.handle
