import TorchDataVerif.Drv.MPH
def main : IO Unit := TDV.Drv.mainLoop TDV.Drv.MPH.handle
