import TorchDataVerif.Drv.PF
def main : IO Unit := TDV.Drv.mainLoop TDV.Drv.PF.handle
