import TorchDataVerif.Drv.Sampler
def main : IO Unit := TDV.Drv.mainLoop TDV.Drv.Sampler.handle
