import TorchDataVerif.Drv.IncrWorker
def main : IO Unit := TDV.Drv.mainLoop TDV.Drv.IncrWorker.handle
