import TorchDataVerif.Drv.Incr
def main : IO Unit := TDV.Drv.mainLoop TDV.Drv.Incr.handle
