import TorchDataVerif.Drv.Weighted
def main : IO Unit := TDV.Drv.mainLoop TDV.Drv.Weighted.handle
