import TorchDataVerif.Drv.Alias
def main : IO Unit := TDV.Drv.mainLoop TDV.Drv.Alias.handle
