import TorchDataVerif.Drv.SP
def main : IO Unit := TDV.Drv.mainLoop TDV.Drv.SP.handle
