import TorchDataVerif.Model.PM
import TorchDataVerif.Drv.Util
/-!
Driver for M5 `PM`: the model as an ACCEPTOR of event traces recorded from the real threads (DESIGN §4.2).

request  {"m":"pm","cfg":{"N":..,"max":..,"f":..,"in_order":b,"proc":b,"src":[..],"term":"stop"|"error",
                          "mul":a,"add":b,"fail":[values on which map_fn raises],"base":p},
          "trace":[[thread, op, x, y, z], ...]}          (x,y,z naturals, missing = 0)
answer   {"ok":true,"steps":n,"actions":k,"ooo":..,"tmo":..}  |  {"ok":false,"at":i,"why":"..."}

thread: "r" reader, "s" sorter, "c" consumer, "w<i>" worker i.  Payload kinds: 0 item, 1 StopIteration, 2 ExceptionWrapper,
3 nothing (timeout / queue.Empty).  Table event → model action(s):
  r init | isset b | acq b | enter | leave k v | append ver snap | put k v idx | exit (`_populate_queue` returned after the terminal)
  w isset b | empty b | get k v idx | put k v idx | die
  s isset b | get k v idx | put k v idx      (sHave without a put and the final sDrain are thread-local: replayed silently)
  c get 3 = queue.Empty: cGetT, which also decides (reader not alive ∧ sem = max → early stop; a worker not alive → dead-worker
    path: isset / mpisset / set / mpset are then cDeadIsSet / cDeadMpIsSet / cDeadSet / cDeadMpSet, the return is an error)
  c boot b | isset b | mpisset b (then cChk, a read of `_done`/`_sem._value` in the same atomic section) | set | mpset   (inside next(): cSet/cMpSet; outside: `_shutdown`'s cShutSet/cShutMpSet)
    | get k v idx | release newvalue | pop idx has snap | ret k v | state snap steps
    (an `isset` while the model consumer is idle is the start of a `next()` call: cCall first)
-/
namespace TDV.Drv.PM
open Lean TDV.PM TDV.Drv

structure Ev where
  th : String
  op : String
  x : Nat
  y : Nat
  z : Nat

def decodeEv (j : Json) : Except String Ev := do
  let a ← j.getArr?
  if a.size < 2 then throw "short event"
  let th ← a[0]!.getStr?
  let op ← a[1]!.getStr?
  let g (i : Nat) : Except String Nat := if h : i < a.size then a[i].getNat? else pure 0
  return { th, op, x := ← g 2, y := ← g 3, z := ← g 4 }

def decodeCfg (j : Json) : Except String Cfg := do
  let src ← getNatList j "src"
  let fail ← getNatList j "fail"
  let mul := getNatD j "mul" 1
  let add := getNatD j "add" 0
  let term ← getStr j "term"
  return { N := ← getNat j "N", max := ← getNat j "max", f := ← getNat j "f",
           inOrder := getBoolD j "in_order" true, proc := getBoolD j "proc" false,
           src := src, term := if term == "error" then .error else .stop,
           fn := fun v => if fail.contains v then none else some (v * mul + add),
           base := getNatD j "base" 0 }

def payKind : Pay → Nat
  | .item _ => 0 | .stop => 1 | .err => 2
def payVal : Pay → Nat
  | .item v => v | _ => 0

def showMsg (m : Msg) : String := s!"({payKind m.pay},{payVal m.pay},{m.idx})"

def msgIs (m : Msg) (k v i : Nat) : Bool :=
  payKind m.pay == k && m.idx == i && (k != 0 || payVal m.pay == v)

structure St where
  s : State
  lastRet : Option (Nat × Nat) := none     -- (kind, value) of the last return of next(): 0 item, 1 stop, 2 error
  actions : Nat := 0
  ooo : Nat := 0
  tmo : Nat := 0

def act (c : Cfg) (st : St) (a : Action) : Except String St :=
  match step c st.s a with
  | some s' => pure { st with s := s', actions := st.actions + 1, tmo := st.tmo + (if a.isTimeout then 1 else 0) }
  | none => throw s!"model action {repr a} is not enabled (rpc={repr st.s.rpc} spc={repr st.s.spc} cpc={repr st.s.cpc} wk={repr st.s.wk} sem={st.s.sem} inq={st.s.inq.map showMsg} mid={st.s.mid.map showMsg} sq={st.s.sq.map showMsg})"

def need (b : Bool) (why : String) : Except String Unit := if b then pure () else throw why

def b2n (b : Bool) : Nat := if b then 1 else 0

/-- sorter: thread-local steps that leave no event (buffer insert, end of the drain loop). -/
def sorterSilent (c : Cfg) (st : St) (fuel : Nat) : Except String St :=
  match fuel with
  | 0 => pure st
  | fuel + 1 =>
    match st.s.spc with
    | .have m => do
      let n := st.s.sq.length
      let st' ← act c st .sHave
      need (st'.s.sq.length == n) s!"model sorter puts {showMsg m} on the sort queue but the real one did not"
      sorterSilent c { st' with ooo := st'.ooo + 1 } fuel
    | .drain => do
      let n := st.s.sq.length
      let st' ← act c st .sDrain
      need (st'.s.sq.length == n) "model sorter releases a buffered item but the real one did not"
      sorterSilent c st' fuel
    | _ => pure st

/-- sorter `put`: the next sorter step that appends to the sort queue. -/
def sorterPut (c : Cfg) (st : St) (fuel : Nat) : Except String St :=
  match fuel with
  | 0 => throw "model sorter does not put"
  | fuel + 1 => do
    let n := st.s.sq.length
    let a ← match st.s.spc with
      | .have _ => pure Action.sHave
      | .drain => pure Action.sDrain
      | p => throw s!"sorter put while model sorter is at {repr p}"
    let st' ← act c st a
    if st'.s.sq.length == n + 1 then pure st'
    else if st'.s.spc == .drain then sorterPut c { st' with ooo := st'.ooo + (if a == .sHave then 1 else 0) } fuel
    else throw "model sorter does not put"

def workerIdx (th : String) : Option Nat := (th.drop 1).toNat?

def stepEv (c : Cfg) (st : St) (e : Ev) : Except String St := do
  let s := st.s
  if e.th == "r" then
    match e.op with
    | "init" => act c st .rInit
    | "isset" =>
      need (b2n s.stop == e.x) s!"reader is_set: model {s.stop}"
      act c st .rIsSet
    | "acq" => act c st (if e.x == 1 then .rAcq else .rAcqT)
    | "enter" => act c st .rEnter
    | "leave" =>
      let st' ← act c st .rLeave
      let p := rawAt c s.pulled
      need (payKind p == e.x && (e.x != 0 || payVal p == e.y)) s!"source returned kind {e.x} value {e.y}, model {payKind p} {payVal p}"
      pure st'
    | "append" =>
      match s.rpc with
      | .app _ i =>
        need (i == e.x && c.base + i + 1 == e.y) s!"append version {e.x} snapshot {e.y}, model version {i} snapshot {c.base + i + 1}"
        act c st .rAppend
      | p => throw s!"append while model reader is at {repr p}"
    | "put" =>
      match s.rpc with
      | .put m =>
        need (msgIs m e.x e.y e.z) s!"reader put ({e.x},{e.y},{e.z}), model {showMsg m}"
        act c st .rPut
      | p => throw s!"reader put while model reader is at {repr p}"
    | "exit" => if s.rpc == .exited then pure st else act c st .rRet   -- after `is_set() == True` the model reader has already exited
    | o => throw s!"unknown reader op {o}"
  else if e.th == "s" then
    match e.op with
    | "isset" => do
      let st ← sorterSilent c st 4
      need (b2n st.s.stop == e.x) s!"sorter is_set: model {st.s.stop}"
      act c st .sIsSet
    | "get" => do
      let st ← sorterSilent c st 4
      if e.x == 3 then act c st .sGetT else
      match st.s.mid with
      | m :: _ =>
        need (msgIs m e.x e.y e.z) s!"sorter get ({e.x},{e.y},{e.z}), model {showMsg m}"
        act c st .sGet
      | [] => throw "sorter get: model queue empty"
    | "put" => do
      let st' ← sorterPut c st 3
      match st'.s.sq.getLast? with
      | some m =>
        need (msgIs m e.x e.y e.z) s!"sorter put ({e.x},{e.y},{e.z}), model {showMsg m}"
        pure st'
      | none => throw "sorter put: model sort queue empty"
    | o => throw s!"unknown sorter op {o}"
  else if e.th == "c" then
    match e.op with
    | "boot" => act c st (if e.x == 1 then .cBoot else .cBootT)
    | "isset" => do
      if st.s.cpc == .dchk1 then
        need (b2n st.s.stop == e.x) s!"consumer is_set (dead-worker path): model {st.s.stop}"
        act c st .cDeadIsSet
      else
      let st ← if st.s.cpc == .idle then act c st .cCall else pure st
      need (b2n st.s.stop == e.x) s!"consumer is_set: model {st.s.stop}"
      let st' ← act c st .cIsSet
      pure (if st'.s.cpc == .idle then { st' with lastRet := some (1, 0) } else st')
    | "mpisset" => do
      need (b2n s.mpstop == e.x) s!"consumer mp is_set: model {s.mpstop}"
      if s.cpc == .dchk2 then act c st .cDeadMpIsSet else
      let st' ← act c st .cMpIsSet
      if st'.s.cpc == .idle then pure { st' with lastRet := some (1, 0) }
      else act c st' .cChk
    | "set" => act c st (if s.cpc == .set1 then .cSet else if s.cpc == .dset1 then .cDeadSet else .cShutSet)
    | "mpset" =>
      if s.cpc == .set2 then do
        let st' ← act c st .cMpSet
        pure { st' with lastRet := some (1, 0) }
      else if s.cpc == .dset2 then do
        let st' ← act c st .cDeadMpSet
        pure { st' with lastRet := some (2, 0) }
      else act c st .cShutMpSet
    | "get" =>
      if e.x == 3 then act c st .cGetT else
      match outq c s with
      | m :: _ =>
        need (msgIs m e.x e.y e.z) s!"consumer get ({e.x},{e.y},{e.z}), model {showMsg m}"
        act c st .cGet
      | [] => throw "consumer get: model queue empty"
    | "release" => do
      let st' ← act c st .cRel
      need (st'.s.sem == e.x) s!"semaphore value after release {e.x}, model {st'.s.sem}"
      pure (if st'.s.cpc == .idle then { st' with lastRet := some (2, 0) } else st')
    | "pop" =>
      match s.cpc with
      | .pop m =>
        let r := popV m.idx s.store none
        need (m.idx == e.x) s!"pop_version({e.x}), model index {m.idx}"
        need (match r.1 with | some x => e.y == 1 && e.z == x | none => e.y == 0)
          s!"pop_version({e.x}) returned has={e.y} snapshot={e.z}, model {r.1}"
        let st' ← act c st .cPop
        pure { st' with lastRet := some (0, payVal m.pay) }
      | p => throw s!"pop while model consumer is at {repr p}"
    | "ret" =>
      need (s.cpc == .idle) s!"next() returned while model consumer is at {repr s.cpc}"
      need (st.lastRet == some (e.x, if e.x == 0 then e.y else 0)) s!"next() returned ({e.x},{e.y}), model {st.lastRet}"
      pure st
    | "state" =>
      need (s.cpc == .idle) s!"get_state while model consumer is at {repr s.cpc}"
      need (getState s == (e.x, e.y)) s!"get_state = ({e.x},{e.y}), model {getState s}"
      pure st
    | o => throw s!"unknown consumer op {o}"
  else if e.th.startsWith "w" then
    match workerIdx e.th with
    | none => throw s!"bad worker {e.th}"
    | some i =>
      match e.op with
      | "isset" =>
        let fl := if c.proc then s.mpstop else s.stop
        need (b2n fl == e.x) s!"worker {i} is_set: model {fl}"
        act c st (.wIsSet i)
      | "empty" =>
        need (b2n s.inq.isEmpty == e.x) s!"worker {i} empty(): model {s.inq.isEmpty}"
        act c st (.wEmpty i)
      | "get" =>
        if e.x == 3 then act c st (.wGetT i) else
        match s.inq with
        | m :: _ =>
          need (msgIs m e.x e.y e.z) s!"worker {i} get ({e.x},{e.y},{e.z}), model {showMsg m}"
          act c st (.wGet i)
        | [] => throw s!"worker {i} get: model queue empty"
      | "put" =>
        match s.wk[i]? with
        | some (.have m) =>
          let m' : Msg := ⟨apply c m.pay, m.idx⟩
          need (msgIs m' e.x e.y e.z) s!"worker {i} put ({e.x},{e.y},{e.z}), model {showMsg m'}"
          act c st (.wPut i)
        | p => throw s!"worker {i} put while model worker is at {repr p}"
      | "die" => act c st (.wDie i)
      | o => throw s!"unknown worker op {o}"
  else throw s!"unknown thread {e.th}"

def replay (c : Cfg) (evs : List Ev) : Nat → St → Except (Nat × String) St
  | _, st => go evs 0 st
where
  go : List Ev → Nat → St → Except (Nat × String) St
    | [], _, st => pure st
    | e :: rest, i, st =>
      match stepEv c st e with
      | .ok st' => go rest (i + 1) st'
      | .error why => throw (i, s!"event {i} [{e.th} {e.op} {e.x} {e.y} {e.z}]: {why}")

def handle (j : Json) : Except String Json := do
  let c ← decodeCfg (← j.getObjVal? "cfg")
  let evs ← (← getArr j "trace").mapM decodeEv
  match replay c evs 0 { s := init c } with
  | .ok st =>
    return Json.mkObj [("ok", Json.bool true), ("steps", jnat evs.length), ("actions", jnat st.actions),
                       ("ooo", jnat st.ooo), ("tmo", jnat st.tmo),
                       ("outs", ofNatList st.s.outs), ("held", jnat (held st.s))]
  | .error (i, why) =>
    return Json.mkObj [("ok", Json.bool false), ("at", jnat i), ("why", Json.str why)]

end TDV.Drv.PM
