import TorchDataVerif.Model.Nodes
import TorchDataVerif.Drv.Util
/-! Driver for M3 `Nodes`: builds a pipeline from a JSON description and runs an op list on its root
through the `Run` interface (`rreset/rnext/rget`), i.e. through the same step functions the theorems
are about. -/
namespace TDV.Drv.Nodes
open Lean TDV.Node TDV.Drv

partial def decodeItem (j : Json) : Except String Item :=
  match j with
  | .null => pure .none
  | .arr a => do
    let xs ← a.toList.mapM decodeItem
    pure (.list xs)
  | _ => do
    let n ← j.getNat?
    pure (.atom n)

partial def encodeItem : Item → Json
  | .atom n => jnat n
  | .none => Json.null
  | .list xs => Json.arr (xs.map encodeItem).toArray

/-- Fixed vocabulary of map functions (mirrored in harness/props/nodes_common.py). -/
def mapFn : String → Except String (Item → Option Item)
  | "id" => pure fun x => some x
  | "inc" => pure fun x => match x with | .atom n => some (.atom (n + 1)) | _ => none
  | "dbl" => pure fun x => match x with | .atom n => some (.atom (2 * n)) | _ => none
  | "none_if_odd" => pure fun x => match x with
      | .atom n => if n % 2 = 1 then some .none else some (.atom n)
      | y => some y
  | "err_if_3" => pure fun x => match x with | .atom 3 => none | y => some y
  | "wrap" => pure fun x => some (.list [x])
  | "rep" => pure fun x => match x with
      | .atom n => some (.list (List.replicate (n % 4) (.atom n)))
      | _ => some (.list [])
  | s => throw s!"unknown map fn {s}"

def truthy : Item → Bool
  | .atom n => n != 0
  | .none => false
  | .list xs => !xs.isEmpty

def predFn : String → Except String (Item → Bool)
  | "is_even" => pure fun x => match x with | .atom n => n % 2 = 0 | _ => false
  | "truthy" => pure truthy
  | "not_none" => pure fun x => match x with | .none => false | _ => true
  | "all" => pure fun _ => true
  | "nothing" => pure fun _ => false
  | s => throw s!"unknown predicate {s}"

def updFn : String → Except String (Nat → Nat)
  | "inc" => pure (· + 1)
  | "add2" => pure (· + 2)
  | "same" => pure id
  | s => throw s!"unknown epoch updater {s}"

/-- A node together with the test "did the last `reset` raise" on its runtime state. -/
structure Pack where
  n : Node
  bad : n.σ → Bool

instance : Inhabited Pack := ⟨⟨listSource [], fun _ => false⟩⟩

def fuel : Nat := 100000

def Pack.mapper (f : Item → Option Item) (p : Pack) : Pack :=
  ⟨TDV.Node.mapper f p.n, fun r => p.bad r.st⟩
def Pack.batcher (bs : Nat) (dl : Bool) (p : Pack) : Pack :=
  ⟨TDV.Node.batcher bs dl p.n, fun r => p.bad r.st⟩
def Pack.filter (q : Item → Bool) (p : Pack) : Pack :=
  ⟨TDV.Node.filter fuel q p.n, fun st => p.bad st.inner.st⟩
def Pack.unbatcher (p : Pack) : Pack :=
  ⟨TDV.Node.unbatcher fuel p.n, fun st => st.bad || p.bad st.inner.st⟩
def Pack.buffered (sf : Nat) (p : Pack) : Pack :=
  ⟨TDV.Node.buffered sf p.n, fun st => st.bad || p.bad st.inner.st⟩

/-- `Pack` lives in `Type 1`, so the builder is written in continuation-passing style. -/
partial def build (j : Json) (k : Pack → Except String Json) : Except String Json := do
  let op ← getStr j "op"
  match op with
  | "list" =>
    let xs ← (← getArr j "items").mapM decodeItem
    k ⟨listSource xs, fun st => st.bad⟩
  | "stateful" =>
    let xs ← (← getArr j "items").mapM decodeItem
    k ⟨statefulSource (listIter xs), fun _ => false⟩
  | "sampler" =>
    let eps ← (← getArr j "epochs").mapM fun e => do
      let a ← e.getArr?
      a.toList.mapM decodeItem
    if eps.isEmpty then throw "sampler needs at least one epoch list"
    let upd ← updFn (← getStr j "upd")
    let e0 := getNatD j "e0" 0
    k ⟨samplerNode (fun e => eps.getD (e % eps.length) []) upd e0, fun st => st.bad⟩
  | "map" =>
    let f ← mapFn (← getStr j "f")
    build (← j.getObjVal? "src") fun p => k (p.mapper f)
  | "batch" =>
    let bs ← getNat j "bs"
    build (← j.getObjVal? "src") fun p => k (p.batcher bs (getBoolD j "drop_last" true))
  | "unbatch" =>
    build (← j.getObjVal? "src") fun p => k p.unbatcher
  | "filter" =>
    let q ← predFn (← getStr j "p")
    build (← j.getObjVal? "src") fun p => k (p.filter q)
  | "buffered" =>
    let sf ← getNat j "sf"
    build (← j.getObjVal? "src") fun p => k (p.buffered sf)
  | "prebatch_map" =>
    -- ParallelMapper(num_workers=0, prebatch=pb) = `prebatchMapper`
    let f ← mapFn (← getStr j "f")
    let pb ← getNat j "pb"
    build (← j.getObjVal? "src") fun p => k (((p.batcher pb false).mapper (overBatch f)).unbatcher)
  | "pmap" =>
    -- ParallelMapper(num_workers>0, in_order=True): buffered over the inline mapper
    let f ← mapFn (← getStr j "f")
    let sf ← getNat j "sf"
    match j.getObjVal? "pb" with
    | .ok (.num _) =>
      let pb ← getNat j "pb"
      build (← j.getObjVal? "src") fun p =>
        k ((((p.batcher pb false).mapper (overBatch f)).buffered sf).unbatcher)
    | _ => build (← j.getObjVal? "src") fun p => k ((p.mapper f).buffered sf)
  | s => throw s!"unknown op {s}"

def encodeOut : Out → Json
  | .item v => Json.mkObj [("i", encodeItem v)]
  | .stop => Json.str "stop"
  | .error e => Json.mkObj [("e", jnat e)]

/-- ops: "next" | "get" | "reset_none" | ["reset_tok", i] | "fresh" -/
def runOps (p : Pack) (ops : List Json) : Except String (List Json) := do
  let mut r : Run p.n := p.n.rfresh
  let mut toks : Array p.n.S := #[]
  let mut out : Array Json := #[]
  for o in ops do
    match o with
    | .str "next" =>
      let x := p.n.rnext r
      r := x.2
      out := out.push (encodeOut x.1)
    | .str "get" =>
      let x := p.n.rget r
      r := x.2
      out := out.push (jnat toks.size)
      toks := toks.push x.1
    | .str "fresh" =>
      -- a newly constructed pipeline object; tokens taken so far stay valid
      r := p.n.rfresh
      out := out.push (Json.str "ok")
    | .str "reset_none" =>
      r := p.n.rreset r none
      out := out.push (Json.str (if p.bad r.st then "raise" else "ok"))
    | .arr a =>
      if a.size != 2 then throw "bad op"
      let i ← a[1]!.getNat?
      match toks[i]? with
      | some t =>
        r := p.n.rreset r (some t)
        out := out.push (Json.str (if p.bad r.st then "raise" else "ok"))
      | none => throw s!"unknown token {i}"
    | _ => throw "bad op"
  return out.toList

/-- request: {"m":"nodes","pipe":DESC,"ops":[...]}   answer: {"obs":[...]} -/
def handle (j : Json) : Except String Json := do
  let ops ← getArr j "ops"
  build (← j.getObjVal? "pipe") fun p => do
    let obs ← runOps p ops
    return Json.mkObj [("obs", Json.arr obs.toArray)]

end TDV.Drv.Nodes
