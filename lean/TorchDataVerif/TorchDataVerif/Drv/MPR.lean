import TorchDataVerif.Model.MPRestore
import TorchDataVerif.Drv.MP
/-! Driver for `MPR` (checkpoint meaning + restore constructor of the multi-process iterator), K-D leg.

request {"m":"mpr","cfg":CFG,"k":K,"seed":S}      (CFG as for "mp")
answer  {"step":m,"steps":K-m,
         "ideal":{"lastW":..,"main":..,"ws":[[pos,ended]..]},     -- idealAt cfg m, m = snapshot step after K yields
         "saved":{"step":..,"steps":..,"lastW":..,"main":..,"ws":[..]} | null,
                                                                  -- state_dict of a model saving run (schedule from S)
         "resumed":[batch codes],"stop":bool,"assertion":bool}    -- restore cfg (idealAt cfg m), then run to the end
                                                                  --   (schedule from S); the first K-m are the replay
The schedules are pseudo-random picks among the enabled actions (seeded); by `deterministic` /
`resume_exact` the answers do not depend on them.
-/
namespace TDV.Drv.MPR
open Lean TDV.MP TDV.MPR TDV.Drv TDV.Drv.MP

def lcg (x : Nat) : Nat := (x * 6364136223846793005 + 1442695040888963407) % 18446744073709551616

/-- Drive `s` under a seeded schedule until `n` batches were yielded, or stop / assertion / deadlock / no fuel. -/
def drive (c : Cfg) : Nat → Nat → State → Nat → State
  | 0, _, s, _ => s
  | fuel + 1, n, s, g =>
    if (yields s.obs).length ≥ n ∨ s.obs.contains .stop ∨ s.obs.contains .assertion then s
    else
      let acts : List Action := (List.range c.W).map Action.work ++ [.recv, .next, .recv, .next]
      let en := acts.filterMap (fun a => step c s a)
      match en[(g / 65536) % en.length]? with
      | none => s
      | some s' => drive c fuel n s' (lcg g)

def stepOf (c : Cfg) (n : Nat) : Nat := if c.interval = 0 then 0 else c.interval * (n / c.interval)

def encWs (ws : List WSt) : Json := Json.arr (ws.map fun w => Json.arr #[jnat w.pos, Json.bool w.ended]).toArray

def handle (j : Json) : Except String Json := do
  let c ← decCfg (← j.getObjVal? "cfg")
  let k ← getNat j "k"
  let seed := getNatD j "seed" 1
  let m := stepOf c k
  let sn := idealAt c m
  let fuel := 40 * (k + c.batches.length + (c.shards.map List.length).sum + c.W * c.P + 4) + 200
  let s1 := drive c fuel k (init c) (lcg seed)
  let saved : Json :=
    if (yields s1.obs).length = k then
      let sd := stateDict s1
      Json.mkObj [("step", jnat sd.1.step), ("steps", jnat sd.2), ("lastW", jnat sd.1.lastW), ("main", jnat sd.1.main),
                  ("ws", encWs sd.1.ws)]
    else Json.null
  let s2 := drive c fuel (fuel + 1) (restore c sn) (lcg (seed + 17))
  pure (Json.mkObj [("step", jnat m), ("steps", jnat (k - m)),
    ("ideal", Json.mkObj [("lastW", jnat sn.lastW), ("main", jnat sn.main), ("ws", encWs sn.ws)]),
    ("saved", saved),
    ("resumed", ofNatList (yields s2.obs)), ("stop", Json.bool (s2.obs.contains .stop)),
    ("assertion", Json.bool (s2.obs.contains .assertion || s1.obs.contains .assertion))])

end TDV.Drv.MPR
