import TorchDataVerif.Model.Incr
import TorchDataVerif.Drv.Util
/-! Driver for M1 `Incr`: runs a history of reports through a worker/main pair. -/
namespace TDV.Drv.Incr
open Lean TDV.Incr TDV.Drv

partial def decodeVal (j : Json) : Except String Val := do
  match j.getObjVal? "l" with
  | .ok c => return .leaf (← c.getNat?)
  | .error _ =>
    let kvs ← getArr j "d"
    let kvs ← kvs.mapM fun e => do
      let a ← e.getArr?
      if a.size != 2 then throw "bad kv"
      let k ← a[0]!.getNat?
      let v ← decodeVal a[1]!
      pure (k, v)
    return .dict kvs

partial def encodeVal : Val → Json
  | .leaf c => Json.mkObj [("l", jnat c)]
  | .dict kvs => Json.mkObj [("d", Json.arr (kvs.map fun (k, v) => Json.arr #[jnat k, encodeVal v]).toArray)]

def encodeFlat (fl : Flat) : Json :=
  Json.arr (fl.map fun (p, c) => Json.arr #[ofNatList p, jnat c]).toArray

def encodeDelta (d : Delta) : Json :=
  Json.arr (d.map fun (p, u) => Json.arr #[ofNatList p, ofOptNat u]).toArray

/-- request: {"m":"incr","init":V,"reports":[V,...]}
    answer: {"flat0":..., "steps":[{"delta":..,"main":..,"state":V}, ...]} -/
def handle (j : Json) : Except String Json := do
  let v0 ← decodeVal (← j.getObjVal? "init")
  let reps ← (← getArr j "reports").mapM decodeVal
  let mut s := Pair.init v0
  let mut out : Array Json := #[]
  for v in reps do
    let nf := flatten v []
    let d := generateDelta s.base nf
    s := s.report v
    out := out.push (Json.mkObj [("delta", encodeDelta d), ("main", encodeFlat s.main), ("state", encodeVal (getState s.main))])
  return Json.mkObj [("flat0", encodeFlat (flatten v0 [])), ("state0", encodeVal (getState (flatten v0 []))), ("steps", Json.arr out)]

end TDV.Drv.Incr
