import TorchDataVerif.Model.MP
import TorchDataVerif.Drv.Util
/-! Driver for M7 `MP`: trace acceptor (K-T) and plain action runner.

request {"m":"mp","cfg":CFG,"trace":[EVENT..]}  -> {"ok":true,"steps":n} | {"ok":false,"at":i,"why":".."}
request {"m":"mp","cfg":CFG,"actions":[ACTION..]} -> {"ok":true,"obs":[OBS..]} | {"ok":false,"at":i,"why":"not enabled"}

CFG = {"W","P","interval","in_order","iterable","persistent","shards":[[ITEM..]..],"batches":[ITEM..]},
ITEM = batch code (nat) | null (the fetch raises).

EVENT (one protocol event of the real run, in the order the virtual scheduler executed them):
  ["wget",w,MSG]  worker w took MSG from its index queue, MSG = ["task",idx,snap] | ["stop"] | ["resume"]
  ["wput",w,idx,kind,code,has_state]  worker w put a result; kind = "data"|"notice"|"error"|"ack"
  ["mget",idx,kind,w]   main took a result from the result queue
  ["mput",w,idx,snap] | ["mputNone",w] | ["mputResume",w]   main put on index queue w
  ["mtimeout"]          main's queue get timed out (liveness poll follows)
  ["next"] / ["ret",kind,code]   consumer called next() / next() returned; kind = "item"|"error"|"stop"|
                                 "workerDied"|"assertion"
  ["sd",step,since,lastw,main]   state_dict() returned these
  ["reset"] / ["resetDone"]      iter() on a persistent-workers iterator (`_reset`)
  ["kill",w]
Worker actions are atomic in the model; the acceptor performs `work w` at the worker's *put* (or at its
get when the message produces no result) and checks the earlier get against the queue head — sound
because nobody else reads that queue or that worker's state in between.  The puts a main action
performs are compared as a multiset with the puts the model action made.
ACTION = ["work",w] | ["recv"] | ["next"] | ["sd"] | ["reset"] | ["kill",w] | ["timeout"].
-/
namespace TDV.Drv.MP
open Lean TDV.MP TDV.Drv

def decItem (j : Json) : Except String Item :=
  match j with
  | .null => pure .err
  | _ => do pure (.ok (← j.getNat?))

def decCfg (j : Json) : Except String Cfg := do
  let shards ← (← getArr j "shards").mapM fun sh => do
    let a ← sh.getArr?
    a.toList.mapM decItem
  let batches ← (← getArr j "batches").mapM decItem
  pure { W := ← getNat j "W", P := ← getNat j "P", interval := getNatD j "interval" 0
         inOrder := getBoolD j "in_order" true, iterable := getBoolD j "iterable" false
         persistent := getBoolD j "persistent" false, shards := shards, batches := batches }

def jstr (s : String) : Json := Json.str s

def encObs : Obs → Json
  | .item b => Json.arr #[jstr "item", jnat b]
  | .error => Json.arr #[jstr "error"]
  | .stop => Json.arr #[jstr "stop"]
  | .workerDied => Json.arr #[jstr "workerDied"]
  | .assertion => Json.arr #[jstr "assertion"]
  | .sd a b c d ws => Json.arr #[jstr "sd", jnat a, jnat b, jnat c, jnat d,
      Json.arr (ws.map fun w => Json.arr #[jnat w.pos, Json.bool w.ended]).toArray]
  | .resetDone => Json.arr #[jstr "resetDone"]

def kindName : Kind → String
  | .data _ => "data" | .notice => "notice" | .error => "error" | .ack => "ack"

def argNat (a : Array Json) (i : Nat) : Except String Nat := do
  match a[i]? with
  | some j => j.getNat?
  | none => throw s!"missing argument {i}"

def argStr (a : Array Json) (i : Nat) : Except String String := do
  match a[i]? with
  | some j => j.getStr?
  | none => throw s!"missing argument {i}"

def argBool (a : Array Json) (i : Nat) : Except String Bool := do
  match a[i]? with
  | some j => j.getBool?
  | none => throw s!"missing argument {i}"

def decAction (j : Json) : Except String Action := do
  let a ← j.getArr?
  match ← argStr a 0 with
  | "work" => pure (.work (← argNat a 1))
  | "recv" => pure .recv
  | "next" => pure .next
  | "sd" => pure .stateDict
  | "reset" => pure .reset
  | "kill" => pure (.kill (← argNat a 1))
  | "timeout" => pure .pollTimeout
  | x => throw s!"unknown action {x}"

/-- Acceptor state. -/
structure Acc where
  s : State
  pend : List Nat := []                 -- workers that took a message whose result is not yet put
  expect : List (Nat × Msg) := []       -- main puts made by the model, not yet seen in the trace
  seen : Nat := 0                       -- consumer observations matched so far

def showMsg : Msg → String
  | .task i p sn => s!"task({i},p{p},{sn})"
  | .stop => "None"
  | .resume => "resume"

def newPuts (old new : List Worker) : List (Nat × Msg) :=
  let rec go (w : Nat) : List Worker → List Worker → List (Nat × Msg)
    | o :: os, n :: ns => (n.q.drop o.q.length).map (fun m => (w, m)) ++ go (w + 1) os ns
    | _, _ => []
  go 0 old new

/-- A main-side model action: must be enabled; its puts become expected. -/
def mainAct (c : Cfg) (a : Acc) (act : Action) (what : String) : Except String Acc := do
  if a.expect ≠ [] then
    throw s!"{what}: the model's main action put {a.expect.map (fun e => (e.1, showMsg e.2))} which the real run did not"
  match step c a.s act with
  | none => throw s!"{what}: action not enabled in the model (phase {repr a.s.phase}, resQ {a.s.resQ.length})"
  | some s' => pure { a with s := s', expect := newPuts a.s.workers s'.workers }

def sameMsg (m : Msg) (e : Msg) : Bool :=
  match m, e with
  | .task i _ sn, .task i' _ sn' => i == i' && sn == sn'
  | .stop, .stop => true
  | .resume, .resume => true
  | _, _ => false

def takePut (a : Acc) (w : Nat) (m : Msg) : Except String Acc :=
  match a.expect.find? (fun e => e.1 == w && sameMsg m e.2) with
  | none => throw s!"main put {showMsg m} on index queue {w}; model expected {a.expect.map (fun e => (e.1, showMsg e.2))}"
  | some e => pure { a with expect := a.expect.erase e }

def decMsg (j : Json) : Except String Msg := do
  let a ← j.getArr?
  match ← argStr a 0 with
  | "task" => pure (.task (← argNat a 1) 0 (← argBool a 2))
  | "stop" => pure .stop
  | "resume" => pure .resume
  | x => throw s!"unknown message {x}"

def obsMatches (o : Obs) (kind : String) (code : Nat) : Bool :=
  match o with
  | .item b => kind == "item" && b == code
  | .error => kind == "error"
  | .stop => kind == "stop"
  | .workerDied => kind == "workerDied"
  | .assertion => kind == "assertion"
  | .resetDone => kind == "resetDone"
  | .sd .. => false

def event (c : Cfg) (a : Acc) (j : Json) : Except String Acc := do
  let ev ← j.getArr?
  match ← argStr ev 0 with
  | "wget" =>
    let w ← argNat ev 1
    let m ← decMsg (ev[2]?.getD Json.null)
    match a.s.workers[w]? with
    | none => throw s!"no worker {w}"
    | some k =>
      match k.q with
      | [] => throw s!"worker {w} got {showMsg m} but its model queue is empty"
      | h :: rest =>
        if !sameMsg m h then throw s!"worker {w} got {showMsg m} but the model queue head is {showMsg h}"
        if a.pend.contains w then throw s!"worker {w} took a second message before putting its result"
        match (handle c a.s.shutdown w { k with q := rest } h).2 with
        | some _ => pure { a with pend := w :: a.pend }
        | none =>
          match step c a.s (.work w) with
          | some s' => pure { a with s := s' }
          | none => throw s!"work {w} not enabled"
  | "wput" =>
    let w ← argNat ev 1
    let idx ← argNat ev 2
    let kind ← argStr ev 3
    let code ← argNat ev 4
    let hs ← argBool ev 5
    if !a.pend.contains w then throw s!"worker {w} put a result without a pending message (model: it produces none)"
    match step c a.s (.work w) with
    | none => throw s!"work {w} not enabled"
    | some s' =>
      match s'.resQ.getLast? with
      | none => throw "model put nothing"
      | some r =>
        let okc := match r.kind with | .data b => b == code | _ => true
        if kindName r.kind != kind || !okc || r.w != w || (r.kind != .ack && r.idx != idx) || r.st.isSome != hs then
          throw s!"worker {w} put (idx {idx}, {kind}, code {code}, state {hs}); model puts (idx {r.idx}, {kindName r.kind}, {repr r.kind}, state {r.st.isSome})"
        pure { a with s := s', pend := a.pend.erase w }
  | "mget" =>
    let idx ← argNat ev 1
    let kind ← argStr ev 2
    let w ← argNat ev 3
    match a.s.resQ with
    | [] => throw "main got a result but the model's result queue is empty"
    | r :: _ =>
      if kindName r.kind != kind || r.w != w || (r.kind != .ack && r.idx != idx) then
        throw s!"main got (idx {idx}, {kind}, worker {w}); model queue head is (idx {r.idx}, {kindName r.kind}, worker {r.w})"
      mainAct c a .recv "mget"
  | "mput" => takePut a (← argNat ev 1) (.task (← argNat ev 2) 0 (← argBool ev 3))
  | "mputNone" => takePut a (← argNat ev 1) .stop
  | "mputResume" => takePut a (← argNat ev 1) .resume
  | "mtimeout" => mainAct c a .pollTimeout "mtimeout"
  | "next" =>
    if a.seen ≠ a.s.obs.length then throw "next() called while the model still owes an observation"
    mainAct c a .next "next"
  | "reset" =>
    if a.seen ≠ a.s.obs.length then throw "reset while the model still owes an observation"
    mainAct c a .reset "reset"
  | "ret" | "resetDone" =>
    let kind ← if (← argStr ev 0) == "resetDone" then pure "resetDone" else argStr ev 1
    let code := ((ev[2]?.getD Json.null).getNat?.toOption).getD 0
    if a.expect ≠ [] then
      throw s!"return to the consumer, but the model's main action put {a.expect.map (fun e => (e.1, showMsg e.2))} which the real run did not"
    match a.s.obs[a.seen]? with
    | none => throw s!"consumer observed {kind} {code} but the model is at phase {repr a.s.phase} with no observation"
    | some o =>
      if !obsMatches o kind code then throw s!"consumer observed {kind} {code}; model says {(encObs o).compress}"
      pure { a with seen := a.seen + 1 }
  | "sd" =>
    if a.seen ≠ a.s.obs.length then throw "state_dict while the model still owes an observation"
    match step c a.s .stateDict with
    | none => throw "state_dict not enabled"
    | some s' =>
      match s'.obs.getLast? with
      | some (.sd st si lw mn _) =>
        let st' ← argNat ev 1
        let si' ← argNat ev 2
        let lw' ← argNat ev 3
        let mn' ← argNat ev 4
        if st != st' || si != si' || lw != lw' || mn != mn' then
          throw s!"state_dict returned (step {st'}, since {si'}, last {lw'}, sampler {mn'}); model (step {st}, since {si}, last {lw}, sampler {mn})"
        pure { a with s := s', seen := a.seen + 1 }
      | _ => throw "model produced no sd"
  | "kill" =>
    let w ← argNat ev 1
    match step c a.s (.kill w) with
    | none => pure a   -- the worker had already taken its `None` and is exiting
    | some s' => pure { a with s := s', pend := a.pend.erase w }
  | x => throw s!"unknown event {x}"

def replay (c : Cfg) : Acc → Nat → List Json → Json
  | a, i, [] =>
    if a.s.bad then Json.mkObj [("ok", Json.bool false), ("at", jnat i), ("why", jstr "an internal assert of the code fires in the model")]
    else Json.mkObj [("ok", Json.bool true), ("steps", jnat i), ("obs", jnat a.s.obs.length)]
  | a, i, e :: r =>
    match event c a e with
    | .ok a' => replay c a' (i + 1) r
    | .error why => Json.mkObj [("ok", Json.bool false), ("at", jnat i), ("why", jstr why), ("ev", e)]

def runActions (c : Cfg) : State → Nat → List Action → Json
  | s, _, [] => Json.mkObj [("ok", Json.bool true), ("obs", Json.arr (s.obs.map encObs).toArray), ("bad", Json.bool s.bad)]
  | s, i, a :: r =>
    match step c s a with
    | some s' => runActions c s' (i + 1) r
    | none => Json.mkObj [("ok", Json.bool false), ("at", jnat i), ("why", jstr "not enabled"),
                          ("obs", Json.arr (s.obs.map encObs).toArray)]

def handle (j : Json) : Except String Json := do
  let c ← decCfg (← j.getObjVal? "cfg")
  match j.getObjVal? "trace" with
  | .ok t =>
    let evs ← t.getArr?
    pure (replay c { s := init c } 0 evs.toList)
  | .error _ =>
    let acts ← (← getArr j "actions").mapM decAction
    pure (runActions c (init c) 0 acts)

end TDV.Drv.MP
