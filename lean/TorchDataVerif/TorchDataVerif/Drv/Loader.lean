import TorchDataVerif.Model.Loader
import TorchDataVerif.Drv.Util
/-!
Driver for M4 (`TDV.Loader`, `TDV.SDLApi`): runs one API history through the model and through the Lean
reference.

request  {"m":"loader","facade":"loader","restart":B,"root":{"kind":"list","items":[ITEM..]} | {"kind":"sampler","n":N},
          "resumeReq":B (default = restart),"ops":OPS}
         {"m":"loader","facade":"sdl","persistent":B,"items":[ITEM..],"endByStop":B (default true),"ops":OPS}
         OPS  = [["iter"] | ["next",j] | ["exhaust"] | ["sd"] | ["peek"] | ["load",i] | ["abandon"] | ["fresh"]]
         ITEM = n | null | [ITEM..]
answer   {"obs":[OBS..],"ref":[OBS..]} (+ "made":[n..] for sdl: `_get_iterator` calls of the current object after each op)
         OBS  = "ok" | ["items",[ITEM..],stopped] | ["tok",id,DEN] | "nohandle" | ["error","E"]
         DEN  = [[ITEM..],stopped,epoch|null] | ["error","E"]: what the state dict denotes, i.e. the observations of
                `fresh ▸ load tok ▸ iter ▸ next×8` run on a copy of the machine at the moment the token is taken
                (epoch = the root's epoch counter after that `iter`, for the epoch-dependent root only)
-/
namespace TDV.Drv.Loader
open Lean TDV.Node TDV.Drv
open TDV.Loader (Obs Op)

partial def decodeItem (j : Json) : Except String Item := do
  match j with
  | .null => return .none
  | .arr a => return .list (← a.toList.mapM decodeItem)
  | _ => return .atom (← j.getNat?)

partial def encodeItem : Item → Json
  | .atom n => jnat n
  | .none => Json.null
  | .list xs => Json.arr (xs.map encodeItem).toArray

inductive DOp where
  | iter | take (j : Nat) | sd | peek | load (i : Nat) | abandon | fresh

def decodeOp (j : Json) : Except String DOp := do
  let a ← j.getArr?
  let name ← (a[0]?.getD Json.null).getStr?
  match name with
  | "iter" => return .iter
  | "next" => return .take (← (a[1]?.getD Json.null).getNat?)
  | "exhaust" => return .take 40
  | "sd" => return .sd
  | "peek" => return .peek
  | "load" => return .load (← (a[1]?.getD Json.null).getNat?)
  | "abandon" => return .abandon
  | "fresh" => return .fresh
  | s => throw s!"bad op {s}"

/-- Generic runner over a step function. -/
structure Machine (σ : Type) where
  step : σ → Op → Obs × σ
  ntoks : σ → Nat
  epoch : σ → Json

/-- Up to `k` items from the iterator in hand; `some stopped`, or `none` on an exception. -/
def collect {σ : Type} (m : Machine σ) : Nat → σ → List Item → List Item × Option Bool
  | 0, _, acc => (acc.reverse, some false)
  | k + 1, s, acc =>
    match m.step s .next with
    | (.out (.item v), s') => collect m k s' (v :: acc)
    | (.out .stop, _) => (acc.reverse, some true)
    | _ => (acc.reverse, none)

/-- What the `n`-th token of `s` denotes: `fresh ▸ load n ▸ iter ▸ next×8` on a copy. -/
def denote {σ : Type} (m : Machine σ) (s : σ) (n : Nat) : Json :=
  let s2 := (m.step (m.step s .fresh).2 (.load n)).2
  match m.step s2 .iter with
  | (.ok, s3) =>
    match collect m 8 s3 [] with
    | (items, some stopped) => Json.arr #[Json.arr (items.map encodeItem).toArray, stopped, m.epoch s3]
    | (_, none) => Json.arr #["error", "E"]
  | _ => Json.arr #["error", "E"]

def takeLoop {σ : Type} (m : Machine σ) : Nat → σ → List Item → (Json × σ)
  | 0, s, acc => (Json.arr #["items", Json.arr (acc.reverse.map encodeItem).toArray, false], s)
  | k + 1, s, acc =>
    match m.step s .next with
    | (.out (.item v), s') => takeLoop m k s' (v :: acc)
    | (.out .stop, s') => (Json.arr #["items", Json.arr (acc.reverse.map encodeItem).toArray, true], s')
    | (.out (.error _), s') => (Json.arr #["error", "E"], s')
    | (.skip, s') => ("nohandle", s')
    | (_, s') => (Json.arr #["error", "?"], s')

def obsJson : Obs → Nat → Json
  | .ok, _ => "ok"
  | .tok, n => Json.arr #["tok", jnat n]  -- completed with the denotation by `runOp`
  | .skip, _ => "skip"
  | .err _, _ => Json.arr #["error", "E"]
  | .out _, _ => "?"

def runOp {σ : Type} (m : Machine σ) (s : σ) : DOp → Json × σ
  | .iter => let r := m.step s .iter; (obsJson r.1 0, r.2)
  | .take j => takeLoop m j s []
  | .sd =>
    let r := m.step s .stateDict
    match r.1 with
    | .tok => (Json.arr #["tok", jnat (m.ntoks s), denote m r.2 (m.ntoks s)], r.2)
    | o => (obsJson o 0, r.2)
  | .peek =>
    -- the token is thrown away: denote it on a copy that records it
    let r := m.step s .peek
    match r.1 with
    | .tok => (Json.arr #["tok", jnat (m.ntoks s), denote m (m.step s .stateDict).2 (m.ntoks s)], r.2)
    | o => (obsJson o 0, r.2)
  | .load i => let r := m.step s (.load i); (obsJson r.1 0, r.2)
  | .abandon => let r := m.step s .abandon; (obsJson r.1 0, r.2)
  | .fresh => let r := m.step s .fresh; (obsJson r.1 0, r.2)

def runAll {σ : Type} (m : Machine σ) (extra : σ → Json) : σ → List DOp → List Json × List Json
  | _, [] => ([], [])
  | s, op :: ops =>
    let r := runOp m s op
    let q := runAll m extra r.2 ops
    (r.1 :: q.1, extra r.2 :: q.2)

def handle (j : Json) : Except String Json := do
  let facade ← getStr j "facade"
  let ops ← (← getArr j "ops").mapM decodeOp
  if facade == "loader" then
    let restart := getBoolD j "restart" true
    let resumeReq := getBoolD j "resumeReq" restart
    let rootJ ← j.getObjVal? "root"
    let kind ← getStr rootJ "kind"
    let epochs : Nat → List Item ←
      if kind == "list" then do
        let items ← (← getArr rootJ "items").mapM decodeItem
        pure fun _ => items
      else do
        let n ← getNat rootJ "n"
        pure fun e => (List.range n).map fun i => Item.atom (100 * e + i)
    let root := TDV.Loader.epochSrc epochs
    let dep := kind != "list"
    let mi : Machine (TDV.Loader.Sys root) := ⟨TDV.Loader.step root restart, fun s => s.toks.length,
      fun s => match s.st.it with
        | some it => if dep then jnat it.r.st.e else Json.null
        | none => Json.null⟩
    let mr : Machine TDV.Loader.Ref.RSys := ⟨TDV.Loader.Ref.step epochs restart resumeReq, fun s => s.toks.length,
      fun s => match s.st.cur with
        | some k => if dep then jnat k.e else Json.null
        | none => Json.null⟩
    let a := runAll mi (fun _ => Json.null) (TDV.Loader.Sys.init root) ops
    let b := runAll mr (fun _ => Json.null) TDV.Loader.Ref.RSys.init ops
    return Json.mkObj [("obs", Json.arr a.1.toArray), ("ref", Json.arr b.1.toArray)]
  else
    let persistent := getBoolD j "persistent" false
    let endByStop := getBoolD j "endByStop" true
    let items ← (← getArr j "items").mapM decodeItem
    let epochs : Nat → List Item := fun _ => items
    let mi : Machine TDV.SDLApi.Sys := ⟨TDV.SDLApi.step epochs persistent, fun s => s.toks.length, fun _ => Json.null⟩
    let mr : Machine TDV.SDLApi.Ref.RSys := ⟨TDV.SDLApi.Ref.step epochs endByStop, fun s => s.toks.length, fun _ => Json.null⟩
    let a := runAll mi (fun s => jnat s.st.made) TDV.SDLApi.Sys.init ops
    let b := runAll mr (fun _ => Json.null) TDV.SDLApi.Ref.RSys.init ops
    return Json.mkObj [("obs", Json.arr a.1.toArray), ("ref", Json.arr b.1.toArray), ("made", Json.arr a.2.toArray)]

end TDV.Drv.Loader
