import TorchDataVerif.Model.SP
import TorchDataVerif.Drv.Util
/-! Driver for M6 `SP`: runs a history of loader operations through `TDV.SP.Loader`.

request {"m":"sp",
  "ds": {"kind": "map"|"map_stateful"|"iter_plain"|"iter_readme"|"iter_ds_state"|"iter_it_state"|"iter_selfiter"|"iter_ds_eager",
         "n": N, "fail": [items/indices that raise]},
  "bs": null | k, "drop_last": bool (loader.drop_last), "collate_fail": [items],
  "sampler": {"kind": "list"|"obj"|"random"|"inf", "order": [..] (list/obj), "bdl": bool (drop_last of the batch sampler),
              random: "n", "shared": bool, "g0": offset, "perm": [[list, next_offset], ..] indexed by generator offset,
                      "seed": [next_offset, ..] indexed by generator offset},
  "ops": [["fresh"] | ["iter"] | ["next"] | ["state"] | ["load", t] | ["peek"]]}
A generator state is its offset in the generator's output stream; `perm[p]` is what `randperm(n)` returns at
offset `p` and where it leaves the generator, `seed[p]` where the `_base_seed` draw leaves it.
answer {"obs": [..], "oob": bool}: fresh → null; iter → "ok"/"raise"; next → ["batch",[..]] | ["single",v] | ["stop"] |
  ["error",k]; state → token number | "raise"; load → null; peek → [live, num_yielded, sampler_iter_yielded, finished,
  ended, generator offset | null].
-/
namespace TDV.Drv.SP
open Lean TDV.Sampler TDV.SP TDV.Drv

def oob : Nat := 1000000000

def jstr (s : String) : Json := Json.str s

def encObs : Obs → Json
  | .batch l => Json.arr #[jstr "batch", ofNatList l]
  | .single v => Json.arr #[jstr "single", jnat v]
  | .stop => Json.arr #[jstr "stop"]
  | .error k => Json.arr #[jstr "error", jnat k]

def memFn (l : List Nat) : Nat → Bool := fun i => l.contains i

/-- Runs the ops. `genOf` reads the generator offset out of the sampler world (if there is one). -/
def runHist {W SSt D Ds Dt : Type} (S : IdxSrc W SSt) (Da : Data D Ds Dt) (c : Cfg) (w0 : W) (d0 : D)
    (genOf : W → Option Nat) (ops : List Json) : Except String Json := do
  let mut l : Loader W SSt D Ds Dt := Loader.fresh w0 d0
  let mut toks : Array (St SSt Ds Dt) := #[]
  let mut obs : Array Json := #[]
  let mut bad := false
  for op in ops do
    let a ← op.getArr?
    if a.size == 0 then throw "empty op"
    let nm ← a[0]!.getStr?
    match nm with
    | "fresh" => l := Loader.fresh w0 d0; obs := obs.push Json.null
    | "iter" =>
      let r := Loader.iter S Da c l
      l := r.2; obs := obs.push (jstr (if r.1 then "ok" else "raise"))
    | "next" =>
      if !l.live then throw "next without iterator"
      let r := Loader.next S Da c l
      l := r.2; obs := obs.push (encObs r.1)
    | "state" =>
      let r := Loader.stateDict S Da c l
      l := r.2
      match r.1 with
      | some st => obs := obs.push (jnat toks.size); toks := toks.push st
      | none => obs := obs.push (jstr "raise")
    | "load" =>
      let t ← (match a[1]? with
        | some j => j.getNat?
        | none => throw "load needs a token")
      match toks[t]? with
      | none => throw "unknown token"
      | some st => l := Loader.loadStateDict l st; obs := obs.push Json.null
    | "peek" =>
      obs := obs.push (Json.arr #[Json.bool l.live, jnat l.x.ny, jnat l.x.siy, Json.bool l.x.finished,
        Json.bool l.x.ended, ofOptNat (genOf l.x.sw)])
    | _ => throw s!"unknown op {nm}"
    match genOf l.x.sw with
    | some g => if g ≥ oob then bad := true
    | none => pure ()
  return Json.mkObj [("obs", Json.arr obs), ("oob", Json.bool bad)]

def withData (j : Json) (k : {D Ds Dt : Type} → Data D Ds Dt → D → Except String Json) : Except String Json := do
  let ds ← j.getObjVal? "ds"
  let n ← getNat ds "n"
  let fail := memFn (← getNatList ds "fail")
  match ← getStr ds "kind" with
  | "map" => k (mapData (fun i => if fail i then none else some i) false) 0
  | "map_stateful" => k (mapData (fun i => if fail i then none else some i) true) 0
  | "iter_plain" => k (plainGen n fail) (.dead, 0)
  | "iter_readme" => k (readme n fail) { i := 0, fr := .dead, idx := 0 }
  | "iter_ds_state" => k (dsStateGen n fail) { i := 0, done := false, fr := .dead }
  | "iter_it_state" => k (itStateObj n fail) 0
  | "iter_selfiter" => k (selfIterObj n fail) (0, false)
  | "iter_ds_eager" => k (eagerObj n fail) { i := 0, done := false, pos := 0 }
  | s => throw s!"unknown dataset kind {s}"

def tabGen (perm : Array (List Nat × Nat)) : Gen Nat where
  perm g _ := (perm[g]?).getD ([], oob)
  ints g _ _ := ([], g)

def decPermTab (j : Json) : Except String (Array (List Nat × Nat)) := do
  let es ← getArr j "perm"
  let es ← es.mapM fun e => do
    let a ← e.getArr?
    if a.size != 2 then throw "bad perm entry"
    pure (← natList a[0]!, ← a[1]!.getNat?)
  pure es.toArray

/-- Chooses the index source from the sampler description and the batch size. -/
def withSrc (j : Json) (k : {W SSt : Type} → IdxSrc W SSt → W → (W → Option Nat) → Except String Json) :
    Except String Json := do
  let sm ← j.getObjVal? "sampler"
  let bs : Option Nat := match j.getObjVal? "bs" with
    | .ok v => v.getNat?.toOption
    | .error _ => none
  let bdl := getBoolD sm "bdl" false
  match ← getStr sm "kind" with
  | "list" =>
    let xs ← getNatList sm "order"
    match bs with
    | none => k (bareSrc plainNested false id) (xs, []) (fun _ => none)
    | some b => k (batchSrc plainNested ⟨b, bdl⟩ id) { w := (xs, []), samplesYielded := 0 } (fun _ => none)
  | "obj" =>
    let xs ← getNatList sm "order"
    let w0 : ObjS := { order := xs, i := 0, done := false }
    match bs with
    | none => k (bareSrc objNested false id) w0 (fun _ => none)
    | some b => k (batchSrc objNested ⟨b, bdl⟩ id) { w := w0, samplesYielded := 0 } (fun _ => none)
  | "inf" =>
    match bs with
    | none => k (bareSrc infNested true id) () (fun _ => none)
    | some b => k (batchSrc infNested ⟨b, bdl⟩ id) { w := (), samplesYielded := 0 } (fun _ => none)
  | "random" =>
    let n ← getNat sm "n"
    let tab ← decPermTab sm
    let seedTab := (← getNatList sm "seed").toArray
    let R := tabGen tab
    let rc : RCfg := { n := n, replacement := false, numSamples := n }
    let draw : Nat → Nat := fun g => (seedTab[g]?).getD oob
    let sd := randSeed draw (getBoolD sm "shared" false)
    let dummy : RIter Nat := { genState := 0, yielded := 0, perm := [], permIndex := 0 }
    let w0 : RIter Nat × Nat := (dummy, ← getNat sm "g0")
    match bs with
    | none => k (bareSrc (randomNested R rc) false sd) w0 (fun w => some w.2)
    | some b => k (batchSrc (randomNested R rc) ⟨b, bdl⟩ sd) { w := w0, samplesYielded := 0 } (fun w => some w.w.2)
  | s => throw s!"unknown sampler kind {s}"

def handle (j : Json) : Except String Json := do
  let c : Cfg := { dropLast := getBoolD j "drop_last" false, collateFail := memFn (← getNatList j "collate_fail") }
  let ops ← getArr j "ops"
  withSrc j fun S w0 genOf =>
    withData j fun Da d0 =>
      runHist S Da c w0 d0 genOf ops

end TDV.Drv.SP
