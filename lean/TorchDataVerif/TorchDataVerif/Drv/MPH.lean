import TorchDataVerif.Model.MPHandshake
import TorchDataVerif.Drv.Util
/-! Driver for `MPH` (resume handshake with failing epoch starts): trace acceptor (K-T) for the FIXED protocol `step`.

request {"m":"mph","cfg":{"W":n,"early":[[epoch,worker]..],"late":[[epoch,worker]..]},"trace":[EVENT..],"old":bool?}
answer  {"ok":true,"steps":n,"log":[[epoch,"finished"|"raised"|"died",e,w]..]} | {"ok":false,"at":i,"why":".."}
"old": true replays through `stepOld` instead (used to show that the pre-fix model rejects / the witnesses).

EVENT (in the order the virtual scheduler executed them, all epochs of one loader):
  ["iter"]            the consumer calls iter(loader) on the persistent-workers iterator   -> `start`
  ["send",w]          main put `_ResumeIteration` on index queue w                          (checked against the inbox)
  ["ack",w,ok]        worker w put its acknowledgement (ok = a state, not an exception)      -> `work w`, payload checked
  ["recv",w,ok]       main took an acknowledgement from the data queue                       -> `recv`, queue head checked
  ["timeout"]         main's get timed out inside the handshake                              -> `timeout`
  ["finished"] | ["raised",w] | ["died"]   how iter() ended (w = worker named by the exception, 1000000 = unknown)
  ["end",[alive..],k] after iter() ended: which worker processes are alive, acknowledgements left in the data queue
-/
namespace TDV.Drv.MPH
open Lean TDV.MPH TDV.Drv

def decPairs (j : Json) (k : String) : Except String (List (Nat × Nat)) := do
  match j.getObjVal? k with
  | .error _ => pure []
  | .ok v =>
    let a ← v.getArr?
    a.toList.mapM fun p => do
      let l ← natList p
      match l with
      | [e, w] => pure (e, w)
      | _ => throw "pair expected"

def decCfg (j : Json) : Except String Cfg := do
  pure { W := ← getNat j "W", early := ← decPairs j "early", late := ← decPairs j "late" }

def argNat (a : Array Json) (i : Nat) : Except String Nat := do
  match a[i]? with
  | some j => j.getNat?
  | none => throw s!"missing argument {i}"

def argBool (a : Array Json) (i : Nat) : Except String Bool := do
  match a[i]? with
  | some j => j.getBool?
  | none => throw s!"missing argument {i}"

def isOk : Pay → Bool
  | .ok => true
  | _ => false

def fail (i : Nat) (why : String) : Json :=
  Json.mkObj [("ok", Json.bool false), ("at", jnat i), ("why", Json.str why)]

def encOut : Nat × Out → Json
  | (e, .finished) => Json.arr #[jnat e, Json.str "finished", jnat 0, jnat 0]
  | (e, .raised a b) => Json.arr #[jnat e, Json.str "raised", jnat a, jnat b]
  | (e, .workerDied) => Json.arr #[jnat e, Json.str "died", jnat 0, jnat 0]

/-- One event: the new state or the reason of the rejection. -/
def onEvent (stp : State → Action → Option State) (c : Cfg) (s : State) (ev : Json) : Except String State := do
  let a ← ev.getArr?
  let tag ← match a[0]? with
    | some j => j.getStr?
    | none => throw "empty event"
  match tag with
  | "iter" =>
    match stp s .start with
    | some s' => pure s'
    | none => throw "iter(): the model is inside a handshake"
  | "send" =>
    let w ← argNat a 1
    if w < c.W ∧ s.phase ≠ .idle then pure s
    else throw s!"_ResumeIteration put on index queue {w}: no such worker, or the model is not inside a handshake"
  | "ack" =>
    let w ← argNat a 1
    let ok ← argBool a 2
    match stp s (.work w) with
    | none => throw s!"worker {w} acknowledges: not enabled in the model (dead or no _ResumeIteration in its queue)"
    | some s' =>
      match s'.queue.getLast? with
      | some x =>
        if x.w = w ∧ isOk x.pay = ok then pure s'
        else throw s!"worker {w} acknowledges with ok={ok}: the model's worker answers ok={isOk x.pay}"
      | none => throw "model put nothing"
  | "recv" =>
    let w ← argNat a 1
    let ok ← argBool a 2
    match s.queue with
    | [] => throw "main takes an acknowledgement: the model's data queue is empty"
    | x :: _ =>
      if x.w ≠ w ∨ isOk x.pay ≠ ok then
        throw s!"main takes the acknowledgement of worker {w} (ok={ok}): head of the model's queue is worker {x.w} (ok={isOk x.pay})"
      else match stp s .recv with
        | some s' => pure s'
        | none => throw "main takes an acknowledgement: the model is not inside a handshake"
  | "timeout" =>
    match stp s .timeout with
    | some s' => pure s'
    | none => throw "timeout: not enabled (model not in a handshake, or its data queue is not empty)"
  | "finished" =>
    if s.phase = .idle ∧ s.log.getLast? = some (s.epoch, .finished) then pure s
    else throw s!"iter() returned: model phase {repr s.phase}, last outcome {repr s.log.getLast?}"
  | "raised" =>
    let w ← argNat a 1
    match s.phase, s.log.getLast? with
    | .idle, some (e, .raised _ w') =>
      if e = s.epoch ∧ (w = w' ∨ w = 1000000) then pure s
      else throw s!"iter() raised the exception of worker {w}: the model raised the one of worker {w'} (epoch {e})"
    | _, _ => throw s!"iter() raised: model phase {repr s.phase}, last outcome {repr s.log.getLast?}"
  | "died" =>
    if s.phase = .idle ∧ s.log.getLast? = some (s.epoch, .workerDied) then pure s
    else throw s!"iter() raised worker-died: model phase {repr s.phase}, last outcome {repr s.log.getLast?}"
  | "end" =>
    let al ← match a[1]? with
      | some j => do
        let l ← j.getArr?
        l.toList.mapM (fun b => b.getBool?)
      | none => throw "missing alive flags"
    let k ← argNat a 2
    if s.workers.map (·.alive) ≠ al then throw s!"alive workers: real {al}, model {s.workers.map (·.alive)}"
    else if s.queue.length ≠ k then throw s!"acknowledgements left in the data queue: real {k}, model {s.queue.length}"
    else pure s
  | x => throw s!"unknown event {x}"

def replay (stp : State → Action → Option State) (c : Cfg) : State → Nat → List Json → Json
  | s, n, [] => Json.mkObj [("ok", Json.bool true), ("steps", jnat n), ("log", Json.arr (s.log.map encOut).toArray)]
  | s, n, ev :: rest =>
    match onEvent stp c s ev with
    | .ok s' => replay stp c s' (n + 1) rest
    | .error e => fail n e

def handle (j : Json) : Except String Json := do
  let c ← decCfg (← j.getObjVal? "cfg")
  let evs ← (← j.getObjVal? "trace").getArr?
  let old := getBoolD j "old" false
  pure (replay (if old then stepOld c else step c) c (init c) 0 evs.toList)

end TDV.Drv.MPH
