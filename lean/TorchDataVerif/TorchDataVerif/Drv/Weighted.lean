import TorchDataVerif.Model.Weighted
import TorchDataVerif.Drv.Util
/-! Driver for M3 `weighted`: runs a script of node operations on `TDV.Weighted.Node`. -/
namespace TDV.Drv.Weighted
open Lean TDV.Weighted TDV.Drv

def decodeCrit (s : String) : Except String Crit :=
  if s == "CYCLE_UNTIL_ALL_DATASETS_EXHAUSTED" then pure .cycleUntil
  else if s == "ALL_DATASETS_EXHAUSTED" then pure .allExh
  else if s == "FIRST_DATASET_EXHAUSTED" then pure .firstExh
  else if s == "CYCLE_FOREVER" then pure .forever
  else throw s!"bad crit {s}"

/-- A batch is a string of decimal digits, one key per character. -/
def decodeBatch (n : Nat) (s : String) : Except String (List (Fin n)) :=
  s.toList.mapM fun ch =>
    let v := ch.toNat - 48
    if h : v < n then pure (⟨v, h⟩ : Fin n) else throw s!"key {v} out of range"

/-- Generator states are numbered `stride * epoch + batch index`. -/
def stride : Nat := 64

def mkEnv (n : Nat) (bs : Array (Array (List (Fin n)))) : Env n :=
  { B := fun g => ((bs.getD (g / stride) #[]).getD (g % stride) []), G0 := fun e => stride * e }

def encFun {n : Nat} (f : Fin n → Nat) : Json := ofNatList ((List.finRange n).map f)

def encState {n : Nat} (sd : SD n) : Json :=
  Json.mkObj [("exh", encFun fun k => if sd.exh k then 1 else 0), ("srcs", encFun sd.srcs),
    ("epoch", jnat sd.epoch), ("yielded", jnat sd.yielded),
    ("snap", ofNatList [sd.ws.1 / stride, sd.ws.1 % stride]), ("off", jnat sd.ws.2)]

def fuel : Nat := 200000

/-- request: {"m":"weighted","crit":C,"srcs":[[item,..],..],"batches":[[digits,..] per epoch],"ops":[op,..]}
    ops: ["next",N,past] (N calls of next(); unless past=1 no call after the first stop) | ["reset"] |
         ["state"] (get_state, appended to the saved states) | ["load",i] (reset(saved[i])) | ["new"] (fresh object)
    answer: {"ops":[per op: {"r":[[k,x] | "stop" | "short" | "fuel",..]} | {"epoch":e} | state | {}]} -/
def handle (j : Json) : Except String Json := do
  let crit ← decodeCrit (← getStr j "crit")
  let srcs ← (← getArr j "srcs").mapM natList
  let n := srcs.length
  let sa := srcs.toArray
  let cfg : Cfg n := { crit := crit, src := fun k => sa.getD k.val [] }
  let bsj ← getArr j "batches"
  let bs ← bsj.mapM fun e => do
    let l ← e.getArr?
    let l ← l.toList.mapM fun s => do decodeBatch n (← s.getStr?)
    pure l.toArray
  let E := mkEnv n bs.toArray
  let ops ← getArr j "ops"
  let mut x : Node n := Node.new E
  let mut saved : Array (SD n) := #[]
  let mut out : Array Json := #[]
  for op in ops do
    let a ← op.getArr?
    let name ← (a.getD 0 Json.null).getStr?
    if name == "next" then
      let cnt ← (a.getD 1 Json.null).getNat?
      let past := ((a.getD 2 Json.null).getNat?.toOption.getD 0) == 1
      let mut rs : Array Json := #[]
      let mut halted := false
      for _ in [0:cnt] do
        if halted then continue
        match Node.next cfg E fuel x with
        | none => rs := rs.push (Json.str "fuel"); halted := true
        | some (none, x') => x := x'; rs := rs.push (Json.str "short"); halted := true
        | some (some (.item k v), x') => x := x'; rs := rs.push (ofNatList [k.val, v])
        | some (some .stop, x') => x := x'; rs := rs.push (Json.str "stop"); if !past then halted := true
        | some (some .skip, x') => x := x'; rs := rs.push (Json.str "skip")
      out := out.push (Json.mkObj [("r", Json.arr rs)])
    else if name == "reset" then
      x := Node.reset E x none
      out := out.push (Json.mkObj [("epoch", jnat x.epoch)])
    else if name == "state" then
      saved := saved.push x.getState
      out := out.push (encState x.getState)
    else if name == "load" then
      let i ← (a.getD 1 Json.null).getNat?
      match saved[i]? with
      | none => throw "no such saved state"
      | some sd => x := Node.reset E x (some sd); out := out.push (Json.mkObj [])
    else if name == "new" then
      x := Node.new E
      out := out.push (Json.mkObj [])
    else throw s!"bad op {name}"
  return Json.mkObj [("ops", Json.arr out)]

end TDV.Drv.Weighted
