import Lean.Data.Json
/-! JSON helpers shared by the model drivers (the line protocol of DESIGN.md §4.1). -/
namespace TDV.Drv
open Lean

def getNat (j : Json) (k : String) : Except String Nat := do
  let v ← j.getObjVal? k
  v.getNat?

def getNatD (j : Json) (k : String) (d : Nat) : Nat :=
  match j.getObjVal? k with
  | .ok v => (v.getNat?.toOption).getD d
  | .error _ => d

def getBoolD (j : Json) (k : String) (d : Bool) : Bool :=
  match j.getObjVal? k with
  | .ok v => (v.getBool?.toOption).getD d
  | .error _ => d

def getStr (j : Json) (k : String) : Except String String := do
  let v ← j.getObjVal? k
  v.getStr?

def getArr (j : Json) (k : String) : Except String (List Json) := do
  let v ← j.getObjVal? k
  let a ← v.getArr?
  pure a.toList

def natList (j : Json) : Except String (List Nat) := do
  let a ← j.getArr?
  a.toList.mapM (·.getNat?)

def getNatList (j : Json) (k : String) : Except String (List Nat) := do
  let v ← j.getObjVal? k
  natList v

def jnat (n : Nat) : Json := Json.num (JsonNumber.fromNat n)

def ofNatList (l : List Nat) : Json := Json.arr (l.map jnat).toArray

def ofOptNat : Option Nat → Json
  | none => Json.null
  | some n => jnat n

end TDV.Drv

namespace TDV.Drv
open Lean

def answerWith (h : Json → Except String Json) (line : String) : Json :=
  match Json.parse line with
  | .error e => Json.mkObj [("error", Json.str s!"parse: {e}")]
  | .ok j =>
    match h j with
    | .ok r => r
    | .error e => Json.mkObj [("error", Json.str e)]

partial def mainLoopAux (h : Json → Except String Json) (inp : IO.FS.Stream) : IO Unit := do
  let line ← inp.getLine
  if line.isEmpty then return ()
  if line.trimAscii.toString.isEmpty then mainLoopAux h inp else
  IO.println (answerWith h line).compress
  mainLoopAux h inp

/-- One JSON request per stdin line, one JSON answer per stdout line. A per-model main file is
`import TorchDataVerif.Drv.X` + `def main : IO Unit := TDV.Drv.mainLoop TDV.Drv.X.handle`. -/
def mainLoop (h : Json → Except String Json) : IO Unit := do mainLoopAux h (← IO.getStdin)

end TDV.Drv
