import Lean.Data.Json
/-! JSON helpers shared by the model drivers (the line protocol of DESIGN.md §4.1). -/
namespace TDV.Drv
open Lean

def getNat (j : Json) (k : String) : Except String Nat := do
  let v ← j.getObjVal? k
  v.getNat?

def getNatD (j : Json) (k : String) (d : Nat) : Nat :=
  match j.getObjVal? k with
  | .ok v => (v.getNat?.toOption).getD d
  | .error _ => d

def getBoolD (j : Json) (k : String) (d : Bool) : Bool :=
  match j.getObjVal? k with
  | .ok v => (v.getBool?.toOption).getD d
  | .error _ => d

def getStr (j : Json) (k : String) : Except String String := do
  let v ← j.getObjVal? k
  v.getStr?

def getArr (j : Json) (k : String) : Except String (List Json) := do
  let v ← j.getObjVal? k
  let a ← v.getArr?
  pure a.toList

def natList (j : Json) : Except String (List Nat) := do
  let a ← j.getArr?
  a.toList.mapM (·.getNat?)

def getNatList (j : Json) (k : String) : Except String (List Nat) := do
  let v ← j.getObjVal? k
  natList v

def jnat (n : Nat) : Json := Json.num (JsonNumber.fromNat n)

def ofNatList (l : List Nat) : Json := Json.arr (l.map jnat).toArray

def ofOptNat : Option Nat → Json
  | none => Json.null
  | some n => jnat n

end TDV.Drv
