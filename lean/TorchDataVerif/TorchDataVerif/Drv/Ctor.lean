import TorchDataVerif.Model.Ctor
import TorchDataVerif.Drv.Util
/-! Driver for the constructor model `TDV.Ctor`: runs a script of façade operations. -/
namespace TDV.Drv.Ctor
open Lean TDV.Ctor TDV.Drv

def errName : ErrKind → String
  | .assertion => "AssertionError"
  | .key => "KeyError"

def outcomeJson : Outcome → Json
  | .ok => Json.str "ok"
  | .error e => Json.str (errName e)

def keyName : TopKey → String
  | .indexSamplerState => "_index_sampler_state"
  | .samplerIterState => "_sampler_iter_state"
  | .samplerIterYielded => "_sampler_iter_yielded"
  | .numYielded => "_num_yielded"
  | .iterableLenCalled => "_IterableDataset_len_called"
  | .sharedSeed => "_shared_seed"
  | .fetcherState => "fetcher_state"
  | .datasetState => "dataset_state"
  | .iteratorFinished => "_iterator_finished"
  | .snapshot => "_snapshot"
  | .stepsSinceSnapshot => "_steps_since_snapshot"

def stageName : Stage → String
  | .baseInit => "baseInit"
  | .hasKey k => s!"hasKey:{keyName k}"
  | .workerKeysOk => "workerKeysOk"
  | .mergeWorkerStates e r => s!"merge:{e}:{r}"
  | .startWorkers n => s!"start:{n}"
  | .handshake n => s!"handshake:{n}"
  | .restoreMain => "restoreMain"
  | .restoreSP => "restoreSP"
  | .freshStart => "freshStart"

/-- size of `worker_states` / `_worker_snapshots` once merged (none before that stage) -/
def entriesOf (r : Result) : Option Nat :=
  r.stages.findSome? fun s => match s with | .mergeWorkerStates e _ => some e | _ => none

def resultJson (r : Result) : Json :=
  Json.mkObj [("stages", Json.arr (r.stages.map fun s => Json.str (stageName s)).toArray),
    ("started", jnat r.started), ("release", jnat r.mustRelease), ("handshake", Json.bool r.handshakeDone),
    ("entries", ofOptNat (entriesOf r)), ("outcome", outcomeJson r.outcome)]

def facadeFields (f : Facade) : List (String × Json) :=
  [("pending", Json.bool f.pending.isSome), ("iterator", Json.bool f.iterator.isSome),
   ("flag", Json.bool f.initialForSD),
   ("yielded", ofOptNat (f.iterator.map (·.numYielded))),
   ("fresh", match f.iterator with | some it => Json.bool it.origin.isNone | none => Json.null),
   ("live", jnat (match f.iterator with | some it => it.workers | none => 0))]

def opOutJson (o : OpOut) : Json :=
  Json.mkObj ([("outcome", outcomeJson o.outcome), ("calls", Json.arr (o.calls.map resultJson).toArray),
    ("started", jnat (o.calls.map Result.started).sum)] ++ facadeFields o.facade)

def stepOp (f : Facade) (j : Json) : Except String (Json × Facade) := do
  let op ← getStr j "op"
  match op with
  | "load" =>
    let f' := f.load (stateOf (← getNat j "ws") (← getNat j "k") (← getNat j "len"))
    return (Json.mkObj ([("outcome", Json.null)] ++ facadeFields f'), f')
  | "raw" =>
    let f' := f.load (.mp ⟨← getNat j "nw", ← getNatList j "keys"⟩ (← getNat j "y") (getBoolD j "fin" false))
    return (Json.mkObj ([("outcome", Json.null)] ++ facadeFields f'), f')
  | "empty" =>
    let f' := f.load .empty
    return (Json.mkObj ([("outcome", Json.null)] ++ facadeFields f'), f')
  | "iter" => let o := f.iter; return (opOutJson o, o.facade)
  | "sd" => let o := f.stateDict; return (opOutJson o, o.facade)
  | _ => throw s!"unknown op {op}"

/-- request: {"m":"ctor","wl":W,"persistent":b,"ops":[{"op":"load","ws":a,"k":k,"len":L} |
      {"op":"raw","nw":n,"keys":[i,..],"y":k,"fin":b} | {"op":"empty"} | {"op":"iter"} | {"op":"sd"}, …]}
    answer: {"steps":[{"outcome":null|"ok"|"AssertionError"|"KeyError","calls":[{"stages":[..],"started":n,
      "release":n,"handshake":b,"entries":n|null,"outcome":..}],"started":n,"pending":b,"iterator":b,"flag":b,
      "yielded":n|null,"fresh":b|null,"live":n}, …]} -/
def handle (j : Json) : Except String Json := do
  let wl ← getNat j "wl"
  let ops ← getArr j "ops"
  let mut f := Facade.fresh wl (getBoolD j "persistent" false)
  let mut out : Array Json := #[]
  for o in ops do
    let (a, f') ← stepOp f o
    out := out.push a
    f := f'
  return Json.mkObj [("steps", Json.arr out)]

end TDV.Drv.Ctor
