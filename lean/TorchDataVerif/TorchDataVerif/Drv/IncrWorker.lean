import TorchDataVerif.Model.IncrWorker
import TorchDataVerif.Drv.Incr
/-! Driver for M1w `IncrW`: runs a history of hand-shake ops through a worker/main wrapper pair. -/
namespace TDV.Drv.IncrWorker
open Lean TDV.Incr TDV.IncrW TDV.Drv TDV.Drv.Incr

def decodeOptVal (j : Json) : Except String (Option Val) :=
  if j.isNull then pure none else do
    let v ← decodeVal j
    pure (some v)

def encodeOptVal : Option Val → Json
  | none => Json.null
  | some v => encodeVal v

/-- R = {"w":nat,"ds":V|null,"f":null|{"e":bool,"it":V|null}} -/
def decodeReport (j : Json) : Except String Report := do
  let w ← getNat j "w"
  let ds ← decodeOptVal (← j.getObjVal? "ds")
  let fj ← j.getObjVal? "f"
  if fj.isNull then
    return { wid := w, ds := ds, fetch := none }
  let e ← (← fj.getObjVal? "e").getBool?
  let it ← decodeOptVal (← fj.getObjVal? "it")
  return { wid := w, ds := ds, fetch := some { ended := e, iter := it } }

def decodeOp (j : Json) : Except String Op := do
  let op ← getStr j "op"
  let r ← decodeReport (← j.getObjVal? "r")
  match op with
  | "report" => return .report r
  | "skip" => return .reportSkipped r
  | "restart" => return .restart r
  | "resume" => return .resumeEpoch r
  | "restore" =>
    let s ← decodeReport (← j.getObjVal? "s")
    return .restore s r
  | _ => throw s!"unknown op {op}"

def encodeState (s : State) : Json :=
  Json.mkObj [("w", ofOptNat s.wid), ("ds", encodeOptVal s.ds),
    ("f", match s.fetch with
      | none => Json.null
      | some (e, i) => Json.mkObj [("e", Json.bool e), ("it", encodeOptVal i)])]

def encodeOptDelta : Option Delta → Json
  | none => Json.null
  | some d => encodeDelta d

def encodeWDelta (d : WDelta) : Json :=
  Json.mkObj [("w", jnat d.wid), ("ds", encodeOptDelta d.ds),
    ("f", match d.fetch with
      | none => Json.null
      | some fd => Json.mkObj [("e", Json.bool fd.ended), ("it", encodeOptDelta fd.iter)])]

/-- The delta shipped by an op (if any). -/
def shipped (st : Sync) : Op → Option WDelta
  | .report r => some (st.worker.generateDelta r).2
  | .restore s r => some ((W.init (some s)).generateDelta r).2
  | _ => none

/-- request: {"m":"incrw","ops":[{"op":"report"|"skip"|"restart"|"resume"|"restore","r":R,("s":R)},...]}
    answer: {"state0":S,"steps":[{"delta":D|null,"main":S,"worker":S}, ...]} -/
def handle (j : Json) : Except String Json := do
  let ops ← (← getArr j "ops").mapM decodeOp
  let mut st := Sync.init
  let mut out : Array Json := #[]
  for o in ops do
    let d := shipped st o
    st := st.step o
    out := out.push (Json.mkObj [
      ("delta", match d with | none => Json.null | some d => encodeWDelta d),
      ("main", encodeState st.main.getState), ("worker", encodeState st.worker.getState)])
  return Json.mkObj [("state0", encodeState Sync.init.main.getState), ("steps", Json.arr out)]

end TDV.Drv.IncrWorker
