import TorchDataVerif.Model.Alias
import TorchDataVerif.Drv.Util
/-! Driver for the reference-level model `TDV.Alias`. -/
namespace TDV.Drv.Alias
open Lean TDV.Alias TDV.Drv

def opOf (j : Json) : Except String Op := do
  match (← getStr j "op") with
  | "step" => return .step (← getNat j "v")
  | "rebind" => return .rebind (← getNat j "v")
  | "get" => return .get
  | "load" => return .load (← getNat j "h")
  | "new" => return .userNew (← getNat j "v")
  | o => throw s!"unknown op {o}"

/-- what Python can observe after an operation: the live content, and per dict the user holds whether it IS the live
object (`is`), its current content and whether that is still the content at hand-over -/
def obs (s : St) : Json :=
  Json.mkObj [("content", jnat (content s)),
    ("alias", Json.arr ((List.range s.user.length).map fun h => Json.bool (aliased s h)).toArray),
    ("user", ofNatList (s.user.map fun e => s.heap e.1)),
    ("intact", Json.bool (immutableB s))]

/-- request: {"m":"alias","copyIn":b,"copyOut":b,"inPlace":b,"v0":n,"ops":[{"op":"step","v":n}|{"op":"rebind","v":n}|{"op":"get"}|
      {"op":"load","h":i}|{"op":"new","v":n}, …]}
    answer: {"safe":b,"steps":[{"content":n,"alias":[b,..],"user":[n,..],"intact":b}, …]} -/
def handle (j : Json) : Except String Json := do
  let p : Policy := ⟨getBoolD j "copyIn" false, getBoolD j "copyOut" false, getBoolD j "inPlace" false⟩
  let ops ← getArr j "ops"
  let mut s := init (← getNat j "v0")
  let mut out : Array Json := #[]
  for o in ops do
    s := step p s (← opOf o)
    out := out.push (obs s)
  return Json.mkObj [("safe", Json.bool p.Safe), ("steps", Json.arr out)]

end TDV.Drv.Alias
