import TorchDataVerif.Model.Sampler
import TorchDataVerif.Drv.Util
/-! Driver for M2 `Sampler`: runs op scripts over the three iterators.

The generator is an *oracle stream*: `draws[i]` is the list torch returned for the i-th draw from the
seeded generator (all draws of one case have the same kind and size), and a generator state is the number
of draws consumed so far (`set_state` = jump to that index).

requests (all have "m":"sampler"):
* {"kind":"random","n","repl","ns","draws":[[..],..],"ops":[..]}
    ops: ["fresh",g] new sampler whose generator is at draw index g (no iterator) | ["iter"] | ["next"] |
         ["state"] | ["load",yielded,g] | ["gen"]
    obs: null | null | ["item",v]/["stop"]/["err"] | [yielded,g] | "ok"/"raise" | g
* {"kind":"dist","n","replicas","rank","dl","shuf":[[epoch,[idx..]],..],"ops":[..]}
    ops: ["fresh"] | ["epoch",e] | ["iter"] | ["next"] | ["state"] | ["load",k]
    answer also has "indices":[[epoch,[..]],..] and "num_samples"
* {"kind":"batch","bs","bdl" (batch drop_last),"nested":"random"|"dist"|"plain", + the nested sampler's fields
   (plain: "xs":[..]), "ops":[..]}
    ops: ["fresh",g] (g ignored unless random) | ["epoch",e] (dist) | ["iter"] | ["next"] | ["state"] |
         ["load",sd] | ["gen"] (random)
    obs of next: ["batch",[..]]/["stop"]/["err"]; state: [samples_yielded, sampler_state|null, iter_state|null]
answer: {"obs":[..],"oob":bool}; "oob" = a draw beyond the recorded oracle was requested.
-/
namespace TDV.Drv.Sampler
open Lean TDV.Sampler TDV.Drv

def oracle (tab : Array (List Nat)) : Gen Nat where
  perm g _ := ((tab[g]?).getD [], g + 1)
  ints g _ _ := ((tab[g]?).getD [], g + 1)

def jstr (s : String) : Json := Json.str s

def encOut : Out → Json
  | .item v => Json.arr #[jstr "item", jnat v]
  | .stop => Json.arr #[jstr "stop"]
  | .err => Json.arr #[jstr "err"]

def encBOut : BOut → Json
  | .batch l => Json.arr #[jstr "batch", ofNatList l]
  | .stop => Json.arr #[jstr "stop"]
  | .err => Json.arr #[jstr "err"]

def opName (op : Json) : Except String (String × Array Json) := do
  let a ← op.getArr?
  if a.size == 0 then throw "empty op"
  let nm ← a[0]!.getStr?
  pure (nm, a)

def argNat (a : Array Json) (i : Nat) : Except String Nat := do
  match a[i]? with
  | some j => j.getNat?
  | none => throw s!"missing op argument {i}"

def getTable (j : Json) : Except String (Array (List Nat)) := do
  let ds ← getArr j "draws"
  let ds ← ds.mapM natList
  pure ds.toArray

def getRCfg (j : Json) : Except String RCfg := do
  pure { n := ← getNat j "n", replacement := getBoolD j "repl" false, numSamples := ← getNat j "ns" }

def getDCfg (j : Json) : Except String DCfg := do
  pure { n := ← getNat j "n", replicas := ← getNat j "replicas", rank := ← getNat j "rank",
         dropLast := getBoolD j "dl" false }

def getShuf (j : Json) : Except String (List (Nat × List Nat)) := do
  let es ← getArr j "shuf"
  es.mapM fun e => do
    let a ← e.getArr?
    if a.size != 2 then throw "bad shuf entry"
    pure (← a[0]!.getNat?, ← natList a[1]!)

def shufFn (tab : List (Nat × List Nat)) (e : Nat) : List Nat := (tab.lookup e).getD []

/-! ### random -/

def handleRandom (j : Json) : Except String Json := do
  let c ← getRCfg j
  let tab ← getTable j
  let R := oracle tab
  let ops ← getArr j "ops"
  let mut it : Option (RIter Nat) := none
  let mut g : Nat := 0
  let mut oob := false
  let mut obs : Array Json := #[]
  for op in ops do
    let (nm, a) ← opName op
    match nm with
    | "fresh" => g ← argNat a 1; it := none; obs := obs.push Json.null
    | "iter" =>
      let w := RIter.create R c g
      it := some w.1; g := w.2; obs := obs.push Json.null
    | "next" =>
      match it with
      | none => throw "next without iterator"
      | some i =>
        let r := RIter.next R c (i, g)
        it := some r.2.1; g := r.2.2; obs := obs.push (encOut r.1)
    | "state" =>
      match it with
      | none => throw "state without iterator"
      | some i => obs := obs.push (Json.arr #[jnat i.stateDict.1, jnat i.stateDict.2])
    | "load" =>
      match it with
      | none => throw "load without iterator"
      | some i =>
        match RIter.load R c (i, g) (← argNat a 1, ← argNat a 2) with
        | none => obs := obs.push (jstr "raise")
        | some w => it := some w.1; g := w.2; obs := obs.push (jstr "ok")
    | "gen" => obs := obs.push (jnat g)
    | _ => throw s!"unknown op {nm}"
    if g > tab.size then oob := true
  return Json.mkObj [("obs", Json.arr obs), ("oob", Json.bool oob)]

/-! ### dist -/

def handleDist (j : Json) : Except String Json := do
  let c ← getDCfg j
  let tab ← getShuf j
  let shuf := shufFn tab
  let ops ← getArr j "ops"
  let mut w : DWorld := DWorld.fresh
  let mut obs : Array Json := #[]
  for op in ops do
    let (nm, a) ← opName op
    match nm with
    | "fresh" => w := DWorld.fresh; obs := obs.push Json.null
    | "epoch" => w := w.setEpoch (← argNat a 1); obs := obs.push Json.null
    | "iter" => w := w.iter c shuf; obs := obs.push Json.null
    | "next" =>
      let r := DWorld.next w
      w := r.2; obs := obs.push (encOut r.1)
    | "state" => obs := obs.push (jnat w.stateDict)
    | "load" => w := w.load (← argNat a 1); obs := obs.push Json.null
    | _ => throw s!"unknown op {nm}"
  let inds := tab.map fun (e, idx) => Json.arr #[jnat e, ofNatList (c.indices idx)]
  return Json.mkObj [("obs", Json.arr obs), ("oob", Json.bool false),
    ("indices", Json.arr inds.toArray), ("num_samples", jnat c.numSamples)]

/-! ### batch -/

def encBState {S T : Type} (es : S → Json) (et : T → Json) (sd : Nat × Option S × Option T) : Json :=
  Json.arr #[jnat sd.1, (sd.2.1.map es).getD Json.null, (sd.2.2.map et).getD Json.null]

def optField (a : Array Json) (i : Nat) : Option Json :=
  match a[i]? with
  | some Json.null => none
  | some j => some j
  | none => none

/-- Generic batch script runner.  `pre` handles the ops that act on the nested world only
("fresh", "epoch", "gen"). -/
def runBatch {W S T : Type} (N : Nested W S T) (bc : BCfg) (w0 : W)
    (pre : String → Array Json → W → Except String (Option (W × Json)))
    (es : S → Json) (et : T → Json) (ds : Json → Except String S) (dt : Json → Except String T)
    (bad : W → Bool) (ops : List Json) : Except String Json := do
  let mut w : W := w0              -- world when no batch iterator exists
  let mut b : Option (BIter W) := none
  let mut oob := false
  let mut obs : Array Json := #[]
  for op in ops do
    let (nm, a) ← opName op
    let cur : W := match b with
      | some bi => bi.w
      | none => w
    match ← pre nm a cur with
    | some (w', o) =>
      if nm == "fresh" then
        w := w'; b := none
      else
        match b with
        | some bi => b := some { bi with w := w' }
        | none => w := w'
      obs := obs.push o
    | none =>
      match nm with
      | "iter" => b := some (BIter.create N cur); obs := obs.push Json.null
      | "next" =>
        match b with
        | none => throw "next without iterator"
        | some bi =>
          let r := BIter.next N bc bi
          b := some r.2; obs := obs.push (encBOut r.1)
      | "state" =>
        match b with
        | none => throw "state without iterator"
        | some bi => obs := obs.push (encBState es et (BIter.stateDict N bi))
      | "load" =>
        match b with
        | none => throw "load without iterator"
        | some bi =>
          let sdj ← (match a[1]? with
            | some j => j.getArr?
            | none => throw "load needs a state")
          let sy ← argNat sdj 0
          let s ← (optField sdj 1).mapM ds
          let t ← (optField sdj 2).mapM dt
          match BIter.load N bi (sy, s, t) with
          | none => obs := obs.push (jstr "raise")
          | some b' => b := some b'; obs := obs.push (jstr "ok")
      | _ => throw s!"unknown op {nm}"
    let cur2 : W := match b with
      | some bi => bi.w
      | none => w
    if bad cur2 then oob := true
  return Json.mkObj [("obs", Json.arr obs), ("oob", Json.bool oob)]

def decPair (j : Json) : Except String (Nat × Nat) := do
  let a ← j.getArr?
  if a.size != 2 then throw "bad pair"
  pure (← a[0]!.getNat?, ← a[1]!.getNat?)

def handleBatch (j : Json) : Except String Json := do
  let bc : BCfg := { batchSize := ← getNat j "bs", dropLast := getBoolD j "bdl" false }
  let ops ← getArr j "ops"
  match ← getStr j "nested" with
  | "random" =>
    let c ← getRCfg j
    let tab ← getTable j
    let R := oracle tab
    let dummy : RIter Nat := { genState := 0, yielded := 0, perm := [], permIndex := 0 }
    runBatch (randomNested R c) bc (dummy, 0)
      (fun nm a w => do
        match nm with
        | "fresh" => pure (some ((dummy, ← argNat a 1), Json.null))
        | "gen" => pure (some (w, jnat w.2))
        | _ => pure none)
      (fun _ => Json.null) (fun t => Json.arr #[jnat t.1, jnat t.2])
      (fun _ => pure ()) decPair (fun w => w.2 > tab.size) ops
  | "dist" =>
    let c ← getDCfg j
    let tab ← getShuf j
    runBatch (distNested c (shufFn tab)) bc DWorld.fresh
      (fun nm a w => do
        match nm with
        | "fresh" => pure (some (DWorld.fresh, Json.null))
        | "epoch" => pure (some (w.setEpoch (← argNat a 1), Json.null))
        | _ => pure none)
      jnat (fun _ => Json.null) (fun j => j.getNat?) (fun _ => pure ()) (fun _ => false) ops
  | "plain" =>
    let xs ← getNatList j "xs"
    runBatch plainNested bc (xs, [])
      (fun nm _ _ => do
        match nm with
        | "fresh" => pure (some ((xs, []), Json.null))
        | _ => pure none)
      (fun _ => Json.null) (fun _ => Json.null) (fun _ => pure ()) (fun _ => pure ()) (fun _ => false) ops
  | k => throw s!"unknown nested kind {k}"

def handle (j : Json) : Except String Json := do
  match ← getStr j "kind" with
  | "random" => handleRandom j
  | "dist" => handleDist j
  | "batch" => handleBatch j
  | k => throw s!"unknown kind {k}"

end TDV.Drv.Sampler
