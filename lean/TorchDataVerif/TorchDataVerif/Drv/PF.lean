import TorchDataVerif.Model.PF
import TorchDataVerif.Drv.Util
/-!
Driver for M5 `PF`: the model as an ACCEPTOR of event traces recorded from the real threads (DESIGN §4.2).

request  {"m":"pf","cfg":{"pf":..,"f":..},
          "gens":[{"src":[..],"term":"stop"|"error","base":p,"start_err":b}, ...],   (generation 0 is started at once)
          "trace":[[thread, op, x, y, z], ...]}          (x,y,z naturals, missing = 0)
answer   {"ok":true,"steps":n,"actions":k,"tmo":t,"ahead":a,"insrc":r}  |  {"ok":false,"at":i,"why":"..."}
         ahead = max over the run of (items pulled by the current reader − messages fully processed by the consumer),
         insrc = max over the run of the number of readers inside the source.

thread: "r<g>" reader of generation g, "c" consumer (always acts on the newest generation).
Payload kinds: 0 item, 1 StopIteration, 2 ExceptionWrapper, 3 nothing (timeout / queue.Empty).
Table event → model action:
  r init | isset b | acq b | enter | leave k v | append ver snap | put k v idx | exit (the worker function returns)
  c boot b | isset b (while the model consumer is idle this is the start of a `next()`: cCall first)
    | get k v idx | release newvalue | set (inside next(): cSet; outside: `_shutdown`'s cShut) | pop idx has snap
    | join b (b=1 the thread had exited / join returned, b=0 the timed join gave up)
    | ret k v | state snap steps | reset g (new generation with gens[g])
-/
namespace TDV.Drv.PF
open Lean TDV.PF TDV.Drv

structure Ev where
  th : String
  op : String
  x : Nat
  y : Nat
  z : Nat

def decodeEv (j : Json) : Except String Ev := do
  let a ← j.getArr?
  if a.size < 2 then throw "short event"
  let th ← a[0]!.getStr?
  let op ← a[1]!.getStr?
  let g (i : Nat) : Except String Nat := if h : i < a.size then a[i].getNat? else pure 0
  return { th, op, x := ← g 2, y := ← g 3, z := ← g 4 }

def decodeGen (pf f : Nat) (j : Json) : Except String Cfg := do
  let src ← getNatList j "src"
  let term ← getStr j "term"
  return { pf := pf, f := f, src := src, term := if term == "error" then .error else .stop,
           base := getNatD j "base" 0, startErr := getBoolD j "start_err" false }

def payKind : Pay → Nat
  | .item _ => 0 | .stop => 1 | .err => 2
def payVal : Pay → Nat
  | .item v => v | _ => 0

def showMsg (m : Msg) : String := s!"({payKind m.pay},{payVal m.pay},{m.idx})"

def msgIs (m : Msg) (k v i : Nat) : Bool :=
  payKind m.pay == k && m.idx == i && (k != 0 || payVal m.pay == v)

structure St where
  g : GState
  ngen : Nat := 1                          -- generations so far; generation k is `old[ngen-2-k]`, the newest is `cur`
  lastRet : Option (Nat × Nat) := none     -- (kind, value) of the last return of next(): 0 item, 1 stop, 2 error
  actions : Nat := 0
  tmo : Nat := 0
  ahead : Nat := 0
  insrc : Nat := 0

def need (b : Bool) (why : String) : Except String Unit := if b then pure () else throw why

def b2n (b : Bool) : Nat := if b then 1 else 0

def showState (s : State) : String :=
  s!"rpc={repr s.rpc} cpc={repr s.cpc} sem={s.sem} stop={s.stop} q={s.q.map showMsg} store={s.store} pulled={s.pulled}"

/-- what `next()` returned, if this consumer step ended the call -/
def retOf (s s' : State) : Option (Nat × Nat) :=
  if s.cpc != .idle && s'.cpc == .idle then
    if s'.got.length > s.got.length then
      match s'.got.getLast? with
      | some ⟨.item v, _⟩ => some (0, v)
      | some ⟨.stop, _⟩ => some (1, 0)
      | some ⟨.err, _⟩ => some (2, 0)
      | none => none
    else if s'.nstop > s.nstop then some (1, 0) else none
  else none

def bump (st : St) (g' : GState) (a : Action) : St :=
  { st with g := g', actions := st.actions + 1, tmo := st.tmo + (if a.isTimeout then 1 else 0),
            ahead := max st.ahead (g'.cur.pulled - g'.cur.got.length),
            insrc := max st.insrc (readersInSource g') }

/-- an action of the newest generation -/
def actCur (st : St) (a : Action) : Except String St :=
  match gstep st.g (.cur a) with
  | some g' =>
    let st' := bump st g' a
    pure (match retOf st.g.cur g'.cur with
      | some r => { st' with lastRet := some r }
      | none => st')
  | none => throw s!"model action {repr a} is not enabled ({showState st.g.cur})"

/-- a reader action of generation `k` -/
def actGen (st : St) (k : Nat) (a : Action) : Except String St :=
  if k + 1 == st.ngen then actCur st a
  else if k + 1 < st.ngen then
    let i := st.ngen - 2 - k
    match gstep st.g (.old i a) with
    | some g' => pure (bump st g' a)
    | none => throw s!"model action {repr a} of old generation {k} is not enabled ({(st.g.old[i]?.map fun p => showState p.2).getD "?"})"
  else throw s!"unknown generation {k}"

def genState (st : St) (k : Nat) : Except String State :=
  if k + 1 == st.ngen then pure st.g.cur
  else match st.g.old[st.ngen - 2 - k]? with
    | some p => pure p.2
    | none => throw s!"unknown generation {k}"

def readerEv (st : St) (k : Nat) (e : Ev) : Except String St := do
  let s ← genState st k
  match e.op with
  | "init" => actGen st k .rInit
  | "isset" =>
    need (b2n s.stop == e.x) s!"reader is_set: model {s.stop}"
    actGen st k .rIsSet
  | "acq" => actGen st k (if e.x == 1 then .rAcq else .rAcqT)
  | "enter" => actGen st k .rEnter
  | "exit" => actGen st k .rExit
  | "leave" =>
    let st' ← actGen st k .rLeave
    let s' ← genState st' k
    match s'.rpc with
    | .app v _ => need (e.x == 0 && e.y == v) s!"source returned kind {e.x} value {e.y}, model item {v}"
    | .put m => need (payKind m.pay == e.x && (e.x != 0 || payVal m.pay == e.y))
                  s!"source returned kind {e.x} value {e.y}, model {showMsg m}"
    | _ => throw "model reader not holding a result after leave"
    pure st'
  | "append" =>
    match s.rpc with
    | .app _ i =>
      need (i == e.x) s!"append version {e.x}, model {i}"
      let st' ← actGen st k .rAppend
      let s' ← genState st' k
      need (s'.store.getLast? == some (e.x, e.y)) s!"append ({e.x},{e.y}), model store {s'.store}"
      pure st'
    | _ => throw s!"append while model reader is at {repr s.rpc}"
  | "put" =>
    match s.rpc with
    | .put m =>
      need (msgIs m e.x e.y e.z) s!"put ({e.x},{e.y},{e.z}), model {showMsg m}"
      actGen st k .rPut
    | p => throw s!"put while model reader is at {repr p}"
  | op => throw s!"unknown reader op {op}"

def consumerEv (gens : Array Cfg) (st : St) (e : Ev) : Except String St := do
  let s := st.g.cur
  match e.op with
  | "boot" => actCur st (if e.x == 1 then .cBoot else .cBootT)
  | "isset" =>
    let st ← if s.cpc == .idle then actCur st .cCall else pure st
    need (b2n st.g.cur.stop == e.x) s!"consumer is_set: model {st.g.cur.stop}"
    actCur st .cIsSet
  | "get" =>
    if e.x == 3 then actCur st .cGetT
    else
      let st' ← actCur st .cGet
      match st'.g.cur.cpc with
      | .rel m => need (payKind m.pay == e.x && m.idx == e.z && (e.x != 0 || payVal m.pay == e.y))
                    s!"get ({e.x},{e.y},{e.z}), model {showMsg m}"
      | _ => throw "model consumer holds nothing after get"
      pure st'
  | "release" =>
    let st' ← actCur st .cRel
    need (st'.g.cur.sem == e.x) s!"semaphore value after release {e.x}, model {st'.g.cur.sem}"
    pure st'
  | "set" =>
    match s.cpc with
    | .set _ => actCur st .cSet
    | _ => actCur st .cShut
  | "pop" =>
    match s.cpc with
    | .pop m =>
      need (m.idx == e.x) s!"pop_version({e.x}), model idx {m.idx}"
      let st' ← actCur st .cPop
      let has := st'.g.cur.steps == 0
      need (b2n has == e.y) s!"pop_version({e.x}) found={e.y}, model {has}"
      need (e.y == 0 || st'.g.cur.snap == e.z) s!"pop_version({e.x}) snapshot {e.z}, model {st'.g.cur.snap}"
      pure st'
    | p => throw s!"pop while model consumer is at {repr p}"
  | "join" => actCur st (if e.x == 1 then .cJoin else .cJoinT)
  | "ret" =>
    need (s.cpc == .idle) s!"next() returned while model consumer is at {repr s.cpc}"
    need (st.lastRet == some (e.x, if e.x == 0 then e.y else 0)) s!"next() returned ({e.x},{e.y}), model {st.lastRet}"
    pure { st with lastRet := none }
  | "state" =>
    need (s.cpc == .idle) s!"get_state while model consumer is at {repr s.cpc}"
    need (s.snap == e.x && s.steps == e.y) s!"get_state ({e.x},{e.y}), model ({s.snap},{s.steps})"
    pure st
  | "reset" =>
    match gens[e.x]? with
    | some c =>
      match gstep st.g (.reset c) with
      | some g' => pure { st with g := g', ngen := st.ngen + 1, lastRet := none }
      | none => throw s!"reset while model consumer is at {repr s.cpc}"
    | none => throw s!"no generation {e.x}"
  | op => throw s!"unknown consumer op {op}"

def stepEv (gens : Array Cfg) (st : St) (e : Ev) : Except String St :=
  if e.th == "c" then consumerEv gens st e
  else if e.th.startsWith "r" then
    match (e.th.drop 1).toNat? with
    | some k => readerEv st k e
    | none => throw s!"bad thread {e.th}"
  else throw s!"bad thread {e.th}"

def replay (gens : Array Cfg) : St → List Ev → Nat → Except (Nat × String) St
  | st, [], _ => pure st
  | st, e :: es, i =>
    match stepEv gens st e with
    | .ok st' => replay gens st' es (i + 1)
    | .error why => throw (i, why)

def handle (j : Json) : Except String Json := do
  let cj ← j.getObjVal? "cfg"
  let pf ← getNat cj "pf"
  let f ← getNat cj "f"
  let gens ← (← getArr j "gens").mapM (decodeGen pf f)
  let evs ← (← getArr j "trace").mapM decodeEv
  match gens with
  | [] => throw "no generation"
  | c0 :: _ =>
    match replay gens.toArray { g := ginit c0 } evs 0 with
    | .ok st => return Json.mkObj [("ok", Json.bool true), ("steps", jnat evs.length), ("actions", jnat st.actions),
                                   ("tmo", jnat st.tmo), ("ahead", jnat st.ahead), ("insrc", jnat st.insrc)]
    | .error (i, why) => return Json.mkObj [("ok", Json.bool false), ("at", jnat i), ("why", Json.str why)]

end TDV.Drv.PF
