import TorchDataVerif.Model.MPRestore
import TorchDataVerif.Drv.MP
/-! Driver for `MPR` with failing fetches (map-style), K-D leg of `Props/C01MPErr.lean`.

request {"m":"mprerr","cfg":CFG,"k":K,"seed":S}      (CFG as for "mp": a `null` batch = the fetch raises)
  K = number of OUTCOMES (batches or raised errors) the consumer has received when it calls `state_dict()`.
answer  {"saved":{"step":..,"steps":..,"lastW":..,"main":..,"ws":[[pos,ended]..]} | null,
                         -- `stateDict` of a model saving run driven (schedule from S) until K outcomes were observed
         "resumed":[code | null ..],   -- `restore cfg saved.snapshot`, run to the end (schedule from S): every outcome
                                       --   in order, `null` = the error re-raised; the constructor's replay included
         "stop":bool,"assertion":bool}
By `snapshot_sound_map_err` / `restore_ideal_map_err` the answers do not depend on the schedules.
-/
namespace TDV.Drv.MPRErr
open Lean TDV.MP TDV.MPR TDV.Drv TDV.Drv.MP

def lcg (x : Nat) : Nat := (x * 6364136223846793005 + 1442695040888963407) % 18446744073709551616

/-- The outcomes (batch code / error) among the observations. -/
def outs : List Obs → List (Option Nat)
  | [] => []
  | .item b :: r => some b :: outs r
  | .error :: r => none :: outs r
  | _ :: r => outs r

/-- Drive `s` under a seeded schedule until `n` outcomes were observed, or stop / assertion / deadlock / no fuel. -/
def drive (c : Cfg) : Nat → Nat → State → Nat → State
  | 0, _, s, _ => s
  | fuel + 1, n, s, g =>
    if (outs s.obs).length ≥ n ∨ s.obs.contains .stop ∨ s.obs.contains .assertion then s
    else
      let acts : List Action := (List.range c.W).map Action.work ++ [.recv, .next, .recv, .next]
      let en := acts.filterMap (fun a => step c s a)
      match en[(g / 65536) % en.length]? with
      | none => s
      | some s' => drive c fuel n s' (lcg g)

def encWs (ws : List WSt) : Json := Json.arr (ws.map fun w => Json.arr #[jnat w.pos, Json.bool w.ended]).toArray

def encOut : Option Nat → Json
  | some b => jnat b
  | none => Json.null

def handle (j : Json) : Except String Json := do
  let c ← decCfg (← j.getObjVal? "cfg")
  let k ← getNat j "k"
  let seed := getNatD j "seed" 1
  let fuel := 40 * (k + c.batches.length + c.W * c.P + 4) + 200
  let s1 := drive c fuel k (init c) (lcg seed)
  if (outs s1.obs).length ≠ k then
    pure (Json.mkObj [("saved", Json.null), ("resumed", Json.arr #[]), ("stop", Json.bool false),
      ("assertion", Json.bool (s1.obs.contains .assertion))])
  else
    let sd := stateDict s1
    let saved := Json.mkObj [("step", jnat sd.1.step), ("steps", jnat sd.2), ("lastW", jnat sd.1.lastW),
      ("main", jnat sd.1.main), ("ws", encWs sd.1.ws)]
    let s2 := drive c fuel (fuel + 1) (restore c sd.1) (lcg (seed + 17))
    pure (Json.mkObj [("saved", saved),
      ("resumed", Json.arr ((outs s2.obs).map encOut).toArray), ("stop", Json.bool (s2.obs.contains .stop)),
      ("assertion", Json.bool (s2.obs.contains .assertion || s1.obs.contains .assertion))])

end TDV.Drv.MPRErr
