/-!
# M3 core — the sequential node algebra of `torchdata.nodes` (`base_node.py`)

A `Node` is the functional reading of a `BaseNode`: runtime state `σ`, serialised state `S` (what
`state_dict()` returns), and the three methods `reset(initial_state)`, `next()`, `get_state()` as pure
functions returning the new runtime state.  `get` returns a new runtime state because `get_state()` is
not pure in the code (`Unbatcher.get_state` and `LoaderIterator.has_next` fill caches).

Items are untyped trees so that `None`-valued items and ill-typed unbatching exist in the model.

`Run n` adds one ghost bit, `nexted` ("`next()` was called since the last `reset`"), maintained
generically by `rnext/rreset/rget`.  It is what the epoch bookkeeping of `SamplerWrapper` and
`MultiNodeWeightedSampler` (`_started`) depends on, and it lets the equivalence below say precisely
when starting a new epoch is covered: only after at least one `next()` in the current epoch.
Combinators store `Run child` so the ghost bit is maintained without per-combinator code.
-/
namespace TDV.Node

inductive Item where
  | atom (n : Nat)
  | none
  | list (xs : List Item)

/-- Result of one `next()` call. `error e` stands for any exception other than `StopIteration`. -/
inductive Out where
  | item (v : Item)
  | stop
  | error (e : Nat)

structure Node where
  σ : Type
  S : Type
  /-- state of a freshly constructed node object, before any `reset` -/
  fresh : σ
  reset : σ → Option S → σ
  next : σ → Out × σ
  get : σ → S × σ

structure Run (n : Node) where
  st : n.σ
  nexted : Bool

namespace Node
variable (n : Node)

def rfresh : Run n := ⟨n.fresh, false⟩
def rreset (r : Run n) (x : Option n.S) : Run n := ⟨n.reset r.st x, false⟩
def rnext (r : Run n) : Out × Run n := ((n.next r.st).1, ⟨(n.next r.st).2, true⟩)
def rget (r : Run n) : n.S × Run n := ((n.get r.st).1, ⟨(n.get r.st).2, r.nexted⟩)

/-- The first `k` results of repeated `next()`. -/
def outs : Nat → Run n → List Out
  | 0, _ => []
  | k + 1, r => (n.rnext r).1 :: outs k (n.rnext r).2

/-- The runtime state after `k` calls of `next()`. -/
def after : Nat → Run n → Run n
  | 0, r => r
  | k + 1, r => after k (n.rnext r).2

/-- Runtime states reachable through the public protocol: `reset` first, then any mix of `next`,
`get_state`, `reset(None)`, and `reset(sd)` for a state `sd` that some reachable state returned. -/
inductive Reach : Run n → Prop where
  | initNone : Reach (n.rreset n.rfresh none)
  | initSome {r' : Run n} : Reach r' → Reach (n.rreset n.rfresh (some (n.rget r').1))
  | next {r : Run n} : Reach r → Reach (n.rnext r).2
  | get {r : Run n} : Reach r → Reach (n.rget r).2
  | resetNone {r : Run n} : Reach r → Reach (n.rreset r none)
  | resetSome {r r' : Run n} : Reach r → Reach r' → Reach (n.rreset r (some (n.rget r').1))

end Node

/-- `R` relates runtime states of two nodes that are observationally equivalent; `Q` relates the
serialised states they hand out.  Starting a new epoch (`reset none`) is only required to preserve `R`
when both sides have seen a `next()` since their last reset. -/
structure Bisim (n m : Node) (R : Run n → Run m → Prop) (Q : n.S → m.S → Prop) : Prop where
  next : ∀ a b, R a b → (n.rnext a).1 = (m.rnext b).1 ∧ R (n.rnext a).2 (m.rnext b).2
  get : ∀ a b, R a b → Q (n.rget a).1 (m.rget b).1 ∧ R (n.rget a).2 (m.rget b).2
  resetNone : ∀ a b, R a b → a.nexted = true → b.nexted = true → R (n.rreset a none) (m.rreset b none)
  resetSome : ∀ a b x y, R a b → Q x y → R (n.rreset a (some x)) (m.rreset b (some y))

/-- A node whose `get_state`/`reset` pair is an exact inverse at item granularity:
* (refl) every reachable state is related to itself;
* (L1) taking a state is transparent;
* (L2) loading the state taken at `s` into *any* reachable runtime state `r` is equivalent to
  continuing from `s`;
* (L2f) the same for a freshly built, never reset pipeline (`rfresh` is not in `Reach`: the Loader
  calls `root.reset(sd)` directly on the new object). -/
def Lawful (n : Node) : Prop :=
  ∃ (R : Run n → Run n → Prop) (Q : n.S → n.S → Prop),
    Bisim n n R Q ∧
    (∀ s, Node.Reach n s → R s s) ∧
    (∀ s, Node.Reach n s → R (n.rget s).2 s) ∧
    (∀ s r, Node.Reach n s → Node.Reach n r → R (n.rreset r (some (n.rget s).1)) (n.rget s).2) ∧
    (∀ s, Node.Reach n s → R (n.rreset n.rfresh (some (n.rget s).1)) (n.rget s).2)

/-- Related states produce the same results forever (as long as no new epoch is started). -/
theorem Bisim.outs_eq {n m : Node} {R : Run n → Run m → Prop} {Q : n.S → m.S → Prop}
    (h : Bisim n m R Q) (k : Nat) (a : Run n) (b : Run m) (hab : R a b) :
    n.outs k a = m.outs k b ∧ R (n.after k a) (m.after k b) := by
  induction k generalizing a b with
  | zero => exact ⟨rfl, hab⟩
  | succ k ih =>
    have h1 := h.next a b hab
    have h2 := ih _ _ h1.2
    simp only [Node.outs, Node.after]
    exact ⟨by rw [h1.1, h2.1], h2.2⟩

end TDV.Node
