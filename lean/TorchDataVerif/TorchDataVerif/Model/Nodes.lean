import TorchDataVerif.Model.NodeCore
/-!
# M3 — the operators of `torchdata.nodes` as `Node` combinators

One `def … : Node` per operator (`adapters.py`, `batch.py`, `filter.py`, `map.py`, `prefetch.py`), each
packaged last from standalone step functions over an explicit state type that stores `Run child`.

Conventions
* `Out.error e`: any exception other than `StopIteration`; the codes are below.
* A `reset` that raises in the Python code (fast-forward past the end, an exception while `Unbatcher.reset`
  pulls its batch, an exception during the fast-forward of `Prefetcher`/`ParallelMapper`) leaves the Python
  object half initialised.  The model records it in a `bad` flag of the node that raised; every `next` of a
  `bad` node returns `error errBad` until the next `reset`.  The correspondence leg stops a case at a
  raising `reset`, so nothing is claimed about the half-initialised object.
* `while` loops that the Python code leaves by an event of the source (`Filter.next`, `Unbatcher.next`) take
  fuel (a parameter of the combinator); running out of fuel is `error errFuel` (a hang in Python).
* Not modelled: the `Stateful`-sampler branch of `SamplerWrapper` (same shape as `statefulSource`); samplers whose
  order depends on hidden RNG state rather than on `set_epoch`; for the threaded `_ParallelMapperIter` the behaviour
  after an exception (a `map_fn` error in a worker is re-raised and the stream continues, a source error leaves
  `next()` hanging — C11): `buffered` follows `_SingleThreadedMapper` (stop forever after an error) and the
  correspondence leg drives threaded `ParallelMapper` only with sources and functions that do not raise.
* With reader threads, whether a `SamplerWrapper` below has `_started` when `reset()` arrives without a consumer
  `next()` since the previous reset depends on timing; the abstraction (and `Bisim.resetNone`) covers `reset()`
  only after at least one `next()`.
* Source states are truthy (every `state_dict()` of a real node is a non-empty dict): `_populate_queue._put`
  stores a snapshot only `if snapshot:`.
-/
namespace TDV.Node

def errMap : Nat := 1     -- `map_fn` raised
def errFF : Nat := 2      -- ValueError: fast-forward hit StopIteration
def errType : Nat := 3    -- TypeError: `len()` of a non-sequence in `Unbatcher`
def errBad : Nat := 4     -- `next` on an object whose `reset` raised
def errFuel : Nat := 99   -- loop fuel exhausted (non-termination in Python)

/-! ## Reference semantics (right-hand sides of C04) -/
namespace Ref

/-- Consecutive groups of `bs` items; the last, shorter group is kept iff `¬ dropLast`. -/
def chunkF (bs : Nat) (dropLast : Bool) : Nat → List Item → List (List Item)
  | 0, _ => []
  | fuel + 1, xs =>
    if xs.isEmpty then []
    else if xs.length < bs then (if dropLast then [] else [xs])
    else xs.take bs :: chunkF bs dropLast fuel (xs.drop bs)

def chunk (bs : Nat) (dropLast : Bool) (xs : List Item) : List (List Item) :=
  chunkF bs dropLast xs.length xs

/-- The epoch number of the `j`-th consecutive epoch: `epoch_updater` applied `j` times. -/
def epochOf (upd : Nat → Nat) (e0 : Nat) : Nat → Nat
  | 0 => e0
  | j + 1 => upd (epochOf upd e0 j)

end Ref

/-! ## Observations -/

/-- From `r` on, `next()` raises `StopIteration` forever. -/
def Stops (n : Node) (r : Run n) : Prop := ∀ k, n.outs k r = List.replicate k Out.stop

/-- From `r`, `next()` returns exactly the items `xs`, then `StopIteration` forever. -/
def Yields (n : Node) : Run n → List Item → Prop
  | r, [] => Stops n r
  | r, x :: xs => (n.rnext r).1 = Out.item x ∧ Yields n (n.rnext r).2 xs

/-- Same results of `next()` forever. -/
def SameOuts (n : Node) (a b : Run n) : Prop := ∀ k, n.outs k a = n.outs k b

/-! ## `IterableWrapper` over a plain re-iterable list (fast-forward branch) -/

structure ListSt where
  rem : List Item      -- what `self._it` still holds
  ny : Nat             -- `_num_yielded`
  bad : Bool

def listReset (l : List Item) (_ : ListSt) : Option Nat → ListSt
  | none => { rem := l, ny := 0, bad := false }
  | some k => if k ≤ l.length then { rem := l.drop k, ny := k, bad := false }
              else { rem := [], ny := k, bad := true }

def listNext (st : ListSt) : Out × ListSt :=
  if st.bad then (.error errBad, st) else
  match st.rem with
  | [] => (.stop, st)
  | x :: r => (.item x, { st with rem := r, ny := st.ny + 1 })

def listSource (l : List Item) : Node where
  σ := ListSt
  S := Nat
  fresh := { rem := [], ny := 0, bad := false }
  reset := listReset l
  next := listNext
  get := fun st => (st.ny, st)

/-! ## `IterableWrapper` over a `Stateful` iterable -/

/-- An object with `__iter__`, `state_dict`, `load_state_dict`; the iterator shares the object's state. -/
structure StIter where
  τ : Type
  T : Type
  init : τ
  iter : τ → τ
  nxt : τ → Out × τ
  sd : τ → T
  load : τ → T → τ

structure SrcSt (it : StIter) where
  its : it.τ
  ny : Nat

def stReset (it : StIter) (st : SrcSt it) : Option (Nat × it.T) → SrcSt it
  | none => { its := it.iter st.its, ny := 0 }
  | some (k, t) => { its := it.iter (it.load st.its t), ny := k }

def stNext (it : StIter) (st : SrcSt it) : Out × SrcSt it :=
  match it.nxt st.its with
  | (.item v, s') => (.item v, { its := s', ny := st.ny + 1 })
  | (o, s') => (o, { st with its := s' })

def statefulSource (it : StIter) : Node where
  σ := SrcSt it
  S := Nat × it.T
  fresh := { its := it.init, ny := 0 }
  reset := stReset it
  next := stNext it
  get := fun st => ((st.ny, it.sd st.its), st)

/-- The `Stateful` iterable on its own, seen as a node (to state what the wrapper preserves). -/
def iterNode (it : StIter) : Node where
  σ := it.τ
  S := it.T
  fresh := it.init
  reset := fun s x => match x with
    | none => it.iter s
    | some t => it.iter (it.load s t)
  next := it.nxt
  get := fun s => (it.sd s, s)

/-- A well-behaved `Stateful` iterable over a list: `iter()` starts at the loaded position if a
`load_state_dict` is pending, else at 0 (used for non-vacuity examples and by the driver). -/
def listIter (l : List Item) : StIter where
  τ := Nat × Option Nat
  T := Nat
  init := (0, none)
  iter := fun s => match s.2 with | some k => (k, none) | none => (0, none)
  nxt := fun s => match l[s.1]? with | some v => (.item v, (s.1 + 1, s.2)) | none => (.stop, s)
  sd := fun s => s.1
  load := fun s t => (s.1, some t)

/-! ## `SamplerWrapper` over a sampler whose order is a function of the epoch (`set_epoch`) -/

structure SampSt where
  rem : List Item
  ny : Nat
  epoch : Nat
  started : Bool
  bad : Bool

def sampReset (idx : Nat → List Item) (upd : Nat → Nat) (st : SampSt) : Option (Nat × Nat) → SampSt
  | none =>
    let e := if st.started then upd st.epoch else st.epoch
    { rem := idx e, ny := 0, epoch := e, started := false, bad := false }
  | some (k, e) =>
    if k ≤ (idx e).length then { rem := (idx e).drop k, ny := k, epoch := e, started := false, bad := false }
    else { rem := [], ny := k, epoch := e, started := st.started, bad := true }

def sampNext (st : SampSt) : Out × SampSt :=
  if st.bad then (.error errBad, st) else
  match st.rem with
  | [] => (.stop, { st with started := true })
  | x :: r => (.item x, { st with rem := r, ny := st.ny + 1, started := true })

def samplerNode (idx : Nat → List Item) (upd : Nat → Nat) (e0 : Nat) : Node where
  σ := SampSt
  S := Nat × Nat
  fresh := { rem := [], ny := 0, epoch := e0, started := false, bad := false }
  reset := sampReset idx upd
  next := sampNext
  get := fun st => ((st.ny, st.epoch), st)

/-! ## `Mapper` (`_InlineMapperIter`); `f x = none` stands for `map_fn` raising -/

def mapNext (src : Node) (f : Item → Option Item) (r : Run src) : Out × Run src :=
  match src.rnext r with
  | (.item v, r') => (match f v with | some w => .item w | none => .error errMap, r')
  | (o, r') => (o, r')

def mapper (f : Item → Option Item) (src : Node) : Node where
  σ := Run src
  S := src.S
  fresh := src.rfresh
  reset := fun r x => src.rreset r x
  next := mapNext src f
  get := fun r => src.rget r

/-! ## `Batcher` -/

inductive CEnd where
  | full
  | stop
  | err (e : Nat)

/-- The `while len(batch) < batch_size` loop with `k` items still to collect. -/
def collect (src : Node) : Nat → Run src → (List Item × CEnd) × Run src
  | 0, r => (([], .full), r)
  | k + 1, r =>
    match src.rnext r with
    | (.item v, r') => let p := collect src k r'; ((v :: p.1.1, p.1.2), p.2)
    | (.stop, r') => (([], .stop), r')
    | (.error e, r') => (([], .err e), r')

def batchOut (dropLast : Bool) : List Item × CEnd → Out
  | (b, .full) => .item (.list b)
  | (b, .stop) => if b.isEmpty || dropLast then .stop else .item (.list b)
  | (_, .err e) => .error e

def batchNext (src : Node) (bs : Nat) (dropLast : Bool) (r : Run src) : Out × Run src :=
  (batchOut dropLast (collect src bs r).1, (collect src bs r).2)

def batcher (bs : Nat) (dropLast : Bool) (src : Node) : Node where
  σ := Run src
  S := src.S
  fresh := src.rfresh
  reset := fun r x => src.rreset r x
  next := batchNext src bs dropLast
  get := fun r => src.rget r

/-! ## `Filter` -/

structure FilSt (src : Node) where
  inner : Run src
  nf : Nat     -- `_num_filtered`
  ny : Nat     -- `_num_yielded`

def filReset (src : Node) (st : FilSt src) : Option (src.S × Nat × Nat) → FilSt src
  | none => { inner := src.rreset st.inner none, nf := 0, ny := 0 }
  | some (c, nf, ny) => { inner := src.rreset st.inner (some c), nf := nf, ny := ny }

def filLoop (src : Node) (p : Item → Bool) : Nat → FilSt src → Out × FilSt src
  | 0, st => (.error errFuel, st)
  | k + 1, st =>
    match src.rnext st.inner with
    | (.item v, r') =>
      if p v then (.item v, { st with inner := r', ny := st.ny + 1 })
      else filLoop src p k { st with inner := r', nf := st.nf + 1 }
    | (o, r') => (o, { st with inner := r' })

def filGet (src : Node) (st : FilSt src) : (src.S × Nat × Nat) × FilSt src :=
  (((src.rget st.inner).1, st.nf, st.ny), { st with inner := (src.rget st.inner).2 })

def filter (fuel : Nat) (p : Item → Bool) (src : Node) : Node where
  σ := FilSt src
  S := src.S × Nat × Nat
  fresh := { inner := src.rfresh, nf := 0, ny := 0 }
  reset := filReset src
  next := filLoop src p fuel
  get := filGet src

/-! ## `Unbatcher` -/

structure UnbSt (src : Node) where
  inner : Run src
  batch : Item                 -- `_batch` (whatever the source returned)
  idx : Nat                    -- `_batch_idx`
  cached : Option src.S        -- `_cached_state_dict`
  bad : Bool

def unbReset (src : Node) (st : UnbSt src) : Option (src.S × Nat) → UnbSt src
  | none => { inner := src.rreset st.inner none, batch := .list [], idx := 0, cached := none, bad := false }
  | some (c, i) =>
    match src.rnext (src.rreset st.inner (some c)) with
    | (.item v, r2) => { inner := r2, batch := v, idx := i, cached := some c, bad := false }
    | (.stop, r2) => { inner := r2, batch := .list [], idx := 0, cached := some c, bad := false }
    | (.error _, r2) => { inner := r2, batch := .list [], idx := 0, cached := some c, bad := true }

def unbLoop (src : Node) : Nat → UnbSt src → Out × UnbSt src
  | 0, st => (.error errFuel, st)
  | k + 1, st =>
    match st.batch with
    | .list xs =>
      (match xs[st.idx]? with
      | some v => (.item v, { st with idx := st.idx + 1 })
      | none =>
        match src.rnext (src.rget st.inner).2 with
        | (.item v, r2) =>
          unbLoop src k { st with inner := r2, batch := v, idx := 0, cached := some (src.rget st.inner).1 }
        | (o, r2) => (o, { st with inner := r2, cached := some (src.rget st.inner).1 }))
    | _ => (.error errType, st)

def unbNext (src : Node) (fuel : Nat) (st : UnbSt src) : Out × UnbSt src :=
  if st.bad then (.error errBad, st) else unbLoop src fuel st

def unbGet (src : Node) (st : UnbSt src) : (src.S × Nat) × UnbSt src :=
  match st.cached with
  | some c => ((c, st.idx), st)
  | none => (((src.rget st.inner).1, st.idx),
             { st with inner := (src.rget st.inner).2, cached := some (src.rget st.inner).1 })

def unbatcher (fuel : Nat) (src : Node) : Node where
  σ := UnbSt src
  S := src.S × Nat
  fresh := { inner := src.rfresh, batch := .list [], idx := 0, cached := none, bad := false }
  reset := unbReset src
  next := unbNext src fuel
  get := unbGet src

/-! ## `buffered sf` — sequential abstraction of `Prefetcher` / `_SingleThreadedMapper` /
`_ParallelMapperIter` (in_order) with `snapshot_frequency = sf`

The source is driven by one reader: `reset`, one `state_dict()` (the initial snapshot), then `next()` with a
`state_dict()` after every `sf`-th item.  The consumer adopts a snapshot when it receives the item the
snapshot was taken after; the abstraction has no read-ahead, so that happens in the same step.  After the
source stopped or raised, `next()` raises `StopIteration` forever (`_stop_event`). -/

structure BufSt (src : Node) where
  inner : Run src
  snap : Option src.S      -- `_snapshot` (`none` only before the first `reset`)
  steps : Nat              -- `_steps_since_snapshot`
  yielded : Nat            -- `yielded` of `_populate_queue` = items delivered since this iterator was created
  done : Bool              -- `_stop_event`
  bad : Bool

def bufNext (src : Node) (sf : Nat) (st : BufSt src) : Out × BufSt src :=
  if st.bad then (.error errBad, st) else
  if st.done then (.stop, st) else
  match src.rnext st.inner with
  | (.item v, r') =>
    if sf > 0 ∧ (st.yielded + 1) % sf = 0 then
      (.item v, { st with inner := (src.rget r').2, snap := some (src.rget r').1, steps := 0,
                          yielded := st.yielded + 1 })
    else (.item v, { st with inner := r', steps := st.steps + 1, yielded := st.yielded + 1 })
  | (o, r') => (o, { st with inner := r', done := true })

/-- `for i in range(fast_forward): next(self)`; anything but an item makes the constructor raise. -/
def bufFF (src : Node) (sf : Nat) : Nat → BufSt src → BufSt src
  | 0, st => st
  | k + 1, st =>
    match bufNext src sf st with
    | (.item _, st') => bufFF src sf k st'
    | (_, st') => { st' with bad := true }

def bufStart (src : Node) (r : Run src) : BufSt src :=
  { inner := (src.rget r).2, snap := some (src.rget r).1, steps := 0, yielded := 0, done := false, bad := false }

def bufReset (src : Node) (sf : Nat) (st : BufSt src) : Option (src.S × Nat) → BufSt src
  | none => bufStart src (src.rreset st.inner none)
  | some (c, k) => bufFF src sf k (bufStart src (src.rreset st.inner (some c)))

def bufGet (src : Node) (st : BufSt src) : (src.S × Nat) × BufSt src :=
  match st.snap with
  | some c => ((c, st.steps), st)
  | none => (((src.rget st.inner).1, st.steps), { st with inner := (src.rget st.inner).2 })

def buffered (sf : Nat) (src : Node) : Node where
  σ := BufSt src
  S := src.S × Nat
  fresh := { inner := src.rfresh, snap := none, steps := 0, yielded := 0, done := false, bad := false }
  reset := bufReset src sf
  next := bufNext src sf
  get := bufGet src

/-! ## `ParallelMapper(prebatch=pb)` with `num_workers = 0` -/

def mapAll (f : Item → Option Item) : List Item → Option (List Item)
  | [] => some []
  | x :: xs => match f x, mapAll f xs with
    | some y, some ys => some (y :: ys)
    | _, _ => none

/-- `MapOverBatch(map_fn)`: raises if `map_fn` raises on any element (or the batch is not a sequence). -/
def overBatch (f : Item → Option Item) : Item → Option Item
  | .list xs => (mapAll f xs).map Item.list
  | _ => none

def prebatchMapper (fuel : Nat) (f : Item → Option Item) (pb : Nat) (src : Node) : Node :=
  unbatcher fuel (mapper (overBatch f) (batcher pb false src))

end TDV.Node
