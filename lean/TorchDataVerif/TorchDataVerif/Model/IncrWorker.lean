import TorchDataVerif.Model.Incr
/-!
# M1w `IncrW` — `_IncrementalWorkerState` and the worker/main hand-shakes

Extends `TDV.Incr` (one `_IncrementalState`) to the wrapper class `_IncrementalWorkerState` of
`torchdata/stateful_dataloader/incremental_state.py` and to the three places where `worker.py` /
`stateful_dataloader.py` synchronise the worker-side and the main-side wrapper.

Python `None` is a leaf of the value trees (it is what `_flatten(None)` stores under the key `()`); its
leaf code is `noneC`.  A worker state dict (`_make_state_dict`) is a `Report`; the optional fields are
`Option`s, with `none` standing for Python `None`, so the `is not None` tests of the code are matches
on `Option`, and `is_none()` is the test `isNone` on the flat state.
-/
namespace TDV.IncrW
open TDV.Incr

/-- Leaf code of Python `None`. -/
def noneC : Nat := 0

/-- What `_flatten` sees for an optional state: `None` is the leaf `None`. -/
def toVal : Option Val → Val
  | none => .leaf noneC
  | some v => v

/-- Reading a `get_state()` result back as an optional state. -/
def ofVal : Val → Option Val
  | .leaf c => if c = noneC then none else some (.leaf c)
  | .dict kvs => some (.dict kvs)

/-- `fetcher_state` of a worker state dict. -/
structure Fetch where
  ended : Bool
  iter : Option Val

/-- A worker state dict as built by `_make_state_dict` (and as returned by `get_state()`). -/
structure Report where
  wid : Nat
  ds : Option Val
  fetch : Option Fetch

/-- One `_IncrementalWorkerState` object. -/
structure W where
  wid : Option Nat        -- `_worker_id`
  ended : Option Bool     -- `_fetcher_ended`
  ds : Flat               -- `_incr_dataset_state.flat_state`
  it : Flat               -- `_incr_fetcher_iter_state.flat_state`

/-- `_IncrementalState.is_none()`: exactly one entry, key `()`, value `None`. -/
def isNone : Flat → Bool
  | [([], c)] => c == noneC
  | _ => false

/-- `_IncrementalWorkerState.__init__(initial_worker_state_dict)`; `none` is a falsy argument
(`None` or `{}`). -/
def W.init : Option Report → W
  | none =>
    { wid := none, ended := none, ds := flatten (toVal none) [], it := flatten (toVal none) [] }
  | some r =>
    match r.fetch with
    | none =>
      { wid := some r.wid, ended := none, ds := flatten (toVal r.ds) [], it := flatten (toVal none) [] }
    | some f =>
      { wid := some r.wid, ended := some f.ended, ds := flatten (toVal r.ds) [],
        it := flatten (toVal f.iter) [] }

/-- `fetcher_state` entry of a delta dict. -/
structure FDelta where
  iter : Option Delta     -- `dataset_iter_state`: `None` or a flat delta
  ended : Bool

/-- The dict returned by `_IncrementalWorkerState.generate_delta`; `ds = none` means the key
`dataset_state` is absent (read back with `.get(_DATASET_STATE, None)`). -/
structure WDelta where
  wid : Nat
  ds : Option Delta
  fetch : Option FDelta

/-- `_IncrementalState.generate_delta(x)` guarded by `x is not None or not self.is_none()`:
returns the new diff base and the delta (if one was generated). -/
def genOpt (base : Flat) (x : Option Val) : Flat × Option Delta :=
  match x with
  | some v => (flatten v [], some (generateDelta base (flatten v [])))
  | none =>
    if isNone base then (base, none)
    else (flatten (toVal none) [], some (generateDelta base (flatten (toVal none) [])))

/-- `_IncrementalWorkerState.generate_delta(new_state_dict)`. -/
def W.generateDelta (w : W) (r : Report) : W × WDelta :=
  let (ds', dd) := genOpt w.ds r.ds
  match r.fetch with
  | none =>
    -- `incr_state_dict[_FETCHER_STATE]` stays `None`; `_fetcher_ended` and the iterator base are kept
    ({ wid := some r.wid, ended := w.ended, ds := ds', it := w.it },
     { wid := r.wid, ds := dd, fetch := none })
  | some f =>
    let (it', di) := genOpt w.it f.iter
    ({ wid := some r.wid, ended := some f.ended, ds := ds', it := it' },
     { wid := r.wid, ds := dd, fetch := some { iter := di, ended := f.ended } })

/-- `_IncrementalWorkerState.apply_delta(delta_state_dict)`. -/
def W.applyDelta (w : W) (d : WDelta) : W :=
  let ds' := match d.ds with
    | none => w.ds
    | some dd => Incr.applyDelta w.ds dd
  match d.fetch with
  | none => { wid := some d.wid, ended := w.ended, ds := ds', it := w.it }
  | some fd =>
    let it' := match fd.iter with
      | none => w.it
      | some di => Incr.applyDelta w.it di
    { wid := some d.wid, ended := some fd.ended, ds := ds', it := it' }

/-- The dict returned by `get_state()`: `fetch = none` iff `_fetcher_ended is None`. -/
structure State where
  wid : Option Nat
  ds : Option Val
  fetch : Option (Bool × Option Val)

/-- `_IncrementalWorkerState.get_state()`. -/
def W.getState (w : W) : State :=
  { wid := w.wid
    ds := ofVal (Incr.getState w.ds)
    fetch := match w.ended with
      | none => none
      | some e => some (e, ofVal (Incr.getState w.it)) }

/-! ## The worker/main hand-shakes (`worker.py`, `stateful_dataloader.py`) -/

/-- Worker-side and main-side wrapper of one worker (`incremental_worker_state` in `_worker_loop`,
`_worker_snapshots[key]` in the main process). -/
structure Sync where
  worker : W
  main : W

/-- Before any start-up ack: `_worker_snapshots[key] = _IncrementalWorkerState(None)`. -/
def Sync.init : Sync := { worker := W.init none, main := W.init none }

inductive Op where
  /-- a task with `snapshot or iteration_end`: the worker calls `generate_delta(state_dict)`, the delta
  rides with the batch, the main process calls `apply_delta` (`_update_worker_snapshot`). -/
  | report (r : Report)
  /-- a task without the snapshot flag: the dataset moved to state `r`, `delta_state_dict` stays `None`,
  `_update_worker_snapshot` returns early; neither wrapper is touched. -/
  | reportSkipped (r : Report)
  /-- fresh start (`worker_state is None`): the worker builds its wrapper from the full initial state,
  acks with `_AckStartup(initial_state=r, is_delta=False)`, the main process replaces its wrapper. -/
  | restart (r : Report)
  /-- `_ResumeIteration` of a persistent worker: the worker re-creates its wrapper from a fresh full
  state, acks with `_AckStartup(initial_state=r)`, the main process replaces its wrapper. -/
  | resumeEpoch (r : Report)
  /-- start-up after a restore from the saved worker state `s`: both sides build their wrapper from
  `s`; the worker restores dataset/iterator, diffs its actual start-up state `r` against `s` and acks
  with `_AckStartup(initial_state=delta, is_delta=True)`; the main process applies the delta. -/
  | restore (s r : Report)

def Sync.step (st : Sync) : Op → Sync
  | .report r =>
    let (w', d) := st.worker.generateDelta r
    { worker := w', main := st.main.applyDelta d }
  | .reportSkipped _ => st
  | .restart r => { worker := W.init (some r), main := W.init (some r) }
  | .resumeEpoch r => { worker := W.init (some r), main := W.init (some r) }
  | .restore s r =>
    let (w', d) := (W.init (some s)).generateDelta r
    { worker := w', main := (W.init (some s)).applyDelta d }

def Sync.run (st : Sync) (ops : List Op) : Sync := ops.foldl Sync.step st

/-- The state the main side is supposed to hold after a history: the last report for which a delta
was generated and applied, or the last start-up / resume state. -/
def lastSynced (cur : Option Report) : List Op → Option Report
  | [] => cur
  | .report r :: ops => lastSynced (some r) ops
  | .reportSkipped _ :: ops => lastSynced cur ops
  | .restart r :: ops => lastSynced (some r) ops
  | .resumeEpoch r :: ops => lastSynced (some r) ops
  | .restore _ r :: ops => lastSynced (some r) ops

/-! ## Vocabulary of the property statements -/

/-- A well-formed optional state: `some v` is a well-formed tree that is not the leaf `None`
(Python `None` is `none`). -/
def OptWF : Option Val → Prop
  | none => True
  | some v => v.WF ∧ v ≠ .leaf noneC

def Report.WF (r : Report) : Prop := OptWF r.ds ∧ ∀ f, r.fetch = some f → OptWF f.iter

/-- Reports of skipped tasks are unconstrained. -/
def Op.WF : Op → Prop
  | .report r => r.WF
  | .reportSkipped _ => True
  | .restart r => r.WF
  | .resumeEpoch r => r.WF
  | .restore s r => s.WF ∧ r.WF

def Op.isSkipped : Op → Bool
  | .reportSkipped _ => true
  | _ => false

/-- Two optional states agree: both `None` or neither, and the same content path by path. -/
def OptEq (a b : Option Val) : Prop :=
  a.isSome = b.isSome ∧ ∀ q, (toVal a).get q = (toVal b).get q

/-- `get_state()` agrees field by field with a worker state dict (`none`: with the wrapper built from
nothing). -/
def FetchEq : Option (Bool × Option Val) → Option Fetch → Prop
  | none, none => True
  | some (e, i), some f => e = f.ended ∧ OptEq i f.iter
  | _, _ => False

def StateEq (s : State) : Option Report → Prop
  | none => s.wid = none ∧ s.ds = none ∧ s.fetch = none
  | some r => s.wid = some r.wid ∧ OptEq s.ds r.ds ∧ FetchEq s.fetch r.fetch

def fetchOf (cur : Option Report) : Option Fetch := cur.bind (·.fetch)
def dsOf (cur : Option Report) : Option Val := cur.bind (·.ds)

/-- `fetcher_state` as the wrappers track it: a report whose `fetcher_state` is `None` leaves the
previous one in place (`generate_delta` ships `None`, `apply_delta` skips it). -/
def keep (new old : Option Fetch) : Option Fetch :=
  match new with
  | some f => some f
  | none => old

/-- The `fetcher_state` the main side holds after a history (what the code does, not what it should). -/
def lastFetch (lf : Option Fetch) : List Op → Option Fetch
  | [] => lf
  | .report r :: ops => lastFetch (keep r.fetch lf) ops
  | .reportSkipped _ :: ops => lastFetch lf ops
  | .restart r :: ops => lastFetch r.fetch ops
  | .resumeEpoch r :: ops => lastFetch r.fetch ops
  | .restore s r :: ops => lastFetch (keep r.fetch s.fetch) ops

/-- The histories in which `fetcher_state` never turns from a dict into `None` between two states
that are transferred as a delta (it is `None` iff the dataset is map-style, see `_make_state_dict`). -/
def FetchStable (cur : Option Report) : List Op → Prop
  | [] => True
  | .report r :: ops => (r.fetch = none → fetchOf cur = none) ∧ FetchStable (some r) ops
  | .reportSkipped _ :: ops => FetchStable cur ops
  | .restart r :: ops => FetchStable (some r) ops
  | .resumeEpoch r :: ops => FetchStable (some r) ops
  | .restore s r :: ops => (r.fetch = none → s.fetch = none) ∧ FetchStable (some r) ops

end TDV.IncrW
