/-!
# M7 `MP` — the multi-process protocol of `_StatefulMultiProcessingDataLoaderIter` + `_worker_loop`

A small-step transition system.  One state holds the main-process bookkeeping (named as in the Python
code), the `W` workers (index-queue FIFO, fetch position, `iteration_end`, alive), ONE shared result
FIFO, the consumer phase and the (ghost) list of everything the consumer has observed.

Configuration (never changes): `W`, `P = prefetch_factor`, `interval = snapshot_every_n_steps`
(0 = `None`/0), `inOrder`, dataset kind, `persistent`, and what the workers' fetches return: for
map-style the global list `batches` (entry `p` = result of fetching the `p`-th index batch of the
sampler), for iterable the per-worker lists `shards` (entry `j` of shard `w` = result of the `j`-th
fetch of worker `w`; after the list the fetch raises StopIteration).  A fetch result is `ok b`
(`b` an opaque batch code) or `err` (the dataset / collate function raised).

Snapshot content is abstract: the main snapshot is the sampler position (`_sampler_iter_yielded`)
right after the index of the task was drawn, a worker state is `(pos, ended)` = number of fetches done
and `fetcher.ended`; a state delta carries the worker's state at generation time (justified by
`Incr.lossless`: deltas of one worker are applied in generation order).

Actions: `work w`, `recv`, `next`, `stateDict`, `reset` (persistent workers: `iter()` again), `kill w`,
`pollTimeout`.
-/
namespace TDV.MP

inductive Item where
  | ok (b : Nat)
  | err
  deriving DecidableEq, Repr

structure Cfg where
  W : Nat
  P : Nat
  interval : Nat
  inOrder : Bool
  iterable : Bool
  persistent : Bool
  shards : List (List Item)
  batches : List Item
  deriving Repr

/-- Abstract worker state (what `_make_state_dict` reports). -/
structure WSt where
  pos : Nat
  ended : Bool
  deriving DecidableEq, Repr

inductive Kind where
  | data (b : Nat)
  | notice            -- `_IterableDatasetStopIteration`
  | error             -- `ExceptionWrapper`
  | ack               -- `_AckStartup` answering `_ResumeIteration`
  deriving DecidableEq, Repr

/-- An element of the result queue: `(idx, (data, worker_id, delta_state_dict))`. -/
structure Res where
  idx : Nat
  w : Nat
  kind : Kind
  st : Option WSt
  deriving DecidableEq, Repr

/-- An element of an index queue. -/
inductive Msg where
  | task (idx p : Nat) (snap : Bool)   -- `(send_idx, (index, snapshot))`, `p` = sampler position of `index`
  | stop                                -- `None`
  | resume                              -- `_ResumeIteration`
  deriving DecidableEq, Repr

structure Worker where
  q : List Msg
  pos : Nat
  iterEnd : Bool
  alive : Bool
  deriving DecidableEq, Repr

/-- A `_task_info` entry: `(worker_id,)` or `(worker_id, data)`. -/
structure Info where
  idx : Nat
  w : Nat
  res : Option Res
  deriving DecidableEq, Repr

structure Snap where
  step : Nat
  lastW : Nat
  main : Nat
  ws : List WSt
  deriving DecidableEq, Repr

inductive Phase where
  | idle                    -- consumer outside `next()`
  | waiting                 -- inside `next()`, blocked in `_get_data`
  | resuming (k : Nat)      -- inside `_reset`, waiting for `k` more `_ResumeIteration` acks
  deriving DecidableEq, Repr

/-- What the consumer sees. -/
inductive Obs where
  | item (b : Nat)
  | error                   -- the dataset's exception re-raised
  | stop
  | workerDied              -- RuntimeError "DataLoader worker exited unexpectedly"
  | assertion               -- the AssertionError of `_take_snapshot`
  | sd (step since lastW main : Nat) (ws : List WSt)
  | resetDone
  deriving DecidableEq, Repr

structure State where
  sendIdx : Nat
  rcvdIdx : Nat
  info : List Info
  status : List Bool
  cyc : Nat
  outstanding : Nat
  numTasks : List Nat
  samplerPos : Nat
  numYielded : Nat
  mainSnaps : List (Nat × Nat)
  wsnaps : List WSt
  snap : Snap
  lastW : Nat
  shutdown : Bool
  /-- set when one of the asserts that are claimed never to fire would fire -/
  bad : Bool
  workers : List Worker
  resQ : List Res
  phase : Phase
  obs : List Obs
  deriving Repr

inductive Action where
  | work (w : Nat)
  | recv
  | next
  | stateDict
  | reset
  | kill (w : Nat)
  | pollTimeout
  deriving DecidableEq, Repr

/-! ## small helpers -/

def up (s : State) (w : Nat) : Bool := s.status.getD w false

def countUp : List Bool → Nat
  | [] => 0
  | b :: r => (if b then 1 else 0) + countUp r

def pushMsg (ws : List Worker) (w : Nat) (m : Msg) : List Worker :=
  ws.modify w (fun k => { k with q := k.q ++ [m] })

def lookupInfo (l : List Info) (i : Nat) : Option Info := l.find? (fun e => e.idx == i)

def eraseInfo (l : List Info) (i : Nat) : List Info := l.filter (fun e => e.idx != i)

def setRes (l : List Info) (i : Nat) (r : Res) : List Info :=
  l.map (fun e => if e.idx == i then { e with res := some r } else e)

/-! ## `_try_put_index` -/

/-- `(snapshot_main, snapshot)` as computed at dispatch; `sp` is `_sampler_iter_yielded` after the draw. -/
def flags (c : Cfg) (sp numYielded : Nat) : Bool × Bool :=
  if c.interval = 0 then (false, false)
  else if c.iterable then
    let hi := numYielded % c.interval + 1 + c.W * c.P
    (decide (hi ≥ c.interval), decide (hi + c.W ≥ c.interval))
  else
    (decide (sp % c.interval = 0), decide ((sp - 1) % c.interval + c.W ≥ c.interval))

/-- The `for _ in range(num_workers)` scan of the worker cycle: `(found worker, new cycle position)`. -/
def findWorker (c : Cfg) (s : State) : Nat → Nat → Option Nat × Nat
  | 0, cyc => (none, cyc)
  | n + 1, cyc =>
    if up s cyc && (c.inOrder || decide (s.numTasks.getD cyc 0 < (c.P * c.W) / countUp s.status))
    then (some cyc, (cyc + 1) % c.W)
    else findWorker c s n ((cyc + 1) % c.W)

/-- The tail of `_try_put_index` once worker `w` has been chosen (`cyc` = new cycle position). -/
def dispatchTo (c : Cfg) (s : State) (w cyc : Nat) : State :=
  let sp := s.samplerPos + 1
  let fl := flags c sp s.numYielded
  { s with
    samplerPos := sp
    cyc := cyc
    mainSnaps := if fl.1 then s.mainSnaps ++ [(s.sendIdx, sp)] else s.mainSnaps
    bad := s.bad || decide (c.P * c.W ≤ s.outstanding) || (fl.1 && !fl.2)
    workers := pushMsg s.workers w (.task s.sendIdx (sp - 1) fl.2)
    info := s.info ++ [⟨s.sendIdx, w, none⟩]
    numTasks := s.numTasks.modify w (· + 1)
    outstanding := s.outstanding + 1
    sendIdx := s.sendIdx + 1 }

def tryPut (c : Cfg) (s : State) : State :=
  if !c.iterable && decide (c.batches.length ≤ s.samplerPos) then     -- sampler exhausted: StopIteration
    { s with bad := s.bad || decide (c.P * c.W ≤ s.outstanding) }
  else
    match findWorker c s c.W s.cyc with
    | (none, cyc) =>                                                  -- the drawn index is dropped
      { s with samplerPos := s.samplerPos + 1, cyc := cyc, bad := s.bad || decide (c.P * c.W ≤ s.outstanding) }
    | (some w, cyc) => dispatchTo c s w cyc

def prime (c : Cfg) : Nat → State → State
  | 0, s => s
  | n + 1, s => prime c n (tryPut c s)

/-! ## yielding: `_process_data`, `_take_snapshot` -/

/-- `while main_snapshots and main_snapshots[0][0] <= rcvd_idx - 1: popleft` → `(last popped, rest)`. -/
def popSnaps (rcvd : Nat) : List (Nat × Nat) → Option (Nat × Nat) → Option (Nat × Nat) × List (Nat × Nat)
  | [], last => (last, [])
  | e :: r, last => if e.1 + 1 ≤ rcvd then popSnaps rcvd r (some e) else (last, e :: r)

/-- `_take_snapshot`; `none` = the assertion fired. -/
def takeSnapshot (c : Cfg) (s : State) : Option State :=
  match popSnaps s.rcvdIdx s.mainSnaps none with
  | (none, rest) =>
    if !c.inOrder then some { s with mainSnaps := rest } else none
  | (some e, rest) =>
    if e.1 + 1 = s.rcvdIdx then
      some { s with mainSnaps := rest, snap := ⟨s.numYielded + 1, s.lastW, e.2, s.wsnaps⟩ }
    else if !c.inOrder then some { s with mainSnaps := rest }   -- in_order=False: skip (repo fix e083a8d)
    else none

def applyDelta (ws : List WSt) (w : Nat) : Option WSt → List WSt
  | none => ws
  | some st => ws.set w st

/-- `while main_snapshots and main_snapshots[0][0] < rcvd_idx - 1: popleft` (map-style `_snapshot_due`). -/
def dropStale (rcvd : Nat) : List (Nat × Nat) → List (Nat × Nat)
  | [] => []
  | e :: r => if e.1 + 1 < rcvd then dropStale rcvd r else e :: r

/-- `_snapshot_due` (only called with a non-zero interval): the state it leaves and its answer.
Iterable: `(num_yielded + 1) % interval == 0`.  Map-style (repo fix f1014eb): the main snapshots of
tasks before `rcvd_idx - 1` are dropped; due iff the head of the deque is the task `rcvd_idx - 1`. -/
def snapshotDue (c : Cfg) (s : State) : State × Bool :=
  if c.iterable then (s, decide ((s.numYielded + 1) % c.interval = 0))
  else
    let ms := dropStale s.rcvdIdx s.mainSnaps
    ({ s with mainSnaps := ms },
      match ms with
      | [] => false
      | e :: _ => decide (e.1 + 1 = s.rcvdIdx))

/-- The part of `_process_data` after the re-raise of an error, followed by `__next__`'s
`_num_yielded += 1`. -/
def yieldItem (c : Cfg) (s : State) (r : Res) (b : Nat) : State × Obs :=
  let s := { s with lastW := r.w, wsnaps := applyDelta s.wsnaps r.w r.st }
  if c.interval = 0 then ({ s with numYielded := s.numYielded + 1 }, .item b)
  else
    let d := snapshotDue c s
    if d.2 then
      match takeSnapshot c d.1 with
      | some s' => ({ s' with numYielded := s'.numYielded + 1 }, .item b)
      | none => ({ d.1 with mainSnaps := (popSnaps d.1.rcvdIdx d.1.mainSnaps none).2 }, .assertion)
    else ({ d.1 with numYielded := d.1.numYielded + 1 }, .item b)

/-- `_process_data`; the observation is what `next()` returns or raises. -/
def processData (c : Cfg) (s : State) (r : Res) : State × Obs :=
  let s := tryPut c { s with numTasks := s.numTasks.modify r.w (· - 1) }
  match r.kind with
  | .data b => yieldItem c s r b
  | _ => (s, .error)

/-! ## `_next_data` -/

/-- The inner `while self._rcvd_idx < self._send_idx` scan. -/
def skip (s : State) : Nat → State
  | 0 => s
  | n + 1 =>
    if s.rcvdIdx < s.sendIdx then
      match lookupInfo s.info s.rcvdIdx with
      | some e =>
        if e.res.isSome || up s e.w then s
        else skip { s with info := eraseInfo s.info s.rcvdIdx, rcvdIdx := s.rcvdIdx + 1 } n
      | none => skip { s with rcvdIdx := s.rcvdIdx + 1 } n
    else s

/-- `_mark_worker_as_unavailable`. -/
def markUnavailable (c : Cfg) (s : State) (w : Nat) (shutdown : Bool) : State :=
  { s with
    bad := s.bad || !(up s w || c.persistent || shutdown)
    workers := pushMsg s.workers w .stop
    status := s.status.set w false }

def shutdownLoop (c : Cfg) : Nat → State → State
  | 0, s => s
  | n + 1, s =>
    let s := shutdownLoop c n s
    if c.persistent || up s n then markUnavailable c s n true else s

/-- `_shutdown_workers` (up to the joins). -/
def shutdownWorkers (c : Cfg) (s : State) : State :=
  if s.shutdown then s else shutdownLoop c c.W { s with shutdown := true }

/-- The `while True` loop of `_next_data` from its top until it returns, raises or blocks in
`_get_data` (`none`).  `fuel` bounds the iterations (each one consumes a task index). -/
def loop (c : Cfg) : Nat → State → State × Option Obs
  | 0, s => (s, none)
  | n + 1, s =>
    let s := skip s (s.sendIdx - s.rcvdIdx)
    if s.sendIdx ≤ s.rcvdIdx then
      ((if c.persistent then s else shutdownWorkers c s), some .stop)
    else
      match lookupInfo s.info s.rcvdIdx with
      | none => (s, none)      -- unreachable: `skip` stops on a present entry
      | some e =>
        match e.res with
        | some r =>
          let s := { s with info := eraseInfo s.info s.rcvdIdx, rcvdIdx := s.rcvdIdx + 1 }
          if r.kind = .notice then loop c n { s with wsnaps := applyDelta s.wsnaps r.w r.st }
          else
            let (s, o) := processData c s r
            (s, some o)
        | none =>
          ({ s with bad := s.bad || s.shutdown || decide (s.outstanding = 0) }, none)

def loopFuel (s : State) : Nat := s.sendIdx - s.rcvdIdx + 1

/-- Deliver the outcome of a `loop` run to the consumer. -/
def finish (p : State × Option Obs) : State :=
  match p.2 with
  | some o => { p.1 with phase := .idle, obs := p.1.obs ++ [o] }
  | none => { p.1 with phase := .waiting }

/-- The status part of an arrival: an end-of-shard notice retires its worker and triggers one dispatch. -/
def onArrival (c : Cfg) (s : State) (r : Res) : State :=
  if c.iterable && decide (r.kind = .notice) then
    let s := if c.persistent then { s with status := s.status.set r.w false }
             else markUnavailable c s r.w false
    tryPut c { s with bad := s.bad || r.st.isNone }
  else s

/-- What `_next_data` does with one result taken from the queue, then on to the next blocking point. -/
def recvData (c : Cfg) (s : State) (r : Res) : State :=
  let s := onArrival c { s with outstanding := s.outstanding - 1 } r
  if r.idx ≠ s.rcvdIdx then
    if !c.inOrder then
      if r.kind = .notice then
        finish (loop c (loopFuel s) { s with wsnaps := applyDelta s.wsnaps r.w r.st })
      else
        let (s, o) := processData c { s with info := eraseInfo s.info r.idx } r
        finish (s, some o)
    else finish (loop c (loopFuel s) { s with info := setRes s.info r.idx r })
  else
    let s := { s with info := eraseInfo s.info r.idx, rcvdIdx := s.rcvdIdx + 1 }
    if r.kind = .notice then
      finish (loop c (loopFuel s) { s with wsnaps := applyDelta s.wsnaps r.w r.st })
    else
      let (s, o) := processData c s r
      finish (s, some o)

/-! ## workers -/

/-- What the fetch of a task returns: `none` = StopIteration (iterable only). -/
def fetch (c : Cfg) (w pos p : Nat) : Option Item :=
  if c.iterable then (c.shards.getD w [])[pos]? else some (c.batches.getD p .err)

/-- Worker `w` handles message `m`: new worker state and the result it puts, if any. -/
def handle (c : Cfg) (shutdown : Bool) (w : Nat) (k : Worker) : Msg → Worker × Option Res
  | .stop => ({ k with alive := false }, none)
  | .resume => ({ k with iterEnd := false, pos := 0 }, some ⟨0, w, .ack, some ⟨0, false⟩⟩)
  | .task idx p snap =>
    if shutdown || k.iterEnd then (k, none)
    else
      match fetch c w k.pos p with
      | none => ({ k with iterEnd := true }, some ⟨idx, w, .notice, some ⟨k.pos, true⟩⟩)
      | some (.ok b) =>
        ({ k with pos := k.pos + 1 }, some ⟨idx, w, .data b, if snap then some ⟨k.pos + 1, false⟩ else none⟩)
      | some .err => ({ k with pos := k.pos + 1 }, some ⟨idx, w, .error, none⟩)

/-! ## `_reset` (persistent workers) -/

def initSnap (c : Cfg) : Snap := ⟨0, c.W - 1, 0, List.replicate c.W ⟨0, false⟩⟩

/-- The state variables `_reset` re-initialises before the resume handshake. -/
def resetHead (c : Cfg) (s : State) : State :=
  { s with
    sendIdx := 0, rcvdIdx := 0, info := [], status := List.replicate c.W true, cyc := 0
    outstanding := 0, numTasks := List.replicate c.W 0, samplerPos := 0, numYielded := 0 }

/-- The end of `_reset`: initial snapshot, then priming. -/
def resetTail (c : Cfg) (s : State) : State :=
  prime c (c.P * c.W)
    { s with mainSnaps := [], lastW := c.W - 1, snap := ⟨0, c.W - 1, s.samplerPos, s.wsnaps⟩ }

def pushAll (ws : List Worker) (m : Msg) : List Worker := ws.map (fun k => { k with q := k.q ++ [m] })

/-! ## the transition system -/

def init (c : Cfg) : State :=
  resetTail c <| resetHead c
    { sendIdx := 0, rcvdIdx := 0, info := [], status := [], cyc := 0, outstanding := 0, numTasks := []
      samplerPos := 0, numYielded := 0, mainSnaps := [], wsnaps := List.replicate c.W ⟨0, false⟩
      snap := initSnap c, lastW := 0
      shutdown := false, bad := false
      workers := List.replicate c.W ⟨[], 0, false, true⟩, resQ := [], phase := .idle, obs := [] }

/-- The liveness poll of `_try_get_data` after a queue timeout: workers that are expected to have work
but are not alive. -/
def failedWorkers (s : State) : Nat → List Nat
  | 0 => []
  | n + 1 =>
    failedWorkers s n ++
      (if up s n && !((s.workers[n]?).map (·.alive)).getD true then [n] else [])

def markAll (c : Cfg) (s : State) : List Nat → State
  | [] => s
  | w :: r => markAll c (markUnavailable c s w false) r

def step (c : Cfg) (s : State) : Action → Option State
  | .work w =>
    match s.workers[w]? with
    | none => none
    | some k =>
      if !k.alive then none else
      match k.q with
      | [] => none
      | m :: rest =>
        let (k', out) := handle c s.shutdown w { k with q := rest } m
        some { s with workers := s.workers.set w k'
                      resQ := match out with | some r => s.resQ ++ [r] | none => s.resQ }
  | .next =>
    if s.phase ≠ .idle then none else some (finish (loop c (loopFuel s) s))
  | .recv =>
    match s.resQ with
    | [] => none
    | r :: rest =>
      match s.phase with
      | .idle => none
      | .waiting => if r.kind = .ack then none else some (recvData c { s with resQ := rest } r)
      | .resuming k =>
        let s := { s with resQ := rest }
        if r.kind = .ack then
          let s := { s with wsnaps := applyDelta s.wsnaps r.w r.st }
          if k ≤ 1 then
            let s := resetTail c s
            some { s with phase := .idle, obs := s.obs ++ [.resetDone] }
          else some { s with phase := .resuming (k - 1) }
        else some s
  | .stateDict =>
    if s.phase ≠ .idle then none
    else some { s with obs := s.obs ++ [.sd s.snap.step (s.numYielded - s.snap.step) s.snap.lastW s.snap.main s.snap.ws] }
  | .reset =>
    if s.phase ≠ .idle ∨ !c.persistent ∨ s.shutdown then none
    else some { resetHead c s with workers := pushAll s.workers .resume, phase := .resuming c.W }
  | .kill w =>
    match s.workers[w]? with
    | none => none
    | some k => if !k.alive then none else some { s with workers := s.workers.set w { k with alive := false } }
  | .pollTimeout =>
    if s.phase = .idle ∨ s.resQ ≠ [] then none
    else
      match failedWorkers s c.W with
      | [] => some s
      | f :: fs =>
        let s := markAll c s (f :: fs)
        some { s with phase := .idle, obs := s.obs ++ [.workerDied] }

def run (c : Cfg) : State → List Action → Option State
  | s, [] => some s
  | s, a :: as => match step c s a with
    | none => none
    | some s' => run c s' as

/-- The batches yielded so far. -/
def yields : List Obs → List Nat
  | [] => []
  | .item b :: r => b :: yields r
  | _ :: r => yields r

end TDV.MP
