/-!
# M2 `Sampler` — stateful samplers (`torchdata/stateful_dataloader/sampler.py`)

Three iterators, modelled as the Python code is written:

* `RIter`  = `_StatefulRandomSamplerIterator` together with the `torch.Generator` it shares with its
  `RandomSampler` (the *world* is the pair iterator × generator state).  torch's RNG is not modelled: a
  generator is any type `G` of states with two draw functions (`Gen G`); `get_state`/`set_state` read and
  overwrite the state.
* `BIter`  = `_BatchSamplerIterator` over an abstract nested sampler (`Nested`): `iter(sampler)`, `next`,
  and the two optional state mechanisms (the sampler object is `Stateful`, the iterator is `Stateful`).
* `DWorld` = `StatefulDistributedSampler` (sampler object fields `epoch`, `yielded`, `next_yielded`) plus
  the *generator object* returned by `__iter__` (`_iterate`), whose body starts running at the first
  `next()` while `__iter__` itself updates the position eagerly; the index list is torch's
  `DistributedSampler.__iter__` arithmetic (`DCfg.indices`).

`Out` is the result of one `next()` call: an item, `StopIteration`, or another exception (`IndexError`
of `self.perm[self.perm_index]` on an empty permutation).
-/
namespace TDV.Sampler

inductive Out where
  | item (v : Nat)
  | stop
  | err
  deriving DecidableEq, Repr

/-- State after `k` calls of `next`. -/
def nextN {W : Type} (nx : W → Out × W) : Nat → W → W
  | 0, w => w
  | k + 1, w => nextN nx k (nx w).2

/-- A `for` loop over the iterator: items until the first `StopIteration`/exception (`fuel` calls at
most); returns the items and the state after the last call. -/
def drain {W : Type} (nx : W → Out × W) : Nat → W → List Nat × W
  | 0, w => ([], w)
  | f + 1, w =>
    match nx w with
    | (.item v, w') => let r := drain nx f w'; (v :: r.1, r.2)
    | (_, w') => ([], w')

/-- `w` yields exactly the items `ys` and is then in state `w'`. -/
def Steps {W : Type} (nx : W → Out × W) : W → List Nat → W → Prop
  | w, [], w' => w = w'
  | w, y :: ys, w' => (nx w).1 = .item y ∧ Steps nx (nx w).2 ys w'

/-- `w` yields exactly the items `xs` and then raises `StopIteration` on every further call. -/
def Emits {W : Type} (nx : W → Out × W) : W → List Nat → Prop
  | w, [] => ∀ k, (nx (nextN nx k w)).1 = .stop
  | w, x :: xs => (nx w).1 = .item x ∧ Emits nx (nx w).2 xs

/-! ## Abstract generator -/

/-- A random generator with state type `G`: `perm g n` is `torch.randperm(n, generator=g).tolist()` and
`ints g high count` is `torch.randint(high=high, size=(count,), generator=g).tolist()`, each returning
the advanced generator state. -/
structure Gen (G : Type) where
  perm : G → Nat → List Nat × G
  ints : G → Nat → Nat → List Nat × G

/-! ## `_StatefulRandomSamplerIterator` -/

structure RCfg where
  n : Nat               -- len(sampler.data_source)
  replacement : Bool
  numSamples : Nat      -- sampler.num_samples
  deriving Repr

def chunkSize : Nat := 32

structure RIter (G : Type) where
  genState : G          -- self.generator_state: sampler.generator.get_state() at creation / loaded
  yielded : Nat
  perm : List Nat
  permIndex : Nat
  deriving Repr

/-- `_get_perm`: one draw from the shared generator. -/
def getPerm {G : Type} (R : Gen G) (c : RCfg) (g : G) : List Nat × G :=
  if c.replacement then R.ints g c.n chunkSize else R.perm g c.n

/-- `__init__`: records the generator state, THEN draws the first permutation / chunk. -/
def RIter.create {G : Type} (R : Gen G) (c : RCfg) (g : G) : RIter G × G :=
  let d := getPerm R c g
  ({ genState := g, yielded := 0, perm := d.1, permIndex := 0 }, d.2)

/-- `__next__`. -/
def RIter.next {G : Type} (R : Gen G) (c : RCfg) (w : RIter G × G) : Out × (RIter G × G) :=
  if w.1.yielded = c.numSamples then (.stop, w)
  else
    let d := if w.1.permIndex = w.1.perm.length then
        let d := getPerm R c w.2; (d.1, 0, d.2)
      else (w.1.perm, w.1.permIndex, w.2)
    match d.1[d.2.1]? with
    | none => (.err, ({ w.1 with perm := d.1, permIndex := d.2.1 }, d.2.2))
    | some v => (.item v, ({ w.1 with perm := d.1, permIndex := d.2.1 + 1, yielded := w.1.yielded + 1 }, d.2.2))

/-- `state_dict()`: `(yielded, generator_state)`. -/
def RIter.stateDict {G : Type} (it : RIter G) : Nat × G := (it.yielded, it.genState)

/-- `for _ in range(k): next(self)`; `none` when one of the calls raises. -/
def RIter.skip {G : Type} (R : Gen G) (c : RCfg) : Nat → RIter G × G → Option (RIter G × G)
  | 0, w => some w
  | k + 1, w =>
    match RIter.next R c w with
    | (.item _, w') => RIter.skip R c k w'
    | _ => none

/-- `load_state_dict`: `set_state` on the shared generator, redraw, fast-forward with `next(self)`, then
`self.yielded = next_yielded`.  Neither `perm_index` nor `yielded` is reset before the fast-forward.
`none`: an exception left `load_state_dict`. -/
def RIter.load {G : Type} (R : Gen G) (c : RCfg) (w : RIter G × G) (sd : Nat × G) : Option (RIter G × G) :=
  let d := getPerm R c sd.2
  match RIter.skip R c sd.1 ({ w.1 with genState := sd.2, perm := d.1 }, d.2) with
  | none => none
  | some w' => some ({ w'.1 with yielded := sd.1 }, w'.2)

/-- One epoch of `for i in sampler` starting with generator state `g`: the items and the final world. -/
def RIter.epoch {G : Type} (R : Gen G) (c : RCfg) (g : G) : List Nat × (RIter G × G) :=
  drain (RIter.next R c) (c.numSamples + 1) (RIter.create R c g)

/-- `q` successive draws. -/
def drawsSeq {G : Type} (R : Gen G) (c : RCfg) : Nat → G → List (List Nat) × G
  | 0, g => ([], g)
  | q + 1, g =>
    let d := getPerm R c g
    let r := drawsSeq R c q d.2
    (d.1 :: r.1, r.2)

/-! ## torch `DistributedSampler` index arithmetic -/

def ceilDiv (a b : Nat) : Nat := (a + b - 1) / b

structure DCfg where
  n : Nat           -- len(dataset)
  replicas : Nat
  rank : Nat
  dropLast : Bool
  deriving Repr

/-- `self.num_samples` (`math.ceil` of a true division; `(n - replicas) / replicas` is negative but
above -1 when `n < replicas`, so its ceiling is 0, which is what truncated subtraction gives). -/
def DCfg.numSamples (c : DCfg) : Nat :=
  if c.dropLast && c.n % c.replicas != 0 then ceilDiv (c.n - c.replicas) c.replicas
  else ceilDiv c.n c.replicas

def DCfg.totalSize (c : DCfg) : Nat := c.numSamples * c.replicas

/-- The padded / truncated list (`idx` is the shuffled or sequential index list of the epoch). -/
def DCfg.padded (c : DCfg) (idx : List Nat) : List Nat :=
  if c.dropLast then idx.take c.totalSize
  else
    let pad := c.totalSize - idx.length
    if pad ≤ idx.length then idx ++ idx.take pad
    else idx ++ ((List.replicate (ceilDiv pad idx.length) idx).flatten).take pad

/-- Python `l[start:stop:step]` for non-negative arguments and `step > 0`. -/
def slice (l : List Nat) (start stop step : Nat) : List Nat :=
  (List.range (ceilDiv (min stop l.length - start) step)).filterMap fun i => l[start + i * step]?

/-- `indices[self.rank : self.total_size : self.num_replicas]`. -/
def DCfg.indices (c : DCfg) (idx : List Nat) : List Nat :=
  slice (c.padded idx) c.rank c.totalSize c.replicas

/-! ## `StatefulDistributedSampler` -/

structure DSampler where
  epoch : Nat
  yielded : Nat
  nextYielded : Option Nat
  deriving DecidableEq, Repr

/-- The generator object `self._iterate(it)` returned by `__iter__`: its body has not started (it holds
the index list `it` that `super().__iter__()` computed when `iter()` was called), is suspended at `yield`
with the rest of the `islice`, or has returned. -/
inductive DGen where
  | unstarted (it : List Nat)
  | running (rest : List Nat)
  | finished
  deriving DecidableEq, Repr

structure DWorld where
  s : DSampler
  gen : DGen
  deriving DecidableEq, Repr

/-- A newly constructed sampler object (no iterator yet: `finished` stands for "none"). -/
def DWorld.fresh : DWorld := { s := { epoch := 0, yielded := 0, nextYielded := none }, gen := .finished }

def DWorld.setEpoch (w : DWorld) (e : Nat) : DWorld := { w with s := { w.s with epoch := e } }

/-- Where the next iterator will start: `next_yielded` if a state was loaded, else 0. -/
def DWorld.pos (w : DWorld) : Nat :=
  match w.s.nextYielded with
  | some k => k
  | none => 0

/-- `iter(sampler)`: runs eagerly — `self.yielded = 0`, or the pending `next_yielded` (which is consumed),
and torch's `super().__iter__()` computes the epoch's index list now (`shuf e` is the shuffled or
sequential list torch starts from in epoch `e`).  The returned generator object has not started. -/
def DWorld.iter (c : DCfg) (shuf : Nat → List Nat) (w : DWorld) : DWorld :=
  { s := { w.s with yielded := w.pos, nextYielded := none },
    gen := .unstarted (c.indices (shuf w.s.epoch)) }

def DWorld.stateDict (w : DWorld) : Nat := w.s.yielded

def DWorld.load (w : DWorld) (k : Nat) : DWorld := { w with s := { w.s with nextYielded := some k } }

/-- `next()` on the current generator object.  The body `for idx in islice(it, self.yielded, None)`
starts at the first call and reads `self.yielded` THEN; every yielded index increments
`self.yielded` first. -/
def DWorld.next (w : DWorld) : Out × DWorld :=
  match w.gen with
  | .unstarted it =>
    match it.drop w.s.yielded with
    | [] => (.stop, { w with gen := .finished })
    | x :: r => (.item x, { s := { w.s with yielded := w.s.yielded + 1 }, gen := .running r })
  | .running [] => (.stop, { w with gen := .finished })
  | .running (x :: r) => (.item x, { s := { w.s with yielded := w.s.yielded + 1 }, gen := .running r })
  | .finished => (.stop, w)

/-! ## `_BatchSamplerIterator` -/

/-- The nested sampler as `_BatchSamplerIterator` uses it.  `W` is everything mutable (sampler object,
its current iterator, shared generator).  `sState`/`iState` are present iff the sampler object / its
iterator satisfy the `Stateful` protocol. -/
structure Nested (W S T : Type) where
  iter : W → W
  next : W → Out × W
  sState : Option (W → S)
  sLoad : W → S → W
  iState : Option (W → T)
  iLoad : W → T → Option W

structure BCfg where
  batchSize : Nat
  dropLast : Bool
  deriving Repr

structure BIter (W : Type) where
  w : W
  samplesYielded : Nat
  deriving Repr

inductive BOut where
  | batch (l : List Nat)
  | stop
  | err
  deriving DecidableEq, Repr

inductive Fill where
  | full | stopped | errored
  deriving DecidableEq, Repr

def BIter.create {W S T : Type} (N : Nested W S T) (w : W) : BIter W :=
  { w := N.iter w, samplesYielded := 0 }

/-- The `for _ in range(batch_size)` loop of `__next__`. -/
def BIter.fill {W S T : Type} (N : Nested W S T) : Nat → BIter W → List Nat × Fill × BIter W
  | 0, b => ([], .full, b)
  | k + 1, b =>
    match N.next b.w with
    | (.item v, w') =>
      let r := BIter.fill N k { w := w', samplesYielded := b.samplesYielded + 1 }
      (v :: r.1, r.2.1, r.2.2)
    | (.stop, w') => ([], .stopped, { b with w := w' })
    | (.err, w') => ([], .errored, { b with w := w' })

def BIter.next {W S T : Type} (N : Nested W S T) (c : BCfg) (b : BIter W) : BOut × BIter W :=
  match BIter.fill N c.batchSize b with
  | (l, .full, b') => (.batch l, b')
  | (l, .stopped, b') => if c.dropLast || l.isEmpty then (.stop, b') else (.batch l, b')
  | (_, .errored, b') => (.err, b')

def BIter.stateDict {W S T : Type} (N : Nested W S T) (b : BIter W) : Nat × Option S × Option T :=
  (b.samplesYielded, N.sState.map (· b.w), N.iState.map (· b.w))

def skipN {W : Type} (nx : W → Out × W) : Nat → W → Option W
  | 0, w => some w
  | k + 1, w =>
    match nx w with
    | (.item _, w') => skipN nx k w'
    | _ => none

/-- `load_state_dict`: load the sampler state, RE-CREATE the iterator, load the iterator state; if
neither exists, skip `samples_yielded` items. -/
def BIter.load {W S T : Type} (N : Nested W S T) (b : BIter W) (sd : Nat × Option S × Option T) :
    Option (BIter W) :=
  let w1 := match sd.2.1 with
    | some s => N.sLoad b.w s
    | none => b.w
  let w2 := N.iter w1
  let w3 := match sd.2.2 with
    | some t => N.iLoad w2 t
    | none => some w2
  match w3 with
  | none => none
  | some w3 =>
    if N.sState.isNone && N.iState.isNone then
      (skipN N.next sd.1 w3).map fun w4 => { w := w4, samplesYielded := sd.1 }
    else some { w := w3, samplesYielded := sd.1 }

/-- `for batch in batch_sampler_iter`: batches until the first `StopIteration`/exception. -/
def BIter.drain {W S T : Type} (N : Nested W S T) (c : BCfg) : Nat → BIter W → List (List Nat) × BIter W
  | 0, b => ([], b)
  | f + 1, b =>
    match BIter.next N c b with
    | (.batch l, b') => let r := BIter.drain N c f b'; (l :: r.1, r.2)
    | (_, b') => ([], b')

/-- State after `j` calls of `__next__`. -/
def BIter.nextN {W S T : Type} (N : Nested W S T) (c : BCfg) : Nat → BIter W → BIter W
  | 0, b => b
  | j + 1, b => BIter.nextN N c j (BIter.next N c b).2

/-- torch's `BatchSampler` semantics: consecutive groups of `bs`; the last, shorter group is kept iff
`dropLast` is false.  The number of groups is torch's `BatchSampler.__len__`. -/
def chunkRef (bs : Nat) (dropLast : Bool) (xs : List Nat) : List (List Nat) :=
  (List.range (if dropLast then xs.length / bs else (xs.length + bs - 1) / bs)).map
    fun i => (xs.drop (i * bs)).take bs

/-! ### The three kinds of nested samplers -/

/-- `RandomSampler`: the iterator is `Stateful`, the sampler object is not. -/
def randomNested {G : Type} (R : Gen G) (c : RCfg) : Nested (RIter G × G) Unit (Nat × G) where
  iter w := RIter.create R c w.2
  next := RIter.next R c
  sState := none
  sLoad w _ := w
  iState := some fun w => w.1.stateDict
  iLoad w t := RIter.load R c w t

/-- `StatefulDistributedSampler`: the sampler object is `Stateful`, the generator object is not. -/
def distNested (c : DCfg) (shuf : Nat → List Nat) : Nested DWorld Nat Unit where
  iter := DWorld.iter c shuf
  next := DWorld.next
  sState := some DWorld.stateDict
  sLoad := DWorld.load
  iState := none
  iLoad w _ := some w

/-- A plain deterministic sampler (a list, `SequentialSampler`, ...): `W` = (the list, rest of the
current iterator). -/
def plainNested : Nested (List Nat × List Nat) Unit Unit where
  iter w := (w.1, w.1)
  next w := match w.2 with
    | [] => (.stop, w)
    | x :: r => (.item x, (w.1, r))
  sState := none
  sLoad w _ := w
  iState := none
  iLoad w _ := some w

end TDV.Sampler
