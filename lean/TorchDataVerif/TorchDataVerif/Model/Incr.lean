/-!
# M1 `Incr` — incremental worker state (`torchdata/stateful_dataloader/incremental_state.py`)

State values are trees: a *leaf* is anything `_flatten` does not traverse (scalars, strings, lists,
tensors, `None`, and the empty dict); a `dict` is a non-empty dict in insertion order.  Leaf content is
an opaque code (`Nat`): the only operation the code performs on leaves is the equality test in
`generate_delta`.  Flat states are insertion-ordered association lists, like Python dicts.

After the `fix:` commit that makes `_IncrementalState` keep private copies, leaves are values (no
aliasing), which is what this model says.  The correspondence leg drives the real classes with
histories that mutate reported objects in place, so a return of the aliasing shows up as a divergence.
-/
namespace TDV.Incr

abbrev Key := Nat
abbrev Path := List Key

inductive Val where
  | leaf (c : Nat)
  | dict (kvs : List (Key × Val))

abbrev Flat := List (Path × Nat)
/-- A delta entry: `none` is the tombstone. -/
abbrev Delta := List (Path × Option Nat)

/-- `_flatten(data, key_lineage)`.  An empty dict is a leaf in the Python code; it is represented as a
`leaf` by the harness, and `dict []` flattens to nothing (it is excluded by `Val.WF`). -/
def flatten : Val → Path → Flat
  | .leaf c, p => [(p, c)]
  | .dict kvs, p => flattenL kvs p
where
  flattenL : List (Key × Val) → Path → Flat
    | [], _ => []
    | (k, v) :: r, p => flatten v (p ++ [k]) ++ flattenL r p

/-- Well-formed values: no empty dict nodes, keys pairwise distinct at every level. -/
def Val.WF : Val → Prop
  | .leaf _ => True
  | .dict kvs => kvs ≠ [] ∧ (kvs.map Prod.fst).Nodup ∧ WFL kvs
where
  WFL : List (Key × Val) → Prop
    | [] => True
    | (_, v) :: r => v.WF ∧ WFL r

def lookup {α : Type} (p : Path) : List (Path × α) → Option α
  | [] => none
  | (q, a) :: r => if q = p then some a else lookup p r

/-- Python `d[k] = v`: replace in place if present, else append. -/
def insert {α : Type} (p : Path) (a : α) : List (Path × α) → List (Path × α)
  | [] => [(p, a)]
  | (q, b) :: r => if q = p then (q, a) :: r else (q, b) :: insert p a r

/-- Python `d.pop(k, None)`. -/
def erase {α : Type} (p : Path) : List (Path × α) → List (Path × α)
  | [] => []
  | (q, b) :: r => if q = p then r else (q, b) :: erase p r

/-- `_IncrementalState.generate_delta`: tombstones for vanished keys, new values for new or changed
keys.  (The Python code iterates a `set` of keys, so the order of the delta is unspecified; this is one
such order.) -/
def generateDelta (base new : Flat) : Delta :=
  (base.filterMap fun (k, v) =>
      match lookup k new with
      | none => some (k, none)
      | some v' => if v = v' then none else some (k, some v'))
  ++ (new.filterMap fun (k, v') =>
      match lookup k base with
      | none => some (k, some v')
      | some _ => none)

/-- `_IncrementalState.apply_delta`. -/
def applyDelta (st : Flat) (d : Delta) : Flat :=
  d.foldl (fun st (k, u) => match u with
    | none => erase k st
    | some v => insert k v st) st

/-- `_unflatten`: group by first key component (first-occurrence order), recurse on the groups.  A
root entry (empty path) is returned as is.  `fuel` bounds the nesting depth (the Python recursion
terminates because paths get shorter). -/
def groupInsert (k : Key) (e : Path × Nat) : List (Key × Flat) → List (Key × Flat)
  | [] => [(k, [e])]
  | (k', g) :: r => if k' = k then (k', g ++ [e]) :: r else (k', g) :: groupInsert k e r

def groups (fl : Flat) : List (Key × Flat) :=
  fl.foldl (fun acc (p, c) => match p with
    | [] => acc
    | k :: rest => groupInsert k (rest, c) acc) []

def unflatten : Nat → Flat → Val
  | 0, _ => .dict []
  | fuel + 1, fl =>
    match fl.find? (fun e => e.1 = []) with
    | some (_, c) => .leaf c
    | none => .dict ((groups fl).map fun (k, g) => (k, unflatten fuel g))

def depth (fl : Flat) : Nat := fl.foldl (fun m e => max m e.1.length) 0

/-- `_IncrementalState.get_state`. -/
def getState (fl : Flat) : Val := unflatten (depth fl + 1) fl

/-- Path lookup in a value: the semantic content of a state (order-insensitive). -/
def Val.get : Val → Path → Option Nat
  | .leaf c, [] => some c
  | .leaf _, _ :: _ => none
  | .dict _, [] => none
  | .dict kvs, k :: p => getL kvs k p
where
  getL : List (Key × Val) → Key → Path → Option Nat
    | [], _, _ => none
    | (k', v) :: r, k, p => if k' = k then v.get p else getL r k p

/-- Worker side and main side of one `_IncrementalState` pair. -/
structure Pair where
  base : Flat      -- worker: `flat_state` (diff base)
  main : Flat      -- main process: accumulated `flat_state`

def Pair.init (v : Val) : Pair := { base := flatten v [], main := flatten v [] }

/-- One report for which a delta is generated, shipped and applied. -/
def Pair.report (s : Pair) (v : Val) : Pair :=
  let nf := flatten v []
  { base := nf, main := applyDelta s.main (generateDelta s.base nf) }

end TDV.Incr
