/-!
# M5 `PF` — the Prefetcher thread protocol as a small-step transition system

Source: `torchdata/nodes/map.py` (`_SingleThreadedMapper`), `_populate_queue.py`, `snapshot_store.py`
(`QueueSnapshotStore`), `prefetch.py` (`Prefetcher.reset`).

One action per primitive operation on a shared object (queue put/get, semaphore acquire/release, event
set/test, snapshot-store append/pop, thread join, source enter/leave) plus the timeout variant of every
timed wait.  `step : Cfg → State → Action → Option State` is deterministic given the action; `none` = not
enabled.  A timed wait can only time out when the resource is unavailable.

Conventions
* The source yields `src` and then the terminal `term`; its state after `j` items is `base + j` (truthy, so
  `_put` stores it).  `startErr`: `source.state_dict()` raises at reader start-up.
* `MonotonicIndex`: the index of a put is the number of items pulled before it (`pulled`); the terminal
  marker gets index `src.length`.
* The snapshot-store FIFO is `(sinit, store)`: the initial entry (version −1) is the head while present.
* `got` is a history variable: the messages the consumer has completely processed, oldest first;
  `delivered` are the items among them.
* `BoundedSemaphore.release` above the initial value raises ValueError: `cRel` needs `sem < pf`
  (`Props.PF.release_never_overflows` shows it is always enabled when reached).
* `source.state_dict()` of the snapshot is taken inside `rLeave` (same thread, no shared object in between).
-/
namespace TDV.PF

inductive Term | stop | error
  deriving DecidableEq, Repr

/-- What travels through the queue: an item, the StopIteration marker, an ExceptionWrapper. -/
inductive Pay | item (v : Nat) | stop | err
  deriving DecidableEq, Repr

def Pay.item? : Pay → Option Nat
  | .item v => some v
  | _ => none

def Pay.isItem : Pay → Bool
  | .item _ => true
  | _ => false

structure Msg where
  pay : Pay
  idx : Nat
  deriving DecidableEq, Repr

structure Cfg where
  pf : Nat                -- prefetch_factor
  f : Nat                 -- snapshot_frequency
  src : List Nat          -- items the source yields after `reset`
  term : Term
  base : Nat              -- source state (position) at reset
  startErr : Bool         -- `source.state_dict()` raises in the reader's start-up
  deriving Repr

/-- `source.state_dict()` RAISES when the snapshot after the `p`-th item of this generation is due (`0 < f`, `p % f = 0`,
`1 ≤ p ≤ src.length`).  In `_populate_queue` the `try` covers `next(source)`, `yielded += 1`, `source.state_dict()` and `_put`
alike, so the `p`-th item is dropped, an ExceptionWrapper is put with the index `p-1` and the reader returns: for the protocol
this is the source `src.take (p-1)` ending in an error (the interaction next+state_dict is the single action `rLeave`). -/
def Cfg.withSnapErr (c : Cfg) (p : Nat) : Cfg := { c with src := c.src.take (p - 1), term := .error }

def Term.pay : Term → Pay
  | .stop => .stop
  | .error => .err

/-- reader = `_populate_queue` -/
inductive RPc
  | init                      -- before `append_initial_snapshot`
  | top                       -- `while not stop_event.is_set()`
  | acq                       -- `semaphore.acquire(timeout)`
  | next                      -- permit held, about to call `next(source)`
  | insrc                     -- inside `next(source)`
  | app (v : Nat) (i : Nat)   -- item in hand, snapshot to append as version i
  | put (m : Msg)             -- `q.put((item, idx))`
  | ret                       -- `_populate_queue` is returning (thread still alive)
  | exited
  deriving DecidableEq, Repr

/-- consumer = `__init__` tail, `__next__`, `_shutdown` -/
inductive CPc
  | boot                      -- `get_initial_snapshot`
  | dead                      -- constructor raised (start-up exception)
  | idle                      -- outside `next()`
  | top                       -- `self._stop_event.is_set()`
  | get                       -- `self._q.get(timeout)`
  | rel (m : Msg)             -- `self._sem.release()`
  | set (m : Msg)             -- `self._stop_event.set()` then raise
  | pop (m : Msg)             -- `_snapshot_store.pop_version(idx)` then return
  | join                      -- `_shutdown`: stop set, `thread.join(0.5)`
  | closed                    -- `_shutdown` returned
  deriving DecidableEq, Repr

structure State where
  rpc : RPc
  pulled : Nat            -- items obtained from the source (`yielded`)
  rterm : Bool            -- the source has raised its terminal
  q : List Msg
  sem : Nat
  stop : Bool
  sinit : Bool
  store : List (Nat × Nat)
  cpc : CPc
  snap : Nat
  steps : Nat
  got : List Msg
  nstop : Nat             -- StopIterations raised by `next()`
  errs : Nat              -- exceptions raised by `next()`
  deriving DecidableEq, Repr

inductive Action
  | rInit | rIsSet | rAcq | rAcqT | rEnter | rLeave | rAppend | rPut | rExit
  | cBoot | cBootT | cCall | cIsSet | cGet | cGetT | cRel | cSet | cPop
  | cShut | cJoin | cJoinT
  deriving DecidableEq, Repr

def Action.isTimeout : Action → Bool
  | .rAcqT | .cBootT | .cGetT | .cJoinT => true
  | _ => false

def Action.isReader : Action → Bool
  | .rInit | .rIsSet | .rAcq | .rAcqT | .rEnter | .rLeave | .rAppend | .rPut | .rExit => true
  | _ => false

def init (c : Cfg) : State :=
  { rpc := .init, pulled := 0, rterm := false, q := [], sem := c.pf, stop := false, sinit := false, store := [],
    cpc := .boot, snap := c.base, steps := 0, got := [], nstop := 0, errs := 0 }

/-- `snapshot_frequency > 0 and yielded % snapshot_frequency == 0` for the item with index `i`. -/
def snapAt (c : Cfg) (i : Nat) : Bool := decide (0 < c.f) && (i + 1) % c.f == 0

/-- `QueueSnapshotStore.pop_version`: the while loop. -/
def popLoop (ver : Nat) : List (Nat × Nat) → Option (Nat × Nat) → List (Nat × Nat) × Option (Nat × Nat)
  | [], last => ([], last)
  | (v, x) :: r, last => if v ≤ ver then popLoop ver r (some (v, x)) else ((v, x) :: r, last)

def popVersion (ver : Nat) (st : List (Nat × Nat)) : List (Nat × Nat) × Option Nat :=
  match popLoop ver st none with
  | (st', some (v, x)) => (st', if v = ver then some x else none)
  | (st', none) => (st', none)

def delivered (s : State) : List Nat := s.got.filterMap (·.pay.item?)

/-- reader transitions -/
def stepR (c : Cfg) (s : State) : Action → Option State
  | .rInit =>
    -- `snapshot_store.append_initial_snapshot(source.state_dict())`, or the StartupExceptionWrapper + return
    if s.rpc = .init then some { s with sinit := true, rpc := if c.startErr then .ret else .top } else none
  | .rIsSet =>
    if s.rpc = .top then some { s with rpc := if s.stop then .ret else .acq } else none
  | .rAcq =>
    if s.rpc = .acq ∧ 0 < s.sem then some { s with sem := s.sem - 1, rpc := .next } else none
  | .rAcqT =>
    if s.rpc = .acq ∧ s.sem = 0 then some { s with rpc := .top } else none
  | .rEnter =>
    if s.rpc = .next then some { s with rpc := .insrc } else none
  | .rLeave =>
    if s.rpc = .insrc then
      match c.src[s.pulled]? with
      | some v =>
        let i := s.pulled
        some { s with pulled := s.pulled + 1,
                      rpc := if snapAt c i then .app v i else .put ⟨.item v, i⟩ }
      | none => some { s with rterm := true, rpc := .put ⟨c.term.pay, s.pulled⟩ }
    else none
  | .rAppend =>
    match s.rpc with
    | .app v i => some { s with store := s.store ++ [(i, c.base + i + 1)], rpc := .put ⟨.item v, i⟩ }
    | _ => none
  | .rPut =>
    match s.rpc with
    | .put m => some { s with q := s.q ++ [m], rpc := if m.pay.isItem then .top else .ret }
    | _ => none
  | .rExit =>
    if s.rpc = .ret then some { s with rpc := .exited } else none
  | _ => none

/-- consumer transitions -/
def stepC (c : Cfg) (s : State) : Action → Option State
  | .cBoot =>
    -- `get_initial_snapshot`: `_q.get` succeeds; a StartupExceptionWrapper is re-raised by the constructor
    if s.cpc = .boot ∧ s.sinit then
      some { s with sinit := false, snap := c.base, cpc := if c.startErr then .dead else .idle }
    else none
  | .cBootT =>
    if s.cpc = .boot ∧ ¬ s.sinit ∧ s.store = [] then some s else none
  | .cCall =>
    if s.cpc = .idle then some { s with cpc := .top } else none
  | .cIsSet =>
    if s.cpc = .top then
      (if s.stop then some { s with cpc := .idle, nstop := s.nstop + 1 } else some { s with cpc := .get })
    else none
  | .cGet =>
    if s.cpc = .get then
      match s.q with
      | m :: r => some { s with q := r, cpc := .rel m }
      | [] => none
    else none
  | .cGetT =>
    if s.cpc = .get ∧ s.q = [] then some { s with cpc := .top } else none
  | .cRel =>
    match s.cpc with
    | .rel m =>
      if s.sem < c.pf then some { s with sem := s.sem + 1, cpc := if m.pay.isItem then .pop m else .set m }
      else none
    | _ => none
  | .cSet =>
    match s.cpc with
    | .set m =>
      some { s with stop := true, got := s.got ++ [m], cpc := .idle,
                    nstop := if m.pay = .stop then s.nstop + 1 else s.nstop,
                    errs := if m.pay = .stop then s.errs else s.errs + 1 }
    | _ => none
  | .cPop =>
    match s.cpc with
    | .pop m =>
      match popVersion m.idx s.store with
      | (st', some x) => some { s with store := st', snap := x, steps := 0, got := s.got ++ [m], cpc := .idle }
      | (st', none) => some { s with store := st', steps := s.steps + 1, got := s.got ++ [m], cpc := .idle }
    | _ => none
  | .cShut =>
    -- `_shutdown` (from `Prefetcher.reset`, `__del__`): `_stop_event.set()`
    if s.cpc = .idle ∨ s.cpc = .closed ∨ s.cpc = .dead then some { s with stop := true, cpc := .join } else none
  | .cJoin =>
    -- thread not alive, or `join` returns because the thread exited
    if s.cpc = .join ∧ s.rpc = .exited then some { s with cpc := .closed } else none
  | .cJoinT =>
    -- `join(timeout=0.5)` gives up
    if s.cpc = .join ∧ s.rpc ≠ .exited then some { s with cpc := .closed } else none
  | _ => none

def step (c : Cfg) (s : State) (a : Action) : Option State :=
  if a.isReader then stepR c s a else stepC c s a

def run (c : Cfg) : State → List Action → Option State
  | s, [] => some s
  | s, a :: as => match step c s a with
    | some s' => run c s' as
    | none => none

/-- every state the protocol can reach -/
def Reachable (c : Cfg) (s : State) : Prop := ∃ as, run c (init c) as = some s

/-! ## Generations: `Prefetcher.reset` = `_shutdown` (+ `__del__` → `_shutdown` again), then a new
`_SingleThreadedMapper` whose constructor resets the source in the CONSUMER thread and starts a new reader.
The old reader thread keeps running on its own queue / semaphore / event until it exits. -/

structure GState where
  ccfg : Cfg
  cur : State
  old : List (Cfg × State)      -- abandoned generations, newest first; only their readers still move
  deriving Repr

inductive GAction
  | cur (a : Action)
  | old (i : Nat) (a : Action)  -- a reader action of abandoned generation `i`
  | reset (c : Cfg)             -- new generation (source reset by the consumer thread)
  deriving Repr

def ginit (c : Cfg) : GState := { ccfg := c, cur := init c, old := [] }

def gstep (g : GState) : GAction → Option GState
  | .cur a => (step g.ccfg g.cur a).map fun s' => { g with cur := s' }
  | .old i a =>
    if a.isReader then
      match g.old[i]? with
      | some (c, s) => (step c s a).map fun s' => { g with old := g.old.set i (c, s') }
      | none => none
    else none
  | .reset c =>
    if g.cur.cpc = .closed then some { ccfg := c, cur := init c, old := (g.ccfg, g.cur) :: g.old } else none

def grun : GState → List GAction → Option GState
  | g, [] => some g
  | g, a :: as => match gstep g a with
    | some g' => grun g' as
    | none => none

def inSource (s : State) : Nat := if s.rpc = .insrc then 1 else 0

/-- number of threads that are inside `next(source)` of the one shared source node -/
def readersInSource (g : GState) : Nat := inSource g.cur + (g.old.map fun p => inSource p.2).sum

/-- number of reader threads that have not exited -/
def liveReaders (g : GState) : Nat :=
  (if g.cur.rpc = .exited then 0 else 1) + (g.old.map fun p => if p.2.rpc = .exited then 0 else 1).sum

/-- a timed join gives up -/
def GAction.isJoinGiveUp : GAction → Bool
  | .cur .cJoinT => true
  | _ => false

end TDV.PF
