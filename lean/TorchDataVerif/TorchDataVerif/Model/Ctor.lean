/-!
# Model `Ctor` — compatibility checks executed while an iterator is built from a loaded state

Code under study: `torchdata/stateful_dataloader/stateful_dataloader.py`
(`StatefulDataLoader.load_state_dict / _get_iterator / __iter__ / state_dict`,
`_StatefulSingleProcessDataLoaderIter.__init__ / load_state_dict`,
`_StatefulMultiProcessingDataLoaderIter.__init__ / _reset / _restore_main_state / _shutdown_workers`).

Only the *shape* of a state dict is modelled (which top-level keys exist, the recorded number of workers,
the set of worker keys, the position, the finished flag): that is all the compatibility checks look at.
The constructor is a function returning the list of *stages* it went through, in program order, and how it
ended.  `ok` means: every compatibility check passed (restoring the position is C01's subject).
-/
namespace TDV.Ctor

/-- Top-level keys of a state dict (both iterator kinds). -/
inductive TopKey
  | indexSamplerState | samplerIterState | samplerIterYielded | numYielded | iterableLenCalled
  | sharedSeed | fetcherState | datasetState | iteratorFinished
  | snapshot | stepsSinceSnapshot
  deriving DecidableEq, Repr

/-- `state["_snapshot"]` of a multi-process state: `_main_snapshot["_num_workers"]` and the ids `i` of the
keys `worker_i` of `_worker_snapshots` (dict keys, in insertion order). -/
structure Snapshot where
  mainNumWorkers : Nat
  workerKeys : List Nat
  deriving DecidableEq, Repr

/-- Shape of the argument of `load_state_dict`. -/
inductive State
  /-- `{}` -/
  | empty
  /-- produced by `_StatefulSingleProcessDataLoaderIter.state_dict` -/
  | sp (numYielded : Nat) (finished : Bool)
  /-- produced by `_StatefulMultiProcessingDataLoaderIter.state_dict`;
  `yielded = _snapshot_step + _steps_since_snapshot` -/
  | mp (snap : Snapshot) (yielded : Nat) (finished : Bool)
  deriving DecidableEq, Repr

def State.keys : State → List TopKey
  | .empty => []
  | .sp _ _ => [.indexSamplerState, .samplerIterState, .samplerIterYielded, .numYielded, .iterableLenCalled,
      .sharedSeed, .fetcherState, .datasetState, .iteratorFinished]
  | .mp _ _ _ => [.snapshot, .stepsSinceSnapshot, .iteratorFinished]

/-- `state["_snapshot"]` (a `KeyError` when absent). -/
def State.snapshot? : State → Option Snapshot
  | .mp sn _ _ => some sn
  | _ => none

def State.finished : State → Bool
  | .empty => false
  | .sp _ f => f
  | .mp _ _ f => f

def State.yielded : State → Nat
  | .empty => 0
  | .sp n _ => n
  | .mp _ n _ => n

/-- The state handed out by a loader with `ws` workers (`0` = single-process) after `k` calls of `next` on an
epoch of `len` batches: `min k len` batches were yielded, and the iterator is finished iff the last call
raised `StopIteration` (`len < k`).  Multi-process: `_get_main_state` records `_num_workers = ws`, and
`_worker_snapshots` has exactly the keys `worker_0 … worker_{ws-1}`. -/
def stateOf (ws k len : Nat) : State :=
  if ws = 0 then .sp (min k len) (decide (len < k))
  else .mp ⟨ws, List.range ws⟩ (min k len) (decide (len < k))

/-! ## The two constructors -/

inductive ErrKind
  | assertion   -- AssertionError
  | key         -- KeyError
  deriving DecidableEq, Repr

inductive Outcome
  | ok
  | error (e : ErrKind)
  deriving DecidableEq, Repr

/-- What a constructor has done, in program order. -/
inductive Stage
  /-- `super().__init__(loader)`, the `assert`s on the loader's own settings, queues and events created -/
  | baseInit
  /-- `assert KEY in state` passed -/
  | hasKey (k : TopKey)
  /-- the worker-key-set assertion passed -/
  | workerKeysOk
  /-- `worker_states[key] = sd` for every saved key: the dict now has `entries` entries, `restored` of the
  workers about to be started get a saved state (the others get `None`) -/
  | mergeWorkerStates (entries restored : Nat)
  /-- `n` worker processes created, started and appended to `self._workers` -/
  | startWorkers (n : Nat)
  /-- `_reset(first_iter=True)`: `_AckStartup` sent to and answered by `n` workers -/
  | handshake (n : Nat)
  /-- `_restore_main_state`: `assert self._num_workers == state[_NUM_WORKERS]` passed, rest restored -/
  | restoreMain
  /-- single-process `load_state_dict` body after its assertion -/
  | restoreSP
  /-- fresh start: fetcher created (single-process) / prefetch primed (multi-process) -/
  | freshStart
  deriving DecidableEq, Repr

/-- Outcome of one constructor call.  `registered` is `len(self._workers)` of the (possibly half-built)
iterator object when the constructor returns or raises: the loop bound of `_shutdown_workers`, which
`__del__` runs when the object is released. -/
structure Result where
  stages : List Stage
  registered : Nat
  outcome : Outcome
  deriving DecidableEq, Repr

def Stage.startedCount : Stage → Nat
  | .startWorkers n => n
  | _ => 0

/-- Worker processes started during the call. -/
def Result.started (r : Result) : Nat := (r.stages.map Stage.startedCount).sum

/-- Shutdown requests issued when the iterator object of this call is released (`__del__` →
`_shutdown_workers`: one per entry of `self._workers`; every status is `True` right after `_reset`). -/
def Result.mustRelease (r : Result) : Nat := r.registered

def Result.handshakeDone (r : Result) : Bool := r.stages.any fun s => match s with | .handshake _ => true | _ => false

/-- `set(a) == set(b)` on lists of keys. -/
def sameSet (a b : List Nat) : Bool := a.all (fun x => b.contains x) && b.all (fun x => a.contains x)

/-- `_StatefulSingleProcessDataLoaderIter.__init__(loader, next_iter_state)`. -/
def constructSP (st : Option State) : Result :=
  match st with
  | none => ⟨[.baseInit, .freshStart], 0, .ok⟩
  | some s =>
    -- load_state_dict: assert self._NUM_YIELDED in state_dict
    if s.keys.contains .numYielded then ⟨[.baseInit, .hasKey .numYielded, .restoreSP], 0, .ok⟩
    else ⟨[.baseInit], 0, .error .assertion⟩

/-- `_StatefulMultiProcessingDataLoaderIter.__init__(loader, next_iter_state)` with `wl > 0` workers
(`pin_memory` off).  Order of the source: key assertion, worker-key-set assertion (saved keys against
themselves renumbered — *not* against `wl`), merge of the saved worker states, start of the `wl` workers,
start-up handshake in `_reset`, and only then the `_num_workers` equality in `_restore_main_state`. -/
def constructMP (wl : Nat) (st : Option State) : Result :=
  match st with
  | none => ⟨[.baseInit, .startWorkers wl, .handshake wl, .freshStart], wl, .ok⟩
  | some s =>
    if s.keys.contains .snapshot then
      match s.snapshot? with
      | none => ⟨[.baseInit, .hasKey .snapshot], 0, .error .key⟩
      | some sn =>
        if sameSet (List.range sn.workerKeys.length) sn.workerKeys then
          let extra := sn.workerKeys.filter (fun i => decide (wl ≤ i))
          let restored := (List.range wl).filter (fun i => sn.workerKeys.contains i)
          let pre : List Stage := [.baseInit, .hasKey .snapshot, .workerKeysOk,
            .mergeWorkerStates (wl + extra.length) restored.length, .startWorkers wl, .handshake wl]
          if wl = sn.mainNumWorkers then ⟨pre ++ [.restoreMain], wl, .ok⟩
          else ⟨pre, wl, .error .assertion⟩
        else ⟨[.baseInit, .hasKey .snapshot], 0, .error .assertion⟩
    else ⟨[.baseInit], 0, .error .assertion⟩

/-- `_get_iterator`'s choice. -/
def construct (wl : Nat) (st : Option State) : Result :=
  if wl = 0 then constructSP st else constructMP wl st

/-! ## The loader façade -/

/-- A completely built iterator held in `loader._iterator`: `origin = none` for a fresh epoch, `some s` when
it was built from the loaded state `s`; `numYielded` / `finished` as restored. -/
structure Iter where
  workers : Nat
  origin : Option State
  numYielded : Nat
  finished : Bool
  deriving DecidableEq, Repr

def iterOf (wl : Nat) (st : Option State) : Iter :=
  match st with
  | none => ⟨wl, none, 0, false⟩
  | some s => ⟨wl, some s, s.yielded, s.finished⟩

/-- The fields of `StatefulDataLoader` involved. `persistent` implies `numWorkers > 0` (torch's
`DataLoader.__init__` raises `ValueError` otherwise). -/
structure Facade where
  numWorkers : Nat
  persistent : Bool
  /-- `next_iter_state` -/
  pending : Option State
  /-- `_iterator` -/
  iterator : Option Iter
  /-- `_initial_iter_for_state_dict` -/
  initialForSD : Bool
  deriving DecidableEq, Repr

def Facade.fresh (w : Nat) (persistent : Bool) : Facade := ⟨w, persistent, none, none, false⟩

/-- `StatefulDataLoader.load_state_dict`: always drops `_iterator` and the flag; `{}` returns *before*
touching `next_iter_state` (a previously pending state stays pending). -/
def Facade.load (f : Facade) (s : State) : Facade :=
  let f' := { f with iterator := none, initialForSD := false }
  if s.keys.isEmpty then f' else { f' with pending := some s }

/-- `_get_iterator`: `next_iter_state` is cleared only *after* the constructor returned; when it raises the
assignment is skipped, so the rejected state stays pending. Returns the call record, the iterator if any,
and the façade. -/
def Facade.getIterator (f : Facade) : Result × Option Iter × Facade :=
  let r := construct f.numWorkers f.pending
  match r.outcome with
  | .ok => (r, some (iterOf f.numWorkers f.pending), { f with pending := none })
  | .error _ => (r, none, f)

/-- `_iterator._reset(loader)` of a persistent iterator: same workers, fresh epoch. -/
def Iter.reset (it : Iter) : Iter := { it with origin := none, numYielded := 0, finished := false }

/-- Outcome of a façade operation: the constructor calls made (in order), how the operation ended, the
façade afterwards. -/
structure OpOut where
  calls : List Result
  outcome : Outcome
  facade : Facade
  deriving DecidableEq, Repr

/-- second half of `__iter__`: `if self._iterator._finished: …` -/
def Facade.iterTail (f : Facade) (calls : List Result) : OpOut :=
  match f.iterator with
  | none => ⟨calls, .ok, f⟩   -- not reachable from `iter` (an iterator was just stored)
  | some it =>
    if it.finished then
      if f.persistent then ⟨calls, .ok, { f with iterator := some it.reset }⟩
      else
        match f.getIterator with
        | (r, some it', f') => ⟨calls ++ [r], .ok, { f' with iterator := some it' }⟩
        | (r, none, f') => ⟨calls ++ [r], r.outcome, f'⟩
    else ⟨calls, .ok, f⟩

/-- `StatefulDataLoader.__iter__`. An exception of `_get_iterator` propagates before `self._iterator` is
assigned. -/
def Facade.iter (f : Facade) : OpOut :=
  if f.initialForSD then
    ({ f with initialForSD := false }).iterTail []
  else if f.persistent && decide (0 < f.numWorkers) && f.iterator.isSome then
    match f.iterator with
    | some it => ({ f with iterator := some it.reset }).iterTail []
    | none => ⟨[], .ok, f⟩
  else
    match f.getIterator with
    | (r, some it, f') => ({ f' with iterator := some it }).iterTail [r]
    | (r, none, f') => ⟨[r], r.outcome, f'⟩

/-- `StatefulDataLoader.state_dict`: builds the iterator (from the pending state!) when there is none. -/
def Facade.stateDict (f : Facade) : OpOut :=
  match f.iterator with
  | some _ => ⟨[], .ok, f⟩
  | none =>
    match f.getIterator with
    | (r, some it, f') => ⟨[r], .ok, { f' with iterator := some it, initialForSD := true }⟩
    | (r, none, f') => ⟨[r], r.outcome, f'⟩

end TDV.Ctor
