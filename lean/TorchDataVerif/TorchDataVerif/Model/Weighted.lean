/-!
# M3 `weighted` — `MultiNodeWeightedSampler` and `_WeightedSampler`
(`torchdata/nodes/samplers/multi_node_weighted_sampler.py`)

Keys are `Fin n` (the position of a name in `weights.items()` order; `torch.multinomial` over `n` weights
only returns indices `< n`).  Source `k` is a finite list of items; it restarts from its beginning on
`reset()` and is deterministic (an `IterableWrapper` over a list).

The seeded multinomial draws are NOT modelled.  There are two layers:

* the *stream layer*: the sampler is a choice stream `c : Nat → Fin n` (`c i` = the i-th key drawn in this
  epoch) and a stream position `sp`; all stop-criterion theorems are stated for every stream;
* the *machine layer*: `WS` is `_WeightedSampler` over an abstract generator.  A generator state is an index
  `g` into an oracle of batches `B : Nat → List (Fin n)`: drawing a batch in state `g` returns `B g` and
  leaves the generator in state `g + 1`.  `Node` is the sampler node holding a `WS`, the epoch counter and
  the `_started` flag, with `reset(None)`, `reset(state)`, `get_state()`.

Both layers share `body`, the part of one iteration of the `while True` loop of `next()` that follows the
draw, so that the machine layer refines the stream layer by construction of the stream.

Quirks of the code that are modelled on purpose:
* `_check_for_stop_iteration` runs before every draw and again after a failed pull;
* with ALL_DATASETS_EXHAUSTED an exhausted key is skipped (`continue`) before the pull and after a failed pull;
* with the two CYCLE criteria the exhausted source is `reset()` and pulled again inside the `except` handler;
  if the source is EMPTY the second pull raises StopIteration out of `next()`: the stream ends (defect C14-a);
* nothing makes a StopIteration sticky: `next()` after a stop runs the loop again (`step` is total).
-/
namespace TDV.Weighted

abbrev Item := Nat

inductive Crit where
  | cycleUntil   -- CYCLE_UNTIL_ALL_DATASETS_EXHAUSTED
  | allExh       -- ALL_DATASETS_EXHAUSTED
  | firstExh     -- FIRST_DATASET_EXHAUSTED
  | forever      -- CYCLE_FOREVER
  deriving DecidableEq, Repr

structure Cfg (n : Nat) where
  crit : Crit
  src : Fin n → List Item

/-- Python `d[k] = v` on a dict with a fixed key set. -/
def upd {α : Type} {n : Nat} (f : Fin n → α) (k : Fin n) (v : α) : Fin n → α :=
  fun j => if j = k then v else f j

/-- `all(d.values())` -/
def allB {n : Nat} (f : Fin n → Bool) : Bool := (List.finRange n).all f
/-- `any(d.values())` -/
def anyB {n : Nat} (f : Fin n → Bool) : Bool := (List.finRange n).any f

/-- `_check_for_stop_iteration`; `true` = it raises StopIteration. -/
def shouldStop {n : Nat} (crit : Crit) (exh : Fin n → Bool) : Bool :=
  if crit = .forever then false
  else if allB exh then true
  else if crit = .firstExh ∧ anyB exh = true then true
  else false

/-- The node's own bookkeeping plus the positions of its sources. -/
structure Core (n : Nat) where
  /-- items pulled from source `k` since its last (re)start (`IterableWrapper._num_yielded`) -/
  pos : Fin n → Nat
  /-- `_datasets_exhausted` -/
  exh : Fin n → Bool
  /-- `_num_yielded` -/
  yielded : Nat

def Core.init {n : Nat} : Core n := ⟨fun _ => 0, fun _ => false, 0⟩

/-- What one iteration of the `while True` loop of `next()` does. -/
inductive Ev (n : Nat) where
  | item (k : Fin n) (x : Item)   -- `break` with an item of source `k`
  | skip                          -- `continue`
  | stop                          -- StopIteration leaves `next()`
  deriving DecidableEq, Repr

/-- One loop iteration after the key `k` has been drawn. -/
def body {n : Nat} (cfg : Cfg n) (k : Fin n) (s : Core n) : Ev n × Core n :=
  if s.exh k = true ∧ cfg.crit = .allExh then (.skip, s)
  else
    match (cfg.src k)[s.pos k]? with
    | some x => (.item k x, { s with pos := upd s.pos k (s.pos k + 1), yielded := s.yielded + 1 })
    | none =>
      -- `except StopIteration:` of the first pull
      let s1 : Core n := { s with exh := upd s.exh k true }
      if shouldStop cfg.crit s1.exh then (.stop, s1)
      else if cfg.crit = .allExh then (.skip, s1)
      else
        -- `self.source_nodes[key].reset(); item = next(self.source_nodes[key])`
        match (cfg.src k)[0]? with
        | some x => (.item k x, { s1 with pos := upd s1.pos k 1, yielded := s1.yielded + 1 })
        | none => (.stop, { s1 with pos := upd s1.pos k 0 })

/-! ## Stream layer -/

structure St (n : Nat) where
  core : Core n
  /-- number of keys drawn so far in this epoch -/
  sp : Nat

def St.init {n : Nat} : St n := ⟨Core.init, 0⟩

/-- One iteration of the loop: check, draw, `body`. -/
def step {n : Nat} (cfg : Cfg n) (c : Nat → Fin n) (s : St n) : Ev n × St n :=
  if shouldStop cfg.crit s.core.exh then (.stop, s)
  else ((body cfg (c s.sp) s.core).1, ⟨(body cfg (c s.sp) s.core).2, s.sp + 1⟩)

/-- `next()`: iterate until `break` or StopIteration.  `none` = out of fuel (the loop of the code has no
bound: with ALL_DATASETS_EXHAUSTED it spins as long as the stream names exhausted keys). -/
def next {n : Nat} (cfg : Cfg n) (c : Nat → Fin n) : Nat → St n → Option (Ev n × St n)
  | 0, _ => none
  | f + 1, s =>
    match step cfg c s with
    | (.skip, s') => next cfg c f s'
    | r => some r

/-- A run observed for a number of loop iterations; it ends at the first stop. -/
structure Run (n : Nat) where
  outs : List (Fin n × Item)
  st : St n
  stopped : Bool

/-- One more loop iteration of an observed run (nothing happens after a stop). -/
def advance {n : Nat} (cfg : Cfg n) (c : Nat → Fin n) (r : Run n) : Run n :=
  if r.stopped then r
  else
    match step cfg c r.st with
    | (.item k x, s') => ⟨r.outs ++ [(k, x)], s', false⟩
    | (.skip, s') => ⟨r.outs, s', false⟩
    | (.stop, s') => ⟨r.outs, s', true⟩

def runFrom {n : Nat} (cfg : Cfg n) (c : Nat → Fin n) (s : St n) : Nat → Run n
  | 0 => ⟨[], s, false⟩
  | t + 1 => advance cfg c (runFrom cfg c s t)

/-- The run of a freshly reset node for `t` loop iterations. -/
def run {n : Nat} (cfg : Cfg n) (c : Nat → Fin n) (t : Nat) : Run n := runFrom cfg c St.init t

/-- Items tagged `k`, in output order. -/
def outK {n : Nat} (k : Fin n) (l : List (Fin n × Item)) : List Item :=
  (l.filter fun e => e.1 = k).map Prod.snd

/-- Tags in output order. -/
def keys {n : Nat} (l : List (Fin n × Item)) : List (Fin n) := l.map Prod.fst

/-- How often key `k` occurs among the first `i` draws. -/
def occ {n : Nat} (c : Nat → Fin n) (k : Fin n) : Nat → Nat
  | 0 => 0
  | i + 1 => occ c k i + (if c i = k then 1 else 0)

/-! ## Machine layer: `_WeightedSampler` over an abstract generator -/

structure WS (n : Nat) where
  /-- `_g`: current generator state -/
  g : Nat
  /-- `_g_snapshot`: generator state before the current batch was drawn -/
  snap : Nat
  /-- `_batch_of_indices` -/
  batch : List (Fin n)
  /-- `_offset` -/
  off : Nat

/-- `_get_batch_of_indices` from generator state `g`, then `_offset := off`. -/
def WS.load {n : Nat} (B : Nat → List (Fin n)) (g off : Nat) : WS n := ⟨g + 1, g, B g, off⟩

/-- `__init__` without `initial_state`; `g0` is the generator state after `manual_seed`. -/
def WS.fresh {n : Nat} (B : Nat → List (Fin n)) (g0 : Nat) : WS n := WS.load B g0 0

/-- `state_dict()` = (`g_state`, `offset`). -/
def WS.state {n : Nat} (w : WS n) : Nat × Nat := (w.snap, w.off)

/-- `__init__` with `initial_state`: `_g.set_state(g_state)`, `_offset = offset`, regenerate the batch. -/
def WS.restore {n : Nat} (B : Nat → List (Fin n)) (sd : Nat × Nat) : WS n := WS.load B sd.1 sd.2

/-- `__next__`; `none` = IndexError (an empty batch). -/
def WS.next {n : Nat} (B : Nat → List (Fin n)) (w : WS n) : Option (Fin n) × WS n :=
  let w' := if w.batch.length ≤ w.off then WS.load B w.g 0 else w
  (w'.batch[w'.off]?, { w' with off := w'.off + 1 })

/-- The sampler after `m` draws. -/
def WS.after {n : Nat} (B : Nat → List (Fin n)) (w : WS n) : Nat → WS n
  | 0 => w
  | m + 1 => (WS.next B (WS.after B w m)).2

/-- The `j`-th draw (0-based) from `w`. -/
def WS.nth {n : Nat} (B : Nat → List (Fin n)) (w : WS n) (j : Nat) : Option (Fin n) :=
  (WS.next B (WS.after B w j)).1

/-! ## Machine layer: the node -/

structure Node (n : Nat) where
  core : Core n
  ws : WS n
  /-- `_epoch` -/
  epoch : Nat
  /-- `_started` -/
  started : Bool

/-- The node's state dict.  Source states are the sources' own `state_dict()` (assumed exact: loading
one puts the source at that position). -/
structure SD (n : Nat) where
  exh : Fin n → Bool
  srcs : Fin n → Nat
  epoch : Nat
  yielded : Nat
  ws : Nat × Nat

/-- Environment of a node: the batch oracle and the generator state that `(seed, rank, world_size, epoch)`
seed (`G0 epoch`). -/
structure Env (n : Nat) where
  B : Nat → List (Fin n)
  G0 : Nat → Nat

/-- `reset(initial_state)` of a node object whose bookkeeping is (`epoch`, `started`). -/
def Node.reset {n : Nat} (E : Env n) (x : Node n) : Option (SD n) → Node n
  | some sd =>
    { core := ⟨sd.srcs, sd.exh, sd.yielded⟩, ws := WS.restore E.B sd.ws, epoch := sd.epoch, started := false }
  | none =>
    let e := if x.started then x.epoch + 1 else x.epoch
    { core := Core.init, ws := WS.fresh E.B (E.G0 e), epoch := e, started := false }

/-- A constructed node after its lazy first `reset(None)` (`_started = False`, `_epoch = 0`). -/
def Node.new {n : Nat} (E : Env n) : Node n :=
  { core := Core.init, ws := WS.fresh E.B (E.G0 0), epoch := 0, started := false }

/-- `get_state()` (deep copies, so a value). -/
def Node.getState {n : Nat} (x : Node n) : SD n :=
  { exh := x.core.exh, srcs := x.core.pos, epoch := x.epoch, yielded := x.core.yielded, ws := x.ws.state }

/-- One loop iteration of `next()`; the event is `none` when the sampler raised IndexError. -/
def Node.step {n : Nat} (cfg : Cfg n) (E : Env n) (x : Node n) : Option (Ev n) × Node n :=
  if shouldStop cfg.crit x.core.exh then (some .stop, { x with started := true })
  else
    match (WS.next E.B x.ws).1 with
    | none => (none, { x with ws := (WS.next E.B x.ws).2, started := true })
    | some k => (some (body cfg k x.core).1,
        { x with core := (body cfg k x.core).2, ws := (WS.next E.B x.ws).2, started := true })

/-- `next()` of the node: `none` = out of fuel, `some (none, _)` = IndexError. -/
def Node.next {n : Nat} (cfg : Cfg n) (E : Env n) : Nat → Node n → Option (Option (Ev n) × Node n)
  | 0, _ => none
  | f + 1, x =>
    match Node.step cfg E x with
    | (some .skip, x') => Node.next cfg E f x'
    | r => some r

structure NRun (n : Nat) where
  outs : List (Fin n × Item)
  st : Node n
  stopped : Bool
  /-- the sampler raised IndexError -/
  failed : Bool

def Node.advance {n : Nat} (cfg : Cfg n) (E : Env n) (r : NRun n) : NRun n :=
  if r.stopped || r.failed then r
  else
    match Node.step cfg E r.st with
    | (none, x') => ⟨r.outs, x', false, true⟩
    | (some (.item k v), x') => ⟨r.outs ++ [(k, v)], x', false, false⟩
    | (some .skip, x') => ⟨r.outs, x', false, false⟩
    | (some .stop, x') => ⟨r.outs, x', true, false⟩

/-- The node observed for `t` loop iterations, ending at the first stop (or IndexError). -/
def Node.run {n : Nat} (cfg : Cfg n) (E : Env n) (x : Node n) : Nat → NRun n
  | 0 => ⟨[], x, false, false⟩
  | t + 1 => Node.advance cfg E (Node.run cfg E x t)

end TDV.Weighted
