/-!
# M8 `Ref` — reference semantics used as right-hand sides by the MP theorems

* `Ref.chunk bs dropLast xs` — torch's documented batching of a sample stream.
* `Ref.interleave shards` — the order of `torch.utils.data.DataLoader` over per-worker batch lists:
  round `k` delivers the `k`-th batch of every worker that still has one, in worker order (round robin
  with drop-out of exhausted workers).

Import-free and independent of `Model/Nodes.lean` (which has its own `chunk` over its own item type).
-/
namespace TDV.Ref

/-- `chunk` with explicit fuel (`xs.length` suffices: every step removes `bs ≥ 1` elements). -/
def chunkF {α : Type} (bs : Nat) (dropLast : Bool) : Nat → List α → List (List α)
  | 0, _ => []
  | fuel + 1, xs =>
    if xs = [] ∨ bs = 0 then []
    else if xs.length < bs then (if dropLast then [] else [xs])
    else xs.take bs :: chunkF bs dropLast fuel (xs.drop bs)

/-- Batches of `bs` consecutive samples; the short tail is kept unless `dropLast`. -/
def chunk {α : Type} (bs : Nat) (dropLast : Bool) (xs : List α) : List (List α) :=
  chunkF bs dropLast xs.length xs

/-- Round `k` of the round robin: the `k`-th batch of every shard that has one, in shard order. -/
def round {α : Type} (shards : List (List α)) (k : Nat) : List α :=
  shards.filterMap (fun sh => sh[k]?)

/-- The first `n` rounds. -/
def rounds {α : Type} (shards : List (List α)) : Nat → List α
  | 0 => []
  | n + 1 => rounds shards n ++ round shards n

/-- Length of the longest shard. -/
def maxLen {α : Type} : List (List α) → Nat
  | [] => 0
  | sh :: r => max sh.length (maxLen r)

/-- Round robin over per-worker lists with drop-out of exhausted workers. -/
def interleave {α : Type} (shards : List (List α)) : List α :=
  rounds shards (maxLen shards)

end TDV.Ref
