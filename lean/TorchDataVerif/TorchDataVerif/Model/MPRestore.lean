import TorchDataVerif.Model.MP
import TorchDataVerif.Model.Ref
/-!
# `MPR` — what a checkpoint of the multi-process iterator *means*, and the restore constructor

Extends M7 (`Model/MP.lean`) with

* the **ideal state at step `n`** (`idealAt c n`): the consistent cut of the protocol right after the `n`-th
  yield — the sampler position just after the task yielded as the `n`-th batch was drawn, every worker
  after exactly its fetches among the tasks consumed so far (`ended` iff its end-of-shard notice was
  consumed by then), `last_yielded_worker_id` = the worker of the `n`-th yield (`W − 1` for `n = 0`);
* the **restore half of `_StatefulMultiProcessingDataLoaderIter.__init__`** (`restore c snap`): the workers
  are started from the worker states of the snapshot (`worker.py`: dataset state → fetcher → iterator
  state, `fetcher.ended` restored, `iteration_end = False`), `_reset(prime_prefetch=False)`,
  `_restore_main_state`, `_num_yielded = snapshot_step`, `_update_snapshot`, then the stateful branch:
  `_last_yielded_worker_id`, the worker cycle advanced by `last_yielded_worker_id + 1`, `W·P` calls of
  `_try_put_index`.  The `steps_since_snapshot` calls of `next(self)` that follow are ordinary `next`
  actions of the transition system (they need the workers to run), so they are part of the schedule of
  the resumed run; the consumer sees the yields after the first `steps_since_snapshot` ones.
  The fast-forward branch (iterable dataset with neither dataset nor iterator state) is a fresh run
  replayed from the start of the epoch and is not modelled here.

The consumed-task order is described by an *event stream* (`events c`): one entry per live task in index
order, `(worker, some item)` for a fetch, `(worker, none)` for an end-of-shard notice.
-/
namespace TDV.MPR

open TDV.MP

/-- A live task: the worker it belongs to and what its fetch returns (`none` = StopIteration notice). -/
abbrev Ev := Nat × Option Item

/-- Map-style: task `i` goes to worker `i % W` and fetches the `i`-th index batch. -/
def mapEvents (W : Nat) : Nat → List Item → List Ev
  | _, [] => []
  | i, it :: r => (i % W, some it) :: mapEvents W (i + 1) r

/-- Round `k` of the iterable round robin, workers `w, w+1, …`: a worker with a `k`-th batch fetches it, a
worker whose shard has exactly `k` batches raises StopIteration (its notice), later it is skipped. -/
def roundEvents (k : Nat) : Nat → List (List Item) → List Ev
  | _, [] => []
  | w, sh :: r =>
    (match sh[k]? with
     | some it => [(w, some it)]
     | none => if sh.length = k then [(w, none)] else []) ++ roundEvents k (w + 1) r

/-- Rounds `0, …, n − 1`. -/
def iterEvents (shards : List (List Item)) : Nat → List Ev
  | 0 => []
  | n + 1 => iterEvents shards n ++ roundEvents n 0 shards

/-- The live tasks of one epoch in index order. -/
def events (c : Cfg) : List Ev :=
  if c.iterable then iterEvents c.shards (Ref.maxLen c.shards + 1) else mapEvents c.W 0 c.batches

/-- The events consumed up to and including the `n`-th yielded batch (errors are consumed but are not
yields; a notice that follows the `n`-th batch is consumed by the *next* call of `next()`). -/
def cut : List Ev → Nat → List Ev
  | [], _ => []
  | e :: r, n =>
    if n = 0 then []
    else match e.2 with
      | some (.ok _) => e :: cut r (n - 1)
      | _ => e :: cut r n

/-- The effect of one consumed task on the state of its worker. -/
def applyEv (ws : List WSt) (e : Ev) : List WSt :=
  ws.modify e.1 (fun st => match e.2 with
    | some _ => { st with pos := st.pos + 1 }
    | none => { st with ended := true })

def lastOwner (W : Nat) (l : List Ev) : Nat :=
  match l.getLast? with
  | some e => e.1
  | none => W - 1

/-- The ideal snapshot at step `n`.  For iterable datasets the sampler is `_InfiniteConstantSampler`
and its position carries no information (it is compared by `SnapEq` only for map-style). -/
def idealAt (c : Cfg) (n : Nat) : Snap :=
  let pre := cut (events c) n
  { step := n
    lastW := lastOwner c.W pre
    main := if c.iterable then 0 else pre.length
    ws := pre.foldl applyEv (List.replicate c.W ⟨0, false⟩) }

/-- Equality of snapshots up to the sampler position of an iterable dataset. -/
def SnapEq (c : Cfg) (a b : Snap) : Prop :=
  a.step = b.step ∧ a.lastW = b.lastW ∧ a.ws = b.ws ∧ (c.iterable = false → a.main = b.main)

/-! ## the restore constructor -/

/-- `_worker_loop` started with `worker_state`: the dataset / iterator state puts the fetcher at position
`pos`; `fetcher.ended = True` makes the next fetch raise StopIteration whatever the iterator holds
(modelled by a position at or past the end of the shard); `iteration_end = False`, so an ended worker
sends its end-of-shard notice again when it gets its first task.  `none` (no state for this worker): a
fresh worker. -/
def restoreWorker (c : Cfg) (w : Nat) : Option WSt → Worker
  | none => ⟨[], 0, false, true⟩
  | some st =>
    ⟨[], if st.ended then max st.pos ((c.shards.getD w []).length) else st.pos, false, true⟩

def restoreWorkers (c : Cfg) (ws : List WSt) : Nat → List Worker
  | 0 => []
  | n + 1 => restoreWorkers c ws n ++ [restoreWorker c n ws[n]?]

/-- The main-process state of the constructor's restore path just before the priming loop:
`_reset(first_iter=True, prime_prefetch=False)` (start-up handshake: every worker acknowledges with an
empty delta, so `_worker_snapshots` are the loaded worker states), `_restore_main_state`,
`_num_yielded = snapshot_step`, `_update_snapshot`, `_last_yielded_worker_id`, cycle advanced by
`last_yielded_worker_id + 1`. -/
def restoreBase (c : Cfg) (sn : Snap) : State :=
  { sendIdx := 0, rcvdIdx := 0, info := [], status := List.replicate c.W true
    cyc := (sn.lastW + 1) % c.W
    outstanding := 0, numTasks := List.replicate c.W 0
    samplerPos := sn.main, numYielded := sn.step, mainSnaps := []
    wsnaps := sn.ws, snap := ⟨sn.step, sn.lastW, sn.main, sn.ws⟩, lastW := sn.lastW
    shutdown := false, bad := false
    workers := restoreWorkers c sn.ws c.W, resQ := [], phase := .idle, obs := [] }

/-- The restore constructor (stateful branch) up to the replay of `steps_since_snapshot`. -/
def restore (c : Cfg) (sn : Snap) : State := prime c (c.P * c.W) (restoreBase c sn)

/-- What `state_dict()` returns in state `s`: `(snapshot, steps_since_snapshot)`. -/
def stateDict (s : State) : Snap × Nat := (s.snap, s.numYielded - s.snap.step)

end TDV.MPR
