/-! # Alias — a reference-level (heap) model of the state cells behind `state_dict()` / `load_state_dict()`

The value models (`Node`, `Loader`, `Weighted`, …) treat state dicts as values, so they cannot say that a dict handed to
the user — or received from the user — is never altered afterwards (property C08). This model adds the missing level:
objects live at addresses of a heap, a component keeps ONE field pointing at its mutable bookkeeping object
(`MultiNodeWeightedSampler._datasets_exhausted`, `Unbatcher._cached_state_dict`, `_ParallelMapperIter._snapshot`,
`_SingleThreadedMapper._snapshot`, …), and the three places where references cross the API are parameters of a `Policy`:

* `copyOut` — `get_state()` hands out a copy of the object (weighted sampler: `copy.deepcopy`) or the object itself
  (Unbatcher, mappers);
* `copyIn`  — `reset(initial_state)` keeps a copy of the loaded object (weighted sampler, since fix 9b5140a) or the loaded
  object itself (Unbatcher, mappers);
* `inPlace` — a live update mutates the object the field points to (`self._datasets_exhausted[key] = True`) or rebinds the
  field to a fresh object (`self._cached_state_dict = self.source.state_dict()`, `self._snapshot = snapshot`).

Contents are abstract (`Val := Nat`, a code for the canonical content; the harness feeds the real contents), the heap is a
bump allocator over a total function, objects are never freed (Python keeps them alive while the user holds them). -/
namespace TDV.Alias

abbrev Addr := Nat
abbrev Val := Nat

structure Policy where
  copyIn : Bool
  copyOut : Bool
  inPlace : Bool
  deriving DecidableEq, Repr

/-- the policies under which no user-held dict can change: nothing is ever mutated in place, or nothing is shared -/
def Policy.Safe (p : Policy) : Bool := !p.inPlace || (p.copyIn && p.copyOut)

structure St where
  heap : Addr → Val
  next : Addr                     -- first unused address
  cur : Addr                      -- what the component's field points to
  user : List (Addr × Val)        -- every dict the user holds: address and content when it was handed over / created

inductive Op
  | step (v : Val)                -- a live update of the bookkeeping to content `v` (`next()` moving the position)
  | rebind (v : Val)              -- an update that builds a fresh object under every policy (`reset()` without a state:
                                  --   `self._datasets_exhausted = {key: False …}`); sites mix both kinds
  | get                           -- `state_dict()` / `get_state()`: the user receives a dict
  | load (h : Nat)                -- `load_state_dict(d)` / `reset(d)` with the `h`-th dict the user holds
  | userNew (v : Val)             -- the user builds a dict of their own (unpickled checkpoint)
  deriving Repr

def write (hp : Addr → Val) (a : Addr) (v : Val) : Addr → Val := fun x => if x = a then v else hp x

def init (v : Val) : St := { heap := write (fun _ => 0) 0 v, next := 1, cur := 0, user := [] }

def step (p : Policy) (s : St) : Op → St
  | .step v =>
    if p.inPlace then { s with heap := write s.heap s.cur v }
    else { s with heap := write s.heap s.next v, next := s.next + 1, cur := s.next }
  | .rebind v => { s with heap := write s.heap s.next v, next := s.next + 1, cur := s.next }
  | .get =>
    if p.copyOut then
      { s with heap := write s.heap s.next (s.heap s.cur), next := s.next + 1,
               user := s.user ++ [(s.next, s.heap s.cur)] }
    else { s with user := s.user ++ [(s.cur, s.heap s.cur)] }
  | .load h =>
    match s.user[h]? with
    | none => s                                   -- not a dict the user holds: the harness never sends it
    | some (a, _) =>
      if p.copyIn then { s with heap := write s.heap s.next (s.heap a), next := s.next + 1, cur := s.next }
      else { s with cur := a }
  | .userNew v =>
    { s with heap := write s.heap s.next v, next := s.next + 1, user := s.user ++ [(s.next, v)] }

def run (p : Policy) (s : St) (ops : List Op) : St := ops.foldl (step p) s

/-- C08, reference level: every dict the user holds still has the content it had when it was handed over -/
def Immutable (s : St) : Prop := ∀ e ∈ s.user, s.heap e.1 = e.2

/-- executable version (driver, `decide` witnesses) -/
def immutableB (s : St) : Bool := s.user.all fun e => s.heap e.1 == e.2

/-- the content the component continues from -/
def content (s : St) : Val := s.heap s.cur

/-- is the `h`-th user dict the very object the component's field points to? (observable in Python with `is`) -/
def aliased (s : St) (h : Nat) : Bool :=
  match s.user[h]? with
  | some (a, _) => a == s.cur
  | none => false

end TDV.Alias
