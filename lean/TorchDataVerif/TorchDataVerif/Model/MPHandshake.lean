/-!
# `MPH` — the persistent-worker RESUME HANDSHAKE of `_StatefulMultiProcessingDataLoaderIter._reset`
with failing epoch starts, across epochs

Epoch 1 is the construction of the iterator (not modelled: all workers started).  Every later `iter(loader)`
calls `_reset(first_iter=False)`: the main process puts `_ResumeIteration` on every index queue and takes results
from the data queue until it has counted `W` acknowledgements.  A worker that takes `_ResumeIteration` re-creates
its fetcher inside `try/except` and answers `_AckStartup(initial_state = init_exception or initial_state)`.

Parameters: `W`, and which `(epoch, worker)` starts fail — `early`: the exception is raised before `initial_state`
is bound (`create_fetcher` / `iter(dataset)` / `_make_state_dict` raises), `late`: after it.

`step` is the protocol of repo commit 32c63fa (the fix): the worker resets `init_exception` and `initial_state`
when it takes `_ResumeIteration`; the main process takes all `W` acknowledgements and then re-raises the first
exception it saw.  `stepOld` is the protocol before: `init_exception` is never cleared, `del initial_state` of an
unbound name kills the worker after an early failure, and the main process raises at the first failed
acknowledgement.  Other results in the data queue (batches of the abandoned epoch) are dropped by the handshake
and are not modelled; `Model/MP.lean` covers them.
-/
namespace TDV.MPH

structure Cfg where
  W : Nat
  early : List (Nat × Nat)
  late : List (Nat × Nat)
  deriving Repr

inductive Fail where
  | none | early | late
  deriving DecidableEq, Repr

/-- How the start of epoch `e` fails in worker `w`. -/
def failKind (c : Cfg) (e w : Nat) : Fail :=
  if c.early.contains (e, w) then .early else if c.late.contains (e, w) then .late else .none

/-- The payload of an acknowledgement: a worker state, or the exception raised at the start of epoch `e` in
worker `w`. -/
inductive Pay where
  | ok
  | exc (e w : Nat)
  deriving DecidableEq, Repr

structure Ack where
  w : Nat
  pay : Pay
  deriving DecidableEq, Repr

structure Worker where
  alive : Bool
  /-- `init_exception` -/
  initExc : Option (Nat × Nat)
  /-- `_ResumeIteration` messages on its index queue (tagged with the epoch that sent them) -/
  inbox : List Nat
  deriving DecidableEq, Repr

inductive Phase where
  | idle
  /-- inside `_reset`: `resume_iteration_cnt`, `resume_exception` -/
  | waiting (cnt : Nat) (exc : Option (Nat × Nat))
  deriving DecidableEq, Repr

/-- How `iter(loader)` of an epoch ended. -/
inductive Out where
  | finished
  | raised (e w : Nat)        -- the exception of the start of epoch `e` in worker `w` re-raised
  | workerDied                -- RuntimeError "DataLoader worker exited unexpectedly"
  deriving DecidableEq, Repr

structure State where
  epoch : Nat
  workers : List Worker
  /-- acknowledgements in the data queue -/
  queue : List Ack
  phase : Phase
  /-- ghost: outcome of every handshake so far -/
  log : List (Nat × Out)
  deriving DecidableEq, Repr

inductive Action where
  | start            -- `iter(loader)`: `_reset` up to the puts of `_ResumeIteration`
  | work (w : Nat)   -- worker `w` takes `_ResumeIteration` and answers
  | recv             -- the main process takes an acknowledgement
  | timeout          -- `_get_data` times out on an empty queue: liveness poll
  deriving DecidableEq, Repr

def init (c : Cfg) : State :=
  { epoch := 1, workers := List.replicate c.W ⟨true, none, []⟩, queue := [], phase := .idle, log := [] }

def pushAll (ws : List Worker) (e : Nat) : List Worker := ws.map (fun k => { k with inbox := k.inbox ++ [e] })

def anyDead (ws : List Worker) : Bool := ws.any (fun k => !k.alive)

/-- End of the handshake in the main process. -/
def finish (s : State) (o : Out) : State := { s with phase := .idle, log := s.log ++ [(s.epoch, o)] }

/-- The worker's `_ResumeIteration` branch after the fix. -/
def handle (c : Cfg) (w : Nat) (k : Worker) (e : Nat) (rest : List Nat) : Worker × Ack :=
  match failKind c e w with
  | .none => ({ k with initExc := none, inbox := rest }, ⟨w, .ok⟩)
  | _ => ({ k with initExc := some (e, w), inbox := rest }, ⟨w, .exc e w⟩)

/-- The worker's `_ResumeIteration` branch before the fix. -/
def handleOld (c : Cfg) (w : Nat) (k : Worker) (e : Nat) (rest : List Nat) : Worker × Ack :=
  match failKind c e w with
  | .none =>
    ({ k with inbox := rest }, ⟨w, match k.initExc with | some x => .exc x.1 x.2 | none => .ok⟩)
  | .early => ({ k with initExc := some (e, w), inbox := rest, alive := false }, ⟨w, .exc e w⟩)
  | .late => ({ k with initExc := some (e, w), inbox := rest }, ⟨w, .exc e w⟩)

def stepWork (h : Nat → Worker → Nat → List Nat → Worker × Ack) (s : State) (w : Nat) : Option State :=
  match s.workers[w]? with
  | none => none
  | some k =>
    if !k.alive then none else
    match k.inbox with
    | [] => none
    | e :: rest =>
      let p := h w k e rest
      some { s with workers := s.workers.set w p.1, queue := s.queue ++ [p.2] }

def stepStart (c : Cfg) (s : State) : Option State :=
  if s.phase ≠ .idle then none
  else some { s with epoch := s.epoch + 1, workers := pushAll s.workers (s.epoch + 1),
                     phase := .waiting c.W none }

def stepTimeout (s : State) : Option State :=
  match s.phase with
  | .idle => none
  | .waiting _ _ =>
    if s.queue ≠ [] then none
    else if anyDead s.workers then some (finish s .workerDied) else some s

/-- The fixed protocol. -/
def step (c : Cfg) (s : State) : Action → Option State
  | .start => stepStart c s
  | .work w => stepWork (handle c) s w
  | .timeout => stepTimeout s
  | .recv =>
    match s.phase, s.queue with
    | .waiting cnt exc, a :: rest =>
      let exc' := match exc, a.pay with
        | none, .exc e w => some (e, w)
        | x, _ => x
      let s' := { s with queue := rest }
      if cnt ≤ 1 then
        some (finish s' (match exc' with | some x => .raised x.1 x.2 | none => .finished))
      else some { s' with phase := .waiting (cnt - 1) exc' }
    | _, _ => none

/-- The protocol before the fix. -/
def stepOld (c : Cfg) (s : State) : Action → Option State
  | .start => stepStart c s
  | .work w => stepWork (handleOld c) s w
  | .timeout => stepTimeout s
  | .recv =>
    match s.phase, s.queue with
    | .waiting cnt _, a :: rest =>
      let s' := { s with queue := rest }
      match a.pay with
      | .exc e w => some (finish s' (.raised e w))
      | .ok => if cnt ≤ 1 then some (finish s' .finished) else some { s' with phase := .waiting (cnt - 1) none }
    | _, _ => none

def runWith (stp : State → Action → Option State) : State → List Action → Option State
  | s, [] => some s
  | s, a :: as => match stp s a with
    | none => none
    | some s' => runWith stp s' as

def run (c : Cfg) : State → List Action → Option State := runWith (step c)

def runOld (c : Cfg) : State → List Action → Option State := runWith (stepOld c)

end TDV.MPH
