/-!
# M5 `PM` — the ParallelMapper thread protocol as a small-step transition system

Source: `torchdata/nodes/map.py` (`_ParallelMapperIter`, `_sort_worker`, `_ParallelMapperImpl.reset`),
`_populate_queue.py`, `_apply_udf.py`, `snapshot_store.py` (`QueueSnapshotStore`).

One action per primitive operation on a shared object (queue put/get, semaphore acquire/release, event
set/test, snapshot-store append/pop, source enter/leave), plus the timeout variant of every timed wait.
`step : Cfg → State → Action → Option State` is deterministic given the action; `none` = not enabled.
A timed wait can only time out when the resource is unavailable (this is what `queue.Queue.get` and
`threading.Semaphore.acquire` do: they re-test the resource after the deadline).

Conventions
* The source is a list of items `src` followed by a terminal `term` (StopIteration or an exception); the
  source state after `j` items is `base + j` (always truthy, as `_put` only stores truthy snapshots).
* `map_fn` is `fn : Nat → Option Nat` (`none` = raises).
* `MonotonicIndex` is reader-local and deterministic: the index of the k-th pull is `k`; it is the field
  `pulled` (number of `next(source)` calls that have returned, including the terminal one).
* The snapshot store queue is `(sinit, store)`: the initial entry (version −1) is always the head of the
  FIFO while present, the rest are `(version, snapshot)`.
* Python-level facts that are modelled as disabled actions and then proved unreachable:
  `BoundedSemaphore.release` above the initial value (ValueError) — `cRel` needs `sem < max`.
  `QueueSnapshotStore.append`'s `_max_version` guard is not modelled; `Inv.storeSorted` / `Inv.storeSound` (Proofs/PMInv)
  show the versions appended are strictly increasing, so the guard never fires.
-/
namespace TDV.PM

inductive Term | stop | error
  deriving DecidableEq, Repr

/-- What travels through the queues: an item, the StopIteration marker, an ExceptionWrapper. -/
inductive Pay | item (v : Nat) | stop | err
  deriving DecidableEq, Repr

structure Msg where
  pay : Pay
  idx : Nat
  deriving DecidableEq, Repr

structure Cfg where
  N : Nat                 -- num_workers (≥ 1 for the parallel iterator)
  max : Nat               -- `_max_tasks` = max_concurrent, or 2·num_workers
  f : Nat                 -- snapshot_frequency
  inOrder : Bool
  proc : Bool             -- method == "process": workers watch `_mp_stop`, and may die
  src : List Nat
  term : Term
  fn : Nat → Option Nat
  base : Nat              -- source state at reset (position)

/-- `max_concurrent=None` resolves to `2 * num_workers`. -/
def resolveMax (N : Nat) : Option Nat → Nat
  | none => 2 * N
  | some m => m

/-- reader = `_populate_queue` -/
inductive RPc
  | init                      -- before `append_initial_snapshot(source.state_dict())`
  | top                       -- `while not stop_event.is_set()`
  | acq                       -- `semaphore.acquire(timeout)`
  | next                      -- permit held, about to call `next(source)`
  | insrc                     -- inside `next(source)`
  | app (v : Nat) (i : Nat)   -- item in hand, truthy snapshot to append as version i
  | put (m : Msg)             -- `q.put((item, idx))`
  | ret                       -- terminal marker put, `break`: `_populate_queue` is returning (thread still alive)
  | exited
  deriving DecidableEq, Repr

/-- worker = `_apply_udf` -/
inductive WPc
  | top                       -- `stop_event.is_set()`
  | chk                       -- `… and in_q.empty()`
  | get                       -- `in_q.get(timeout)`
  | have (m : Msg)            -- item in hand: `udf(item)` then `out_q.put`
  | exited
  | dead                      -- process killed
  deriving DecidableEq, Repr

/-- sorter = `_sort_worker` -/
inductive SPc
  | off                       -- in_order=False: no sorter thread
  | top | get
  | have (m : Msg)
  | drain                     -- `while cur_idx in buffer`
  | exited
  deriving DecidableEq, Repr

/-- consumer = `__init__` tail, `__next__`, `_shutdown` -/
inductive CPc
  | boot                      -- `get_initial_snapshot`
  | idle                      -- outside `next()`
  | top                       -- `self._stop.is_set()`
  | mp                        -- `self._mp_stop.is_set()`
  | chk                       -- `self._done and self._sem._value == self._max_tasks`
  | set1 | set2               -- `_stop.set()`, `_mp_stop.set()`
  | get                       -- `_out_q.get(timeout)`
  | rel (m : Msg)             -- `_sem.release()`
  | pop (m : Msg)             -- `_snapshot_store.pop_version(idx)`
  | dchk1 | dchk2             -- a worker is not alive: `not (self._stop.is_set() or self._mp_stop.is_set())`
  | dset1 | dset2             -- … `_stop.set()`, `_mp_stop.set()`, then RuntimeError
  | shut1                     -- `_shutdown`: `_stop` set, `_mp_stop` not yet
  | closed                    -- `_shutdown` has set both events; no further `next()` on this iterator
  deriving DecidableEq, Repr

structure State where
  rpc : RPc
  pulled : Nat
  inq : List Msg
  wk : List WPc
  mid : List Msg
  spc : SPc
  buf : List Msg
  cur : Nat
  sq : List Msg
  sem : Nat
  stop : Bool
  mpstop : Bool
  done : Bool
  sinit : Bool
  store : List (Nat × Nat)
  cpc : CPc
  snap : Nat
  steps : Nat
  got : List Nat        -- indices the consumer has completely processed, oldest first
  outs : List Nat       -- values returned by `next()`, oldest first
  errs : Nat            -- exceptions taken from the queue and re-raised by `next()` (source / map_fn errors)
  rterr : Nat           -- RuntimeError("worker(s) exited unexpectedly") raised by `next()`
  nstop : Nat           -- StopIterations raised by `next()`
  lost : List Nat       -- indices of the results that died with a worker process (their permits are never returned)
  deriving DecidableEq, Repr

inductive Action
  | rInit | rIsSet | rAcq | rAcqT | rEnter | rLeave | rAppend | rPut | rRet
  | wIsSet (i : Nat) | wEmpty (i : Nat) | wGet (i : Nat) | wGetT (i : Nat) | wPut (i : Nat) | wDie (i : Nat)
  | sIsSet | sGet | sGetT | sHave | sDrain
  | cBoot | cBootT | cCall | cIsSet | cMpIsSet | cChk | cSet | cMpSet | cGet | cGetT | cRel | cPop
  | cDeadIsSet | cDeadMpIsSet | cDeadSet | cDeadMpSet
  | cShutSet | cShutMpSet
  deriving DecidableEq, Repr

def Action.isTimeout : Action → Bool
  | .rAcqT | .wGetT _ | .sGetT | .cBootT | .cGetT => true
  | _ => false

def init (c : Cfg) : State :=
  { rpc := .init, pulled := 0, inq := [], wk := List.replicate c.N .top, mid := [],
    spc := if c.inOrder then .top else .off, buf := [], cur := 0, sq := [], sem := c.max,
    stop := false, mpstop := false, done := false, sinit := false, store := [],
    cpc := .boot, snap := 0, steps := 0, got := [], outs := [], errs := 0, rterr := 0, nstop := 0, lost := [] }

/-- What `next(source)` gives at the `i`-th call. -/
def rawAt (c : Cfg) (i : Nat) : Pay :=
  match c.src[i]? with
  | some v => .item v
  | none => match c.term with | .stop => .stop | .error => .err

/-- `_apply_udf` on one payload: markers are forwarded unchanged, an exception becomes a wrapper. -/
def apply (c : Cfg) : Pay → Pay
  | .item v => match c.fn v with | some y => .item y | none => .err
  | p => p

def snapDue (c : Cfg) (i : Nat) : Bool := decide (0 < c.f) && decide ((i + 1) % c.f = 0)

/-! ### reader -/

def stepR (c : Cfg) (s : State) : Action → Option State
  | .rInit => match s.rpc with
    | .init => some { s with rpc := .top, sinit := true }
    | _ => none
  | .rIsSet => match s.rpc with
    | .top => some { s with rpc := if s.stop then .exited else .acq }
    | _ => none
  | .rAcq => match s.rpc with
    | .acq => if 0 < s.sem then some { s with rpc := .next, sem := s.sem - 1 } else none
    | _ => none
  | .rAcqT => match s.rpc with
    | .acq => if s.sem = 0 then some { s with rpc := .top } else none
    | _ => none
  | .rEnter => match s.rpc with
    | .next => some { s with rpc := .insrc }
    | _ => none
  | .rLeave => match s.rpc with
    | .insrc =>
      let i := s.pulled
      match c.src[i]? with
      | some v => some { s with pulled := i + 1,
                                rpc := if snapDue c i then .app v i else .put ⟨.item v, i⟩ }
      | none => some { s with pulled := i + 1, rpc := .put ⟨rawAt c i, i⟩ }
    | _ => none
  | .rAppend => match s.rpc with
    | .app v i => some { s with store := s.store ++ [(i, c.base + i + 1)], rpc := .put ⟨.item v, i⟩ }
    | _ => none
  | .rPut => match s.rpc with
    | .put m => some { s with inq := s.inq ++ [m],
                              rpc := match m.pay with | .item _ => .top | _ => .ret }
    | _ => none
  | .rRet => match s.rpc with
    | .ret => some { s with rpc := .exited }
    | _ => none
  | _ => none

/-! ### workers -/

def WPc.hand : WPc → Option Msg
  | .have m => some m
  | _ => none

def stepW (c : Cfg) (s : State) : Action → Option State
  | .wIsSet i => match s.wk[i]? with
    | some .top => some { s with wk := s.wk.set i (if (if c.proc then s.mpstop else s.stop) then .chk else .get) }
    | _ => none
  | .wEmpty i => match s.wk[i]? with
    | some .chk => some { s with wk := s.wk.set i (if s.inq.isEmpty then .exited else .get) }
    | _ => none
  | .wGet i => match s.wk[i]? with
    | some .get => match s.inq with
      | m :: rest => some { s with inq := rest, wk := s.wk.set i (.have m) }
      | [] => none
    | _ => none
  | .wGetT i => match s.wk[i]? with
    | some .get => match s.inq with
      | [] => some { s with wk := s.wk.set i .top }
      | _ :: _ => none
    | _ => none
  | .wPut i => match s.wk[i]? with
    | some (.have m) => some { s with mid := s.mid ++ [⟨apply c m.pay, m.idx⟩], wk := s.wk.set i .top }
    | _ => none
  | .wDie i => if c.proc then
      match s.wk[i]? with
      | some (.have m) => some { s with wk := s.wk.set i .dead, lost := m.idx :: s.lost }
      | some .top => some { s with wk := s.wk.set i .dead }
      | some .chk => some { s with wk := s.wk.set i .dead }
      | some .get => some { s with wk := s.wk.set i .dead }
      | _ => none
    else none
  | _ => none

/-! ### sorter -/

/-- `buffer.pop(k)` on the association-list view of the dict (first entry with key `k`). -/
def bufTake (k : Nat) : List Msg → Option (Msg × List Msg)
  | [] => none
  | m :: rest =>
    if m.idx = k then some (m, rest)
    else match bufTake k rest with
      | some (x, r) => some (x, m :: r)
      | none => none

def bufHas (k : Nat) (b : List Msg) : Bool := b.any (fun m => m.idx == k)

def stepS (_c : Cfg) (s : State) : Action → Option State
  | .sIsSet => match s.spc with
    | .top => some { s with spc := if s.stop then .exited else .get }
    | _ => none
  | .sGet => match s.spc with
    | .get => match s.mid with
      | m :: rest => some { s with mid := rest, spc := .have m }
      | [] => none
    | _ => none
  | .sGetT => match s.spc with
    | .get => match s.mid with
      | [] => some { s with spc := .top }
      | _ :: _ => none
    | _ => none
  | .sHave => match s.spc with
    | .have m =>
      if m.idx = s.cur then
        some { s with sq := s.sq ++ [⟨m.pay, s.cur⟩], cur := s.cur + 1, spc := .drain }
      else if bufHas m.idx s.buf then
        some { s with sq := s.sq ++ [⟨.err, m.idx⟩], spc := .exited }
      else
        some { s with buf := m :: s.buf, spc := .drain }
    | _ => none
  | .sDrain => match s.spc with
    | .drain => match bufTake s.cur s.buf with
      | some (m, rest) => some { s with sq := s.sq ++ [⟨m.pay, s.cur⟩], cur := s.cur + 1, buf := rest }
      | none => some { s with spc := .top }
    | _ => none
  | _ => none

/-! ### consumer -/

/-- `QueueSnapshotStore.pop_version(idx)`: pops every entry with version ≤ idx; returns the snapshot of the
last one popped iff its version is exactly idx. `last` = the most recently popped entry. -/
def popV (idx : Nat) : List (Nat × Nat) → Option (Nat × Nat) → Option Nat × List (Nat × Nat)
  | [], last => ((match last with | some (v, x) => if v = idx then some x else none | none => none), [])
  | (v, x) :: rest, last =>
    if v ≤ idx then popV idx rest (some (v, x))
    else ((match last with | some (v', x') => if v' = idx then some x' else none | none => none), (v, x) :: rest)

/-- `_maybe_update_snapshot`: adopt the popped snapshot, reset the step counter. -/
def pickSnap (r : Option Nat) (old : Nat) : Nat := match r with | some x => x | none => old
def pickSteps (r : Option Nat) (old : Nat) : Nat := match r with | some _ => 0 | none => old

/-- The queue `__next__` reads: the sorter's queue if in_order, else the workers' output queue. -/
def outq (c : Cfg) (s : State) : List Msg := if c.inOrder then s.sq else s.mid

def setOutq (c : Cfg) (s : State) (q : List Msg) : State :=
  if c.inOrder then { s with sq := q } else { s with mid := q }

/-- a worker whose `is_alive()` is false -/
def WPc.gone : WPc → Bool
  | .exited | .dead => true
  | _ => false

/-- `__next__` after `queue.Empty` (the `is_alive()` tests and the read of `_sem._value` are not switch points: they
happen in the same atomic section as the timed-out `get`):
reader gone and nothing in flight → end of stream (`set1`); else a worker is not alive → the dead-worker path; else poll
again. -/
def afterEmpty (c : Cfg) (s : State) : CPc :=
  if s.rpc = .exited ∧ s.sem = c.max then .set1
  else if s.wk.any WPc.gone then .dchk1
  else .top

def stepC (c : Cfg) (s : State) : Action → Option State
  | .cBoot => match s.cpc with
    | .boot => if s.sinit then some { s with sinit := false, snap := c.base, cpc := .idle } else none
    | _ => none
  | .cBootT => match s.cpc with
    | .boot => if s.sinit then none else some s
    | _ => none
  | .cCall => match s.cpc with
    | .idle => some { s with cpc := .top }
    | _ => none
  | .cIsSet => match s.cpc with
    | .top => if s.stop then some { s with cpc := .idle, nstop := s.nstop + 1 } else some { s with cpc := .mp }
    | _ => none
  | .cMpIsSet => match s.cpc with
    | .mp => if s.mpstop then some { s with cpc := .idle, nstop := s.nstop + 1 } else some { s with cpc := .chk }
    | _ => none
  | .cChk => match s.cpc with
    | .chk => some { s with cpc := if s.done && decide (s.sem = c.max) then .set1 else .get }
    | _ => none
  | .cSet => match s.cpc with
    | .set1 => some { s with stop := true, cpc := .set2 }
    | _ => none
  | .cMpSet => match s.cpc with
    | .set2 => some { s with mpstop := true, cpc := .idle, nstop := s.nstop + 1 }
    | _ => none
  | .cGet => match s.cpc with
    | .get => match outq c s with
      | m :: rest =>
        let s1 := setOutq c s rest
        match m.pay with
        | .stop => some { s1 with done := true, cpc := .rel m }
        | .err => some { s1 with cpc := .rel m }
        | .item _ => some { s1 with steps := s.steps + 1, cpc := .rel m }
      | [] => none
    | _ => none
  | .cGetT => match s.cpc with
    | .get => match outq c s with
      | [] => some { s with cpc := afterEmpty c s }
      | _ :: _ => none
    | _ => none
  | .cDeadIsSet => match s.cpc with
    | .dchk1 => some { s with cpc := if s.stop then .top else .dchk2 }
    | _ => none
  | .cDeadMpIsSet => match s.cpc with
    | .dchk2 => some { s with cpc := if s.mpstop then .top else .dset1 }
    | _ => none
  | .cDeadSet => match s.cpc with
    | .dset1 => some { s with stop := true, cpc := .dset2 }
    | _ => none
  | .cDeadMpSet => match s.cpc with
    | .dset2 => some { s with mpstop := true, rterr := s.rterr + 1, cpc := .idle }
    | _ => none
  | .cRel => match s.cpc with
    | .rel m =>
      if s.sem < c.max then
        match m.pay with
        | .stop => some { s with sem := s.sem + 1, got := s.got ++ [m.idx], cpc := .top }
        | .err => some { s with sem := s.sem + 1, got := s.got ++ [m.idx], errs := s.errs + 1, cpc := .idle }
        | .item _ => some { s with sem := s.sem + 1, cpc := .pop m }
      else none
    | _ => none
  | .cPop => match s.cpc with
    | .pop m =>
      match m.pay with
      | .item y =>
        some { s with store := (popV m.idx s.store none).2,
                      snap := pickSnap (popV m.idx s.store none).1 s.snap,
                      steps := pickSteps (popV m.idx s.store none).1 s.steps,
                      got := s.got ++ [m.idx], outs := s.outs ++ [y], cpc := .idle }
      | _ => none
    | _ => none
  | .cShutSet => match s.cpc with
    | .idle => some { s with stop := true, cpc := .shut1 }
    | _ => none
  | .cShutMpSet => match s.cpc with
    | .shut1 => some { s with mpstop := true, cpc := .closed }
    | _ => none
  | _ => none

def step (c : Cfg) (s : State) (a : Action) : Option State :=
  match a with
  | .rInit | .rIsSet | .rAcq | .rAcqT | .rEnter | .rLeave | .rAppend | .rPut | .rRet => stepR c s a
  | .wIsSet _ | .wEmpty _ | .wGet _ | .wGetT _ | .wPut _ | .wDie _ => stepW c s a
  | .sIsSet | .sGet | .sGetT | .sHave | .sDrain => stepS c s a
  | .cBoot | .cBootT | .cCall | .cIsSet | .cMpIsSet | .cChk | .cSet | .cMpSet | .cGet | .cGetT
  | .cRel | .cPop | .cDeadIsSet | .cDeadMpIsSet | .cDeadSet | .cDeadMpSet | .cShutSet | .cShutMpSet => stepC c s a

/-- Run an action sequence; `none` as soon as an action is not enabled. -/
def run (c : Cfg) (s : State) : List Action → Option State
  | [] => some s
  | a :: as => match step c s a with
    | some s' => run c s' as
    | none => none

/-- Every reachable state = every enabled action sequence from `init`. -/
def Reachable (c : Cfg) (s : State) : Prop := ∃ tr, run c (init c) tr = some s

/-- All actions that can possibly be enabled (worker indices < N). -/
def allActions (c : Cfg) : List Action :=
  [.rInit, .rIsSet, .rAcq, .rAcqT, .rEnter, .rLeave, .rAppend, .rPut, .rRet,
   .sIsSet, .sGet, .sGetT, .sHave, .sDrain,
   .cBoot, .cBootT, .cCall, .cIsSet, .cMpIsSet, .cChk, .cSet, .cMpSet, .cGet, .cGetT, .cRel, .cPop,
   .cDeadIsSet, .cDeadMpIsSet, .cDeadSet, .cDeadMpSet, .cShutSet, .cShutMpSet]
  ++ (List.range c.N).flatMap (fun i => [.wIsSet i, .wEmpty i, .wGet i, .wGetT i, .wPut i, .wDie i])

/-! ### derived observables -/

def Msg.isItem (m : Msg) : Bool := match m.pay with | .item _ => true | _ => false

def RPc.hand : RPc → Option Nat
  | .app _ i => some i
  | .put m => some m.idx
  | _ => none

def CPc.hand : CPc → Option Nat
  | .rel m => some m.idx
  | .pop m => some m.idx
  | _ => none

def SPc.hand : SPc → Option Nat
  | .have m => some m.idx
  | _ => none

def optCount (k : Nat) : Option Nat → Nat
  | some i => if i = k then 1 else 0
  | none => 0

def WPc.cnt (k : Nat) (p : WPc) : Nat := optCount k (p.hand.map Msg.idx)

def WPc.holds : WPc → Nat
  | .have _ => 1
  | _ => 0

def idxs (l : List Msg) : List Nat := l.map Msg.idx

/-- In how many places index `k` currently is (the bookkeeping invariant says: exactly one iff `k < pulled`). -/
def cnt (k : Nat) (s : State) : Nat :=
  s.got.count k + optCount k s.cpc.hand + (idxs s.sq).count k + (idxs s.buf).count k
  + optCount k s.spc.hand + (idxs s.mid).count k + (s.wk.map (WPc.cnt k)).sum
  + (idxs s.inq).count k + optCount k s.rpc.hand + s.lost.count k

/-- Permits held by the reader. -/
def RPc.permit : RPc → Nat
  | .next | .insrc | .app _ _ | .put _ => 1
  | _ => 0

/-- Source results the reader holds (pulled, not yet in the in-queue). -/
def RPc.holds : RPc → Nat
  | .app _ _ | .put _ => 1
  | _ => 0

/-- Permit taken by the consumer with the message and not yet released. -/
def CPc.permit : CPc → Nat
  | .rel _ => 1
  | _ => 0

def SPc.holds : SPc → Nat
  | .have _ => 1
  | _ => 0

/-- C12 "held": source results pulled by the reader and not yet taken out of the node's last queue by the
consumer (reader's hand, in-queue, workers' hands, intermediate queue, sorter's hand and buffer, sort queue). -/
def held (s : State) : Nat :=
  s.rpc.holds + s.inq.length + (s.wk.map WPc.holds).sum + s.mid.length + s.spc.holds + s.buf.length + s.sq.length

/-- Permits that are out but not attached to a held result: the reader between `acquire` and the return of
`next(source)`, and the consumer between `get` and `release`. -/
def RPc.inCall : RPc → Nat
  | .next | .insrc => 1
  | _ => 0

def pending (s : State) : Nat := s.rpc.inCall + s.cpc.permit

/-- The consumer is inside `next()`. -/
def CPc.inNext : CPc → Bool
  | .top | .mp | .chk | .set1 | .set2 | .get | .rel _ | .pop _ | .dchk1 | .dchk2 | .dset1 | .dset2 => true
  | _ => false

/-- What the consumer would be handed for index `i` (payload after the worker stage). -/
def outAt (c : Cfg) (i : Nat) : Pay := apply c (rawAt c i)

def outVal (c : Cfg) (i : Nat) : Option Nat :=
  match outAt c i with | .item y => some y | _ => none

/-- Reference: the values of `map_fn` over the source (failing items skipped). -/
def refOut (c : Cfg) : List Nat := c.src.filterMap c.fn

/-- `get_state()` of `_ParallelMapperIter`: (snapshot position, steps_since_snapshot). -/
def getState (s : State) : Nat × Nat := (s.snap, s.steps)

/-- Closed form of C06: `j* = f·⌊m/f⌋`. -/
def jstar (f m : Nat) : Nat := f * (m / f)

/-! ### `Gen`: iterator generations (`_shutdown`, `__del__`, `_ParallelMapperImpl.reset`)

`reset` = `del self._it` (runs `_shutdown` of the old iterator in the consumer thread: both stop events, then
timed joins of 0.5 s each that may give up) followed by a new `_ParallelMapperIter`, whose `__init__` calls
`source.reset` in the consumer thread and starts a new reader on the SAME source object.  Old generations
keep stepping until their threads exit. -/

structure GState where
  cur : State                 -- the live generation
  old : List State            -- earlier generations whose threads may still run
  joinsGivenUp : Nat          -- timed joins that returned with the thread still alive
  deriving DecidableEq, Repr

inductive GAction
  | cur (a : Action)                    -- a step of the live generation
  | old (g : Nat) (a : Action)          -- a step of a thread of old generation g
  | joinOk                              -- a join in `_shutdown` returns because the thread has exited (or was not alive)
  | joinGiveUp                          -- a join times out after 0.5 s with the thread still alive
  | renew                               -- `_shutdown` done: new iterator (`source.reset`, new threads)
  deriving DecidableEq, Repr

def threadsLive (s : State) : Nat :=
  (if s.rpc = .exited then 0 else 1)
  + (s.wk.filter (fun p => p != .exited && p != .dead)).length
  + (if s.spc = .exited || s.spc = .off then 0 else 1)

def readerInSource (s : State) : Bool := s.rpc == .insrc

/-- Number of reader threads currently inside `next(source)` over all generations. -/
def readersInSource (g : GState) : Nat :=
  (if readerInSource g.cur then 1 else 0) + (g.old.filter readerInSource).length

/-- Actions of the background threads only (old generations have no consumer any more). -/
def Action.isBackground : Action → Bool
  | .rInit | .rIsSet | .rAcq | .rAcqT | .rEnter | .rLeave | .rAppend | .rPut | .rRet
  | .wIsSet _ | .wEmpty _ | .wGet _ | .wGetT _ | .wPut _ | .wDie _
  | .sIsSet | .sGet | .sGetT | .sHave | .sDrain => true
  | _ => false

def gstep (c : Cfg) (g : GState) : GAction → Option GState
  | .cur a => match step c g.cur a with
    | some s' => some { g with cur := s' }
    | none => none
  | .old i a =>
    if a.isBackground then
      match g.old[i]? with
      | some s => match step c s a with
        | some s' => some { g with old := g.old.set i s' }
        | none => none
      | none => none
    else none
  | .joinOk => if g.cur.cpc = .closed then some g else none
  | .joinGiveUp =>
    if g.cur.cpc = .closed ∧ 0 < threadsLive g.cur then some { g with joinsGivenUp := g.joinsGivenUp + 1 } else none
  | .renew =>
    if g.cur.cpc = .closed then some { g with cur := init c, old := g.cur :: g.old } else none

def ginit (c : Cfg) : GState := { cur := init c, old := [], joinsGivenUp := 0 }

def grun (c : Cfg) (g : GState) : List GAction → Option GState
  | [] => some g
  | a :: as => match gstep c g a with
    | some g' => grun c g' as
    | none => none

end TDV.PM
