import TorchDataVerif.Model.Sampler
/-!
# M6 `SP` — the single-process iterator of `StatefulDataLoader` (`num_workers = 0`)

`_StatefulSingleProcessDataLoaderIter` (`stateful_dataloader.py`) on top of torch's
`_BaseDataLoaderIter.__init__/__next__/_next_index`, `_StatefulBaseDataLoaderIter` and the two fetchers of
`torch/utils/data/_utils/fetch.py`, plus the part of `StatefulDataLoader` that creates iterators
(`_get_iterator`, `__iter__`, `state_dict`, `load_state_dict`).

Everything outside that code is a parameter:

* `IdxSrc` — `loader._index_sampler` with its current `_sampler_iter` and the `torch.Generator` it may share
  with the loader.  Two generic constructions over the nested-sampler interface `Sampler.Nested` of
  `Model/Sampler.lean`: `bareSrc` (`batch_size=None`: the sampler itself is the index sampler) and
  `batchSrc` (auto-collation: torchdata's `BatchSampler` / `_BatchSamplerIterator` around the sampler).
* `Data` — the dataset: `dataset[idx]` for map-style datasets; `iter(dataset)` / `next(dataset_iter)` and the
  two optional state mechanisms for iterable datasets.
* `Cfg` — `drop_last` as the fetcher sees it and the set of items on which `collate_fn` raises.

`It` is one iterator object (the worlds of sampler and dataset objects travel inside it), `Loader` the
loader object.  `Obs` is what the consumer of one `next()` sees.
-/
namespace TDV.SP
open TDV.Sampler

/-- Result of one `next(loader_iter)`: a collated batch, a single item (`batch_size=None`), `StopIteration`,
or another exception (`0`: raised by the dataset, `1`: by `collate_fn`, `2`: by the sampler). -/
inductive Obs where
  | batch (l : List Nat)
  | single (v : Nat)
  | stop
  | error (k : Nat)
  deriving DecidableEq, Repr

/-- What the index sampler hands to the fetcher: one index (no auto-collation) or a list of indices. -/
inductive Idx where
  | one (i : Nat)
  | many (l : List Nat)
  deriving DecidableEq, Repr

inductive IOut where
  | idx (ix : Idx)
  | stop
  | err
  deriving DecidableEq, Repr

/-- `loader._index_sampler` as the iterator uses it.  `W` is everything mutable behind it (sampler object,
current `_sampler_iter`, generator).  `seed` is the `_base_seed` draw of `_BaseDataLoaderIter.__init__`
(it acts on `W` only when `loader.generator` is the generator of the sampler).  `load w sd y` is the sampler
part of `load_state_dict` (`y = _sampler_iter_yielded`) applied to the world `w` of an iterator whose
constructor has already run; `none`: it raised. -/
structure IdxSrc (W St : Type) where
  iter : W → W
  next : W → IOut × W
  seed : W → W
  save : W → St
  load : W → St → Nat → Option W

/-- `itertools.islice(it, y, None)`: up to `y` items are consumed and dropped (the skipping happens at the
first `next()`; for a sampler whose `next` only moves a position this is not observable and the model
skips at once). -/
def advance {W : Type} (nx : W → Out × W) : Nat → W → W
  | 0, w => w
  | k + 1, w =>
    match nx w with
    | (.item _, w') => advance nx k w'
    | (_, w') => w'

/-- No auto-collation: the sampler is the index sampler.  `inf` marks `_InfiniteConstantSampler`.
State = (`_index_sampler_state`, `_sampler_iter_state`). -/
def bareSrc {W S T : Type} (N : Nested W S T) (inf : Bool) (seed : W → W) : IdxSrc W (Option S × Option T) where
  iter := N.iter
  next w :=
    match N.next w with
    | (.item v, w') => (.idx (.one v), w')
    | (.stop, w') => (.stop, w')
    | (.err, w') => (.err, w')
  seed := seed
  save w := (N.sState.map (· w), N.iState.map (· w))
  load w sd y :=
    if N.sState.isSome || N.iState.isSome then
      let w1 := match sd.1 with
        | some s => N.sLoad w s
        | none => w
      let w2 := N.iter w1
      match sd.2 with
      | some t => N.iLoad w2 t
      | none => some w2
    else if inf then some w
    else some (advance N.next y (N.iter w))

/-- Auto-collation: `_index_sampler` is torchdata's `BatchSampler` (not `Stateful`), `_sampler_iter` its
`_BatchSamplerIterator` (`Stateful`): `load_state_dict` creates a new batch iterator and loads into it. -/
def batchSrc {W S T : Type} (N : Nested W S T) (bc : BCfg) (seed : W → W) :
    IdxSrc (BIter W) (Nat × Option S × Option T) where
  iter b := BIter.create N b.w
  next b :=
    match BIter.next N bc b with
    | (.batch l, b') => (.idx (.many l), b')
    | (.stop, b') => (.stop, b')
    | (.err, b') => (.err, b')
  seed b := { b with w := seed b.w }
  save b := BIter.stateDict N b
  load b sd _ := BIter.load N (BIter.create N b.w) sd

/-! ### Nested samplers not in `Model/Sampler.lean` -/

/-- `_InfiniteConstantSampler` (`while True: yield None`); `None` is written `0`. -/
def infNested : Nested Unit Unit Unit where
  iter w := w
  next w := (.item 0, w)
  sState := none
  sLoad w _ := w
  iState := none
  iLoad w _ := some w

/-- A user sampler over a fixed order whose OBJECT is `Stateful` and is its own iterator (position `i`,
flag `done` set when exhaustion was noticed; `iter()` starts over iff `done`). -/
structure ObjS where
  order : List Nat
  i : Nat
  done : Bool
  deriving DecidableEq, Repr

def objNested : Nested ObjS (Nat × Bool) (Nat × Bool) where
  iter w := if w.done then { w with i := 0, done := false } else w
  next w :=
    match w.order[w.i]? with
    | none => (.stop, { w with done := true })
    | some v => (.item v, { w with i := w.i + 1 })
  sState := some fun w => (w.i, w.done)
  sLoad w s := { w with i := s.1, done := s.2 }
  iState := some fun w => (w.i, w.done)
  iLoad w t := some { w with i := t.1, done := t.2 }

/-- The `_base_seed` draw when `loader.generator` is the `RandomSampler`'s generator (`shared`), else
nothing the sampler can see. -/
def randSeed {G : Type} (draw : G → G) (shared : Bool) (w : RIter G × G) : RIter G × G :=
  if shared then (w.1, draw w.2) else w

/-! ### Dataset -/

inductive DOut where
  | item (v : Nat)
  | stop
  | err
  deriving DecidableEq, Repr

/-- The dataset object together with the fetcher's `dataset_iter`.  `dsState`/`itState` are present iff
the dataset / the iterator returned by `iter(dataset)` satisfy `Stateful`; `selfIter`: `iter(dataset) is
dataset`. -/
structure Data (D Ds Dt : Type) where
  iterable : Bool
  get : D → Nat → Option Nat × D
  iter : D → D
  next : D → DOut × D
  dsState : Option (D → Ds)
  dsLoad : D → Ds → D
  itState : Option (D → Dt)
  itLoad : D → Dt → D
  selfIter : Bool

structure Cfg where
  dropLast : Bool
  collateFail : Nat → Bool

def collate (c : Cfg) (items : List Nat) : Obs :=
  if items.any c.collateFail then .error 1 else .batch items

def collate1 (c : Cfg) (v : Nat) : Obs :=
  if c.collateFail v then .error 1 else .single v

/-- `[self.dataset[idx] for idx in batch]`: stops at the first index that raises. -/
def getAll {D Ds Dt : Type} (Da : Data D Ds Dt) : D → List Nat → Option (List Nat) × D
  | d, [] => (some [], d)
  | d, i :: r =>
    match Da.get d i with
    | (none, d') => (none, d')
    | (some v, d') =>
      match getAll Da d' r with
      | (none, d'') => (none, d'')
      | (some vs, d'') => (some (v :: vs), d'')

/-- The loop `for _ in possibly_batched_index: data.append(next(self.dataset_iter))`. -/
def gather {D Ds Dt : Type} (Da : Data D Ds Dt) : Nat → D → List Nat × Fill × D
  | 0, d => ([], .full, d)
  | k + 1, d =>
    match Da.next d with
    | (.item v, d') =>
      let r := gather Da k d'
      (v :: r.1, r.2.1, r.2.2)
    | (.stop, d') => ([], .stopped, d')
    | (.err, d') => ([], .errored, d')

/-- `_dataset_fetcher.fetch(index)`: result, dataset world, `ended`. -/
def fetch {D Ds Dt : Type} (Da : Data D Ds Dt) (c : Cfg) (d : D) (ended : Bool) (ix : Idx) : Obs × D × Bool :=
  if Da.iterable then
    if ended then (.stop, d, ended)
    else
      match ix with
      | .many l =>
        match gather Da l.length d with
        | (_, .errored, d') => (.error 0, d', ended)
        | (data, .stopped, d') =>
          if data.isEmpty || c.dropLast then (.stop, d', true) else (collate c data, d', true)
        | (data, .full, d') =>
          if data.isEmpty then (.stop, d', ended) else (collate c data, d', ended)
      | .one _ =>
        match Da.next d with
        | (.item v, d') => (collate1 c v, d', ended)
        | (.stop, d') => (.stop, d', ended)
        | (.err, d') => (.error 0, d', ended)
  else
    match ix with
    | .many l =>
      match getAll Da d l with
      | (none, d') => (.error 0, d', ended)
      | (some items, d') => (collate c items, d', ended)
    | .one i =>
      match Da.get d i with
      | (none, d') => (.error 0, d', ended)
      | (some v, d') => (collate1 c v, d', ended)

/-! ### The iterator -/

/-- One `_StatefulSingleProcessDataLoaderIter`. -/
structure It (W D : Type) where
  sw : W
  dw : D
  siy : Nat          -- `_sampler_iter_yielded`
  ny : Nat           -- `_num_yielded`
  ended : Bool       -- `_dataset_fetcher.ended`
  finished : Bool    -- `_finished`

/-- The state dict (keys `_index_sampler_state`+`_sampler_iter_state`, `_sampler_iter_yielded`,
`_num_yielded`, `fetcher_state` = (`dataset_iter_state`, `fetcher_ended`), `dataset_state`,
`_iterator_finished`). -/
structure St (SSt Ds Dt : Type) where
  sampler : SSt
  siy : Nat
  ny : Nat
  fetcher : Option (Option Dt × Bool)
  dataset : Option Ds
  finished : Bool

section iterator
variable {W SSt D Ds Dt : Type} (S : IdxSrc W SSt) (Da : Data D Ds Dt) (c : Cfg)

/-- `__init__` without a state: `iter(self._index_sampler)`, the `_base_seed` draw, `create_fetcher`. -/
def create (w : W) (d : D) : It W D :=
  { sw := S.seed (S.iter w), dw := Da.iter d, siy := 0, ny := 0, ended := false, finished := false }

/-- `__next__` (`_StatefulBaseDataLoaderIter` → `_BaseDataLoaderIter` → `_next_data`).  The sampler
advances first; an exception of the fetcher leaves `_num_yielded` alone; `StopIteration` from either sets
`_finished`. -/
def next (x : It W D) : Obs × It W D :=
  match S.next x.sw with
  | (.stop, w') => (.stop, { x with sw := w', finished := true })
  | (.err, w') => (.error 2, { x with sw := w' })
  | (.idx ix, w') =>
    let r := fetch Da c x.dw x.ended ix
    let x1 : It W D := { x with sw := w', siy := x.siy + 1, dw := r.2.1, ended := r.2.2 }
    match r.1 with
    | .stop => (.stop, { x1 with finished := true })
    | .error k => (.error k, x1)
    | o => (o, { x1 with ny := x1.ny + 1 })

/-- `state_dict()`. -/
def save (x : It W D) : St SSt Ds Dt :=
  { sampler := S.save x.sw, siy := x.siy, ny := x.ny,
    fetcher := if Da.iterable then some (Da.itState.map (· x.dw), x.ended) else none,
    dataset := if Da.iterable && Da.selfIter then none else Da.dsState.map (· x.dw),
    finished := x.finished }

/-- `for _ in range(k): next(self)`; `false`: one of the calls raised. -/
def ffwd : Nat → It W D → Bool × It W D
  | 0, x => (true, x)
  | k + 1, x =>
    match next S Da c x with
    | (.batch _, x') => ffwd k x'
    | (.single _, x') => ffwd k x'
    | (_, x') => (false, x')

inductive LoadRes (W D : Type) where
  | ok (x : It W D)
  | raised (w : W) (d : D)

/-- `__init__` with `next_iter_state`: the base constructor runs first (new `_sampler_iter`, `_base_seed`
draw), then `load_state_dict`: sampler, counters, dataset state, `create_fetcher`, iterator state and
`ended` — or the fast-forward, after which both counters are set again —, `_finished`. -/
def restore (w : W) (d : D) (st : St SSt Ds Dt) : LoadRes W D :=
  let w1 := S.seed (S.iter w)
  match S.load w1 st.sampler st.siy with
  | none => .raised w1 d
  | some w2 =>
    let d1 := match st.dataset, Da.dsState with
      | some s, some _ => Da.dsLoad d s
      | _, _ => d
    let d2 := Da.iter d1
    let x0 : It W D := { sw := w2, dw := d2, siy := st.siy, ny := st.ny, ended := false, finished := false }
    if Da.iterable then
      if Da.dsState.isSome || Da.itState.isSome then
        match st.fetcher with
        | some (t, e) =>
          let d3 := match t with
            | some t => Da.itLoad d2 t
            | none => d2
          .ok { x0 with dw := d3, ended := e, finished := st.finished }
        | none => .ok { x0 with finished := st.finished }
      else if st.ny > 0 then
        match ffwd S Da c st.ny x0 with
        | (true, x') => .ok { x' with ny := st.ny, siy := st.siy, finished := st.finished }
        | (false, x') => .raised x'.sw x'.dw
      else .ok { x0 with finished := st.finished }
    else .ok { x0 with finished := st.finished }

/-- A consumer's `for` loop that catches exceptions and goes on: the observations up to and including the
first `StopIteration` (at most `fuel` calls), and the iterator afterwards. -/
def epoch : Nat → It W D → List Obs × It W D
  | 0, x => ([], x)
  | f + 1, x =>
    match next S Da c x with
    | (.stop, x') => ([.stop], x')
    | (o, x') => let r := epoch f x'; (o :: r.1, r.2)

/-- State of the iterator after `k` calls of `next`. -/
def nextN : Nat → It W D → It W D
  | 0, x => x
  | k + 1, x => nextN k (next S Da c x).2

/-- The observations of `k` calls. -/
def obsN : Nat → It W D → List Obs
  | 0, _ => []
  | k + 1, x => (next S Da c x).1 :: obsN k (next S Da c x).2

/-! ### The loader object -/

/-- `StatefulDataLoader` with `num_workers = 0`: `x` is the current iterator if `live`, otherwise only its
`sw`/`dw` (the sampler and dataset objects) mean anything. -/
structure Loader (W SSt D Ds Dt : Type) where
  x : It W D
  live : Bool                        -- `self._iterator is not None`
  nis : Option (St SSt Ds Dt)        -- `self.next_iter_state`
  init : Bool                        -- `self._initial_iter_for_state_dict`

def Loader.fresh (w : W) (d : D) : Loader W SSt D Ds Dt :=
  { x := { sw := w, dw := d, siy := 0, ny := 0, ended := false, finished := false },
    live := false, nis := none, init := false }

/-- `self._iterator = self._get_iterator()`; `false`: the constructor raised (nothing is assigned and
`next_iter_state` stays). -/
def Loader.getIterator (l : Loader W SSt D Ds Dt) : Bool × Loader W SSt D Ds Dt :=
  match l.nis with
  | none => (true, { l with x := create S Da l.x.sw l.x.dw, live := true })
  | some st =>
    match restore S Da c l.x.sw l.x.dw st with
    | .ok x => (true, { l with x := x, live := true, nis := none })
    | .raised w d => (false, { l with x := { l.x with sw := w, dw := d } })

/-- `__iter__` (non-persistent): a new iterator unless `state_dict()` already made one; an iterator that
was restored from an end-of-epoch state is replaced by a new one at once. -/
def Loader.iter (l : Loader W SSt D Ds Dt) : Bool × Loader W SSt D Ds Dt :=
  let r : Bool × Loader W SSt D Ds Dt :=
    if l.init then (true, { l with init := false }) else Loader.getIterator S Da c l
  if r.1 && r.2.x.finished then Loader.getIterator S Da c r.2 else r

/-- `state_dict()`: creates the iterator if there is none. -/
def Loader.stateDict (l : Loader W SSt D Ds Dt) : Option (St SSt Ds Dt) × Loader W SSt D Ds Dt :=
  if l.live then (some (save S Da l.x), l)
  else
    match Loader.getIterator S Da c l with
    | (true, l') => (some (save S Da l'.x), { l' with init := true })
    | (false, l') => (none, l')

/-- `load_state_dict(sd)` with a non-empty `sd`. -/
def Loader.loadStateDict (l : Loader W SSt D Ds Dt) (st : St SSt Ds Dt) : Loader W SSt D Ds Dt :=
  { l with live := false, init := false, nis := some st }

def Loader.next (l : Loader W SSt D Ds Dt) : Obs × Loader W SSt D Ds Dt :=
  let r := SP.next S Da c l.x
  (r.1, { l with x := r.2 })

/-- `for b in loader` with a catching consumer, `E` times: the observations of every epoch. -/
def Loader.epochs (fuel : Nat) : Nat → Loader W SSt D Ds Dt → List (List Obs) × Loader W SSt D Ds Dt
  | 0, l => ([], l)
  | e + 1, l =>
    match Loader.iter S Da c l with
    | (false, l') => ([], l')
    | (true, l') =>
      let r := epoch S Da c fuel l'.x
      let rest := Loader.epochs fuel e { l' with x := r.2 }
      (r.1 :: rest.1, rest.2)

end iterator

/-! ### Concrete datasets -/

/-- Map-style dataset `idx ↦ data idx` (`none`: `__getitem__` raises).  The world is the call counter of a
dataset that has a `state_dict` (`stateful`), else nothing. -/
def mapData (data : Nat → Option Nat) (stateful : Bool) : Data Nat Nat Unit where
  iterable := false
  get d i := (data i, if stateful then d + 1 else d)
  iter d := d
  next d := (.stop, d)
  dsState := if stateful then some id else none
  dsLoad _ s := s
  itState := none
  itLoad d _ := d
  selfIter := false

/-- Frame of a Python generator object. -/
inductive Frame where
  | unstarted
  | running
  | dead
  deriving DecidableEq, Repr

/-- One produced element of a shard `0 … n-1` with failing items `fail`. -/
def produce (fail : Nat → Bool) (idx : Nat) : DOut := if fail idx then .err else .item idx

/-- Plain generator dataset without any state: `for i in range(n): check(i); yield i`.  World: frame and
loop variable.  An exception kills the generator. -/
def plainGen (n : Nat) (fail : Nat → Bool) : Data (Frame × Nat) Unit Unit where
  iterable := true
  get d _ := (none, d)
  iter _ := (.unstarted, 0)
  next d :=
    match d.1 with
    | .dead => (.stop, d)
    | _ =>
      if d.2 < n then
        if fail d.2 then (.err, (.dead, d.2)) else (.item d.2, (.running, d.2 + 1))
      else (.stop, (.dead, d.2))
  dsState := none
  dsLoad d _ := d
  itState := none
  itLoad d _ := d
  selfIter := false

/-- The README's `MyIterableDataset`: `for idx in range(self.i, n): self.i += 1; check; yield idx` and
`self.i = 0` once exhausted; `state_dict = {"i": self.i}` on the dataset object.  `idx` is the position of
the `range` iterator (fixed from `self.i` when the generator body starts). -/
structure Readme where
  i : Nat
  fr : Frame
  idx : Nat
  deriving DecidableEq, Repr

def readme (n : Nat) (fail : Nat → Bool) : Data Readme Nat Unit where
  iterable := true
  get d _ := (none, d)
  iter d := { d with fr := .unstarted }
  next d :=
    match d.fr with
    | .dead => (.stop, d)
    | fr =>
      let idx := if fr = .unstarted then d.i else d.idx
      if idx < n then
        if fail idx then (.err, { i := d.i + 1, fr := .dead, idx := idx })
        else (.item idx, { i := d.i + 1, fr := .running, idx := idx + 1 })
      else (.stop, { i := 0, fr := .dead, idx := idx })
  dsState := some (·.i)
  dsLoad d s := { d with i := s }
  itState := none
  itLoad d _ := d
  selfIter := false

/-- Dataset-level state `(i, done)`; generator `if done: restart; while self.i < n: …; done = True`. -/
structure DsState where
  i : Nat
  done : Bool
  fr : Frame
  deriving DecidableEq, Repr

def dsStateGen (n : Nat) (fail : Nat → Bool) : Data DsState (Nat × Bool) Unit where
  iterable := true
  get d _ := (none, d)
  iter d := { d with fr := .unstarted }
  next d :=
    match d.fr with
    | .dead => (.stop, d)
    | fr =>
      let d1 : DsState := if fr = .unstarted && d.done then { d with i := 0, done := false } else d
      if d1.i < n then
        if fail d1.i then (.err, { d1 with i := d1.i + 1, fr := .dead })
        else (.item d1.i, { d1 with i := d1.i + 1, fr := .running })
      else (.stop, { d1 with done := true, fr := .dead })
  dsState := some fun d => (d.i, d.done)
  dsLoad d s := { d with i := s.1, done := s.2 }
  itState := none
  itLoad d _ := d
  selfIter := false

/-- Only the iterator object returned by `__iter__` has state (its position); it is an ordinary object, so
it survives an exception of `__next__` (the position has already moved on). -/
def itStateObj (n : Nat) (fail : Nat → Bool) : Data Nat Unit Nat where
  iterable := true
  get d _ := (none, d)
  iter _ := 0
  next i := if i < n then (produce fail i, i + 1) else (.stop, i)
  dsState := none
  dsLoad d _ := d
  itState := some id
  itLoad _ t := t
  selfIter := false

/-- The dataset is its own iterator, with state `(i, done)`; `iter()` starts over iff `done`. -/
def selfIterObj (n : Nat) (fail : Nat → Bool) : Data (Nat × Bool) (Nat × Bool) (Nat × Bool) where
  iterable := true
  get d _ := (none, d)
  iter d := if d.2 then (0, false) else d
  next d := if d.1 < n then (produce fail d.1, (d.1 + 1, d.2)) else (.stop, (d.1, true))
  dsState := some id
  dsLoad _ s := s
  itState := some id
  itLoad _ t := t
  selfIter := true

/-- Dataset-level state `(i, done)` whose `__iter__` builds a separate, non-stateful iterator object EAGERLY
from the dataset's current position (`pos`); the iterator writes the position back into the dataset and
survives an exception. -/
structure Eager where
  i : Nat
  done : Bool
  pos : Nat
  deriving DecidableEq, Repr

def eagerObj (n : Nat) (fail : Nat → Bool) : Data Eager (Nat × Bool) Unit where
  iterable := true
  get d _ := (none, d)
  iter d := if d.done then { i := 0, done := false, pos := 0 } else { d with pos := d.i }
  next d :=
    if d.pos < n then (produce fail d.pos, { d with pos := d.pos + 1, i := d.pos + 1 })
    else (.stop, { d with done := true })
  dsState := some fun d => (d.i, d.done)
  dsLoad d s := { d with i := s.1, done := s.2 }
  itState := none
  itLoad d _ := d
  selfIter := false

/-! ### Reference semantics -/

/-- What one batch of indices becomes: `error 0` if one of its indices fails, `error 1` if `collate_fn`
rejects it, else the items. -/
def refFetch (data : Nat → Option Nat) (c : Cfg) : Idx → Obs
  | .one i =>
    match data i with
    | none => .error 0
    | some v => collate1 c v
  | .many l =>
    if l.all fun i => (data i).isSome then collate c (l.filterMap data) else .error 0

/-- Reference epoch of a map-style loader over the index batches `ixs`. -/
def refMap (data : Nat → Option Nat) (c : Cfg) (ixs : List Idx) : List Obs :=
  ixs.map (refFetch data c) ++ [.stop]

/-- The outcomes of `next(dataset_iter)` called over and over, up to and including the first
`StopIteration` (`fuel` calls at most). -/
def trace {D Ds Dt : Type} (Da : Data D Ds Dt) : Nat → D → List DOut
  | 0, _ => []
  | f + 1, d =>
    match Da.next d with
    | (.stop, _) => [.stop]
    | (o, d') => o :: trace Da f d'

/-- Reference epoch of an iterable loader with auto-collation, as a function of the outcome sequence of
the dataset iterator: items are grouped `bs` at a time; an exception discards the items collected for the
current batch and is delivered in its place; at the end a shorter last group is kept unless `drop_last`. -/
def refIterAuto (c : Cfg) (bs : Nat) : List DOut → List Nat → List Obs
  | [], _ => []
  | .item v :: tr, acc =>
    if acc.length + 1 = bs then collate c (acc ++ [v]) :: refIterAuto c bs tr []
    else refIterAuto c bs tr (acc ++ [v])
  | .err :: tr, _ => .error 0 :: refIterAuto c bs tr []
  | .stop :: _, acc => if acc.isEmpty || c.dropLast then [.stop] else [collate c acc, .stop]

/-- The same without auto-collation: item by item. -/
def refIterOne (c : Cfg) : List DOut → List Obs
  | [] => []
  | .item v :: tr => collate1 c v :: refIterOne c tr
  | .err :: tr => .error 0 :: refIterOne c tr
  | .stop :: _ => [.stop]

end TDV.SP
