import TorchDataVerif.Model.NodeCore
/-!
# M4 `Loader`, `SDLApi` — the iterable façades

`torchdata/nodes/loader.py` (`Loader`, `LoaderIterator`) and the façade part of
`torchdata/stateful_dataloader/stateful_dataloader.py` (`StatefulDataLoader.__iter__`, `state_dict`,
`load_state_dict`, `_get_iterator`), as they are after the three `fix:` commits to `loader.py`
(`_has_cached_item`; `_cached_state_dict` cleared on reset and when the look-ahead hits
`StopIteration`; `load_state_dict` clears `_iter_for_state_dict` and drops the iterator that was created
only for a `state_dict()`).

API histories are lists of `Op`; every op yields one `Obs`.  State dicts are values kept in a token
list; `load i` loads the `i`-th token handed out so far.  `fresh` replaces the loader object by a newly
built one over a newly built pipeline (tokens survive) — "load into a fresh loader".  `peek` is
`state_dict()` whose result is thrown away.  `next` acts on the iterator the user got from the most
recent `iter()`; `abandon` drops it.
-/
namespace TDV.Loader
open TDV.Node

/-- API-level observation of one call. `out o` is the result of `next(it)`; `err e` is an exception other
than `StopIteration` escaping from `iter()`/`state_dict()`; `skip` = the call was not possible (no iterator
in hand, or no such token). -/
inductive Obs where
  | ok
  | out (o : Out)
  | tok
  | skip
  | err (e : Nat)

inductive Op where
  | iter
  | next
  | stateDict
  | peek
  | load (i : Nat)
  | abandon
  | fresh

/-- Every `iter` of the history is directly followed by a `next` (as in `for x in loader`), or ends it. -/
def iterThenNext : List Op → Bool
  | [] => true
  | [.iter] => true
  | .iter :: .next :: ops => iterThenNext ops
  | .iter :: _ => false
  | _ :: ops => iterThenNext ops

/-- The history with its `peek` calls removed. -/
def erasePeek : List Op → List Op
  | [] => []
  | .peek :: ops => erasePeek ops
  | op :: ops => op :: erasePeek ops

/-! ## `LoaderIterator` -/
section Impl
variable (root : Node)

/-- `LoaderIterator.get_state()`: `{ROOT_KEY: root.state_dict(), NUM_YIELDED_KEY: _num_yielded}` -/
structure SD where
  rootSd : root.S
  numYielded : Nat

/-- `LoaderIterator`.  `r` is the runtime state of the root node *object* (which the Loader owns and every
iterator shares); `cached = some v` is `_has_cached_item` with `_cached_item = v`. -/
structure It where
  r : Run root
  numYielded : Nat
  cached : Option Item
  cachedSd : Option (SD root)

/-- `LoaderIterator(loader)` over the root object in runtime state `base`. -/
def newIt (base : Run root) : It root := ⟨base, 0, none, none⟩

/-- `LoaderIterator.reset(initial_state)` -/
def itReset (it : It root) : Option (SD root) → It root
  | some sd => ⟨root.rreset it.r (some sd.rootSd), sd.numYielded, none, none⟩
  | none => ⟨root.rreset it.r none, 0, none, none⟩

/-- `LoaderIterator.state_dict()` = `get_state()` (the iterator is always initialised when the Loader
hands it out). -/
def itGet (it : It root) : SD root × It root :=
  match it.cachedSd with
  | some sd => (sd, it)
  | none => (⟨(root.rget it.r).1, it.numYielded⟩, { it with r := (root.rget it.r).2 })

/-- The `else` branch of `LoaderIterator.next`: `item = next(self.root); self._num_yielded += 1`
(an exception leaves `_num_yielded` alone). -/
def itPull (it : It root) : Out × It root :=
  match (root.rnext it.r).1 with
  | .item v => (.item v, { it with r := (root.rnext it.r).2, numYielded := it.numYielded + 1 })
  | .stop => (.stop, { it with r := (root.rnext it.r).2 })
  | .error e => (.error e, { it with r := (root.rnext it.r).2 })

/-- `LoaderIterator.next` -/
def itNext (it : It root) : Out × It root :=
  match it.cached with
  | some v => (.item v, { it with cached := none, cachedSd := none })
  | none => itPull root it

inductive HN where
  | yes
  | no
  | err (e : Nat)

/-- `LoaderIterator.has_next`.  An exception other than `StopIteration` escapes with
`_cached_state_dict` already set. -/
def itHasNext (it : It root) : HN × It root :=
  match it.cached with
  | some _ => (.yes, it)
  | none =>
    let it1 : It root := { (itGet root it).2 with cachedSd := some (itGet root it).1 }
    match (itPull root it1).1 with
    | .item v => (.yes, { (itPull root it1).2 with cached := some v })
    | .stop => (.no, { (itPull root it1).2 with cachedSd := none })
    | .error e => (.err e, (itPull root it1).2)

/-! ## `Loader` -/

/-- `handle`: the user holds an iterator returned by `iter()` (it is always the one object `_it`).
`base`: the runtime state of the root object while no `LoaderIterator` exists (`_it is None`): never reset for
a new loader, or what the iterator dropped by `load_state_dict` left behind. -/
structure State where
  it : Option (It root)
  pending : Option (SD root)
  iterForSd : Bool
  handle : Bool
  base : Run root

def State.init : State root := ⟨none, none, false, false, root.rfresh⟩

structure IterRes where
  err : Option Nat
  it : It root
  pending : Option (SD root)
  iterForSd : Bool

/-- The part of `Loader.__iter__` after the `_it`/`_iter_for_state_dict` test. -/
def startIt (restart : Bool) (pending : Option (SD root)) (flag : Bool) (it : It root) : IterRes root :=
  match pending with
  | some sd =>
    if restart then
      match (itHasNext root (itReset root it (some sd))).1 with
      | .yes => ⟨none, (itHasNext root (itReset root it (some sd))).2, none, flag⟩
      | .no => ⟨none, itReset root (itHasNext root (itReset root it (some sd))).2 none, none, flag⟩
      | .err e => ⟨some e, (itHasNext root (itReset root it (some sd))).2, none, flag⟩
    else ⟨none, itReset root it (some sd), none, flag⟩
  | none => ⟨none, itReset root it none, none, flag⟩

/-- `Loader.__iter__` -/
def iterCore (restart : Bool) (s : State root) : IterRes root :=
  match s.it with
  | none => startIt root restart s.pending s.iterForSd (newIt root s.base)
  | some it =>
    if s.iterForSd then ⟨none, it, s.pending, false⟩
    else startIt root restart s.pending s.iterForSd it

/-- `it = iter(loader)` by the user. If it raises, the user keeps what he had. -/
def iter (restart : Bool) (s : State root) : Obs × State root :=
  match (iterCore root restart s).err with
  | none => (.ok, ⟨some (iterCore root restart s).it, (iterCore root restart s).pending,
      (iterCore root restart s).iterForSd, true, s.base⟩)
  | some e => (.err e, ⟨some (iterCore root restart s).it, (iterCore root restart s).pending,
      (iterCore root restart s).iterForSd, s.handle, s.base⟩)

/-- `Loader.state_dict` -/
def stateDict (restart : Bool) (s : State root) : Except Nat (SD root) × State root :=
  match s.it with
  | some it => (.ok (itGet root it).1, { s with it := some (itGet root it).2 })
  | none =>
    match (iterCore root restart s).err with
    | some e => (.error e, ⟨some (iterCore root restart s).it, (iterCore root restart s).pending,
        (iterCore root restart s).iterForSd, s.handle, s.base⟩)
    | none => (.ok (itGet root (iterCore root restart s).it).1,
        ⟨some (itGet root (iterCore root restart s).it).2, (iterCore root restart s).pending, true, s.handle, s.base⟩)

/-- `Loader.load_state_dict`: an iterator that exists only because of a `state_dict()` is dropped (the root
object stays as that iterator left it). -/
def load (s : State root) (sd : SD root) : State root :=
  match s.iterForSd, s.it with
  | true, some it => ⟨none, some sd, false, s.handle, it.r⟩
  | _, _ => { s with pending := some sd, iterForSd := false }

/-- `next(it)` on the iterator in hand. -/
def next (s : State root) : Obs × State root :=
  match s.handle, s.it with
  | true, some it => (.out (itNext root it).1, { s with it := some (itNext root it).2 })
  | _, _ => (.skip, s)

structure Sys where
  st : State root
  toks : List (SD root)

def Sys.init : Sys root := ⟨State.init root, []⟩

def step (restart : Bool) (s : Sys root) : Op → Obs × Sys root
  | .iter => ((iter root restart s.st).1, ⟨(iter root restart s.st).2, s.toks⟩)
  | .next => ((next root s.st).1, ⟨(next root s.st).2, s.toks⟩)
  | .stateDict =>
    match (stateDict root restart s.st).1 with
    | .ok sd => (.tok, ⟨(stateDict root restart s.st).2, s.toks ++ [sd]⟩)
    | .error e => (.err e, ⟨(stateDict root restart s.st).2, s.toks⟩)
  | .peek =>
    match (stateDict root restart s.st).1 with
    | .ok _ => (.tok, ⟨(stateDict root restart s.st).2, s.toks⟩)
    | .error e => (.err e, ⟨(stateDict root restart s.st).2, s.toks⟩)
  | .load i =>
    match s.toks[i]? with
    | some sd => (.ok, ⟨load root s.st sd, s.toks⟩)
    | none => (.skip, s)
  | .abandon => (.ok, ⟨{ s.st with handle := false }, s.toks⟩)
  | .fresh => (.ok, ⟨State.init root, s.toks⟩)

/-- State after a history. -/
def exec (restart : Bool) : Sys root → List Op → Sys root
  | s, [] => s
  | s, op :: ops => exec restart (step root restart s op).2 ops

/-- Observations of a history. -/
def obs (restart : Bool) : Sys root → List Op → List Obs
  | _, [] => []
  | s, op :: ops => (step root restart s op).1 :: obs restart (step root restart s op).2 ops

/-! ### Side conditions of the equivalence theorems (`resume_exact`, `get_transparent`, `load_idempotent`)

`Bisim.resetNone` of `NodeCore` covers a plain `reset()` only after a `next()`.  Accordingly the
Loader-level equivalences cover an `iter()` that starts a new epoch on the existing iterator only if the
user has requested an item since that iterator was (re)started (`okIter`). -/

/-- `iter()` on `s` does not start a new epoch on an iterator from which nothing was requested. -/
def okIter (s : State root) : Bool :=
  match s.it with
  | none => true
  | some it => s.iterForSd || s.pending.isSome || (it.cached.isNone && it.r.nexted)

/-- `okIter` holds at every `iter` of the history `ops` run from `s`. -/
def good (restart : Bool) : Sys root → List Op → Bool
  | _, [] => true
  | s, .iter :: ops => okIter root s.st && good restart (step root restart s .iter).2 ops
  | s, op :: ops => good restart (step root restart s op).2 ops

/-- The observations of a history, those of `peek` calls left out. -/
def obsSkipPeek (restart : Bool) : Sys root → List Op → List Obs
  | _, [] => []
  | s, .peek :: ops => obsSkipPeek restart (step root restart s .peek).2 ops
  | s, op :: ops => (step root restart s op).1 :: obsSkipPeek restart (step root restart s op).2 ops

end Impl

/-! ## The list-based reference for the nodes `Loader`

Written from the property text.  State: the most recently requested iterator as (epoch index, position
in `epochs e`, "an item was requested from it"), the pending loaded state, and whether the iterator exists
only because of a `state_dict()`.

* each `iter` starts a new full epoch unless a state was loaded since the last `iter`, in which case it
  starts from that state;
* `state_dict` refers to the most recently requested iterator; if none exists it creates one, exactly as
  `iter` would, which the next `iter` reuses exactly once and which a `load` invalidates (it then no longer
  exists);
* a state taken after the last item resumes into the next epoch (`restart`) or into an empty one;
* the epoch index advances by exactly one per epoch in which at least one item was requested and is the
  saved epoch after a resume.

The text does not say whether an epoch that was *resumed* and from which nothing was requested since
counts as "requested": `resumeReq` is that choice (see `Props/C13.lean`). -/
namespace Ref

structure RIt where
  e : Nat
  p : Nat
  req : Bool

structure RTok where
  e : Nat
  p : Nat

structure RState where
  cur : Option RIt
  pending : Option RTok
  reuse : Bool
  handle : Bool

def RState.init : RState := ⟨none, none, false, false⟩

structure RSys where
  st : RState
  toks : List RTok

def RSys.init : RSys := ⟨RState.init, []⟩

section
variable (epochs : Nat → List Item) (restart resumeReq : Bool)

/-- The iterator a start produces. -/
def start (s : RState) : RIt :=
  match s.pending with
  | some t =>
    if restart && decide ((epochs t.e).length ≤ t.p) then ⟨t.e + 1, 0, false⟩ else ⟨t.e, t.p, resumeReq⟩
  | none =>
    match s.cur with
    | none => ⟨0, 0, false⟩
    | some c => ⟨if c.req then c.e + 1 else c.e, 0, false⟩

def iter (s : RState) : RState :=
  match s.cur, s.reuse with
  | some c, true => ⟨some c, s.pending, false, true⟩
  | _, _ => ⟨some (start epochs restart resumeReq s), none, s.reuse, true⟩

def next (s : RState) : Obs × RState :=
  match s.handle, s.cur with
  | true, some c =>
    match (epochs c.e)[c.p]? with
    | some v => (.out (.item v), { s with cur := some ⟨c.e, c.p + 1, true⟩ })
    | none => (.out .stop, { s with cur := some ⟨c.e, c.p, true⟩ })
  | _, _ => (.skip, s)

def stateDict (s : RState) : RTok × RState :=
  match s.cur with
  | some c => (⟨c.e, c.p⟩, s)
  | none =>
    (⟨(start epochs restart resumeReq s).e, (start epochs restart resumeReq s).p⟩,
      ⟨some (start epochs restart resumeReq s), none, true, s.handle⟩)

/-- A load is pending for the next start; an iterator that exists only because of a `state_dict` is
invalidated: it is no longer "the most recently requested iterator". -/
def load (s : RState) (t : RTok) : RState :=
  { s with pending := some t, reuse := false, cur := if s.reuse then none else s.cur }

def step (s : RSys) : Op → Obs × RSys
  | .iter => (.ok, ⟨iter epochs restart resumeReq s.st, s.toks⟩)
  | .next => ((next epochs s.st).1, ⟨(next epochs s.st).2, s.toks⟩)
  | .stateDict => (.tok, ⟨(stateDict epochs restart resumeReq s.st).2,
      s.toks ++ [(stateDict epochs restart resumeReq s.st).1]⟩)
  | .peek => (.tok, ⟨(stateDict epochs restart resumeReq s.st).2, s.toks⟩)
  | .load i =>
    match s.toks[i]? with
    | some t => (.ok, ⟨load s.st t, s.toks⟩)
    | none => (.skip, s)
  | .abandon => (.ok, ⟨{ s.st with handle := false }, s.toks⟩)
  | .fresh => (.ok, ⟨RState.init, s.toks⟩)

def exec : RSys → List Op → RSys
  | s, [] => s
  | s, op :: ops => exec (step epochs restart resumeReq s op).2 ops

def obs : RSys → List Op → List Obs
  | _, [] => []
  | s, op :: ops => (step epochs restart resumeReq s op).1 :: obs (step epochs restart resumeReq s op).2 ops

end
end Ref

/-! ## A concrete root: a source that delivers `outsOf e` in epoch `e`

The functional reading of `SamplerWrapper` over a sampler with `set_epoch` (state: epoch, number yielded,
`_started`) and, with `outsOf` constant, of `IterableWrapper` over a list.  An `error` entry is an item on
which the pipeline raises; the position still advances. -/
structure SrcSt where
  e : Nat
  p : Nat
  started : Bool

def srcNode (outsOf : Nat → List Out) : Node where
  σ := SrcSt
  S := Nat × Nat
  fresh := ⟨0, 0, false⟩
  reset := fun s x =>
    match x with
    | some (e, p) => ⟨e, p, false⟩
    | none => ⟨if s.started then s.e + 1 else s.e, 0, false⟩
  next := fun s =>
    match (outsOf s.e)[s.p]? with
    | some o => (o, ⟨s.e, s.p + 1, true⟩)
    | none => (.stop, ⟨s.e, s.p, true⟩)
  get := fun s => ((s.e, s.p), s)

def epochSrc (epochs : Nat → List Item) : Node := srcNode fun e => (epochs e).map Out.item

/-! ## Hypotheses on the root used by the property theorems -/

/-- The root never raises anything but `StopIteration` (failures are properties C10/C11). -/
def NoError (n : Node) : Prop := ∀ r, Node.Reach n r → ∀ e, (n.rnext r).1 ≠ Out.error e

/-- The first `k` results of a source that is at position `p` of the list `l` and reports the end for
ever once the list is used up. -/
def strm (l : List Item) : Nat → Nat → List Out
  | _, 0 => []
  | p, k + 1 =>
    (match l[p]? with
      | some v => Out.item v
      | none => Out.stop) :: strm l (if p < l.length then p + 1 else p) k

/-- "The epochs of `n` are `epochs`": after a plain `reset()` the node delivers `epochs e` and then stops,
where the epoch index `e` starts at 0, is saved and restored with the state, and advances at a plain
`reset()` exactly when `next()` was called since the last reset (the ghost bit).  `At r e` reads "runtime
state `r` is in epoch `e`" (a relation: a node whose epochs are all alike need not count them).
Nothing is said about where a restored state continues; that is `Lawful`'s business. -/
def DeliversEpochs (n : Node) (epochs : Nat → List Item) : Prop :=
  ∃ At : Run n → Nat → Prop,
    At (n.rreset n.rfresh none) 0 ∧
    (∀ r e, Node.Reach n r → At r e → At (n.rnext r).2 e) ∧
    (∀ r e, Node.Reach n r → At r e → At (n.rget r).2 e) ∧
    (∀ r e, Node.Reach n r → At r e → At (n.rreset r none) (if r.nexted then e + 1 else e)) ∧
    (∀ r s e, Node.Reach n r → Node.Reach n s → At s e → At (n.rreset r (some (n.rget s).1)) e) ∧
    (∀ s e, Node.Reach n s → At s e → At (n.rreset n.rfresh (some (n.rget s).1)) e) ∧
    (∀ k, n.outs k (n.rreset n.rfresh none) = strm (epochs 0) 0 k) ∧
    (∀ r e k, Node.Reach n r → At r e →
      n.outs k (n.rreset r none) = strm (epochs (if r.nexted then e + 1 else e)) 0 k)

end TDV.Loader

/-! ## `StatefulDataLoader` façade

The iterator is abstract: a position `(e, p)` in the epoch stream `epochs e` plus its `_finished` flag,
with exact `state_dict`/`load_state_dict` (that exactness is property C01).  `e` is the index of the
stream in the order in which fresh streams are started by this loader object (`g` counts them). -/
namespace TDV.SDLApi
open TDV.Node
open TDV.Loader (Obs Op)

/-- Abstract `_StatefulBaseDataLoaderIter`, and what its `state_dict()` denotes. -/
structure It where
  e : Nat
  p : Nat
  fin : Bool

/-- The iterator the user holds: none, the loader's `_iterator` object, or an object the loader has
dropped (`load_state_dict` sets `_iterator = None`). -/
inductive Handle where
  | none
  | shared
  | detached (it : It)

structure State where
  iterator : Option It
  pending : Option It
  initForSd : Bool
  handle : Handle
  /-- fresh epoch streams started so far -/
  g : Nat
  /-- `_get_iterator()` calls so far -/
  made : Nat

def State.init : State := ⟨none, none, false, .none, 0, 0⟩

/-- `_StatefulBaseDataLoaderIter.__next__` -/
def itNext (epochs : Nat → List Item) (it : It) : Out × It :=
  match (epochs it.e)[it.p]? with
  | some v => (.item v, { it with p := it.p + 1 })
  | none => (.stop, { it with fin := true })

/-- `_get_iterator()`: a new iterator object from `next_iter_state` (cleared) or from scratch. -/
def getIterator (s : State) : It × State :=
  match s.pending with
  | some t => (t, { s with pending := none, made := s.made + 1 })
  | none => (⟨s.g, 0, false⟩, { s with g := s.g + 1, made := s.made + 1 })

/-- `self._iterator._reset(self)` (persistent workers): the same object starts a fresh stream. -/
def resetIt (s : State) : It × State := (⟨s.g, 0, false⟩, { s with g := s.g + 1 })

/-- First half of `__iter__`; `none` = the `assert self._iterator is not None` fails. -/
def iterFirst (persistent : Bool) (s : State) : Option (It × State) :=
  if s.initForSd then
    match s.iterator with
    | some it => some (it, { s with initForSd := false })
    | none => none
  else if persistent then
    match s.iterator with
    | none => some (getIterator s)
    | some _ => some (resetIt s)
  else some (getIterator s)

/-- Second half: `if self._iterator._finished: ...` -/
def iterSecond (persistent : Bool) (r : It × State) : It × State :=
  if r.1.fin then (if persistent then resetIt r.2 else getIterator r.2) else r

/-- `StatefulDataLoader.__iter__` -/
def iter (persistent : Bool) (s : State) : Obs × State :=
  match iterFirst persistent s with
  | none => (.err 0, { s with initForSd := false })
  | some r =>
    (.ok, { (iterSecond persistent r).2 with iterator := some (iterSecond persistent r).1, handle := .shared })

/-- `StatefulDataLoader.state_dict` -/
def stateDict (s : State) : It × State :=
  match s.iterator with
  | some it => (it, s)
  | none => ((getIterator s).1, { (getIterator s).2 with iterator := some (getIterator s).1, initForSd := true })

/-- `StatefulDataLoader.load_state_dict` (tokens are never `{}`) -/
def load (s : State) (t : It) : State :=
  { s with
    iterator := none
    initForSd := false
    pending := some t
    handle := match s.handle, s.iterator with
      | .shared, some it => .detached it
      | .shared, none => .none
      | h, _ => h }

def next (epochs : Nat → List Item) (s : State) : Obs × State :=
  match s.handle, s.iterator with
  | .shared, some it => (.out (itNext epochs it).1, { s with iterator := some (itNext epochs it).2 })
  | .detached it, _ => (.out (itNext epochs it).1, { s with handle := .detached (itNext epochs it).2 })
  | _, _ => (.skip, s)

structure Sys where
  st : State
  toks : List It

def Sys.init : Sys := ⟨State.init, []⟩

section
variable (epochs : Nat → List Item) (persistent : Bool)

def step (s : Sys) : Op → Obs × Sys
  | .iter => ((iter persistent s.st).1, ⟨(iter persistent s.st).2, s.toks⟩)
  | .next => ((next epochs s.st).1, ⟨(next epochs s.st).2, s.toks⟩)
  | .stateDict => (.tok, ⟨(stateDict s.st).2, s.toks ++ [(stateDict s.st).1]⟩)
  | .peek => (.tok, ⟨(stateDict s.st).2, s.toks⟩)
  | .load i =>
    match s.toks[i]? with
    | some t => (.ok, ⟨load s.st t, s.toks⟩)
    | none => (.skip, s)
  | .abandon => (.ok, ⟨{ s.st with handle := .none }, s.toks⟩)
  | .fresh => (.ok, ⟨State.init, s.toks⟩)

def exec : Sys → List Op → Sys
  | s, [] => s
  | s, op :: ops => exec (step epochs persistent s op).2 ops

def obs : Sys → List Op → List Obs
  | _, [] => []
  | s, op :: ops => (step epochs persistent s op).1 :: obs (step epochs persistent s op).2 ops

end

/-! ### Reference for the `StatefulDataLoader` façade

From the property text: `cur` is the most recently requested iterator (dropped by a load), as a position in
an epoch stream plus "its end was reported" (`stopped`); the `k`-th stream started by this loader
delivers `epochs k`.  `endByStop` is the reading of "a state taken after the last item": `true` = only after
`StopIteration` was delivered, `false` = also when the position is past the last item. -/
namespace Ref

structure RIt where
  e : Nat
  p : Nat
  stopped : Bool

inductive RHandle where
  | none
  | cur
  | old (it : RIt)

structure RState where
  cur : Option RIt
  pending : Option RIt
  reuse : Bool
  handle : RHandle
  starts : Nat

def RState.init : RState := ⟨none, none, false, .none, 0⟩

structure RSys where
  st : RState
  toks : List RIt

def RSys.init : RSys := ⟨RState.init, []⟩

section
variable (epochs : Nat → List Item) (endByStop : Bool)

/-- "`t` was taken after the last item": its end was reported, or (positional reading) the epoch has a last
item and the position is past it. -/
def atEnd (t : RIt) : Bool :=
  t.stopped || (!endByStop && decide (0 < (epochs t.e).length) && decide ((epochs t.e).length ≤ t.p))

/-- A new full epoch. -/
def newEpoch (s : RState) : RIt × RState := (⟨s.starts, 0, false⟩, { s with starts := s.starts + 1 })

/-- The iterator that is current when none exists: from the loaded state if any, else a new epoch. -/
def obtain (s : RState) : RIt × RState :=
  match s.pending with
  | some t => (t, { s with pending := none })
  | none => newEpoch s

/-- Continue the iterator `c`, or a new full epoch if `c` is at its end. -/
def resumeOrNew (c : RIt) (s : RState) : RIt × RState :=
  if atEnd epochs endByStop c then newEpoch s else (c, s)

/-- What `iter` hands out: the iterator created by `state_dict` (once), else the loaded state, else a new
full epoch; an iterator that is at its end gives way to a new full epoch. -/
def iterPick (s : RState) : RIt × RState :=
  match s.cur, s.reuse with
  | some c, true => resumeOrNew epochs endByStop c { s with reuse := false }
  | _, _ =>
    match s.pending with
    | some t => resumeOrNew epochs endByStop t { s with pending := none, reuse := false }
    | none => newEpoch { s with reuse := false }

def iter (s : RState) : RState :=
  { (iterPick epochs endByStop s).2 with cur := some (iterPick epochs endByStop s).1, handle := .cur }

def stateDict (s : RState) : RIt × RState :=
  match s.cur with
  | some c => (c, s)
  | none => ((obtain s).1, { (obtain s).2 with cur := some (obtain s).1, reuse := true })

def load (s : RState) (t : RIt) : RState :=
  { s with
    cur := none
    reuse := false
    pending := some t
    handle := match s.handle, s.cur with
      | .cur, some c => .old c
      | .cur, none => .none
      | h, _ => h }

def itNext (c : RIt) : Out × RIt :=
  match (epochs c.e)[c.p]? with
  | some v => (.item v, { c with p := c.p + 1 })
  | none => (.stop, { c with stopped := true })

def next (s : RState) : Obs × RState :=
  match s.handle, s.cur with
  | .cur, some c => (.out (itNext epochs c).1, { s with cur := some (itNext epochs c).2 })
  | .old c, _ => (.out (itNext epochs c).1, { s with handle := .old (itNext epochs c).2 })
  | _, _ => (.skip, s)

def step (s : RSys) : Op → Obs × RSys
  | .iter => (.ok, ⟨iter epochs endByStop s.st, s.toks⟩)
  | .next => ((next epochs s.st).1, ⟨(next epochs s.st).2, s.toks⟩)
  | .stateDict => (.tok, ⟨(stateDict s.st).2, s.toks ++ [(stateDict s.st).1]⟩)
  | .peek => (.tok, ⟨(stateDict s.st).2, s.toks⟩)
  | .load i =>
    match s.toks[i]? with
    | some t => (.ok, ⟨load s.st t, s.toks⟩)
    | none => (.skip, s)
  | .abandon => (.ok, ⟨{ s.st with handle := .none }, s.toks⟩)
  | .fresh => (.ok, ⟨RState.init, s.toks⟩)

def exec : RSys → List Op → RSys
  | s, [] => s
  | s, op :: ops => exec (step epochs endByStop s op).2 ops

def obs : RSys → List Op → List Obs
  | _, [] => []
  | s, op :: ops => (step epochs endByStop s op).1 :: obs (step epochs endByStop s op).2 ops

end
end Ref

end TDV.SDLApi
