import TorchDataVerif.Proofs.MPRISound
/-!
# MP, iterable, in-order: what the accumulated worker snapshots `_worker_snapshots` are after `k` consumed results

Extracted from the joint invariant `J` of `Proofs/MPRI*.lean`.  The results consumed so far (batches and
end-of-shard notices, dead tasks skipped) are a prefix `E` of the canonical live sequence `liveFrom c 0 0`
(round robin over the workers, worker `w` appears with positions `0 … b_w`, position `b_w` being its notice);
`idealE c _ E w` is the state of worker `w` after exactly its consumed fetches, `ended` iff its notice is in `E`.
-/
namespace TDV.MPRI
open TDV.MP TDV.MPU TDV.MPR

/-- `_worker_snapshots` after the first `k` live results were consumed, if every delta were reported. -/
def wsIter (c : Cfg) (k : Nat) : List WSt :=
  (List.range c.W).map (idealE c (fun _ => false) ((liveFrom c 0 0).take k))

/-- Every data task carries a worker-state delta: `1 ≤ snapshot_every_n_steps ≤ W·P + W + 1`. -/
def AlwaysFlag (c : Cfg) : Prop := c.interval ≠ 0 ∧ c.interval ≤ c.W * c.P + c.W + 1

theorem flagW_always (c : Cfg) (h : AlwaysFlag c) (d : Nat) : flagW c d = true := by
  unfold flagW
  have := h.1; have := h.2
  simp only [Bool.and_eq_true, decide_eq_true_eq]
  exact ⟨h.1, by omega⟩

/-- The worker snapshots of a state satisfying `J` (not shut down). -/
theorem J_wsnaps (c : Cfg) (s : State) (hJ : J c (fun _ => false) 0 s) (hsd : s.shutdown = false) :
    ∃ k, k ≤ (liveFrom c 0 0).length ∧ s.numYielded = ndE c ((liveFrom c 0 0).take k) ∧
      s.wsnaps.length = c.W ∧
      ∀ w, w < c.W → s.wsnaps[w]? = some (idealE c (fun _ => false) ((liveFrom c 0 0).take k) w) ∨
        StaleE c s.numYielded ((liveFrom c 0 0).take k) w := by
  obtain ⟨g, dl, hx⟩ := hJ.2.2.2 hsd
  obtain ⟨R, hR⟩ := live_take c s g none hx.wi.1 s.rcvdIdx
  have hE : (liveFrom c 0 0).take (livePairs c (g.h.take s.rcvdIdx)).length = livePairs c (g.h.take s.rcvdIdx) := by
    rw [← hR, List.take_left']; rfl
  refine ⟨(livePairs c (g.h.take s.rcvdIdx)).length, by rw [← hR, List.length_append]; omega, ?_, hx.ks.wl, ?_⟩
  · rw [hE]; have := hx.ks.yc; omega
  · intro w hw; rw [hE]; exact hx.ks.ok w hw

theorem wsnaps_eq_wsIter (c : Cfg) (ws : List WSt) (k : Nat) (hl : ws.length = c.W)
    (h : ∀ w, w < c.W → ws[w]? = some (idealE c (fun _ => false) ((liveFrom c 0 0).take k) w)) :
    ws = wsIter c k := by
  apply List.ext_getElem?
  intro w
  unfold wsIter
  by_cases hw : w < c.W
  · rw [h w hw, List.getElem?_map, List.getElem?_range hw]; rfl
  · rw [List.getElem?_eq_none (by omega), List.getElem?_eq_none (by simp; omega)]

end TDV.MPRI
