import TorchDataVerif.Props.C01MP
/-!
# E2E, part 7 — epochs of the multi-process iterator (map-style, non-persistent workers)

With `persistent_workers = False` the façade builds one NEW `_StatefulMultiProcessingDataLoaderIter` per epoch
(`Fac.getAssign`): from `next_iter_state` if one is pending (`MPR.restore` + replay), else a fresh instance
(`MP.init`).  The MP model is a transition system over schedules, so an epoch is a RUN (`EpochRun`) rather than a
function; the theorems quantify over all of them.
-/
namespace TDV.E2E
open TDV.MP TDV.MPR

/-- One epoch of a multi-process iterator constructed in state `s0`: some schedule of workers, arrivals and
`next()` calls (`state_dict()` calls anywhere) under which no worker dies and the consumer reaches
`StopIteration`. -/
structure EpochRun (c : Cfg) (s0 : State) where
  as : List Action
  s : State
  noReset : NoReset as
  run : MP.run c s0 as = some s
  alive : ¬ died s
  stopped : Obs.stop ∈ s.obs

section
variable (c : Cfg) (hv : c.Valid) (hm : c.iterable = false) (hio : c.inOrder = true) (he : errFree c)
include hv hm hio he

/-- A fresh instance run to its `StopIteration` yields the whole reference stream. -/
theorem mp_fresh_epoch (r : EpochRun c (init c)) : yields r.s.obs = oks (refStream c) := by
  have hr : MP.run c (restore c (idealAt c 0)) r.as = some r.s := by
    rw [restore_ideal_zero c hv.1]; exact r.run
  have h := restore_ideal_map c hv hm hio he 0 (Nat.zero_le _) ⟨fun _ => rfl, fun _ => Nat.dvd_zero _⟩
    r.as r.s r.noReset hr r.alive
  simpa using h.2.1 r.stopped

theorem mp_fresh_epochs (rs : List (EpochRun c (init c))) :
    rs.map (fun r => yields r.s.obs) = List.replicate rs.length (oks (refStream c)) := by
  induction rs with
  | nil => rfl
  | cons r rs ih =>
    simp only [List.map_cons, List.length_cons, List.replicate_succ, ih, mp_fresh_epoch c hv hm hio he r]

end

/-- An epoch run from a schedule that is checked to go through, to keep every worker alive and to reach
`StopIteration` (examples). -/
def EpochRun.ofSchedule (c : Cfg) (s0 : State) (as : List Action) (hn : NoReset as)
    (h : (MP.run c s0 as).isSome = true)
    (hd : Obs.workerDied ∉ ((MP.run c s0 as).get h).obs) (hs : Obs.stop ∈ ((MP.run c s0 as).get h).obs) :
    EpochRun c s0 :=
  { as := as, s := (MP.run c s0 as).get h, noReset := hn, run := (Option.some_get h).symm, alive := hd, stopped := hs }

/-- A complete epoch of `MPR.exMap` from a fresh instance. -/
def exMapFull : List Action :=
  [.work 0, .work 0, .work 1, .work 1, .next, .recv, .work 0, .next, .recv, .recv, .work 1, .next, .work 0, .next,
   .recv, .next, .recv, .next, .recv, .next, .recv, .next]

end TDV.E2E
