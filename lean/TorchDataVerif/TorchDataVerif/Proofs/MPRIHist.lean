import TorchDataVerif.Proofs.MPRIWs
/-!
# MPRI — from dispatch histories (owner lists, dead tasks included) to consumed live pairs
-/
namespace TDV.MPRI
open TDV.MP TDV.MPU

theorem livePairs_prefix (c : Cfg) (a b : List Nat) : livePairs c a <+: livePairs c (a ++ b) := by
  induction b using snoc_induction with
  | nil => simp
  | snoc b v ih =>
    rw [← List.append_assoc, livePairs_snoc]
    exact List.IsPrefix.trans ih (List.prefix_append _ _)

theorem livePairs_take_succ (c : Cfg) (h : List Nat) (i w : Nat) (hi : h[i]? = some w) :
    livePairs c (h.take (i + 1)) = livePairs c (h.take i) ++
      (if (h.take i).count w ≤ bOf c w then [(w, (h.take i).count w)] else []) := by
  rw [List.take_add_one, hi]
  simp only [Option.toList]
  exact livePairs_snoc c (h.take i) w

theorem posE_livePairs (c : Cfg) (C : List Nat) (w : Nat) :
    posE c (livePairs c C) w = min (C.count w) (bOf c w) := by
  induction C using snoc_induction with
  | nil => simp [livePairs_nil, posE]
  | snoc C v ih =>
    rw [livePairs_snoc, List.count_append, List.count_singleton]
    by_cases hl : C.count v ≤ bOf c v
    · simp only [hl, if_true, posE_snoc, ih, isD, decide_eq_true_eq]
      by_cases hvw : v = w
      · subst hvw; simp; split <;> omega
      · have : (v == w) = false := by simp [hvw]
        simp [hvw, this]
    · simp only [hl, if_false, List.append_nil, ih]
      by_cases hvw : v = w
      · subst hvw; simp; omega
      · have : (v == w) = false := by simp [hvw]
        simp [this]

theorem endE_livePairs (c : Cfg) (C : List Nat) (w : Nat) :
    endE c (livePairs c C) w = decide (bOf c w < C.count w) := by
  induction C using snoc_induction with
  | nil => simp [livePairs_nil, endE]
  | snoc C v ih =>
    rw [livePairs_snoc, List.count_append, List.count_singleton]
    by_cases hl : C.count v ≤ bOf c v
    · simp only [hl, if_true, endE_snoc, ih]
      by_cases hvw : v = w
      · subst hvw
        simp only [beq_self_eq_true, Bool.true_and, if_true]
        by_cases he : C.count v = bOf c v
        · simp [he]
        · have : (C.count v == bOf c v) = false := by simp [he]
          simp [this]; omega
      · have : (v == w) = false := by simp [hvw]
        simp [this]
    · simp only [hl, if_false, List.append_nil, ih]
      by_cases hvw : v = w
      · subst hvw; simp; omega
      · have : (v == w) = false := by simp [hvw]
        simp [this]

/-- The consumed live pairs are a prefix of the epoch's live sequence. -/
theorem live_take (c : Cfg) (s : State) (g : Ghost) (ex : Option Nat) (hm : MidI c s g ex) (i : Nat) :
    ∃ R, livePairs c (g.h.take i) ++ R = liveFrom c 0 0 := by
  have h1 : livePairs c (g.h.take i) <+: livePairs c g.h := by
    have := livePairs_prefix c (g.h.take i) (g.h.drop i)
    rwa [List.take_append_drop] at this
  obtain ⟨t, ht⟩ := h1
  exact ⟨t ++ liveFrom c g.rho s.cyc, by rw [← List.append_assoc, ht]; exact hm.live⟩

end TDV.MPRI
