import TorchDataVerif.Proofs.PMGen2Inv
/-! `Gen2`: the invariant behind `single_driver_partial` — as long as every give-up of the reader's join is harmless,
the readers of all abandoned generations (and of the one being shut down, once its join is over) are `Silent`. -/
namespace TDV.PM
variable {c : Cfg} {x y : G2State}

/-- Every give-up of the reader's timed join happens when the reader is already past its last `next(source)`. -/
def harmless (c : Cfg) : G2State → List G2Action → Prop
  | _, [] => True
  | x, a :: as =>
    (a = .joinGiveUp .reader → x.g.cur.rpc.pastSource = true) ∧
    match g2step c x a with
    | some x' => harmless c x' as
    | none => True

def Ph.joining : Ph → Bool
  | .joinS | .joinW _ => true
  | _ => false

structure K (c : Cfg) (x : G2State) : Prop where
  ginv : GInv c x.g
  old : ∀ s ∈ x.g.old, Silent s
  join : x.ph.joining = true → Silent x.g.cur ∧ x.g.cur.cpc = .closed
  reset : x.ph = .reset → x.g.cur.rpc = .init
  rinit : x.rinit = true → x.g.cur.rpc = .init ∧ x.ph ≠ .reset

theorem k_init (c : Cfg) : K c (g2init c) :=
  ⟨ginv_init c, by simp [g2init, ginit], by simp [g2init, Ph.joining], by simp [g2init, ginit, init], by simp [g2init]⟩

theorem k_step {a : G2Action} (hk : K c x) (hh : a = .joinGiveUp .reader → x.g.cur.rpc.pastSource = true)
    (h : g2step c x a = some y) : K c y := by
  have hgi := g2_ginv hk.ginv h
  cases a
  case cur a =>
    obtain ⟨hph, hri, s1, hs, rfl⟩ := g2_cur h
    refine ⟨hgi, hk.old, ?_, ?_, ?_⟩
    · intro hj
      obtain ⟨h1, h2⟩ := hk.join hj
      exact ⟨(silent_step h1 hs).1, (closed_stays h2 hs).1⟩
    · intro e; exact absurd e hph
    · intro e
      by_cases ha : a = .rInit
      · simp [ha] at e
      · simp only [ha, if_false] at e
        exact ⟨init_stays (hk.rinit e).1 ha hs, hph⟩
  case old i a =>
    obtain ⟨_, s0, s1, hi, hs, rfl⟩ := g2_old h
    refine ⟨hgi, ?_, hk.join, hk.reset, hk.rinit⟩
    intro q hq
    rcases mem_set_of hq with rfl | hq
    · exact (silent_step (hk.old s0 (mem_of_getElem? hi)) hs).1
    · exact hk.old q hq
  case rInitEnter =>
    obtain ⟨hph, hi, _, rfl⟩ := g2_rInitEnter h
    exact ⟨hgi, hk.old, hk.join, hk.reset, fun _ => ⟨hi, hph⟩⟩
  case joinOk t =>
    obtain ⟨ph', hj, hc, rfl⟩ := g2_joinOk h
    refine ⟨hgi, hk.old, ?_, ?_, ?_⟩
    · intro _
      cases hp : x.ph with
      | run =>
        simp [joinTarget, hp, hc] at hj
        exact ⟨Or.inl hj.2.1, hc⟩
      | joinS => exact hk.join (by simp [hp, Ph.joining])
      | joinW k => exact hk.join (by simp [hp, Ph.joining])
      | reset => simp [joinTarget, hp] at hj
    · intro e
      simp only at e
      subst e
      cases hp : x.ph <;> simp [joinTarget, hp] at hj
      · split at hj <;> simp at hj
      · split at hj <;> simp at hj
    · intro e
      have := (hk.rinit e).1
      have hcb := hk.ginv
      exact absurd hc (by
        intro hcl
        sorry)
  all_goals sorry

end TDV.PM
