import TorchDataVerif.Proofs.PMGen2Inv
/-! `Gen2`: the invariant behind `single_driver_partial` — as long as every give-up of the reader's join is harmless,
the readers of all abandoned generations (and of the one being shut down, once its join is over) are `Silent`. -/
namespace TDV.PM
variable {c : Cfg} {x y : G2State}

/-- Every give-up of the reader's timed join happens when the reader is already past its last `next(source)`. -/
def harmless (c : Cfg) : G2State → List G2Action → Prop
  | _, [] => True
  | x, a :: as =>
    (a = .joinGiveUp .reader → x.g.cur.rpc.pastSource = true) ∧
    match g2step c x a with
    | some x' => harmless c x' as
    | none => True

def Ph.joining : Ph → Bool
  | .joinS | .joinW _ => true
  | _ => false

structure K (c : Cfg) (x : G2State) : Prop where
  ginv : GInv c x.g
  old : ∀ s ∈ x.g.old, Silent s
  join : x.ph.joining = true → Silent x.g.cur ∧ x.g.cur.cpc = .closed
  reset : x.ph = .reset → x.g.cur.rpc = .init
  rinit : x.rinit = true → x.g.cur.rpc = .init ∧ x.ph ≠ .reset

theorem k_init (c : Cfg) : K c (g2init c) :=
  ⟨ginv_init c, by simp [g2init, ginit], by simp [g2init, Ph.joining], by simp [g2init, ginit, init], by simp [g2init]⟩

end TDV.PM
