import TorchDataVerif.Proofs.PMGen2Inv
/-! `Gen2`: the invariant behind `single_driver_partial` — as long as every give-up of the reader's join is harmless,
the readers of all abandoned generations (and of the one being shut down, once its join is over) are `Silent`. -/
namespace TDV.PM
variable {c : Cfg} {x y : G2State}

/-- Every give-up of the reader's timed join happens when the reader is already past its last `next(source)`. -/
def harmless (c : Cfg) : G2State → List G2Action → Prop
  | _, [] => True
  | x, a :: as =>
    (a = .joinGiveUp .reader → x.g.cur.rpc.pastSource = true) ∧
    match g2step c x a with
    | some x' => harmless c x' as
    | none => True

def harmlessDec (c : Cfg) : ∀ (x : G2State) (tr : List G2Action), Decidable (harmless c x tr)
  | _, [] => isTrue trivial
  | x, a :: as =>
    match h : g2step c x a with
    | some x' =>
      have := harmlessDec c x' as
      decidable_of_iff ((a = .joinGiveUp .reader → x.g.cur.rpc.pastSource = true) ∧ harmless c x' as)
        (by simp [harmless, h])
    | none =>
      decidable_of_iff (a = .joinGiveUp .reader → x.g.cur.rpc.pastSource = true) (by simp [harmless, h])

instance (c : Cfg) (x : G2State) (tr : List G2Action) : Decidable (harmless c x tr) := harmlessDec c x tr

def Ph.joining : Ph → Bool
  | .joinS | .joinW _ => true
  | _ => false

structure K (c : Cfg) (x : G2State) : Prop where
  ginv : GInv c x.g
  old : ∀ s ∈ x.g.old, Silent s
  join : x.ph.joining = true → Silent x.g.cur ∧ x.g.cur.cpc = .closed
  reset : x.ph = .reset → x.g.cur.rpc = .init
  rinit : x.rinit = true → x.g.cur.rpc = .init ∧ x.ph ≠ .reset

theorem k_init (c : Cfg) : K c (g2init c) :=
  ⟨ginv_init c, by simp [g2init, ginit], by simp [g2init, Ph.joining], by simp [g2init, ginit, init], by simp [g2init]⟩

theorem joinTarget_next {s : State} {ph ph' : Ph} {t : Thr} {b : Bool} (h : joinTarget s ph = some (t, b, ph')) :
    ph'.joining = true ∧ ph' ≠ .reset := by
  cases ph <;> simp only [joinTarget] at h
  case run => split at h <;> simp at h; obtain ⟨_, _, rfl⟩ := h; simp [Ph.joining]
  case joinS => simp at h; obtain ⟨_, _, rfl⟩ := h; simp [Ph.joining]
  case joinW k =>
    split at h <;> simp at h
    obtain ⟨_, _, rfl⟩ := h; simp [Ph.joining]
  case reset => simp at h

theorem k_step {a : G2Action} (hk : K c x) (hh : a = .joinGiveUp .reader → x.g.cur.rpc.pastSource = true)
    (h : g2step c x a = some y) : K c y := by
  have hgi := g2_ginv hk.ginv h
  cases a
  case cur a =>
    obtain ⟨hph, hri, s1, hs, rfl⟩ := g2_cur h
    refine ⟨hgi, hk.old, ?_, ?_, ?_⟩
    · intro hj
      obtain ⟨h1, h2⟩ := hk.join hj
      exact ⟨(silent_step h1 hs).1, (closed_stays h2 hs).1⟩
    · intro e; exact absurd e hph
    · intro e
      by_cases ha : a = .rInit
      · simp [ha] at e
      · simp only [ha, if_false] at e
        exact ⟨init_stays (hk.rinit e).1 ha hs, hph⟩
  case old i a =>
    obtain ⟨_, s0, s1, hi, hs, rfl⟩ := g2_old h
    refine ⟨hgi, ?_, hk.join, hk.reset, hk.rinit⟩
    intro q hq
    rcases mem_set_of hq with rfl | hq
    · exact (silent_step (hk.old s0 (mem_of_getElem? hi)) hs).1
    · exact hk.old q hq
  case rInitEnter =>
    obtain ⟨hph, hi, _, rfl⟩ := g2_rInitEnter h
    exact ⟨hgi, hk.old, hk.join, hk.reset, fun _ => ⟨hi, hph⟩⟩
  case joinOk t =>
    obtain ⟨ph', hj, hc, rfl⟩ := g2_joinOk h
    obtain ⟨hj1, hj2⟩ := joinTarget_next hj
    refine ⟨hgi, hk.old, ?_, ?_, ?_⟩
    · intro _
      cases hp : x.ph with
      | run =>
        simp [joinTarget, hp, hc] at hj
        exact ⟨Or.inl hj.2.1, hc⟩
      | joinS => exact hk.join (by simp [hp, Ph.joining])
      | joinW k => exact hk.join (by simp [hp, Ph.joining])
      | reset => simp [joinTarget, hp] at hj
    · intro e; exact absurd e hj2
    · intro e; exact ⟨(hk.rinit e).1, hj2⟩
  case joinGiveUp t =>
    obtain ⟨ph', hj, hc, rfl⟩ := g2_joinGiveUp h
    obtain ⟨hj1, hj2⟩ := joinTarget_next hj
    refine ⟨hgi, hk.old, ?_, ?_, ?_⟩
    · intro _
      cases hp : x.ph with
      | run =>
        simp [joinTarget, hp, hc] at hj
        have hst := (hk.ginv.curMp hc).1
        exact ⟨Or.inr ⟨hst, hh (by rw [hj.1])⟩, hc⟩
      | joinS => exact hk.join (by simp [hp, Ph.joining])
      | joinW k => exact hk.join (by simp [hp, Ph.joining])
      | reset => simp [joinTarget, hp] at hj
    · intro e; exact absurd e hj2
    · intro e; exact ⟨(hk.rinit e).1, hj2⟩
  case ctorEnter =>
    obtain ⟨k, hp, _, hc, rfl⟩ := g2_ctorEnter h
    refine ⟨hgi, ?_, by simp [Ph.joining], by simp [init], by simp⟩
    intro q hq
    simp at hq
    rcases hq with rfl | hq
    · exact (hk.join (by simp [hp, Ph.joining])).1
    · exact hk.old q hq
  case ctorLeave =>
    obtain ⟨hp, rfl⟩ := g2_ctorLeave h
    refine ⟨hgi, hk.old, by simp [Ph.joining], by simp, ?_⟩
    intro e
    exact ⟨(hk.rinit e).1, by simp⟩

theorem k_run : ∀ (tr : List G2Action) {x y : G2State}, K c x → harmless c x tr → g2run c x tr = some y → K c y
  | [], x, y, hk, _, hr => by simp [g2run] at hr; subst hr; exact hk
  | a :: tr, x, y, hk, hh, hr => by
    simp only [g2run] at hr
    simp only [harmless] at hh
    cases hs : g2step c x a with
    | none => simp [hs] at hr
    | some x1 =>
      simp only [hs] at hr hh
      exact k_run tr (k_step hk hh.1 hs) hh.2 hr

/-- no give-up of the reader's join at all is the special case used by `single_driver_partial` -/
theorem harmless_of_no_giveup : ∀ (tr : List G2Action) (x : G2State), (∀ a ∈ tr, a ≠ .joinGiveUp .reader) → harmless c x tr
  | [], _, _ => trivial
  | a :: tr, x, hn => by
    simp only [harmless]
    refine ⟨fun e => absurd e (hn a (by simp)), ?_⟩
    cases g2step c x a with
    | none => trivial
    | some x1 => exact harmless_of_no_giveup tr x1 (fun b hb => hn b (by simp [hb]))

theorem silent_not_insrc {s : State} (h : Silent s) : readerInSource s = false := by
  rcases h with h | ⟨_, h⟩
  · simp [readerInSource, h]
  · cases hr : s.rpc <;> simp [hr, RPc.pastSource] at h <;> simp [readerInSource, hr]

theorem k_count (hk : K c x) : driversInSource x ≤ 1 := by
  have hold : (x.g.old.filter readerInSource).length = 0 := by
    rw [List.length_eq_zero_iff, List.filter_eq_nil_iff]
    intro s hs
    simp [silent_not_insrc (hk.old s hs)]
  unfold driversInSource readersInSource
  rw [hold]
  by_cases hri : x.rinit = true
  · obtain ⟨h1, h2⟩ := hk.rinit hri
    simp [readerInSource, h1, h2, hri]
  · by_cases hp : x.ph = .reset
    · have h1 := hk.reset hp
      simp [readerInSource, h1, hp, hri]
    · simp [hp, hri]
      split <;> omega

end TDV.PM
