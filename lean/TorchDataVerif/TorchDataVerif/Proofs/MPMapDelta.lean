import TorchDataVerif.Proofs.MPMapLive
import TorchDataVerif.Proofs.MPIterB
import TorchDataVerif.Proofs.MPStep
/-!
# MP, map-style, in-order: worker state deltas are applied exactly when their batch is consumed

Worker `w` handles its tasks `w, w + W, w + 2W, …` in order, so the state delta attached to the result of
task `idx` is a function of `idx` alone (`stOf`), and the accumulated worker snapshots after `rcvd_idx`
tasks have been consumed are a function of `rcvd_idx` alone (`wsAfter`) — whatever the workers have
prefetched.
-/
namespace TDV.MP

/-- `snapshot` flag of task `idx` (map-style: `((y − 1) % interval) + W ≥ interval` with `y = idx + 1`). -/
def flag2 (c : Cfg) (idx : Nat) : Bool := (flags c (idx + 1) 0).2

/-- The state delta attached to the result of task `idx`. -/
def stOf (c : Cfg) (idx : Nat) : Option WSt :=
  match c.batches[idx]? with
  | some (.ok _) => if flag2 c idx then some ⟨idx / c.W + 1, false⟩ else none
  | _ => none

/-- Accumulated worker snapshots after the first `t` tasks have been consumed. -/
def wsAfter (c : Cfg) : Nat → List WSt
  | 0 => List.replicate c.W ⟨0, false⟩
  | t + 1 => applyDelta (wsAfter c t) (t % c.W) (stOf c t)

theorem flags_map_snd (c : Cfg) (hm : c.iterable = false) (i ny : Nat) : (flags c (i + 1) ny).2 = flag2 c i := by
  unfold flag2 flags
  by_cases h0 : c.interval = 0
  · simp [h0]
  · simp [h0, hm]

/-- Tasks `w + W·j, w + W·(j+1), …`. -/
def MQ (c : Cfg) (w : Nat) : Nat → List Nat → Prop
  | _, [] => True
  | j, i :: r => i = w + c.W * j ∧ MQ c w (j + 1) r

theorem MQ_snoc (c : Cfg) (w j : Nat) (l : List Nat) (i : Nat) (h : MQ c w j l) (hi : i = w + c.W * (j + l.length)) :
    MQ c w j (l ++ [i]) := by
  induction l generalizing j with
  | nil => exact ⟨by simpa using hi, trivial⟩
  | cons x r ih =>
    exact ⟨h.1, ih _ h.2 (by simp at hi; rw [hi]; congr 2; omega)⟩

def FlagMsg (c : Cfg) : Msg → Prop
  | .task idx _ sn => sn = flag2 c idx
  | _ => True

structure PosM (c : Cfg) (s : State) : Prop where
  wk : ∀ (w : Nat) (k : Worker), s.workers[w]? = some k →
    MQ c w k.pos (taskIdxs k.q) ∧ s.sendIdx ≤ w + c.W * (k.pos + (taskIdxs k.q).length) ∧
    w + c.W * (k.pos + (taskIdxs k.q).length) < s.sendIdx + c.W ∧ (∀ m ∈ k.q, FlagMsg c m) ∧
    k.iterEnd = false
  rq : ∀ r ∈ s.resQ, r.st = stOf c r.idx
  inf : ∀ e ∈ s.info, ∀ r, e.res = some r → r.st = stOf c r.idx

theorem eq_of_mod_eq (W a b : Nat) (hW : 0 < W) (h1 : a ≤ b) (h2 : b < a + W) (h3 : b % W = a % W) : b = a := by
  obtain ⟨d, rfl⟩ : ∃ d, b = a + d := ⟨b - a, by omega⟩
  have hd : d < W := by omega
  have e1 := Nat.div_add_mod a W
  have hr := Nat.mod_lt a hW
  rw [Nat.add_mod] at h3
  have hdm : d % W = d := Nat.mod_eq_of_lt hd
  rw [hdm] at h3
  by_cases hlt : a % W + d < W
  · rw [Nat.mod_eq_of_lt hlt] at h3; omega
  · have : (a % W + d) % W = a % W + d - W := by
      rw [Nat.mod_eq_sub_mod (by omega), Nat.mod_eq_of_lt (by omega)]
    rw [this] at h3; omega

theorem add_mul_mod (W w j : Nat) (hw : w < W) : (w + W * j) % W = w := by
  rw [Nat.add_mul_mod_self_left, Nat.mod_eq_of_lt hw]

theorem add_mul_div (W w j : Nat) (hw : w < W) : (w + W * j) / W = j := by
  rw [Nat.add_mul_div_left _ _ (by omega), Nat.div_eq_of_lt hw, Nat.zero_add]

theorem tryPut_pos (c : Cfg) (s : State) (hv : c.Valid) (hm : c.iterable = false) (hio : c.inOrder = true)
    (h : MidM c s) (hp : PosM c s) : PosM c (tryPut c s) := by
  by_cases hlt : s.sendIdx < c.batches.length
  · rw [tryPut_map_lt c s hv hm hio h.status h.sp h.cyc hlt]
    have hW := hv.1
    have hw0 : s.sendIdx % c.W < c.W := Nat.mod_lt _ hW
    refine ⟨?_, ?_, ?_⟩
    · intro w k hk
      simp only [dispatchTo] at hk ⊢
      obtain ⟨k0, hk0, e1, e2, _, e4⟩ := pushMsg_get _ _ _ _ _ hk
      obtain ⟨q1, q2, q3, q4, q5⟩ := hp.wk w k0 hk0
      have hwW : w < c.W := by rw [← h.wlen]; exact (List.getElem?_eq_some_iff.mp hk0).1
      have hXm : (w + c.W * (k0.pos + (taskIdxs k0.q).length)) % c.W = w := add_mul_mod _ _ _ hwW
      by_cases hw : s.sendIdx % c.W = w
      · simp only [hw, if_true] at e4
        have hX : w + c.W * (k0.pos + (taskIdxs k0.q).length) = s.sendIdx :=
          eq_of_mod_eq c.W _ _ hW q2 q3 (by rw [hXm, hw])
        rw [e4, taskIdxs_append, e1, e2]
        simp only [taskIdxs, List.length_append, List.length_singleton]
        refine ⟨MQ_snoc c w _ _ _ q1 hX.symm, ?_, ?_, ?_, q5⟩
        · rw [show k0.pos + ((taskIdxs k0.q).length + 1) = (k0.pos + (taskIdxs k0.q).length) + 1 by omega,
            Nat.mul_succ]; omega
        · rw [show k0.pos + ((taskIdxs k0.q).length + 1) = (k0.pos + (taskIdxs k0.q).length) + 1 by omega,
            Nat.mul_succ]; omega
        · intro m hm'
          rw [List.mem_append, List.mem_singleton] at hm'
          rcases hm' with hm' | hm'
          · exact q4 m hm'
          · subst hm'
            simp only [FlagMsg, h.sp]
            exact flags_map_snd c hm _ _
      · simp only [hw, if_false] at e4
        rw [e4, e1, e2]
        refine ⟨q1, ?_, by omega, q4, q5⟩
        have hne : w + c.W * (k0.pos + (taskIdxs k0.q).length) ≠ s.sendIdx := by
          intro heq; rw [heq] at hXm; exact hw hXm
        omega
    · simpa [dispatchTo] using hp.rq
    · intro e he r hr
      simp only [dispatchTo, List.mem_append, List.mem_singleton] at he
      rcases he with he | he
      · exact hp.inf e he r hr
      · subst he; cases hr
  · rw [tryPut_map_ge c s hm h.sp (by omega)]
    exact ⟨hp.wk, hp.rq, hp.inf⟩

theorem yieldItem_wsnaps (c : Cfg) (s : State) (r : Res) (b : Nat) (hio : c.inOrder = true) :
    (yieldItem c s r b).1.wsnaps = applyDelta s.wsnaps r.w r.st := by
  unfold yieldItem
  dsimp only
  have hd := snapshotDue_eq c { s with lastW := r.w, wsnaps := applyDelta s.wsnaps r.w r.st }
  generalize snapshotDue c { s with lastW := r.w, wsnaps := applyDelta s.wsnaps r.w r.st } = d at hd
  split
  · rfl
  · split
    · rcases takeSnapshot_cases c d.1 hio with ht | ⟨e, rest, ht⟩
      · rw [ht]; simp only; rw [hd]
      · rw [ht]; simp only; rw [hd]
    · simp only; rw [hd]

theorem stOf_err (c : Cfg) (idx : Nat) (h : c.batches[idx]? = some .err) : stOf c idx = none := by
  simp [stOf, h]

/-- Pop + process of task `rcvd_idx` applies exactly `stOf rcvd_idx` to the snapshot of its owner. -/
theorem popProc_delta (c : Cfg) (s : State) (e : Info) (l : List Info) (r : Res) (hv : c.Valid)
    (hm : c.iterable = false) (hio : c.inOrder = true) (hmid : MidM c s) (hp : PosM c s)
    (hws : s.wsnaps = wsAfter c s.rcvdIdx) (hi : s.info = e :: l) (hg : GoodRes c r) (hri : r.idx = s.rcvdIdx)
    (hst : r.st = stOf c r.idx) :
    PosM c (popProc c s l r) ∧ (popProc c s l r).wsnaps = wsAfter c (popProc c s l r).rcvdIdx := by
  have hinfo := hmid.info
  rw [hi] at hinfo
  have hlen := hmid.len
  rw [hi] at hlen
  simp only [List.length_cons] at hlen
  have h1 : MidM c { s with info := l, rcvdIdx := s.rcvdIdx + 1, numTasks := s.numTasks.modify r.w (· - 1) } := by
    refine ⟨hmid.status, hmid.sp, hmid.le, hmid.cyc, ?_, hinfo.2.2.2, hmid.wlen, hmid.msgs, hmid.resq⟩
    simp only; omega
  have hp1 : PosM c { s with info := l, rcvdIdx := s.rcvdIdx + 1, numTasks := s.numTasks.modify r.w (· - 1) } :=
    ⟨hp.wk, hp.rq, fun e' he' => hp.inf e' (by rw [hi]; exact List.mem_cons_of_mem _ he')⟩
  have hp2 := tryPut_pos c _ hv hm hio h1 hp1
  have hc := tryPut_sameCore c { s with info := l, rcvdIdx := s.rcvdIdx + 1, numTasks := s.numTasks.modify r.w (· - 1) }
  have hproc : processData c { s with info := l, rcvdIdx := s.rcvdIdx + 1 } r =
      (match r.kind with
       | .data b => yieldItem c (tryPut c { s with info := l, rcvdIdx := s.rcvdIdx + 1, numTasks := s.numTasks.modify r.w (· - 1) }) r b
       | _ => (tryPut c { s with info := l, rcvdIdx := s.rcvdIdx + 1, numTasks := s.numTasks.modify r.w (· - 1) }, .error)) := by
    unfold processData; rfl
  generalize tryPut c { s with info := l, rcvdIdx := s.rcvdIdx + 1, numTasks := s.numTasks.modify r.w (· - 1) } = s2
    at hp2 hc hproc
  have hr2 : s2.rcvdIdx = s.rcvdIdx + 1 := hc.rcvdIdx
  have hw2 : s2.wsnaps = s.wsnaps := hc.wsnaps
  have hnext : wsAfter c (s.rcvdIdx + 1) = applyDelta (wsAfter c s.rcvdIdx) r.w r.st := by
    rw [wsAfter, hst, hri, hg.1, hri]
  unfold popProc
  rw [hproc]
  obtain ⟨it, hit, hk⟩ := hg.2
  cases it with
  | ok b =>
    simp only [kindOf] at hk
    simp only [hk]
    have hp3 := yieldItem_sameProto c s2 r b
    have hw3 := yieldItem_wsnaps c s2 r b hio
    generalize yieldItem c s2 r b = y at hp3 hw3
    obtain ⟨s3, o⟩ := y
    simp only at hp3 hw3
    simp only [finish]
    refine ⟨⟨?_, ?_, ?_⟩, ?_⟩
    · simp only [hp3.workers, hp3.sendIdx]; exact hp2.wk
    · simp only [hp3.resQ]; exact hp2.rq
    · simp only [hp3.info]; exact hp2.inf
    · simp only [hw3, hp3.rcvdIdx, hr2, hw2, hws, hnext]
  | err =>
    simp only [kindOf] at hk
    simp only [hk, finish]
    refine ⟨⟨hp2.wk, hp2.rq, hp2.inf⟩, ?_⟩
    have : r.st = none := by rw [hst, hri]; rw [hri] at hit; exact stOf_err c _ hit
    simp only [hr2, hw2, hws, hnext, this, applyDelta]

structure DeltaM (c : Cfg) (s : State) : Prop where
  pos : s.shutdown = false → PosM c s
  ws : s.wsnaps = wsAfter c s.rcvdIdx

theorem PosM_of_eq (c : Cfg) (s s' : State) (h : PosM c s) (e1 : s'.workers = s.workers) (e2 : s'.sendIdx = s.sendIdx)
    (e3 : s'.resQ = s.resQ) (e4 : s'.info = s.info) : PosM c s' :=
  ⟨by rw [e1, e2]; exact h.wk, by rw [e3]; exact h.rq, by rw [e4]; exact h.inf⟩

theorem loopCase_delta (c : Cfg) (s s' : State) (hv : c.Valid) (hm : c.iterable = false) (hio : c.inOrder = true)
    (hmid : MidM c s) (hp : PosM c s) (hws : s.wsnaps = wsAfter c s.rcvdIdx) (hl : LoopCase c s s') :
    DeltaM c s' := by
  cases hl with
  | stop hle heq =>
    subst heq
    simp only [finish]
    by_cases hpz : c.persistent = true
    · simp only [hpz, if_true]
      exact ⟨fun _ => PosM_of_eq c s _ hp rfl rfl rfl rfl, hws⟩
    · have hp' : c.persistent = false := by simpa using hpz
      simp only [hp', Bool.false_eq_true, if_false]
      have hsm := shutdownWorkers_sameMain c s
      exact ⟨fun hf => (by simp only [shutdownWorkers_shutdown] at hf; cases hf),
        (by simp only [hsm.wsnaps, hsm.rcvdIdx]; exact hws)⟩
  | wait e l hi hres heq =>
    subst heq
    exact ⟨fun _ => PosM_of_eq c s _ hp rfl rfl rfl rfl, hws⟩
  | proc e l r hi hres hg hri heq =>
    subst heq
    have hst := hp.inf e (by rw [hi]; exact List.mem_cons_self ..) r hres
    obtain ⟨a1, a2⟩ := popProc_delta c s e l r hv hm hio hmid hp hws hi hg hri hst
    exact ⟨fun _ => a1, a2⟩

theorem step_deltaM (c : Cfg) (s s' : State) (a : Action) (hv : c.Valid) (hm : c.iterable = false)
    (hio : c.inOrder = true) (ha : a ≠ .reset) (h : InvM c s) (hd : DeltaM c s)
    (hst : step c s a = some s') : DeltaM c s' ∨ died s' := by
  cases a with
  | reset => exact absurd rfl ha
  | work w =>
    left
    simp only [step] at hst
    split at hst
    · cases hst
    · rename_i k hk
      split at hst
      · cases hst
      · split at hst
        · cases hst
        · rename_i m rest hq
          cases hst
          refine ⟨fun hsd => ?_, hd.ws⟩
          simp only at hsd
          have hp := hd.pos hsd
          have hmid := h.mid hsd
          obtain ⟨q1, q2, q3, q4, q5⟩ := hp.wk w k hk
          have hwl : w < s.workers.length := (List.getElem?_eq_some_iff.mp hk).1
          have hwW : w < c.W := by rw [← hmid.wlen]; exact hwl
          have hgm := hmid.msgs w k hk m (by rw [hq]; exact List.mem_cons_self ..)
          rw [hsd]
          refine ⟨?_, ?_, hp.inf⟩
          · intro w' k' hk'
            simp only [List.getElem?_set] at hk'
            by_cases hw : w = w'
            · subst hw
              simp only [if_true, hwl] at hk'
              cases hk'
              rw [hq] at q1 q2 q3 q4
              cases m with
              | stop =>
                simp only [handle, taskIdxs] at q1 q2 q3 ⊢
                exact ⟨q1, q2, q3, fun m' hm' => q4 m' (List.mem_cons_of_mem _ hm'), q5⟩
              | resume => exact hgm.elim
              | task idx p sn =>
                simp only [taskIdxs, List.length_cons] at q1 q2 q3
                obtain ⟨hidx, hrest⟩ := q1
                obtain ⟨hpi, hlt, _⟩ := hgm
                have hlt' : p < c.batches.length := by have := hmid.le; omega
                simp only [handle, q5, Bool.or_false, Bool.false_eq_true, if_false, fetch, hm,
                  List.getD_eq_getElem?_getD, List.getElem?_eq_getElem hlt', Option.getD_some]
                have hrest' : ∀ m' ∈ rest, FlagMsg c m' := fun m' hm' => q4 m' (List.mem_cons_of_mem _ hm')
                cases hb : c.batches[p] with
                | ok b0 =>
                  simp only []
                  refine ⟨hrest, ?_, ?_, hrest', trivial⟩
                  · rw [show k.pos + 1 + (taskIdxs rest).length = k.pos + ((taskIdxs rest).length + 1) by omega]
                    exact q2
                  · rw [show k.pos + 1 + (taskIdxs rest).length = k.pos + ((taskIdxs rest).length + 1) by omega]
                    exact q3
                | err =>
                  simp only []
                  refine ⟨hrest, ?_, ?_, hrest', trivial⟩
                  · rw [show k.pos + 1 + (taskIdxs rest).length = k.pos + ((taskIdxs rest).length + 1) by omega]
                    exact q2
                  · rw [show k.pos + 1 + (taskIdxs rest).length = k.pos + ((taskIdxs rest).length + 1) by omega]
                    exact q3
            · simp only [hw, if_false] at hk'
              exact hp.wk w' k' hk'
          · intro r hr
            rw [hq] at q1 q4
            cases m with
            | stop => simp only [handle] at hr; exact hp.rq r hr
            | resume => exact hgm.elim
            | task idx p sn =>
              simp only [taskIdxs] at q1
              obtain ⟨hidx, _⟩ := q1
              obtain ⟨hpi, hlt, _⟩ := hgm
              have hlt' : p < c.batches.length := by have := hmid.le; omega
              have hsn : sn = flag2 c idx := q4 _ (List.mem_cons_self ..)
              simp only [handle, q5, Bool.or_false, Bool.false_eq_true, if_false, fetch, hm,
                List.getD_eq_getElem?_getD, List.getElem?_eq_getElem hlt', Option.getD_some] at hr
              have hdiv : idx / c.W = k.pos := by rw [hidx]; exact add_mul_div c.W w k.pos hwW
              subst hpi
              cases hb : c.batches[p] with
              | ok b0 =>
                simp only [hb, List.mem_append, List.mem_singleton] at hr
                rcases hr with hr | hr
                · exact hp.rq r hr
                · subst hr
                  simp only [stOf, List.getElem?_eq_getElem hlt', hb, hdiv, hsn]
              | err =>
                simp only [hb, List.mem_append, List.mem_singleton] at hr
                rcases hr with hr | hr
                · exact hp.rq r hr
                · subst hr
                  simp only [stOf, List.getElem?_eq_getElem hlt', hb]
  | kill w =>
    left
    simp only [step] at hst
    split at hst
    · cases hst
    · rename_i k hk
      split at hst
      · cases hst
      · cases hst
        refine ⟨fun hsd => ?_, hd.ws⟩
        have hp := hd.pos hsd
        have hwl : w < s.workers.length := (List.getElem?_eq_some_iff.mp hk).1
        refine ⟨?_, hp.rq, hp.inf⟩
        intro w' k' hk'
        simp only [List.getElem?_set] at hk'
        by_cases hw : w = w'
        · subst hw
          simp only [if_true, hwl] at hk'
          cases hk'
          exact hp.wk w k hk
        · simp only [hw, if_false] at hk'
          exact hp.wk w' k' hk'
  | stateDict =>
    left
    simp only [step] at hst
    split at hst
    · cases hst
    · cases hst
      exact ⟨fun hsd => PosM_of_eq c s _ (hd.pos hsd) rfl rfl rfl rfl, hd.ws⟩
  | pollTimeout =>
    simp only [step] at hst
    split at hst
    · cases hst
    · split at hst
      · cases hst; exact Or.inl hd
      · cases hst; right; simp [died]
  | next =>
    left
    rcases next_cases c s s' hv h hst with ⟨hsd, heq⟩ | ⟨hsd, hph, hl⟩
    · subst heq
      exact ⟨fun hf => (by simp only [hsd] at hf; cases hf), hd.ws⟩
    · exact loopCase_delta c s s' hv hm hio (h.mid hsd) (hd.pos hsd) hd.ws hl
  | recv =>
    left
    obtain ⟨r, rest, hsd, hph, hq, hg, hlt, hmid0, hr⟩ := recv_cases c s s' hv hm hio h hst
    have hp := hd.pos hsd
    have hst' : r.st = stOf c r.idx := hp.rq r (by rw [hq]; exact List.mem_cons_self ..)
    have hp0 : PosM c { s with resQ := rest } :=
      ⟨hp.wk, fun r' hr' => hp.rq r' (by rw [hq]; exact List.mem_cons_of_mem _ hr'), hp.inf⟩
    cases hr with
    | now e l hi hri heq =>
      subst heq
      have hmid1 : MidM c { s with resQ := rest, outstanding := s.outstanding - 1 } :=
        MidM_of_eq c _ _ hmid0 rfl rfl rfl rfl rfl rfl rfl rfl
      obtain ⟨a1, a2⟩ := popProc_delta c { s with resQ := rest, outstanding := s.outstanding - 1 } e l r hv hm hio hmid1
        (PosM_of_eq c _ _ hp0 rfl rfl rfl rfl) hd.ws hi hg hri hst'
      exact ⟨fun _ => a1, a2⟩
    | store hne hmid2 hl =>
      refine loopCase_delta c _ s' hv hm hio hmid2 ⟨hp0.wk, hp0.rq, ?_⟩ hd.ws hl
      intro e he r' hr'
      simp only [setRes, List.mem_map] at he
      obtain ⟨e0, he0, heq⟩ := he
      by_cases hx : e0.idx = r.idx
      · simp [hx] at heq; subst heq
        simp only [Option.some.injEq] at hr'
        subst hr'; exact hst'
      · have : (e0.idx == r.idx) = false := by simp [hx]
        simp only [this] at heq
        subst heq
        exact hp.inf e0 he0 r' hr'

theorem prime_pos (c : Cfg) (n : Nat) (s : State) (hv : c.Valid) (hm : c.iterable = false) (hio : c.inOrder = true)
    (h : MidM c s) (hp : PosM c s) : PosM c (prime c n s) := by
  induction n generalizing s with
  | zero => exact hp
  | succ n ih =>
    unfold prime
    exact ih _ (MidM_tryPut c s hv hm hio h).1 (tryPut_pos c s hv hm hio h hp)

theorem init_deltaM (c : Cfg) (hv : c.Valid) (hm : c.iterable = false) (hio : c.inOrder = true) :
    DeltaM c (init c) := by
  unfold init resetTail
  generalize hs0 : ({ resetHead c _ with mainSnaps := [], lastW := c.W - 1, snap := _ } : State) = s0
  have hmid0 : MidM c s0 := by
    subst hs0
    refine ⟨rfl, rfl, Nat.zero_le _, by simp [resetHead], rfl, trivial, by simp [resetHead], ?_, ?_⟩
    · intro w k hk m hmem
      simp only [resetHead, List.getElem?_replicate] at hk
      split at hk
      · cases hk; simp at hmem
      · cases hk
    · intro r hr; simp [resetHead] at hr
  have hpos0 : PosM c s0 := by
    subst hs0
    refine ⟨?_, ?_, ?_⟩
    · intro w k hk
      simp only [resetHead, List.getElem?_replicate] at hk
      split at hk
      · rename_i hw
        cases hk
        simp only [taskIdxs, MQ, resetHead, List.length_nil, Nat.add_zero, Nat.mul_zero, Nat.zero_add]
        exact ⟨trivial, Nat.zero_le _, hw, fun m hm' => (by cases hm'), trivial⟩
      · cases hk
    · intro r hr; simp [resetHead] at hr
    · intro e he; simp [resetHead] at he
  have hc := prime_sameCore c (c.P * c.W) s0
  have e1 : s0.rcvdIdx = 0 := by subst hs0; rfl
  have e2 : s0.wsnaps = List.replicate c.W ⟨0, false⟩ := by subst hs0; rfl
  exact ⟨fun _ => prime_pos c _ s0 hv hm hio hmid0 hpos0, by rw [hc.wsnaps, hc.rcvdIdx, e1, e2]; rfl⟩

theorem run_deltaM (c : Cfg) (as : List Action) (s s' : State) (hv : c.Valid) (hm : c.iterable = false)
    (hio : c.inOrder = true) (hnr : NoReset as) (h : (InvM c s ∧ DeltaM c s) ∨ died s) (hr : run c s as = some s') :
    (InvM c s' ∧ DeltaM c s') ∨ died s' := by
  induction as generalizing s with
  | nil => simp only [run] at hr; cases hr; exact h
  | cons a as ih =>
    simp only [run] at hr
    split at hr
    · cases hr
    · rename_i s1 hs1
      refine ih s1 hnr.2 ?_ hr
      rcases h with ⟨h1, h2⟩ | h
      · rcases step_invM c s s1 a hv hm hio hnr.1 h1 hs1 with h3 | h3
        · rcases step_deltaM c s s1 a hv hm hio hnr.1 h1 h2 hs1 with h4 | h4
          · exact Or.inl ⟨h3, h4⟩
          · exact Or.inr h4
        · exact Or.inr h3
      · exact Or.inr (died_step c s s1 a hs1 h)

end TDV.MP
