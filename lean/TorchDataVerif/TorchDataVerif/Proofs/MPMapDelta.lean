import TorchDataVerif.Proofs.MPMapLive
/-!
# MP, map-style, in-order: worker state deltas are applied exactly when their batch is consumed

Worker `w` handles its tasks `w, w + W, w + 2W, …` in order, so the state delta attached to the result of
task `idx` is a function of `idx` alone (`stOf`), and the accumulated worker snapshots after `rcvd_idx`
tasks have been consumed are a function of `rcvd_idx` alone (`wsAfter`) — whatever the workers have
prefetched.
-/
namespace TDV.MP

/-- `snapshot` flag of task `idx` (map-style: `((y − 1) % interval) + W ≥ interval` with `y = idx + 1`). -/
def flag2 (c : Cfg) (idx : Nat) : Bool := (flags c (idx + 1) 0).2

/-- The state delta attached to the result of task `idx`. -/
def stOf (c : Cfg) (idx : Nat) : Option WSt :=
  match c.batches[idx]? with
  | some (.ok _) => if flag2 c idx then some ⟨idx / c.W + 1, false⟩ else none
  | _ => none

/-- Accumulated worker snapshots after the first `t` tasks have been consumed. -/
def wsAfter (c : Cfg) : Nat → List WSt
  | 0 => List.replicate c.W ⟨0, false⟩
  | t + 1 => applyDelta (wsAfter c t) (t % c.W) (stOf c t)

theorem flags_map_snd (c : Cfg) (hm : c.iterable = false) (i ny : Nat) : (flags c (i + 1) ny).2 = flag2 c i := by
  unfold flag2 flags
  by_cases h0 : c.interval = 0
  · simp [h0]
  · simp [h0, hm]

/-- Tasks `w + W·j, w + W·(j+1), …`. -/
def MQ (c : Cfg) (w : Nat) : Nat → List Nat → Prop
  | _, [] => True
  | j, i :: r => i = w + c.W * j ∧ MQ c w (j + 1) r

theorem MQ_snoc (c : Cfg) (w j : Nat) (l : List Nat) (i : Nat) (h : MQ c w j l) (hi : i = w + c.W * (j + l.length)) :
    MQ c w j (l ++ [i]) := by
  induction l generalizing j with
  | nil => exact ⟨by simpa using hi, trivial⟩
  | cons x r ih =>
    exact ⟨h.1, ih _ h.2 (by simp at hi; rw [hi]; congr 2; omega)⟩

def FlagMsg (c : Cfg) : Msg → Prop
  | .task idx _ sn => sn = flag2 c idx
  | _ => True

structure PosM (c : Cfg) (s : State) : Prop where
  wk : ∀ (w : Nat) (k : Worker), s.workers[w]? = some k →
    MQ c w k.pos (taskIdxs k.q) ∧ s.sendIdx ≤ w + c.W * (k.pos + (taskIdxs k.q).length) ∧
    w + c.W * (k.pos + (taskIdxs k.q).length) < s.sendIdx + c.W ∧ (∀ m ∈ k.q, FlagMsg c m)
  rq : ∀ r ∈ s.resQ, r.st = stOf c r.idx
  inf : ∀ e ∈ s.info, ∀ r, e.res = some r → r.st = stOf c r.idx

theorem eq_of_mod_eq (W a b : Nat) (hW : 0 < W) (h1 : a ≤ b) (h2 : b < a + W) (h3 : b % W = a % W) : b = a := by
  obtain ⟨d, rfl⟩ : ∃ d, b = a + d := ⟨b - a, by omega⟩
  have hd : d < W := by omega
  have e1 := Nat.div_add_mod a W
  have hr := Nat.mod_lt a hW
  rw [Nat.add_mod] at h3
  have hdm : d % W = d := Nat.mod_eq_of_lt hd
  rw [hdm] at h3
  by_cases hlt : a % W + d < W
  · rw [Nat.mod_eq_of_lt hlt] at h3; omega
  · have : (a % W + d) % W = a % W + d - W := by
      rw [Nat.mod_eq_sub_mod (by omega), Nat.mod_eq_of_lt (by omega)]
    rw [this] at h3; omega

theorem add_mul_mod (W w j : Nat) (hw : w < W) : (w + W * j) % W = w := by
  rw [Nat.add_mul_mod_self_left, Nat.mod_eq_of_lt hw]

theorem add_mul_div (W w j : Nat) (hw : w < W) : (w + W * j) / W = j := by
  rw [Nat.add_mul_div_left _ _ (by omega), Nat.div_eq_of_lt hw, Nat.zero_add]

end TDV.MP
