import TorchDataVerif.Proofs.PMInvC1
/-! `Inv` is preserved by the consumer's data actions (get, release, pop_version). -/
namespace TDV.PM
variable {c : Cfg} {s s' : State}

theorem inv_cGet_io (h : Inv c s) (hio : c.inOrder = true) (hpc : s.cpc = .get) (m : Msg) (rest : List Msg)
    (hq : s.sq = m :: rest) (d : Bool) (st : Nat) (hd : d = (s.done || decide (m.pay = .stop)))
    (hst : st = s.steps + (if m.isItem then 1 else 0)) :
    Inv c { s with sq := rest, done := d, steps := st, cpc := .rel m } := by
  have hstop := stop_false_of h (by simp [hpc])
  have hmp := mpstop_false_of h hstop
  have hns := nstop_zero_of h hstop
  have hout : m.pay = outAt c m.idx := h.outSq m (by simp [hq])
  have hlt : m.idx < s.pulled := by
    have h1 := h.cnt m.idx
    simp only [cnt, hq, idxs_cons, List.count_cons, beq_self_eq_true, if_true] at h1
    split at h1 <;> omega
  have hple := h.pulledLe
  constructor <;> (try (dsimp only; same h))
  case stopC => simp [hstop]
  case mpStop => simp [hmp]
  case offEmpty => simp [hio]
  case cnt =>
    intro k
    have h1 := h.cnt k
    simp only [cnt, hpc, hq, CPc.hand, idxs_cons, List.count_cons, optCount_none, optCount_some, beq_iff_eq] at h1 ⊢
    omega
  case permits =>
    have h1 := h.permits
    simp only [held, pending, hpc, hq, CPc.permit, List.length_cons] at h1 ⊢
    omega
  case outSq => intro x hx; exact h.outSq x (by simp [hq, hx])
  case outC => intro x hx; simp at hx; subst hx; exact hout
  case popItem => simp
  case order => 
    intro _
    have := h.order hio
    simp only [hpc, hq, CPc.hand, idxs_cons] at this ⊢
    simpa using this
  case doneI =>
    intro hdt
    rw [hd] at hdt
    simp only [Bool.or_eq_true, decide_eq_true_eq] at hdt
    rcases hdt with hdt | hdt
    · have := h.doneI hdt
      simp only [hpc, CPc.hand] at this
      refine ⟨this.1, ?_⟩
      rcases this.2 with h2 | h2
      · exact Or.inl h2
      · simp at h2
    · rw [hdt] at hout
      have := outAt_stop.mp hout.symm
      refine ⟨this.2, Or.inr ?_⟩
      simp only [CPc.hand]
      congr 1
      omega
  case doneC =>
    intro ht hh
    rw [hd]
    simp only [Bool.or_eq_true, decide_eq_true_eq]
    rcases hh with hh | hh
    · exact Or.inl (h.doneC ht (Or.inl hh))
    · right
      simp only [CPc.hand, Option.some.injEq] at hh
      rw [hout, hh]
      exact outAt_stop.mpr ⟨Nat.le_refl _, ht⟩
  case fin => simp [hstop, hns]
  case getNotFin => simp
  case closed =>
    intro h1 h2 _
    have := h.closed h1 h2 (by simp [hpc])
    simp only [hpc, CPc.bump] at this ⊢
    refine ⟨this.1, ?_⟩
    rw [hst, this.2]
    omega
  case stopOf => simp
  case bootI => simp
  case deadSeen => simp

theorem inv_cGet_un (h : Inv c s) (hio : c.inOrder = false) (hpc : s.cpc = .get) (m : Msg) (rest : List Msg)
    (hq : s.mid = m :: rest) (d : Bool) (st : Nat) (hd : d = (s.done || decide (m.pay = .stop)))
    (hst : st = s.steps + (if m.isItem then 1 else 0)) :
    Inv c { s with mid := rest, done := d, steps := st, cpc := .rel m } := by
  have hstop := stop_false_of h (by simp [hpc])
  have hmp := mpstop_false_of h hstop
  have hns := nstop_zero_of h hstop
  have hout : m.pay = outAt c m.idx := h.outMid m (by simp [hq])
  have hlt : m.idx < s.pulled := by
    have h1 := h.cnt m.idx
    simp only [cnt, hq, idxs_cons, List.count_cons, beq_self_eq_true, if_true] at h1
    split at h1 <;> omega
  have hple := h.pulledLe
  constructor <;> (try (dsimp only; same h))
  case stopC => simp [hstop]
  case mpStop => simp [hmp]
  case cnt =>
    intro k
    have h1 := h.cnt k
    simp only [cnt, hpc, hq, CPc.hand, idxs_cons, List.count_cons, optCount_none, optCount_some, beq_iff_eq] at h1 ⊢
    omega
  case permits =>
    have h1 := h.permits
    simp only [held, pending, hpc, hq, CPc.permit, List.length_cons] at h1 ⊢
    omega
  case outMid => intro x hx; exact h.outMid x (by simp [hq, hx])
  case outC => intro x hx; simp at hx; subst hx; exact hout
  case popItem => simp
  case order => intro hh; simp [hio] at hh
  case doneI =>
    intro hdt
    rw [hd] at hdt
    simp only [Bool.or_eq_true, decide_eq_true_eq] at hdt
    rcases hdt with hdt | hdt
    · have := h.doneI hdt
      simp only [hpc, CPc.hand] at this
      refine ⟨this.1, ?_⟩
      rcases this.2 with h2 | h2
      · exact Or.inl h2
      · simp at h2
    · rw [hdt] at hout
      have := outAt_stop.mp hout.symm
      refine ⟨this.2, Or.inr ?_⟩
      simp only [CPc.hand]
      congr 1
      omega
  case doneC =>
    intro ht hh
    rw [hd]
    simp only [Bool.or_eq_true, decide_eq_true_eq]
    rcases hh with hh | hh
    · exact Or.inl (h.doneC ht (Or.inl hh))
    · right
      simp only [CPc.hand, Option.some.injEq] at hh
      rw [hout, hh]
      exact outAt_stop.mpr ⟨Nat.le_refl _, ht⟩
  case fin => simp [hstop, hns]
  case getNotFin => simp
  case closed =>
    intro h1 h2 _
    have := h.closed h1 h2 (by simp [hpc])
    simp only [hpc, CPc.bump] at this ⊢
    refine ⟨this.1, ?_⟩
    rw [hst, this.2]
    omega
  case stopOf => simp
  case bootI => simp
  case deadSeen => simp

theorem chand_lt (h : Inv c s) {i : Nat} (hc : s.cpc.hand = some i) : i < s.pulled := by
  have h1 := h.cnt i
  have h2 := cnt_ge_chand hc
  split at h1 <;> omega

theorem outVal_of_stop {i : Nat} (hp : outAt c i = .stop) : outVal c i = none := by
  unfold outVal; rw [hp]

theorem outVal_of_err {i : Nat} (hp : outAt c i = .err) : outVal c i = none := by
  unfold outVal; rw [hp]

theorem outVal_of_item {i y : Nat} (hp : outAt c i = .item y) : outVal c i = some y := by
  unfold outVal; rw [hp]

theorem inv_cRel_stop (h : Inv c s) (m : Msg) (hpc : s.cpc = .rel m) (hsem : s.sem < c.max) (hp : m.pay = .stop) :
    Inv c { s with sem := s.sem + 1, got := s.got ++ [m.idx], cpc := .top } := by
  have hstop := stop_false_of h (by simp [hpc])
  have hmp := mpstop_false_of h hstop
  have hns := nstop_zero_of h hstop
  have hout : m.pay = outAt c m.idx := h.outC m (Or.inl hpc)
  have hlt := chand_lt h (i := m.idx) (by simp [hpc, CPc.hand])
  have hple := h.pulledLe
  have hfacts := outAt_stop.mp (hout ▸ hp : outAt c m.idx = .stop)
  have hidx : m.idx = c.src.length := by omega
  have hval : outVal c m.idx = none := outVal_of_stop (hout ▸ hp)
  constructor <;> (try (dsimp only; same h))
  case stopC => simp [hstop]
  case mpStop => simp [hmp]
  case cnt =>
    intro k
    have h1 := h.cnt k
    simp only [cnt, hpc, CPc.hand, List.count_append, List.count_cons, List.count_nil, optCount_none, optCount_some,
      beq_iff_eq] at h1 ⊢
    omega
  case permits =>
    have h1 := h.permits
    simp only [held, pending, hpc, CPc.permit] at h1 ⊢
    omega
  case outC => simp
  case popItem => simp
  case outsEq => rw [List.filterMap_append, ← h.outsEq]; simp [hval]
  case order =>
    intro hio
    have := h.order hio
    simp only [hpc, CPc.hand] at this ⊢
    simpa using this
  case doneI =>
    intro hd
    refine ⟨hfacts.2, Or.inl ?_⟩
    simp [hidx]
  case doneC =>
    intro ht _
    exact h.doneC ht (Or.inr (by simp [hpc, CPc.hand, hidx]))
  case fin => simp [hstop, hns]
  case getNotFin => simp
  case storeComplete =>
    intro hio j hj1 hj2 hj3 hj4
    simp only [List.length_append, List.length_singleton] at hj1
    exact h.storeComplete hio j (by omega) hj2 hj3 hj4
  case lenEq =>
    have := h.lenEq
    simp only [List.length_append, List.length_singleton, List.count_append, hfacts.2, if_true, hidx] at this ⊢
    simp
    omega
  case closed =>
    intro h1 h2 _
    have := h.closed h1 h2 (by simp [hpc])
    simp only [hpc, CPc.bump, Msg.isItem, hp] at this ⊢
    exact this
  case stopOf => simp
  case bootI => simp
  case deadSeen => simp

theorem inv_cRel_err (h : Inv c s) (m : Msg) (hpc : s.cpc = .rel m) (hsem : s.sem < c.max) (hp : m.pay = .err) :
    Inv c { s with sem := s.sem + 1, got := s.got ++ [m.idx], errs := s.errs + 1, cpc := .idle } := by
  have hstop := stop_false_of h (by simp [hpc])
  have hmp := mpstop_false_of h hstop
  have hns := nstop_zero_of h hstop
  have hout : m.pay = outAt c m.idx := h.outC m (Or.inl hpc)
  have hval : outVal c m.idx = none := outVal_of_err (hout ▸ hp)
  have hne : c.term = .stop → m.idx ≠ c.src.length := by
    intro ht he
    have : outAt c m.idx = .stop := outAt_stop.mpr ⟨by omega, ht⟩
    rw [← hout, hp] at this
    simp at this
  constructor <;> (try (dsimp only; same h))
  case stopC => simp [hstop]
  case mpStop => simp [hmp]
  case cnt =>
    intro k
    have h1 := h.cnt k
    simp only [cnt, hpc, CPc.hand, List.count_append, List.count_cons, List.count_nil, optCount_none, optCount_some,
      beq_iff_eq] at h1 ⊢
    omega
  case permits =>
    have h1 := h.permits
    simp only [held, pending, hpc, CPc.permit] at h1 ⊢
    omega
  case outC => simp
  case popItem => simp
  case outsEq => rw [List.filterMap_append, ← h.outsEq]; simp [hval]
  case order =>
    intro hio
    have := h.order hio
    simp only [hpc, CPc.hand] at this ⊢
    simpa using this
  case doneI =>
    intro hd
    have := h.doneI hd
    refine ⟨this.1, Or.inl ?_⟩
    rcases this.2 with h2 | h2
    · simp [h2]
    · simp only [hpc, CPc.hand, Option.some.injEq] at h2
      exact absurd h2 (hne this.1)
  case doneC =>
    intro ht hh
    simp only [CPc.hand] at hh
    rcases hh with hh | hh
    · rcases List.mem_append.mp hh with h2 | h2
      · exact h.doneC ht (Or.inl h2)
      · simp at h2; exact absurd h2.symm (hne ht)
    · simp at hh
  case fin => simp [hstop, hns]
  case getNotFin => simp
  case storeComplete =>
    intro hio j hj1 hj2 hj3 hj4
    simp only [List.length_append, List.length_singleton] at hj1
    exact h.storeComplete hio j (by omega) hj2 hj3 hj4
  case lenEq =>
    have := h.lenEq
    simp only [List.length_append, List.length_singleton, List.count_append] at this ⊢
    by_cases ht : c.term = .stop
    · have := hne ht
      simp [ht, List.count_cons, this] at *
      omega
    · simp [ht] at *
      omega
  case closed => intro _ h2; simp at h2
  case stopOf => simp
  case bootI => simp
  case deadSeen => simp

theorem inv_cRel_item (h : Inv c s) (m : Msg) (hpc : s.cpc = .rel m) (hsem : s.sem < c.max) (y : Nat)
    (hp : m.pay = .item y) : Inv c { s with sem := s.sem + 1, cpc := .pop m } := by
  have hstop := stop_false_of h (by simp [hpc])
  have hmp := mpstop_false_of h hstop
  have hns := nstop_zero_of h hstop
  constructor <;> (try (dsimp only; same h))
  case stopC => simp [hstop]
  case mpStop => simp [hmp]
  case cnt => fr [hpc] h.cnt
  case permits =>
    have h1 := h.permits
    simp only [held, pending, hpc, CPc.permit] at h1 ⊢
    omega
  case outC => intro x hx; simp at hx; subst hx; exact h.outC _ (Or.inl hpc)
  case popItem => intro x hx; simp at hx; subst hx; simp [Msg.isItem, hp]
  case order => fr [hpc] h.order
  case doneI => fr [hpc] h.doneI
  case doneC => fr [hpc] h.doneC
  case fin => simp [hstop, hns]
  case getNotFin => simp
  case closed =>
    intro h1 h2 _
    have := h.closed h1 h2 (by simp [hpc])
    simp only [hpc, CPc.bump, Msg.isItem, hp] at this ⊢
    exact this
  case stopOf => simp
  case bootI => simp
  case deadSeen => simp

end TDV.PM
