import TorchDataVerif.Props.PF
import TorchDataVerif.Proofs.RefinePFSeq
/-!
# Refinement link, Prefetcher side: what the consumer of a `TDV.PF` run sees

An *event* is an action of the protocol (any reader action, any consumer micro-step, any timeout) or the consumer
operation `get_state()`, which reads `(_snapshot, _steps_since_snapshot)` and is only possible between two calls of
`next()` (`cpc = idle`: the consumer is one thread).  A call of `next()` is the action `cCall` followed by consumer
micro-steps; it *returns* with the micro-step `pfRet` names: `cPop` (the item), `cSet` (StopIteration, or the source's
error re-raised), `cIsSet` when the stop event is set (StopIteration).

`pfObs c s evs` = the state reached and the list of results of the consumer operations that returned, oldest first.
`pfObs_spec`: from every reachable state, under every interleaving, these are the closed form `spec`.
-/
namespace TDV.Refine
open TDV.PF

inductive Ev
  | act (a : Action)
  | getState
  deriving DecidableEq, Repr

def resOfPay : Pay → Res
  | .item v => .item v
  | .stop => .stop
  | .err => .error 0

/-- the result with which `next()` returns (or raises) if the action `a`, taken in state `s`, ends the call -/
def pfRet (s : State) : Action → Option Res
  | .cIsSet => if s.cpc = .top ∧ s.stop = true then some .stop else none
  | .cSet => match s.cpc with
    | .set m => some (if m.pay = .stop then .stop else .error 0)
    | _ => none
  | .cPop => match s.cpc with
    | .pop m => some (resOfPay m.pay)
    | _ => none
  | _ => none

def pfEStep (c : Cfg) (s : State) : Ev → Option (State × List Res)
  | .act a => match step c s a with
    | some s' => some (s', (pfRet s a).toList)
    | none => none
  | .getState => if s.cpc = .idle then some (s, [.state s.snap s.steps]) else none

/-- Run a sequence of events; `none` as soon as one is not enabled. -/
def pfObs (c : Cfg) : State → List Ev → Option (State × List Res)
  | s, [] => some (s, [])
  | s, e :: es => match pfEStep c s e with
    | some (s1, r) => (match pfObs c s1 es with
      | some (s2, rs) => some (s2, r ++ rs)
      | none => none)
    | none => none

/-- number of calls of `next()` that have returned -/
def pfCount (s : State) : Nat := (delivered s).length + s.nstop + s.errs

theorem run_snoc (c : Cfg) : ∀ (as : List Action) (s s1 s2 : State) (a : Action), run c s as = some s1 →
    step c s1 a = some s2 → run c s (as ++ [a]) = some s2
  | [], s, s1, s2, a, h, hs => by
    simp only [run, Option.some.injEq] at h; subst h
    simp [run, hs]
  | b :: as, s, s1, s2, a, h, hs => by
    simp only [run, List.cons_append] at h ⊢
    cases hb : step c s b with
    | none => simp [hb] at h
    | some s' =>
      simp only [hb] at h ⊢
      exact run_snoc c as s' s1 s2 a h hs

theorem reachable_step {c : Cfg} {s s' : State} (h : Reachable c s) (a : Action) (hs : step c s a = some s') :
    Reachable c s' := by
  obtain ⟨as, hr⟩ := h
  exact ⟨as ++ [a], run_snoc c as _ _ _ a hr hs⟩

/-- an action that does not end a call of `next()` leaves the consumer's history alone -/
theorem pf_silent {c : Cfg} {s s' : State} (a : Action) (hs : step c s a = some s') (hn : pfRet s a = none) :
    s'.got = s.got ∧ s'.nstop = s.nstop ∧ s'.errs = s.errs := by
  cases a <;>
    simp only [step, Action.isReader, stepR, stepC, if_true, Bool.false_eq_true, if_false] at hs <;>
    (repeat' split at hs) <;> cases hs <;> simp_all [pfRet]

/-- what the `n`-th call of `next()` returns over the source list `src` (StopIteration terminal) -/
def nextRes (src : List Nat) (n : Nat) : Res :=
  match src[n]? with
  | some v => .item v
  | none => .stop

theorem length_delivered_le {c : Cfg} {s : State} (h : Reachable c s) : (delivered s).length ≤ c.src.length :=
  (delivered_isPrefix h).length_le

/-- a call of `next()` returns what the closed form says, whatever the reader did in the meantime -/
theorem pf_return {c : Cfg} {s s' : State} (h : Reachable c s) (ht : c.term = .stop) (a : Action)
    (hs : step c s a = some s') (x : Res) (hx : pfRet s a = some x) :
    pfCount s' = pfCount s + 1 ∧ x = nextRes c.src (pfCount s) := by
  have h' := reachable_step h a hs
  have hend : ∀ t : State, Reachable c t → 0 < t.nstop + t.errs → delivered t = c.src ∧ t.errs = 0 := by
    intro t htr hpos
    refine ⟨complete htr hpos, ?_⟩
    cases he : t.errs with
    | zero => rfl
    | succ k => have := (error_after_prefix htr (by omega)).1; rw [ht] at this; cases this
  cases a <;> simp only [pfRet] at hx <;> try (cases hx; done)
  case cIsSet =>
    split at hx
    · rename_i hc
      cases hx
      simp only [step, Action.isReader, stepC, hc.1, hc.2, if_true, Bool.false_eq_true, if_false,
        Option.some.injEq] at hs
      subst hs
      have e := hend _ h' (by simp only; omega)
      simp only [delivered] at e
      refine ⟨by simp [pfCount, delivered]; omega, ?_⟩
      have : c.src.length ≤ pfCount s := by
        simp only [pfCount, delivered]; rw [e.1]; omega
      simp [nextRes, List.getElem?_eq_none this]
    · cases hx
  case cSet =>
    split at hx
    · rename_i m hc
      cases hx
      simp only [step, Action.isReader, stepC, hc, Bool.false_eq_true, if_false, Option.some.injEq] at hs
      subst hs
      have e := hend _ h' (by simp; split <;> omega)
      simp only at e
      by_cases hp : m.pay = .stop
      · simp only [hp, if_true] at e ⊢
        have hd : delivered s = c.src := by
          have := e.1
          simpa [delivered, hp, Pay.item?] using this
        refine ⟨by simp [pfCount, delivered, hp, Pay.item?]; omega, ?_⟩
        have : c.src.length ≤ pfCount s := by
          simp only [pfCount]; rw [hd]; omega
        simp [nextRes, List.getElem?_eq_none this]
      · simp [hp] at e
    · cases hx
  case cPop =>
    split at hx
    · rename_i m hc
      cases hx
      have hit := (inv_reachable h).pop_item m hc
      obtain ⟨v, hv⟩ : ∃ v, m.pay = .item v := by
        cases hp : m.pay <;> simp [hp] at hit
        exact ⟨_, rfl⟩
      have hgot : s'.got = s.got ++ [m] ∧ s'.nstop = s.nstop ∧ s'.errs = s.errs := by
        simp only [step, Action.isReader, stepC, hc, Bool.false_eq_true, if_false] at hs
        split at hs <;> cases hs <;> simp
      have hd' : delivered s' = delivered s ++ [v] := by
        simp [delivered, hgot.1, hv, Pay.item?]
      have hz : s.nstop + s.errs = 0 := by
        rcases Nat.eq_zero_or_pos (s.nstop + s.errs) with h0 | h0
        · exact h0
        · have e1 := (hend s h h0).1
          have := length_delivered_le h'
          rw [hd', e1] at this
          simp at this
          omega
      have hpre := delivered_prefix h'
      rw [hd'] at hpre
      have hlen := length_delivered_le h'
      rw [hd'] at hlen
      simp only [List.length_append, List.length_singleton] at hpre hlen
      have hv2 : c.src[(delivered s).length]? = some v := by
        have h1 : (delivered s ++ [v])[(delivered s).length]? = some v := by simp
        rw [hpre] at h1
        rw [List.getElem?_take] at h1
        simpa using h1
      refine ⟨by simp only [pfCount, hd', hgot.2.1, hgot.2.2, List.length_append, List.length_singleton]; omega, ?_⟩
      have hc0 : pfCount s = (delivered s).length := by simp only [pfCount]; omega
      simp [nextRes, hc0, hv2, hv, resOfPay]
    · cases hx

theorem nextRes_toS (src : List Nat) (n : Nat) :
    (nextRes src n).toS = .out (nextOut (src.map Node.Item.atom) n) := by
  simp only [nextRes, nextOut, List.getElem?_map]
  cases src[n]? <;> rfl

/-- `get_state()` between two calls of `next()` returns the closed form of the number of calls that returned -/
theorem pf_getState {c : Cfg} {s : State} (h : Reachable c s) :
    s.snap = c.base + jstar c.f (min (pfCount s) c.src.length) ∧
    s.steps = min (pfCount s) c.src.length - jstar c.f (min (pfCount s) c.src.length) := by
  have hm : min (pfCount s) c.src.length = (delivered s).length := by
    have hle := length_delivered_le h
    rcases Nat.eq_zero_or_pos (s.nstop + s.errs) with h0 | h0
    · simp only [pfCount]; omega
    · have := complete h h0
      simp only [pfCount]; rw [this]; omega
  rw [hm]
  have := state_closed_form_everywhere h
  exact ⟨this.1, by omega⟩

/-- **Prefetcher protocol = closed form.**  From every reachable state, for every sequence of events (every
interleaving of reader steps, consumer micro-steps, timeouts and `get_state()` calls), the results of the consumer
operations that returned are the closed form `spec`, started at the number of calls that had returned before. -/
theorem pfObs_spec {c : Cfg} (ht : c.term = .stop) : ∀ (evs : List Ev) (s s2 : State) (obs : List Res),
    Reachable c s → pfObs c s evs = some (s2, obs) →
    Reachable c s2 ∧
      obs.map Res.toS = spec c.f c.base (c.src.map Node.Item.atom) (pfCount s) (obs.map Res.op)
  | [], s, s2, obs, h, ho => by
    simp only [pfObs, Option.some.injEq, Prod.mk.injEq] at ho
    obtain ⟨rfl, rfl⟩ := ho
    exact ⟨h, rfl⟩
  | e :: es, s, s2, obs, h, ho => by
    simp only [pfObs] at ho
    cases he : pfEStep c s e with
    | none => simp [he] at ho
    | some p =>
      obtain ⟨s1, r⟩ := p
      simp only [he] at ho
      cases hr : pfObs c s1 es with
      | none => simp [hr] at ho
      | some q =>
        obtain ⟨s2', rs⟩ := q
        simp only [hr, Option.some.injEq, Prod.mk.injEq] at ho
        obtain ⟨rfl, rfl⟩ := ho
        cases e with
        | getState =>
          simp only [pfEStep] at he
          split at he
          · simp only [Option.some.injEq, Prod.mk.injEq] at he
            obtain ⟨rfl, rfl⟩ := he
            have ih := pfObs_spec ht es s s2' rs h hr
            refine ⟨ih.1, ?_⟩
            have hg := pf_getState h
            simp only [List.singleton_append, List.map_cons, Res.op, Res.toS, spec, List.length_map]
            rw [← hg.1, ← hg.2, ih.2]
          · cases he
        | act a =>
          simp only [pfEStep] at he
          cases hs : step c s a with
          | none => simp [hs] at he
          | some s1' =>
            simp only [hs, Option.some.injEq, Prod.mk.injEq] at he
            obtain ⟨rfl, rfl⟩ := he
            have h1 := reachable_step h a hs
            have ih := pfObs_spec ht es s1' s2' rs h1 hr
            refine ⟨ih.1, ?_⟩
            cases hx : pfRet s a with
            | none =>
              have hsil := pf_silent a hs hx
              have hc : pfCount s1' = pfCount s := by
                simp only [pfCount, delivered, hsil.1, hsil.2.1, hsil.2.2]
              simpa [hc] using ih.2
            | some x =>
              have hret := pf_return h ht a hs x hx
              have hop : x.op = .next := by
                rw [hret.2]; simp only [nextRes]; cases c.src[pfCount s]? <;> rfl
              simp only [Option.toList, List.singleton_append, List.map_cons, hop, spec]
              rw [ih.2, hret.1, hret.2, nextRes_toS]

/-- The configuration of one Prefetcher generation over the source list `l`: `reset(None)` is `j = 0`; a generation
created by `reset((j, k))` has the source reset to position `j` (so it yields `l.drop j`, its state after `i` more items
is `j + i`).  StopIteration terminal, no start-up failure. -/
def pfCfg (pf sf : Nat) (l : List Nat) (j : Nat) : Cfg :=
  { pf := pf, f := sf, src := l.drop j, term := .stop, base := j, startErr := false }

/-- events of a whole run from the start of the generation -/
def pfRunObs (pf sf : Nat) (l : List Nat) (j : Nat) (evs : List Ev) : Option (State × List Res) :=
  pfObs (pfCfg pf sf l j) (init (pfCfg pf sf l j)) evs

theorem pfCount_init (c : Cfg) : pfCount (init c) = 0 := rfl

theorem pfRunObs_spec {pf sf : Nat} {l : List Nat} {j : Nat} {evs : List Ev} {s : State} {obs : List Res}
    (h : pfRunObs pf sf l j evs = some (s, obs)) :
    obs.map Res.toS = spec sf j ((l.drop j).map Node.Item.atom) 0 (obs.map Res.op) :=
  (pfObs_spec (c := pfCfg pf sf l j) rfl evs _ s obs ⟨[], rfl⟩ h).2

end TDV.Refine
