import TorchDataVerif.Proofs.MPRIInv
/-!
# MPRI — the joint invariant `JX` and `_process_data` on a popped data task
-/
namespace TDV.MPRI
open TDV.MP TDV.MPU

/-- Everything about an active state, ghosts exposed. -/
structure JX (c : Cfg) (e0 : Nat → Bool) (δ : Nat) (s : State) (g : Ghost) (dl : List Nat) : Prop where
  wi : WI c s g
  sw : SWk c s (zipZ s.info dl) none 0
  dlen : dl.length = s.sendIdx
  kf : KF c s g.h dl
  ks : KS c e0 δ s.wsnaps s.snap s.numYielded (livePairs c (g.h.take s.rcvdIdx))

theorem StOk_h (c : Cfg) (h dl a : List Nat) (r : Res) (hr : r.idx ≤ h.length) (hs : StOk c h dl r) :
    StOk c (h ++ a) dl r := by
  unfold StOk at *
  rw [List.take_append_of_le_length hr]
  exact hs

theorem KF_h (c : Cfg) (s : State) (h dl a : List Nat) (hl : dl.length ≤ h.length + 1) (hk : KF c s h dl) :
    KF c s (h ++ a) dl := by
  refine ⟨hk.qf, ?_, ?_⟩
  · intro r hr
    obtain ⟨h1, h2⟩ := hk.rf r hr
    exact ⟨h1, StOk_h c h dl a r (by omega) h2⟩
  · intro e he r hr
    obtain ⟨h1, h2⟩ := hk.inf e he r hr
    exact ⟨h1, StOk_h c h dl a r (by omega) h2⟩

theorem KF_h' (c : Cfg) (s : State) (h h' dl : List Nat) (hl : dl.length ≤ h.length + 1)
    (hh : h' = h ∨ ∃ v, h' = h ++ [v]) (hk : KF c s h dl) : KF c s h' dl := by
  rcases hh with rfl | ⟨v, rfl⟩
  · exact hk
  · exact KF_h c s h dl [v] hl hk

/-- `_process_data` on the data task `i` just popped from `_task_info` (`s.rcvdIdx = i + 1`). -/
theorem procK (c : Cfg) (e0 : Nat → Bool) (δ : Nat) (s : State) (g : Ghost) (dl : List Nat) (r : Res) (i b : Nat)
    (hit : c.iterable = true) (hio : c.inOrder = true)
    (hm : MidI c s g none) (hrc : s.rcvdIdx = i + 1) (hx : g.h[i]? = some r.w)
    (hj : (g.h.take i).count r.w < bOf c r.w) (hkd : r.kind = .data b) (hri : r.idx = i)
    (hsw : SWk c s (zipZ s.info dl) none 1) (hp : Pend c s (dl.getD i 0))
    (hroom : cntZ none (zipZ s.info dl) + 1 ≤ c.W * c.P) (hdl : dl.length = s.sendIdx)
    (hF : KF c s g.h dl) (hst : StOk c g.h dl r)
    (hS : KS c e0 δ s.wsnaps s.snap s.numYielded (livePairs c (g.h.take i))) :
    (processData c s r).2 = .item b ∧ ∃ g' dl', MidI c (processData c s r).1 g' none ∧
      LiveI c (processData c s r).1 g' ∧ g'.h.take s.rcvdIdx = g.h.take s.rcvdIdx ∧
      SWk c (processData c s r).1 (zipZ (processData c s r).1.info dl') none 0 ∧
      dl'.length = (processData c s r).1.sendIdx ∧ KF c (processData c s r).1 g'.h dl' ∧
      KS c e0 δ (processData c s r).1.wsnaps (processData c s r).1.snap (processData c s r).1.numYielded
        (livePairs c (g'.h.take s.rcvdIdx)) := by
  -- the state handed to `_try_put_index`
  have h0 : MidI c { s with numTasks := s.numTasks.modify r.w (· - 1) } g none :=
    MidI_of_eq c s _ g none hm rfl rfl rfl rfl rfl rfl rfl
  obtain ⟨g', hg', _, _, hh, hl'⟩ := MidI_tryPut c _ g none hit hio h0
  have hsw0 : SWk c { s with numTasks := s.numTasks.modify r.w (· - 1) } (zipZ s.info dl) none 1 :=
    SWk_of_eq c s _ _ none 1 hsw rfl rfl rfl rfl rfl
  have hF0 : KF c { s with numTasks := s.numTasks.modify r.w (· - 1) } g.h dl := KF_of_eq c s _ _ _ hF rfl rfl rfl
  obtain ⟨dl', _, hdl', hsw1, hF1, hms, _, _⟩ :=
    KX_tryPut c { s with numTasks := s.numTasks.modify r.w (· - 1) } g.h dl none 1 hit hsw0 hdl hF0 hroom
  have hc := tryPut_sameCore c { s with numTasks := s.numTasks.modify r.w (· - 1) }
  have hp1 : Pend c (tryPut c { s with numTasks := s.numTasks.modify r.w (· - 1) }) (dl.getD i 0) := by
    refine ⟨by rw [hc.numYielded]; exact hp.yb, by rw [hc.numYielded]; exact hp.dy, by rw [hc.rcvdIdx]; exact hp.rc, ?_⟩
    intro hf
    obtain ⟨x, hx'⟩ := hp.fl hf
    exact ⟨x, by rw [hc.rcvdIdx]; exact hms _ hx'⟩
  have hlen' : dl'.length ≤ g.h.length + 1 := by
    have := hg'.hlen
    rcases hh with hh | ⟨v, hh⟩
    · rw [hh] at this; omega
    · rw [hh] at this; simp at this; omega
  have hF2 := KF_h' c _ g.h g'.h dl' hlen' hh hF1
  have hn : s.rcvdIdx ≤ g.h.length := by rw [hm.hlen]; have := hm.len; omega
  have htk : g'.h.take s.rcvdIdx = g.h.take s.rcvdIdx := take_of_prefix g.h g'.h _ hn hh
  rw [processData_eq, hkd]
  simp only
  generalize tryPut c { s with numTasks := s.numTasks.modify r.w (· - 1) } = T at hg' hl' hdl' hsw1 hF2 hc hp1
  obtain ⟨a1, a2⟩ := SW_yield c T _ r b _ hit hsw1 hp1
  obtain ⟨f1, f2, f3, f4⟩ := yieldItem_fields c T r b hit hio a1
  have hpr := yieldItem_sameProto c T r b
  refine ⟨a1, g', dl', ?_, ?_, htk, ?_, ?_, ?_, ?_⟩
  · exact MidI_of_eq c _ _ g' none hg' hpr.sendIdx hpr.cyc hpr.status hpr.rcvdIdx hpr.info hpr.workers hpr.resQ
  · exact LiveI_of_eq c _ _ g' hl' hpr.status hpr.rcvdIdx
  · rw [hpr.info]; exact a2
  · rw [hpr.sendIdx]; exact hdl'
  · exact KF_of_eq c T _ _ _ hF2 hpr.workers hpr.resQ hpr.info
  · -- the worker snapshots
    have hv : r.w < c.W := hm.own _ _ hx
    have hE1 : livePairs c (g'.h.take s.rcvdIdx) =
        livePairs c (g.h.take i) ++ [(r.w, (g.h.take i).count r.w)] := by
      rw [htk, hrc, livePairs_take_succ c g.h i r.w hx, if_pos (by omega)]
    have hstv : r.st = deltaOf c (dl.getD i 0) ((g.h.take i).count r.w) := by
      unfold StOk at hst; rw [hkd, hri] at hst; exact hst
    have hK := KS_data c e0 δ s.wsnaps s.snap s.numYielded _ r.w _ (dl.getD i 0) hS hv hj
      (by rw [posE_livePairs]; omega) (by rw [endE_livePairs]; simp; omega) hp.dy (by have := hp.yb; omega)
    rw [← hstv, ← hE1] at hK
    rw [f1, f2, hc.wsnaps, hc.numYielded]
    by_cases hdue : c.interval ≠ 0 ∧ (T.numYielded + 1) % c.interval = 0
    · obtain ⟨x, hx2⟩ := f3 hdue
      rw [hx2, hc.wsnaps, hc.numYielded]
      rw [hE1] at hK ⊢
      obtain ⟨R, hR⟩ := live_take c _ g' none hg' s.rcvdIdx
      rw [hE1] at hR
      rw [hc.numYielded] at hdue
      exact KS_snap c e0 δ _ s.snap _ x _ R _ _ hK hj hR hdue.1 hdue.2
    · rw [f4 hdue, hc.snap]; exact hK

theorem JX_finish_some (c : Cfg) (e0 : Nat → Bool) (δ : Nat) (t : State) (o : Obs) (g : Ghost) (dl : List Nat)
    (hm : MidI c t g none) (hl : LiveI c t g) (hsw : SWk c t (zipZ t.info dl) none 0) (hdl : dl.length = t.sendIdx)
    (hF : KF c t g.h dl) (hS : KS c e0 δ t.wsnaps t.snap t.numYielded (livePairs c (g.h.take t.rcvdIdx)))
    (ho : ObsRel (dataItems c (g.h.take t.rcvdIdx)) (taskObs (t.obs ++ [o])))
    (hfin : Obs.stop ∈ t.obs ++ [o] → t.rcvdIdx = t.sendIdx ∧ dataItems c (g.h.take t.rcvdIdx) = Ref.interleave c.shards) :
    JX c e0 δ (finish (t, some o)) g dl := by
  simp only [finish]
  exact ⟨⟨MidI_of_eq c t _ g none hm rfl rfl rfl rfl rfl rfl rfl, ho, LiveI_of_eq c t _ g hl rfl rfl, hfin⟩,
    SWk_of_eq c t _ _ none 0 hsw rfl rfl rfl rfl rfl, hdl, KF_of_eq c t _ _ _ hF rfl rfl rfl, hS⟩

/-- Pop + `_process_data` of a data task, up to the return of `next()`. -/
theorem procJ (c : Cfg) (e0 : Nat → Bool) (δ : Nat) (s : State) (g : Ghost) (dl : List Nat) (r : Res) (i : Nat)
    (it : Item) (D : List Item) (hit : c.iterable = true) (hio : c.inOrder = true) (hok : ShardsOk c)
    (hm : MidI c s g none) (hrc : s.rcvdIdx = i + 1) (hx : g.h[i]? = some r.w)
    (hitm : (c.shards.getD r.w [])[(g.h.take i).count r.w]? = some it) (hk : r.kind = kindOf it) (hri : r.idx = i)
    (hsw : SWk c s (zipZ s.info dl) none 1) (hp : Pend c s (dl.getD i 0))
    (hroom : cntZ none (zipZ s.info dl) + 1 ≤ c.W * c.P) (hdl : dl.length = s.sendIdx)
    (hF : KF c s g.h dl) (hst : StOk c g.h dl r)
    (hS : KS c e0 δ s.wsnaps s.snap s.numYielded (livePairs c (g.h.take i)))
    (hD : dataItems c (g.h.take s.rcvdIdx) = D ++ [it]) (ho : ObsRel D (taskObs s.obs)) (hns : Obs.stop ∉ s.obs) :
    (processData c s r).2 ≠ .assertion ∧
    ∃ g' dl', JX c e0 δ (finish ((processData c s r).1, some (processData c s r).2)) g' dl' := by
  have hj : (g.h.take i).count r.w < bOf c r.w := by
    have := (List.getElem?_eq_some_iff.mp hitm).1
    unfold bOf; exact this
  obtain ⟨b, hb⟩ : ∃ b, it = .ok b := by
    cases it with
    | ok b => exact ⟨b, rfl⟩
    | err => exact absurd hitm (hok _ _)
  subst hb
  obtain ⟨a1, g', dl', b1, b2, b3, b4, b5, b6, b7⟩ :=
    procK c e0 δ s g dl r i b hit hio hm hrc hx hj hk hri hsw hp hroom hdl hF hst hS
  obtain ⟨f1, _, _⟩ := MP.processData_frame c s r
  have fo := processData_obs c s r
  refine ⟨by rw [a1]; simp, g', dl', ?_⟩
  rw [a1]
  apply JX_finish_some c e0 δ _ _ g' dl' b1 b2 b4 b5 b6
  · rw [f1]; exact b7
  · rw [f1, fo, b3, hD, taskObs_append]
    exact ObsRel_snoc _ _ _ _ ho (by simp [ObsOk])
  · intro hst'
    rw [fo] at hst'
    simp only [List.mem_append, List.mem_singleton] at hst'
    rcases hst' with h1 | h1
    · exact absurd h1 hns
    · cases h1

end TDV.MPRI
