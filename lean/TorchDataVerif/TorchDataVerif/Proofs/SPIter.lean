import TorchDataVerif.Proofs.SPBase
/-! Iterable datasets, part 1: an epoch of the iterator as a function of the outcome sequence of the dataset
iterator (`DRun`), for any dataset iterator — failing or not, dying after a failure or not. -/
namespace TDV.SP
open TDV.Sampler

/-- `next(dataset_iter)` called over and over from world `d` has the outcomes `tr` (ending with the first
`StopIteration`) and leaves the world `d'`. -/
def DRun {D : Type} (nx : D → DOut × D) : D → List DOut → D → Prop
  | _, [], _ => False
  | d, o :: tr, d' => (nx d).1 = o ∧
    (match o with
      | .stop => tr = [] ∧ (nx d).2 = d'
      | _ => DRun nx (nx d).2 tr d')

/-- The index sampler of an iterable dataset with auto-collation: every call returns `bs` placeholders. -/
def InfMany {W St : Type} (S : IdxSrc W St) (bs : Nat) : Prop :=
  ∀ w, ∃ l w', S.next w = (.idx (.many l), w') ∧ l.length = bs

/-- Without auto-collation: every call returns one placeholder. -/
def InfOne {W St : Type} (S : IdxSrc W St) : Prop :=
  ∀ w, ∃ i w', S.next w = (.idx (.one i), w')

section
variable {W SSt D Ds Dt : Type} (S : IdxSrc W SSt) (Da : Data D Ds Dt) (c : Cfg)

theorem drun_trace : ∀ (f : Nat) (d : D), (trace Da f d).getLast? = some .stop →
    ∃ d', DRun Da.next d (trace Da f d) d'
  | 0, d, h => by simp [trace] at h
  | f + 1, d, h => by
    rw [trace] at h ⊢
    generalize hn : Da.next d = r at h ⊢
    obtain ⟨o, d1⟩ := r
    cases o with
    | stop => exact ⟨d1, by simp [DRun, hn]⟩
    | item v =>
      simp only at h ⊢
      have h' : (trace Da f d1).getLast? = some .stop := by
        cases ht : trace Da f d1 with
        | nil => simp [ht] at h
        | cons a t => simpa [ht, List.getLast?_cons_cons] using h
      obtain ⟨d', hd⟩ := drun_trace f d1 h'
      exact ⟨d', by simp [DRun, hn, hd]⟩
    | err =>
      simp only at h ⊢
      have h' : (trace Da f d1).getLast? = some .stop := by
        cases ht : trace Da f d1 with
        | nil => simp [ht] at h
        | cons a t => simpa [ht, List.getLast?_cons_cons] using h
      obtain ⟨d', hd⟩ := drun_trace f d1 h'
      exact ⟨d', by simp [DRun, hn, hd]⟩

/-- The fetcher's collecting loop against the reference: `k` more items are wanted, `acc` were collected. -/
theorem gather_ref (bs : Nat) : ∀ (k : Nat) (d : D) (acc : List Nat) (tr : List DOut) (dF : D),
    DRun Da.next d tr dF → acc.length + (k + 1) = bs →
    ∀ data f d1, gather Da (k + 1) d = (data, f, d1) →
      (f = .full → data.length = k + 1 ∧ ∃ tr1, DRun Da.next d1 tr1 dF ∧ tr1.length < tr.length ∧
        refIterAuto c bs tr acc = collate c (acc ++ data) :: refIterAuto c bs tr1 []) ∧
      (f = .stopped → d1 = dF ∧ refIterAuto c bs tr acc =
        (if (acc ++ data).isEmpty || c.dropLast then [.stop] else [collate c (acc ++ data), .stop])) ∧
      (f = .errored → ∃ tr1, DRun Da.next d1 tr1 dF ∧ tr1.length < tr.length ∧
        refIterAuto c bs tr acc = .error 0 :: refIterAuto c bs tr1 [])
  | k, d, acc, [], dF, h, _ => by simp [DRun] at h
  | k, d, acc, o :: tr2, dF, h, hk => by
    intro data f d1 hg
    simp only [DRun] at h
    obtain ⟨ho, hrest⟩ := h
    rw [gather] at hg
    generalize hn : Da.next d = r at ho hrest hg
    obtain ⟨o', d2⟩ := r
    simp only at ho hrest hg
    subst ho
    cases o' with
    | stop =>
      simp only at hrest hg
      obtain ⟨rfl, rfl⟩ := hrest
      simp only [Prod.mk.injEq] at hg
      obtain ⟨rfl, rfl, rfl⟩ := hg
      refine ⟨by simp, fun _ => ⟨rfl, by simp [refIterAuto]⟩, by simp⟩
    | err =>
      simp only at hrest hg
      simp only [Prod.mk.injEq] at hg
      obtain ⟨rfl, rfl, rfl⟩ := hg
      refine ⟨by simp, by simp, fun _ => ⟨tr2, hrest, by simp, by simp [refIterAuto]⟩⟩
    | item v =>
      simp only at hrest hg
      cases k with
      | zero =>
        simp only [gather, Prod.mk.injEq] at hg
        obtain ⟨rfl, rfl, rfl⟩ := hg
        have hb : acc.length + 1 = bs := by omega
        refine ⟨fun _ => ⟨rfl, tr2, hrest, by simp, by simp [refIterAuto, hb]⟩, by simp, by simp⟩
      | succ k =>
        have hb : ¬ acc.length + 1 = bs := by omega
        generalize hr : gather Da (k + 1) d2 = r at hg
        obtain ⟨data', f', d1'⟩ := r
        simp only [Prod.mk.injEq] at hg
        obtain ⟨rfl, rfl, rfl⟩ := hg
        have ih := gather_ref bs k d2 (acc ++ [v]) tr2 dF hrest (by simp; omega) data' f' d1' hr
        have hunf : refIterAuto c bs (.item v :: tr2) acc = refIterAuto c bs tr2 (acc ++ [v]) := by
          simp [refIterAuto, hb]
        rw [hunf]
        have happ : acc ++ [v] ++ data' = acc ++ v :: data' := by simp
        rw [happ] at ih
        refine ⟨fun hf => ?_, fun hf => ?_, fun hf => ?_⟩
        · obtain ⟨hl, tr1, h1, h2, h3⟩ := ih.1 hf
          exact ⟨by simp [hl], tr1, h1, by simp; omega, h3⟩
        · exact ih.2.1 hf
        · obtain ⟨tr1, h1, h2, h3⟩ := ih.2.2 hf
          exact ⟨tr1, h1, by simp; omega, h3⟩

/-- What `__next__` does with the fetcher's result. -/
def finish (x : It W D) (w' : W) (d1 : D) (e1 : Bool) : Obs → Obs × It W D
  | .stop => (.stop, { sw := w', dw := d1, siy := x.siy + 1, ny := x.ny, ended := e1, finished := true })
  | .error k => (.error k, { sw := w', dw := d1, siy := x.siy + 1, ny := x.ny, ended := e1, finished := x.finished })
  | .batch l => (.batch l, { sw := w', dw := d1, siy := x.siy + 1, ny := x.ny + 1, ended := e1, finished := x.finished })
  | .single v => (.single v, { sw := w', dw := d1, siy := x.siy + 1, ny := x.ny + 1, ended := e1, finished := x.finished })

/-- `next` once the sampler's answer and the fetcher's result are known. -/
theorem next_of_fetch (x : It W D) (ix : Idx) (w' : W) (o : Obs) (d1 : D) (e1 : Bool)
    (hn : S.next x.sw = (.idx ix, w')) (hf : fetch Da c x.dw x.ended ix = (o, d1, e1)) :
    next S Da c x = finish x w' d1 e1 o := by
  unfold next
  simp only [hn, hf]
  cases o <;> rfl

theorem epoch_step (f : Nat) (x x1 : It W D) (o : Obs) (hn : next S Da c x = (o, x1)) (ho : o ≠ .stop) :
    epoch S Da c (f + 1) x = (o :: (epoch S Da c f x1).1, (epoch S Da c f x1).2) := by
  rw [epoch, hn]
  cases o with
  | stop => exact absurd rfl ho
  | batch l => rfl
  | single v => rfl
  | error k => rfl

theorem epoch_stop (f : Nat) (x x1 : It W D) (hn : next S Da c x = (.stop, x1)) :
    epoch S Da c (f + 1) x = ([.stop], x1) := by
  rw [epoch, hn]

/-- An iterable iterator whose fetcher has `ended` stops at the next call without touching the dataset. -/
theorem epoch_ended (hit : Da.iterable = true) (f : Nat) (x : It W D) (ix : Idx) (w' : W)
    (hn : S.next x.sw = (.idx ix, w')) (he : x.ended = true) :
    (epoch S Da c (f + 1) x).1 = [.stop] ∧ (epoch S Da c (f + 1) x).2.dw = x.dw ∧
      (epoch S Da c (f + 1) x).2.finished = true := by
  have hf : fetch Da c x.dw x.ended ix = (.stop, x.dw, true) := by simp [fetch, hit, he]
  rw [epoch_stop S Da c f x _ (next_of_fetch S Da c x ix w' _ _ _ hn hf)]
  exact ⟨rfl, rfl, rfl⟩

/-- **An epoch of an iterable loader with auto-collation** (`batch_size = bs`): the observations are the
reference grouping of the dataset iterator's outcome sequence, for ANY dataset iterator. -/
theorem epoch_iter_auto (bs : Nat) (hbs : 0 < bs) (hit : Da.iterable = true) (hS : InfMany S bs) :
    ∀ (fuel : Nat) (tr : List DOut) (x : It W D) (dF : D), DRun Da.next x.dw tr dF → x.ended = false →
      tr.length + 1 ≤ fuel →
      (epoch S Da c fuel x).1 = refIterAuto c bs tr [] ∧ (epoch S Da c fuel x).2.dw = dF ∧
        (epoch S Da c fuel x).2.finished = true
  | 0, tr, x, dF, _, _, hf => by omega
  | fuel + 1, tr, x, dF, h, he, hf => by
    obtain ⟨l, w', hn, hl⟩ := hS x.sw
    obtain ⟨k, hk⟩ : ∃ k, bs = k + 1 := ⟨bs - 1, by omega⟩
    have hg := gather_ref Da c bs k x.dw [] tr dF h (by simp; omega)
    have htl : 0 < tr.length := by cases tr <;> simp [DRun] at h ⊢
    have hlk : l.length = k + 1 := by omega
    generalize hgr : gather Da (k + 1) x.dw = r at hg
    obtain ⟨data, f, d1⟩ := r
    have hg' := hg data f d1 rfl
    simp only [List.nil_append] at hg'
    cases f with
    | errored =>
      obtain ⟨tr1, h1, h2, h3⟩ := hg'.2.2 rfl
      have hf' : fetch Da c x.dw x.ended (.many l) = (.error 0, d1, false) := by
        simp [fetch, hit, he, hlk, hgr]
      rw [epoch_step S Da c fuel x _ _ (next_of_fetch S Da c x _ w' _ _ _ hn hf') (by simp), h3]
      have ih := epoch_iter_auto bs hbs hit hS fuel tr1
        { sw := w', dw := d1, siy := x.siy + 1, ny := x.ny, ended := false, finished := x.finished } dF h1 rfl (by omega)
      exact ⟨by rw [ih.1], ih.2⟩
    | stopped =>
      obtain ⟨h1, h3⟩ := hg'.2.1 rfl
      rw [h3]
      by_cases hd : (data.isEmpty || c.dropLast) = true
      · have hf' : fetch Da c x.dw x.ended (.many l) = (.stop, d1, true) := by
          simp only [fetch, hit, he, hlk, hgr, if_true, Bool.false_eq_true, if_false, hd]
        rw [epoch_stop S Da c fuel x _ (next_of_fetch S Da c x _ w' _ _ _ hn hf'), if_pos hd]
        exact ⟨rfl, h1, rfl⟩
      · have hf' : fetch Da c x.dw x.ended (.many l) = (collate c data, d1, true) := by
          simp only [fetch, hit, he, hlk, hgr, if_true, Bool.false_eq_true, if_false, hd]
        have hc := collate_ne_stop c data
        have hnx := next_of_fetch S Da c x _ w' _ _ _ hn hf'
        rw [if_neg hd]
        cases fuel with
        | zero => omega
        | succ fuel =>
          obtain ⟨l2, w2, hn2, _⟩ := hS w'
          generalize collate c data = o at hc hnx
          cases o with
          | stop => exact absurd rfl hc
          | batch b =>
            rw [epoch_step S Da c _ x _ _ hnx (by simp)]
            have := epoch_ended S Da c hit fuel
              { sw := w', dw := d1, siy := x.siy + 1, ny := x.ny + 1, ended := true, finished := x.finished } _ w2 hn2 rfl
            exact ⟨by rw [this.1], by rw [this.2.1]; exact h1, this.2.2⟩
          | single v =>
            rw [epoch_step S Da c _ x _ _ hnx (by simp)]
            have := epoch_ended S Da c hit fuel
              { sw := w', dw := d1, siy := x.siy + 1, ny := x.ny + 1, ended := true, finished := x.finished } _ w2 hn2 rfl
            exact ⟨by rw [this.1], by rw [this.2.1]; exact h1, this.2.2⟩
          | error e =>
            rw [epoch_step S Da c _ x _ _ hnx (by simp)]
            have := epoch_ended S Da c hit fuel
              { sw := w', dw := d1, siy := x.siy + 1, ny := x.ny, ended := true, finished := x.finished } _ w2 hn2 rfl
            exact ⟨by rw [this.1], by rw [this.2.1]; exact h1, this.2.2⟩
    | full =>
      obtain ⟨hlen, tr1, h1, h2, h3⟩ := hg'.1 rfl
      have hne : data.isEmpty = false := by cases data <;> simp at hlen ⊢
      have hf' : fetch Da c x.dw x.ended (.many l) = (collate c data, d1, false) := by
        simp only [fetch, hit, he, hlk, hgr, if_true, Bool.false_eq_true, if_false, hne]
      have hc := collate_ne_stop c data
      have hnx := next_of_fetch S Da c x _ w' _ _ _ hn hf'
      rw [h3]
      generalize collate c data = o at hc hnx
      cases o with
      | stop => exact absurd rfl hc
      | batch b =>
        rw [epoch_step S Da c _ x _ _ hnx (by simp)]
        have ih := epoch_iter_auto bs hbs hit hS fuel tr1
          { sw := w', dw := d1, siy := x.siy + 1, ny := x.ny + 1, ended := false, finished := x.finished } dF h1 rfl (by omega)
        exact ⟨by rw [ih.1], ih.2⟩
      | single v =>
        rw [epoch_step S Da c _ x _ _ hnx (by simp)]
        have ih := epoch_iter_auto bs hbs hit hS fuel tr1
          { sw := w', dw := d1, siy := x.siy + 1, ny := x.ny + 1, ended := false, finished := x.finished } dF h1 rfl (by omega)
        exact ⟨by rw [ih.1], ih.2⟩
      | error e =>
        rw [epoch_step S Da c _ x _ _ hnx (by simp)]
        have ih := epoch_iter_auto bs hbs hit hS fuel tr1
          { sw := w', dw := d1, siy := x.siy + 1, ny := x.ny, ended := false, finished := x.finished } dF h1 rfl (by omega)
        exact ⟨by rw [ih.1], ih.2⟩

/-- **The same without auto-collation** (`batch_size=None`): item by item. -/
theorem epoch_iter_one (hit : Da.iterable = true) (hS : InfOne S) :
    ∀ (fuel : Nat) (tr : List DOut) (x : It W D) (dF : D), DRun Da.next x.dw tr dF → x.ended = false →
      tr.length ≤ fuel →
      (epoch S Da c fuel x).1 = refIterOne c tr ∧ (epoch S Da c fuel x).2.dw = dF ∧
        (epoch S Da c fuel x).2.finished = true
  | _, [], x, dF, h, _, _ => by simp [DRun] at h
  | 0, o :: tr, x, dF, _, _, hf => by simp at hf
  | fuel + 1, o :: tr2, x, dF, h, he, hf => by
    obtain ⟨i, w', hn⟩ := hS x.sw
    simp only [DRun] at h
    obtain ⟨ho, hrest⟩ := h
    rw [epoch]
    unfold next
    simp only [hn, fetch, hit, he, if_true, Bool.false_eq_true, if_false]
    generalize hd : Da.next x.dw = r at ho hrest
    obtain ⟨o', d2⟩ := r
    simp only at ho hrest
    subst ho
    cases o' with
    | stop =>
      simp only at hrest
      obtain ⟨rfl, rfl⟩ := hrest
      simp [refIterOne]
    | err =>
      simp only at hrest
      have ih := epoch_iter_one hit hS fuel tr2
        { x with sw := w', siy := x.siy + 1, dw := d2, ended := false } dF hrest rfl (by simpa using hf)
      simp only at ih ⊢
      simp only [refIterOne]
      exact ⟨by rw [ih.1], ih.2⟩
    | item v =>
      simp only at hrest
      have hc := collate1_ne_stop c v
      simp only [refIterOne]
      generalize hcd : collate1 c v = o at hc
      cases o with
      | stop => exact absurd rfl hc
      | batch b =>
        have ih := epoch_iter_one hit hS fuel tr2
          { x with sw := w', siy := x.siy + 1, dw := d2, ended := false, ny := x.ny + 1 } dF hrest rfl (by simpa using hf)
        simp only at ih ⊢
        exact ⟨by rw [ih.1], ih.2⟩
      | single u =>
        have ih := epoch_iter_one hit hS fuel tr2
          { x with sw := w', siy := x.siy + 1, dw := d2, ended := false, ny := x.ny + 1 } dF hrest rfl (by simpa using hf)
        simp only at ih ⊢
        exact ⟨by rw [ih.1], ih.2⟩
      | error e =>
        have ih := epoch_iter_one hit hS fuel tr2
          { x with sw := w', siy := x.siy + 1, dw := d2, ended := false } dF hrest rfl (by simpa using hf)
        simp only at ih ⊢
        exact ⟨by rw [ih.1], ih.2⟩

end

end TDV.SP
