import TorchDataVerif.Proofs.PMGen2
/-! State-level facts for `Gen2`: which actions move the source (`pulled`, the reader's program counter). -/
namespace TDV.PM
variable {c : Cfg} {s s' : State}

theorem pulled_frame_W {a : Action} (h : stepW c s a = some s') : s'.pulled = s.pulled := by
  cases a <;> try (simp [stepW] at h; done)
  case wIsSet i => obtain ⟨_, rfl⟩ := (spec_wIsSet i).mp h; simp
  case wEmpty i => obtain ⟨_, rfl⟩ := (spec_wEmpty i).mp h; simp
  case wGet i => obtain ⟨m, rest, _, _, rfl⟩ := (spec_wGet i).mp h; simp
  case wGetT i => obtain ⟨_, _, rfl⟩ := (spec_wGetT i).mp h; simp
  case wPut i => obtain ⟨m, _, rfl⟩ := (spec_wPut i).mp h; simp
  case wDie i =>
    obtain ⟨_, hh⟩ := (spec_wDie i).mp h
    rcases hh with ⟨m, _, rfl⟩ | ⟨_, rfl⟩ <;> simp

theorem pulled_frame_S {a : Action} (h : stepS c s a = some s') : s'.pulled = s.pulled := by
  cases a <;> try (simp [stepS] at h; done)
  case sIsSet => obtain ⟨_, rfl⟩ := spec_sIsSet.mp h; simp
  case sGet => obtain ⟨m, rest, _, _, rfl⟩ := spec_sGet.mp h; simp
  case sGetT => obtain ⟨_, _, rfl⟩ := spec_sGetT.mp h; simp
  case sHave =>
    obtain ⟨m, _, rfl⟩ := spec_sHave.mp h
    split
    · simp
    · split <;> simp
  case sDrain =>
    obtain ⟨_, rfl⟩ := spec_sDrain.mp h
    cases bufTake s.cur s.buf with
    | none => simp
    | some p => simp

theorem pulled_frame_C {a : Action} (h : stepC c s a = some s') : s'.pulled = s.pulled := by
  cases a <;> try (simp [stepC] at h; done)
  case cBoot => obtain ⟨_, _, rfl⟩ := spec_cBoot.mp h; simp
  case cBootT => obtain ⟨_, _, rfl⟩ := spec_cBootT.mp h; simp
  case cCall => obtain ⟨_, rfl⟩ := spec_cCall.mp h; simp
  case cIsSet => obtain ⟨_, rfl⟩ := spec_cIsSet.mp h; split <;> simp
  case cMpIsSet => obtain ⟨_, rfl⟩ := spec_cMpIsSet.mp h; split <;> simp
  case cChk => obtain ⟨_, rfl⟩ := spec_cChk.mp h; simp
  case cSet => obtain ⟨_, rfl⟩ := spec_cSet.mp h; simp
  case cMpSet => obtain ⟨_, rfl⟩ := spec_cMpSet.mp h; simp
  case cGet =>
    obtain ⟨m, rest, _, _, rfl⟩ := spec_cGet.mp h
    cases hio : c.inOrder <;> cases hp : m.pay <;> simp [setOutq, hio]
  case cGetT => obtain ⟨_, _, rfl⟩ := spec_cGetT.mp h; simp
  case cRel => obtain ⟨m, _, _, rfl⟩ := spec_cRel.mp h; cases m.pay <;> simp
  case cPop => obtain ⟨m, y, _, _, rfl⟩ := spec_cPop.mp h; simp
  case cDeadIsSet => obtain ⟨_, rfl⟩ := spec_cDeadIsSet.mp h; split <;> simp
  case cDeadMpIsSet => obtain ⟨_, rfl⟩ := spec_cDeadMpIsSet.mp h; split <;> simp
  case cDeadSet => obtain ⟨_, rfl⟩ := spec_cDeadSet.mp h; simp
  case cDeadMpSet => obtain ⟨_, rfl⟩ := spec_cDeadMpSet.mp h; simp
  case cShutSet => obtain ⟨_, rfl⟩ := spec_cShutSet.mp h; simp
  case cShutMpSet => obtain ⟨_, rfl⟩ := spec_cShutMpSet.mp h; simp

/-- What one step of a generation whose reader is done with the source (`Silent`) can do: it stays `Silent`, the
action is not an operation on the source, the source position is not moved, an exited reader stays exited. -/
theorem silent_step (hq : Silent s) {a : Action} (h : step c s a = some s') :
    Silent s' ∧ a.touchesSource = false ∧ s'.pulled = s.pulled ∧ (s.rpc = .exited → s'.rpc = .exited) := by
  have keep : s'.rpc = s.rpc → (s.stop = true → s'.stop = true) → Silent s' := by
    intro h1 h2
    rcases hq with hq | ⟨hq1, hq2⟩
    · exact Or.inl (h1 ▸ hq)
    · exact Or.inr ⟨h2 hq1, h1 ▸ hq2⟩
  cases a <;> simp only [step] at h
  case rInit =>
    obtain ⟨h1, rfl⟩ := spec_rInit.mp h
    rcases hq with hq | ⟨_, hq⟩ <;> simp [h1, RPc.pastSource] at hq
  case rIsSet =>
    obtain ⟨h1, rfl⟩ := spec_rIsSet.mp h
    rcases hq with hq | ⟨hq, _⟩
    · simp [h1] at hq
    · simp [Silent, hq, h1, Action.touchesSource]
  case rAcq =>
    obtain ⟨h1, _, rfl⟩ := spec_rAcq.mp h
    rcases hq with hq | ⟨_, hq⟩ <;> simp [h1, RPc.pastSource] at hq
  case rAcqT =>
    obtain ⟨h1, _, rfl⟩ := spec_rAcqT.mp h
    rcases hq with hq | ⟨_, hq⟩ <;> simp [h1, RPc.pastSource] at hq
  case rEnter =>
    obtain ⟨h1, rfl⟩ := spec_rEnter.mp h
    rcases hq with hq | ⟨_, hq⟩ <;> simp [h1, RPc.pastSource] at hq
  case rLeave =>
    obtain ⟨h1, _⟩ := spec_rLeave.mp h
    rcases hq with hq | ⟨_, hq⟩ <;> simp [h1, RPc.pastSource] at hq
  case rAppend =>
    obtain ⟨v, i, h1, rfl⟩ := spec_rAppend.mp h
    rcases hq with hq | ⟨hq, _⟩
    · simp [h1] at hq
    · simp [Silent, hq, h1, Action.touchesSource, RPc.pastSource]
  case rPut =>
    obtain ⟨m, h1, rfl⟩ := spec_rPut.mp h
    rcases hq with hq | ⟨hq, _⟩
    · simp [h1] at hq
    · cases m.pay <;> simp [Silent, hq, h1, Action.touchesSource, RPc.pastSource]
  case rRet =>
    obtain ⟨h1, rfl⟩ := spec_rRet.mp h
    simp [Silent, h1, Action.touchesSource]
  all_goals first
    | exact ⟨keep (reader_frame_W h).1 (fun e => (reader_frame_W h).2 ▸ e), rfl, pulled_frame_W h,
        fun e => (reader_frame_W h).1 ▸ e⟩
    | exact ⟨keep (reader_frame_S h).1 (fun e => (reader_frame_S h).2 ▸ e), rfl, pulled_frame_S h,
        fun e => (reader_frame_S h).1 ▸ e⟩
    | exact ⟨keep (reader_frame_C h).1 (reader_frame_C h).2, rfl, pulled_frame_C h,
        fun e => (reader_frame_C h).1 ▸ e⟩

/-- Workers and sorter never operate on the source: their actions are not source operations and leave the reader's
program counter and the source position alone. -/
theorem worker_sorter_frame {a : Action}
    (ha : a ∈ [Action.sIsSet, .sGet, .sGetT, .sHave, .sDrain] ∨ ∃ i, a ∈ [Action.wIsSet i, .wEmpty i, .wGet i, .wGetT i, .wPut i, .wDie i])
    (h : step c s a = some s') : a.touchesSource = false ∧ s'.rpc = s.rpc ∧ s'.pulled = s.pulled := by
  rcases ha with ha | ⟨i, ha⟩
  · simp at ha
    rcases ha with rfl | rfl | rfl | rfl | rfl <;> simp only [step] at h <;>
      exact ⟨rfl, (reader_frame_S h).1, pulled_frame_S h⟩
  · simp at ha
    rcases ha with rfl | rfl | rfl | rfl | rfl | rfl <;> simp only [step] at h <;>
      exact ⟨rfl, (reader_frame_W h).1, pulled_frame_W h⟩

/-- After `_shutdown` the consumer has no action on this iterator any more. -/
theorem closed_stays (hc : s.cpc = .closed) {a : Action} (h : step c s a = some s') :
    s'.cpc = .closed ∧ a.isBackground = true := by
  by_cases hb : a.isBackground = true
  · exact ⟨(bg_frame hb h).1 ▸ hc, hb⟩
  · cases a <;> simp [Action.isBackground] at hb <;> simp [step, stepC, hc] at h

/-- Only `rInit` takes the reader out of its start-up. -/
theorem init_stays (hi : s.rpc = .init) {a : Action} (ha : a ≠ .rInit) (h : step c s a = some s') :
    s'.rpc = .init := by
  cases a <;> simp only [step] at h
  case rInit => exact absurd rfl ha
  all_goals first
    | (simp [stepR, hi] at h; done)
    | exact (reader_frame_W h).1 ▸ hi
    | exact (reader_frame_S h).1 ▸ hi
    | exact (reader_frame_C h).1 ▸ hi

end TDV.PM
