import TorchDataVerif.Proofs.MPUFresh
/-!
# MPU — `init` over a worker set with some dead workers is `init` followed by `kill` actions
-/
namespace TDV.MPU
open TDV.MP

def deaden (k : Worker) : Worker := { k with alive := false }

/-- Worker `i` is dead (everything else untouched). -/
def killAt (i : Nat) (s : State) : State := { s with workers := s.workers.modify i deaden }

theorem modify_comm_push (ws : List Worker) (i w : Nat) (m : Msg) :
    pushMsg (ws.modify i deaden) w m = (pushMsg ws w m).modify i deaden := by
  apply List.ext_getElem?
  intro j
  simp only [pushMsg, List.getElem?_modify]
  cases ws[j]? with
  | none => rfl
  | some k =>
    by_cases h1 : i = j <;> by_cases h2 : w = j <;> simp [h1, h2, deaden]

theorem findWorker_killAt (c : Cfg) (i : Nat) (s : State) (n cyc : Nat) :
    findWorker c (killAt i s) n cyc = findWorker c s n cyc := by
  induction n generalizing cyc with
  | zero => rfl
  | succ n ih => unfold findWorker; rw [ih]; rfl

theorem dispatchTo_killAt (c : Cfg) (i : Nat) (s : State) (w cyc : Nat) :
    dispatchTo c (killAt i s) w cyc = killAt i (dispatchTo c s w cyc) := by
  simp only [dispatchTo, killAt, modify_comm_push]
  rfl

theorem tryPut_killAt (c : Cfg) (i : Nat) (s : State) : tryPut c (killAt i s) = killAt i (tryPut c s) := by
  have hc : (killAt i s).cyc = s.cyc := rfl
  have hs : (killAt i s).samplerPos = s.samplerPos := rfl
  simp only [tryPut, findWorker_killAt, hc, hs]
  by_cases h : (!c.iterable && decide (c.batches.length ≤ s.samplerPos)) = true
  · simp only [h, if_true]; rfl
  · simp only [h]
    rcases hf : findWorker c s c.W s.cyc with ⟨_ | w, cyc⟩
    · rfl
    · simp [dispatchTo_killAt]

theorem prime_killAt (c : Cfg) (i : Nat) (n : Nat) (s : State) : prime c n (killAt i s) = killAt i (prime c n s) := by
  induction n generalizing s with
  | zero => rfl
  | succ n ih => unfold prime; rw [tryPut_killAt, ih]

theorem initW_modify (c : Cfg) (ws : List Worker) (i : Nat) :
    initW c (ws.modify i deaden) = killAt i (initW c ws) := by
  unfold initW
  rw [resetTail_eq', resetTail_eq', ← prime_killAt]
  rfl

theorem set_eq_modify (ws : List Worker) (i : Nat) (k : Worker) (h : ws[i]? = some k) :
    ws.set i (deaden k) = ws.modify i deaden := by
  apply List.ext_getElem?
  intro j
  rw [List.getElem?_set, List.getElem?_modify]
  by_cases hij : i = j
  · subst hij
    obtain ⟨hlt, hget⟩ := List.getElem?_eq_some_iff.mp h
    simp [hlt, hget]
  · simp only [hij, if_false]
    cases ws[j]? <;> rfl

/-- Killing a live worker of a fresh iterator. -/
theorem step_kill_initW (c : Cfg) (ws : List Worker) (i : Nat) (k : Worker) (h : ws[i]? = some k)
    (hal : k.alive = true) : step c (initW c ws) (.kill i) = some (initW c (ws.modify i deaden)) := by
  have hf : Frame (tailArg c (resetHead c (baseState c ws))) (initW c ws) := prime_frame c _ _
  have hlen : i < (initW c ws).workers.length := by
    rw [hf.wk.1]; exact (List.getElem?_eq_some_iff.mp h).1
  obtain ⟨k0, hk0, _, _, a3, _⟩ := hf.wk.2 i _ (List.getElem?_eq_getElem hlen)
  have hk0' : ws[i]? = some k0 := hk0
  rw [h] at hk0'
  cases hk0'
  simp only [step, List.getElem?_eq_getElem hlen]
  rw [a3, hal]
  simp only [Bool.not_true, Bool.false_eq_true, if_false]
  rw [initW_modify]
  congr 1
  unfold killAt
  congr 1
  exact set_eq_modify _ i _ (List.getElem?_eq_getElem hlen)

def live : Worker := ⟨[], 0, false, true⟩

/-- The first `n` workers as in `ws`, the others live and fresh. -/
def mixF (ws : List Worker) (n : Nat) : List Worker :=
  (List.range ws.length).map (fun i => if i < n then ws.getD i live else live)

theorem mixF_get (ws : List Worker) (n i : Nat) :
    (mixF ws n)[i]? = if i < ws.length then some (if i < n then ws.getD i live else live) else none := by
  simp only [mixF, List.getElem?_map]
  by_cases h : i < ws.length
  · simp [h]
  · simp [h]

theorem mixF_zero (ws : List Worker) : mixF ws 0 = List.replicate ws.length live := by
  apply List.ext_getElem?
  intro i
  rw [mixF_get, List.getElem?_replicate]
  simp

theorem mixF_full (ws : List Worker) : mixF ws ws.length = ws := by
  apply List.ext_getElem?
  intro i
  rw [mixF_get]
  by_cases h : i < ws.length
  · simp [h, List.getD_eq_getElem?_getD]
  · simp [h]

theorem fresh_worker (k : Worker) (h1 : k.q = []) (h2 : k.pos = 0) (h3 : k.iterEnd = false) :
    k = if k.alive then live else deaden live := by
  obtain ⟨q, p, e, a⟩ := k
  simp only at h1 h2 h3
  subst h1 h2 h3
  cases a <;> rfl

theorem mixF_succ (c : Cfg) (ws : List Worker) (n : Nat) (h : FreshW c ws) (hn : n < ws.length) :
    mixF ws (n + 1) = if ws[n].alive then mixF ws n else (mixF ws n).modify n deaden := by
  obtain ⟨f1, f2, f3⟩ := h.2 ws[n] (List.getElem_mem hn)
  have hk := fresh_worker ws[n] f1 f2 f3
  apply List.ext_getElem?
  intro i
  by_cases hal : ws[n].alive = true
  · rw [if_pos hal, mixF_get, mixF_get]
    rw [hal] at hk
    by_cases hi : i = n
    · subst hi
      simp [hn, List.getD_eq_getElem?_getD]
      exact hk
    · by_cases h1 : i < n
      · have : i < n + 1 := by omega
        simp [h1, this]
      · have : ¬ i < n + 1 := by omega
        simp [h1, this]
  · rw [if_neg hal, List.getElem?_modify, mixF_get, mixF_get]
    simp only [hal] at hk
    by_cases hi : i = n
    · subst hi
      simp [hn, List.getD_eq_getElem?_getD]
      exact hk
    · have hni : ¬ n = i := fun e => hi e.symm
      by_cases h1 : i < n
      · have : i < n + 1 := by omega
        by_cases h2 : i < ws.length <;> simp [h1, this, hni, h2]
      · have : ¬ i < n + 1 := by omega
        by_cases h2 : i < ws.length <;> simp [h1, this, hni, h2]

def IsKill (a : Action) : Prop := ∃ w, a = .kill w

theorem kills_noReset (l : List Action) (h : ∀ a ∈ l, IsKill a) : NoReset l := by
  induction l with
  | nil => trivial
  | cons a l ih =>
    refine ⟨?_, ih (fun x hx => h x (List.mem_cons_of_mem _ hx))⟩
    obtain ⟨w, rfl⟩ := h a (List.mem_cons_self ..)
    simp

/-- Any fresh worker set is reached from `init` by killing its dead workers. -/
theorem kills_exist (c : Cfg) (ws : List Worker) (h : FreshW c ws) (n : Nat) (hn : n ≤ ws.length) :
    ∃ kills, (∀ a ∈ kills, IsKill a) ∧ run c (init c) kills = some (initW c (mixF ws n)) := by
  induction n with
  | zero =>
    refine ⟨[], by simp, ?_⟩
    rw [mixF_zero, h.1]
    rfl
  | succ n ih =>
    obtain ⟨kills, hk, hr⟩ := ih (by omega)
    have hlt : n < ws.length := by omega
    rw [mixF_succ c ws n h hlt]
    by_cases hal : ws[n].alive = true
    · rw [if_pos hal]; exact ⟨kills, hk, hr⟩
    · rw [if_neg hal]
      refine ⟨kills ++ [.kill n], ?_, ?_⟩
      · intro a ha
        rcases List.mem_append.mp ha with h1 | h1
        · exact hk a h1
        · simp at h1; exact ⟨n, h1⟩
      · rw [run_append, hr]
        simp only [Option.bind_some, run]
        have hget : (mixF ws n)[n]? = some live := by rw [mixF_get]; simp [hlt]
        rw [step_kill_initW c (mixF ws n) n live hget rfl]

theorem kills_exist' (c : Cfg) (ws : List Worker) (h : FreshW c ws) :
    ∃ kills, (∀ a ∈ kills, IsKill a) ∧ run c (init c) kills = some (initW c ws) := by
  have := kills_exist c ws h ws.length (Nat.le_refl _)
  rwa [mixF_full] at this

end TDV.MPU
