import TorchDataVerif.Model.MPRestore
import TorchDataVerif.Proofs.MPMapThm
/-!
# MPR, map-style: the stored snapshot is the ideal state at `snapshot_step`

* `wsIdeal W t` — closed form of the ideal worker states after `t` consumed map-style tasks;
* `idealAt_map` — `idealAt` unfolded for map-style configurations without failing fetches;
* `wsAfter_boundary` — **the window lemma**: at a multiple `m` of the interval the accumulated worker
  snapshots `wsAfter c m` (which only see the tasks that carried the `snapshot` flag) equal the ideal
  worker states, because each worker's last task below `m` lies in `[m − W, m)` and every task in that
  window is flagged by `_try_put_index`;
* `SW` — the run invariant `snapshot.worker_states = wsAfter c snapshot.main`.
-/
namespace TDV.MPR

open TDV.MP

/-! ## the ideal worker states, map-style -/

def bump (st : WSt) : WSt := { st with pos := st.pos + 1 }

/-- Ideal worker states after `t` consumed map-style tasks: task `i` advanced worker `i % W`. -/
def wsIdeal (W : Nat) : Nat → List WSt
  | 0 => List.replicate W ⟨0, false⟩
  | t + 1 => (wsIdeal W t).modify (t % W) bump

theorem wsIdeal_length (W t : Nat) : (wsIdeal W t).length = W := by
  induction t with
  | zero => simp [wsIdeal]
  | succ t ih => simp [wsIdeal, ih]

theorem wsAfter_length (c : Cfg) (t : Nat) : (wsAfter c t).length = c.W := by
  induction t with
  | zero => simp [wsAfter]
  | succ t ih =>
    simp only [wsAfter]
    cases stOf c t with
    | none => simpa [applyDelta] using ih
    | some st => simpa [applyDelta] using ih

/-- The next task of worker `w` at or after task `t` is `w + W·j` (so `w` has done `j` fetches before `t`). -/
def NextAt (W t w j : Nat) : Prop := t ≤ w + W * j ∧ w + W * j < t + W

theorem nextAt_zero (W w : Nat) (hw : w < W) : NextAt W 0 w 0 := by
  unfold NextAt; simp; exact hw

theorem nextAt_hit (W t w j : Nat) (hW : 0 < W) (hw : w < W) (h : NextAt W t w j) (hm : t % W = w) :
    w + W * j = t ∧ NextAt W (t + 1) w (j + 1) := by
  have h1 : w + W * j = t :=
    eq_of_mod_eq W t (w + W * j) hW h.1 h.2 (by rw [add_mul_mod W w j hw, hm])
  refine ⟨h1, ?_⟩
  unfold NextAt
  rw [Nat.mul_succ]
  omega

theorem nextAt_miss (W t w j : Nat) (hw : w < W) (h : NextAt W t w j) (hm : t % W ≠ w) :
    NextAt W (t + 1) w j := by
  have hne : w + W * j ≠ t := by
    intro he
    apply hm
    rw [← he, add_mul_mod W w j hw]
  unfold NextAt at h ⊢
  omega

/-- The joint invariant of the ideal worker states and the accumulated worker snapshots: worker `w` has
done `j` fetches in the ideal state, and the accumulated snapshot agrees unless `w`'s last task was sent
without the `snapshot` flag. -/
def WsRel (c : Cfg) (t : Nat) : Prop :=
  ∀ w, w < c.W → ∃ j, NextAt c.W t w j ∧ (wsIdeal c.W t)[w]? = some ⟨j, false⟩ ∧
    ((wsAfter c t)[w]? = some ⟨j, false⟩ ∨ (0 < j ∧ flag2 c (w + c.W * (j - 1)) = false))

theorem wsRel_zero (c : Cfg) : WsRel c 0 := by
  intro w hw
  refine ⟨0, nextAt_zero c.W w hw, ?_, Or.inl ?_⟩
  · simp [wsIdeal, hw]
  · simp [wsAfter, hw]

theorem wsRel_succ (c : Cfg) (t : Nat) (hW : 0 < c.W) (b : Nat) (hb : c.batches[t]? = some (.ok b))
    (h : WsRel c t) : WsRel c (t + 1) := by
  intro w hw
  obtain ⟨j, hn, hi, ha⟩ := h w hw
  have hst : stOf c t = if flag2 c t then some ⟨t / c.W + 1, false⟩ else none := by
    simp [stOf, hb]
  by_cases hm : t % c.W = w
  · obtain ⟨he, hn'⟩ := nextAt_hit c.W t w j hW hw hn hm
    refine ⟨j + 1, hn', ?_, ?_⟩
    · simp only [wsIdeal, List.getElem?_modify, hm, if_true, hi, bump]; rfl
    · have hdiv : t / c.W = j := by rw [← he]; exact add_mul_div c.W w j hw
      cases hf : flag2 c t with
      | true =>
        left
        simp only [wsAfter, hst, hf, if_true, applyDelta, hm, hdiv]
        rw [List.getElem?_set_self (by rw [wsAfter_length]; exact hw)]
      | false =>
        right
        refine ⟨Nat.succ_pos _, ?_⟩
        simp only [Nat.add_sub_cancel, he, hf]
  · refine ⟨j, nextAt_miss c.W t w j hw hn hm, ?_, ?_⟩
    · simp only [wsIdeal, List.getElem?_modify, hm, if_false, hi]; rfl
    · have : (wsAfter c (t + 1))[w]? = (wsAfter c t)[w]? := by
        simp only [wsAfter]
        cases stOf c t with
        | none => rfl
        | some st => simp only [applyDelta]; rw [List.getElem?_set_ne hm]
      rw [this]; exact ha

theorem errFree_get (c : Cfg) (he : errFree c) (t : Nat) (ht : t < c.batches.length) :
    ∃ b, c.batches[t]? = some (.ok b) := by
  have hmem : c.batches[t] ∈ c.batches := List.getElem_mem ht
  cases hx : c.batches[t] with
  | ok b => exact ⟨b, by rw [List.getElem?_eq_getElem ht, hx]⟩
  | err => exact absurd hx (he _ hmem)

theorem wsRel_all (c : Cfg) (hW : 0 < c.W) (he : errFree c) (t : Nat) (ht : t ≤ c.batches.length) : WsRel c t := by
  induction t with
  | zero => exact wsRel_zero c
  | succ t ih =>
    obtain ⟨b, hb⟩ := errFree_get c he t (by omega)
    exact wsRel_succ c t hW b hb (ih (by omega))

/-- `m` can be a `snapshot_step`: 0 without interval, a multiple of the interval otherwise. -/
def SnapStep (c : Cfg) (m : Nat) : Prop := (c.interval = 0 → m = 0) ∧ (c.interval ≠ 0 → c.interval ∣ m)

/-- **The window of `_try_put_index`, map-style.**  Every task among the last `W` before a multiple of the
interval is dispatched with `snapshot = True`, for every interval ≥ 1 and every `W`. -/
theorem flag_window (c : Cfg) (hm : c.iterable = false) (hI : c.interval ≠ 0) (m i : Nat)
    (hd : c.interval ∣ m) (h1 : i < m) (h2 : m ≤ i + c.W) : flag2 c i = true := by
  unfold flag2 flags
  simp only [hI, hm, if_false, Bool.false_eq_true, Nat.add_sub_cancel, decide_eq_true_eq]
  obtain ⟨q, rfl⟩ := hd
  have hpos : 0 < c.interval := Nat.pos_of_ne_zero hI
  have hdm := Nat.div_add_mod i c.interval
  have hlt := Nat.mod_lt i hpos
  -- i / I < q
  have hq : i / c.interval < q := by
    apply Nat.div_lt_of_lt_mul
    exact h1
  have : c.interval * (i / c.interval + 1) ≤ c.interval * q := Nat.mul_le_mul_left _ hq
  rw [Nat.mul_succ] at this
  omega

/-- **The windows of `_try_put_index`, iterable branch — the arithmetic.**  A task dispatched at
`_num_yielded = y` and yielded as batch number `n` (`y < n ≤ y + 1 + W·P`):
* if `n` is a multiple `B` of the interval, it was dispatched with `snapshot_main = True`;
* if the next multiple `B ≥ n` of the interval is less than `W` yields away (`B < n + W`: the task can be its
  worker's last one yielded before the boundary), it was dispatched with `snapshot = True`.
The two protocol facts used as hypotheses (`n ≤ y + 1 + W·P`; consecutive live tasks of a worker are `≤ W`
yields apart) are what `snapshot_sound_iter_statement` still needs from the iterable invariant. -/
theorem flag_window_iter (c : Cfg) (hit : c.iterable = true) (hI : c.interval ≠ 0) (sp y n B : Nat)
    (hd : c.interval ∣ B) (hyn : y < n) (hnB : n ≤ B) (hT1 : n ≤ y + 1 + c.W * c.P) :
    (n = B → (flags c sp y).1 = true) ∧ (B < n + c.W → (flags c sp y).2 = true) := by
  unfold flags
  simp only [hI, hit, if_false, if_true, decide_eq_true_eq, ge_iff_le]
  obtain ⟨b, rfl⟩ := hd
  have hpos : 0 < c.interval := Nat.pos_of_ne_zero hI
  have hdm := Nat.div_add_mod y c.interval
  have hq : y / c.interval < b := by
    apply Nat.div_lt_of_lt_mul
    omega
  have : c.interval * (y / c.interval + 1) ≤ c.interval * b := Nat.mul_le_mul_left _ hq
  rw [Nat.mul_succ] at this
  constructor
  · intro h; omega
  · intro h; omega

/-- **Window lemma.**  At a possible snapshot step the accumulated worker snapshots are the ideal worker
states. -/
theorem wsAfter_boundary (c : Cfg) (hW : 0 < c.W) (hm : c.iterable = false) (he : errFree c) (m : Nat)
    (hle : m ≤ c.batches.length) (hs : SnapStep c m) : wsAfter c m = wsIdeal c.W m := by
  apply List.ext_getElem?
  intro w
  by_cases hw : w < c.W
  · obtain ⟨j, hn, hi, ha⟩ := wsRel_all c hW he m hle w hw
    rw [hi]
    rcases ha with ha | ⟨hj, hf⟩
    · exact ha
    · exfalso
      by_cases hI : c.interval = 0
      · have := hs.1 hI
        subst this
        unfold NextAt at hn
        have : c.W * j < c.W * 1 := by omega
        have := Nat.lt_of_mul_lt_mul_left this
        omega
      · have hj' : j = (j - 1) + 1 := by omega
        unfold NextAt at hn
        rw [hj', Nat.mul_succ] at hn
        have := flag_window c hm hI m (w + c.W * (j - 1)) (hs.2 hI) (by omega) (by omega)
        rw [this] at hf; cases hf
  · rw [List.getElem?_eq_none (by rw [wsAfter_length]; omega),
        List.getElem?_eq_none (by rw [wsIdeal_length]; omega)]

/-! ## `idealAt` for map-style configurations -/

theorem mapEvents_append (W i : Nat) (a b : List Item) :
    mapEvents W i (a ++ b) = mapEvents W i a ++ mapEvents W (i + a.length) b := by
  induction a generalizing i with
  | nil => simp [mapEvents]
  | cons x a ih =>
    simp only [List.cons_append, mapEvents, List.length_cons, ih]
    congr 3; omega

theorem mapEvents_length (W i : Nat) (l : List Item) : (mapEvents W i l).length = l.length := by
  induction l generalizing i with
  | nil => rfl
  | cons x l ih => simp [mapEvents, ih]

theorem cut_mapEvents (W i : Nat) (l : List Item) (n : Nat) (he : ∀ it ∈ l, it ≠ Item.err) (hn : n ≤ l.length) :
    cut (mapEvents W i l) n = mapEvents W i (l.take n) := by
  induction l generalizing i n with
  | nil => simp [mapEvents, cut]
  | cons x l ih =>
    cases n with
    | zero => simp [mapEvents, cut]
    | succ n =>
      cases x with
      | err => exact absurd rfl (he _ (List.mem_cons_self ..))
      | ok b =>
        simp only [mapEvents, cut, List.take_succ_cons, Nat.add_one_ne_zero, if_false, Nat.add_sub_cancel]
        rw [ih (i + 1) n (fun it h => he it (List.mem_cons_of_mem _ h)) (by simpa using hn)]

theorem foldl_mapEvents (W : Nat) (l : List Item) (n : Nat) (hn : n ≤ l.length) :
    (mapEvents W 0 (l.take n)).foldl applyEv (List.replicate W ⟨0, false⟩) = wsIdeal W n := by
  induction n with
  | zero => simp [mapEvents, wsIdeal]
  | succ n ih =>
    have hlt : n < l.length := by omega
    rw [List.take_succ_eq_append_getElem hlt, mapEvents_append, List.foldl_append, ih (by omega)]
    simp only [List.length_take, Nat.zero_add, Nat.min_eq_left (Nat.le_of_lt hlt), mapEvents, List.foldl_cons,
      List.foldl_nil, applyEv, wsIdeal]
    rfl

theorem lastOwner_mapEvents (W : Nat) (l : List Item) (n : Nat) (hn : n ≤ l.length) :
    lastOwner W (mapEvents W 0 (l.take n)) = if n = 0 then W - 1 else (n - 1) % W := by
  cases n with
  | zero => simp [mapEvents, lastOwner]
  | succ n =>
    have hlt : n < l.length := by omega
    rw [List.take_succ_eq_append_getElem hlt, mapEvents_append]
    simp only [List.length_take, Nat.zero_add, Nat.min_eq_left (Nat.le_of_lt hlt), mapEvents, lastOwner,
      List.getLast?_append, List.getLast?_singleton, Nat.add_one_ne_zero, if_false, Nat.add_sub_cancel]
    rfl

/-- `idealAt` in closed form, map-style, no failing fetch: step `n`, owner of task `n − 1`, sampler position
`n`, worker `w` after its tasks among the first `n`. -/
theorem idealAt_map (c : Cfg) (hm : c.iterable = false) (he : errFree c) (n : Nat) (hn : n ≤ c.batches.length) :
    idealAt c n = ⟨n, if n = 0 then c.W - 1 else (n - 1) % c.W, n, wsIdeal c.W n⟩ := by
  unfold idealAt events
  simp only [hm, Bool.false_eq_true, if_false]
  rw [cut_mapEvents c.W 0 c.batches n he hn, foldl_mapEvents c.W c.batches n hn,
    lastOwner_mapEvents c.W c.batches n hn, mapEvents_length, List.length_take, Nat.min_eq_left hn]

/-! ## the run invariant `snapshot.worker_states = wsAfter c snapshot.main` -/

/-- What one action can do to the stored snapshot: nothing, or `_take_snapshot` stored the current
accumulated worker snapshots together with the main snapshot of the task just consumed. -/
def SnapRel (s s' : State) : Prop :=
  s'.snap = s.snap ∨ (s'.snap.ws = s'.wsnaps ∧ s'.snap.main = s'.rcvdIdx)

theorem popProc_snapRel (c : Cfg) (s : State) (e : Info) (l : List Info) (r : Res) (hv : c.Valid)
    (hm : c.iterable = false) (hio : c.inOrder = true) (hmid : MidM c s) (hsn : SnapM c s)
    (hi : s.info = e :: l) : SnapRel s (popProc c s l r) := by
  have hinfo := hmid.info
  rw [hi] at hinfo
  have hlen := hmid.len
  rw [hi] at hlen
  simp only [List.length_cons] at hlen
  obtain ⟨lo, hlo, hms⟩ := hsn.ms
  have h1 : MidM c { s with info := l, rcvdIdx := s.rcvdIdx + 1, numTasks := s.numTasks.modify r.w (· - 1) } := by
    refine ⟨hmid.status, hmid.sp, hmid.le, hmid.cyc, ?_, hinfo.2.2.2, hmid.wlen, hmid.msgs, hmid.resq⟩
    simp only; omega
  obtain ⟨hms2, hle2⟩ := tryPut_ms c _ lo hv hm hio h1 hms (by simp only; omega)
  have hc := tryPut_sameCore c { s with info := l, rcvdIdx := s.rcvdIdx + 1, numTasks := s.numTasks.modify r.w (· - 1) }
  have hproc : processData c { s with info := l, rcvdIdx := s.rcvdIdx + 1 } r =
      (match r.kind with
       | .data b => yieldItem c (tryPut c { s with info := l, rcvdIdx := s.rcvdIdx + 1, numTasks := s.numTasks.modify r.w (· - 1) }) r b
       | _ => (tryPut c { s with info := l, rcvdIdx := s.rcvdIdx + 1, numTasks := s.numTasks.modify r.w (· - 1) }, .error)) := by
    unfold processData; rfl
  generalize tryPut c { s with info := l, rcvdIdx := s.rcvdIdx + 1, numTasks := s.numTasks.modify r.w (· - 1) } = s2
    at hms2 hle2 hc hproc
  have hr2 : s2.rcvdIdx = s.rcvdIdx + 1 := hc.rcvdIdx
  have hsnap2 : s2.snap = s.snap := hc.snap
  simp only at hle2
  unfold popProc
  rw [hproc]
  cases hk : r.kind with
  | data b =>
    simp only
    have hy := yieldItem_cases c s2 r b s.rcvdIdx lo hm hms2 hlo hr2 (by omega)
    have hp := yieldItem_sameProto c s2 r b
    have hw := yieldItem_wsnaps c s2 r b hio
    generalize yieldItem c s2 r b = y at hy hp hw
    obtain ⟨s3, o⟩ := y
    simp only at hy hp hw
    simp only [finish, SnapRel]
    cases hy with
    | plain hf ho hny hms3 hsn3 => left; rw [hsn3, hsnap2]
    | snap hI hf ho hny hms3 hsn3 =>
      right
      rw [hsn3, hw, hp.rcvdIdx, hr2]
      exact ⟨rfl, rfl⟩
  | error => left; simp only [finish]; exact hsnap2
  | notice => left; simp only [finish]; exact hsnap2
  | ack => left; simp only [finish]; exact hsnap2

theorem loopCase_snapRel (c : Cfg) (s s' : State) (hv : c.Valid) (hm : c.iterable = false) (hio : c.inOrder = true)
    (hmid : MidM c s) (hsn : SnapM c s) (hl : LoopCase c s s') : SnapRel s s' := by
  cases hl with
  | stop hle heq =>
    subst heq
    left
    simp only [finish]
    split
    · rfl
    · exact (shutdownWorkers_sameMain c s).snap
  | wait e l hi hres heq => subst heq; exact Or.inl rfl
  | proc e l r hi hres hg hri heq =>
    subst heq
    exact popProc_snapRel c s e l r hv hm hio hmid hsn hi

theorem SnapRel_of_eq (a b s' : State) (h : SnapRel a s') (e : a.snap = b.snap) : SnapRel b s' := by
  unfold SnapRel at h ⊢
  rw [← e]; exact h

theorem step_snapRel (c : Cfg) (s s' : State) (a : Action) (hv : c.Valid) (hm : c.iterable = false)
    (hio : c.inOrder = true) (ha : a ≠ .reset) (h : InvM c s) (hsn : SnapM c s) (hst : step c s a = some s') :
    SnapRel s s' ∨ died s' := by
  cases step_cases c s s' a hv hm hio ha h hst with
  | died hd => exact Or.inr hd
  | passive hs hph hobs => exact Or.inl (Or.inl hs.snap)
  | nextDown hsd heq => subst heq; exact Or.inl (Or.inl rfl)
  | nextLoop hsd hph hl => exact Or.inl (loopCase_snapRel c s s' hv hm hio (h.mid hsd) hsn hl)
  | recv r rest hsd hph hq hg hlt hmid0 hr =>
    left
    have hsn0 : SnapM c { s with resQ := rest } := SnapM_frame c s _ [] hsn rfl (by simp) rfl (by simp) rfl rfl rfl rfl
    cases hr with
    | now e l hi hri heq =>
      subst heq
      have hmid1 : MidM c { s with resQ := rest, outstanding := s.outstanding - 1 } :=
        MidM_of_eq c _ _ hmid0 rfl rfl rfl rfl rfl rfl rfl rfl
      have hsn1 : SnapM c { s with resQ := rest, outstanding := s.outstanding - 1 } :=
        SnapM_frame c _ _ [] hsn0 rfl (by simp) rfl (by simp) rfl rfl rfl rfl
      exact SnapRel_of_eq _ s _ (popProc_snapRel c _ e l r hv hm hio hmid1 hsn1 hi) rfl
    | store hne hmid2 hl =>
      have hsn2 : SnapM c { s with resQ := rest, outstanding := s.outstanding - 1, info := setRes s.info r.idx r } :=
        SnapM_frame c _ _ [] hsn0 rfl (by simp) rfl (by simp) rfl rfl rfl rfl
      exact SnapRel_of_eq _ s _ (loopCase_snapRel c _ s' hv hm hio hmid2 hsn2 hl) rfl

/-- All map-style invariants of the original development plus the snapshot-content invariant. -/
structure AllM (c : Cfg) (s : State) : Prop where
  inv : InvM c s
  sn : SnapM c s
  dl : DeltaM c s
  sw : s.snap.ws = wsAfter c s.snap.main

theorem step_allM (c : Cfg) (s s' : State) (a : Action) (hv : c.Valid) (hm : c.iterable = false)
    (hio : c.inOrder = true) (ha : a ≠ .reset) (h : AllM c s) (hst : step c s a = some s') :
    AllM c s' ∨ died s' := by
  rcases step_invM c s s' a hv hm hio ha h.inv hst with h1 | h1
  · rcases step_snapM c s s' a hv hm hio ha h.inv h.sn hst with h2 | h2
    · rcases step_deltaM c s s' a hv hm hio ha h.inv h.dl hst with h3 | h3
      · rcases step_snapRel c s s' a hv hm hio ha h.inv h.sn hst with h4 | h4
        · left
          refine ⟨h1, h2, h3, ?_⟩
          rcases h4 with h4 | ⟨h4, h5⟩
          · rw [h4]; exact h.sw
          · rw [h4, h5]; exact h3.ws
        · exact Or.inr h4
      · exact Or.inr h3
    · exact Or.inr h2
  · exact Or.inr h1

theorem run_allM (c : Cfg) (as : List Action) (s s' : State) (hv : c.Valid) (hm : c.iterable = false)
    (hio : c.inOrder = true) (hnr : NoReset as) (h : AllM c s ∨ died s) (hr : run c s as = some s') :
    AllM c s' ∨ died s' := by
  induction as generalizing s with
  | nil => simp only [run] at hr; cases hr; exact h
  | cons a as ih =>
    simp only [run] at hr
    split at hr
    · cases hr
    · rename_i s1 hs1
      refine ih s1 hnr.2 ?_ hr
      rcases h with h | h
      · exact step_allM c s s1 a hv hm hio hnr.1 h hs1
      · exact Or.inr (died_step c s s1 a hs1 h)

theorem init_allM (c : Cfg) (hv : c.Valid) (hm : c.iterable = false) (hio : c.inOrder = true) : AllM c (init c) := by
  refine ⟨init_invM c hv hm hio, init_snapM c hv hm hio, init_deltaM c hv hm hio, ?_⟩
  unfold init resetTail
  generalize hs0 : ({ resetHead c _ with mainSnaps := [], lastW := c.W - 1, snap := _ } : State) = s0
  have hc := prime_sameCore c (c.P * c.W) s0
  rw [hc.snap]
  subst hs0
  rfl

theorem allM_rcvd_le (c : Cfg) (s : State) (h : AllM c s) : s.rcvdIdx ≤ c.batches.length := by
  rcases Bool.eq_false_or_eq_true s.shutdown with hsd | hsd
  · rw [(h.inv.down hsd).2.2]; exact Nat.le_refl _
  · have hmid := h.inv.mid hsd
    have := hmid.len; have := hmid.le
    omega

theorem allM_snapStep (c : Cfg) (s : State) (h : AllM c s) (he : errFree c) : SnapStep c s.snap.step :=
  ⟨h.sn.st0, fun h0 => (h.sn.st he h0).1⟩

/-- `snapshot_step` as a function of `_num_yielded`. -/
theorem allM_step_eq (c : Cfg) (s : State) (h : AllM c s) (he : errFree c) :
    s.snap.step = if c.interval = 0 then 0 else c.interval * (s.numYielded / c.interval) := by
  by_cases h0 : c.interval = 0
  · simp [h0, h.sn.st0 h0]
  · obtain ⟨⟨k, hk⟩, h2, h3⟩ := h.sn.st he h0
    simp only [h0, if_false]
    rw [hk] at h2 h3 ⊢
    congr 1
    exact (Nat.div_eq_of_lt_le (by rw [Nat.mul_comm]; exact h2) (by rw [Nat.mul_comm, Nat.mul_succ]; exact h3)).symm

/-- **Soundness of the stored snapshot** from the invariants: it is the ideal state at `snapshot_step`. -/
theorem allM_sound (c : Cfg) (hv : c.Valid) (hm : c.iterable = false) (he : errFree c) (s : State) (h : AllM c s) :
    s.snap = idealAt c s.snap.step := by
  have hle : s.snap.step ≤ c.batches.length := by
    have h1 := allM_rcvd_le c s h
    have h2 := h.sn.al he
    by_cases h0 : c.interval = 0
    · rw [h.sn.st0 h0]; exact Nat.zero_le _
    · have := (h.sn.st he h0).2.1; omega
  rw [idealAt_map c hm he _ hle]
  obtain ⟨hlw, hmain⟩ := h.sn.lw he
  have hws := h.sw
  rw [hmain, wsAfter_boundary c hv.1 hm he _ hle (allM_snapStep c s h he)] at hws
  rcases hs : s.snap with ⟨st, lw, mn, ws⟩
  rw [hs] at hlw hmain hws
  simp only at hlw hmain hws
  rw [hlw, hmain, hws]

end TDV.MPR
