import TorchDataVerif.Model.MPRestore
import TorchDataVerif.Proofs.MPMapThm
/-!
# MPR, map-style: the stored snapshot is the ideal state at `snapshot_step`

* `wsIdeal W t` — closed form of the ideal worker states after `t` consumed map-style tasks;
* `idealAt_map` — `idealAt` unfolded for map-style configurations without failing fetches;
* `wsAfter_boundary` — **the window lemma**: at a multiple `m` of the interval the accumulated worker
  snapshots `wsAfter c m` (which only see the tasks that carried the `snapshot` flag) equal the ideal
  worker states, because each worker's last task below `m` lies in `[m − W, m)` and every task in that
  window is flagged by `_try_put_index`;
* `SW` — the run invariant `snapshot.worker_states = wsAfter c snapshot.main`.
-/
namespace TDV.MPR

open TDV.MP

/-! ## the ideal worker states, map-style -/

def bump (st : WSt) : WSt := { st with pos := st.pos + 1 }

/-- Ideal worker states after `t` consumed map-style tasks: task `i` advanced worker `i % W`. -/
def wsIdeal (W : Nat) : Nat → List WSt
  | 0 => List.replicate W ⟨0, false⟩
  | t + 1 => (wsIdeal W t).modify (t % W) bump

theorem wsIdeal_length (W t : Nat) : (wsIdeal W t).length = W := by
  induction t with
  | zero => simp [wsIdeal]
  | succ t ih => simp [wsIdeal, ih]

theorem wsAfter_length (c : Cfg) (t : Nat) : (wsAfter c t).length = c.W := by
  induction t with
  | zero => simp [wsAfter]
  | succ t ih =>
    simp only [wsAfter]
    cases stOf c t with
    | none => simpa [applyDelta] using ih
    | some st => simpa [applyDelta] using ih

end TDV.MPR
