import TorchDataVerif.Model.Loader
/-!
From the bisimulation `R` that `Lawful root` provides (not assumed symmetric or transitive) to an
equivalence-like relation `E` on reachable runtime states of the root that is still a guarded bisimulation:
symmetric, and transitive whenever the middle state has seen a `next()` if both ends have (the guard of
`Bisim.resetNone`).  All Loader-level bisimulations are stated over `E`.
-/
namespace TDV.Loader
open TDV.Node

/-! ### Generic helpers -/

/-- Token lists correspond position by position. -/
def LRel {α β : Type} (P : α → β → Prop) (s : List α) (t : List β) : Prop :=
  s.length = t.length ∧ ∀ (i : Nat) a b, s[i]? = some a → t[i]? = some b → P a b

def ORel {α β : Type} (P : α → β → Prop) : Option α → Option β → Prop
  | none, none => True
  | some a, some b => P a b
  | _, _ => False

theorem lrel_append {α β : Type} {P : α → β → Prop} {s : List α} {t : List β} {a : α} {b : β}
    (h : LRel P s t) (hab : P a b) : LRel P (s ++ [a]) (t ++ [b]) := by
  refine ⟨by simp [h.1], ?_⟩
  intro i x y hx hy
  rcases Nat.lt_or_ge i s.length with hlt | hge
  · rw [List.getElem?_append_left hlt] at hx
    rw [List.getElem?_append_left (h.1 ▸ hlt)] at hy
    exact h.2 i x y hx hy
  · rw [List.getElem?_append_right hge] at hx
    rw [List.getElem?_append_right (h.1 ▸ hge)] at hy
    rw [h.1] at hx
    cases hi : i - t.length with
    | zero =>
      rw [hi] at hx hy
      simp at hx hy
      subst hx hy
      exact hab
    | succ n =>
      rw [hi] at hx
      simp at hx

theorem lrel_get {α β : Type} {P : α → β → Prop} {s : List α} {t : List β} (h : LRel P s t) (i : Nat) :
    ORel P s[i]? t[i]? := by
  cases hs : s[i]? with
  | none =>
    have : t[i]? = none := by
      rw [List.getElem?_eq_none_iff] at hs ⊢
      have := h.1
      omega
    rw [this]
    trivial
  | some a =>
    cases ht : t[i]? with
    | none =>
      rw [List.getElem?_eq_none_iff] at ht
      have : s[i]? = none := by
        rw [List.getElem?_eq_none_iff]
        have := h.1
        omega
      rw [this] at hs
      cases hs
    | some b => exact h.2 i a b hs ht


section
variable {root : Node}

/-- The existing `_it`, or a new `LoaderIterator` over the root as it is. -/
def itOr (base : Run root) : Option (It root) → It root
  | some it => it
  | none => newIt root base

theorem iterCore_eq (restart : Bool) (s : State root) :
    iterCore root restart s =
      match s.it, s.iterForSd with
      | some it, true => ⟨none, it, s.pending, false⟩
      | oit, _ => startIt root restart s.pending s.iterForSd (itOr s.base oit) := by
  obtain ⟨it, pd, fl, hd, bs⟩ := s
  cases it <;> cases fl <;> simp [iterCore, itOr]

/-- The iterator on which `__iter__` applies a state loaded by `load_state_dict`. -/
def loadIt (s : State root) : It root :=
  match s.iterForSd, s.it with
  | true, some it => newIt root it.r
  | _, o => itOr s.base o

theorem iterCore_load (restart : Bool) (s : State root) (sd : SD root) :
    iterCore root restart (load root s sd) = startIt root restart (some sd) false (loadIt s) := by
  obtain ⟨si, sp, sf, sh, sb⟩ := s
  rw [iterCore_eq]
  cases si <;> cases sf <;> rfl

end

/-- `Lawful root`, unpacked. -/
structure LawSpec (root : Node) where
  R : Run root → Run root → Prop
  Q : root.S → root.S → Prop
  bis : Bisim root root R Q
  refl : ∀ s, Node.Reach root s → R s s
  l1 : ∀ s, Node.Reach root s → R (root.rget s).2 s
  l2 : ∀ s r, Node.Reach root s → Node.Reach root r → R (root.rreset r (some (root.rget s).1)) (root.rget s).2
  l2f : ∀ s, Node.Reach root s → R (root.rreset root.rfresh (some (root.rget s).1)) (root.rget s).2

theorem lawSpec_of {root : Node} (h : Lawful root) : Nonempty (LawSpec root) := by
  obtain ⟨R, Q, hb, h0, h1, h2, h3⟩ := h
  exact ⟨⟨R, Q, hb, h0, h1, h2, h3⟩⟩

section
variable {root : Node} (L : LawSpec root)

/-- `x` is a state dict that some reachable state of the root returned. -/
def Tok (x : root.S) : Prop := ∃ s, Node.Reach root s ∧ x = (root.rget s).1

inductive E : Run root → Run root → Prop where
  | base {a b : Run root} : L.R a b → Node.Reach root a → Node.Reach root b → E a b
  | symm {a b : Run root} : E a b → E b a
  | trans {a b c : Run root} : E a b → E b c → (a.nexted = true → c.nexted = true → b.nexted = true) → E a c

inductive EQ : root.S → root.S → Prop where
  | base {x y : root.S} : L.Q x y → Tok x → Tok y → EQ x y
  | symm {x y : root.S} : EQ x y → EQ y x
  | trans {x y z : root.S} : EQ x y → EQ y z → EQ x z

theorem E.reach {a b : Run root} (h : E L a b) : Node.Reach root a ∧ Node.Reach root b := by
  induction h with
  | base _ ha hb => exact ⟨ha, hb⟩
  | symm _ ih => exact ⟨ih.2, ih.1⟩
  | trans _ _ _ ih1 ih2 => exact ⟨ih1.1, ih2.2⟩

theorem EQ.tok {x y : root.S} (h : EQ L x y) : Tok x ∧ Tok y := by
  induction h with
  | base _ hx hy => exact ⟨hx, hy⟩
  | symm _ ih => exact ⟨ih.2, ih.1⟩
  | trans _ _ ih1 ih2 => exact ⟨ih1.1, ih2.2⟩

theorem E.rfl' {s : Run root} (h : Node.Reach root s) : E L s s := E.base (L.refl s h) h h

theorem EQ.rfl' {x : root.S} (h : Tok x) : EQ L x x := by
  obtain ⟨s, hs, rfl⟩ := h
  exact EQ.base (L.bis.get s s (L.refl s hs)).1 ⟨s, hs, rfl⟩ ⟨s, hs, rfl⟩

/-- Transitivity when the left end has not seen a `next()`. -/
theorem E.transL {a b c : Run root} (h1 : E L a b) (h2 : E L b c) (ha : a.nexted = false) : E L a c :=
  E.trans h1 h2 (by intro h; rw [ha] at h; cases h)

/-- Transitivity when the middle has the ghost bit of one end. -/
theorem E.transM {a b c : Run root} (h1 : E L a b) (h2 : E L b c) (hb : b.nexted = a.nexted ∨ b.nexted = c.nexted) :
    E L a c :=
  E.trans h1 h2 (by
    intro ha hc
    rcases hb with hb | hb
    · rw [hb, ha]
    · rw [hb, hc])

theorem E.next {a b : Run root} (h : E L a b) :
    (root.rnext a).1 = (root.rnext b).1 ∧ E L (root.rnext a).2 (root.rnext b).2 := by
  induction h with
  | base hr ha hb =>
    exact ⟨(L.bis.next _ _ hr).1, E.base (L.bis.next _ _ hr).2 (Node.Reach.next ha) (Node.Reach.next hb)⟩
  | symm _ ih => exact ⟨ih.1.symm, E.symm ih.2⟩
  | trans _ _ _ ih1 ih2 => exact ⟨ih1.1.trans ih2.1, E.trans ih1.2 ih2.2 (fun _ _ => rfl)⟩

theorem E.get {a b : Run root} (h : E L a b) :
    EQ L (root.rget a).1 (root.rget b).1 ∧ E L (root.rget a).2 (root.rget b).2 := by
  induction h with
  | base hr ha hb =>
    exact ⟨EQ.base (L.bis.get _ _ hr).1 ⟨_, ha, rfl⟩ ⟨_, hb, rfl⟩,
      E.base (L.bis.get _ _ hr).2 (Node.Reach.get ha) (Node.Reach.get hb)⟩
  | symm _ ih => exact ⟨EQ.symm ih.1, E.symm ih.2⟩
  | trans _ _ hg ih1 ih2 => exact ⟨EQ.trans ih1.1 ih2.1, E.trans ih1.2 ih2.2 hg⟩

theorem E.resetNone {a b : Run root} (h : E L a b) (ha : a.nexted = true) (hb : b.nexted = true) :
    E L (root.rreset a none) (root.rreset b none) := by
  induction h with
  | base hr ra rb =>
    exact E.base (L.bis.resetNone _ _ hr ha hb) (Node.Reach.resetNone ra) (Node.Reach.resetNone rb)
  | symm _ ih => exact E.symm (ih hb ha)
  | trans _ _ hg ih1 ih2 =>
    have hm := hg ha hb
    exact E.transL L (ih1 ha hm) (ih2 hm hb) rfl

/-- Loading one state dict into related states. -/
theorem E.resetSame {a b : Run root} (h : E L a b) {y : root.S} (hy : Tok y) :
    E L (root.rreset a (some y)) (root.rreset b (some y)) := by
  have hq : L.Q y y := by
    obtain ⟨s, hs, rfl⟩ := hy
    exact (L.bis.get s s (L.refl s hs)).1
  induction h with
  | base hr ra rb =>
    obtain ⟨s, hs, rfl⟩ := hy
    exact E.base (L.bis.resetSome _ _ _ _ hr hq) (Node.Reach.resetSome ra hs) (Node.Reach.resetSome rb hs)
  | symm _ ih => exact E.symm ih
  | trans _ _ _ ih1 ih2 => exact E.transL L ih1 ih2 rfl

/-- Loading related state dicts into one state. -/
theorem EQ.reset {x y : root.S} (h : EQ L x y) {a : Run root} (ha : Node.Reach root a) :
    E L (root.rreset a (some x)) (root.rreset a (some y)) := by
  induction h with
  | base hq hx hy =>
    obtain ⟨s, hs, rfl⟩ := hx
    obtain ⟨s', hs', rfl⟩ := hy
    exact E.base (L.bis.resetSome _ _ _ _ (L.refl a ha) hq) (Node.Reach.resetSome ha hs) (Node.Reach.resetSome ha hs')
  | symm _ ih => exact E.symm ih
  | trans _ _ ih1 ih2 => exact E.transL L ih1 ih2 rfl

theorem E.l1 {s : Run root} (h : Node.Reach root s) : E L (root.rget s).2 s :=
  E.base (L.l1 s h) (Node.Reach.get h) h

theorem E.l2 {s r : Run root} (hs : Node.Reach root s) (hr : Node.Reach root r) :
    E L (root.rreset r (some (root.rget s).1)) (root.rget s).2 :=
  E.base (L.l2 s r hs hr) (Node.Reach.resetSome hr hs) (Node.Reach.get hs)

theorem E.l2f {s : Run root} (hs : Node.Reach root s) :
    E L (root.rreset root.rfresh (some (root.rget s).1)) (root.rget s).2 :=
  E.base (L.l2f s hs) (Node.Reach.initSome hs) (Node.Reach.get hs)

/-- `r` is a runtime state the Loader may hold: reachable, or the never-reset root of a new pipeline. -/
def Held (r : Run root) : Prop := Node.Reach root r ∨ r = root.rfresh

/-- Loading the state taken at `s` into whatever the Loader holds continues from `s`. -/
theorem E.load {s r : Run root} (hs : Node.Reach root s) (hr : Held r) :
    E L (root.rreset r (some (root.rget s).1)) (root.rget s).2 := by
  rcases hr with hr | hr
  · exact E.l2 L hs hr
  · rw [hr]
    exact E.l2f L hs

/-- `reset(state)` forgets what was there before: related state dicts loaded into any two held states give
related states. -/
theorem E.forget {x y : root.S} (h : EQ L x y) {r r' : Run root} (hr : Held r) (hr' : Held r') :
    E L (root.rreset r (some x)) (root.rreset r' (some y)) := by
  have r0 : Node.Reach root (root.rreset root.rfresh none) := Node.Reach.initNone
  obtain ⟨⟨s, hs, hx⟩, ⟨s', hs', hy⟩⟩ := h.tok
  have h1 : E L (root.rreset r (some x)) (root.rreset (root.rreset root.rfresh none) (some x)) := by
    rw [hx]
    exact E.transL L (E.load L hs hr) (E.symm (E.l2 L hs r0)) rfl
  have h2 : E L (root.rreset (root.rreset root.rfresh none) (some y)) (root.rreset r' (some y)) := by
    rw [hy]
    exact E.transL L (E.l2 L hs' r0) (E.symm (E.load L hs' hr')) rfl
  exact E.transL L (E.transL L h1 (EQ.reset L h r0) rfl) h2 rfl

end
end TDV.Loader
