import TorchDataVerif.Proofs.MPRFFLast
import TorchDataVerif.Props.C01MPI
/-!
# MPRFF — the fast-forward constructor is the restore constructor applied to the snapshot of step 0

`ffStart c sn` differs from `restore c (sn0 c sn)` — the stateful constructor applied to the ideal state of step 0
with the saved sampler counter — in the stored snapshot only (`ffStart_eq`).  The replay contains no `state_dict`
call, so it is a run of `restore c (sn0 c sn)` (`run_rel`); `restore_ideal_iter` (step 0) and the invariant of
`Proofs/MPRFFLast.lean` describe its end state; once the check has passed the two end states are equal.
-/
namespace TDV.MPRFF

open TDV.MP TDV.MPR TDV.MPU

/-- The ideal state of step 0 with the saved sampler counter. -/
def sn0 (c : Cfg) (sn : Snap) : Snap := ⟨0, c.W - 1, sn.main, freshWs c⟩

/-- The snapshot `_update_snapshot` stores in the fast-forward branch. -/
def ffSnap (c : Cfg) (sn : Snap) : Snap := ⟨sn.step, sn.lastW, sn.main, freshWs c⟩

theorem ffStart_eq (c : Cfg) (hW : 0 < c.W) (sn : Snap) :
    ffStart c sn = setSnap (ffSnap c sn) (restore c (sn0 c sn)) := by
  unfold ffStart restore
  rw [← prime_setSnap]
  congr 1
  unfold ffBase restoreBase setSnap sn0 ffSnap freshWs
  have h1 : (c.W - 1 + 1) % c.W = 0 := by
    have : c.W - 1 + 1 = c.W := by omega
    rw [this, Nat.mod_self]
  simp only [restoreWorkers_fresh c c.W (Nat.le_refl _), h1]

theorem restore_sn0_core (c : Cfg) (sn : Snap) :
    (restore c (sn0 c sn)).snap = sn0 c sn ∧ (restore c (sn0 c sn)).obs = [] ∧ LInv (restore c (sn0 c sn)) := by
  unfold restore
  have hc := prime_sameCore c (c.P * c.W) (restoreBase c (sn0 c sn))
  refine ⟨hc.snap, hc.obs, LInv.of_same (s := restoreBase c (sn0 c sn)) ?_ hc.numYielded hc.snap hc.lastW⟩
  exact ⟨Nat.le_refl _, fun _ => rfl⟩

theorem sn0_ideal (c : Cfg) (hit : c.iterable = true) (sn : Snap) : SnapEq c (sn0 c sn) (idealAt c 0) := by
  rw [idealAt_zero]
  exact ⟨rfl, rfl, rfl, fun h => by rw [hit] at h; cases h⟩

theorem stepOf_of_snapStep (c : Cfg) (m : Nat) (h : SnapStep c m) : stepOf c m = m := by
  unfold stepOf
  split
  · rename_i h0; exact (h.1 h0).symm
  · rename_i h0; exact Nat.mul_div_cancel' (h.2 h0)

theorem ffStart_obs (c : Cfg) (sn : Snap) : (ffStart c sn).obs = [] := by
  unfold ffStart
  rw [prime_obs]
  rfl

section

variable (c : Cfg) (hv : c.WF) (hit : c.iterable = true) (hio : c.inOrder = true) (hne : NoErr c)
include hv hit hio hne

/-- Every state of a run of `restore c (sn0 c sn)`: `restore_ideal_iter` at step 0, and `LInv`. -/
theorem r0_facts (sn : Snap) (as : List Action) (s : State) (hnr : NoReset as)
    (hr : run c (restore c (sn0 c sn)) as = some s) (hd : ¬ died s) :
    yields s.obs <+: oks (refStream c) ∧ (Obs.stop ∈ s.obs → yields s.obs = oks (refStream c)) ∧
    Obs.assertion ∉ s.obs ∧ s.numYielded = (yields s.obs).length ∧
    SnapEq c s.snap (idealAt c (stepOf c s.numYielded)) ∧ LInv s := by
  obtain ⟨h1, h2, h3, h4, h5⟩ := restore_ideal_iter c hv hit hio hne 0 ⟨fun _ => rfl, fun _ => Nat.dvd_zero _⟩
    (Nat.zero_le _) (sn0 c sn) (sn0_ideal c hit sn) as s hnr hr hd
  rw [List.drop_zero] at h1 h2
  rw [Nat.zero_add] at h4
  refine ⟨h1, h2, h3, h4, h5, ?_⟩
  rcases run_inv c hio as _ s hnr (Or.inr (restore_sn0_core c sn).2.2) hr with h | h
  · exact absurd h h3
  · exact h

/-- **The replay of `snapshot_step` batches.**  After it `_last_yielded_worker_id` is the owner of the
`snapshot_step`-th batch of the CURRENT dataset; and if that is the saved `last_yielded_worker_id` (the check
passes), the state is a state of the stateful constructor applied to the snapshot of step 0, under the same
schedule. -/
theorem ff_replay (sn : Snap) (hs : SnapStep c sn.step) (asA : List Action) (sA : State) (hnr : NoReset asA)
    (hsd : Action.stateDict ∉ asA) (hr : run c (ffStart c sn) asA = some sA) (hd : ¬ died sA)
    (hlen : (yields sA.obs).length = sn.step) :
    sA.lastW = (idealAt c sn.step).lastW ∧ sA.numYielded = sn.step ∧
    (sn.lastW = (idealAt c sn.step).lastW → run c (restore c (sn0 c sn)) asA = some sA) := by
  obtain ⟨hy, _, hL0⟩ := restore_sn0_core c sn
  rw [ffStart_eq c hv.1.1 sn] at hr
  obtain ⟨s, hrs, hrel⟩ := run_rel c hio (ffSnap c sn) (sn0 c sn) asA (restore c (sn0 c sn)) _ sA hsd
    (Or.inr ⟨hy, rfl⟩) hr
  have hobs : sA.obs = s.obs := by
    rcases hrel with h | ⟨_, h⟩ <;> rw [h] <;> rfl
  have hlw : sA.lastW = s.lastW := by
    rcases hrel with h | ⟨_, h⟩ <;> rw [h] <;> rfl
  have hnum : sA.numYielded = s.numYielded := by
    rcases hrel with h | ⟨_, h⟩ <;> rw [h] <;> rfl
  have hds : ¬ died s := by unfold died; rw [← hobs]; exact hd
  obtain ⟨_, _, _, hny, hse, hL⟩ := r0_facts c hv hit hio hne sn asA s hnr hrs hds
  rw [← hobs, hlen] at hny
  rw [hny, stepOf_of_snapStep c _ hs] at hse
  have hstep : s.snap.step = sn.step := hse.1
  have hl : s.lastW = (idealAt c sn.step).lastW := (hL.2 (by rw [hny, hstep])).trans hse.2.1
  refine ⟨hlw.trans hl, hnum.trans hny, fun hpass => ?_⟩
  rcases hrel with h | ⟨h1, h2⟩
  · rw [h]; exact hrs
  · have h0 : sn.step = 0 := by rw [← hstep, h1]; rfl
    have hx : ffSnap c sn = sn0 c sn := by
      unfold ffSnap sn0
      rw [hpass, h0, idealAt_zero]
    have e : setSnap (ffSnap c sn) s = s := by rw [hx, ← h1]; rfl
    rw [h2, e]
    exact hrs

omit hv hit hio hne in
theorem ffCheck_pass (sn : Snap) (s : State) : ffCheck sn s = .pass ↔ s.lastW = sn.lastW := by
  unfold ffCheck
  split <;> simp_all

/-- The whole fast-forward constructor is a run of the stateful constructor applied to the snapshot of step 0,
under the concatenated schedule; it has yielded (and discarded) `snapshot_step + steps_since_snapshot` batches. -/
theorem restoreFF_run (sd : Snap × Nat) (hs : SnapStep c sd.1.step) (asA asB : List Action) (sA s : State)
    (h : RestoreFF c sd asA asB sA s) :
    run c (restore c (sn0 c sd.1)) (asA ++ asB) = some s ∧ NoReset (asA ++ asB) ∧
    (yields s.obs).length = sd.1.step + sd.2 ∧ sd.1.lastW = (idealAt c sd.1.step).lastW := by
  have hlen : (yields sA.obs).length = sd.1.step := by
    have := h.ff.returned
    rw [ffStart_obs] at this
    simpa [yields] using this
  obtain ⟨h1, _, h2⟩ := ff_replay c hv hit hio hne sd.1 hs asA sA h.ff.noReset h.ff.noSD h.ff.run h.ff.alive hlen
  have hpass : sd.1.lastW = (idealAt c sd.1.step).lastW := by
    rw [← h1]; exact ((ffCheck_pass sd.1 sA).mp h.check).symm
  refine ⟨?_, (noReset_append asA asB).mpr ⟨h.ff.noReset, h.rest.noReset⟩, ?_, hpass⟩
  · rw [run_append, h2 hpass]
    exact h.rest.run
  · rw [h.rest.returned, hlen]

end

end TDV.MPRFF
