import TorchDataVerif.Proofs.E2EIdeal
import TorchDataVerif.Proofs.LoaderSrc
/-!
# E2E, part 6 — the ideal class against `TDV.SDLApi` itself

`Fac.* (idealIC epochs)` is the façade of `TDV.SDLApi` (non-persistent) except for ONE thing: where the index of
the next fresh stream comes from.  In `TDV.SDLApi` (and in its reference `SDLApi.Ref`) it is a counter `g` of the
loader object, reset by `fresh` and untouched by `load_state_dict`; for the real iterators it is part of the
objects the state dict restores (the sampler's generator), so that after resuming epoch `e` the next stream is
`e + 1`.  The two agree when all epochs are alike (`ideal_eq_sdlapi`) and differ otherwise
(`ideal_eq_sdlapi_statement_false`).
-/
namespace TDV.E2E
open TDV.Node
open TDV.Loader (Obs Op)
open TDV.SDLApi (It)

/-- No `next()` on an iterator object the loader has dropped (`TDV.SDLApi` lets the user keep it: `detached`; for
real iterators it shares sampler and dataset with the loader's new iterator). -/
def attached (epochs : Nat → List Item) : SDLApi.Sys → List Op → Bool
  | _, [] => true
  | s, op :: ops =>
    (match op, s.st.handle with
      | .next, .detached _ => false
      | _, _ => true) && attached epochs (SDLApi.step epochs false s op).2 ops

/-- Same place in the epoch (the epoch index is immaterial when all epochs are alike). -/
def IQ (x y : It) : Prop := x.p = y.p ∧ x.fin = y.fin

structure Q (a : IState) (b : SDLApi.State) : Prop where
  it : ORel IQ a.iterator b.iterator
  pend : ORel IQ a.pending b.pending
  flag : a.initForSd = b.initForSd
  handle : a.handle = true ↔ b.handle = .shared

section
variable (epochs : Nat → List Item)

theorem iter_q {a : IState} {b : SDLApi.State} (h : Q a b) (hok : (a.initForSd || mkOk a) = true) :
    (Fac.iter (idealIC epochs) a).1 = (SDLApi.iter false b).1 ∧
      Q (Fac.iter (idealIC epochs) a).2 (SDLApi.iter false b).2 := by
  obtain ⟨q1, q2, q3, q4⟩ := h
  rcases a with ⟨w, it, pd, fl, hd⟩
  rcases b with ⟨bit, bpd, bfl, bh, g, m⟩
  simp only at q1 q2 q3 q4 hok
  subst q3
  rcases it with _ | ⟨e, p, f⟩ <;> rcases bit with _ | ⟨e', p', f'⟩ <;> simp only [ORel, IQ] at q1 <;>
  rcases pd with _ | ⟨pe, pp, pf⟩ <;> rcases bpd with _ | ⟨pe', pp', pf'⟩ <;> simp only [ORel, IQ] at q2 <;>
  (try obtain ⟨rfl, rfl⟩ := q1) <;> (try obtain ⟨rfl, rfl⟩ := q2) <;>
  cases fl <;> (try cases f) <;> (try cases pf) <;> rcases w with _ | gw <;>
    simp_all [Fac.iter, Fac.iterSecond, Fac.getAssign, Fac.curWorld, idealIC, SDLApi.iter, SDLApi.iterFirst,
      SDLApi.iterSecond, SDLApi.getIterator, mkOk, itDone, iWorld] <;>
    constructor <;> simp_all [ORel, IQ]

theorem stateDict_q {a : IState} {b : SDLApi.State} (h : Q a b) (hok : (a.iterator.isSome || mkOk a) = true) :
    ∃ t, (Fac.stateDict (idealIC epochs) a).1 = some t ∧ IQ t (SDLApi.stateDict b).1 ∧
      Q (Fac.stateDict (idealIC epochs) a).2 (SDLApi.stateDict b).2 := by
  obtain ⟨q1, q2, q3, q4⟩ := h
  rcases a with ⟨w, it, pd, fl, hd⟩
  rcases b with ⟨bit, bpd, bfl, bh, g, m⟩
  simp only at q1 q2 q3 q4 hok
  subst q3
  rcases it with _ | ⟨e, p, f⟩ <;> rcases bit with _ | ⟨e', p', f'⟩ <;> simp only [ORel, IQ] at q1 <;>
  rcases pd with _ | ⟨pe, pp, pf⟩ <;> rcases bpd with _ | ⟨pe', pp', pf'⟩ <;> simp only [ORel, IQ] at q2 <;>
  (try obtain ⟨rfl, rfl⟩ := q1) <;> (try obtain ⟨rfl, rfl⟩ := q2) <;>
  rcases w with _ | gw <;>
    simp_all [Fac.stateDict, Fac.getAssign, Fac.curWorld, idealIC, SDLApi.stateDict, SDLApi.getIterator, mkOk,
      itDone, iWorld, IQ] <;>
    constructor <;> simp_all [ORel, IQ]

theorem next_q (hconst : ∀ e e', epochs e = epochs e') {a : IState} {b : SDLApi.State} (h : Q a b)
    (hatt : ∀ x, b.handle ≠ .detached x) :
    (Fac.next (idealIC epochs) a).1 = (SDLApi.next epochs b).1 ∧
      Q (Fac.next (idealIC epochs) a).2 (SDLApi.next epochs b).2 := by
  obtain ⟨q1, q2, q3, q4⟩ := h
  rcases a with ⟨w, it, pd, fl, hd⟩
  rcases b with ⟨bit, bpd, bfl, bh, g, m⟩
  simp only at q1 q2 q3 q4 hatt
  rcases bh with _ | _ | y
  · -- no handle
    have : hd = false := by cases hd <;> simp_all
    subst this
    exact ⟨rfl, ⟨q1, q2, q3, q4⟩⟩
  · have : hd = true := q4.mpr rfl
    subst this
    rcases it with _ | ⟨e, p, f⟩ <;> rcases bit with _ | ⟨e', p', f'⟩ <;> simp only [ORel, IQ] at q1
    · exact ⟨rfl, ⟨trivial, q2, q3, q4⟩⟩
    · obtain ⟨rfl, rfl⟩ := q1
      have hc := hconst e e'
      simp only [Fac.next, SDLApi.next, idealIC, SDLApi.itNext, hc]
      cases (epochs e')[p]? with
      | none => exact ⟨rfl, ⟨⟨rfl, rfl⟩, q2, q3, q4⟩⟩
      | some v => exact ⟨rfl, ⟨⟨rfl, rfl⟩, q2, q3, q4⟩⟩
  · exact absurd rfl (hatt y)

theorem load_q {a : IState} {b : SDLApi.State} (h : Q a b) {t u : It} (ht : IQ t u) :
    Q (Fac.load (idealIC epochs) a t) (SDLApi.load b u) := by
  obtain ⟨q1, q2, q3, q4⟩ := h
  refine ⟨trivial, ht, rfl, ?_⟩
  rcases b with ⟨bit, bpd, bfl, bh, g, m⟩
  rcases bh with _ | _ | y <;> rcases bit with _ | z <;> simp [Fac.load, SDLApi.load]

/-- Token lists in step. -/
def TQ (l l' : List It) : Prop := l.length = l'.length ∧ ∀ (i : Nat) t u, l[i]? = some t → l'[i]? = some u → IQ t u

theorem tq_snoc {l l' : List It} (h : TQ l l') {t u : It} (ht : IQ t u) : TQ (l ++ [t]) (l' ++ [u]) := by
  obtain ⟨hl, hi⟩ := h
  refine ⟨by simp [hl], ?_⟩
  intro i x y h1 h2
  by_cases hlt : i < l.length
  · rw [List.getElem?_append_left hlt] at h1
    rw [List.getElem?_append_left (by omega)] at h2
    exact hi i x y h1 h2
  · have hge : l.length ≤ i := by omega
    rw [List.getElem?_append_right hge] at h1
    rw [List.getElem?_append_right (by omega)] at h2
    rw [hl] at h1
    cases hk : i - l'.length with
    | zero =>
      rw [hk] at h1 h2
      simp at h1 h2
      subst h1 h2
      exact ht
    | succ k => rw [hk] at h1; simp at h1

theorem step_q (hconst : ∀ e e', epochs e = epochs e') {a : ISys} {b : SDLApi.Sys} (h : Q a.st b.st)
    (ht : TQ a.toks b.toks) (op : Op) (hok : okStep a op = true)
    (hatt : op = .next → ∀ x, b.st.handle ≠ .detached x) :
    (Fac.step (idealIC epochs) ifw a op).1 = (SDLApi.step epochs false b op).1 ∧
      Q (Fac.step (idealIC epochs) ifw a op).2.st (SDLApi.step epochs false b op).2.st ∧
      TQ (Fac.step (idealIC epochs) ifw a op).2.toks (SDLApi.step epochs false b op).2.toks := by
  cases op with
  | iter =>
    have r := iter_q epochs h hok
    exact ⟨r.1, r.2, ht⟩
  | next =>
    have r := next_q epochs hconst h (hatt rfl)
    exact ⟨r.1, r.2, ht⟩
  | stateDict =>
    obtain ⟨t, e1, e2, r⟩ := stateDict_q epochs h hok
    simp only [Fac.step, SDLApi.step, e1]
    exact ⟨trivial, r, tq_snoc ht e2⟩
  | peek =>
    obtain ⟨t, e1, e2, r⟩ := stateDict_q epochs h hok
    simp only [Fac.step, SDLApi.step, e1]
    exact ⟨trivial, r, ht⟩
  | load i =>
    simp only [Fac.step, SDLApi.step]
    obtain ⟨hl, hi⟩ := ht
    cases h1 : a.toks[i]? with
    | none =>
      have : b.toks[i]? = none := by
        rw [List.getElem?_eq_none_iff] at h1 ⊢
        omega
      rw [this]
      exact ⟨rfl, h, hl, hi⟩
    | some t =>
      have hlt : i < b.toks.length := by
        have := (List.getElem?_eq_some_iff.mp h1).1
        omega
      have h2 : b.toks[i]? = some b.toks[i] := List.getElem?_eq_getElem hlt
      rw [h2]
      exact ⟨rfl, load_q epochs h (hi i t _ h1 h2), hl, hi⟩
  | abandon =>
    obtain ⟨q1, q2, q3, _⟩ := h
    exact ⟨rfl, ⟨q1, q2, q3, by simp [Fac.step, SDLApi.step]⟩, ht⟩
  | fresh =>
    refine ⟨rfl, ⟨trivial, trivial, rfl, ?_⟩, ht⟩
    simp [Fac.step, SDLApi.step, FState.init, SDLApi.State.init]

theorem obs_q (hconst : ∀ e e', epochs e = epochs e') : ∀ (ops : List Op) {a : ISys} {b : SDLApi.Sys},
    Q a.st b.st → TQ a.toks b.toks → wellUsed epochs a ops = true → attached epochs b ops = true →
    Fac.obs (idealIC epochs) ifw a ops = SDLApi.obs epochs false b ops
  | [], _, _, _, _, _, _ => rfl
  | op :: ops, a, b, h, ht, hw, ha => by
    simp only [wellUsed, Bool.and_eq_true] at hw
    simp only [attached, Bool.and_eq_true] at ha
    have hatt : op = .next → ∀ x, b.st.handle ≠ .detached x := by
      intro hop x hx
      have := ha.1
      rw [hop, hx] at this
      simp at this
    obtain ⟨r1, r2, r3⟩ := step_q epochs hconst h ht op hw.1 hatt
    simp only [Fac.obs, SDLApi.obs]
    rw [r1, obs_q hconst ops r2 r3 hw.2 ha.2]

/-- **When all epochs are alike, the façade over the ideal class IS `TDV.SDLApi`** (non-persistent), on every
well-used history in which no dropped iterator is used. -/
theorem ideal_eq_sdlapi (hconst : ∀ e e', epochs e = epochs e') (ops : List Op)
    (hw : wellUsed epochs (Sys.init (some 0)) ops = true)
    (ha : attached epochs SDLApi.Sys.init ops = true) :
    Fac.obs (idealIC epochs) ifw (Sys.init (some 0)) ops = SDLApi.obs epochs false SDLApi.Sys.init ops :=
  obs_q epochs hconst ops ⟨trivial, trivial, rfl, by simp [Sys.init, FState.init, SDLApi.Sys.init, SDLApi.State.init]⟩
    ⟨rfl, fun i t u h1 => by simp [Sys.init] at h1⟩ hw ha

end

/-- The same without "all epochs are alike". -/
def ideal_eq_sdlapi_statement : Prop :=
  ∀ (epochs : Nat → List Item) (ops : List Op), wellUsed epochs (Sys.init (some 0)) ops = true →
    attached epochs SDLApi.Sys.init ops = true →
    Fac.obs (idealIC epochs) ifw (Sys.init (some 0)) ops = SDLApi.obs epochs false SDLApi.Sys.init ops

/-- **The mismatch.**  Epoch `e` is `[e]`.  One batch of epoch 0, `sd = state_dict()`, a NEW loader,
`load_state_dict(sd)`, `for` loop (nothing left), `for` loop: the ideal class (as the real iterators: the
sampler's generator is restored) starts epoch 1; `TDV.SDLApi` (and `SDLApi.Ref`) start "the 0-th stream of this
loader object" — epoch 0 again. -/
theorem ideal_eq_sdlapi_statement_false : ¬ ideal_eq_sdlapi_statement := by
  intro h
  have h1 := h TDV.Loader.epochIs [.iter, .next, .stateDict, .fresh, .load 0, .iter, .next, .iter, .next]
    (by decide) (by decide)
  have h2 := congrArg (List.map TDV.Loader.Obs.code) h1
  revert h2
  decide

/-- The abstract iterator meets its own interface. -/
def meetsIdeal (epochs : Nat → List Item) : Meets (idealIC epochs) epochs where
  A x a := x = a
  AT t a := t = a
  AW w g := w = some g
  WN _ := True
  aw_wn := fun _ _ _ => trivial
  make_none := by intro w g h; subst h; exact ⟨_, rfl, rfl⟩
  make_some := by intro w t a _ h; subst h; exact ⟨t, by cases w <;> rfl, rfl⟩
  next := by intro x a h _; subst h; exact ⟨rfl, rfl⟩
  state := by intro x a h; exact h
  fin := by intro x a h; subst h; rfl
  world := by intro x a h _; subst h; rfl

end TDV.E2E
