import TorchDataVerif.Model.PM
/-! Helper lemmas for the `PM` invariants: list sums under `set`, `bufTake`, `popV`, payload tables, arithmetic. -/
namespace TDV.PM

/-! ### lists -/

theorem sum_map_set {α : Type} (g : α → Nat) :
    ∀ (l : List α) (i : Nat) (p x : α), l[i]? = some p →
      ((l.set i x).map g).sum + g p = (l.map g).sum + g x
  | [], i, p, x, h => by simp at h
  | a :: l, 0, p, x, h => by
    simp at h; subst h; simp; omega
  | a :: l, i + 1, p, x, h => by
    simp at h
    have := sum_map_set g l i p x h
    simp only [List.set_cons_succ, List.map_cons, List.sum_cons]; omega

theorem length_set' {α : Type} (l : List α) (i : Nat) (x : α) : (l.set i x).length = l.length := by simp

theorem mem_set_of {α : Type} {l : List α} {i : Nat} {x q : α} (h : q ∈ l.set i x) : q = x ∨ q ∈ l := by
  rcases List.mem_or_eq_of_mem_set h with h | h
  · exact Or.inr h
  · exact Or.inl h

theorem mem_of_getElem? {α : Type} {l : List α} {i : Nat} {p : α} (h : l[i]? = some p) : p ∈ l :=
  List.mem_of_getElem? h

theorem nodup_of_count_le_one : ∀ (l : List Nat), (∀ k, l.count k ≤ 1) → l.Nodup
  | [], _ => List.nodup_nil
  | a :: l, h => by
    rw [List.nodup_cons]
    constructor
    · intro hm
      have := h a
      have h2 : 0 < l.count a := List.count_pos_iff.mpr hm
      simp [List.count_cons] at this
      omega
    · apply nodup_of_count_le_one l
      intro k
      have := h k
      simp [List.count_cons] at this
      omega

theorem count_range (k n : Nat) : (List.range n).count k = if k < n then 1 else 0 := by
  rw [List.Nodup.count List.nodup_range]; simp

theorem optCount_le_one (k : Nat) (o : Option Nat) : optCount k o ≤ 1 := by
  unfold optCount; split <;> (try split) <;> omega

@[simp] theorem optCount_none (k : Nat) : optCount k none = 0 := rfl
@[simp] theorem optCount_some (k i : Nat) : optCount k (some i) = if i = k then 1 else 0 := rfl

@[simp] theorem idxs_nil : idxs [] = [] := rfl
@[simp] theorem idxs_cons (m : Msg) (l : List Msg) : idxs (m :: l) = m.idx :: idxs l := rfl
@[simp] theorem idxs_append (a b : List Msg) : idxs (a ++ b) = idxs a ++ idxs b := by simp [idxs]
@[simp] theorem idxs_length (a : List Msg) : (idxs a).length = a.length := by simp [idxs]

theorem mem_idxs {a : List Msg} {k : Nat} : k ∈ idxs a ↔ ∃ m ∈ a, m.idx = k := by simp [idxs]

/-! ### the sorter's buffer -/

theorem bufTake_some : ∀ (k : Nat) (b : List Msg) (m : Msg) (r : List Msg), bufTake k b = some (m, r) →
    m.idx = k ∧ m ∈ b ∧ b.length = r.length + 1 ∧ (∀ x, x ∈ r → x ∈ b) ∧ (∀ x, x ∈ b → x = m ∨ x ∈ r) ∧
    ∀ j, (idxs b).count j = (idxs r).count j + (if k = j then 1 else 0)
  | k, [], m, r, h => by simp [bufTake] at h
  | k, a :: b, m, r, h => by
    unfold bufTake at h
    split at h
    · rename_i hk
      simp at h
      obtain ⟨rfl, rfl⟩ := h
      refine ⟨hk, by simp, by simp, ?_, ?_, ?_⟩
      · intro x hx; simp [hx]
      · intro x hx; simpa using hx
      · intro j; simp [List.count_cons, hk]
    · rename_i hk
      split at h
      · rename_i x r' hb
        simp at h
        obtain ⟨rfl, rfl⟩ := h
        obtain ⟨h1, h2, h3, h4, h5, h6⟩ := bufTake_some k b x r' hb
        refine ⟨h1, by simp [h2], by simp [h3], ?_, ?_, ?_⟩
        · intro y hy
          simp at hy
          rcases hy with rfl | hy
          · simp
          · simp [h4 y hy]
        · intro y hy
          simp at hy
          rcases hy with rfl | hy
          · simp
          · rcases h5 y hy with h | h
            · exact Or.inl h
            · simp [h]
        · intro j
          have := h6 j
          simp [List.count_cons]
          omega
      · simp at h

theorem bufTake_none : ∀ (k : Nat) (b : List Msg), bufTake k b = none → ∀ m ∈ b, m.idx ≠ k
  | k, [], _, m, hm => by simp at hm
  | k, a :: b, h, m, hm => by
    unfold bufTake at h
    split at h
    · simp at h
    · rename_i hk
      split at h
      · simp at h
      · rename_i hb
        simp at hm
        rcases hm with rfl | hm
        · exact hk
        · exact bufTake_none k b hb m hm

theorem bufHas_iff (k : Nat) (b : List Msg) : bufHas k b = true ↔ k ∈ idxs b := by
  simp [bufHas, idxs]

/-! ### payload tables -/

theorem rawAt_item {c : Cfg} {i v : Nat} : rawAt c i = .item v ↔ c.src[i]? = some v := by
  unfold rawAt
  cases h : c.src[i]? with
  | none => cases c.term <;> simp
  | some w => simp

theorem rawAt_of_some {c : Cfg} {i v : Nat} (h : c.src[i]? = some v) : rawAt c i = .item v := rawAt_item.mpr h

theorem rawAt_of_none {c : Cfg} {i : Nat} (h : c.src[i]? = none) :
    rawAt c i = (match c.term with | .stop => .stop | .error => .err) := by
  cases hh : c.term <;> simp [rawAt, h, hh]

theorem rawAt_stop {c : Cfg} {i : Nat} : rawAt c i = .stop ↔ c.src.length ≤ i ∧ c.term = .stop := by
  unfold rawAt
  cases h : c.src[i]? with
  | none =>
    have : c.src.length ≤ i := by simpa using h
    cases c.term <;> simp [this]
  | some w =>
    have : i < c.src.length := by
      rcases List.getElem?_eq_some_iff.mp h with ⟨hh, _⟩; exact hh
    simp; omega

theorem apply_stop {c : Cfg} {p : Pay} : apply c p = .stop ↔ p = .stop := by
  cases p with
  | item v => simp [apply]; cases c.fn v <;> simp
  | stop => simp [apply]
  | err => simp [apply]

theorem apply_item {c : Cfg} {p : Pay} {y : Nat} : apply c p = .item y ↔ ∃ v, p = .item v ∧ c.fn v = some y := by
  cases p with
  | item v => simp [apply]; cases c.fn v <;> simp
  | stop => simp [apply]
  | err => simp [apply]

theorem outAt_stop {c : Cfg} {i : Nat} : outAt c i = .stop ↔ c.src.length ≤ i ∧ c.term = .stop := by
  simp [outAt, apply_stop, rawAt_stop]

theorem outAt_item {c : Cfg} {i y : Nat} : outAt c i = .item y ↔ ∃ v, c.src[i]? = some v ∧ c.fn v = some y := by
  simp [outAt, apply_item, rawAt_item]

theorem outAt_item_lt {c : Cfg} {i y : Nat} (h : outAt c i = .item y) : i < c.src.length := by
  obtain ⟨v, hv, _⟩ := outAt_item.mp h
  rcases List.getElem?_eq_some_iff.mp hv with ⟨hh, _⟩; exact hh

theorem outVal_eq {c : Cfg} {i : Nat} : outVal c i = (c.src[i]?).bind c.fn := by
  unfold outVal outAt rawAt
  cases h : c.src[i]? with
  | none => cases c.term <;> simp [apply]
  | some v => simp [apply]; cases c.fn v <;> simp

/-! ### `pop_version` -/

theorem popV_spec : ∀ (idx : Nat) (st : List (Nat × Nat)) (last : Option (Nat × Nat)),
    (st.map Prod.fst).Pairwise (· < ·) → (∀ v x, last = some (v, x) → ∀ e ∈ st, v < e.1) →
    (popV idx st last).2 = st.filter (fun e => decide (idx < e.1)) ∧
    ((popV idx st last).1 =
      match st.find? (fun e => e.1 == idx) with
      | some e => some e.2
      | none => match last with
        | some (v, x) => if v = idx then some x else none
        | none => none)
  | idx, [], last, _, _ => by
    cases last with
    | none => simp [popV]
    | some p => obtain ⟨v, x⟩ := p; simp [popV]
  | idx, (v, x) :: rest, last, hs, hl => by
    have hs' : (rest.map Prod.fst).Pairwise (· < ·) := by
      simp at hs; exact hs.2
    have hv : ∀ e ∈ rest, v < e.1 := by
      simp at hs
      intro e he
      exact hs.1 e.1 e.2 (by simpa using he)
    unfold popV
    by_cases hle : v ≤ idx
    · simp only [hle, if_true]
      have ih := popV_spec idx rest (some (v, x)) hs' (by
        intro v' x' h e he
        simp at h
        obtain ⟨rfl, rfl⟩ := h
        exact hv e he)
      refine ⟨?_, ?_⟩
      · rw [ih.1]
        simp [List.filter_cons]
        omega
      · rw [ih.2]
        by_cases hvi : v = idx
        · subst hvi
          simp [List.find?_cons]
          have : rest.find? (fun e => e.1 == v) = none := by
            simp [List.find?_eq_none]
            intro a b hab
            have := hv (a, b) hab
            simp at this
            omega
          simp [this]
        · have hne : (v == idx) = false := by simp [hvi]
          simp only [List.find?_cons, hne]
          cases hf : rest.find? (fun e => e.1 == idx) with
          | some e => simp
          | none =>
            simp [hvi]
            cases last with
            | none => simp
            | some p =>
              obtain ⟨v', x'⟩ := p
              have := hl v' x' rfl (v, x) (by simp)
              simp at this
              have : v' ≠ idx := by omega
              simp [this]
    · simp only [hle, if_false]
      have hlt : idx < v := by omega
      refine ⟨?_, ?_⟩
      · simp [List.filter_cons, hlt]
        rw [List.filter_eq_self.mpr]
        intro e he
        have := hv e he
        simp; omega
      · have hne : (v == idx) = false := by simp; omega
        simp only [List.find?_cons, hne]
        have : rest.find? (fun e => e.1 == idx) = none := by
          simp [List.find?_eq_none]
          intro a b hab
          have := hv (a, b) hab
          simp at this
          omega
        rw [this]
        cases last with
        | none => rfl
        | some p => rfl

/-! ### arithmetic of the checkpoint closed form -/

theorem jstar_eq (f m : Nat) : jstar f m = m - m % f := by
  unfold jstar
  have := Nat.div_add_mod m f
  omega

theorem succ_mod_of_ne (f m : Nat) (h : (m + 1) % f ≠ 0) : (m + 1) % f = m % f + 1 := by
  rcases Nat.eq_zero_or_pos f with rfl | hf
  · simp
  · have h1 := Nat.div_add_mod m f
    have h2 : m % f < f := Nat.mod_lt _ hf
    by_cases h3 : m % f + 1 < f
    · have : m + 1 = f * (m / f) + (m % f + 1) := by omega
      rw [this, Nat.mul_add_mod, Nat.mod_eq_of_lt h3]
    · exfalso
      apply h
      have : m + 1 = f * (m / f) + f := by omega
      rw [this]
      simp

theorem sub_mod_step (f m : Nat) (h : (m + 1) % f ≠ 0) : m + 1 - (m + 1) % f = m - m % f := by
  rw [succ_mod_of_ne f m h]
  have : m % f ≤ m := Nat.mod_le _ _
  omega

end TDV.PM
