import TorchDataVerif.Model.MPHandshake
/-!
# MPH — counting lemmas and the invariant of the fixed resume handshake
-/
namespace TDV.MPH

/-- `_ResumeIteration` messages not yet taken by their workers. -/
def pend : List Worker → Nat
  | [] => 0
  | k :: r => k.inbox.length + pend r

/-- What the start of epoch `e` in worker `w` acknowledges (fixed protocol). -/
def payOf (c : Cfg) (e w : Nat) : Pay :=
  match failKind c e w with
  | .none => .ok
  | _ => .exc e w

/-- `init_exception` of worker `w` after the start of epoch `e` (fixed protocol). -/
def excOf (c : Cfg) (e w : Nat) : Option (Nat × Nat) :=
  match failKind c e w with
  | .none => none
  | _ => some (e, w)

theorem pend_pushAll (ws : List Worker) (e : Nat) : pend (pushAll ws e) = pend ws + ws.length := by
  induction ws with
  | nil => rfl
  | cons k r ih =>
    simp only [pushAll, List.map_cons, pend, List.length_append, List.length_cons, List.length_nil] at ih ⊢
    rw [ih]; omega

theorem pend_zero (ws : List Worker) (h : ∀ k ∈ ws, k.inbox = []) : pend ws = 0 := by
  induction ws with
  | nil => rfl
  | cons k r ih =>
    simp only [pend]
    rw [h k (List.mem_cons_self ..), ih (fun k' hk' => h k' (List.mem_cons_of_mem _ hk'))]
    rfl

theorem pend_eq_zero (ws : List Worker) (h : pend ws = 0) : ∀ k ∈ ws, k.inbox = [] := by
  induction ws with
  | nil => intro k hk; cases hk
  | cons k r ih =>
    simp only [pend] at h
    intro k' hk'
    rcases List.mem_cons.mp hk' with rfl | hk'
    · exact List.length_eq_zero_iff.mp (by omega)
    · exact ih (by omega) k' hk'

theorem pend_set (ws : List Worker) (w : Nat) (k k' : Worker) (h : ws[w]? = some k) :
    pend (ws.set w k') + k.inbox.length = pend ws + k'.inbox.length := by
  induction ws generalizing w with
  | nil => cases h
  | cons x r ih =>
    cases w with
    | zero =>
      simp only [List.getElem?_cons_zero, Option.some.injEq] at h
      subst h
      simp only [List.set_cons_zero, pend]; omega
    | succ w =>
      simp only [List.getElem?_cons_succ] at h
      simp only [List.set_cons_succ, pend]
      have := ih w h
      omega

theorem payOf_ok (c : Cfg) (e w : Nat) (h : payOf c e w = .ok) : failKind c e w = .none := by
  unfold payOf at h
  split at h
  · assumption
  · cases h

theorem payOf_exc (c : Cfg) (e w e' w' : Nat) (h : payOf c e w = .exc e' w') :
    e' = e ∧ w' = w ∧ failKind c e w ≠ .none := by
  unfold payOf at h
  split at h
  · cases h
  · rename_i hne
    cases h
    exact ⟨rfl, rfl, fun hx => hne hx⟩

theorem payOf_fail (c : Cfg) (e w : Nat) (h : failKind c e w ≠ .none) : payOf c e w = .exc e w := by
  unfold payOf
  split
  · rename_i hx; exact absurd hx h
  · rfl

theorem excOf_none (c : Cfg) (e w : Nat) (h : failKind c e w = .none) : excOf c e w = none := by
  unfold excOf; rw [h]

theorem handle_eq (c : Cfg) (w : Nat) (k : Worker) (e : Nat) (rest : List Nat) :
    handle c w k e rest = ({ k with initExc := excOf c e w, inbox := rest }, ⟨w, payOf c e w⟩) := by
  unfold handle excOf payOf
  cases failKind c e w <;> rfl

theorem anyDead_false (ws : List Worker) (h : ∀ k ∈ ws, k.alive = true) : anyDead ws = false := by
  unfold anyDead
  rw [List.any_eq_false]
  intro k hk
  simp [h k hk]

end TDV.MPH
