import TorchDataVerif.Proofs.PMInvR
import TorchDataVerif.Proofs.PMInvW
import TorchDataVerif.Proofs.PMInvS
import TorchDataVerif.Proofs.PMInvC3
/-! `Inv` holds in every reachable state of `PM`. -/
namespace TDV.PM
variable {c : Cfg} {s s' : State}

/-- `__next__`'s early StopIteration: the reader has returned and the semaphore is back at its initial value — then every
index was consumed, in particular the terminal: either `_done` is set or the source's error has been raised. -/
theorem early_stop_facts (h : Inv c s) (hpc : s.cpc = .get) (hst : s.stop = false) (hr : s.rpc = .exited)
    (hsem : s.sem = c.max) :
    s.sem = c.max ∧ (s.done = true ∨ (c.term = .error ∧ c.src.length ∈ s.got)) := by
  refine ⟨hsem, ?_⟩
  have hp := h.permits
  have hheld : held s = 0 := by omega
  have hlost : s.lost = [] := List.eq_nil_of_length_eq_zero (by omega)
  have hpull : s.pulled = c.src.length + 1 := by
    rcases h.rExit (Or.inl hr) with h1 | h1
    · rw [hst] at h1; simp at h1
    · exact h1
  have hgot : c.src.length ∈ s.got := by
    have := drained h hheld (by simp [hpc, CPc.hand]) hlost c.src.length
    rw [hpull] at this
    simp at this
    exact List.count_pos_iff.mp (by omega)
  cases ht : c.term with
  | stop => exact Or.inl (h.doneC ht (Or.inl hgot))
  | error => exact Or.inr ⟨rfl, hgot⟩

/-- While no stop event is set a worker that is not alive is a dead one (workers never exit before stop). -/
theorem gone_is_dead (h : Inv c s) (hst : s.stop = false) (hmp : s.mpstop = false) (hany : s.wk.any WPc.gone = true) :
    0 < deadCount s := by
  rw [List.any_eq_true] at hany
  obtain ⟨p, hp, hg⟩ := hany
  cases p <;> simp [WPc.gone] at hg
  · have := h.wExit _ hp (Or.inl rfl)
    cases hpr : c.proc <;> simp [hpr, hst, hmp] at this
  · exact deadCount_pos_of_mem hp

theorem inv_stepC (h : Inv c s) {a : Action} (hs : stepC c s a = some s') : Inv c s' := by
  cases a <;> try (simp [stepC] at hs; done)
  case cBoot => obtain ⟨h1, _, rfl⟩ := spec_cBoot.mp hs; exact inv_cBoot h h1
  case cBootT => obtain ⟨_, _, rfl⟩ := spec_cBootT.mp hs; exact h
  case cCall => obtain ⟨h1, rfl⟩ := spec_cCall.mp hs; exact inv_cCall h h1
  case cIsSet =>
    obtain ⟨h1, rfl⟩ := spec_cIsSet.mp hs
    by_cases hst : s.stop = true
    · rw [if_pos hst]
      exact inv_cIsSet_stop h h1 hst
    · rw [if_neg hst]
      exact inv_cMove h .top .mp h1 rfl rfl rfl rfl rfl rfl (by simp) (by simp) (by simpa using hst) (by simp) (by simp) (by simp) (by simp)
  case cMpIsSet =>
    obtain ⟨h1, rfl⟩ := spec_cMpIsSet.mp hs
    have hst := stop_false_of h (by simp [h1])
    have hmp := mpstop_false_of h hst
    rw [if_neg (by simp [hmp])]
    exact inv_cMove h .mp .chk h1 rfl rfl rfl rfl rfl rfl (by simp) (by simp) hst (by simp) (by simp) (by simp) (by simp)
  case cChk =>
    obtain ⟨h1, rfl⟩ := spec_cChk.mp hs
    have hst := stop_false_of h (by simp [h1])
    by_cases hf : s.done = true ∧ s.sem = c.max
    · have : (s.done && decide (s.sem = c.max)) = true := by simp [hf.1, hf.2]
      simp only [this, if_true]
      exact inv_cMove h .chk .set1 h1 rfl rfl rfl rfl rfl rfl (by simp) (by simp) hst (by simp)
        (fun _ => Or.inr ⟨hf.2, Or.inl hf.1⟩) (by simp) (by simp)
    · have : (s.done && decide (s.sem = c.max)) = false := by
        cases hd : s.done
        · simp
        · simp [hd] at hf; simp [hf]
      simp only [this, Bool.false_eq_true, if_false]
      exact inv_cMove h .chk .get h1 rfl rfl rfl rfl rfl rfl (by simp) (by simp) hst (by simp) (by simp) (by simp) (fun _ => hf)
  case cSet => obtain ⟨h1, rfl⟩ := spec_cSet.mp hs; exact inv_cSet h h1
  case cMpSet => obtain ⟨h1, rfl⟩ := spec_cMpSet.mp hs; exact inv_cMpSet h h1
  case cGet =>
    obtain ⟨m, rest, h1, h2, rfl⟩ := spec_cGet.mp hs
    cases hio : c.inOrder
    · simp only [outq, hio, Bool.false_eq_true, if_false] at h2
      cases hp : m.pay <;> simp only [setOutq, hio, Bool.false_eq_true, if_false]
      · exact inv_cGet_un h hio h1 m rest h2 _ _ (by simp [hp]) (by simp [Msg.isItem, hp])
      · exact inv_cGet_un h hio h1 m rest h2 _ _ (by simp [hp]) (by simp [Msg.isItem, hp])
      · exact inv_cGet_un h hio h1 m rest h2 _ _ (by simp [hp]) (by simp [Msg.isItem, hp])
    · simp only [outq, hio, if_true] at h2
      cases hp : m.pay <;> simp only [setOutq, hio, if_true]
      · exact inv_cGet_io h hio h1 m rest h2 _ _ (by simp [hp]) (by simp [Msg.isItem, hp])
      · exact inv_cGet_io h hio h1 m rest h2 _ _ (by simp [hp]) (by simp [Msg.isItem, hp])
      · exact inv_cGet_io h hio h1 m rest h2 _ _ (by simp [hp]) (by simp [Msg.isItem, hp])
  case cGetT =>
    obtain ⟨h1, _, rfl⟩ := spec_cGetT.mp hs
    have hst := stop_false_of h (by simp [h1])
    have hmp := mpstop_false_of h hst
    unfold afterEmpty
    split
    · rename_i hcond
      refine inv_cMove h .get .set1 h1 rfl rfl rfl rfl rfl rfl (by simp) (by simp) hst (by simp) (fun _ => Or.inr ?_) (by simp) (by simp)
      exact early_stop_facts h h1 hst hcond.1 hcond.2
    · split
      · rename_i hany
        refine inv_cMove h .get .dchk1 h1 rfl rfl rfl rfl rfl rfl (by simp) (by simp) hst (by simp) (by simp) (fun _ => ?_) (by simp)
        exact gone_is_dead h hst hmp hany
      · exact inv_cMove h .get .top h1 rfl rfl rfl rfl rfl rfl (by simp) (by simp) hst (by simp) (by simp) (by simp) (by simp)
  case cDeadIsSet =>
    obtain ⟨h1, rfl⟩ := spec_cDeadIsSet.mp hs
    have hst := stop_false_of h (by simp [h1])
    rw [if_neg (by simp [hst])]
    exact inv_cMove h .dchk1 .dchk2 h1 rfl rfl rfl rfl rfl rfl (by simp) (by simp) hst (by simp) (by simp)
      (fun _ => h.deadSeen (Or.inl h1)) (by simp)
  case cDeadMpIsSet =>
    obtain ⟨h1, rfl⟩ := spec_cDeadMpIsSet.mp hs
    have hst := stop_false_of h (by simp [h1])
    have hmp := mpstop_false_of h hst
    rw [if_neg (by simp [hmp])]
    exact inv_cMove h .dchk2 .dset1 h1 rfl rfl rfl rfl rfl rfl (by simp) (by simp) hst (by simp) (by simp)
      (fun _ => h.deadSeen (Or.inr (Or.inl h1))) (by simp)
  case cDeadSet => obtain ⟨h1, rfl⟩ := spec_cDeadSet.mp hs; exact inv_cDeadSet h h1
  case cDeadMpSet => obtain ⟨h1, rfl⟩ := spec_cDeadMpSet.mp hs; exact inv_cDeadMpSet h h1
  case cRel =>
    obtain ⟨m, h1, h2, rfl⟩ := spec_cRel.mp hs
    cases hp : m.pay with
    | item y => exact inv_cRel_item h m h1 h2 y hp
    | stop => exact inv_cRel_stop h m h1 h2 hp
    | err => exact inv_cRel_err h m h1 h2 hp
  case cPop => obtain ⟨m, y, h1, h2, rfl⟩ := spec_cPop.mp hs; exact inv_cPop h m y h1 h2
  case cShutSet => obtain ⟨h1, rfl⟩ := spec_cShutSet.mp hs; exact inv_cShutSet h h1
  case cShutMpSet => obtain ⟨h1, rfl⟩ := spec_cShutMpSet.mp hs; exact inv_cShutMpSet h h1

theorem inv_step (h : Inv c s) {a : Action} (hs : step c s a = some s') : Inv c s' := by
  cases a <;> simp only [step] at hs
  all_goals first | exact inv_stepR h hs | exact inv_stepW h hs | exact inv_stepS h hs | exact inv_stepC h hs

theorem inv_run : ∀ (tr : List Action) {s s' : State}, Inv c s → run c s tr = some s' → Inv c s'
  | [], s, s', h, hr => by simp [run] at hr; subst hr; exact h
  | a :: tr, s, s', h, hr => by
    simp only [run] at hr
    cases hs : step c s a with
    | none => simp [hs] at hr
    | some s1 =>
      simp only [hs] at hr
      exact inv_run tr (inv_step h hs) hr

theorem inv_reachable (hr : Reachable c s) : Inv c s := by
  obtain ⟨tr, h⟩ := hr
  exact inv_run tr (inv_init c) h

end TDV.PM
