import TorchDataVerif.Proofs.SPMap
import TorchDataVerif.Props.C15
/-! The index-source law `IdxLaw` for the six map-style index samplers: plain list / `Stateful` sampler
object / `RandomSampler` (generator not shared with the loader), each bare (`batch_size=None`) or under
torchdata's `BatchSampler`. -/
namespace TDV.SP
open TDV.Sampler

section transport
variable {W S T : Type} (N : Nested W S T)

theorem inextN_bare (inf : Bool) (sd : W → W) : ∀ (j : Nat) (w : W),
    inextN (bareSrc N inf sd) j w = Sampler.nextN N.next j w
  | 0, _ => rfl
  | j + 1, w => by
    rw [inextN, Sampler.nextN, ← inextN_bare inf sd j]
    congr 1
    simp only [bareSrc]
    generalize N.next w = r
    obtain ⟨o, w'⟩ := r
    cases o <;> rfl

theorem inextN_batch (bc : BCfg) (sd : W → W) : ∀ (j : Nat) (b : BIter W),
    inextN (batchSrc N bc sd) j b = BIter.nextN N bc j b
  | 0, _ => rfl
  | j + 1, b => by
    rw [inextN, BIter.nextN, ← inextN_batch bc sd j]
    congr 1
    simp only [batchSrc]
    generalize BIter.next N bc b = r
    obtain ⟨o, b'⟩ := r
    cases o <;> rfl

theorem batchSrc_next_snd (bc : BCfg) (sd : W → W) (b : BIter W) :
    ((batchSrc N bc sd).next b).2 = (BIter.next N bc b).2 := by
  simp only [batchSrc]
  generalize BIter.next N bc b = r
  obtain ⟨o, b2⟩ := r
  cases o <;> rfl

theorem bareSrc_next_snd (inf : Bool) (sd : W → W) (w : W) :
    ((bareSrc N inf sd).next w).2 = (N.next w).2 := by
  simp only [bareSrc]
  generalize N.next w = r
  obtain ⟨o, w2⟩ := r
  cases o <;> rfl

end transport

/-! ### plain list -/

theorem idxLaw_batch_plain (bc : BCfg) (hbs : 0 < bc.batchSize) :
    IdxLaw (batchSrc plainNested bc id) (fun b b' => b.w.1 = b'.w.1) where
  resume b b' j hs := by
    have h := batch_resume_plain bc hbs b.w.1 b.w.2 b'.w.1 j
    simp only [inextN_batch]
    simp only [batchSrc, id]
    have e1 : BIter.create plainNested b.w = BIter.create plainNested (b.w.1, b.w.2) := rfl
    have e2 : BIter.create plainNested (BIter.create plainNested b'.w).w =
        BIter.create plainNested (b.w.1, b'.w.1) := by
      simp [BIter.create, plainNested, hs]
    rw [e2]
    exact h
  same_next b b' h := by
    show ((batchSrc plainNested bc id).next b).2.w.1 = b'.w.1
    rw [← h, batchSrc_next_snd]
    have key : ∀ (k : Nat) (b : BIter (List Nat × List Nat)), (BIter.fill plainNested k b).2.2.w.1 = b.w.1 := by
      intro k
      induction k with
      | zero => intro b; rfl
      | succ k ih =>
        intro b
        rw [BIter.fill]
        obtain ⟨⟨l, r⟩, sy⟩ := b
        cases r with
        | nil => simp [plainNested]
        | cons a r => simpa [plainNested] using ih { w := (l, r), samplesYielded := sy + 1 }
    have hk := key bc.batchSize b
    unfold BIter.next
    generalize BIter.fill plainNested bc.batchSize b = q at hk
    obtain ⟨l, f, b2⟩ := q
    simp only at hk
    cases f <;> simp only [] <;> (try split) <;> exact hk
  same_iter b b' h := by
    show (BIter.create plainNested b.w).w.1 = b'.w.1
    simpa [BIter.create, plainNested] using h
  same_seed b b' h := h

/-- World of a plain list sampler after `j` calls; number of indices among them; `islice`. -/
theorem plain_nextN : ∀ (j : Nat) (l r : List Nat), Sampler.nextN plainNested.next j (l, r) = (l, r.drop j)
  | 0, _, _ => rfl
  | j + 1, l, [] => by
    rw [Sampler.nextN]
    have : (plainNested.next (l, [])).2 = (l, []) := rfl
    rw [this, plain_nextN j l []]; simp
  | j + 1, l, a :: r => by
    rw [Sampler.nextN]
    have : (plainNested.next (l, a :: r)).2 = (l, r) := rfl
    rw [this, plain_nextN j l r]; simp

theorem plain_idxCount : ∀ (j : Nat) (l r : List Nat),
    idxCount (bareSrc plainNested false id) j (l, r) = min j r.length
  | 0, _, _ => by simp [idxCount]
  | j + 1, l, [] => by
    rw [idxCount]
    have h1 : ((bareSrc plainNested false id).next (l, [])) = (.stop, (l, [])) := rfl
    rw [h1]
    simp only
    rw [plain_idxCount j l []]; simp
  | j + 1, l, a :: r => by
    rw [idxCount]
    have h1 : ((bareSrc plainNested false id).next (l, a :: r)) = (.idx (.one a), (l, r)) := rfl
    rw [h1]
    simp only
    rw [plain_idxCount j l r]; simp; omega

theorem plain_advance : ∀ (y : Nat) (l r : List Nat), advance plainNested.next y (l, r) = (l, r.drop y)
  | 0, _, _ => rfl
  | y + 1, l, [] => by
    rw [advance]
    have h1 : plainNested.next (l, []) = (.stop, (l, [])) := rfl
    rw [h1]
    simp
  | y + 1, l, a :: r => by
    rw [advance]
    have h1 : plainNested.next (l, a :: r) = (.item a, (l, r)) := rfl
    rw [h1]
    simp only
    rw [plain_advance y l r]; simp

/-- `batch_size=None` over a plain sampler: the `itertools.islice` fast-forward. -/
theorem idxLaw_bare_plain : IdxLaw (bareSrc plainNested false id) (fun w w' => w.1 = w'.1) where
  resume w w' j hs := by
    obtain ⟨l, r⟩ := w
    obtain ⟨l', r'⟩ := w'
    simp only at hs
    subst hs
    simp only [inextN_bare]
    have hi : (bareSrc plainNested false id).iter (l, r) = (l, l) := rfl
    have hi' : (bareSrc plainNested false id).iter (l, r') = (l, l) := rfl
    have hseed : ∀ w : List Nat × List Nat, (bareSrc plainNested false id).seed w = w := fun _ => rfl
    rw [hi, hi', hseed, plain_nextN, plain_idxCount]
    simp only [bareSrc, plainNested, Option.isSome_none, Bool.or_self, Bool.false_eq_true, if_false]
    have : advance plainNested.next (min j l.length) (l, l) = (l, l.drop (min j l.length)) := plain_advance _ _ _
    simp only [plainNested] at this
    rw [this]
    congr 2
    by_cases h : j ≤ l.length
    · rw [Nat.min_eq_left h]
    · rw [Nat.min_eq_right (by omega), List.drop_length, List.drop_eq_nil_of_le (by omega)]
  same_next w w' h := by
    obtain ⟨l, r⟩ := w
    cases r <;> exact h
  same_iter w w' h := h
  same_seed w w' h := h

/-! ### `Stateful` sampler object -/

theorem obj_next_order (w : ObjS) : (objNested.next w).2.order = w.order := by
  simp only [objNested]
  split <;> rfl

theorem obj_iter_order (w : ObjS) : (objNested.iter w).order = w.order := by
  simp only [objNested]
  split <;> rfl

theorem obj_nextN_order : ∀ (j : Nat) (w : ObjS), (Sampler.nextN objNested.next j w).order = w.order
  | 0, _ => rfl
  | j + 1, w => by rw [Sampler.nextN, obj_nextN_order j, obj_next_order]

theorem idxLaw_bare_obj : IdxLaw (bareSrc objNested false id) (fun w w' => w.order = w'.order) where
  resume w w' j hs := by
    simp only [inextN_bare]
    have hseed : ∀ w : ObjS, (bareSrc objNested false id).seed w = w := fun _ => rfl
    have hit : ∀ w : ObjS, (bareSrc objNested false id).iter w = objNested.iter w := fun _ => rfl
    rw [hseed, hseed, hit, hit]
    have ho := obj_nextN_order j (objNested.iter w)
    rw [obj_iter_order] at ho
    generalize Sampler.nextN objNested.next j (objNested.iter w) = wj at ho
    obtain ⟨o, i, dn⟩ := wj
    simp only at ho
    subst ho
    have hio : (objNested.iter w').order = w.order := by rw [obj_iter_order, hs]
    generalize objNested.iter w' = w2 at hio
    obtain ⟨o2, i2, d2⟩ := w2
    simp only at hio
    subst hio
    simp only [bareSrc, objNested, Option.isSome_some, Bool.or_self, if_true, Option.map_some]
    cases dn <;> simp
  same_next w w' h := by
    show (((bareSrc objNested false id).next w).2).order = w'.order
    have : ((bareSrc objNested false id).next w).2 = (objNested.next w).2 := by
      simp only [bareSrc]
      generalize objNested.next w = r
      obtain ⟨o, w2⟩ := r
      cases o <;> rfl
    rw [this, obj_next_order, h]
  same_iter w w' h := by
    show (objNested.iter w).order = w'.order
    rw [obj_iter_order, h]
  same_seed w w' h := h

theorem obj_fill_order : ∀ (k : Nat) (b : BIter ObjS), (BIter.fill objNested k b).2.2.w.order = b.w.order
  | 0, _ => rfl
  | k + 1, b => by
    rw [BIter.fill]
    have ho := obj_next_order b.w
    generalize objNested.next b.w = r at ho
    obtain ⟨o, w2⟩ := r
    simp only at ho
    cases o with
    | item v => simp only; rw [obj_fill_order k]; exact ho
    | stop => exact ho
    | err => exact ho

theorem obj_bnext_order (bc : BCfg) (b : BIter ObjS) : (BIter.next objNested bc b).2.w.order = b.w.order := by
  have hk := obj_fill_order bc.batchSize b
  unfold BIter.next
  generalize BIter.fill objNested bc.batchSize b = q at hk
  obtain ⟨l, f, b2⟩ := q
  simp only at hk
  cases f <;> simp only [] <;> (try split) <;> exact hk

theorem obj_bnextN_order (bc : BCfg) : ∀ (j : Nat) (b : BIter ObjS), (BIter.nextN objNested bc j b).w.order = b.w.order
  | 0, _ => rfl
  | j + 1, b => by rw [BIter.nextN, obj_bnextN_order bc j, obj_bnext_order]

theorem idxLaw_batch_obj (bc : BCfg) : IdxLaw (batchSrc objNested bc id) (fun b b' => b.w.order = b'.w.order) where
  resume b b' j hs := by
    simp only [inextN_batch]
    have hseed : ∀ b : BIter ObjS, (batchSrc objNested bc id).seed b = b := fun _ => rfl
    have hit : ∀ b : BIter ObjS, (batchSrc objNested bc id).iter b = BIter.create objNested b.w := fun _ => rfl
    rw [hseed, hseed, hit, hit]
    have ho := obj_bnextN_order bc j (BIter.create objNested b.w)
    have hc : (BIter.create objNested b.w).w.order = b.w.order := obj_iter_order _
    rw [hc] at ho
    generalize BIter.nextN objNested bc j (BIter.create objNested b.w) = bj at ho
    obtain ⟨⟨o, i, dn⟩, sy⟩ := bj
    simp only at ho
    subst ho
    have hio : (BIter.create objNested (BIter.create objNested b'.w).w).w.order = b.w.order := by
      show (objNested.iter (objNested.iter b'.w)).order = _
      rw [obj_iter_order, obj_iter_order, hs]
    simp only [batchSrc, BIter.load, BIter.stateDict]
    generalize BIter.create objNested (BIter.create objNested b'.w).w = b2 at hio
    obtain ⟨⟨o2, i2, d2⟩, sy2⟩ := b2
    simp only at hio
    subst hio
    simp only [objNested, Option.map_some, Option.isNone_some, Bool.and_self, Bool.false_eq_true, if_false]
    cases dn <;> simp
  same_next b b' h := by
    show ((batchSrc objNested bc id).next b).2.w.order = b'.w.order
    have : ((batchSrc objNested bc id).next b).2 = (BIter.next objNested bc b).2 := by
      simp only [batchSrc]
      generalize BIter.next objNested bc b = r
      obtain ⟨o, b2⟩ := r
      cases o <;> rfl
    rw [this, obj_bnext_order, h]
  same_iter b b' h := by
    show (objNested.iter b.w).order = b'.w.order
    rw [obj_iter_order, h]
  same_seed b b' h := h

/-! ### `RandomSampler`, generator not shared with the loader -/
section random
variable {G : Type} (R : Gen G) (rc : RCfg) (draw : G → G)

theorem randSeed_false (w : RIter G × G) : randSeed draw false w = w := by simp [randSeed]

theorem snextN_add {W : Type} (nx : W → Out × W) : ∀ (a b : Nat) (w : W),
    Sampler.nextN nx (a + b) w = Sampler.nextN nx b (Sampler.nextN nx a w)
  | 0, b, w => by simp [Sampler.nextN]
  | a + 1, b, w => by rw [Nat.add_right_comm, Sampler.nextN, snextN_add nx a b, Sampler.nextN]

theorem rnextN_end (w : RIter G × G) (h : w.1.yielded = rc.numSamples) :
    ∀ (j : Nat), Sampler.nextN (RIter.next R rc) j w = w
  | 0 => rfl
  | j + 1 => by rw [Sampler.nextN, rnext_stop R rc w h]; exact rnextN_end w h j

/-- The state after ANY number of calls, loaded into a new iterator, reproduces the iterator. -/
theorem random_load_any (hne : ∀ g, (getPerm R rc g).1 ≠ []) (g0 g' : G) (j : Nat) :
    RIter.load R rc (RIter.create R rc g') (Sampler.nextN (RIter.next R rc) j (RIter.create R rc g0)).1.stateDict =
      some (Sampler.nextN (RIter.next R rc) j (RIter.create R rc g0)) := by
  obtain ⟨w, hw⟩ := skip_some R rc hne (min j rc.numSamples) (RIter.create R rc g0).1 (RIter.create R rc g0).2
    (by simp [RIter.create]) (by simp [RIter.create]; omega)
  obtain ⟨ys, hl, hst⟩ := skip_steps R rc _ _ _ hw
  have hn := steps_nextN hst
  rw [hl] at hn
  have hlf := load_fresh R rc g0 g' _ w hw
  have hj : Sampler.nextN (RIter.next R rc) j (RIter.create R rc g0) = w := by
    by_cases h : j ≤ rc.numSamples
    · rw [Nat.min_eq_left h] at hn; exact hn
    · have hm : min j rc.numSamples = rc.numSamples := Nat.min_eq_right (by omega)
      rw [hm] at hn
      have hy : w.1.yielded = rc.numSamples := by
        have := (rsteps_yielded R rc hst).1
        simpa [RIter.create, hl, hm] using this
      have e : j = rc.numSamples + (j - rc.numSamples) := by omega
      rw [e, snextN_add, hn, rnextN_end R rc w hy]
  rw [hj, hlf.2]
  exact hlf.1

theorem idxLaw_bare_random (hne : ∀ g, (getPerm R rc g).1 ≠ []) :
    IdxLaw (bareSrc (randomNested R rc) false (randSeed draw false)) (fun _ _ => True) where
  resume w w' j _ := by
    simp only [inextN_bare]
    have hseed : ∀ w : RIter G × G, (bareSrc (randomNested R rc) false (randSeed draw false)).seed w = w :=
      fun w => randSeed_false draw w
    have hit : ∀ w : RIter G × G, (bareSrc (randomNested R rc) false (randSeed draw false)).iter w =
        RIter.create R rc w.2 := fun _ => rfl
    rw [hseed, hseed, hit, hit]
    have hnx : (randomNested R rc).next = RIter.next R rc := rfl
    rw [hnx]
    have h := random_load_any R rc hne w.2 (RIter.create R rc w'.2).2 j
    simp only [bareSrc, randomNested, Option.isSome_none, Option.isSome_some, Bool.false_or, if_true, Option.map_none,
      Option.map_some]
    exact h
  same_next _ _ _ := trivial
  same_iter _ _ _ := trivial
  same_seed _ _ _ := trivial

theorem idxLaw_batch_random (hne : ∀ g, (getPerm R rc g).1 ≠ []) (bc : BCfg) (hbs : 0 < bc.batchSize) :
    IdxLaw (batchSrc (randomNested R rc) bc (randSeed draw false)) (fun _ _ => True) where
  resume b b' j _ := by
    simp only [inextN_batch]
    have hseed : ∀ b : BIter (RIter G × G), (batchSrc (randomNested R rc) bc (randSeed draw false)).seed b = b := by
      intro b; simp only [batchSrc, randSeed_false]
    have hit : ∀ b : BIter (RIter G × G), (batchSrc (randomNested R rc) bc (randSeed draw false)).iter b =
        BIter.create (randomNested R rc) b.w := fun _ => rfl
    rw [hseed, hseed, hit, hit]
    exact batch_resume_random R rc bc hne hbs b.w (BIter.create (randomNested R rc) b'.w).w j
  same_next _ _ _ := trivial
  same_iter _ _ _ := trivial
  same_seed _ _ _ := trivial

end random

end TDV.SP
