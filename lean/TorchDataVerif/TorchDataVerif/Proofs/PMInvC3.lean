import TorchDataVerif.Proofs.PMInvC2
/-! `Inv` is preserved by `pop_version` (the consumer's return with an item). -/
namespace TDV.PM
variable {c : Cfg} {s s' : State}

theorem chand_lt_appended (h : Inv c s) {i : Nat} (hc : s.cpc.hand = some i) : i < appended s := by
  have hlt := chand_lt h hc
  unfold appended
  split
  · rename_i v j hr
    have h1 := h.rApp v j hr
    have h2 := h.cnt j
    have h3 : i ≠ j := by
      intro he
      subst he
      simp only [cnt, hc, hr, RPc.hand, optCount_some, if_true] at h2
      split at h2 <;> omega
    omega
  · exact hlt

theorem popV_none_spec (idx : Nat) (st : List (Nat × Nat)) (hs : (st.map Prod.fst).Pairwise (· < ·)) :
    (popV idx st none).2 = st.filter (fun e => decide (idx < e.1)) ∧
    (popV idx st none).1 = (st.find? (fun e => e.1 == idx)).map Prod.snd := by
  have := popV_spec idx st none hs (by simp)
  refine ⟨this.1, ?_⟩
  rw [this.2]
  cases st.find? (fun e => e.1 == idx) <;> rfl

theorem inv_cPop (h : Inv c s) (m : Msg) (y : Nat) (hpc : s.cpc = .pop m) (hp : m.pay = .item y) :
    Inv c { s with store := (popV m.idx s.store none).2,
                   snap := pickSnap (popV m.idx s.store none).1 s.snap,
                   steps := pickSteps (popV m.idx s.store none).1 s.steps,
                   got := s.got ++ [m.idx], outs := s.outs ++ [y], cpc := .idle } := by
  have hstop := stop_false_of h (by simp [hpc])
  have hmp := mpstop_false_of h hstop
  have hns := nstop_zero_of h hstop
  have hout : m.pay = outAt c m.idx := h.outC m (Or.inr hpc)
  have hitem : outAt c m.idx = .item y := hout ▸ hp
  have hval : outVal c m.idx = some y := outVal_of_item hitem
  have hltn : m.idx < c.src.length := outAt_item_lt hitem
  have hhand : s.cpc.hand = some m.idx := by simp [hpc, CPc.hand]
  obtain ⟨hp2, hp1⟩ := popV_none_spec m.idx s.store h.storeSorted
  constructor <;> (try (dsimp only; same h))
  case stopC => simp [hstop]
  case mpStop => simp [hmp]
  case cnt =>
    intro k
    have h1 := h.cnt k
    simp only [cnt, hpc, CPc.hand, List.count_append, List.count_cons, List.count_nil, optCount_none, optCount_some,
      beq_iff_eq] at h1 ⊢
    omega
  case permits => fr [hpc] h.permits
  case outC => simp
  case popItem => simp
  case outsEq => rw [List.filterMap_append, ← h.outsEq]; simp [hval]
  case order =>
    intro hio
    have := h.order hio
    simp only [hpc, CPc.hand] at this ⊢
    simpa using this
  case doneI =>
    intro hd
    have := h.doneI hd
    refine ⟨this.1, Or.inl ?_⟩
    rcases this.2 with h2 | h2
    · simp [h2]
    · simp only [hpc, CPc.hand, Option.some.injEq] at h2
      omega
  case doneC =>
    intro ht hh
    simp only [CPc.hand] at hh
    rcases hh with hh | hh
    · rcases List.mem_append.mp hh with h2 | h2
      · exact h.doneC ht (Or.inl h2)
      · simp at h2; omega
    · simp at hh
  case fin => simp [hstop, hns]
  case getNotFin => simp
  case storeSorted =>
    rw [hp2]
    exact List.Pairwise.sublist (List.Sublist.map _ List.filter_sublist) h.storeSorted
  case storeSound =>
    intro e he
    rw [hp2] at he
    have := h.storeSound e (List.mem_filter.mp he).1
    simpa only [appended] using this
  case storeComplete =>
    intro hio j hj1 hj2 hj3 hj4
    have hidx := order_hand h hio hhand
    simp only [List.length_append, List.length_singleton] at hj1
    rw [hp2]
    apply List.mem_filter.mpr
    refine ⟨h.storeComplete hio j (by omega) (by simpa only [appended] using hj2) hj3 hj4, ?_⟩
    simp; omega
  case lenEq =>
    have := h.lenEq
    have hne : m.idx ≠ c.src.length := by omega
    simp only [List.length_append, List.length_singleton, List.count_append, List.count_cons, List.count_nil,
      beq_iff_eq, hne, if_false, Nat.add_zero] at this ⊢
    omega
  case closed =>
    intro hio herr _
    have hidx := order_hand h hio hhand
    have hcl := h.closed hio herr (by simp [hpc])
    have hlen := h.lenEq
    have hgot := order_got h hio
    have hcount : s.got.count c.src.length = 0 := by
      rw [List.count_eq_zero, hgot]
      simp; omega
    have hL : m.idx = s.outs.length := by
      rw [herr, hcount] at hlen
      simp at hlen
      omega
    simp only [hpc, CPc.bump] at hcl
    simp only [List.length_append, List.length_singleton, CPc.bump, Nat.add_zero]
    rw [hp1]
    cases hdue : snapDue c m.idx
    · -- no snapshot for this index
      have hnone : s.store.find? (fun e => e.1 == m.idx) = none := by
        rw [List.find?_eq_none]
        intro e he hh
        have := (h.storeSound e he).2.1
        simp at hh
        rw [hh, hdue] at this
        simp at this
      have hmod : (s.outs.length + 1) % c.f ≠ 0 := by
        intro h0
        simp only [snapDue, hL, Bool.and_eq_false_iff, decide_eq_false_iff_not] at hdue
        rcases hdue with hd | hd
        · have : c.f = 0 := by omega
          rw [this] at h0; simp at h0
        · exact hd h0
      simp only [hnone, Option.map_none, pickSnap, pickSteps]
      rw [sub_mod_step _ _ hmod, succ_mod_of_ne _ _ hmod]
      exact hcl
    · have hmem := h.storeComplete hio m.idx (by omega) (chand_lt_appended h hhand) hltn hdue
      cases hf : s.store.find? (fun e => e.1 == m.idx) with
      | none =>
        rw [List.find?_eq_none] at hf
        have := hf _ hmem
        simp at this
      | some e =>
        have he := List.mem_of_find?_eq_some hf
        have hk := List.find?_some hf
        simp at hk
        have hs := (h.storeSound e he).1
        simp only [snapDue, hL, Bool.and_eq_true, decide_eq_true_eq] at hdue
        simp only [Option.map_some, pickSnap, pickSteps, hs, hk, hL, hdue.2]
        simp; omega
  case stopOf => simp
  case bootI => simp
  case deadSeen => simp

end TDV.PM
