import TorchDataVerif.Proofs.PMSpec
/-! The invariant of the `PM` transition system (one structure), and `inv_init`. -/
namespace TDV.PM

/-- Versions below this bound have been appended to the snapshot store (if due). -/
def appended (s : State) : Nat := match s.rpc with | .app _ _ => s.pulled - 1 | _ => s.pulled

/-- The reader has not yet pulled the terminal. -/
def RPc.early : RPc → Bool
  | .init | .top | .acq | .next | .insrc => true
  | _ => false

def WPc.deadN : WPc → Nat
  | .dead => 1
  | _ => 0

def deadCount (s : State) : Nat := (s.wk.map WPc.deadN).sum

/-- `steps_since_snapshot` has already been incremented for the item in the consumer's hand. -/
def CPc.bump : CPc → Nat
  | .rel m => if m.isItem then 1 else 0
  | .pop _ => 1
  | _ => 0

structure Inv (c : Cfg) (s : State) : Prop where
  wkLen : s.wk.length = c.N
  pulledLe : s.pulled ≤ c.src.length + 1
  rEarly : s.rpc.early = true → s.pulled ≤ c.src.length
  rApp : ∀ v i, s.rpc = .app v i → i + 1 = s.pulled ∧ c.src[i]? = some v ∧ snapDue c i = true
  rPut : ∀ m, s.rpc = .put m → m.idx + 1 = s.pulled ∧ m.pay = rawAt c m.idx
  rExit : (s.rpc = .exited ∨ s.rpc = .ret) → s.stop = true ∨ s.pulled = c.src.length + 1
  sOff : s.spc = .off ↔ c.inOrder = false
  offEmpty : c.inOrder = false → s.sq = [] ∧ s.buf = [] ∧ s.cur = 0
  stopC : s.stop = true → (s.cpc = .set2 ∨ s.cpc = .idle ∨ s.cpc = .top ∨ s.cpc = .shut1 ∨ s.cpc = .closed ∨ s.cpc = .dset2)
  mpStop : s.mpstop = true → s.stop = true ∧ (s.cpc = .idle ∨ s.cpc = .top ∨ s.cpc = .shut1 ∨ s.cpc = .closed)
  wExit : ∀ p ∈ s.wk, (p = .exited ∨ p = .chk) → (if c.proc then s.mpstop else s.stop) = true
  sExit : s.spc = .exited → s.stop = true
  cnt : ∀ k, cnt k s = if k < s.pulled then 1 else 0
  permits : s.sem + held s + pending s + s.lost.length = c.max
  lostLe : s.lost.length ≤ deadCount s
  rawInq : ∀ m ∈ s.inq, m.pay = rawAt c m.idx
  rawWk : ∀ m, WPc.have m ∈ s.wk → m.pay = rawAt c m.idx
  outMid : ∀ m ∈ s.mid, m.pay = outAt c m.idx
  outS : ∀ m, s.spc = .have m → m.pay = outAt c m.idx
  outBuf : ∀ m ∈ s.buf, m.pay = outAt c m.idx
  outSq : ∀ m ∈ s.sq, m.pay = outAt c m.idx
  outC : ∀ m, (s.cpc = .rel m ∨ s.cpc = .pop m) → m.pay = outAt c m.idx
  popItem : ∀ m, s.cpc = .pop m → m.isItem = true
  outsEq : s.outs = s.got.filterMap (outVal c)
  inqSorted : (idxs s.inq).Pairwise (· < ·)
  order : c.inOrder = true → s.got ++ s.cpc.hand.toList ++ idxs s.sq = List.range s.cur
  bufNe : s.spc ≠ .drain → ∀ m ∈ s.buf, m.idx ≠ s.cur
  doneI : s.done = true → c.term = .stop ∧ (c.src.length ∈ s.got ∨ s.cpc.hand = some c.src.length)
  doneC : c.term = .stop → (c.src.length ∈ s.got ∨ s.cpc.hand = some c.src.length) → s.done = true
  fin : (s.cpc = .set1 ∨ s.cpc = .set2 ∨ 0 < s.nstop ∨ (s.stop = true ∧ (s.cpc = .idle ∨ s.cpc = .top))) →
    0 < deadCount s ∨ (s.sem = c.max ∧ (s.done = true ∨ (c.term = .error ∧ c.src.length ∈ s.got)))
  getNotFin : s.cpc = .get → ¬(s.done = true ∧ s.sem = c.max)
  nstopStop : 0 < s.nstop → s.stop = true
  storeSorted : (s.store.map Prod.fst).Pairwise (· < ·)
  storeSound : ∀ e ∈ s.store, e.2 = c.base + e.1 + 1 ∧ snapDue c e.1 = true ∧ e.1 < appended s ∧ e.1 < c.src.length
  storeComplete : c.inOrder = true → ∀ j, s.got.length ≤ j → j < appended s → j < c.src.length →
    snapDue c j = true → (j, c.base + j + 1) ∈ s.store
  lenEq : s.got.length = s.outs.length + s.errs + (if c.term = .stop then s.got.count c.src.length else 0)
  closed : c.inOrder = true → s.errs = 0 → s.cpc ≠ .boot →
    s.snap = c.base + (s.outs.length - s.outs.length % c.f) ∧ s.steps = s.outs.length % c.f + s.cpc.bump
  stopOf : (s.cpc = .set2 ∨ s.cpc = .shut1 ∨ s.cpc = .closed ∨ s.cpc = .dset2) → s.stop = true
  deadSeen : (s.cpc = .dchk1 ∨ s.cpc = .dchk2 ∨ s.cpc = .dset1 ∨ s.cpc = .dset2) → 0 < deadCount s
  rtDead : 0 < s.rterr → 0 < deadCount s
  bootI : s.cpc = .boot → s.outs = [] ∧ s.steps = 0

/-- Discharges a field that the action did not touch. -/
macro "same" h:ident : tactic => `(tactic| (
  first
  | exact ($h).wkLen | exact ($h).pulledLe | exact ($h).rEarly | exact ($h).rApp | exact ($h).rPut | exact ($h).rExit
  | exact ($h).sOff | exact ($h).offEmpty | exact ($h).stopC | exact ($h).mpStop | exact ($h).wExit | exact ($h).sExit
  | exact ($h).cnt | exact ($h).permits | exact ($h).lostLe | exact ($h).rawInq | exact ($h).rawWk | exact ($h).outMid
  | exact ($h).outS | exact ($h).outBuf | exact ($h).outSq | exact ($h).outC | exact ($h).popItem | exact ($h).outsEq
  | exact ($h).inqSorted | exact ($h).order | exact ($h).bufNe | exact ($h).doneI | exact ($h).doneC | exact ($h).fin
  | exact ($h).getNotFin | exact ($h).nstopStop | exact ($h).storeSorted | exact ($h).storeSound
  | exact ($h).storeComplete | exact ($h).lenEq | exact ($h).closed | exact ($h).stopOf | exact ($h).bootI | exact ($h).deadSeen | exact ($h).rtDead))

/- `fr [extra simp facts] h.field`: re-establishes a field whose statement mentions a changed component only
through the derived observables. -/
open Lean.Parser.Tactic in
macro "fr" "[" ls:simpLemma,* "]" t:term : tactic => `(tactic| (
  have hfr := $t
  simp only [cnt, held, pending, appended, deadCount, RPc.hand, RPc.holds, RPc.inCall, RPc.early, RPc.permit, CPc.hand, CPc.permit,
    CPc.bump, SPc.hand, SPc.holds, $ls,*] at hfr ⊢
  first | exact hfr | omega | (simp at hfr ⊢; first | exact hfr | omega | simp_all)))

theorem cnt_ge_got {s : State} {k : Nat} (hk : k ∈ s.got) : 1 ≤ cnt k s := by
  have : 0 < s.got.count k := List.count_pos_iff.mpr hk
  unfold cnt; omega

theorem cnt_ge_chand {s : State} {k : Nat} (hk : s.cpc.hand = some k) : 1 ≤ cnt k s := by
  unfold cnt; rw [hk]; simp; omega

theorem done_pulled {c : Cfg} {s : State} (h : Inv c s) (hd : s.done = true) : s.pulled = c.src.length + 1 := by
  have h1 := h.doneI hd
  have h2 := h.cnt c.src.length
  have h3 := h.pulledLe
  have : 1 ≤ cnt c.src.length s := by
    rcases h1.2 with hg | hg
    · exact cnt_ge_got hg
    · exact cnt_ge_chand hg
  split at h2 <;> omega

theorem end_pulled {c : Cfg} {s : State} (h : Inv c s) (hg : c.src.length ∈ s.got) : s.pulled = c.src.length + 1 := by
  have h2 := h.cnt c.src.length
  have h3 := h.pulledLe
  have := cnt_ge_got hg
  split at h2 <;> omega

/-- the terminal has been consumed (`_done`, or the source's error was raised): the reader is past its loop -/
theorem fin_not_early {c : Cfg} {s : State} (h : Inv c s)
    (hf : s.done = true ∨ (c.term = .error ∧ c.src.length ∈ s.got)) : s.rpc.early = false := by
  have hp : s.pulled = c.src.length + 1 := by
    rcases hf with hd | ⟨_, hg⟩
    · exact done_pulled h hd
    · exact end_pulled h hg
  cases he : s.rpc.early
  · rfl
  · have := h.rEarly he
    omega

theorem done_not_early {c : Cfg} {s : State} (h : Inv c s) (hd : s.done = true) : s.rpc.early = false := by
  cases he : s.rpc.early
  · rfl
  · have := h.rEarly he
    have := done_pulled h hd
    omega

theorem sum_replicate_zero (n : Nat) (g : WPc → Nat) (p : WPc) (h : g p = 0) :
    ((List.replicate n p).map g).sum = 0 := by
  induction n with
  | zero => simp
  | succ n ih => simp [List.replicate_succ, h, ih]

theorem inv_init (c : Cfg) : Inv c (init c) := by
  constructor
  case wkLen => simp [init]
  case pulledLe => simp [init]
  case rEarly => simp [init]
  case rApp => simp [init]
  case rPut => simp [init]
  case rExit => simp [init]
  case sOff => simp [init]
  case offEmpty => simp [init]
  case stopC => simp [init]
  case mpStop => simp [init]
  case wExit =>
    intro p hp
    simp [init] at hp
    rcases hp with ⟨_, rfl⟩
    simp
  case sExit => simp [init]; cases c.inOrder <;> simp
  case cnt =>
    intro k
    simp [cnt, init, RPc.hand, CPc.hand]
    have h1 : ((List.replicate c.N WPc.top).map (WPc.cnt k)).sum = 0 :=
      sum_replicate_zero _ _ _ (by simp [WPc.cnt, WPc.hand])
    have h2 : optCount k (SPc.hand (if c.inOrder = true then SPc.top else SPc.off)) = 0 := by
      cases c.inOrder <;> simp [SPc.hand]
    simp at h1
    simp [h1, h2]
  case permits =>
    simp [held, pending, init, RPc.holds, RPc.inCall, CPc.permit]
    have h1 : ((List.replicate c.N WPc.top).map WPc.holds).sum = 0 :=
      sum_replicate_zero _ _ _ (by simp [WPc.holds])
    have h2 : SPc.holds (if c.inOrder = true then SPc.top else SPc.off) = 0 := by
      cases c.inOrder <;> simp [SPc.holds]
    simp at h1
    simp [h1, h2]
  case lostLe => simp [init]
  case rawInq => simp [init]
  case rawWk =>
    intro m hm
    simp [init] at hm
  case outMid => simp [init]
  case outS => simp [init]; cases c.inOrder <;> simp
  case outBuf => simp [init]
  case outSq => simp [init]
  case outC => simp [init]
  case popItem => simp [init]
  case outsEq => simp [init]
  case inqSorted => simp [init]
  case order => simp [init, CPc.hand]
  case bufNe => simp [init]
  case doneI => simp [init]
  case doneC => simp [init, CPc.hand]
  case fin => simp [init]
  case getNotFin => simp [init]
  case nstopStop => simp [init]
  case storeSorted => simp [init]
  case storeSound => simp [init]
  case storeComplete => simp [init, appended]
  case lenEq => simp [init]
  case closed => simp [init]
  case stopOf => simp [init]
  case bootI => simp [init]
  case deadSeen => simp [init]
  case rtDead => simp [init]

/-- in_order: what the consumer has processed is an initial segment of the indices. -/
theorem range_prefix (a b : List Nat) (n : Nat) (h : a ++ b = List.range n) : a = List.range a.length := by
  have hl : a.length ≤ n := by
    have := congrArg List.length h
    simp at this; omega
  have h1 : (a ++ b).take a.length = a := by simp
  rw [h, List.take_range] at h1
  rw [← h1]; simp [Nat.min_eq_left hl]

theorem order_got {c : Cfg} {s : State} (h : Inv c s) (hio : c.inOrder = true) : s.got = List.range s.got.length := by
  have := h.order hio
  rw [List.append_assoc] at this
  exact range_prefix _ _ _ this

theorem order_hand {c : Cfg} {s : State} (h : Inv c s) (hio : c.inOrder = true) {i : Nat}
    (hi : s.cpc.hand = some i) : i = s.got.length := by
  have := h.order hio
  rw [hi] at this
  have h2 : (s.got ++ [i]) ++ idxs s.sq = List.range s.cur := by simpa using this
  have h3 := range_prefix _ _ _ h2
  have h4 : (s.got ++ [i])[s.got.length]? = some i := by simp
  rw [h3] at h4
  rw [List.getElem?_range] at h4
  · simp at h4; omega
  · simp

theorem sum_zero_all {α : Type} (g : α → Nat) : ∀ (l : List α), (l.map g).sum = 0 → ∀ p ∈ l, g p = 0
  | [], _, p, hp => by simp at hp
  | a :: l, h, p, hp => by
    simp at h hp
    rcases hp with rfl | hp
    · exact h.1
    · exact sum_zero_all g l h.2 p hp

theorem sum_all_zero {α : Type} (g : α → Nat) : ∀ (l : List α), (∀ p ∈ l, g p = 0) → (l.map g).sum = 0
  | [], _ => by simp
  | a :: l, h => by
    simp
    exact ⟨h a (by simp), sum_all_zero g l (fun p hp => h p (by simp [hp]))⟩

/-- Nothing is in flight: every index pulled so far has been processed by the consumer exactly once. -/
theorem drained (h : Inv c s) (hheld : held s = 0) (hhand : s.cpc.hand = none) (hlost : s.lost = []) :
    ∀ k, s.got.count k = if k < s.pulled then 1 else 0 := by
  intro k
  have h1 := h.cnt k
  simp only [held] at hheld
  have hinq : s.inq = [] := List.eq_nil_of_length_eq_zero (by omega)
  have hmid : s.mid = [] := List.eq_nil_of_length_eq_zero (by omega)
  have hbuf : s.buf = [] := List.eq_nil_of_length_eq_zero (by omega)
  have hsq : s.sq = [] := List.eq_nil_of_length_eq_zero (by omega)
  have hr : s.rpc.hand = none := by
    have : s.rpc.holds = 0 := by omega
    cases hh : s.rpc <;> simp [hh, RPc.holds, RPc.hand] at this ⊢
  have hsp : s.spc.hand = none := by
    have : s.spc.holds = 0 := by omega
    cases hh : s.spc <;> simp [hh, SPc.holds, SPc.hand] at this ⊢
  have hw : (s.wk.map (WPc.cnt k)).sum = 0 := by
    apply sum_all_zero
    intro p hp
    have : (s.wk.map WPc.holds).sum = 0 := by omega
    have := sum_zero_all WPc.holds s.wk this p hp
    cases p <;> simp [WPc.holds, WPc.cnt, WPc.hand] at this ⊢
  simp only [cnt, hinq, hmid, hbuf, hsq, hr, hsp, hw, hhand, hlost] at h1
  simpa using h1


theorem deadCount_pos_of_mem {s : State} (h : WPc.dead ∈ s.wk) : 0 < deadCount s := by
  unfold deadCount
  rcases Nat.eq_zero_or_pos (s.wk.map WPc.deadN).sum with h0 | h0
  · have := sum_zero_all WPc.deadN s.wk h0 _ h
    simp [WPc.deadN] at this
  · exact h0

end TDV.PM
