import TorchDataVerif.Proofs.MPUnWork
/-!
# MPU, `in_order = False`, map-style datasets: the safety/completeness invariant

Ghost `D` = the task indices answered so far, in the order of delivery.
-/
namespace TDV.MPU
open TDV.MP

theorem dispatchTo_workers (c : Cfg) (s : State) (w cyc : Nat) :
    ∃ sn, (dispatchTo c s w cyc).workers = pushMsg s.workers w (.task s.sendIdx s.samplerPos sn) :=
  ⟨(flags c (s.samplerPos + 1) s.numYielded).2, by simp [dispatchTo]⟩

/-- Map-style protocol facts while the iterator is active (everything but `live`). -/
structure MidUM0 (c : Cfg) (s : State) (D : List Nat) : Prop where
  core : UCore c s
  status : s.status = List.replicate c.W true
  sp : s.samplerPos = s.sendIdx
  le : s.sendIdx ≤ c.batches.length
  sum : sumL s.numTasks = s.info.length
  qtask : ∀ (w : Nat) (k : Worker), s.workers[w]? = some k → ∀ i p sn, Msg.task i p sn ∈ k.q → p = i
  rkind : ∀ r ∈ s.resQ, ∃ it, c.batches[r.idx]? = some it ∧ r.kind = kindOf it
  dnd : D.Nodup
  ddis : ∀ i ∈ D, i < s.sendIdx ∧ ∀ e ∈ s.info, e.idx ≠ i
  dcov : ∀ i, i < s.sendIdx → i ∈ D ∨ ∃ e ∈ s.info, e.idx = i

/-- While batches remain to be dispatched some task is outstanding. -/
def LiveM (c : Cfg) (s : State) : Prop := s.sendIdx < c.batches.length → s.info ≠ []

theorem upM (c : Cfg) (s : State) (h : s.status = List.replicate c.W true) (w : Nat) (hw : w < c.W) :
    up s w = true := up_replicate s c.W w h hw

theorem capM (c : Cfg) (s : State) (hW : 0 < c.W) (h : s.status = List.replicate c.W true) : capOf c s = c.P := by
  simp only [capOf, h, countUp_replicate]
  exact Nat.mul_div_cancel _ hW

theorem MidUM0_of_eq (c : Cfg) (s s' : State) (D : List Nat) (h : MidUM0 c s D) (hc : UCore c s')
    (e1 : s'.status = s.status) (e2 : s'.samplerPos = s.samplerPos) (e3 : s'.sendIdx = s.sendIdx)
    (e4 : s'.numTasks = s.numTasks) (e5 : s'.info = s.info) (e6 : s'.workers = s.workers) (e7 : s'.resQ = s.resQ) :
    MidUM0 c s' D := by
  constructor
  · exact hc
  · rw [e1]; exact h.status
  · rw [e2, e3]; exact h.sp
  · rw [e3]; exact h.le
  · rw [e4, e5]; exact h.sum
  · rw [e6]; exact h.qtask
  · rw [e7]; exact h.rkind
  · exact h.dnd
  · rw [e3, e5]; exact h.ddis
  · rw [e3, e5]; exact h.dcov

/-- `_try_put_index`, provided a worker with capacity exists whenever a batch remains. -/
theorem MidUM0_tryPut (c : Cfg) (s : State) (D : List Nat) (hv : c.Valid) (hm : c.iterable = false)
    (hio : c.inOrder = false) (h : MidUM0 c s D)
    (hfree : s.samplerPos < c.batches.length → ∃ w, w < c.W ∧ goodW c s w = true) :
    MidUM0 c (tryPut c s) D ∧ LiveM c (tryPut c s) ∧ SameCore s (tryPut c s) ∧
    (tryPut c s).info.length ≤ s.info.length + 1 := by
  have hcore := UCore_tryPut c s hio hv.1 h.core
  have hsc := tryPut_sameCore c s
  rcases tryPut_cases c s hio hv.1 h.core.cyc with ⟨_, hge, he⟩ | ⟨hne, hno, _⟩ | ⟨hne, w, cyc', hg, hw, hc, he⟩
  · rw [he] at hcore ⊢
    refine ⟨MidUM0_of_eq c s _ D h hcore rfl rfl rfl rfl rfl rfl rfl, ?_, by constructor <;> rfl, by simp⟩
    intro hlt
    have := h.sp
    simp only at hlt
    omega
  · exfalso
    have hlt : s.samplerPos < c.batches.length := by
      rcases hne with h1 | h1
      · rw [hm] at h1; cases h1
      · exact h1
    obtain ⟨w, hw, hg⟩ := hfree hlt
    rw [hno w hw] at hg; cases hg
  · have hlt : s.samplerPos < c.batches.length := by
      rcases hne with h1 | h1
      · rw [hm] at h1; cases h1
      · exact h1
    obtain ⟨e1, e2, e3, e4, e5, e6, e7, e8, _⟩ := dispatchTo_fields c s w cyc'
    obtain ⟨sn, e9⟩ := dispatchTo_workers c s w cyc'
    rw [he] at hcore hsc ⊢
    generalize dispatchTo c s w cyc' = s' at *
    have hsp := h.sp
    refine ⟨⟨hcore, by rw [e1]; exact h.status, by rw [e8, e3, hsp], by rw [e3]; omega, ?_, ?_, by rw [e4]; exact h.rkind,
      h.dnd, ?_, ?_⟩, ?_, hsc, by rw [e5]; simp⟩
    · rw [e6, e5, sumL_modify_succ _ _ (by rw [h.core.ntl]; exact hw), h.sum]; simp
    · intro v k hk i p sn' hmem
      rw [e9] at hk
      obtain ⟨k0, hk0, _, _, _, hq⟩ := pushMsg_get _ _ _ _ _ hk
      rw [hq] at hmem
      split at hmem
      · rcases List.mem_append.mp hmem with h1 | h1
        · exact h.qtask v k0 hk0 i p sn' h1
        · simp at h1; obtain ⟨rfl, rfl, _⟩ := h1; exact hsp
      · exact h.qtask v k0 hk0 i p sn' hmem
    · intro i hi
      obtain ⟨a1, a2⟩ := h.ddis i hi
      rw [e3, e5]
      refine ⟨by omega, fun e he => ?_⟩
      rcases List.mem_append.mp he with h1 | h1
      · exact a2 e h1
      · simp at h1; subst h1; simp; omega
    · intro i hi
      rw [e3] at hi
      rw [e5]
      by_cases hlast : i = s.sendIdx
      · right; exact ⟨⟨s.sendIdx, w, none⟩, by simp, hlast.symm⟩
      · rcases h.dcov i (by omega) with h1 | ⟨e, he, hei⟩
        · exact Or.inl h1
        · exact Or.inr ⟨e, List.mem_append_left _ he, hei⟩
    · intro _; rw [e5]; simp

theorem freeM (c : Cfg) (s : State) (D : List Nat) (hv : c.Valid) (h : MidUM0 c s D)
    (hlt : s.info.length < c.P * c.W) : ∃ w, w < c.W ∧ goodW c s w = true := by
  have hs : sumL s.numTasks < c.P * s.numTasks.length := by rw [h.sum, h.core.ntl]; exact hlt
  obtain ⟨w, hw, hp⟩ := pigeon c.P s.numTasks hs
  rw [h.core.ntl] at hw
  refine ⟨w, hw, ?_⟩
  simp only [goodW, Bool.and_eq_true, decide_eq_true_eq]
  exact ⟨upM c s h.status w hw, by rw [capM c s hv.1 h.status]; exact hp⟩

theorem MidUM0_prime (c : Cfg) (n : Nat) (s : State) (D : List Nat) (hv : c.Valid) (hm : c.iterable = false)
    (hio : c.inOrder = false) (h : MidUM0 c s D) (hlen : s.info.length + n ≤ c.P * c.W) :
    MidUM0 c (prime c n s) D ∧ (0 < n → LiveM c (prime c n s)) ∧ SameCore s (prime c n s) := by
  induction n generalizing s with
  | zero => exact ⟨h, fun h0 => absurd h0 (Nat.lt_irrefl _), SameCore.refl s⟩
  | succ n ih =>
    unfold prime
    obtain ⟨h1, h2, h3, h4⟩ := MidUM0_tryPut c s D hv hm hio h (fun _ => freeM c s D hv h (by omega))
    obtain ⟨a1, a2, a3⟩ := ih (tryPut c s) h1 (by omega)
    refine ⟨a1, fun _ => ?_, h3.trans a3⟩
    cases n with
    | zero => exact h2
    | succ n => exact a2 (by omega)

theorem erase_length (l : List Info) (E : Info) (hE : E ∈ l) (h : (l.map (·.idx)).Nodup) :
    (eraseInfo l E.idx).length + 1 = l.length := by
  induction l with
  | nil => cases hE
  | cons x l ih =>
    simp only [List.map_cons, List.nodup_cons, List.mem_map, not_exists, not_and] at h
    by_cases hx : x.idx = E.idx
    · have hl : eraseInfo l E.idx = l := erase_none l E.idx (fun e he heq => h.1 e he (heq.trans hx.symm))
      have : eraseInfo (x :: l) E.idx = l := by
        simp only [eraseInfo, List.filter_cons] at hl ⊢
        simp [hx, hl]
      rw [this]; simp
    · have hEl : E ∈ l := by
        rcases List.mem_cons.mp hE with h1 | h1
        · subst h1; exact absurd rfl hx
        · exact h1
      have : eraseInfo (x :: l) E.idx = x :: eraseInfo l E.idx := by
        simp only [eraseInfo, List.filter_cons]
        simp [hx]
      rw [this]; simp [ih hEl h.2]

end TDV.MPU
