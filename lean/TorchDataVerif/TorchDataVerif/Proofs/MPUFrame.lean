import TorchDataVerif.Proofs.MPURebase
/-!
# MPU — frame lemmas for persistent workers

With `persistent_workers = True` the main process never puts anything but tasks on an index queue
(outside `_reset` and outside the worker-died path), never touches the result queue except by taking its
head, and never shuts down.
-/
namespace TDV.MPU
open TDV.MP

def isTask : Msg → Prop
  | .task _ _ _ => True
  | _ => False

/-- `ws'` is `ws` with task messages appended to some index queues. -/
def WGrow (ws ws' : List Worker) : Prop :=
  ws'.length = ws.length ∧
  ∀ (w : Nat) (k' : Worker), ws'[w]? = some k' → ∃ k : Worker, ws[w]? = some k ∧ k'.pos = k.pos ∧ k'.iterEnd = k.iterEnd ∧
    k'.alive = k.alive ∧ ∃ ex, k'.q = k.q ++ ex ∧ ∀ m ∈ ex, isTask m

theorem WGrow.refl (ws : List Worker) : WGrow ws ws :=
  ⟨rfl, fun _ k' h => ⟨k', h, rfl, rfl, rfl, [], by simp, by simp⟩⟩

theorem WGrow.trans {a b d : List Worker} (h1 : WGrow a b) (h2 : WGrow b d) : WGrow a d := by
  refine ⟨h2.1.trans h1.1, fun w k' hk' => ?_⟩
  obtain ⟨k1, hk1, p1, p2, p3, ex1, q1, t1⟩ := h2.2 w k' hk'
  obtain ⟨k0, hk0, r1, r2, r3, ex0, q0, t0⟩ := h1.2 w k1 hk1
  refine ⟨k0, hk0, p1.trans r1, p2.trans r2, p3.trans r3, ex0 ++ ex1, by rw [q1, q0, List.append_assoc], ?_⟩
  intro m hm
  rcases List.mem_append.mp hm with h | h
  · exact t0 m h
  · exact t1 m h

theorem WGrow_push (ws : List Worker) (w idx p : Nat) (sn : Bool) :
    WGrow ws (pushMsg ws w (.task idx p sn)) := by
  refine ⟨by simp [pushMsg], fun w' k' hk' => ?_⟩
  obtain ⟨k0, hk0, a1, a2, a3, hq⟩ := pushMsg_get _ _ _ _ _ hk'
  refine ⟨k0, hk0, a1, a2, a3, if w = w' then [.task idx p sn] else [], ?_, ?_⟩
  · rw [hq]; split <;> simp
  · intro m hm
    split at hm
    · simp at hm; subst hm; trivial
    · simp at hm

/-- What the main-process code paths preserve when workers are persistent. -/
structure Frame (s s' : State) : Prop where
  resQ : s'.resQ = s.resQ
  wsl : s'.wsnaps.length = s.wsnaps.length
  sh : s'.shutdown = s.shutdown
  wk : WGrow s.workers s'.workers

theorem Frame.refl (s : State) : Frame s s := ⟨rfl, rfl, rfl, WGrow.refl _⟩

theorem Frame.trans {a b d : State} (h1 : Frame a b) (h2 : Frame b d) : Frame a d :=
  ⟨h2.resQ.trans h1.resQ, h2.wsl.trans h1.wsl, h2.sh.trans h1.sh, h1.wk.trans h2.wk⟩

theorem Frame_of_eq (s s' : State) (h1 : s'.resQ = s.resQ) (h2 : s'.wsnaps.length = s.wsnaps.length)
    (h3 : s'.shutdown = s.shutdown) (h4 : s'.workers = s.workers) : Frame s s' :=
  ⟨h1, h2, h3, by rw [h4]; exact WGrow.refl _⟩

/-- `s1` differs from `s` only in fields the frame does not mention. -/
theorem Frame.pre {s s1 s' : State} (h : Frame s1 s') (h1 : s1.resQ = s.resQ)
    (h2 : s1.wsnaps.length = s.wsnaps.length) (h3 : s1.shutdown = s.shutdown) (h4 : s1.workers = s.workers) :
    Frame s s' :=
  (Frame_of_eq s s1 h1 h2 h3 h4).trans h

theorem tryPut_frame (c : Cfg) (s : State) : Frame s (tryPut c s) := by
  have hc := tryPut_sameCore c s
  refine ⟨hc.resQ, by rw [hc.wsnaps], hc.shutdown, ?_⟩
  unfold tryPut
  split
  · exact WGrow.refl _
  · split
    · exact WGrow.refl _
    · exact WGrow_push _ _ _ _ _

theorem prime_frame (c : Cfg) (n : Nat) (s : State) : Frame s (prime c n s) := by
  induction n generalizing s with
  | zero => exact Frame.refl s
  | succ n ih => unfold prime; exact (tryPut_frame c s).trans (ih _)

theorem applyDelta_length (ws : List WSt) (w : Nat) (st : Option WSt) :
    (applyDelta ws w st).length = ws.length := by
  cases st <;> simp [applyDelta]

theorem takeSnapshot_wsnaps (c : Cfg) (s s' : State) (h : takeSnapshot c s = some s') : s'.wsnaps = s.wsnaps := by
  unfold takeSnapshot at h
  split at h
  · split at h
    · cases h; rfl
    · cases h
  · split at h
    · cases h; rfl
    · split at h
      · cases h; rfl
      · cases h

theorem yieldTail_wsnaps (c : Cfg) (t : State) (x : Nat) : (yieldTail c t x).1.wsnaps = t.wsnaps := by
  unfold yieldTail
  have hd := snapshotDue_eq c t
  generalize snapshotDue c t = d at hd
  split
  · rfl
  · dsimp only
    split
    · split
      · rename_i s' h
        simp only
        rw [takeSnapshot_wsnaps c d.1 s' h, hd]
      · simp only; rw [hd]
    · simp only; rw [hd]

theorem yieldItem_frame (c : Cfg) (s : State) (r : Res) (x : Nat) : Frame s (yieldItem c s r x).1 := by
  have hp := yieldItem_sameProto c s r x
  refine Frame_of_eq _ _ hp.resQ ?_ hp.shutdown hp.workers
  rw [yieldItem_eq_tail, yieldTail_wsnaps]
  exact applyDelta_length _ _ _

theorem processData_frame (c : Cfg) (s : State) (r : Res) : Frame s (processData c s r).1 := by
  have h0 : Frame s { s with numTasks := s.numTasks.modify r.w (· - 1) } := Frame_of_eq _ _ rfl rfl rfl rfl
  have h1 := h0.trans (tryPut_frame c _)
  rw [processData_eq]
  cases r.kind with
  | data x => exact h1.trans (yieldItem_frame c _ r x)
  | notice => exact h1
  | error => exact h1
  | ack => exact h1

theorem skip_frame (s : State) (n : Nat) : Frame s (skip s n) := by
  induction n generalizing s with
  | zero => exact Frame.refl s
  | succ n ih =>
    unfold skip
    split
    · split
      · split
        · exact Frame.refl s
        · exact Frame.pre (ih _) rfl rfl rfl rfl
      · exact Frame.pre (ih _) rfl rfl rfl rfl
    · exact Frame.refl s

theorem loop_frame (c : Cfg) (hp : c.persistent = true) (n : Nat) (s : State) : Frame s (loop c n s).1 := by
  induction n generalizing s with
  | zero => exact Frame.refl s
  | succ n ih =>
    rw [loop_succ_eq]
    have h1 := skip_frame s (s.sendIdx - s.rcvdIdx)
    generalize skip s (s.sendIdx - s.rcvdIdx) = t at h1
    refine h1.trans ?_
    unfold loopBody
    split
    · simp only [hp, if_true]; exact Frame.refl t
    · split
      · exact Frame.refl t
      · split
        · dsimp only
          split
          · exact Frame.pre (ih _) rfl (by simp [applyDelta_length]) rfl rfl
          · exact Frame.pre (processData_frame c _ _) rfl rfl rfl rfl
        · exact Frame_of_eq t _ rfl rfl rfl rfl

theorem finish_frame (p : State × Option Obs) : Frame p.1 (finish p) := by
  unfold finish
  split <;> exact Frame_of_eq _ _ rfl rfl rfl rfl

theorem onArrival_frame (c : Cfg) (hp : c.persistent = true) (s : State) (r : Res) : Frame s (onArrival c s r) := by
  unfold onArrival
  split
  · simp only [hp, if_true]
    exact Frame.pre (tryPut_frame c _) rfl rfl rfl rfl
  · exact Frame.refl s

theorem finish_loop_frame (c : Cfg) (hp : c.persistent = true) (n : Nat) {s s0 : State}
    (h1 : s0.resQ = s.resQ) (h2 : s0.wsnaps.length = s.wsnaps.length) (h3 : s0.shutdown = s.shutdown)
    (h4 : s0.workers = s.workers) : Frame s (finish (loop c n s0)) :=
  (Frame.pre (loop_frame c hp n s0) h1 h2 h3 h4).trans (finish_frame _)

theorem finish_process_frame (c : Cfg) (r : Res) {s s0 : State}
    (h1 : s0.resQ = s.resQ) (h2 : s0.wsnaps.length = s.wsnaps.length) (h3 : s0.shutdown = s.shutdown)
    (h4 : s0.workers = s.workers) :
    Frame s (finish ((processData c s0 r).1, some (processData c s0 r).2)) :=
  (Frame.pre (processData_frame c s0 r) h1 h2 h3 h4).trans
    (finish_frame ((processData c s0 r).1, some (processData c s0 r).2))

theorem recvTail_frame (c : Cfg) (hp : c.persistent = true) (t : State) (r : Res) : Frame t (recvTail c t r) := by
  unfold recvTail
  split
  · split
    · split
      · exact finish_loop_frame c hp _ rfl (by simp [applyDelta_length]) rfl rfl
      · exact finish_process_frame c r rfl rfl rfl rfl
    · exact finish_loop_frame c hp _ rfl rfl rfl rfl
  · split
    · exact finish_loop_frame c hp _ rfl (by simp [applyDelta_length]) rfl rfl
    · exact finish_process_frame c r rfl rfl rfl rfl

theorem recvData_frame (c : Cfg) (hp : c.persistent = true) (s : State) (r : Res) : Frame s (recvData c s r) := by
  rw [recvData_eq_tail]
  refine Frame.trans ?_ (recvTail_frame c hp _ r)
  exact Frame.pre (onArrival_frame c hp _ r) rfl rfl rfl rfl

end TDV.MPU
