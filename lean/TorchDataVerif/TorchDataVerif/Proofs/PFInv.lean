import TorchDataVerif.Proofs.PF
/-! `Inv` is preserved by every action of `TDV.PF.step` (one lemma per action). -/
namespace TDV.PF

macro "inv_close" : tactic =>
  `(tactic| (constructor <;> simp_all [held, rHold, cHold, hist, cMsg, rMsg, npro, appended] <;> try omega))

theorem inv_rInit {c s s'} (h : Inv c s) (hs : step c s .rInit = some s') : Inv c s' := by
  simp only [step, Action.isReader, stepR, if_true] at hs
  split at hs
  · cases hs
    obtain ⟨p1, p2, p3, p4, p5, p6, p7, p8, p9, p10, p11, p12, p13, p14, p15, p16, p17, p18, p19, p20⟩ := h
    cases hse : c.startErr <;> inv_close
  · cases hs

theorem inv_rIsSet {c s s'} (h : Inv c s) (hs : step c s .rIsSet = some s') : Inv c s' := by
  simp only [step, Action.isReader, stepR, if_true] at hs
  split at hs
  · cases hs
    obtain ⟨p1, p2, p3, p4, p5, p6, p7, p8, p9, p10, p11, p12, p13, p14, p15, p16, p17, p18, p19, p20⟩ := h
    cases hst : s.stop <;> inv_close
  · cases hs

theorem inv_rAcq {c s s'} (h : Inv c s) (hs : step c s .rAcq = some s') : Inv c s' := by
  simp only [step, Action.isReader, stepR, if_true] at hs
  split at hs
  · cases hs
    obtain ⟨p1, p2, p3, p4, p5, p6, p7, p8, p9, p10, p11, p12, p13, p14, p15, p16, p17, p18, p19, p20⟩ := h
    inv_close
  · cases hs

theorem inv_rAcqT {c s s'} (h : Inv c s) (hs : step c s .rAcqT = some s') : Inv c s' := by
  simp only [step, Action.isReader, stepR, if_true] at hs
  split at hs
  · cases hs
    obtain ⟨p1, p2, p3, p4, p5, p6, p7, p8, p9, p10, p11, p12, p13, p14, p15, p16, p17, p18, p19, p20⟩ := h
    inv_close
  · cases hs

theorem inv_rEnter {c s s'} (h : Inv c s) (hs : step c s .rEnter = some s') : Inv c s' := by
  simp only [step, Action.isReader, stepR, if_true] at hs
  split at hs
  · cases hs
    obtain ⟨p1, p2, p3, p4, p5, p6, p7, p8, p9, p10, p11, p12, p13, p14, p15, p16, p17, p18, p19, p20⟩ := h
    inv_close
  · cases hs

theorem inv_rExit {c s s'} (h : Inv c s) (hs : step c s .rExit = some s') : Inv c s' := by
  simp only [step, Action.isReader, stepR, if_true] at hs
  split at hs
  · cases hs
    obtain ⟨p1, p2, p3, p4, p5, p6, p7, p8, p9, p10, p11, p12, p13, p14, p15, p16, p17, p18, p19, p20⟩ := h
    inv_close
  · cases hs

theorem storeOf_grow (c : Cfg) (lo hi : Nat) (h : lo ≤ hi) (hs : snapAt c hi = false) :
    storeOf c lo (hi + 1 - lo) = storeOf c lo (hi - lo) := by
  have : hi + 1 - lo = (hi - lo) + 1 := by omega
  rw [this, storeOf_succ]
  have : lo + (hi - lo) = hi := by omega
  simp [this, hs]

theorem inv_rLeave {c s s'} (h : Inv c s) (hs : step c s .rLeave = some s') : Inv c s' := by
  simp only [step, Action.isReader, stepR, if_true] at hs
  split at hs
  · rename_i hpc
    have hrt : s.rterm = false := by
      cases hr : s.rterm
      · rfl
      · have := h.rterm_pc hr; simp_all
    have hlen := congrArg List.length h.hist_eq
    simp [hist, npro, hrt, hpc, rMsg] at hlen
    split at hs
    · rename_i v hv
      cases hs
      have hlt : s.pulled < c.src.length := by
        have := List.getElem?_eq_some_iff.mp hv; exact this.1
      have hm : msgAt c s.pulled = ⟨.item v, s.pulled⟩ := by simp [msgAt, hv]
      have hgl : s.got.length ≤ s.pulled := by omega
      obtain ⟨p1, p2, p3, p4, p5, p6, p7, p8, p9, p10, p11, p12, p13, p14, p15, p16, p17, p18, p19, p20⟩ := h
      cases hsn : snapAt c s.pulled
      · have := storeOf_grow c s.got.length s.pulled hgl hsn
        constructor <;> simp_all [held, rHold, cHold, hist, cMsg, rMsg, npro, appended, List.range_succ] <;> try omega
      · constructor <;> simp_all [held, rHold, cHold, hist, cMsg, rMsg, npro, appended, List.range_succ] <;> try omega
    · rename_i hv
      cases hs
      have hge : c.src.length ≤ s.pulled := by
        have := List.getElem?_eq_none_iff.mp hv; exact this
      have hm : msgAt c s.pulled = ⟨c.term.pay, s.pulled⟩ := by simp [msgAt, hv]
      obtain ⟨p1, p2, p3, p4, p5, p6, p7, p8, p9, p10, p11, p12, p13, p14, p15, p16, p17, p18, p19, p20⟩ := h
      constructor <;> simp_all [held, rHold, cHold, hist, cMsg, rMsg, npro, appended, List.range_succ] <;> try omega
  · cases hs

theorem inv_rAppend {c s s'} (h : Inv c s) (hs : step c s .rAppend = some s') : Inv c s' := by
  simp only [step, Action.isReader, stepR, if_true] at hs
  split at hs
  · rename_i v i hpc
    cases hs
    have hrt : s.rterm = false := by
      cases hr : s.rterm
      · rfl
      · have := h.rterm_pc hr; simp_all
    have hlen := congrArg List.length h.hist_eq
    simp [hist, npro, hrt, hpc, rMsg] at hlen
    obtain ⟨hi1, hi2⟩ := h.app_idx v i hpc
    have hst : storeOf c s.got.length (s.pulled - s.got.length) =
        storeOf c s.got.length (s.pulled - 1 - s.got.length) ++ [(i, c.base + i + 1)] := by
      have e1 : s.pulled - s.got.length = (s.pulled - 1 - s.got.length) + 1 := by omega
      have e2 : s.got.length + (s.pulled - 1 - s.got.length) = i := by omega
      rw [e1, storeOf_succ, e2, hi2]; simp
    obtain ⟨p1, p2, p3, p4, p5, p6, p7, p8, p9, p10, p11, p12, p13, p14, p15, p16, p17, p18, p19, p20⟩ := h
    constructor <;> simp_all [held, rHold, cHold, hist, cMsg, rMsg, npro, appended] <;> try omega
  · cases hs

theorem inv_rPut {c s s'} (h : Inv c s) (hs : step c s .rPut = some s') : Inv c s' := by
  simp only [step, Action.isReader, stepR, if_true] at hs
  split at hs
  · rename_i m hpc
    cases hs
    obtain ⟨p1, p2, p3, p4, p5, p6, p7, p8, p9, p10, p11, p12, p13, p14, p15, p16, p17, p18, p19, p20⟩ := h
    cases hit : m.pay.isItem
    · constructor <;> simp_all [held, rHold, cHold, hist, cMsg, rMsg, npro, appended] <;> try omega
    · constructor <;> simp_all [held, rHold, cHold, hist, cMsg, rMsg, npro, appended] <;> try omega
  · cases hs

theorem msgAt_idx (c : Cfg) (i : Nat) : (msgAt c i).idx = i := by
  unfold msgAt; split <;> rfl

theorem msgAt_isItem (c : Cfg) (i : Nat) : (msgAt c i).pay.isItem = true ↔ i < c.src.length := by
  unfold msgAt
  split
  · rename_i v hv
    have := (List.getElem?_eq_some_iff.mp hv).1
    simp [this]
  · rename_i hv
    have := List.getElem?_eq_none_iff.mp hv
    simp; omega

/-- the message in the consumer's hand is the one with index `got.length` -/
theorem hand_eq {c s m} (h : Inv c s) (hm : cMsg s.cpc = [m]) :
    m = msgAt c s.got.length ∧ s.got.length + 1 + s.q.length + (rMsg s.rpc).length = npro s := by
  have e := h.hist_eq
  simp only [hist, hm] at e
  have e' : s.got ++ m :: (s.q ++ rMsg s.rpc) = (List.range (npro s)).map (msgAt c) := by
    simpa using e
  have hl := congrArg List.length e'
  simp at hl
  exact ⟨(mid_of_eq e').1, by omega⟩

theorem hand_item {c s m} (h : Inv c s) (hm : cMsg s.cpc = [m]) (hit : m.pay.isItem = true) :
    s.got.length < c.src.length ∧ s.got.length < appended s := by
  obtain ⟨e1, e2⟩ := hand_eq h hm
  have hL : s.got.length < c.src.length := by
    rw [e1] at hit; exact (msgAt_isItem c _).mp hit
  refine ⟨hL, ?_⟩
  have h3 := h.pulled_le
  have h4 := h.rterm_pulled
  have h5 := h.rterm_pc
  have h6 := h.app_idx
  unfold npro at e2
  cases hr : s.rterm <;> cases hpc : s.rpc <;> simp_all [appended, rMsg] <;> omega

end TDV.PF
