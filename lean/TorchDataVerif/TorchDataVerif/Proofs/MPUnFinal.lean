import TorchDataVerif.Proofs.MPUnMapRun
/-!
# MPU, `in_order = False`: from the invariant to multiset statements
-/
namespace TDV.MPU
open TDV.MP

def okOf : Item → Option Nat
  | .ok b => some b
  | .err => none

theorem oks_eq_filterMap (l : List Item) : oks l = l.filterMap okOf := by
  induction l with
  | nil => rfl
  | cons x l ih => cases x <;> simp [oks, okOf, ih, List.filterMap_cons]

theorem oks_perm {a b : List Item} (h : a.Perm b) : (oks a).Perm (oks b) := by
  rw [oks_eq_filterMap, oks_eq_filterMap]; exact h.filterMap _

theorem sublist_complete {α : Type} {l₁ l₂ : List α} (h : l₁.Sublist l₂) : ∃ r, (l₁ ++ r).Perm l₂ := by
  induction h with
  | slnil => exact ⟨[], List.Perm.refl _⟩
  | cons a _ ih =>
    obtain ⟨r, hr⟩ := ih
    exact ⟨a :: r, List.perm_middle.trans (List.Perm.cons a hr)⟩
  | cons_cons a _ ih =>
    obtain ⟨r, hr⟩ := ih
    exact ⟨r, List.Perm.cons a hr⟩

/-- Yields are what the `ok` items of the answered tasks give, minus the batches lost to the assertion. -/
theorem ObsRel_yields_sublist (a : List Item) (b : List Obs) (h : ObsRel a b) : (yields b).Sublist (oks a) := by
  induction a generalizing b with
  | nil => cases b with
    | nil => exact List.Sublist.refl _
    | cons _ _ => exact h.elim
  | cons x a ih => cases b with
    | nil => exact h.elim
    | cons y b =>
      obtain ⟨h1, h2⟩ := h
      have := ih b h2
      cases x with
      | ok v =>
        rcases h1 with rfl | rfl
        · simp only [yields, oks]; exact List.Sublist.cons_cons _ this
        · simp only [yields, oks]; exact List.Sublist.cons _ this
      | err =>
        cases h1
        simpa [yields, oks] using this

/-- A duplicate-free list of numbers below `n`, completed to a permutation of `range n`. -/
theorem nodup_complete (D : List Nat) (n : Nat) (hnd : D.Nodup) (hlt : ∀ i ∈ D, i < n) :
    (D ++ (List.range n).filter (fun i => !D.contains i)).Perm (List.range n) := by
  rw [List.perm_ext_iff_of_nodup]
  · intro a
    simp only [List.mem_append, List.mem_filter, List.mem_range, Bool.not_eq_true', List.contains_eq_mem,
      decide_eq_false_iff_not]
    constructor
    · rintro (h | ⟨h, _⟩)
      · exact hlt a h
      · exact h
    · intro h
      by_cases ha : a ∈ D
      · exact Or.inl ha
      · exact Or.inr ⟨h, ha⟩
  · rw [List.nodup_append]
    refine ⟨hnd, List.Nodup.sublist List.filter_sublist List.nodup_range, ?_⟩
    intro a ha b hb heq
    subst heq
    simp only [List.mem_filter, Bool.not_eq_true', List.contains_eq_mem, decide_eq_false_iff_not] at hb
    exact hb.2 ha
  · exact List.nodup_range

theorem range_map_itemAt (c : Cfg) : (List.range c.batches.length).map (itemAt c) = c.batches :=
  map_getD_range c.batches .err

/-- Safety, map-style: the yields are a sub-multiset of the reference batches. -/
theorem goal_safe_map (c : Cfg) (obs : List Obs) (D : List Nat) (hnd : D.Nodup) (hlt : ∀ i ∈ D, i < c.batches.length)
    (ho : ObsRel (D.map (itemAt c)) (taskObs obs)) : ∃ rest, (yields obs ++ rest).Perm (oks c.batches) := by
  have h1 := ObsRel_yields_sublist _ _ ho
  rw [yields_taskObs] at h1
  obtain ⟨r1, hr1⟩ := sublist_complete h1
  have h2 := (nodup_complete D c.batches.length hnd hlt).map (itemAt c)
  rw [range_map_itemAt, List.map_append] at h2
  have h3 := oks_perm h2
  rw [oks_append] at h3
  refine ⟨r1 ++ oks (((List.range c.batches.length).filter (fun i => !D.contains i)).map (itemAt c)), ?_⟩
  rw [← List.append_assoc]
  exact (List.Perm.append_right _ hr1).trans h3

/-- Completeness, map-style: all tasks answered, no assertion: the observations are a permutation. -/
theorem goal_complete_map (c : Cfg) (obs : List Obs) (D : List Nat) (hnd : D.Nodup)
    (hlt : ∀ i ∈ D, i < c.batches.length) (hall : ∀ i, i < c.batches.length → i ∈ D)
    (ho : ObsRel (D.map (itemAt c)) (taskObs obs)) (ha : Obs.assertion ∉ obs) :
    (taskObs obs).Perm (c.batches.map expected) ∧ (yields obs).Perm (oks c.batches) := by
  have hna : Obs.assertion ∉ taskObs obs := fun hm => ha (mem_taskObs _ _ hm)
  have h1 := ObsRel_noassert _ _ ho hna
  have hperm : D.Perm (List.range c.batches.length) := by
    rw [List.perm_ext_iff_of_nodup hnd List.nodup_range]
    intro a
    rw [List.mem_range]
    exact ⟨hlt a, hall a⟩
  have h2 := hperm.map (itemAt c)
  rw [range_map_itemAt] at h2
  refine ⟨by rw [h1]; exact h2.map _, ?_⟩
  rw [← yields_taskObs, h1, yields_map_expected]
  exact oks_perm h2

end TDV.MPU
