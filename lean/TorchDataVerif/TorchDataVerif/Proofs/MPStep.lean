import TorchDataVerif.Proofs.MPBase
/-!
# MP — `snapshot_step` / `steps_since_snapshot` bookkeeping, for every configuration with `in_order = True`

Independent of the dispatch protocol: only `_process_data` touches `_num_yielded`, the snapshot and the
consumer's observations, and it does so consistently.
-/
namespace TDV.MP

structure GS (c : Cfg) (s : State) : Prop where
  ny : s.numYielded = (yields s.obs).length
  st0 : c.interval = 0 → s.snap.step = 0
  st : c.interval ≠ 0 → c.iterable = true →
    c.interval ∣ s.snap.step ∧ s.snap.step ≤ s.numYielded ∧ s.numYielded < s.snap.step + c.interval

theorem GS_of_eq (c : Cfg) (s s' : State) (t : List Obs) (h : GS c s) (e1 : s'.numYielded = s.numYielded)
    (e2 : s'.snap = s.snap) (e3 : s'.obs = s.obs ++ t) (ht : yields t = []) : GS c s' := by
  constructor
  · rw [e1, e3, yields_append, ht, List.append_nil]; exact h.ny
  · rw [e2]; exact h.st0
  · rw [e2, e1]; exact h.st

theorem step_keep' (I st ny : Nat) (hd : I ∣ st) (h2 : ny < st + I)
    (hnd : ¬ (ny + 1) % I = 0) : ny + 1 < st + I := by
  by_cases he : ny + 1 = st + I
  · exfalso; apply hnd
    rw [he, Nat.add_mod_right]
    exact Nat.mod_eq_zero_of_dvd hd
  · omega

theorem takeSnapshot_cases (c : Cfg) (s : State) (hio : c.inOrder = true) :
    takeSnapshot c s = none ∨ ∃ e rest, takeSnapshot c s =
      some { s with mainSnaps := rest, snap := ⟨s.numYielded + 1, s.lastW, e, s.wsnaps⟩ } := by
  unfold takeSnapshot
  split
  · simp [hio]
  · split
    · exact Or.inr ⟨_, _, rfl⟩
    · exact Or.inl (by simp [hio])

/-- Yielding, every configuration: the observation and `numYielded` evolve together. -/
theorem yieldItem_ny (c : Cfg) (s : State) (r : Res) (b : Nat) :
    ((yieldItem c s r b).2 = .item b ∧ (yieldItem c s r b).1.numYielded = s.numYielded + 1 ∨
     (yieldItem c s r b).2 = .assertion ∧ (yieldItem c s r b).1.numYielded = s.numYielded) ∧
    (c.interval = 0 → (yieldItem c s r b).1.snap = s.snap) := by
  unfold yieldItem
  dsimp only
  have hd : (snapshotDue c { s with lastW := r.w, wsnaps := applyDelta s.wsnaps r.w r.st }).1.numYielded =
      s.numYielded := by
    unfold snapshotDue; split <;> rfl
  generalize snapshotDue c { s with lastW := r.w, wsnaps := applyDelta s.wsnaps r.w r.st } = d at hd
  split
  · exact ⟨Or.inl ⟨rfl, rfl⟩, fun _ => rfl⟩
  · rename_i h0
    refine ⟨?_, fun h => absurd h h0⟩
    split
    · split
      · rename_i s' h
        unfold takeSnapshot at h
        left
        refine ⟨rfl, ?_⟩
        split at h
        · split at h
          · cases h; simp only; rw [hd]
          · cases h
        · split at h
          · cases h; simp only; rw [hd]
          · split at h
            · cases h; simp only; rw [hd]
            · cases h
      · exact Or.inr ⟨rfl, hd⟩
    · exact Or.inl ⟨rfl, by simp only; rw [hd]⟩

/-- Yielding: `(numYielded, snap.step, observation)` evolve together. -/
theorem yieldItem_gs (c : Cfg) (s : State) (r : Res) (b : Nat) (hio : c.inOrder = true)
    (h0 : c.interval = 0 → s.snap.step = 0)
    (h1 : c.interval ≠ 0 → c.iterable = true →
      c.interval ∣ s.snap.step ∧ s.snap.step ≤ s.numYielded ∧ s.numYielded < s.snap.step + c.interval) :
    ((yieldItem c s r b).2 = .item b ∧ (yieldItem c s r b).1.numYielded = s.numYielded + 1 ∨
     (yieldItem c s r b).2 = .assertion ∧ (yieldItem c s r b).1.numYielded = s.numYielded) ∧
    (c.interval = 0 → (yieldItem c s r b).1.snap.step = 0) ∧
    (c.interval ≠ 0 → c.iterable = true → c.interval ∣ (yieldItem c s r b).1.snap.step ∧
      (yieldItem c s r b).1.snap.step ≤ (yieldItem c s r b).1.numYielded ∧
      (yieldItem c s r b).1.numYielded < (yieldItem c s r b).1.snap.step + c.interval) := by
  refine ⟨(yieldItem_ny c s r b).1, fun hz => by rw [(yieldItem_ny c s r b).2 hz]; exact h0 hz, fun hI hit => ?_⟩
  have h1 := h1 hI hit
  rw [yieldItem_iter c s r b hit]
  unfold yieldItemOld
  dsimp only
  by_cases hdue : c.interval ≠ 0 ∧ (s.numYielded + 1) % c.interval = 0
  · rw [if_pos hdue]
    rcases takeSnapshot_cases c { s with lastW := r.w, wsnaps := applyDelta s.wsnaps r.w r.st } hio with ht | ⟨e, rest, ht⟩
    · rw [ht]
      exact h1
    · rw [ht]
      have := Nat.pos_of_ne_zero hdue.1
      exact ⟨Nat.dvd_of_mod_eq_zero hdue.2, Nat.le_refl _, by simp only; omega⟩
  · rw [if_neg hdue]
    obtain ⟨d1, d2, d3⟩ := h1
    refine ⟨d1, by simp only; omega, ?_⟩
    exact step_keep' _ _ _ d1 d3 (fun hh => hdue ⟨hI, hh⟩)

theorem GS_processData (c : Cfg) (s : State) (r : Res) (hio : c.inOrder = true) (h : GS c s) :
    GS c (finish ((processData c s r).1, some (processData c s r).2)) := by
  have hc := tryPut_sameCore c { s with numTasks := s.numTasks.modify r.w (· - 1) }
  have hproc : processData c s r =
      (match r.kind with
       | .data b => yieldItem c (tryPut c { s with numTasks := s.numTasks.modify r.w (· - 1) }) r b
       | _ => (tryPut c { s with numTasks := s.numTasks.modify r.w (· - 1) }, .error)) := by
    unfold processData; rfl
  rw [hproc]
  generalize tryPut c { s with numTasks := s.numTasks.modify r.w (· - 1) } = s2 at hc
  have e1 : s2.numYielded = s.numYielded := hc.numYielded
  have e2 : s2.snap = s.snap := hc.snap
  have e3 : s2.obs = s.obs := hc.obs
  have key : GS c (finish (s2, some Obs.error)) :=
    GS_of_eq c s _ [.error] h e1 e2 (by simp [finish, e3]) rfl
  cases hk : r.kind with
  | data b =>
    simp only
    have hy := yieldItem_gs c s2 r b hio (by rw [e2]; exact h.st0) (by rw [e2, e1]; exact h.st)
    have hp := yieldItem_sameProto c s2 r b
    generalize yieldItem c s2 r b = y at hy hp
    obtain ⟨s3, o⟩ := y
    simp only at hy hp
    obtain ⟨ho, a0, a1⟩ := hy
    simp only [finish]
    rcases ho with ⟨rfl, hny⟩ | ⟨rfl, hny⟩
    · exact ⟨by simp [hny, e1, hp.obs, e3, yields_append, yields, h.ny], a0, a1⟩
    · exact ⟨by simp [hny, e1, hp.obs, e3, yields_append, yields, h.ny], a0, a1⟩
  | notice => exact key
  | error => exact key
  | ack => exact key

theorem skip_sameSkipFields (s : State) (n : Nat) :
    (skip s n).numYielded = s.numYielded ∧ (skip s n).snap = s.snap ∧ (skip s n).obs = s.obs := by
  induction n generalizing s with
  | zero => exact ⟨rfl, rfl, rfl⟩
  | succ n ih =>
    unfold skip
    split
    · split
      · split
        · exact ⟨rfl, rfl, rfl⟩
        · exact ih _
      · exact ih _
    · exact ⟨rfl, rfl, rfl⟩

theorem GS_loop (c : Cfg) (n : Nat) (s : State) (hio : c.inOrder = true) (h : GS c s) :
    GS c (finish (loop c n s)) := by
  induction n generalizing s with
  | zero => exact GS_of_eq c s _ [] h rfl rfl (by simp [loop, finish]) rfl
  | succ n ih =>
    unfold loop
    obtain ⟨e1, e2, e3⟩ := skip_sameSkipFields s (s.sendIdx - s.rcvdIdx)
    have h2 : GS c (skip s (s.sendIdx - s.rcvdIdx)) := GS_of_eq c s _ [] h e1 e2 (by simp [e3]) rfl
    generalize skip s (s.sendIdx - s.rcvdIdx) = s2 at h2
    dsimp only
    split
    · split
      · exact GS_of_eq c s2 _ [.stop] h2 rfl rfl (by simp [finish]) rfl
      · have hsm := shutdownWorkers_sameMain c s2
        exact GS_of_eq c s2 _ [.stop] h2 hsm.numYielded hsm.snap (by simp [finish, hsm.obs]) rfl
    · split
      · exact GS_of_eq c s2 _ [] h2 rfl rfl (by simp [finish]) rfl
      · split
        · split
          · exact ih _ (GS_of_eq c s2 _ [] h2 rfl rfl (by simp) rfl)
          · exact GS_processData c _ _ hio (GS_of_eq c s2 _ [] h2 rfl rfl (by simp) rfl)
        · exact GS_of_eq c s2 _ [] h2 rfl rfl (by simp [finish]) rfl

theorem onArrival_gsFields (c : Cfg) (s : State) (r : Res) :
    (onArrival c s r).numYielded = s.numYielded ∧ (onArrival c s r).snap = s.snap ∧ (onArrival c s r).obs = s.obs := by
  unfold onArrival
  split
  · have hc := tryPut_sameCore c
      { (if c.persistent then { s with status := s.status.set r.w false } else markUnavailable c s r.w false) with
        bad := (if c.persistent then { s with status := s.status.set r.w false }
                else markUnavailable c s r.w false).bad || r.st.isNone }
    refine ⟨hc.numYielded.trans ?_, hc.snap.trans ?_, hc.obs.trans ?_⟩ <;> (split <;> rfl)
  · exact ⟨rfl, rfl, rfl⟩

theorem GS_recvData (c : Cfg) (s : State) (r : Res) (hio : c.inOrder = true) (h : GS c s) :
    GS c (recvData c s r) := by
  obtain ⟨e1, e2, e3⟩ := onArrival_gsFields c { s with outstanding := s.outstanding - 1 } r
  have h1 : GS c (onArrival c { s with outstanding := s.outstanding - 1 } r) :=
    GS_of_eq c s _ [] h e1 e2 (by simp [e3]) rfl
  unfold recvData
  generalize onArrival c { s with outstanding := s.outstanding - 1 } r = t at h1
  simp only [hio, Bool.not_true, Bool.false_eq_true, if_false]
  split
  · exact GS_loop c _ _ hio (GS_of_eq c t _ [] h1 rfl rfl (by simp) rfl)
  · split
    · exact GS_loop c _ _ hio (GS_of_eq c t _ [] h1 rfl rfl (by simp) rfl)
    · exact GS_processData c _ _ hio (GS_of_eq c t _ [] h1 rfl rfl (by simp) rfl)

theorem GS_step (c : Cfg) (s s' : State) (a : Action) (hio : c.inOrder = true) (ha : a ≠ .reset) (h : GS c s)
    (hph : ∀ k, s.phase ≠ .resuming k) (hst : step c s a = some s') : GS c s' := by
  cases a with
  | reset => exact absurd rfl ha
  | work w =>
    simp only [step] at hst
    split at hst
    · cases hst
    · split at hst
      · cases hst
      · split at hst
        · cases hst
        · cases hst; exact GS_of_eq c s _ [] h rfl rfl (by simp) rfl
  | kill w =>
    simp only [step] at hst
    split at hst
    · cases hst
    · split at hst
      · cases hst
      · cases hst; exact GS_of_eq c s _ [] h rfl rfl (by simp) rfl
  | stateDict =>
    simp only [step] at hst
    split at hst
    · cases hst
    · cases hst; exact GS_of_eq c s _ [_] h rfl rfl rfl rfl
  | pollTimeout =>
    simp only [step] at hst
    split at hst
    · cases hst
    · split at hst
      · cases hst; exact h
      · cases hst
        rename_i f fs _
        have hsm : ∀ (l : List Nat) (s0 : State), (markAll c s0 l).numYielded = s0.numYielded ∧
            (markAll c s0 l).snap = s0.snap ∧ (markAll c s0 l).obs = s0.obs := by
          intro l
          induction l with
          | nil => intro s0; exact ⟨rfl, rfl, rfl⟩
          | cons x l ih => intro s0; unfold markAll; exact ih _
        obtain ⟨a1, a2, a3⟩ := hsm (f :: fs) s
        exact GS_of_eq c s _ [.workerDied] h a1 a2 (by simp [a3]) rfl
  | next =>
    simp only [step] at hst
    split at hst
    · cases hst
    · cases hst; exact GS_loop c _ s hio h
  | recv =>
    simp only [step] at hst
    split at hst
    · cases hst
    · split at hst
      · cases hst
      · split at hst
        · cases hst
        · cases hst; exact GS_recvData c _ _ hio (GS_of_eq c s _ [] h rfl rfl (by simp) rfl)
      · rename_i k hk
        exact absurd hk (hph k)

end TDV.MP
