import TorchDataVerif.Proofs.MPUStruct
/-!
# MPU, `in_order = False`: `_take_snapshot` never raises

With `in_order = False` `_take_snapshot` returns without taking a snapshot whenever the main snapshot it
popped is not the one of task `rcvd_idx - 1` (repo fix e083a8d; before it only when nothing was popped),
so the alignment assertion cannot fire: for every snapshot interval, every schedule, every run (resets
included).
-/
namespace TDV.MPU
open TDV.MP

theorem takeSnapshot_some (c : Cfg) (s : State) (hio : c.inOrder = false) : takeSnapshot c s ≠ none := by
  unfold takeSnapshot
  split
  · simp [hio]
  · split
    · simp
    · simp [hio]

theorem yieldItem_item (c : Cfg) (s : State) (r : Res) (b : Nat) (hio : c.inOrder = false) :
    (yieldItem c s r b).2 = .item b := by
  rw [yieldItem_eq_tail]
  unfold yieldTail
  split
  · rfl
  · dsimp only
    split
    · split
      · rfl
      · rename_i h
        exact absurd h (takeSnapshot_some c _ hio)
    · rfl

theorem processData_na (c : Cfg) (s : State) (r : Res) (hio : c.inOrder = false) :
    (processData c s r).2 ≠ .assertion := by
  rw [processData_eq]
  cases r.kind with
  | data x => simp only; rw [yieldItem_item c _ r x hio]; simp
  | notice => simp
  | error => simp
  | ack => simp

theorem loop_na (c : Cfg) (hio : c.inOrder = false) (n : Nat) (s : State) (x : Obs) (h : (loop c n s).2 = some x) :
    x ≠ .assertion := by
  induction n generalizing s with
  | zero => simp [loop] at h
  | succ n ih =>
    rw [loop_succ_eq] at h
    generalize skip s (s.sendIdx - s.rcvdIdx) = t at h
    unfold loopBody at h
    split at h
    · simp at h; subst h; simp
    · split at h
      · simp at h
      · split at h
        · dsimp only at h
          split at h
          · exact ih _ h
          · simp at h; subst h; exact processData_na c _ _ hio
        · simp at h

theorem finish_loop_na (c : Cfg) (hio : c.inOrder = false) (n : Nat) (s : State) (h : Obs.assertion ∉ s.obs) :
    Obs.assertion ∉ (finish (loop c n s)).obs := by
  rw [finish_obs, loop_obs]
  intro hm
  rcases List.mem_append.mp hm with h1 | h1
  · exact h h1
  · cases hx : (loop c n s).2 with
    | none => simp [hx] at h1
    | some x =>
      simp [hx] at h1
      exact loop_na c hio n s x hx h1.symm

theorem finish_process_na (c : Cfg) (hio : c.inOrder = false) (s : State) (r : Res) (h : Obs.assertion ∉ s.obs) :
    Obs.assertion ∉ (finish ((processData c s r).1, some (processData c s r).2)).obs := by
  rw [finish_obs, processData_obs]
  intro hm
  rcases List.mem_append.mp hm with h1 | h1
  · exact h h1
  · simp at h1
    exact processData_na c s r hio h1.symm

theorem recvTail_na (c : Cfg) (hio : c.inOrder = false) (t : State) (r : Res) (h : Obs.assertion ∉ t.obs) :
    Obs.assertion ∉ (recvTail c t r).obs := by
  unfold recvTail
  split
  · split
    · split
      · exact finish_loop_na c hio _ _ h
      · exact finish_process_na c hio _ r h
    · exact finish_loop_na c hio _ _ h
  · split
    · exact finish_loop_na c hio _ _ h
    · exact finish_process_na c hio _ r h

theorem recvData_na (c : Cfg) (hio : c.inOrder = false) (s : State) (r : Res) (h : Obs.assertion ∉ s.obs) :
    Obs.assertion ∉ (recvData c s r).obs := by
  rw [recvData_eq_tail]
  apply recvTail_na c hio
  rw [onArrival_obs]
  exact h

theorem step_na (c : Cfg) (hio : c.inOrder = false) (s s' : State) (a : Action) (h : Obs.assertion ∉ s.obs)
    (hst : step c s a = some s') : Obs.assertion ∉ s'.obs := by
  cases a with
  | work w =>
    rw [step_work_eq] at hst
    split at hst
    · cases hst
    · split at hst
      · cases hst
      · split at hst
        · cases hst
        · cases hst; exact h
  | kill w =>
    simp only [step] at hst
    split at hst
    · cases hst
    · split at hst
      · cases hst
      · cases hst; exact h
  | stateDict =>
    simp only [step] at hst
    split at hst
    · cases hst
    · cases hst
      intro hm
      rcases List.mem_append.mp hm with h1 | h1
      · exact h h1
      · simp at h1
  | pollTimeout =>
    simp only [step] at hst
    split at hst
    · cases hst
    · split at hst
      · cases hst; exact h
      · cases hst
        simp only [markAll_obs]
        intro hm
        rcases List.mem_append.mp hm with h1 | h1
        · exact h h1
        · simp at h1
  | reset =>
    simp only [step] at hst
    split at hst
    · cases hst
    · cases hst; exact h
  | next =>
    simp only [step] at hst
    split at hst
    · cases hst
    · cases hst; exact finish_loop_na c hio _ s h
  | recv =>
    rw [step_recv_eq] at hst
    split at hst
    · cases hst
    · split at hst
      · cases hst
      · split at hst
        · cases hst
        · cases hst; exact recvData_na c hio _ _ h
      · split at hst
        · split at hst
          · cases hst
            simp only [ackDone, resetTail, prime_obs]
            intro hm
            rcases List.mem_append.mp hm with h1 | h1
            · exact h h1
            · simp at h1
          · cases hst; exact h
        · cases hst; exact h

/-- **No AssertionError with `in_order = False`**, for every run (any actions, resets included). -/
theorem run_na (c : Cfg) (hio : c.inOrder = false) (as : List Action) (s s' : State) (h : Obs.assertion ∉ s.obs)
    (hr : run c s as = some s') : Obs.assertion ∉ s'.obs := by
  induction as generalizing s with
  | nil => simp [run] at hr; subst hr; exact h
  | cons a as ih =>
    simp only [run] at hr
    cases hs : step c s a with
    | none => simp [hs] at hr
    | some s1 =>
      simp only [hs] at hr
      exact ih s1 (step_na c hio s s1 a h hs) hr

theorem init_obs (c : Cfg) : (init c).obs = [] := by
  simp only [init, resetTail, prime_obs]
  rfl

end TDV.MPU
