import TorchDataVerif.Proofs.NodesDen
/-! Reachability of a combinator projects to reachability of its source; `SameOuts` lifts through the
stateless combinators. -/
namespace TDV.Node

theorem mapNext_snd (src : Node) (f : Item → Option Item) (r : Run src) :
    (mapNext src f r).2 = (src.rnext r).2 := by
  rcases hx : src.rnext r with ⟨o, r'⟩
  cases o <;> simp [mapNext, hx]

theorem mapper_reach (f : Item → Option Item) (src : Node) (R : Run (mapper f src))
    (h : (mapper f src).Reach R) : src.Reach (R.st : Run src) := by
  induction h with
  | initNone => exact Node.Reach.initNone
  | initSome _ ih => exact Node.Reach.initSome ih
  | @next r _ ih =>
    have := Node.Reach.next ih
    rw [← mapNext_snd src f (r.st : Run src)] at this
    exact this
  | get _ ih => exact Node.Reach.get ih
  | resetNone _ ih => exact Node.Reach.resetNone ih
  | resetSome _ _ ih1 ih2 => exact Node.Reach.resetSome ih1 ih2

theorem collect_reach (src : Node) (k : Nat) : ∀ r, src.Reach r → src.Reach (collect src k r).2 := by
  induction k with
  | zero => intro r h; exact h
  | succ k ih =>
    intro r h
    have hn := Node.Reach.next h
    rcases hx : src.rnext r with ⟨o, r'⟩
    rw [hx] at hn
    cases o with
    | item v => simp only [collect, hx]; exact ih r' hn
    | stop => simp only [collect, hx]; exact hn
    | error e => simp only [collect, hx]; exact hn

theorem batcher_reach (bs : Nat) (dl : Bool) (src : Node) (R : Run (batcher bs dl src))
    (h : (batcher bs dl src).Reach R) : src.Reach (R.st : Run src) := by
  induction h with
  | initNone => exact Node.Reach.initNone
  | initSome _ ih => exact Node.Reach.initSome ih
  | next _ ih =>
    rw [batcher_rnext]
    exact collect_reach src bs _ ih
  | get _ ih => exact Node.Reach.get ih
  | resetNone _ ih => exact Node.Reach.resetNone ih
  | resetSome _ _ ih1 ih2 => exact Node.Reach.resetSome ih1 ih2

/-! ### `SameOuts` lifts through mapper and batcher -/

theorem mapper_sameOuts (f : Item → Option Item) (src : Node) (k : Nat) :
    ∀ (a b : Run src) (x y : Bool), SameOuts src a b →
      (mapper f src).outs k ⟨a, x⟩ = (mapper f src).outs k ⟨b, y⟩ := by
  induction k with
  | zero => intros; rfl
  | succ k ih =>
    intro a b x y h
    have hn := sameOuts_next h
    rcases ha : src.rnext a with ⟨oa, a'⟩
    rcases hb : src.rnext b with ⟨ob, b'⟩
    rw [ha, hb] at hn
    simp only at hn
    obtain ⟨h1, h2⟩ := hn
    subst h1
    have e1 : (mapNext src f a).1 = (mapNext src f b).1 := by
      cases oa <;> simp only [mapNext, ha, hb]
    have e2a : (mapNext src f a).2 = a' := by rw [mapNext_snd, ha]
    have e2b : (mapNext src f b).2 = b' := by rw [mapNext_snd, hb]
    show (mapNext src f a).1 :: (mapper f src).outs k ⟨(mapNext src f a).2, true⟩ =
      (mapNext src f b).1 :: (mapper f src).outs k ⟨(mapNext src f b).2, true⟩
    rw [e1, e2a, e2b, ih a' b' true true h2]

theorem collect_sameOuts (src : Node) (k : Nat) : ∀ (a b : Run src), SameOuts src a b →
    (collect src k a).1 = (collect src k b).1 ∧ SameOuts src (collect src k a).2 (collect src k b).2 := by
  induction k with
  | zero => intro a b h; exact ⟨rfl, h⟩
  | succ k ih =>
    intro a b h
    have hn := sameOuts_next h
    rcases ha : src.rnext a with ⟨oa, a'⟩
    rcases hb : src.rnext b with ⟨ob, b'⟩
    rw [ha, hb] at hn
    simp only at hn
    obtain ⟨h1, h2⟩ := hn
    subst h1
    cases oa with
    | item v =>
      have := ih a' b' h2
      have ea : collect src (k + 1) a = ((v :: (collect src k a').1.1, (collect src k a').1.2), (collect src k a').2) := by
        simp only [collect, ha]
      have eb : collect src (k + 1) b = ((v :: (collect src k b').1.1, (collect src k b').1.2), (collect src k b').2) := by
        simp only [collect, hb]
      rw [ea, eb]
      exact ⟨by rw [this.1], this.2⟩
    | stop =>
      have ea : collect src (k + 1) a = (([], .stop), a') := by simp only [collect, ha]
      have eb : collect src (k + 1) b = (([], .stop), b') := by simp only [collect, hb]
      rw [ea, eb]; exact ⟨rfl, h2⟩
    | error e =>
      have ea : collect src (k + 1) a = (([], .err e), a') := by simp only [collect, ha]
      have eb : collect src (k + 1) b = (([], .err e), b') := by simp only [collect, hb]
      rw [ea, eb]; exact ⟨rfl, h2⟩

theorem batcher_sameOuts (bs : Nat) (dl : Bool) (src : Node) (k : Nat) :
    ∀ (a b : Run src) (x y : Bool), SameOuts src a b →
      (batcher bs dl src).outs k ⟨a, x⟩ = (batcher bs dl src).outs k ⟨b, y⟩ := by
  induction k with
  | zero => intros; rfl
  | succ k ih =>
    intro a b x y h
    have hc := collect_sameOuts src bs a b h
    show batchOut dl (collect src bs a).1 :: (batcher bs dl src).outs k ⟨(collect src bs a).2, true⟩ =
      batchOut dl (collect src bs b).1 :: (batcher bs dl src).outs k ⟨(collect src bs b).2, true⟩
    rw [hc.1, ih _ _ true true hc.2]

theorem mapper_getTransparent (f : Item → Option Item) (src : Node) (h : GetTransparent src) :
    GetTransparent (mapper f src) := by
  intro R hR k
  exact mapper_sameOuts f src k _ _ _ _ (h _ (mapper_reach f src R hR))

theorem batcher_getTransparent (bs : Nat) (dl : Bool) (src : Node) (h : GetTransparent src) :
    GetTransparent (batcher bs dl src) := by
  intro R hR k
  exact batcher_sameOuts bs dl src k _ _ _ _ (h _ (batcher_reach bs dl src R hR))

/-! ### filter -/

theorem filLoop_reach (src : Node) (p : Item → Bool) (k : Nat) :
    ∀ st : FilSt src, src.Reach st.inner → src.Reach (filLoop src p k st).2.inner := by
  induction k with
  | zero => intro st h; exact h
  | succ k ih =>
    intro st h
    have hn := Node.Reach.next h
    rcases hx : src.rnext st.inner with ⟨o, r'⟩
    rw [hx] at hn
    cases o with
    | item v =>
      by_cases hp : p v = true
      · simp only [filLoop, hx, hp, if_true]; exact hn
      · simp only [filLoop, hx, hp]; exact ih _ hn
    | stop => simp only [filLoop, hx]; exact hn
    | error e => simp only [filLoop, hx]; exact hn

theorem filter_reach (fuel : Nat) (p : Item → Bool) (src : Node) (R : Run (filter fuel p src))
    (h : (filter fuel p src).Reach R) : src.Reach (R.st : FilSt src).inner := by
  induction h with
  | initNone => exact Node.Reach.initNone
  | initSome _ ih => exact Node.Reach.initSome ih
  | @next r _ ih => exact filLoop_reach src p fuel (r.st : FilSt src) ih
  | get _ ih => exact Node.Reach.get ih
  | resetNone _ ih => exact Node.Reach.resetNone ih
  | resetSome _ _ ih1 ih2 => exact Node.Reach.resetSome ih1 ih2

/-! ### unbatcher -/

/-- A token the source handed out at a reachable state. -/
def Legit (src : Node) (c : src.S) : Prop := ∃ u, src.Reach u ∧ c = (src.rget u).1

def UnbInv (src : Node) (st : UnbSt src) : Prop :=
  src.Reach st.inner ∧ ∀ c, st.cached = some c → Legit src c

theorem unbLoop_inv (src : Node) (k : Nat) :
    ∀ st : UnbSt src, UnbInv src st → UnbInv src (unbLoop src k st).2 := by
  induction k with
  | zero => intro st h; exact h
  | succ k ih =>
    intro st h
    cases hb : st.batch with
    | list xs =>
      cases hi : xs[st.idx]? with
      | some v =>
        have e : unbLoop src (k + 1) st = (.item v, { st with idx := st.idx + 1 }) := by
          simp only [unbLoop, hb, hi]
        rw [e]; exact h
      | none =>
        have hn := Node.Reach.next (Node.Reach.get h.1)
        rcases hx : src.rnext (src.rget st.inner).2 with ⟨o, r2⟩
        rw [hx] at hn
        have hl : Legit src (src.rget st.inner).1 := ⟨st.inner, h.1, rfl⟩
        cases o with
        | item v =>
          have e : unbLoop src (k + 1) st = unbLoop src k
              { st with inner := r2, batch := v, idx := 0, cached := some (src.rget st.inner).1 } := by
            simp only [unbLoop, hb, hi, hx]
          rw [e]
          exact ih _ ⟨hn, fun c hc => by cases hc; exact hl⟩
        | stop =>
          have e : unbLoop src (k + 1) st =
              (.stop, { st with inner := r2, cached := some (src.rget st.inner).1 }) := by
            simp only [unbLoop, hb, hi, hx]
          rw [e]
          exact ⟨hn, fun c hc => by cases hc; exact hl⟩
        | error e' =>
          have e : unbLoop src (k + 1) st =
              (.error e', { st with inner := r2, cached := some (src.rget st.inner).1 }) := by
            simp only [unbLoop, hb, hi, hx]
          rw [e]
          exact ⟨hn, fun c hc => by cases hc; exact hl⟩
    | atom n =>
      have e : unbLoop src (k + 1) st = (.error errType, st) := by simp only [unbLoop, hb]
      rw [e]; exact h
    | none =>
      have e : unbLoop src (k + 1) st = (.error errType, st) := by simp only [unbLoop, hb]
      rw [e]; exact h

theorem unbNext_inv (src : Node) (fuel : Nat) (st : UnbSt src) (h : UnbInv src st) :
    UnbInv src (unbNext src fuel st).2 := by
  unfold unbNext
  split
  · exact h
  · exact unbLoop_inv src fuel st h

theorem unbGet_inv (src : Node) (st : UnbSt src) (h : UnbInv src st) :
    UnbInv src (unbGet src st).2 ∧ Legit src (unbGet src st).1.1 := by
  cases hc : st.cached with
  | some c =>
    have e : unbGet src st = ((c, st.idx), st) := by simp only [unbGet, hc]
    rw [e]; exact ⟨h, h.2 c hc⟩
  | none =>
    have e : unbGet src st = (((src.rget st.inner).1, st.idx),
        { st with inner := (src.rget st.inner).2, cached := some (src.rget st.inner).1 }) := by
      simp only [unbGet, hc]
    rw [e]
    have hl : Legit src (src.rget st.inner).1 := ⟨st.inner, h.1, rfl⟩
    exact ⟨⟨Node.Reach.get h.1, fun c hc => by cases hc; exact hl⟩, hl⟩

/-- `reset` of the unbatcher from a state whose source run is reachable or fresh. -/
theorem unbReset_inv (src : Node) (st : UnbSt src) (h : src.Reach st.inner ∨ st.inner = src.rfresh)
    (x : Option (src.S × Nat)) (hx : ∀ c i, x = some (c, i) → Legit src c) :
    UnbInv src (unbReset src st x) := by
  cases x with
  | none =>
    refine ⟨?_, fun c hc => by simp [unbReset] at hc⟩
    show src.Reach (src.rreset st.inner none)
    rcases h with h | h
    · exact Node.Reach.resetNone h
    · rw [h]; exact Node.Reach.initNone
  | some ci =>
    obtain ⟨c, i⟩ := ci
    obtain ⟨u, hu, rfl⟩ := hx c i rfl
    have hr : src.Reach (src.rreset st.inner (some (src.rget u).1)) := by
      rcases h with h | h
      · exact Node.Reach.resetSome h hu
      · rw [h]; exact Node.Reach.initSome hu
    have hn := Node.Reach.next hr
    rcases hx : src.rnext (src.rreset st.inner (some (src.rget u).1)) with ⟨o, r2⟩
    rw [hx] at hn
    have hl : Legit src (src.rget u).1 := ⟨u, hu, rfl⟩
    cases o <;> simp only [unbReset, hx] <;> exact ⟨hn, fun c hc => by cases hc; exact hl⟩

theorem unbatcher_reach (fuel : Nat) (src : Node) (R : Run (unbatcher fuel src))
    (h : (unbatcher fuel src).Reach R) : UnbInv src (R.st : UnbSt src) := by
  induction h with
  | initNone => exact unbReset_inv src _ (Or.inr rfl) none (fun _ _ h => by cases h)
  | @initSome r' _ ih =>
    refine unbReset_inv src _ (Or.inr rfl) _ ?_
    intro c i hci
    have := (unbGet_inv src (r'.st : UnbSt src) ih).2
    have e : ((unbatcher fuel src).rget r').1 = (unbGet src (r'.st : UnbSt src)).1 := rfl
    rw [e] at hci
    have h2 := Option.some.inj hci
    have hc : c = (unbGet src (r'.st : UnbSt src)).1.1 := by rw [h2]
    rw [hc]
    exact this
  | @next r _ ih => exact unbNext_inv src fuel (r.st : UnbSt src) ih
  | @get r _ ih => exact (unbGet_inv src (r.st : UnbSt src) ih).1
  | @resetNone r _ ih => exact unbReset_inv src _ (Or.inl ih.1) none (fun _ _ h => by cases h)
  | @resetSome r r' _ _ ih1 ih2 =>
    refine unbReset_inv src _ (Or.inl ih1.1) _ ?_
    intro c i hci
    have := (unbGet_inv src (r'.st : UnbSt src) ih2).2
    have e : ((unbatcher fuel src).rget r').1 = (unbGet src (r'.st : UnbSt src)).1 := rfl
    rw [e] at hci
    have h2 := Option.some.inj hci
    have hc : c = (unbGet src (r'.st : UnbSt src)).1.1 := by rw [h2]
    rw [hc]
    exact this

/-! ### buffered -/

def BufInv (src : Node) (st : BufSt src) : Prop :=
  src.Reach st.inner ∧ ∀ c, st.snap = some c → Legit src c

theorem bufNext_inv (src : Node) (sf : Nat) (st : BufSt src) (h : BufInv src st) :
    BufInv src (bufNext src sf st).2 := by
  by_cases hb : st.bad = true
  · have e : bufNext src sf st = (.error errBad, st) := by simp [bufNext, hb]
    rw [e]; exact h
  · have hb' : st.bad = false := by simpa using hb
    by_cases hd : st.done = true
    · have e : bufNext src sf st = (.stop, st) := by simp [bufNext, hb', hd]
      rw [e]; exact h
    · have hd' : st.done = false := by simpa using hd
      have hn := Node.Reach.next h.1
      rcases hx : src.rnext st.inner with ⟨o, r'⟩
      rw [hx] at hn
      cases o with
      | item v =>
        by_cases hc : sf > 0 ∧ (st.yielded + 1) % sf = 0
        · have e : bufNext src sf st = (.item v, { st with inner := (src.rget r').2, snap := some (src.rget r').1, steps := 0, yielded := st.yielded + 1 }) := by
            simp only [bufNext, hb', hd', Bool.false_eq_true, if_false, hx, hc, and_self, if_true]
          rw [e]
          exact ⟨Node.Reach.get hn, fun c hc => by cases hc; exact ⟨r', hn, rfl⟩⟩
        · have e : bufNext src sf st = (.item v, { st with inner := r', steps := st.steps + 1, yielded := st.yielded + 1 }) := by
            simp only [bufNext, hb', hd', Bool.false_eq_true, if_false, hx, hc]
          rw [e]
          exact ⟨hn, h.2⟩
      | stop =>
        have e : bufNext src sf st = (.stop, { st with inner := r', done := true }) := by
          simp only [bufNext, hb', hd', Bool.false_eq_true, if_false, hx]
        rw [e]; exact ⟨hn, h.2⟩
      | error e' =>
        have e : bufNext src sf st = (.error e', { st with inner := r', done := true }) := by
          simp only [bufNext, hb', hd', Bool.false_eq_true, if_false, hx]
        rw [e]; exact ⟨hn, h.2⟩

theorem bufFF_inv (src : Node) (sf : Nat) (k : Nat) :
    ∀ st : BufSt src, BufInv src st → BufInv src (bufFF src sf k st) := by
  induction k with
  | zero => intro st h; exact h
  | succ k ih =>
    intro st h
    have hn := bufNext_inv src sf st h
    rcases hx : bufNext src sf st with ⟨o, st'⟩
    rw [hx] at hn
    cases o with
    | item v => simp only [bufFF, hx]; exact ih st' hn
    | stop => simp only [bufFF, hx]; exact hn
    | error e => simp only [bufFF, hx]; exact hn

theorem bufStart_inv (src : Node) (r : Run src) (h : src.Reach r) : BufInv src (bufStart src r) :=
  ⟨Node.Reach.get h, fun c hc => by cases hc; exact ⟨r, h, rfl⟩⟩

theorem bufGet_inv (src : Node) (st : BufSt src) (h : BufInv src st) :
    BufInv src (bufGet src st).2 ∧ Legit src (bufGet src st).1.1 := by
  cases hc : st.snap with
  | some c =>
    have e : bufGet src st = ((c, st.steps), st) := by simp only [bufGet, hc]
    rw [e]; exact ⟨h, h.2 c hc⟩
  | none =>
    have e : bufGet src st = (((src.rget st.inner).1, st.steps), { st with inner := (src.rget st.inner).2 }) := by
      simp only [bufGet, hc]
    rw [e]
    exact ⟨⟨Node.Reach.get h.1, fun c hc' => by rw [hc] at hc'; cases hc'⟩, ⟨st.inner, h.1, rfl⟩⟩

theorem bufReset_inv (src : Node) (sf : Nat) (st : BufSt src) (h : src.Reach st.inner ∨ st.inner = src.rfresh)
    (x : Option (src.S × Nat)) (hx : ∀ c i, x = some (c, i) → Legit src c) :
    BufInv src (bufReset src sf st x) := by
  cases x with
  | none =>
    apply bufStart_inv
    rcases h with h | h
    · exact Node.Reach.resetNone h
    · rw [h]; exact Node.Reach.initNone
  | some ci =>
    obtain ⟨c, i⟩ := ci
    obtain ⟨u, hu, rfl⟩ := hx c i rfl
    apply bufFF_inv
    apply bufStart_inv
    rcases h with h | h
    · exact Node.Reach.resetSome h hu
    · rw [h]; exact Node.Reach.initSome hu

theorem buffered_reach (sf : Nat) (src : Node) (R : Run (buffered sf src))
    (h : (buffered sf src).Reach R) : BufInv src (R.st : BufSt src) := by
  induction h with
  | initNone => exact bufReset_inv src sf _ (Or.inr rfl) none (fun _ _ h => by cases h)
  | @initSome r' _ ih =>
    refine bufReset_inv src sf _ (Or.inr rfl) _ ?_
    intro c i hci
    have := (bufGet_inv src (r'.st : BufSt src) ih).2
    have e : ((buffered sf src).rget r').1 = (bufGet src (r'.st : BufSt src)).1 := rfl
    rw [e] at hci
    have h2 := Option.some.inj hci
    have hc : c = (bufGet src (r'.st : BufSt src)).1.1 := by rw [h2]
    rw [hc]
    exact this
  | @next r _ ih => exact bufNext_inv src sf (r.st : BufSt src) ih
  | @get r _ ih => exact (bufGet_inv src (r.st : BufSt src) ih).1
  | @resetNone r _ ih => exact bufReset_inv src sf _ (Or.inl ih.1) none (fun _ _ h => by cases h)
  | @resetSome r r' _ _ ih1 ih2 =>
    refine bufReset_inv src sf _ (Or.inl ih1.1) _ ?_
    intro c i hci
    have := (bufGet_inv src (r'.st : BufSt src) ih2).2
    have e : ((buffered sf src).rget r').1 = (bufGet src (r'.st : BufSt src)).1 := rfl
    rw [e] at hci
    have h2 := Option.some.inj hci
    have hc : c = (bufGet src (r'.st : BufSt src)).1.1 := by rw [h2]
    rw [hc]
    exact this

end TDV.Node
