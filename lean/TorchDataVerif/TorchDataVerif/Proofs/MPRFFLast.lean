import TorchDataVerif.Proofs.MPRFFSim
/-!
# MPRFF — `_last_yielded_worker_id` right after a snapshot is the one stored in it

The constructor's check reads the field `_last_yielded_worker_id`, not the snapshot.  Invariant (every
configuration, `in_order = True`): `snapshot_step ≤ _num_yielded`, and whenever `_num_yielded = snapshot_step`
the field equals the `last_yielded_worker_id` of the stored snapshot — unless the `_take_snapshot` assertion
has fired.
-/
namespace TDV.MPRFF

open TDV.MP

def LInv (s : State) : Prop :=
  s.snap.step ≤ s.numYielded ∧ (s.numYielded = s.snap.step → s.lastW = s.snap.lastW)

theorem LInv.of_same {s t : State} (h : LInv s) (e1 : t.numYielded = s.numYielded) (e2 : t.snap = s.snap)
    (e3 : t.lastW = s.lastW) : LInv t := by
  unfold LInv
  rw [e1, e2, e3]
  exact h

theorem yTail_linv (c : Cfg) (hio : c.inOrder = true) (s : State) (b : Nat) (h : s.snap.step ≤ s.numYielded) :
    (yTail c s b).2 = .assertion ∨ LInv (yTail c s b).1 := by
  unfold yTail
  by_cases h0 : c.interval = 0
  · rw [if_pos h0]
    exact Or.inr ⟨by show s.snap.step ≤ s.numYielded + 1; omega,
      fun e => by have e' : s.numYielded + 1 = s.snap.step := e; omega⟩
  · rw [if_neg h0]
    have hd := snapshotDue_eq c s
    generalize snapshotDue c s = d at hd
    simp only
    cases d.2 with
    | false =>
      simp only [Bool.false_eq_true, if_false]
      rw [hd]
      exact Or.inr ⟨by show s.snap.step ≤ s.numYielded + 1; omega,
        fun e => by have e' : s.numYielded + 1 = s.snap.step := e; omega⟩
    | true =>
      simp only [if_true]
      rcases takeSnapshot_cases c d.1 hio with ht | ⟨e, rest, ht⟩
      · rw [ht]; exact Or.inl rfl
      · rw [ht]
        exact Or.inr ⟨Nat.le_refl _, fun _ => rfl⟩

theorem processData_linv (c : Cfg) (hio : c.inOrder = true) (s : State) (r : Res) (h : LInv s) :
    (processData c s r).2 = .assertion ∨ LInv (processData c s r).1 := by
  have hc := tryPut_sameCore c { s with numTasks := s.numTasks.modify r.w (· - 1) }
  have h2 : LInv (tryPut c { s with numTasks := s.numTasks.modify r.w (· - 1) }) :=
    h.of_same hc.numYielded hc.snap hc.lastW
  unfold processData
  simp only
  generalize tryPut c { s with numTasks := s.numTasks.modify r.w (· - 1) } = s2 at h2
  cases r.kind with
  | data b =>
    simp only
    rw [yieldItem_yTail]
    exact yTail_linv c hio _ b h2.1
  | notice => exact Or.inr h2
  | error => exact Or.inr h2
  | ack => exact Or.inr h2

theorem skip_lastW (s : State) (n : Nat) : (skip s n).lastW = s.lastW := by
  induction n generalizing s with
  | zero => rfl
  | succ n ih =>
    unfold skip
    split
    · split
      · split
        · rfl
        · exact ih _
      · exact ih _
    · rfl

theorem loop_linv (c : Cfg) (hio : c.inOrder = true) (n : Nat) (s : State) (h : LInv s) :
    (loop c n s).2 = some .assertion ∨ LInv (loop c n s).1 := by
  induction n generalizing s with
  | zero => exact Or.inr h
  | succ n ih =>
    unfold loop
    obtain ⟨e1, e2, _⟩ := skip_sameSkipFields s (s.sendIdx - s.rcvdIdx)
    have h2 : LInv (skip s (s.sendIdx - s.rcvdIdx)) := h.of_same e1 e2 (skip_lastW s _)
    generalize skip s (s.sendIdx - s.rcvdIdx) = s2 at h2
    dsimp only
    split
    · split
      · exact Or.inr h2
      · have hm := shutdownWorkers_sameMain c s2
        exact Or.inr (h2.of_same hm.numYielded hm.snap hm.lastW)
    · split
      · exact Or.inr h2
      · split
        · split
          · exact ih _ (h2.of_same rfl rfl rfl)
          · exact (processData_linv c hio { s2 with info := eraseInfo s2.info s2.rcvdIdx, rcvdIdx := s2.rcvdIdx + 1 }
              _ (h2.of_same rfl rfl rfl)).elim (fun a => Or.inl (congrArg some a)) (fun a => Or.inr a)
        · exact Or.inr (h2.of_same rfl rfl rfl)

/-- The invariant, with its escape: the `_take_snapshot` assertion has fired. -/
def Inv (s : State) : Prop := Obs.assertion ∈ s.obs ∨ LInv s

theorem finish_inv (p : State × Option Obs) (h : p.2 = some .assertion ∨ LInv p.1) : Inv (finish p) := by
  unfold finish
  rcases h with h | h
  · rw [h]; exact Or.inl (by simp)
  · split
    · exact Or.inr (h.of_same rfl rfl rfl)
    · exact Or.inr (h.of_same rfl rfl rfl)

theorem onArrival_lastW (c : Cfg) (s : State) (r : Res) : (onArrival c s r).lastW = s.lastW := by
  unfold onArrival
  split
  · rw [(tryPut_sameCore c _).lastW]
    split <;> rfl
  · rfl

theorem recvData_inv (c : Cfg) (hio : c.inOrder = true) (s : State) (r : Res) (h : LInv s) :
    Inv (recvData c s r) := by
  obtain ⟨e1, e2, _⟩ := onArrival_gsFields c { s with outstanding := s.outstanding - 1 } r
  have h1 : LInv (onArrival c { s with outstanding := s.outstanding - 1 } r) :=
    h.of_same e1 e2 (onArrival_lastW c _ r)
  unfold recvData
  generalize onArrival c { s with outstanding := s.outstanding - 1 } r = t at h1
  simp only [hio, Bool.not_true, Bool.false_eq_true, if_false]
  split
  · exact finish_inv _ (loop_linv c hio _ _ (h1.of_same rfl rfl rfl))
  · split
    · exact finish_inv _ (loop_linv c hio _ _ (h1.of_same rfl rfl rfl))
    · rcases processData_linv c hio _ r (h1.of_same (s := t)
        (t := { t with info := eraseInfo t.info r.idx, rcvdIdx := t.rcvdIdx + 1 }) rfl rfl rfl) with a | a
      · exact finish_inv (_, some _) (Or.inl (congrArg some a))
      · exact finish_inv (_, some _) (Or.inr a)

theorem markAll_same (c : Cfg) (l : List Nat) (s : State) :
    (markAll c s l).numYielded = s.numYielded ∧ (markAll c s l).snap = s.snap ∧ (markAll c s l).lastW = s.lastW := by
  induction l generalizing s with
  | nil => exact ⟨rfl, rfl, rfl⟩
  | cons w l ih => exact ih (markUnavailable c s w false)

theorem resetTail_linv (c : Cfg) (s : State) : LInv (resetTail c s) := by
  unfold resetTail
  generalize hs0 : ({ s with mainSnaps := [], lastW := c.W - 1, snap := ⟨0, c.W - 1, s.samplerPos, s.wsnaps⟩ } : State) = s0
  have hc := prime_sameCore c (c.P * c.W) s0
  have h0 : LInv s0 := by subst hs0; exact ⟨Nat.zero_le _, fun _ => rfl⟩
  exact h0.of_same hc.numYielded hc.snap hc.lastW

theorem step_inv (c : Cfg) (hio : c.inOrder = true) (s s' : State) (a : Action) (ha : a ≠ .reset) (h : Inv s)
    (hst : step c s a = some s') : Inv s' := by
  rcases h with h | h
  · obtain ⟨t, ht⟩ := step_obs c s s' a hst
    exact Or.inl (by rw [ht]; exact List.mem_append_left _ h)
  cases a with
  | reset => exact absurd rfl ha
  | work w =>
    simp only [step] at hst
    split at hst
    · cases hst
    · split at hst
      · cases hst
      · split at hst
        · cases hst
        · cases hst; exact Or.inr (h.of_same rfl rfl rfl)
  | kill w =>
    simp only [step] at hst
    split at hst
    · cases hst
    · split at hst
      · cases hst
      · cases hst; exact Or.inr (h.of_same rfl rfl rfl)
  | stateDict =>
    simp only [step] at hst
    split at hst
    · cases hst
    · cases hst; exact Or.inr (h.of_same rfl rfl rfl)
  | pollTimeout =>
    simp only [step] at hst
    split at hst
    · cases hst
    · split at hst
      · cases hst; exact Or.inr h
      · cases hst
        rename_i f fs _
        obtain ⟨a1, a2, a3⟩ := markAll_same c (f :: fs) s
        exact Or.inr (h.of_same a1 a2 a3)
  | next =>
    simp only [step] at hst
    split at hst
    · cases hst
    · cases hst; exact finish_inv _ (loop_linv c hio _ s h)
  | recv =>
    simp only [step] at hst
    split at hst
    · cases hst
    · split at hst
      · cases hst
      · split at hst
        · cases hst
        · cases hst; exact recvData_inv c hio _ _ (h.of_same rfl rfl rfl)
      · split at hst
        · split at hst
          · cases hst
            exact Or.inr ((resetTail_linv c _).of_same rfl rfl rfl)
          · cases hst; exact Or.inr (h.of_same rfl rfl rfl)
        · cases hst; exact Or.inr (h.of_same rfl rfl rfl)

theorem run_inv (c : Cfg) (hio : c.inOrder = true) (as : List Action) (s s' : State) (hnr : NoReset as)
    (h : Inv s) (hr : run c s as = some s') : Inv s' := by
  induction as generalizing s with
  | nil => simp only [run] at hr; cases hr; exact h
  | cons a as ih =>
    simp only [run] at hr
    cases hs : step c s a with
    | none => rw [hs] at hr; cases hr
    | some u =>
      rw [hs] at hr
      exact ih u hnr.2 (step_inv c hio s u a hnr.1 h hs) hr

end TDV.MPRFF
