import TorchDataVerif.Proofs.MPBase
/-!
# MP, map-style datasets (`iterable = false`), `in_order = true`: the safety invariant

All workers stay available (until a worker death is detected or the iterator shuts down at the end of
the epoch), dispatch is a strict round robin, task `i` carries the `i`-th index batch of the sampler.
-/
namespace TDV.MP

/-- `_task_info` restricted to map-style: consecutive indices from `i`, owner `idx % W`, any stored
result answers that very task. -/
def GoodRes (c : Cfg) (r : Res) : Prop :=
  r.w = r.idx % c.W ∧ ∃ it, c.batches[r.idx]? = some it ∧ r.kind = kindOf it

def InfoFrom (c : Cfg) : Nat → List Info → Prop
  | _, [] => True
  | i, e :: l => e.idx = i ∧ e.w = i % c.W ∧ (∀ r, e.res = some r → GoodRes c r ∧ r.idx = i) ∧ InfoFrom c (i + 1) l

def GoodMsg (c : Cfg) (send w : Nat) : Msg → Prop
  | .task idx p _ => p = idx ∧ idx < send ∧ idx % c.W = w
  | .stop => True
  | .resume => False

theorem tryPut_map_lt (c : Cfg) (s : State) (hv : c.Valid) (hm : c.iterable = false) (hio : c.inOrder = true)
    (hst : s.status = List.replicate c.W true) (hsp : s.samplerPos = s.sendIdx)
    (hcyc : s.cyc = s.sendIdx % c.W) (hlt : s.sendIdx < c.batches.length) :
    tryPut c s = dispatchTo c s (s.sendIdx % c.W) ((s.sendIdx % c.W + 1) % c.W) := by
  have hW : 0 < c.W := hv.1
  have hupc : up s (s.sendIdx % c.W) = true := up_replicate s c.W _ hst (Nat.mod_lt _ hW)
  have hfw := findWorker_hit' c s c.W (s.sendIdx % c.W) hW hio hupc
  have hnle : ¬ c.batches.length ≤ s.samplerPos := by omega
  unfold tryPut
  simp only [hm, hnle, hcyc, hfw]
  simp

theorem tryPut_map_ge (c : Cfg) (s : State) (hm : c.iterable = false)
    (hsp : s.samplerPos = s.sendIdx) (hge : c.batches.length ≤ s.sendIdx) :
    tryPut c s = { s with bad := s.bad || decide (c.P * c.W ≤ s.outstanding) } := by
  have hle : c.batches.length ≤ s.samplerPos := by omega
  unfold tryPut
  simp [hm, hle]

/-! ## `_task_info` lemmas -/

theorem InfoFrom_filter_lt (c : Cfg) (i j : Nat) (l : List Info) (h : InfoFrom c j l) (hij : i < j) :
    l.filter (fun e => e.idx != i) = l := by
  induction l generalizing j with
  | nil => rfl
  | cons e l ih =>
    obtain ⟨h1, _, _, h4⟩ := h
    have : (e.idx != i) = true := by simp; omega
    simp [List.filter, this, ih (j + 1) h4 (by omega)]

theorem eraseInfo_head (c : Cfg) (i : Nat) (e : Info) (l : List Info) (h : InfoFrom c i (e :: l)) :
    eraseInfo (e :: l) i = l := by
  obtain ⟨h1, _, _, h4⟩ := h
  have h0 : (e.idx != i) = false := by simp [h1]
  simp only [eraseInfo, List.filter, h0]
  exact InfoFrom_filter_lt c i (i + 1) l h4 (by omega)

theorem lookupInfo_head (c : Cfg) (i : Nat) (e : Info) (l : List Info) (h : InfoFrom c i (e :: l)) :
    lookupInfo (e :: l) i = some e := by
  simp [lookupInfo, List.find?, h.1]

theorem InfoFrom_append (c : Cfg) (i : Nat) (l : List Info) (h : InfoFrom c i l) :
    InfoFrom c i (l ++ [⟨i + l.length, (i + l.length) % c.W, none⟩]) := by
  induction l generalizing i with
  | nil => simp [InfoFrom]
  | cons e l ih =>
    obtain ⟨h1, h2, h3, h4⟩ := h
    refine ⟨h1, h2, h3, ?_⟩
    have := ih (i + 1) h4
    simpa [Nat.add_assoc, Nat.add_comm 1] using this

theorem setRes_length (l : List Info) (i : Nat) (r : Res) : (setRes l i r).length = l.length := by
  simp [setRes]

theorem InfoFrom_setRes (c : Cfg) (i : Nat) (l : List Info) (r : Res) (h : InfoFrom c i l) (hr : GoodRes c r) :
    InfoFrom c i (setRes l r.idx r) := by
  induction l generalizing i with
  | nil => simp [setRes, InfoFrom]
  | cons e l ih =>
    obtain ⟨h1, h2, h3, h4⟩ := h
    have ih' := ih (i + 1) h4
    simp only [setRes, List.map] at ih' ⊢
    by_cases he : e.idx = r.idx
    · simp only [he, beq_self_eq_true, if_true]
      refine ⟨by simpa using (he ▸ h1), h2, ?_, ih'⟩
      intro r' hr'
      cases hr'
      exact ⟨hr, by omega⟩
    · have : (e.idx == r.idx) = false := by simp [he]
      simp only [this]
      exact ⟨h1, h2, h3, ih'⟩

/-! ## the invariant -/

def ObsOk : Item → Obs → Prop
  | .ok b, o => o = .item b ∨ o = .assertion
  | .err, o => o = .error

def ObsRel : List Item → List Obs → Prop
  | [], [] => True
  | it :: r, o :: r' => ObsOk it o ∧ ObsRel r r'
  | _, _ => False

theorem ObsRel_snoc (a : List Item) (b : List Obs) (it : Item) (o : Obs) (h : ObsRel a b) (ho : ObsOk it o) :
    ObsRel (a ++ [it]) (b ++ [o]) := by
  induction a generalizing b with
  | nil => cases b with
    | nil => exact ⟨ho, trivial⟩
    | cons _ _ => exact h.elim
  | cons x a ih => cases b with
    | nil => exact h.elim
    | cons y b => exact ⟨h.1, ih b h.2⟩

/-- The protocol part of the invariant while the iterator is active. -/
structure MidM (c : Cfg) (s : State) : Prop where
  status : s.status = List.replicate c.W true
  sp : s.samplerPos = s.sendIdx
  le : s.sendIdx ≤ c.batches.length
  cyc : s.cyc = s.sendIdx % c.W
  len : s.rcvdIdx + s.info.length = s.sendIdx
  info : InfoFrom c s.rcvdIdx s.info
  wlen : s.workers.length = c.W
  msgs : ∀ w k, s.workers[w]? = some k → ∀ m ∈ k.q, GoodMsg c s.sendIdx w m
  resq : ∀ r ∈ s.resQ, GoodRes c r ∧ r.idx < s.sendIdx

theorem GoodMsg_mono (c : Cfg) (a b w : Nat) (m : Msg) (hab : a ≤ b) (h : GoodMsg c a w m) : GoodMsg c b w m := by
  cases m with
  | task idx p sn => exact ⟨h.1, by have := h.2.1; omega, h.2.2⟩
  | stop => trivial
  | resume => exact h

theorem MidM_tryPut (c : Cfg) (s : State) (hv : c.Valid) (hm : c.iterable = false) (hio : c.inOrder = true)
    (h : MidM c s) :
    MidM c (tryPut c s) ∧ ((tryPut c s).sendIdx = c.batches.length ∨ s.sendIdx < (tryPut c s).sendIdx) := by
  by_cases hlt : s.sendIdx < c.batches.length
  · rw [tryPut_map_lt c s hv hm hio h.status h.sp h.cyc hlt]
    refine ⟨⟨?_, ?_, ?_, ?_, ?_, ?_, ?_, ?_, ?_⟩, ?_⟩
    · exact h.status
    · simp [dispatchTo, h.sp]
    · simp [dispatchTo]; omega
    · simp [dispatchTo, Nat.add_mod]
    · simp [dispatchTo]; have := h.len; omega
    · have := InfoFrom_append c s.rcvdIdx s.info h.info
      have hl := h.len
      simpa [dispatchTo, hl] using this
    · simp [dispatchTo, pushMsg, h.wlen]
    · intro w k hk m hmem
      simp only [dispatchTo] at hk hmem ⊢
      obtain ⟨k0, hk0, _, _, _, hq⟩ := pushMsg_get _ _ _ _ _ hk
      rw [hq] at hmem
      have hold := h.msgs w k0 hk0
      by_cases hw : s.sendIdx % c.W = w
      · simp only [hw, if_true, List.mem_append, List.mem_singleton] at hmem
        rcases hmem with hmem | hmem
        · exact GoodMsg_mono c _ _ w m (by omega) (hold m hmem)
        · subst hmem
          exact ⟨by simp [h.sp], by omega, hw⟩
      · simp only [hw, if_false] at hmem
        exact GoodMsg_mono c _ _ w m (by omega) (hold m hmem)
    · intro r hr
      have := h.resq r (by simpa [dispatchTo] using hr)
      exact ⟨this.1, by simp [dispatchTo]; omega⟩
    · right; simp [dispatchTo]
  · rw [tryPut_map_ge c s hm h.sp (by omega)]
    exact ⟨⟨h.status, h.sp, h.le, h.cyc, h.len, h.info, h.wlen, h.msgs, h.resq⟩, Or.inl (by have := h.le; simp; omega)⟩

theorem MidM_of_eq (c : Cfg) (s s' : State) (h : MidM c s)
    (h1 : s'.status = s.status) (h2 : s'.samplerPos = s.samplerPos) (h3 : s'.sendIdx = s.sendIdx)
    (h4 : s'.cyc = s.cyc) (h5 : s'.rcvdIdx = s.rcvdIdx) (h6 : s'.info = s.info)
    (h7 : s'.workers = s.workers) (h8 : s'.resQ = s.resQ) : MidM c s' := by
  constructor
  · rw [h1]; exact h.status
  · rw [h2, h3]; exact h.sp
  · rw [h3]; exact h.le
  · rw [h4, h3]; exact h.cyc
  · rw [h5, h6, h3]; exact h.len
  · rw [h5, h6]; exact h.info
  · rw [h7]; exact h.wlen
  · rw [h7, h3]; exact h.msgs
  · rw [h8, h3]; exact h.resq

theorem ObsOk_kind (it : Item) (r : Res) (hk : r.kind = kindOf it) (c : Cfg) (s : State) :
    ObsOk it (processData c s r).2 := by
  unfold processData
  cases it with
  | ok b =>
    simp only [kindOf] at hk
    simp only [hk]
    exact yieldItem_obs c _ r b
  | err =>
    simp only [kindOf] at hk
    simp [hk, ObsOk]

/-- `_process_data` on an active map-style state. -/
theorem MidM_processData (c : Cfg) (s : State) (r : Res) (hv : c.Valid) (hm : c.iterable = false)
    (hio : c.inOrder = true) (h : MidM c s) :
    MidM c (processData c s r).1 ∧
    ((processData c s r).1.sendIdx = c.batches.length ∨ s.sendIdx < (processData c s r).1.sendIdx) ∧
    (processData c s r).1.rcvdIdx = s.rcvdIdx ∧ (processData c s r).1.phase = s.phase ∧
    (processData c s r).1.obs = s.obs ∧ (processData c s r).1.shutdown = s.shutdown := by
  have h0 : MidM c { s with numTasks := s.numTasks.modify r.w (· - 1) } :=
    MidM_of_eq c s _ h rfl rfl rfl rfl rfl rfl rfl rfl
  obtain ⟨h1, h2⟩ := MidM_tryPut c _ hv hm hio h0
  have hc := tryPut_sameCore c { s with numTasks := s.numTasks.modify r.w (· - 1) }
  unfold processData
  cases hk : r.kind with
  | data b =>
    simp only []
    have hp := yieldItem_sameProto c (tryPut c { s with numTasks := s.numTasks.modify r.w (· - 1) }) r b
    refine ⟨MidM_of_eq c _ _ h1 hp.status hp.samplerPos hp.sendIdx hp.cyc hp.rcvdIdx hp.info hp.workers hp.resQ, ?_, ?_, ?_, ?_, ?_⟩
    · rw [hp.sendIdx]; exact h2
    · rw [hp.rcvdIdx, hc.rcvdIdx]
    · rw [hp.phase, hc.phase]
    · rw [hp.obs, hc.obs]
    · rw [hp.shutdown, hc.shutdown]
  | notice => exact ⟨h1, h2, hc.rcvdIdx, hc.phase, hc.obs, hc.shutdown⟩
  | error => exact ⟨h1, h2, hc.rcvdIdx, hc.phase, hc.obs, hc.shutdown⟩
  | ack => exact ⟨h1, h2, hc.rcvdIdx, hc.phase, hc.obs, hc.shutdown⟩

theorem skip_map (c : Cfg) (s : State) (n : Nat) (hv : c.Valid) (h : MidM c s) : skip s n = s := by
  cases n with
  | zero => rfl
  | succ n =>
    unfold skip
    by_cases hlt : s.rcvdIdx < s.sendIdx
    · have hlen := h.len
      cases hi : s.info with
      | nil => simp [hi] at hlen; omega
      | cons e l =>
        have hinfo := h.info
        rw [hi] at hinfo
        have hup : up s e.w = true := by
          rw [hinfo.2.1]
          exact up_replicate s c.W _ h.status (Nat.mod_lt _ hv.1)
        simp [hlt, lookupInfo_head c _ e l hinfo, hup]
    · simp [hlt]

/-- The map-style, in-order safety invariant. -/
structure InvM (c : Cfg) (s : State) : Prop where
  obs : ObsRel (c.batches.take s.rcvdIdx) (taskObs s.obs)
  ph : ∀ k, s.phase ≠ .resuming k
  down : s.shutdown = true → s.rcvdIdx = s.sendIdx ∧ s.phase = .idle ∧ s.rcvdIdx = c.batches.length
  mid : s.shutdown = false → MidM c s
  full : s.shutdown = false → (s.sendIdx = c.batches.length ∨ s.rcvdIdx < s.sendIdx)
  fin : Obs.stop ∈ s.obs → s.rcvdIdx = c.batches.length

theorem kindOf_ne_notice (it : Item) : kindOf it ≠ .notice := by cases it <;> simp [kindOf]

/-- Taking the head entry of `_task_info` (task `rcvd_idx`) with its result `r` and processing it. -/
theorem pop_process (c : Cfg) (s : State) (e : Info) (l : List Info) (r : Res) (hv : c.Valid)
    (hm : c.iterable = false) (hio : c.inOrder = true) (h : InvM c s) (hs : s.shutdown = false)
    (hi : s.info = e :: l) (hr : GoodRes c r) (hri : r.idx = s.rcvdIdx) (hph : ∀ k, s.phase ≠ .resuming k) :
    InvM c (finish ((processData c { s with info := l, rcvdIdx := s.rcvdIdx + 1 } r).1,
                    some (processData c { s with info := l, rcvdIdx := s.rcvdIdx + 1 } r).2)) := by
  have hmid := h.mid hs
  have hinfo := hmid.info
  rw [hi] at hinfo
  have hlen := hmid.len
  rw [hi] at hlen
  have h1 : MidM c { s with info := l, rcvdIdx := s.rcvdIdx + 1 } := by
    refine ⟨hmid.status, hmid.sp, hmid.le, hmid.cyc, ?_, hinfo.2.2.2, hmid.wlen, hmid.msgs, hmid.resq⟩
    simp at hlen ⊢; omega
  obtain ⟨hM, hF, hR, hP, hO, hS⟩ := MidM_processData c _ r hv hm hio h1
  obtain ⟨it, hit, hk⟩ := hr.2
  have hobs := ObsOk_kind it r hk c { s with info := l, rcvdIdx := s.rcvdIdx + 1 }
  have hlt : s.rcvdIdx < c.batches.length := by
    have := hmid.le; simp at hlen; omega
  have htake : c.batches.take (s.rcvdIdx + 1) = c.batches.take s.rcvdIdx ++ [it] := by
    rw [List.take_add_one, ← hri, hit]; rfl
  generalize processData c { s with info := l, rcvdIdx := s.rcvdIdx + 1 } r = p at hM hF hR hP hO hS hobs
  obtain ⟨s', o⟩ := p
  simp only at hM hF hR hP hO hS hobs
  have hto : taskObs [o] = [o] ∧ o ≠ .stop := by
    cases it with
    | ok b => rcases hobs with rfl | rfl <;> simp [taskObs]
    | err => cases hobs; simp [taskObs]
  simp only [finish]
  constructor
  · simp only [hR, hO, taskObs_append, htake, hto.1]
    exact ObsRel_snoc _ _ _ _ h.obs hobs
  · intro k; simp
  · intro hsd; simp only [hS] at hsd; simp [hs] at hsd
  · intro _
    exact MidM_of_eq c _ _ hM rfl rfl rfl rfl rfl rfl rfl rfl
  · intro _
    rcases hF with hF | hF
    · exact Or.inl hF
    · right; simp only [hR]; simp at hF hlen ⊢; omega
  · intro hstop
    simp only [hO, List.mem_append, List.mem_singleton] at hstop
    rcases hstop with hstop | hstop
    · have := h.fin hstop; omega
    · exact absurd hstop.symm hto.2

theorem InvM_stop (c : Cfg) (s : State) (h : InvM c s) (hs : s.shutdown = false) (hle : s.sendIdx ≤ s.rcvdIdx) :
    InvM c (finish ((if c.persistent then s else shutdownWorkers c s), some .stop)) := by
  have hmid := h.mid hs
  have hlen := hmid.len
  have hN : s.sendIdx = c.batches.length := by
    rcases h.full hs with hf | hf
    · exact hf
    · omega
  simp only [finish]
  by_cases hp : c.persistent = true
  · simp only [hp, if_true]
    constructor
    · simpa [taskObs_append, taskObs] using h.obs
    · intro k; simp
    · intro hsd; simp [hs] at hsd
    · intro _; exact MidM_of_eq c _ _ hmid rfl rfl rfl rfl rfl rfl rfl rfl
    · intro _; exact Or.inl hN
    · intro _; show s.rcvdIdx = _; omega
  · have hp' : c.persistent = false := by simpa using hp
    simp only [hp', Bool.false_eq_true, if_false]
    have hsm := shutdownWorkers_sameMain c s
    have hsd := shutdownWorkers_shutdown c s
    constructor
    · simp only [hsm.rcvdIdx, hsm.obs, taskObs_append, taskObs, List.append_nil]; exact h.obs
    · intro k; simp
    · intro _; simp only [hsm.rcvdIdx, hsm.sendIdx]; exact ⟨by omega, trivial, by omega⟩
    · intro hf; simp only [hsd] at hf; cases hf
    · intro hf; simp only [hsd] at hf; cases hf
    · intro _; simp only [hsm.rcvdIdx]; omega

theorem loop_active (c : Cfg) (s : State) (n : Nat) (hv : c.Valid) (hm : c.iterable = false)
    (hio : c.inOrder = true) (h : InvM c s) (hs : s.shutdown = false) :
    InvM c (finish (loop c (n + 1) s)) := by
  have hmid := h.mid hs
  unfold loop
  simp only [skip_map c s _ hv hmid]
  by_cases hle : s.sendIdx ≤ s.rcvdIdx
  · simp only [hle, if_true]
    exact InvM_stop c s h hs hle
  · simp only [hle, if_false]
    have hlen := hmid.len
    obtain ⟨e, l, hi⟩ : ∃ e l, s.info = e :: l := by
      cases hi : s.info with
      | nil => simp [hi] at hlen; omega
      | cons e l => exact ⟨e, l, rfl⟩
    · have hinfo := hmid.info
      rw [hi] at hinfo
      rw [hi, lookupInfo_head c _ e l hinfo]
      simp only
      cases hres : e.res with
      | none =>
        simp only [finish]
        exact ⟨h.obs, by intro k; simp, by intro hf; simp [hs] at hf,
          fun _ => MidM_of_eq c _ _ hmid rfl rfl rfl rfl rfl hi.symm rfl rfl, h.full, h.fin⟩
      | some r =>
        obtain ⟨hg, hri⟩ := hinfo.2.2.1 r hres
        have hnn : r.kind ≠ .notice := by
          obtain ⟨it, _, hk⟩ := hg.2
          rw [hk]; exact kindOf_ne_notice it
        simp only [hnn, if_false, eraseInfo_head c _ e l hinfo]
        exact pop_process c s e l r hv hm hio h hs hi hg hri h.ph

/-! ## the actions -/

theorem handle_q (c : Cfg) (sh : Bool) (w : Nat) (k : Worker) (m : Msg) : (handle c sh w k m).1.q = k.q := by
  cases m with
  | stop => rfl
  | resume => rfl
  | task idx p sn =>
    simp only [handle]
    split
    · rfl
    · split <;> rfl

theorem handle_good (c : Cfg) (sh : Bool) (w send : Nat) (k : Worker) (m : Msg) (r : Res)
    (hm : c.iterable = false) (hle : send ≤ c.batches.length)
    (hg : GoodMsg c send w m) (h : (handle c sh w k m).2 = some r) : GoodRes c r ∧ r.idx < send := by
  cases m with
  | stop => simp [handle] at h
  | resume => exact hg.elim
  | task idx p sn =>
    obtain ⟨hp, hlt, hw⟩ := hg
    subst hp
    have hlt' : p < c.batches.length := by omega
    have hf : fetch c w k.pos p = some c.batches[p] := by
      simp [fetch, hm, List.getD_eq_getElem?_getD, List.getElem?_eq_getElem hlt']
    simp only [handle] at h
    split at h
    · cases h
    · rw [hf] at h
      cases hb : c.batches[p] with
      | ok b =>
        simp only [hb] at h
        cases h
        exact ⟨⟨hw.symm, .ok b, by simp [List.getElem?_eq_getElem hlt', hb], rfl⟩, hlt⟩
      | err =>
        simp only [hb] at h
        cases h
        exact ⟨⟨hw.symm, .err, by simp [List.getElem?_eq_getElem hlt', hb], rfl⟩, hlt⟩

theorem InvM_frame (c : Cfg) (s s' : State) (h : InvM c s)
    (e1 : s'.rcvdIdx = s.rcvdIdx) (e2 : s'.obs = s.obs) (e3 : s'.phase = s.phase) (e4 : s'.shutdown = s.shutdown)
    (e5 : s'.sendIdx = s.sendIdx) (hmid : s.shutdown = false → MidM c s → MidM c s') : InvM c s' := by
  constructor
  · rw [e1, e2]; exact h.obs
  · rw [e3]; exact h.ph
  · rw [e4, e1, e5, e3]; exact h.down
  · rw [e4]; exact fun hs => hmid hs (h.mid hs)
  · rw [e4, e1, e5]; exact h.full
  · rw [e1, e2]; exact h.fin

theorem work_invM (c : Cfg) (s s' : State) (w : Nat) (hm : c.iterable = false) (h : InvM c s)
    (hst : step c s (.work w) = some s') : InvM c s' := by
  simp only [step] at hst
  split at hst
  · cases hst
  · rename_i k hk
    split at hst
    · cases hst
    · split at hst
      · cases hst
      · rename_i m rest hq
        cases hst
        refine InvM_frame c s _ h rfl rfl rfl rfl rfl ?_
        intro hs hmid
        have hkq : ∀ m' ∈ m :: rest, GoodMsg c s.sendIdx w m' := by
          have := hmid.msgs w k hk; rwa [hq] at this
        refine ⟨hmid.status, hmid.sp, hmid.le, hmid.cyc, hmid.len, hmid.info, ?_, ?_, ?_⟩
        · simp [hmid.wlen]
        · intro w' k' hk' m' hm'
          simp only [List.getElem?_set] at hk'
          by_cases hw : w = w'
          · subst hw
            simp only [if_true] at hk'
            split at hk'
            · cases hk'
              rw [handle_q] at hm'
              exact hkq m' (List.mem_cons_of_mem _ hm')
            · cases hk'
          · simp only [hw, if_false] at hk'
            exact hmid.msgs w' k' hk' m' hm'
        · intro r hr
          split at hr
          · rename_i r0 hout
            simp only [List.mem_append, List.mem_singleton] at hr
            rcases hr with hr | hr
            · exact hmid.resq r hr
            · subst hr
              exact handle_good c s.shutdown w s.sendIdx _ m r hm hmid.le (hkq m (List.mem_cons_self ..)) hout
          · exact hmid.resq r hr

theorem recvData_invM (c : Cfg) (s : State) (r : Res) (hv : c.Valid) (hm : c.iterable = false)
    (hio : c.inOrder = true) (h : InvM c s) (hs : s.shutdown = false) (hg : GoodRes c r)
    (hlt : r.idx < s.sendIdx) : InvM c (recvData c s r) := by
  have h1 : InvM c { s with outstanding := s.outstanding - 1 } :=
    InvM_frame c s _ h rfl rfl rfl rfl rfl (fun _ hmid => MidM_of_eq c _ _ hmid rfl rfl rfl rfl rfl rfl rfl rfl)
  have hnn : r.kind ≠ .notice := by
    obtain ⟨it, _, hk⟩ := hg.2
    rw [hk]; exact kindOf_ne_notice it
  have hoa : onArrival c { s with outstanding := s.outstanding - 1 } r = { s with outstanding := s.outstanding - 1 } := by
    simp [onArrival, hm]
  unfold recvData
  simp only [hoa, hio, hnn, if_false, Bool.not_true, Bool.false_eq_true]
  by_cases hidx : r.idx = s.rcvdIdx
  · simp only [hidx, ne_eq, not_true_eq_false, if_false]
    have hmid := h.mid hs
    have hlen := hmid.len
    obtain ⟨e, l, hi⟩ : ∃ e l, s.info = e :: l := by
      cases hi : s.info with
      | nil => simp [hi] at hlen; omega
      | cons e l => exact ⟨e, l, rfl⟩
    have hinfo := hmid.info
    rw [hi] at hinfo
    have he : eraseInfo s.info s.rcvdIdx = l := by rw [hi]; exact eraseInfo_head c _ e l hinfo
    simp only [he]
    exact pop_process c { s with outstanding := s.outstanding - 1 } e l r hv hm hio h1 hs hi hg hidx h1.ph
  · simp only [ne_eq, hidx, not_false_eq_true, if_true]
    have h2 : InvM c { s with outstanding := s.outstanding - 1, info := setRes s.info r.idx r } := by
      refine InvM_frame c _ _ h1 rfl rfl rfl rfl rfl ?_
      intro _ hmid
      refine ⟨hmid.status, hmid.sp, hmid.le, hmid.cyc, ?_, ?_, hmid.wlen, hmid.msgs, hmid.resq⟩
      · have := hmid.len; simpa [setRes_length] using this
      · exact InfoFrom_setRes c _ _ r hmid.info hg
    exact loop_active c _ _ hv hm hio h2 hs

theorem step_invM (c : Cfg) (s s' : State) (a : Action) (hv : c.Valid) (hm : c.iterable = false)
    (hio : c.inOrder = true) (ha : a ≠ .reset) (h : InvM c s) (hst : step c s a = some s') :
    InvM c s' ∨ Obs.workerDied ∈ s'.obs := by
  cases a with
  | work w => exact Or.inl (work_invM c s s' w hm h hst)
  | reset => exact absurd rfl ha
  | recv =>
    left
    simp only [step] at hst
    split at hst
    · cases hst
    · rename_i r rest hq
      split at hst
      · cases hst
      · rename_i hph
        have hs : s.shutdown = false := by
          cases hsd : s.shutdown with
          | false => rfl
          | true => have := (h.down hsd).2.1; rw [hph] at this; cases this
        have hmid := h.mid hs
        have hr := hmid.resq r (by rw [hq]; exact List.mem_cons_self ..)
        split at hst
        · cases hst
        · cases hst
          have h0 : InvM c { s with resQ := rest } := by
            refine InvM_frame c s _ h rfl rfl rfl rfl rfl ?_
            intro _ hmid
            refine ⟨hmid.status, hmid.sp, hmid.le, hmid.cyc, hmid.len, hmid.info, hmid.wlen, hmid.msgs, ?_⟩
            intro r' hr'
            exact hmid.resq r' (by rw [hq]; exact List.mem_cons_of_mem _ hr')
          exact recvData_invM c _ r hv hm hio h0 hs hr.1 hr.2
      · rename_i k hph
        exact absurd hph (h.ph k)
  | next =>
    left
    simp only [step] at hst
    split at hst
    · cases hst
    · cases hst
      cases hsd : s.shutdown with
      | false => exact loop_active c s _ hv hm hio h hsd
      | true =>
        obtain ⟨hrs, hph, hN⟩ := h.down hsd
        have hsw : shutdownWorkers c s = s := by simp [shutdownWorkers, hsd]
        have hif : (if c.persistent = true then s else shutdownWorkers c s) = s := by split <;> simp [hsw]
        unfold loopFuel
        rw [loop_done c _ s (by omega), hif]
        simp only [finish]
        exact ⟨by simpa [taskObs_append, taskObs] using h.obs, by intro k; simp, fun _ => ⟨hrs, rfl, hN⟩,
          fun hf => by simp [hsd] at hf, fun hf => by simp [hsd] at hf, fun _ => hN⟩
  | stateDict =>
    left
    simp only [step] at hst
    split at hst
    · cases hst
    · cases hst
      refine ⟨by simpa [taskObs_append, taskObs] using h.obs, h.ph, h.down, ?_, h.full, ?_⟩
      · exact fun hs => MidM_of_eq c _ _ (h.mid hs) rfl rfl rfl rfl rfl rfl rfl rfl
      · intro hstop
        simp only [List.mem_append, List.mem_singleton] at hstop
        rcases hstop with hstop | hstop
        · exact h.fin hstop
        · cases hstop
  | kill w =>
    left
    simp only [step] at hst
    split at hst
    · cases hst
    · rename_i k hk
      split at hst
      · cases hst
      · cases hst
        refine InvM_frame c s _ h rfl rfl rfl rfl rfl ?_
        intro _ hmid
        refine ⟨hmid.status, hmid.sp, hmid.le, hmid.cyc, hmid.len, hmid.info, by simp [hmid.wlen], ?_, hmid.resq⟩
        intro w' k' hk' m' hm'
        simp only [List.getElem?_set] at hk'
        by_cases hw : w = w'
        · subst hw
          simp only [if_true] at hk'
          split at hk'
          · cases hk'
            exact hmid.msgs w k hk m' hm'
          · cases hk'
        · simp only [hw, if_false] at hk'
          exact hmid.msgs w' k' hk' m' hm'
  | pollTimeout =>
    simp only [step] at hst
    split at hst
    · cases hst
    · split at hst
      · cases hst; exact Or.inl h
      · cases hst; right; simp

/-! ## initial state and runs -/

theorem MidM_prime (c : Cfg) (n : Nat) (s : State) (hv : c.Valid) (hm : c.iterable = false)
    (hio : c.inOrder = true) (h : MidM c s) :
    MidM c (prime c n s) ∧ (0 < n → (prime c n s).sendIdx = c.batches.length ∨ s.sendIdx < (prime c n s).sendIdx) := by
  induction n generalizing s with
  | zero => exact ⟨h, fun h0 => absurd h0 (Nat.lt_irrefl 0)⟩
  | succ n ih =>
    obtain ⟨h1, h2⟩ := MidM_tryPut c s hv hm hio h
    obtain ⟨h3, h4⟩ := ih (tryPut c s) h1
    refine ⟨h3, fun _ => ?_⟩
    unfold prime
    cases n with
    | zero => exact h2
    | succ n =>
      rcases h4 (Nat.succ_pos n) with h4 | h4
      · exact Or.inl h4
      · rcases h2 with h2 | h2
        · have := h3.le; have := h1.le
          left; omega
        · right; omega

theorem init_invM (c : Cfg) (hv : c.Valid) (hm : c.iterable = false) (hio : c.inOrder = true) :
    InvM c (init c) := by
  unfold init resetTail
  generalize hs0 : ({ resetHead c _ with mainSnaps := [], lastW := c.W - 1, snap := _ } : State) = s0
  have hmid0 : MidM c s0 := by
    subst hs0
    refine ⟨rfl, rfl, Nat.zero_le _, by simp [resetHead], rfl, trivial, by simp [resetHead], ?_, ?_⟩
    · intro w k hk m hmem
      simp only [resetHead, List.getElem?_replicate] at hk
      split at hk
      · cases hk; simp at hmem
      · cases hk
    · intro r hr; simp [resetHead] at hr
  have hpos : 0 < c.P * c.W := Nat.mul_pos hv.2 hv.1
  obtain ⟨h1, h2⟩ := MidM_prime c (c.P * c.W) s0 hv hm hio hmid0
  have hc := prime_sameCore c (c.P * c.W) s0
  have e1 : s0.rcvdIdx = 0 := by subst hs0; rfl
  have e2 : s0.obs = [] := by subst hs0; rfl
  have e3 : s0.phase = .idle := by subst hs0; rfl
  have e4 : s0.shutdown = false := by subst hs0; rfl
  have e5 : s0.sendIdx = 0 := by subst hs0; rfl
  constructor
  · rw [hc.rcvdIdx, hc.obs, e1, e2]; exact trivial
  · intro k; rw [hc.phase, e3]; simp
  · intro hf; rw [hc.shutdown, e4] at hf; cases hf
  · intro _; exact h1
  · intro _
    rcases h2 hpos with h2 | h2
    · exact Or.inl h2
    · right; rw [hc.rcvdIdx, e1]; omega
  · intro hf; rw [hc.obs, e2] at hf; cases hf

theorem run_invM (c : Cfg) (as : List Action) (s s' : State) (hv : c.Valid) (hm : c.iterable = false)
    (hio : c.inOrder = true) (hnr : NoReset as) (h : InvM c s ∨ died s) (hr : run c s as = some s') :
    InvM c s' ∨ died s' := by
  induction as generalizing s with
  | nil => simp only [run] at hr; cases hr; exact h
  | cons a as ih =>
    simp only [run] at hr
    split at hr
    · cases hr
    · rename_i s1 hs1
      refine ih s1 hnr.2 ?_ hr
      rcases h with h | h
      · exact step_invM c s s1 a hv hm hio hnr.1 h hs1
      · exact Or.inr (died_step c s s1 a hs1 h)

/-! ## case characterisation of the main-process actions (reused by the snapshot and liveness proofs) -/

/-- Pop the head task with result `r` and process it. -/
def popProc (c : Cfg) (s : State) (l : List Info) (r : Res) : State :=
  finish ((processData c { s with info := l, rcvdIdx := s.rcvdIdx + 1 } r).1,
          some (processData c { s with info := l, rcvdIdx := s.rcvdIdx + 1 } r).2)

inductive LoopCase (c : Cfg) (s : State) (res : State) : Prop where
  | stop (hle : s.sendIdx ≤ s.rcvdIdx)
      (heq : res = finish ((if c.persistent then s else shutdownWorkers c s), some .stop))
  | wait (e : Info) (l : List Info) (hi : s.info = e :: l) (hres : e.res = none)
      (heq : res = { s with bad := s.bad || s.shutdown || decide (s.outstanding = 0), phase := .waiting })
  | proc (e : Info) (l : List Info) (r : Res) (hi : s.info = e :: l) (hres : e.res = some r) (hg : GoodRes c r)
      (hri : r.idx = s.rcvdIdx) (heq : res = popProc c s l r)

theorem loop_cases (c : Cfg) (s : State) (n : Nat) (hv : c.Valid) (hmid : MidM c s) :
    LoopCase c s (finish (loop c (n + 1) s)) := by
  unfold loop
  simp only [skip_map c s _ hv hmid]
  by_cases hle : s.sendIdx ≤ s.rcvdIdx
  · simp only [hle, if_true]
    exact .stop hle rfl
  · simp only [hle, if_false]
    have hlen := hmid.len
    obtain ⟨e, l, hi⟩ : ∃ e l, s.info = e :: l := by
      cases hi : s.info with
      | nil => simp [hi] at hlen; omega
      | cons e l => exact ⟨e, l, rfl⟩
    have hinfo := hmid.info
    rw [hi] at hinfo
    have hlk : lookupInfo s.info s.rcvdIdx = some e := by rw [hi]; exact lookupInfo_head c _ e l hinfo
    rw [hlk]
    simp only
    cases hres : e.res with
    | none => exact .wait e l hi hres rfl
    | some r =>
      obtain ⟨hg, hri⟩ := hinfo.2.2.1 r hres
      have hnn : r.kind ≠ .notice := by
        obtain ⟨it, _, hk⟩ := hg.2
        rw [hk]; exact kindOf_ne_notice it
      have he : eraseInfo s.info s.rcvdIdx = l := by rw [hi]; exact eraseInfo_head c _ e l hinfo
      simp only [hnn, if_false, he]
      exact .proc e l r hi hres hg hri rfl

inductive RecvCase (c : Cfg) (s : State) (r : Res) (res : State) : Prop where
  | now (e : Info) (l : List Info) (hi : s.info = e :: l) (hri : r.idx = s.rcvdIdx)
      (heq : res = popProc c { s with outstanding := s.outstanding - 1 } l r)
  | store (hne : r.idx ≠ s.rcvdIdx)
      (hmid2 : MidM c { s with outstanding := s.outstanding - 1, info := setRes s.info r.idx r })
      (hl : LoopCase c { s with outstanding := s.outstanding - 1, info := setRes s.info r.idx r } res)

theorem recvData_cases (c : Cfg) (s : State) (r : Res) (hv : c.Valid) (hm : c.iterable = false)
    (hio : c.inOrder = true) (hmid : MidM c s) (hg : GoodRes c r) (hlt : r.idx < s.sendIdx) :
    RecvCase c s r (recvData c s r) := by
  have hnn : r.kind ≠ .notice := by
    obtain ⟨it, _, hk⟩ := hg.2
    rw [hk]; exact kindOf_ne_notice it
  have hoa : onArrival c { s with outstanding := s.outstanding - 1 } r = { s with outstanding := s.outstanding - 1 } := by
    simp [onArrival, hm]
  unfold recvData
  simp only [hoa, hio, hnn, if_false, Bool.not_true, Bool.false_eq_true]
  by_cases hidx : r.idx = s.rcvdIdx
  · simp only [hidx, ne_eq, not_true_eq_false, if_false]
    have hlen := hmid.len
    obtain ⟨e, l, hi⟩ : ∃ e l, s.info = e :: l := by
      cases hi : s.info with
      | nil => simp [hi] at hlen; omega
      | cons e l => exact ⟨e, l, rfl⟩
    have hinfo := hmid.info
    rw [hi] at hinfo
    have he : eraseInfo s.info s.rcvdIdx = l := by rw [hi]; exact eraseInfo_head c _ e l hinfo
    simp only [he]
    exact .now e l hi hidx rfl
  · simp only [ne_eq, hidx, not_false_eq_true, if_true]
    have h2 : MidM c { s with outstanding := s.outstanding - 1, info := setRes s.info r.idx r } := by
      refine ⟨hmid.status, hmid.sp, hmid.le, hmid.cyc, ?_, ?_, hmid.wlen, hmid.msgs, hmid.resq⟩
      · have := hmid.len; simpa [setRes_length] using this
      · exact InfoFrom_setRes c _ _ r hmid.info hg
    exact .store hidx h2 (loop_cases c _ _ hv h2)

/-- The snapshot-relevant fields of the main process. -/
structure SameSnap (s s' : State) : Prop where
  numYielded : s'.numYielded = s.numYielded
  rcvdIdx : s'.rcvdIdx = s.rcvdIdx
  sendIdx : s'.sendIdx = s.sendIdx
  mainSnaps : s'.mainSnaps = s.mainSnaps
  snap : s'.snap = s.snap
  lastW : s'.lastW = s.lastW
  wsnaps : s'.wsnaps = s.wsnaps
  shutdown : s'.shutdown = s.shutdown
  info : s'.info = s.info
  outstanding : s'.outstanding = s.outstanding

/-- What one action (other than `reset`) does, seen from the main process. -/
inductive StepCase (c : Cfg) (s : State) (s' : State) : Prop where
  | passive (hs : SameSnap s s') (hph : s'.phase = s.phase)
      (hobs : s'.obs = s.obs ∨ ∃ a b d e ws, s'.obs = s.obs ++ [.sd a b d e ws])
  | died (hd : died s')
  | nextDown (hsd : s.shutdown = true) (heq : s' = { s with phase := .idle, obs := s.obs ++ [.stop] })
  | nextLoop (hsd : s.shutdown = false) (hph : s.phase = .idle) (hl : LoopCase c s s')
  | recv (r : Res) (rest : List Res) (hsd : s.shutdown = false) (hph : s.phase = .waiting) (hq : s.resQ = r :: rest)
      (hg : GoodRes c r) (hlt : r.idx < s.sendIdx) (hmid0 : MidM c { s with resQ := rest })
      (hr : RecvCase c { s with resQ := rest } r s')

theorem next_cases (c : Cfg) (s s' : State) (hv : c.Valid) (h : InvM c s) (hst : step c s .next = some s') :
    (s.shutdown = true ∧ s' = { s with phase := .idle, obs := s.obs ++ [.stop] }) ∨
    (s.shutdown = false ∧ s.phase = .idle ∧ LoopCase c s s') := by
  simp only [step] at hst
  split at hst
  · cases hst
  · rename_i hph
    cases hst
    rcases Bool.eq_false_or_eq_true s.shutdown with hsd | hsd
    · obtain ⟨hrs, _, _⟩ := h.down hsd
      have hsw : shutdownWorkers c s = s := by simp [shutdownWorkers, hsd]
      have hif : (if c.persistent = true then s else shutdownWorkers c s) = s := by split <;> simp [hsw]
      unfold loopFuel
      rw [loop_done c _ s (by omega), hif]
      exact Or.inl ⟨hsd, rfl⟩
    · exact Or.inr ⟨hsd, by simpa using hph, loop_cases c s _ hv (h.mid hsd)⟩

theorem recv_cases (c : Cfg) (s s' : State) (hv : c.Valid) (hm : c.iterable = false) (hio : c.inOrder = true)
    (h : InvM c s) (hst : step c s .recv = some s') :
    ∃ r rest, s.shutdown = false ∧ s.phase = .waiting ∧ s.resQ = r :: rest ∧ GoodRes c r ∧ r.idx < s.sendIdx ∧
      MidM c { s with resQ := rest } ∧ RecvCase c { s with resQ := rest } r s' := by
  simp only [step] at hst
  split at hst
  · cases hst
  · rename_i r rest hq
    split at hst
    · cases hst
    · rename_i hph
      have hs : s.shutdown = false := by
        cases hsd : s.shutdown with
        | false => rfl
        | true => have := (h.down hsd).2.1; rw [hph] at this; cases this
      have hmid := h.mid hs
      have hr := hmid.resq r (by rw [hq]; exact List.mem_cons_self ..)
      split at hst
      · cases hst
      · cases hst
        have h0 : MidM c { s with resQ := rest } := by
          refine ⟨hmid.status, hmid.sp, hmid.le, hmid.cyc, hmid.len, hmid.info, hmid.wlen, hmid.msgs, ?_⟩
          intro r' hr'
          exact hmid.resq r' (by rw [hq]; exact List.mem_cons_of_mem _ hr')
        exact ⟨r, rest, hs, hph, hq, hr.1, hr.2, h0, recvData_cases c _ r hv hm hio h0 hr.1 hr.2⟩
    · rename_i k hph
      exact absurd hph (h.ph k)

theorem step_cases (c : Cfg) (s s' : State) (a : Action) (hv : c.Valid) (hm : c.iterable = false)
    (hio : c.inOrder = true) (ha : a ≠ .reset) (h : InvM c s) (hst : step c s a = some s') :
    StepCase c s s' := by
  cases a with
  | reset => exact absurd rfl ha
  | work w =>
    simp only [step] at hst
    split at hst
    · cases hst
    · split at hst
      · cases hst
      · split at hst
        · cases hst
        · cases hst
          exact .passive (by constructor <;> rfl) rfl (Or.inl rfl)
  | kill w =>
    simp only [step] at hst
    split at hst
    · cases hst
    · split at hst
      · cases hst
      · cases hst
        exact .passive (by constructor <;> rfl) rfl (Or.inl rfl)
  | stateDict =>
    simp only [step] at hst
    split at hst
    · cases hst
    · cases hst
      exact .passive (by constructor <;> rfl) rfl (Or.inr ⟨_, _, _, _, _, rfl⟩)
  | pollTimeout =>
    simp only [step] at hst
    split at hst
    · cases hst
    · split at hst
      · cases hst; exact .passive (by constructor <;> rfl) rfl (Or.inl rfl)
      · cases hst; exact .died (by simp [died])
  | next =>
    rcases next_cases c s s' hv h hst with ⟨hsd, heq⟩ | ⟨hsd, hph, hl⟩
    · exact .nextDown hsd heq
    · exact .nextLoop hsd hph hl
  | recv =>
    obtain ⟨r, rest, hs, hph, hq, hg, hlt, h0, hr⟩ := recv_cases c s s' hv hm hio h hst
    exact .recv r rest hs hph hq hg hlt h0 hr

end TDV.MP
