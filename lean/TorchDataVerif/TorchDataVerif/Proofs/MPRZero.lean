import TorchDataVerif.Model.MPRestore
import TorchDataVerif.Proofs.MPStep
/-!
# MPR — `snapshot_every_n_steps = 0` (or `None`), both dataset kinds

Without a snapshot interval `_take_snapshot` is never called: the stored snapshot stays the initial one
(`idealAt c 0`), `steps_since_snapshot` is the number of yields, and the restore constructor applied to it
builds exactly the initial state (`restore c (idealAt c 0) = init c`) and replays everything.  Generic in
the dispatch protocol (map-style and iterable with retirement alike).
-/
namespace TDV.MPR

open TDV.MP

def NotResuming (s : State) : Prop := ∀ k, s.phase ≠ .resuming k

theorem finish_notResuming (p : State × Option Obs) : NotResuming (finish p) := by
  intro k
  unfold finish
  split <;> simp

theorem finish_snap (p : State × Option Obs) : (finish p).snap = p.1.snap := by
  unfold finish
  split <;> rfl

theorem yieldItem_snap0 (c : Cfg) (s : State) (r : Res) (b : Nat) (h0 : c.interval = 0) :
    (yieldItem c s r b).1.snap = s.snap := by
  unfold yieldItem
  simp [h0]

theorem processData_snap0 (c : Cfg) (s : State) (r : Res) (h0 : c.interval = 0) :
    (processData c s r).1.snap = s.snap := by
  have hc := tryPut_sameCore c { s with numTasks := s.numTasks.modify r.w (· - 1) }
  unfold processData
  dsimp only
  cases r.kind with
  | data b => simp only; rw [yieldItem_snap0 c _ r b h0]; exact hc.snap
  | notice => exact hc.snap
  | error => exact hc.snap
  | ack => exact hc.snap

theorem loop_snap0 (c : Cfg) (n : Nat) (s : State) (h0 : c.interval = 0) : (loop c n s).1.snap = s.snap := by
  induction n generalizing s with
  | zero => rfl
  | succ n ih =>
    unfold loop
    obtain ⟨_, e2, _⟩ := skip_sameSkipFields s (s.sendIdx - s.rcvdIdx)
    generalize skip s (s.sendIdx - s.rcvdIdx) = s2 at e2
    dsimp only
    split
    · split
      · exact e2
      · exact (shutdownWorkers_sameMain c s2).snap.trans e2
    · split
      · exact e2
      · split
        · split
          · rw [ih]; exact e2
          · rw [processData_snap0 c _ _ h0]; exact e2
        · exact e2

theorem recvData_snap0 (c : Cfg) (s : State) (r : Res) (h0 : c.interval = 0) :
    (recvData c s r).snap = s.snap ∧ NotResuming (recvData c s r) := by
  obtain ⟨_, e2, _⟩ := onArrival_gsFields c { s with outstanding := s.outstanding - 1 } r
  unfold recvData
  generalize onArrival c { s with outstanding := s.outstanding - 1 } r = t at e2
  have e2' : t.snap = s.snap := e2
  dsimp only
  split
  · split
    · split
      · exact ⟨by rw [finish_snap, loop_snap0 c _ _ h0]; exact e2', finish_notResuming _⟩
      · exact ⟨by rw [finish_snap, processData_snap0 c _ _ h0]; exact e2', finish_notResuming _⟩
    · exact ⟨by rw [finish_snap, loop_snap0 c _ _ h0]; exact e2', finish_notResuming _⟩
  · split
    · exact ⟨by rw [finish_snap, loop_snap0 c _ _ h0]; exact e2', finish_notResuming _⟩
    · exact ⟨by rw [finish_snap, processData_snap0 c _ _ h0]; exact e2', finish_notResuming _⟩

/-! ### without interval the `_take_snapshot` assertion cannot fire -/

theorem processData_noas0 (c : Cfg) (s : State) (r : Res) (h0 : c.interval = 0) :
    (processData c s r).2 ≠ .assertion := by
  unfold processData
  dsimp only
  cases r.kind with
  | data b => simp only [yieldItem, h0]; simp
  | notice => simp
  | error => simp
  | ack => simp

theorem loop_noas0 (c : Cfg) (n : Nat) (s : State) (h0 : c.interval = 0) : (loop c n s).2 ≠ some .assertion := by
  induction n generalizing s with
  | zero => simp [loop]
  | succ n ih =>
    unfold loop
    dsimp only
    split
    · simp
    · split
      · simp
      · split
        · split
          · exact ih _
          · simp only [ne_eq, Option.some.injEq]; exact processData_noas0 c _ _ h0
        · simp

theorem finish_noas (p : State × Option Obs) (s : State) (ho : p.1.obs = s.obs) (hn : p.2 ≠ some .assertion)
    (h : Obs.assertion ∈ (finish p).obs) : Obs.assertion ∈ s.obs := by
  unfold finish at h
  split at h
  · rename_i o ho'
    simp only [List.mem_append, List.mem_singleton] at h
    rcases h with h | h
    · rw [← ho]; exact h
    · rw [ho', ← h] at hn; exact absurd rfl hn
  · rw [← ho]; exact h

theorem recvData_noas0 (c : Cfg) (s : State) (r : Res) (h0 : c.interval = 0)
    (h : Obs.assertion ∈ (recvData c s r).obs) : Obs.assertion ∈ s.obs := by
  have e0 : (onArrival c { s with outstanding := s.outstanding - 1 } r).obs = s.obs := onArrival_obs c _ r
  unfold recvData at h
  generalize onArrival c { s with outstanding := s.outstanding - 1 } r = t at e0 h
  dsimp only at h
  split at h
  · split at h
    · split at h
      · exact finish_noas _ s (by rw [loop_obs]; exact e0) (loop_noas0 c _ _ h0) h
      · exact finish_noas _ s (by rw [processData_obs]; exact e0)
          (by simp only [ne_eq, Option.some.injEq]; exact processData_noas0 c _ _ h0) h
    · exact finish_noas _ s (by rw [loop_obs]; exact e0) (loop_noas0 c _ _ h0) h
  · split at h
    · exact finish_noas _ s (by rw [loop_obs]; exact e0) (loop_noas0 c _ _ h0) h
    · exact finish_noas _ s (by rw [processData_obs]; exact e0)
        (by simp only [ne_eq, Option.some.injEq]; exact processData_noas0 c _ _ h0) h

theorem markAll_snap (c : Cfg) (l : List Nat) (s : State) : (markAll c s l).snap = s.snap := by
  induction l generalizing s with
  | nil => rfl
  | cons x l ih => unfold markAll; rw [ih]; rfl

theorem markAll_obs' (c : Cfg) (l : List Nat) (s : State) : (markAll c s l).obs = s.obs := by
  induction l generalizing s with
  | nil => rfl
  | cons x l ih => unfold markAll; rw [ih]; rfl

/-- Without interval no action (other than `reset`) changes the stored snapshot, and the `_take_snapshot`
assertion cannot fire. -/
theorem step_frozen (c : Cfg) (s s' : State) (a : Action) (h0 : c.interval = 0) (ha : a ≠ .reset)
    (hph : NotResuming s) (hst : step c s a = some s') :
    s'.snap = s.snap ∧ NotResuming s' ∧ (Obs.assertion ∈ s'.obs → Obs.assertion ∈ s.obs) := by
  cases a with
  | reset => exact absurd rfl ha
  | work w =>
    simp only [step] at hst
    split at hst
    · cases hst
    · split at hst
      · cases hst
      · split at hst
        · cases hst
        · cases hst; exact ⟨rfl, hph, id⟩
  | kill w =>
    simp only [step] at hst
    split at hst
    · cases hst
    · split at hst
      · cases hst
      · cases hst; exact ⟨rfl, hph, id⟩
  | stateDict =>
    simp only [step] at hst
    split at hst
    · cases hst
    · cases hst
      refine ⟨rfl, hph, fun h => ?_⟩
      simp only [List.mem_append, List.mem_singleton] at h
      rcases h with h | h
      · exact h
      · cases h
  | pollTimeout =>
    simp only [step] at hst
    split at hst
    · cases hst
    · split at hst
      · cases hst; exact ⟨rfl, hph, id⟩
      · cases hst
        refine ⟨markAll_snap c _ s, fun k => by simp, fun h => ?_⟩
        simp only [List.mem_append, List.mem_singleton, markAll_obs'] at h
        rcases h with h | h
        · exact h
        · cases h
  | next =>
    simp only [step] at hst
    split at hst
    · cases hst
    · cases hst
      exact ⟨by rw [finish_snap, loop_snap0 c _ _ h0], finish_notResuming _,
        finish_noas _ s (loop_obs c _ s) (loop_noas0 c _ _ h0)⟩
  | recv =>
    simp only [step] at hst
    split at hst
    · cases hst
    · split at hst
      · cases hst
      · split at hst
        · cases hst
        · cases hst
          obtain ⟨e1, e2⟩ := recvData_snap0 c _ _ h0
          exact ⟨e1, e2, recvData_noas0 c _ _ h0⟩
      · rename_i k hk
        exact absurd hk (hph k)

theorem run_frozen (c : Cfg) (as : List Action) (s s' : State) (h0 : c.interval = 0) (hnr : NoReset as)
    (hph : NotResuming s) (hr : run c s as = some s') :
    s'.snap = s.snap ∧ NotResuming s' ∧ (Obs.assertion ∈ s'.obs → Obs.assertion ∈ s.obs) := by
  induction as generalizing s with
  | nil => simp only [run] at hr; cases hr; exact ⟨rfl, hph, id⟩
  | cons a as ih =>
    simp only [run] at hr
    split at hr
    · cases hr
    · rename_i s1 hs1
      obtain ⟨e1, e2, e5⟩ := step_frozen c s s1 a h0 hnr.1 hph hs1
      obtain ⟨e3, e4, e6⟩ := ih s1 hnr.2 e2 hr
      exact ⟨e3.trans e1, e4, fun h => e5 (e6 h)⟩

/-! ## the constructor applied to the initial snapshot builds the initial state -/

theorem cut_zero (l : List Ev) : cut l 0 = [] := by
  cases l <;> simp [cut]

theorem idealAt_zero (c : Cfg) : idealAt c 0 = ⟨0, c.W - 1, 0, List.replicate c.W ⟨0, false⟩⟩ := by
  unfold idealAt
  simp only [cut_zero, List.length_nil, ite_self, List.foldl_nil]
  rfl

theorem restoreWorkers_fresh (c : Cfg) (n : Nat) (hn : n ≤ c.W) :
    restoreWorkers c (List.replicate c.W ⟨0, false⟩) n = List.replicate n ⟨[], 0, false, true⟩ := by
  induction n with
  | zero => rfl
  | succ n ih =>
    simp only [restoreWorkers, ih (by omega), List.replicate_succ']
    congr 2
    have : (List.replicate c.W (⟨0, false⟩ : WSt))[n]? = some ⟨0, false⟩ := by
      simp [List.getElem?_replicate]; omega
    rw [this]
    rfl

/-- **`restore c (idealAt c 0) = init c`**, for every configuration with at least one worker. -/
theorem restore_ideal_zero (c : Cfg) (hW : 0 < c.W) : restore c (idealAt c 0) = init c := by
  rw [idealAt_zero]
  unfold restore init resetTail
  congr 1
  unfold restoreBase resetHead
  have h1 : (c.W - 1 + 1) % c.W = 0 := by
    have : c.W - 1 + 1 = c.W := by omega
    rw [this, Nat.mod_self]
  simp only [restoreWorkers_fresh c c.W (Nat.le_refl _), h1]

theorem init_core (c : Cfg) : (init c).phase = .idle ∧ (init c).obs = [] := by
  unfold init resetTail
  generalize hs0 : ({ resetHead c _ with mainSnaps := [], lastW := c.W - 1, snap := _ } : State) = s0
  have hc := prime_sameCore c (c.P * c.W) s0
  rw [hc.phase, hc.obs]
  subst hs0
  exact ⟨rfl, rfl⟩

theorem init_notResuming (c : Cfg) : NotResuming (init c) := by
  intro k
  rw [(init_core c).1]
  simp

/-- The initial snapshot is the ideal state at step 0. -/
theorem init_snap (c : Cfg) : (init c).snap = idealAt c 0 := by
  rw [idealAt_zero]
  unfold init resetTail
  generalize hs0 : ({ resetHead c _ with mainSnaps := [], lastW := c.W - 1, snap := _ } : State) = s0
  rw [(prime_sameCore c (c.P * c.W) s0).snap]
  subst hs0
  rfl

end TDV.MPR
