import TorchDataVerif.Proofs.MPRIStep
/-!
# MPRI — whole runs; priming; the start states
-/
namespace TDV.MPRI
open TDV.MP TDV.MPU

theorem run_J (c : Cfg) (e0 : Nat → Bool) (δ : Nat) (as : List Action) (s s' : State) (hv : c.shards.length = c.W)
    (hit : c.iterable = true) (hio : c.inOrder = true) (hok : ShardsOk c) (hnr : NoReset as)
    (h : J c e0 δ s ∨ died s) (hr : run c s as = some s') : J c e0 δ s' ∨ died s' := by
  induction as generalizing s with
  | nil => simp only [run] at hr; cases hr; exact h
  | cons a as ih =>
    simp only [run] at hr
    split at hr
    · cases hr
    · rename_i s1 hs1
      refine ih s1 hnr.2 ?_ hr
      rcases h with h | h
      · exact step_J c e0 δ s s1 a hv hit hio hok hnr.1 h hs1
      · exact Or.inr (died_step c s s1 a hs1 h)

/-- `_try_put_index` outside `next()` (priming). -/
theorem tryPut_J (c : Cfg) (e0 : Nat → Bool) (δ : Nat) (s : State) (g : Ghost) (dl : List Nat)
    (hit : c.iterable = true) (hio : c.inOrder = true) (hJ : JX c e0 δ s g dl) (hns : Obs.stop ∉ s.obs)
    (hroom : cntZ none (zipZ s.info dl) + 1 ≤ c.W * c.P) :
    ∃ g' dl', JX c e0 δ (tryPut c s) g' dl' := by
  obtain ⟨hm, ho, hl, hf⟩ := hJ.wi
  obtain ⟨g', hg', _, _, hh, hl'⟩ := MidI_tryPut c s g none hit hio hm
  obtain ⟨dl', hd1, hd2, hd3, hd4, _, _, _⟩ := KX_tryPut c s g.h dl none 0 hit hJ.sw hJ.dlen hJ.kf hroom
  have hc := tryPut_sameCore c s
  have hn : s.rcvdIdx ≤ g.h.length := by rw [hm.hlen]; have := hm.len; omega
  have htk : g'.h.take s.rcvdIdx = g.h.take s.rcvdIdx := take_of_prefix g.h g'.h _ hn hh
  have hdll : dl'.length ≤ g.h.length + 1 := by
    have h1 := hJ.dlen
    have h2 := hm.hlen
    rcases hd1 with rfl | rfl
    · omega
    · simp; omega
  refine ⟨g', dl', ⟨hg', ?_, hl', ?_⟩, hd3, hd2, KF_h' c _ g.h g'.h dl' hdll hh hd4, ?_⟩
  · rw [hc.rcvdIdx, hc.obs, htk]; exact ho
  · intro hst; rw [hc.obs] at hst; exact absurd hst hns
  · rw [hc.wsnaps, hc.snap, hc.numYielded, hc.rcvdIdx, htk]; exact hJ.ks

theorem prime_J (c : Cfg) (e0 : Nat → Bool) (δ : Nat) (n : Nat) (s : State) (g : Ghost) (dl : List Nat)
    (hit : c.iterable = true) (hio : c.inOrder = true) (hJ : JX c e0 δ s g dl) (hns : Obs.stop ∉ s.obs)
    (hroom : s.sendIdx - s.rcvdIdx + n ≤ c.W * c.P) :
    ∃ g' dl', JX c e0 δ (prime c n s) g' dl' := by
  induction n generalizing s g dl with
  | zero => exact ⟨g, dl, hJ⟩
  | succ n ih =>
    unfold prime
    have hcnt : cntZ none (zipZ s.info dl) ≤ s.sendIdx - s.rcvdIdx := by
      have h1 := cntZ_le_length none (zipZ s.info dl)
      have h2 : (zipZ s.info dl).length = s.info.length := by simp [zipZ]
      have := hJ.sw.len
      omega
    obtain ⟨g1, dl1, h1⟩ := tryPut_J c e0 δ s g dl hit hio hJ hns (by omega)
    have hs := tryPut_sendIdx_le c s
    have hc := tryPut_sameCore c s
    exact ih (tryPut c s) g1 dl1 h1 (by rw [hc.obs]; exact hns) (by rw [hc.rcvdIdx]; omega)

end TDV.MPRI
