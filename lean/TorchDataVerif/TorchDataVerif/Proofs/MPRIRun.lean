import TorchDataVerif.Proofs.MPRIStep
/-!
# MPRI — whole runs; priming; the start states
-/
namespace TDV.MPRI
open TDV.MP TDV.MPU

theorem run_J (c : Cfg) (e0 : Nat → Bool) (δ : Nat) (as : List Action) (s s' : State) (hv : c.shards.length = c.W)
    (hit : c.iterable = true) (hio : c.inOrder = true) (hok : ShardsOk c) (hnr : NoReset as)
    (h : J c e0 δ s ∨ died s) (hr : run c s as = some s') : J c e0 δ s' ∨ died s' := by
  induction as generalizing s with
  | nil => simp only [run] at hr; cases hr; exact h
  | cons a as ih =>
    simp only [run] at hr
    split at hr
    · cases hr
    · rename_i s1 hs1
      refine ih s1 hnr.2 ?_ hr
      rcases h with h | h
      · exact step_J c e0 δ s s1 a hv hit hio hok hnr.1 h hs1
      · exact Or.inr (died_step c s s1 a hs1 h)

/-- `_try_put_index` outside `next()` (priming); the liveness witness is produced, not needed. -/
theorem tryPut_J0 (c : Cfg) (e0 : Nat → Bool) (δ : Nat) (s : State) (g : Ghost) (dl : List Nat)
    (hit : c.iterable = true) (hio : c.inOrder = true) (hm : MidI c s g none)
    (ho : ObsRel (dataItems c (g.h.take s.rcvdIdx)) (taskObs s.obs))
    (hsw : SWk c s (zipZ s.info dl) none 0) (hdl : dl.length = s.sendIdx) (hkf : KF c s g.h dl)
    (hks : KS c e0 δ s.wsnaps s.snap s.numYielded (livePairs c (g.h.take s.rcvdIdx)))
    (hns : Obs.stop ∉ s.obs) (hroom : cntZ none (zipZ s.info dl) + 1 ≤ c.W * c.P) :
    ∃ g' dl', JX c e0 δ (tryPut c s) g' dl' := by
  obtain ⟨g', hg', _, _, hh, hl'⟩ := MidI_tryPut c s g none hit hio hm
  obtain ⟨dl', hd1, hd2, hd3, hd4, _, _, _⟩ := KX_tryPut c s g.h dl none 0 hit hsw hdl hkf hroom
  have hc := tryPut_sameCore c s
  have hn : s.rcvdIdx ≤ g.h.length := by rw [hm.hlen]; have := hm.len; omega
  have htk : g'.h.take s.rcvdIdx = g.h.take s.rcvdIdx := take_of_prefix g.h g'.h _ hn hh
  have hdll : dl'.length ≤ g.h.length + 1 := by
    have h2 := hm.hlen
    rcases hd1 with rfl | rfl
    · omega
    · simp; omega
  refine ⟨g', dl', ⟨hg', ?_, hl', ?_⟩, hd3, hd2, KF_h' c _ g.h g'.h dl' hdll hh hd4, ?_⟩
  · rw [hc.rcvdIdx, hc.obs, htk]; exact ho
  · intro hst; rw [hc.obs] at hst; exact absurd hst hns
  · rw [hc.wsnaps, hc.snap, hc.numYielded, hc.rcvdIdx, htk]; exact hks

theorem tryPut_J (c : Cfg) (e0 : Nat → Bool) (δ : Nat) (s : State) (g : Ghost) (dl : List Nat)
    (hit : c.iterable = true) (hio : c.inOrder = true) (hJ : JX c e0 δ s g dl) (hns : Obs.stop ∉ s.obs)
    (hroom : cntZ none (zipZ s.info dl) + 1 ≤ c.W * c.P) :
    ∃ g' dl', JX c e0 δ (tryPut c s) g' dl' :=
  tryPut_J0 c e0 δ s g dl hit hio hJ.wi.1 hJ.wi.2.1 hJ.sw hJ.dlen hJ.kf hJ.ks hns hroom

theorem prime_J (c : Cfg) (e0 : Nat → Bool) (δ : Nat) (n : Nat) (s : State) (g : Ghost) (dl : List Nat)
    (hit : c.iterable = true) (hio : c.inOrder = true) (hJ : JX c e0 δ s g dl) (hns : Obs.stop ∉ s.obs)
    (hroom : s.sendIdx - s.rcvdIdx + n ≤ c.W * c.P) :
    ∃ g' dl', JX c e0 δ (prime c n s) g' dl' := by
  induction n generalizing s g dl with
  | zero => exact ⟨g, dl, hJ⟩
  | succ n ih =>
    unfold prime
    have hcnt : cntZ none (zipZ s.info dl) ≤ s.sendIdx - s.rcvdIdx := by
      have h1 := cntZ_le_length none (zipZ s.info dl)
      have h2 : (zipZ s.info dl).length = s.info.length := by simp [zipZ]
      have := hJ.sw.len
      omega
    obtain ⟨g1, dl1, h1⟩ := tryPut_J c e0 δ s g dl hit hio hJ hns (by omega)
    have hs := tryPut_sendIdx_le c s
    have hc := tryPut_sameCore c s
    exact ih (tryPut c s) g1 dl1 h1 (by rw [hc.obs]; exact hns) (by rw [hc.rcvdIdx]; omega)

/-- A quiescent start state: `K` tasks dispatched and consumed (none for a fresh iterator, the virtual past of
a restored one), nothing in flight, every worker `w` after `T w` fetches, cycle pointer at `a`. -/
structure Base (c : Cfg) (s : State) (K a : Nat) (T : Nat → Nat) : Prop where
  se : s.sendIdx = K
  rc : s.rcvdIdx = K
  inf : s.info = []
  st : s.status = List.replicate c.W true
  cy : s.cyc = a
  wl : s.workers.length = c.W
  wk : ∀ (w : Nat) (k : Worker), s.workers[w]? = some k → k.q = [] ∧ k.pos = T w ∧ k.iterEnd = false
  rq : s.resQ = []
  ms : s.mainSnaps = []
  sd : s.shutdown = false
  ph : s.phase = .idle

/-- The ghost of a quiescent start state: a complete round-robin history up to the pointer `(ρ, a)` in which
every task was a data task. -/
structure BaseG (c : Cfg) (h0 : List Nat) (ρ a : Nat) (T : Nat → Nat) : Prop where
  alt : a < c.W
  own : ∀ (i w : Nat), h0[i]? = some w → w < c.W
  cnt : ∀ w, w < c.W → h0.count w = T w
  tur : ∀ w, w < c.W → T w = turns ρ a w
  tb : ∀ w, w < c.W → T w ≤ bOf c w
  live : livePairs c h0 ++ liveFrom c ρ a = liveFrom c 0 0

theorem base_MidI (c : Cfg) (s : State) (K a ρ : Nat) (T : Nat → Nat) (h0 : List Nat) (hB : Base c s K a T)
    (hG : BaseG c h0 ρ a T) (hK : h0.length = K) : MidI c s ⟨h0, ρ, T, T⟩ none := by
  have hup : ∀ w, w < c.W → up s w = true := fun w hw => up_replicate' c.W w _ hB.st hw
  constructor
  · rw [hB.se]; exact hK
  · rw [hB.cy]; exact hG.alt
  · exact hG.own
  · intro w hw _; rw [hB.cy]; simp only; rw [hG.cnt w hw, hG.tur w hw]
  · intro w hw hd; rw [hup w hw] at hd; cases hd
  · rw [hB.cy]; exact hG.live
  · rw [hB.rc, hB.inf, hB.se]; rfl
  · rw [hB.inf]; trivial
  · intro i w hi hw
    left
    have hwW := hG.own i w hw
    have := count_take_succ_le h0 w i hw
    simp only
    rw [hG.cnt w hwW] at this
    omega
  · intro w hw; simp only [hup w hw, true_iff]; exact hG.tb w hw
  · intro w hw; have := hG.tb w hw; simp only; omega
  · rw [hB.st]; simp
  · exact hB.wl
  · intro w k hk
    have hwW : w < c.W := by rw [← hB.wl]; exact (List.getElem?_eq_some_iff.mp hk).1
    obtain ⟨h1, h2, h3⟩ := hB.wk w k hk
    have := hG.tb w hwW
    refine ⟨by rw [h1]; trivial, by rw [h1]; simp only [taskIdxs, List.length_nil]; rw [hG.cnt w hwW]; rfl, ?_, ?_,
      by rw [h1]; simp⟩
    · rw [h2]; simp only; omega
    · rw [h3]; simp only; constructor
      · intro hh; cases hh
      · intro hh; omega
  · intro w hw
    have := hG.tb w hw
    rw [hB.rq]
    exact ⟨trivial, by simp only [List.filter_nil, List.length_nil]; omega⟩
  · intro r hr; rw [hB.rq] at hr; cases hr

theorem J_of_JX (c : Cfg) (e0 : Nat → Bool) (δ : Nat) (s : State) (g : Ghost) (dl : List Nat)
    (hJ : JX c e0 δ s g dl) (hph : s.phase = .idle) (hsd : s.shutdown = false) (hna : Obs.assertion ∉ s.obs) :
    J c e0 δ s :=
  ⟨InvI_of_WI c s g hJ.wi (by rw [hph]; intro k; simp) hsd (by rw [hph]; intro hf; cases hf), hna,
    FS_of_JX c e0 δ s g dl hJ, fun _ => ⟨g, dl, hJ⟩⟩

/-- The constructor's priming loop from a quiescent start state establishes the joint invariant. -/
theorem base_J (c : Cfg) (e0 : Nat → Bool) (δ : Nat) (s : State) (K a ρ : Nat) (T : Nat → Nat) (h0 : List Nat)
    (hit : c.iterable = true) (hio : c.inOrder = true) (hP : 0 < c.P * c.W) (hB : Base c s K a T)
    (hG : BaseG c h0 ρ a T) (hK : h0.length = K) (ho : ObsRel (dataItems c h0) (taskObs s.obs))
    (hns : Obs.stop ∉ s.obs) (hna : Obs.assertion ∉ s.obs)
    (hks : KS c e0 δ s.wsnaps s.snap s.numYielded (livePairs c h0)) :
    J c e0 δ (prime c (c.P * c.W) s) := by
  have hm := base_MidI c s K a ρ T h0 hB hG hK
  have htk : h0.take s.rcvdIdx = h0 := by rw [hB.rc, ← hK, List.take_length]
  have hsw : SWk c s (zipZ s.info (List.replicate K 0)) none 0 := by
    rw [hB.inf]
    refine ⟨by rw [hB.inf]; rfl, by rw [hB.inf]; trivial, by rw [hB.inf, hB.rc, hB.se]; rfl, trivial,
      by simp [zipZ, cntZ], Nat.zero_le _, by rw [hB.ms]; exact List.Pairwise.nil, ?_, ?_⟩
    · intro x hx; rw [hB.ms] at hx; cases hx
    · intro z hz; cases hz
  have hkf : KF c s h0 (List.replicate K 0) := by
    refine ⟨?_, ?_, ?_⟩
    · intro w k hk i p sn hmem
      rw [(hB.wk w k hk).1] at hmem; cases hmem
    · intro r hr; rw [hB.rq] at hr; cases hr
    · intro e he; rw [hB.inf] at he; cases he
  obtain ⟨n, hn⟩ : ∃ n, c.P * c.W = n + 1 := ⟨c.P * c.W - 1, by omega⟩
  rw [hn]
  have hpe : prime c (n + 1) s = prime c n (tryPut c s) := rfl
  rw [hpe]
  obtain ⟨g1, dl1, h1⟩ := tryPut_J0 c e0 δ s ⟨h0, ρ, T, T⟩ (List.replicate K 0) hit hio hm
    (by simp only [htk]; exact ho) hsw (by rw [hB.se]; simp) hkf (by simp only [htk]; exact hks) hns
    (by rw [hB.inf]; simp [zipZ, cntZ]; rw [Nat.mul_comm]; omega)
  have hc := tryPut_sameCore c s
  have hs := tryPut_sendIdx_le c s
  obtain ⟨g2, dl2, h2⟩ := prime_J c e0 δ n (tryPut c s) g1 dl1 hit hio h1 (by rw [hc.obs]; exact hns)
    (by rw [hc.rcvdIdx, hB.rc]; rw [hB.se] at hs; rw [Nat.mul_comm] at hn; omega)
  have hc2 := prime_sameCore c n (tryPut c s)
  exact J_of_JX c e0 δ _ g2 dl2 h2 (by rw [hc2.phase, hc.phase]; exact hB.ph)
    (by rw [hc2.shutdown, hc.shutdown]; exact hB.sd) (by rw [hc2.obs, hc.obs]; exact hna)

end TDV.MPRI
