import TorchDataVerif.Proofs.SPRes
import TorchDataVerif.Proofs.SPIdx
/-! Instances: index streams of the concrete samplers (`IRun`), the index sampler of iterable datasets
(`InfSrc`), and concrete datasets that satisfy `IterLaw`/`StateLaw` (README dataset, stateful iterator
object, plain generator). -/
namespace TDV.SP
open TDV.Sampler

/-! ### Index streams -/
section irun
variable {W S T : Type} (N : Nested W S T)

theorem irun_bare (inf : Bool) (sd : W → W) : ∀ (xs : List Nat) (w : W), Emits N.next w xs →
    ∃ w', IRun (bareSrc N inf sd).next w (xs.map .one) w'
  | [], w, h => by
    have hn := (emits_nil_next h).1
    refine ⟨(N.next w).2, ?_⟩
    simp only [List.map_nil, IRun, bareSrc]
    have hw : N.next w = (.stop, (N.next w).2) := by rw [← hn]
    rw [hw]
  | x :: xs, w, h => by
    simp only [Emits] at h
    obtain ⟨w', ih⟩ := irun_bare inf sd xs (N.next w).2 h.2
    refine ⟨w', ?_⟩
    have hw : N.next w = (.item x, (N.next w).2) := by rw [← h.1]
    have e : (bareSrc N inf sd).next w = (.idx (.one x), (N.next w).2) := by
      simp only [bareSrc]; rw [hw]
    simp only [List.map_cons, IRun, e]
    exact ⟨trivial, ih⟩

theorem irun_batch (bc : BCfg) (hbs : 0 < bc.batchSize) (sd : W → W) : ∀ (n : Nat) (xs : List Nat) (b : BIter W),
    xs.length ≤ n → Emits N.next b.w xs →
    ∃ b', IRun (batchSrc N bc sd).next b ((chunkRef bc.batchSize bc.dropLast xs).map .many) b'
  | n, xs, b, hn, h => by
    by_cases hk : bc.batchSize ≤ xs.length
    · obtain ⟨b1, hnx, _, he, _⟩ := bnext_full N bc xs b h hk
      cases n with
      | zero => omega
      | succ n =>
        obtain ⟨b', ih⟩ := irun_batch bc hbs sd n (xs.drop bc.batchSize) b1 (by rw [List.length_drop]; omega) he
        refine ⟨b', ?_⟩
        rw [chunkRef_ge _ _ _ hbs hk]
        have e : (batchSrc N bc sd).next b = (.idx (.many (xs.take bc.batchSize)), b1) := by
          simp only [batchSrc]; rw [hnx]
        simp only [List.map_cons, IRun, e]
        exact ⟨trivial, ih⟩
    · have hk' : xs.length < bc.batchSize := by omega
      obtain ⟨b1, hnx, _, he, _⟩ := bnext_short N bc xs b h hk'
      rw [chunkRef_lt _ _ _ hk']
      by_cases hd : (bc.dropLast || xs.isEmpty) = true
      · refine ⟨b1, ?_⟩
        simp only [hd, if_true, List.map_nil, IRun, batchSrc]
        rw [hnx]; simp [hd]
      · obtain ⟨b2, hnx2, _, _, _⟩ := bnext_short N bc [] b1 he (by simpa using hbs)
        refine ⟨b2, ?_⟩
        have e : (batchSrc N bc sd).next b = (.idx (.many xs), b1) := by
          simp only [batchSrc]; rw [hnx]; simp [hd]
        have e2 : (batchSrc N bc sd).next b1 = (.stop, b2) := by
          simp only [batchSrc]; rw [hnx2]; simp
        simp only [hd, Bool.false_eq_true, if_false, List.map_cons, List.map_nil, IRun, e, e2]
        exact ⟨trivial, trivial⟩

end irun

/-- A `Stateful` sampler object emits the rest of its order from its position. -/
theorem oemits : ∀ (n : Nat) (w : ObjS), w.order.length - w.i ≤ n → Emits objNested.next w (w.order.drop w.i)
  | n, w, hn => by
    by_cases hlt : w.i < w.order.length
    · have hd : w.order.drop w.i = w.order[w.i] :: w.order.drop (w.i + 1) := List.drop_eq_getElem_cons hlt
      rw [hd]
      have hnx : objNested.next w = (.item w.order[w.i], { w with i := w.i + 1 }) := by
        simp [objNested, List.getElem?_eq_getElem hlt]
      simp only [Emits, hnx]
      cases n with
      | zero => omega
      | succ n => exact ⟨trivial, oemits n { w with i := w.i + 1 } (by simp; omega)⟩
    · have hd : w.order.drop w.i = [] := List.drop_eq_nil_of_le (by omega)
      rw [hd]
      have hnx : ∀ (dn : Bool), objNested.next { w with done := dn } = (.stop, { w with done := true }) := by
        intro dn
        simp [objNested, List.getElem?_eq_none (by omega : w.order.length ≤ w.i)]
      intro k
      have hk : ∀ k, ∃ dn, Sampler.nextN objNested.next k w = { w with done := dn } := by
        intro k
        induction k with
        | zero => exact ⟨w.done, rfl⟩
        | succ k ih =>
          have : ∀ (k : Nat) (dn : Bool), ∃ dn', Sampler.nextN objNested.next k { w with done := dn } = { w with done := dn' } := by
            intro k
            induction k with
            | zero => intro dn; exact ⟨dn, rfl⟩
            | succ k ih2 =>
              intro dn
              rw [Sampler.nextN, hnx dn]
              exact ih2 true
          have h0 := this (k + 1) w.done
          exact h0
      obtain ⟨dn, hdn⟩ := hk k
      rw [hdn, hnx dn]

/-! ### The index sampler of an iterable dataset -/

theorem infSrc_bare : InfSrc (bareSrc infNested true id) .one where
  next w := ⟨.one 0, w, rfl, rfl⟩
  load w st y := ⟨w, by simp [bareSrc, infNested]⟩
  pos := by simp

theorem inf_fill : ∀ (k : Nat) (b : BIter Unit),
    BIter.fill infNested k b = (List.replicate k 0, .full, { w := (), samplesYielded := b.samplesYielded + k })
  | 0, b => rfl
  | k + 1, b => by
    rw [BIter.fill]
    have : infNested.next b.w = (.item 0, ()) := rfl
    rw [this]
    simp only
    rw [inf_fill k]
    simp [List.replicate_succ, Nat.add_assoc, Nat.add_comm 1 k]

theorem infSrc_batch (bc : BCfg) (hbs : 0 < bc.batchSize) : InfSrc (batchSrc infNested bc id) (.many bc.batchSize) where
  next b := by
    refine ⟨.many (List.replicate bc.batchSize 0), { w := (), samplesYielded := b.samplesYielded + bc.batchSize }, ?_, ?_⟩
    · simp only [batchSrc, BIter.next, inf_fill]
    · simp [Idx.shape]
  load b st y := by
    simp only [batchSrc, BIter.load, infNested]
    have hsk : ∀ (k : Nat) (u : Unit), skipN (fun w : Unit => (Out.item 0, w)) k u = some () := by
      intro k
      induction k with
      | zero => intro u; rfl
      | succ k ih => intro u; rw [skipN]; exact ih ()
    cases h1 : st.2.1 <;> cases h2 : st.2.2 <;> simp [hsk]
  pos := by
    intro h
    have : bc.batchSize = 0 := by injection h
    omega

/-! ### Concrete datasets -/

/-- The README dataset without failures: `Good` = `i` is back at 0; `Pos j` = a generator that has not
started while `i = j`, or one suspended with `idx = i = j`. -/
def readmeLaw (n : Nat) : IterLaw (readme n fun _ => false) (List.range n) where
  Good d := d.i = 0
  Pos d j := (d.fr = .unstarted ∧ d.i = j) ∨ (d.fr = .running ∧ d.idx = j ∧ d.i = j)
  start d h := Or.inl ⟨rfl, h⟩
  step d j hj h := by
    simp only [List.length_range] at hj
    rcases h with ⟨h1, h2⟩ | ⟨h1, h2, h3⟩
    · subst h2
      simp [readme, h1, hj]
    · subst h2
      simp [readme, h1, hj, h3]
  stop d h := by
    simp only [List.length_range] at h
    rcases h with ⟨h1, h2⟩ | ⟨h1, h2, h3⟩
    · subst h2
      simp [readme, h1]
    · subst h2
      simp [readme, h1]

theorem readme_stateLaw (n : Nat) : StateLaw (readme n fun _ => false) (List.range n) (readmeLaw n) where
  stateful := rfl
  resume d d' j h _ := by
    have hi : d.i = j := by
      rcases h with ⟨_, h2⟩ | ⟨_, _, h3⟩
      · exact h2
      · exact h3
    exact Or.inl ⟨rfl, by simp [dRestore, dSave, readme, hi]⟩
  between d d' h _ := by
    simp only [readmeLaw, dRestore, dSave, readme] at h ⊢
    simpa using h

/-- A dataset whose ITERATOR object has the state (its position). -/
def itObjLaw (n : Nat) : IterLaw (itStateObj n fun _ => false) (List.range n) where
  Good _ := True
  Pos d j := d = j
  start _ _ := rfl
  step d j hj h := by
    simp only [List.length_range] at hj
    subst h
    simp [itStateObj, produce, hj]
  stop d h := by
    simp only [List.length_range] at h
    subst h
    simp [itStateObj]

theorem itObj_stateLaw (n : Nat) : StateLaw (itStateObj n fun _ => false) (List.range n) (itObjLaw n) where
  stateful := rfl
  resume d d' j h _ := by
    show dRestore _ d' (dSave _ d) = j
    have hd : d = j := h
    simp [dRestore, dSave, itStateObj, hd]
  between _ _ _ _ := trivial

/-- A plain generator dataset without state: every object is a valid starting point. -/
def plainLaw (n : Nat) : IterLaw (plainGen n fun _ => false) (List.range n) where
  Good _ := True
  Pos d j := d.1 ≠ .dead ∧ d.2 = j
  start _ _ := ⟨by simp [plainGen], rfl⟩
  step d j hj h := by
    simp only [List.length_range] at hj
    obtain ⟨h1, h2⟩ := h
    subst h2
    obtain ⟨fr, i⟩ := d
    cases fr <;> simp_all [plainGen]
  stop d h := by
    simp only [List.length_range] at h
    obtain ⟨h1, h2⟩ := h
    subst h2
    obtain ⟨fr, i⟩ := d
    cases fr <;> simp_all [plainGen]

/-- A dataset that is its own iterator (`iter(dataset) is dataset`): `state_dict()` stores its state only as
the iterator state, and `load_state_dict` restores it after `iter(dataset)`. -/
def selfIterLaw (n : Nat) : IterLaw (selfIterObj n fun _ => false) (List.range n) where
  Good d := d.2 = true ∨ d = (0, false)
  Pos d j := d = (j, false)
  start d h := by
    rcases h with h | h
    · simp [selfIterObj, h]
    · subst h; simp [selfIterObj]
  step d j hj h := by
    simp only [List.length_range] at hj
    subst h
    simp [selfIterObj, produce, hj]
  stop d h := by
    simp only [List.length_range] at h
    subst h
    simp [selfIterObj]

theorem selfIter_stateLaw (n : Nat) : StateLaw (selfIterObj n fun _ => false) (List.range n) (selfIterLaw n) where
  stateful := rfl
  resume d d' j h _ := by
    have hd : d = (j, false) := h
    show dRestore _ d' (dSave _ d) = (j, false)
    simp [dRestore, dSave, selfIterObj, hd]
  between d d' h _ := by
    show (dRestore _ d' (dSave _ d)).2 = true ∨ dRestore _ d' (dSave _ d) = (0, false)
    have : dRestore (selfIterObj n fun _ => false) d' (dSave (selfIterObj n fun _ => false) d) = d := by
      simp [dRestore, dSave, selfIterObj]
    rw [this]
    exact h

/-- The epoch orders of the three sampler kinds (hypothesis `Emits` of `stream_eq_ref_batch/_bare`): a plain
sampler yields its list; a `Stateful` sampler object that is new or has finished an epoch yields its order; a
`RandomSampler` yields `RIter.epoch` of the generator state at `iter()`. -/
theorem sampler_orders :
    (∀ xs r : List Nat, Emits plainNested.next (plainNested.iter (xs, r)) xs) ∧
    (∀ w : ObjS, (w.done = true ∨ w.i = 0) → Emits objNested.next (objNested.iter w) w.order) ∧
    (∀ {G : Type} (R : Gen G) (rc : RCfg) (w : RIter G × G), (∀ g, (getPerm R rc g).1 ≠ []) →
      Emits (randomNested R rc).next ((randomNested R rc).iter w) (RIter.epoch R rc w.2).1) := by
  refine ⟨fun xs _ => pemits xs xs, fun w h => ?_, fun R rc w hne => remits R rc hne w.2⟩
  have key : ∀ w : ObjS, w.i = 0 → Emits objNested.next w w.order := by
    intro w hi
    have := oemits w.order.length w (by omega)
    rw [hi] at this
    simpa using this
  rcases h with h | h
  · have : objNested.iter w = { w with i := 0, done := false } := by simp [objNested, h]
    rw [this]
    exact key _ rfl
  · by_cases hd : w.done = true
    · have : objNested.iter w = { w with i := 0, done := false } := by simp [objNested, hd]
      rw [this]
      exact key _ rfl
    · have : objNested.iter w = w := by simp [objNested, hd]
      rw [this]
      exact key _ h

end TDV.SP
