import TorchDataVerif.Props.PM
import TorchDataVerif.Proofs.RefinePFObs
/-!
# Refinement link, ParallelMapper side: what the consumer of a `TDV.PM` run sees

Same construction as `Proofs/RefinePFObs.lean` for the protocol of `_ParallelMapperIter` (reader, N workers, sorter,
consumer).  A call of `next()` is `cCall` followed by consumer micro-steps; it returns with the micro-step `pmRet` names:
`cPop` (the mapped item), `cIsSet` / `cMpIsSet` with the event set and `cMpSet` (StopIteration), `cRel` of an exception
wrapper (the error re-raised), `cDeadMpSet` (RuntimeError).  `get_state()` is possible at `cpc = idle`.

`pmObs_spec`: in order, thread workers (`proc = false`: no worker dies), StopIteration terminal, total `map_fn`:
from every reachable state, under every interleaving, the results are the closed form `spec` over `src.map f`.
-/
namespace TDV.Refine
open TDV.PM

inductive MEv
  | act (a : Action)
  | getState
  deriving DecidableEq, Repr

/-- the result with which `next()` returns (or raises) if the action `a`, taken in state `s`, ends the call -/
def pmRet (s : State) : Action → Option Res
  | .cIsSet => if s.cpc = .top ∧ s.stop = true then some .stop else none
  | .cMpIsSet => if s.cpc = .mp ∧ s.mpstop = true then some .stop else none
  | .cMpSet => if s.cpc = .set2 then some .stop else none
  | .cRel => match s.cpc with
    | .rel m => if m.pay = .err then some (.error 0) else none
    | _ => none
  | .cPop => match s.cpc with
    | .pop m => (match m.pay with
      | .item y => some (.item y)
      | _ => none)
    | _ => none
  | .cDeadMpSet => if s.cpc = .dset2 then some (.error 1) else none
  | _ => none

def pmEStep (c : Cfg) (s : State) : MEv → Option (State × List Res)
  | .act a => match step c s a with
    | some s' => some (s', (pmRet s a).toList)
    | none => none
  | .getState => if s.cpc = .idle then some (s, [.state s.snap s.steps]) else none

/-- Run a sequence of events; `none` as soon as one is not enabled. -/
def pmObs (c : Cfg) : State → List MEv → Option (State × List Res)
  | s, [] => some (s, [])
  | s, e :: es => match pmEStep c s e with
    | some (s1, r) => (match pmObs c s1 es with
      | some (s2, rs) => some (s2, r ++ rs)
      | none => none)
    | none => none

/-- number of calls of `next()` that have returned -/
def pmCount (s : State) : Nat := s.outs.length + s.nstop + s.errs + s.rterr

theorem pm_run_snoc (c : Cfg) : ∀ (as : List Action) (s s1 s2 : State) (a : Action), run c s as = some s1 →
    step c s1 a = some s2 → run c s (as ++ [a]) = some s2
  | [], s, s1, s2, a, h, hs => by
    simp only [run, Option.some.injEq] at h; subst h
    simp [run, hs]
  | b :: as, s, s1, s2, a, h, hs => by
    simp only [run, List.cons_append] at h ⊢
    cases hb : step c s b with
    | none => simp [hb] at h
    | some s' =>
      simp only [hb] at h ⊢
      exact pm_run_snoc c as s' s1 s2 a h hs

theorem pm_reachable_step {c : Cfg} {s s' : State} (h : Reachable c s) (a : Action) (hs : step c s a = some s') :
    Reachable c s' := by
  obtain ⟨as, hr⟩ := h
  exact ⟨as ++ [a], pm_run_snoc c as _ _ _ a hr hs⟩

/-- the consumer's history: what the counters of returned calls are computed from -/
def Hist (s : State) : List Nat × Nat × Nat × Nat := (s.outs, s.nstop, s.errs, s.rterr)

/-- reader, worker and sorter steps do not touch the consumer's history -/
theorem pm_bg_hist {c : Cfg} {s s' : State} {a : Action} (hb : a.isBackground = true) (h : step c s a = some s') :
    Hist s' = Hist s := by
  cases a <;> simp [Action.isBackground] at hb <;> simp only [step] at h
  case rInit => obtain ⟨_, rfl⟩ := spec_rInit.mp h; rfl
  case rIsSet => obtain ⟨_, rfl⟩ := spec_rIsSet.mp h; rfl
  case rAcq => obtain ⟨_, _, rfl⟩ := spec_rAcq.mp h; rfl
  case rAcqT => obtain ⟨_, _, rfl⟩ := spec_rAcqT.mp h; rfl
  case rEnter => obtain ⟨_, rfl⟩ := spec_rEnter.mp h; rfl
  case rLeave => obtain ⟨_, rfl⟩ := spec_rLeave.mp h; split <;> rfl
  case rAppend => obtain ⟨v, i, _, rfl⟩ := spec_rAppend.mp h; rfl
  case rPut => obtain ⟨m, _, rfl⟩ := spec_rPut.mp h; rfl
  case rRet => obtain ⟨_, rfl⟩ := spec_rRet.mp h; rfl
  case wIsSet i => obtain ⟨_, rfl⟩ := (spec_wIsSet i).mp h; rfl
  case wEmpty i => obtain ⟨_, rfl⟩ := (spec_wEmpty i).mp h; rfl
  case wGet i => obtain ⟨m, rest, _, _, rfl⟩ := (spec_wGet i).mp h; rfl
  case wGetT i => obtain ⟨_, _, rfl⟩ := (spec_wGetT i).mp h; rfl
  case wPut i => obtain ⟨m, _, rfl⟩ := (spec_wPut i).mp h; rfl
  case wDie i =>
    obtain ⟨_, hh⟩ := (spec_wDie i).mp h
    rcases hh with ⟨m, _, rfl⟩ | ⟨_, rfl⟩ <;> rfl
  case sIsSet => obtain ⟨_, rfl⟩ := spec_sIsSet.mp h; rfl
  case sGet => obtain ⟨m, rest, _, _, rfl⟩ := spec_sGet.mp h; rfl
  case sGetT => obtain ⟨_, _, rfl⟩ := spec_sGetT.mp h; rfl
  case sHave =>
    obtain ⟨m, _, rfl⟩ := spec_sHave.mp h
    split
    · rfl
    · split <;> rfl
  case sDrain =>
    obtain ⟨_, rfl⟩ := spec_sDrain.mp h
    cases bufTake s.cur s.buf with
    | none => rfl
    | some p => rfl

/-- an action that does not end a call of `next()` leaves the consumer's history alone -/
theorem pm_silent {c : Cfg} {s s' : State} (a : Action) (hs : step c s a = some s') (hn : pmRet s a = none) :
    Hist s' = Hist s := by
  by_cases hb : a.isBackground = true
  · exact pm_bg_hist hb hs
  · cases a <;> simp [Action.isBackground] at hb <;> simp only [step] at hs
    case cBoot => obtain ⟨_, _, rfl⟩ := spec_cBoot.mp hs; rfl
    case cBootT => obtain ⟨_, _, rfl⟩ := spec_cBootT.mp hs; rfl
    case cCall => obtain ⟨_, rfl⟩ := spec_cCall.mp hs; rfl
    case cIsSet =>
      obtain ⟨hc, rfl⟩ := spec_cIsSet.mp hs
      cases hst : s.stop <;> simp [pmRet, hc, hst] at hn ⊢
      rfl
    case cMpIsSet =>
      obtain ⟨hc, rfl⟩ := spec_cMpIsSet.mp hs
      cases hst : s.mpstop <;> simp [pmRet, hc, hst] at hn ⊢
      rfl
    case cChk => obtain ⟨_, rfl⟩ := spec_cChk.mp hs; rfl
    case cSet => obtain ⟨_, rfl⟩ := spec_cSet.mp hs; rfl
    case cMpSet =>
      obtain ⟨hc, rfl⟩ := spec_cMpSet.mp hs
      simp [pmRet, hc] at hn
    case cGet =>
      obtain ⟨m, rest, _, _, rfl⟩ := spec_cGet.mp hs
      cases hio : c.inOrder <;> cases hp : m.pay <;> simp [setOutq, hio, Hist]
    case cGetT => obtain ⟨_, _, rfl⟩ := spec_cGetT.mp hs; rfl
    case cRel =>
      obtain ⟨m, hc, _, rfl⟩ := spec_cRel.mp hs
      cases hp : m.pay <;> simp [pmRet, hc, hp] at hn ⊢ <;> rfl
    case cPop =>
      obtain ⟨m, y, hc, hp, rfl⟩ := spec_cPop.mp hs
      simp [pmRet, hc, hp] at hn
    case cDeadIsSet => obtain ⟨_, rfl⟩ := spec_cDeadIsSet.mp hs; rfl
    case cDeadMpIsSet => obtain ⟨_, rfl⟩ := spec_cDeadMpIsSet.mp hs; rfl
    case cDeadSet => obtain ⟨_, rfl⟩ := spec_cDeadSet.mp hs; rfl
    case cDeadMpSet =>
      obtain ⟨hc, rfl⟩ := spec_cDeadMpSet.mp hs
      simp [pmRet, hc] at hn
    case cShutSet => obtain ⟨_, rfl⟩ := spec_cShutSet.mp hs; rfl
    case cShutMpSet => obtain ⟨_, rfl⟩ := spec_cShutMpSet.mp hs; rfl

/-- with thread workers (`method="thread"`, `proc = false`) no worker ever dies -/
theorem pm_noDead_step {c : Cfg} {s s' : State} (hp : c.proc = false) (a : Action) (hs : step c s a = some s')
    (hd : NoDead s) : NoDead s' := by
  have hset : ∀ (i : Nat) (x : WPc), x ≠ .dead → NoDead { s with wk := s.wk.set i x } := by
    intro i x hx p hp
    rcases mem_set_of hp with rfl | h
    · exact hx
    · exact hd p h
  cases a <;> simp only [step] at hs
  case rInit => obtain ⟨_, rfl⟩ := spec_rInit.mp hs; exact hd
  case rIsSet => obtain ⟨_, rfl⟩ := spec_rIsSet.mp hs; exact hd
  case rAcq => obtain ⟨_, _, rfl⟩ := spec_rAcq.mp hs; exact hd
  case rAcqT => obtain ⟨_, _, rfl⟩ := spec_rAcqT.mp hs; exact hd
  case rEnter => obtain ⟨_, rfl⟩ := spec_rEnter.mp hs; exact hd
  case rLeave => obtain ⟨_, rfl⟩ := spec_rLeave.mp hs; split <;> exact hd
  case rAppend => obtain ⟨v, i, _, rfl⟩ := spec_rAppend.mp hs; exact hd
  case rPut => obtain ⟨m, _, rfl⟩ := spec_rPut.mp hs; exact hd
  case rRet => obtain ⟨_, rfl⟩ := spec_rRet.mp hs; exact hd
  case wIsSet i =>
    obtain ⟨_, rfl⟩ := (spec_wIsSet i).mp hs
    apply hset
    generalize (if c.proc = true then s.mpstop else s.stop) = b
    cases b <;> simp
  case wEmpty i =>
    obtain ⟨_, rfl⟩ := (spec_wEmpty i).mp hs
    apply hset
    cases s.inq.isEmpty <;> simp
  case wGet i =>
    obtain ⟨m, rest, _, _, rfl⟩ := (spec_wGet i).mp hs
    exact hset i _ (by simp)
  case wGetT i =>
    obtain ⟨_, _, rfl⟩ := (spec_wGetT i).mp hs
    exact hset i _ (by simp)
  case wPut i =>
    obtain ⟨m, _, rfl⟩ := (spec_wPut i).mp hs
    exact hset i _ (by simp)
  case wDie i =>
    obtain ⟨h1, _⟩ := (spec_wDie i).mp hs
    rw [hp] at h1; cases h1
  case sIsSet => obtain ⟨_, rfl⟩ := spec_sIsSet.mp hs; exact hd
  case sGet => obtain ⟨m, rest, _, _, rfl⟩ := spec_sGet.mp hs; exact hd
  case sGetT => obtain ⟨_, _, rfl⟩ := spec_sGetT.mp hs; exact hd
  case sHave =>
    obtain ⟨m, _, rfl⟩ := spec_sHave.mp hs
    split
    · exact hd
    · split <;> exact hd
  case sDrain =>
    obtain ⟨_, rfl⟩ := spec_sDrain.mp hs
    cases bufTake s.cur s.buf with
    | none => exact hd
    | some p => exact hd
  case cBoot => obtain ⟨_, _, rfl⟩ := spec_cBoot.mp hs; exact hd
  case cBootT => obtain ⟨_, _, rfl⟩ := spec_cBootT.mp hs; exact hd
  case cCall => obtain ⟨_, rfl⟩ := spec_cCall.mp hs; exact hd
  case cIsSet => obtain ⟨_, rfl⟩ := spec_cIsSet.mp hs; split <;> exact hd
  case cMpIsSet => obtain ⟨_, rfl⟩ := spec_cMpIsSet.mp hs; split <;> exact hd
  case cChk => obtain ⟨_, rfl⟩ := spec_cChk.mp hs; exact hd
  case cSet => obtain ⟨_, rfl⟩ := spec_cSet.mp hs; exact hd
  case cMpSet => obtain ⟨_, rfl⟩ := spec_cMpSet.mp hs; exact hd
  case cGet =>
    obtain ⟨m, rest, _, _, rfl⟩ := spec_cGet.mp hs
    cases hio : c.inOrder <;> cases hpay : m.pay <;> simpa [setOutq, hio, NoDead] using hd
  case cGetT => obtain ⟨_, _, rfl⟩ := spec_cGetT.mp hs; exact hd
  case cRel => obtain ⟨m, _, _, rfl⟩ := spec_cRel.mp hs; cases m.pay <;> exact hd
  case cPop => obtain ⟨m, y, _, _, rfl⟩ := spec_cPop.mp hs; exact hd
  case cDeadIsSet => obtain ⟨_, rfl⟩ := spec_cDeadIsSet.mp hs; exact hd
  case cDeadMpIsSet => obtain ⟨_, rfl⟩ := spec_cDeadMpIsSet.mp hs; exact hd
  case cDeadSet => obtain ⟨_, rfl⟩ := spec_cDeadSet.mp hs; exact hd
  case cDeadMpSet => obtain ⟨_, rfl⟩ := spec_cDeadMpSet.mp hs; exact hd
  case cShutSet => obtain ⟨_, rfl⟩ := spec_cShutSet.mp hs; exact hd
  case cShutMpSet => obtain ⟨_, rfl⟩ := spec_cShutMpSet.mp hs; exact hd

theorem pm_noDead_run {c : Cfg} (hp : c.proc = false) : ∀ (as : List Action) (s s' : State), NoDead s →
    run c s as = some s' → NoDead s'
  | [], s, s', hd, hr => by simp only [run, Option.some.injEq] at hr; subst hr; exact hd
  | a :: as, s, s', hd, hr => by
    simp only [run] at hr
    cases hs : step c s a with
    | none => simp [hs] at hr
    | some s1 =>
      simp only [hs] at hr
      exact pm_noDead_run hp as s1 s' (pm_noDead_step hp a hs hd) hr

theorem pm_noDead {c : Cfg} {s : State} (hp : c.proc = false) (h : Reachable c s) : NoDead s := by
  obtain ⟨as, hr⟩ := h
  refine pm_noDead_run hp as _ _ ?_ hr
  intro p hp'
  simp only [init, List.mem_replicate] at hp'
  rw [hp'.2]; simp

/-! ## the consumer's history under the hypotheses of the link -/

/-- in order, thread workers, StopIteration terminal, `map_fn = f` total -/
structure Total (c : Cfg) (f : Nat → Nat) : Prop where
  inOrder : c.inOrder = true
  proc : c.proc = false
  term : c.term = .stop
  fn : ∀ v, c.fn v = some (f v)

theorem refOut_total {c : Cfg} {f : Nat → Nat} (H : Total c f) : refOut c = c.src.map f := by
  unfold refOut
  have : c.fn = fun v => some (f v) := funext H.fn
  rw [this]
  induction c.src with
  | nil => rfl
  | cons a l ih => simp [ih]

theorem jstar_pf_pm (f m : Nat) : PF.jstar f m = PM.jstar f m := by
  unfold PM.jstar
  rcases Nat.eq_zero_or_pos f with h0 | h0
  · subst h0; rw [PF.jstar_zero]; simp
  · exact PF.jstar_closed f m h0

theorem pm_outs_take {c : Cfg} {f : Nat → Nat} (H : Total c f) {s : State} (h : Reachable c s) :
    s.outs = (c.src.map f).take s.outs.length ∧ s.outs.length ≤ c.src.length := by
  have hp := delivered_prefix_total c s h H.inOrder f H.fn
  refine ⟨List.prefix_iff_eq_take.mp hp, ?_⟩
  have := hp.length_le
  simpa using this

theorem pm_outs_end {c : Cfg} {f : Nat → Nat} (H : Total c f) {s : State} (h : Reachable c s) (hn : 0 < s.nstop) :
    s.outs = c.src.map f := by
  have := (complete c s h hn (pm_noDead H.proc h)).2.2.2.2.2.1 H.inOrder
  rw [this, refOut_total H]

theorem pm_rterr_zero {c : Cfg} {f : Nat → Nat} (H : Total c f) {s : State} (h : Reachable c s) : s.rterr = 0 := by
  cases hr : s.rterr with
  | zero => rfl
  | succ k =>
    have hd := runtime_error_sound c s h (Or.inr (Or.inr (Or.inr (Or.inr (by omega)))))
    exact absurd rfl (pm_noDead H.proc h _ hd)

theorem pm_errs_zero {c : Cfg} {f : Nat → Nat} (H : Total c f) {s : State} (h : Reachable c s) : s.errs = 0 := by
  have hi := inv_reachable h
  have hg := order_got hi H.inOrder
  have hl := hi.lenEq
  have ho := (delivered_prefix c s h H.inOrder).2.1
  have hfm : ∀ l : List Nat, l.filterMap c.fn = l.map f := by
    intro l
    have : c.fn = fun v => some (f v) := funext H.fn
    rw [this]
    induction l with
    | nil => rfl
    | cons a l ih => simp [ih]
  rw [hfm] at ho
  have hlen : s.outs.length = min s.got.length c.src.length := by rw [ho]; simp
  have h2 : s.got.length ≤ s.pulled := by
    rcases Nat.eq_zero_or_pos s.got.length with h0 | h0
    · omega
    · have hm : s.got.length - 1 ∈ s.got := by rw [hg]; simp; omega
      have := cnt_ge_got hm
      have hc := hi.cnt (s.got.length - 1)
      split at hc <;> omega
  have h3 := hi.pulledLe
  simp only [H.term, if_true] at hl
  rw [hg, count_range] at hl
  simp only [List.length_range] at hl
  split at hl <;> omega

theorem pmCount_eq {c : Cfg} {f : Nat → Nat} (H : Total c f) {s : State} (h : Reachable c s) :
    pmCount s = s.outs.length + s.nstop := by
  simp only [pmCount, pm_errs_zero H h, pm_rterr_zero H h, Nat.add_zero]

/-- after StopIteration the count of returned calls is at least the length of the source -/
theorem pm_count_end {c : Cfg} {f : Nat → Nat} (H : Total c f) {s : State} (h : Reachable c s) (hn : 0 < s.nstop) :
    nextRes (c.src.map f) (pmCount s) = .stop := by
  have := pm_outs_end H h hn
  have hc : (c.src.map f).length ≤ pmCount s := by
    rw [pmCount_eq H h, this]; omega
  simp [nextRes, List.getElem?_eq_none hc]

/-- a call of `next()` returns what the closed form says, whatever reader, workers and sorter did in the meantime -/
theorem pm_return {c : Cfg} {f : Nat → Nat} (H : Total c f) {s s' : State} (h : Reachable c s) (a : Action)
    (hs : step c s a = some s') (x : Res) (hx : pmRet s a = some x) :
    pmCount s' = pmCount s + 1 ∧ x = nextRes (c.src.map f) (pmCount s) := by
  have h' := pm_reachable_step h a hs
  have hstop : s'.outs = s.outs → s'.nstop = s.nstop + 1 → x = .stop →
      pmCount s' = pmCount s + 1 ∧ x = nextRes (c.src.map f) (pmCount s) := by
    intro h1 h2 h3
    have hc' := pmCount_eq H h'
    have hc := pmCount_eq H h
    have he := pm_outs_end H h' (by omega)
    refine ⟨by rw [hc', hc, h1, h2]; omega, ?_⟩
    have hge : (c.src.map f).length ≤ pmCount s := by rw [hc, ← h1, he]; omega
    rw [h3]; simp [nextRes, List.getElem?_eq_none hge]
  cases a <;> simp only [pmRet] at hx <;> try (cases hx; done)
  case cIsSet =>
    split at hx
    · rename_i hc
      cases hx
      simp only [step] at hs
      obtain ⟨_, rfl⟩ := spec_cIsSet.mp hs
      simp only [hc.2, if_true] at hstop ⊢
      exact hstop trivial trivial trivial
    · cases hx
  case cMpIsSet =>
    split at hx
    · rename_i hc
      cases hx
      simp only [step] at hs
      obtain ⟨_, rfl⟩ := spec_cMpIsSet.mp hs
      simp only [hc.2, if_true] at hstop ⊢
      exact hstop trivial trivial trivial
    · cases hx
  case cMpSet =>
    split at hx
    · cases hx
      simp only [step] at hs
      obtain ⟨_, rfl⟩ := spec_cMpSet.mp hs
      exact hstop rfl rfl rfl
    · cases hx
  case cRel =>
    split at hx
    · rename_i m hc
      split at hx
      · rename_i hp
        rcases (error_after_prefix c s h H.inOrder m hc hp).2 with ⟨v, _, hv⟩ | ⟨_, ht⟩
        · rw [H.fn v] at hv; cases hv
        · rw [H.term] at ht; cases ht
      · cases hx
    · cases hx
  case cDeadMpSet =>
    split at hx
    · simp only [step] at hs
      obtain ⟨_, rfl⟩ := spec_cDeadMpSet.mp hs
      have := pm_rterr_zero H h'
      simp at this
    · cases hx
  case cPop =>
    simp only [step] at hs
    obtain ⟨m, y, hc, hp, rfl⟩ := spec_cPop.mp hs
    simp only [hc, hp, Option.some.injEq] at hx
    subst hx
    have ht' := pm_outs_take H h'
    simp only [List.length_append, List.length_singleton] at ht'
    have hz : s.nstop = 0 := by
      rcases Nat.eq_zero_or_pos s.nstop with h0 | h0
      · exact h0
      · have := pm_outs_end H h h0
        have hl := congrArg List.length this
        simp only [List.length_map] at hl
        omega
    have hc' := pmCount_eq H h'
    have hc0 := pmCount_eq H h
    simp only [List.length_append, List.length_singleton] at hc'
    refine ⟨by rw [hc', hc0]; omega, ?_⟩
    have h1 : (s.outs ++ [y])[s.outs.length]? = some y := by simp
    rw [ht'.1, List.getElem?_take] at h1
    have h2 : (c.src.map f)[s.outs.length]? = some y := by simpa using h1
    rw [hc0, hz, Nat.add_zero]
    simp [nextRes, h2]

/-- `get_state()` between two calls of `next()` returns the closed form of the number of calls that returned -/
theorem pm_getState {c : Cfg} {f : Nat → Nat} (H : Total c f) {s : State} (h : Reachable c s) (hidle : s.cpc = .idle) :
    s.snap = c.base + PF.jstar c.f (min (pmCount s) c.src.length) ∧
    s.steps = min (pmCount s) c.src.length - PF.jstar c.f (min (pmCount s) c.src.length) := by
  have hm : min (pmCount s) c.src.length = s.outs.length := by
    have hle := (pm_outs_take H h).2
    rw [pmCount_eq H h]
    rcases Nat.eq_zero_or_pos s.nstop with h0 | h0
    · omega
    · have := congrArg List.length (pm_outs_end H h h0)
      simp only [List.length_map] at this
      omega
  rw [hm, jstar_pf_pm]
  have := state_tracks_consumer c s h H.inOrder (pm_errs_zero H h) hidle
  simp only [getState, Prod.mk.injEq] at this
  exact this

/-- **ParallelMapper protocol = closed form.**  From every reachable state, for every sequence of events (every
interleaving of reader, worker, sorter steps, consumer micro-steps, timeouts and `get_state()` calls), the results of the
consumer operations that returned are the closed form `spec` over the mapped source. -/
theorem pmObs_spec {c : Cfg} {f : Nat → Nat} (H : Total c f) : ∀ (evs : List MEv) (s s2 : State) (obs : List Res),
    Reachable c s → pmObs c s evs = some (s2, obs) →
    Reachable c s2 ∧
      obs.map Res.toS = spec c.f c.base ((c.src.map f).map Node.Item.atom) (pmCount s) (obs.map Res.op)
  | [], s, s2, obs, h, ho => by
    simp only [pmObs, Option.some.injEq, Prod.mk.injEq] at ho
    obtain ⟨rfl, rfl⟩ := ho
    exact ⟨h, rfl⟩
  | e :: es, s, s2, obs, h, ho => by
    simp only [pmObs] at ho
    cases he : pmEStep c s e with
    | none => simp [he] at ho
    | some p =>
      obtain ⟨s1, r⟩ := p
      simp only [he] at ho
      cases hr : pmObs c s1 es with
      | none => simp [hr] at ho
      | some q =>
        obtain ⟨s2', rs⟩ := q
        simp only [hr, Option.some.injEq, Prod.mk.injEq] at ho
        obtain ⟨rfl, rfl⟩ := ho
        cases e with
        | getState =>
          simp only [pmEStep] at he
          split at he
          · rename_i hidle
            simp only [Option.some.injEq, Prod.mk.injEq] at he
            obtain ⟨rfl, rfl⟩ := he
            have ih := pmObs_spec H es s s2' rs h hr
            refine ⟨ih.1, ?_⟩
            have hg := pm_getState H h hidle
            simp only [List.singleton_append, List.map_cons, Res.op, Res.toS, spec, List.length_map]
            rw [← hg.1, ← hg.2, ih.2]
          · cases he
        | act a =>
          simp only [pmEStep] at he
          cases hs : step c s a with
          | none => simp [hs] at he
          | some s1' =>
            simp only [hs, Option.some.injEq, Prod.mk.injEq] at he
            obtain ⟨rfl, rfl⟩ := he
            have h1 := pm_reachable_step h a hs
            have ih := pmObs_spec H es s1' s2' rs h1 hr
            refine ⟨ih.1, ?_⟩
            cases hx : pmRet s a with
            | none =>
              have hsil := pm_silent a hs hx
              simp only [Hist, Prod.mk.injEq] at hsil
              have hc : pmCount s1' = pmCount s := by
                simp only [pmCount, hsil.1, hsil.2.1, hsil.2.2.1, hsil.2.2.2]
              simpa [hc] using ih.2
            | some x =>
              have hret := pm_return H h a hs x hx
              have hop : x.op = .next := by
                rw [hret.2]; simp only [nextRes]; cases (c.src.map f)[pmCount s]? <;> rfl
              simp only [Option.toList, List.singleton_append, List.map_cons, hop, spec]
              rw [ih.2, hret.1, hret.2, nextRes_toS]

/-- The configuration of one `_ParallelMapperIter` generation (in order, thread workers) over the source list `l` with
the total `map_fn` `f`: `reset(None)` is `j = 0`; a generation created by `reset((j, k))` has the source reset to
position `j`. -/
def pmCfg (N max sf : Nat) (l : List Nat) (f : Nat → Nat) (j : Nat) : Cfg :=
  { N := N, max := max, f := sf, inOrder := true, proc := false, src := l.drop j, term := .stop,
    fn := fun v => some (f v), base := j }

theorem pmCfg_total (N max sf : Nat) (l : List Nat) (f : Nat → Nat) (j : Nat) : Total (pmCfg N max sf l f j) f :=
  ⟨rfl, rfl, rfl, fun _ => rfl⟩

/-- events of a whole run from the start of the generation -/
def pmRunObs (N max sf : Nat) (l : List Nat) (f : Nat → Nat) (j : Nat) (evs : List MEv) : Option (State × List Res) :=
  pmObs (pmCfg N max sf l f j) (init (pmCfg N max sf l f j)) evs

theorem pmRunObs_spec {N max sf : Nat} {l : List Nat} {f : Nat → Nat} {j : Nat} {evs : List MEv} {s : State}
    {obs : List Res} (h : pmRunObs N max sf l f j evs = some (s, obs)) :
    obs.map Res.toS = spec sf j (((l.drop j).map f).map Node.Item.atom) 0 (obs.map Res.op) :=
  (pmObs_spec (pmCfg_total N max sf l f j) evs _ s obs ⟨[], rfl⟩ h).2

end TDV.Refine
