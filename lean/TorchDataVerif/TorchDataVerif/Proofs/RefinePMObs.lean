import TorchDataVerif.Props.PM
import TorchDataVerif.Proofs.RefinePFSeq
/-!
# Refinement link, ParallelMapper side: what the consumer of a `TDV.PM` run sees

Same construction as `Proofs/RefinePFObs.lean` for the protocol of `_ParallelMapperIter` (reader, N workers, sorter,
consumer).  A call of `next()` is `cCall` followed by consumer micro-steps; it returns with the micro-step `pmRet` names:
`cPop` (the mapped item), `cIsSet` / `cMpIsSet` with the event set and `cMpSet` (StopIteration), `cRel` of an exception
wrapper (the error re-raised), `cDeadMpSet` (RuntimeError).  `get_state()` is possible at `cpc = idle`.

`pmObs_spec`: in order, thread workers (`proc = false`: no worker dies), StopIteration terminal, total `map_fn`:
from every reachable state, under every interleaving, the results are the closed form `spec` over `src.map f`.
-/
namespace TDV.Refine
open TDV.PM

inductive MEv
  | act (a : Action)
  | getState
  deriving DecidableEq, Repr

/-- the result with which `next()` returns (or raises) if the action `a`, taken in state `s`, ends the call -/
def pmRet (s : State) : Action → Option Res
  | .cIsSet => if s.cpc = .top ∧ s.stop = true then some .stop else none
  | .cMpIsSet => if s.cpc = .mp ∧ s.mpstop = true then some .stop else none
  | .cMpSet => if s.cpc = .set2 then some .stop else none
  | .cRel => match s.cpc with
    | .rel m => if m.pay = .err then some (.error 0) else none
    | _ => none
  | .cPop => match s.cpc with
    | .pop m => (match m.pay with
      | .item y => some (.item y)
      | _ => none)
    | _ => none
  | .cDeadMpSet => if s.cpc = .dset2 then some (.error 1) else none
  | _ => none

def pmEStep (c : Cfg) (s : State) : MEv → Option (State × List Res)
  | .act a => match step c s a with
    | some s' => some (s', (pmRet s a).toList)
    | none => none
  | .getState => if s.cpc = .idle then some (s, [.state s.snap s.steps]) else none

/-- Run a sequence of events; `none` as soon as one is not enabled. -/
def pmObs (c : Cfg) : State → List MEv → Option (State × List Res)
  | s, [] => some (s, [])
  | s, e :: es => match pmEStep c s e with
    | some (s1, r) => (match pmObs c s1 es with
      | some (s2, rs) => some (s2, r ++ rs)
      | none => none)
    | none => none

/-- number of calls of `next()` that have returned -/
def pmCount (s : State) : Nat := s.outs.length + s.nstop + s.errs + s.rterr

theorem pm_run_snoc (c : Cfg) : ∀ (as : List Action) (s s1 s2 : State) (a : Action), run c s as = some s1 →
    step c s1 a = some s2 → run c s (as ++ [a]) = some s2
  | [], s, s1, s2, a, h, hs => by
    simp only [run, Option.some.injEq] at h; subst h
    simp [run, hs]
  | b :: as, s, s1, s2, a, h, hs => by
    simp only [run, List.cons_append] at h ⊢
    cases hb : step c s b with
    | none => simp [hb] at h
    | some s' =>
      simp only [hb] at h ⊢
      exact pm_run_snoc c as s' s1 s2 a h hs

theorem pm_reachable_step {c : Cfg} {s s' : State} (h : Reachable c s) (a : Action) (hs : step c s a = some s') :
    Reachable c s' := by
  obtain ⟨as, hr⟩ := h
  exact ⟨as ++ [a], pm_run_snoc c as _ _ _ a hr hs⟩

/-- the consumer's history: what the counters of returned calls are computed from -/
def Hist (s : State) : List Nat × Nat × Nat × Nat := (s.outs, s.nstop, s.errs, s.rterr)

/-- reader, worker and sorter steps do not touch the consumer's history -/
theorem pm_bg_hist {c : Cfg} {s s' : State} {a : Action} (hb : a.isBackground = true) (h : step c s a = some s') :
    Hist s' = Hist s := by
  cases a <;> simp [Action.isBackground] at hb <;> simp only [step] at h
  case rInit => obtain ⟨_, rfl⟩ := spec_rInit.mp h; rfl
  case rIsSet => obtain ⟨_, rfl⟩ := spec_rIsSet.mp h; rfl
  case rAcq => obtain ⟨_, _, rfl⟩ := spec_rAcq.mp h; rfl
  case rAcqT => obtain ⟨_, _, rfl⟩ := spec_rAcqT.mp h; rfl
  case rEnter => obtain ⟨_, rfl⟩ := spec_rEnter.mp h; rfl
  case rLeave => obtain ⟨_, rfl⟩ := spec_rLeave.mp h; split <;> rfl
  case rAppend => obtain ⟨v, i, _, rfl⟩ := spec_rAppend.mp h; rfl
  case rPut => obtain ⟨m, _, rfl⟩ := spec_rPut.mp h; rfl
  case rRet => obtain ⟨_, rfl⟩ := spec_rRet.mp h; rfl
  case wIsSet i => obtain ⟨_, rfl⟩ := (spec_wIsSet i).mp h; rfl
  case wEmpty i => obtain ⟨_, rfl⟩ := (spec_wEmpty i).mp h; rfl
  case wGet i => obtain ⟨m, rest, _, _, rfl⟩ := (spec_wGet i).mp h; rfl
  case wGetT i => obtain ⟨_, _, rfl⟩ := (spec_wGetT i).mp h; rfl
  case wPut i => obtain ⟨m, _, rfl⟩ := (spec_wPut i).mp h; rfl
  case wDie i =>
    obtain ⟨_, hh⟩ := (spec_wDie i).mp h
    rcases hh with ⟨m, _, rfl⟩ | ⟨_, rfl⟩ <;> rfl
  case sIsSet => obtain ⟨_, rfl⟩ := spec_sIsSet.mp h; rfl
  case sGet => obtain ⟨m, rest, _, _, rfl⟩ := spec_sGet.mp h; rfl
  case sGetT => obtain ⟨_, _, rfl⟩ := spec_sGetT.mp h; rfl
  case sHave =>
    obtain ⟨m, _, rfl⟩ := spec_sHave.mp h
    split
    · rfl
    · split <;> rfl
  case sDrain =>
    obtain ⟨_, rfl⟩ := spec_sDrain.mp h
    cases bufTake s.cur s.buf with
    | none => rfl
    | some p => rfl

/-- an action that does not end a call of `next()` leaves the consumer's history alone -/
theorem pm_silent {c : Cfg} {s s' : State} (a : Action) (hs : step c s a = some s') (hn : pmRet s a = none) :
    Hist s' = Hist s := by
  by_cases hb : a.isBackground = true
  · exact pm_bg_hist hb hs
  · cases a <;> simp [Action.isBackground] at hb <;> simp only [step] at hs
    case cBoot => obtain ⟨_, _, rfl⟩ := spec_cBoot.mp hs; rfl
    case cBootT => obtain ⟨_, _, rfl⟩ := spec_cBootT.mp hs; rfl
    case cCall => obtain ⟨_, rfl⟩ := spec_cCall.mp hs; rfl
    case cIsSet =>
      obtain ⟨hc, rfl⟩ := spec_cIsSet.mp hs
      cases hst : s.stop <;> simp [pmRet, hc, hst] at hn ⊢
      rfl
    case cMpIsSet =>
      obtain ⟨hc, rfl⟩ := spec_cMpIsSet.mp hs
      cases hst : s.mpstop <;> simp [pmRet, hc, hst] at hn ⊢
      rfl
    case cChk => obtain ⟨_, rfl⟩ := spec_cChk.mp hs; rfl
    case cSet => obtain ⟨_, rfl⟩ := spec_cSet.mp hs; rfl
    case cMpSet =>
      obtain ⟨hc, rfl⟩ := spec_cMpSet.mp hs
      simp [pmRet, hc] at hn
    case cGet =>
      obtain ⟨m, rest, _, _, rfl⟩ := spec_cGet.mp hs
      cases hio : c.inOrder <;> cases hp : m.pay <;> simp [setOutq, hio, Hist]
    case cGetT => obtain ⟨_, _, rfl⟩ := spec_cGetT.mp hs; rfl
    case cRel =>
      obtain ⟨m, hc, _, rfl⟩ := spec_cRel.mp hs
      cases hp : m.pay <;> simp [pmRet, hc, hp] at hn ⊢ <;> rfl
    case cPop =>
      obtain ⟨m, y, hc, hp, rfl⟩ := spec_cPop.mp hs
      simp [pmRet, hc, hp] at hn
    case cDeadIsSet => obtain ⟨_, rfl⟩ := spec_cDeadIsSet.mp hs; rfl
    case cDeadMpIsSet => obtain ⟨_, rfl⟩ := spec_cDeadMpIsSet.mp hs; rfl
    case cDeadSet => obtain ⟨_, rfl⟩ := spec_cDeadSet.mp hs; rfl
    case cDeadMpSet =>
      obtain ⟨hc, rfl⟩ := spec_cDeadMpSet.mp hs
      simp [pmRet, hc] at hn
    case cShutSet => obtain ⟨_, rfl⟩ := spec_cShutSet.mp hs; rfl
    case cShutMpSet => obtain ⟨_, rfl⟩ := spec_cShutMpSet.mp hs; rfl

/-- with thread workers (`method="thread"`, `proc = false`) no worker ever dies -/
theorem pm_noDead_step {c : Cfg} {s s' : State} (hp : c.proc = false) (a : Action) (hs : step c s a = some s')
    (hd : NoDead s) : NoDead s' := by
  have hset : ∀ (i : Nat) (x : WPc), x ≠ .dead → NoDead { s with wk := s.wk.set i x } := by
    intro i x hx p hp
    rcases mem_set_of hp with rfl | h
    · exact hx
    · exact hd p h
  cases a <;> simp only [step] at hs
  case rInit => obtain ⟨_, rfl⟩ := spec_rInit.mp hs; exact hd
  case rIsSet => obtain ⟨_, rfl⟩ := spec_rIsSet.mp hs; exact hd
  case rAcq => obtain ⟨_, _, rfl⟩ := spec_rAcq.mp hs; exact hd
  case rAcqT => obtain ⟨_, _, rfl⟩ := spec_rAcqT.mp hs; exact hd
  case rEnter => obtain ⟨_, rfl⟩ := spec_rEnter.mp hs; exact hd
  case rLeave => obtain ⟨_, rfl⟩ := spec_rLeave.mp hs; split <;> exact hd
  case rAppend => obtain ⟨v, i, _, rfl⟩ := spec_rAppend.mp hs; exact hd
  case rPut => obtain ⟨m, _, rfl⟩ := spec_rPut.mp hs; exact hd
  case rRet => obtain ⟨_, rfl⟩ := spec_rRet.mp hs; exact hd
  case wIsSet i =>
    obtain ⟨_, rfl⟩ := (spec_wIsSet i).mp hs
    apply hset; split <;> simp
  case wEmpty i =>
    obtain ⟨_, rfl⟩ := (spec_wEmpty i).mp hs
    apply hset; split <;> simp
  case wGet i =>
    obtain ⟨m, rest, _, _, rfl⟩ := (spec_wGet i).mp hs
    exact hset i _ (by simp)
  case wGetT i =>
    obtain ⟨_, _, rfl⟩ := (spec_wGetT i).mp hs
    exact hset i _ (by simp)
  case wPut i =>
    obtain ⟨m, _, rfl⟩ := (spec_wPut i).mp hs
    exact hset i _ (by simp)
  case wDie i =>
    obtain ⟨h1, _⟩ := (spec_wDie i).mp hs
    rw [hp] at h1; cases h1
  case sIsSet => obtain ⟨_, rfl⟩ := spec_sIsSet.mp hs; exact hd
  case sGet => obtain ⟨m, rest, _, _, rfl⟩ := spec_sGet.mp hs; exact hd
  case sGetT => obtain ⟨_, _, rfl⟩ := spec_sGetT.mp hs; exact hd
  case sHave =>
    obtain ⟨m, _, rfl⟩ := spec_sHave.mp hs
    split
    · exact hd
    · split <;> exact hd
  case sDrain =>
    obtain ⟨_, rfl⟩ := spec_sDrain.mp hs
    cases bufTake s.cur s.buf with
    | none => exact hd
    | some p => exact hd
  case cBoot => obtain ⟨_, _, rfl⟩ := spec_cBoot.mp hs; exact hd
  case cBootT => obtain ⟨_, _, rfl⟩ := spec_cBootT.mp hs; exact hd
  case cCall => obtain ⟨_, rfl⟩ := spec_cCall.mp hs; exact hd
  case cIsSet => obtain ⟨_, rfl⟩ := spec_cIsSet.mp hs; split <;> exact hd
  case cMpIsSet => obtain ⟨_, rfl⟩ := spec_cMpIsSet.mp hs; split <;> exact hd
  case cChk => obtain ⟨_, rfl⟩ := spec_cChk.mp hs; exact hd
  case cSet => obtain ⟨_, rfl⟩ := spec_cSet.mp hs; exact hd
  case cMpSet => obtain ⟨_, rfl⟩ := spec_cMpSet.mp hs; exact hd
  case cGet =>
    obtain ⟨m, rest, _, _, rfl⟩ := spec_cGet.mp hs
    cases hio : c.inOrder <;> cases hpay : m.pay <;> simpa [setOutq, hio, NoDead] using hd
  case cGetT => obtain ⟨_, _, rfl⟩ := spec_cGetT.mp hs; exact hd
  case cRel => obtain ⟨m, _, _, rfl⟩ := spec_cRel.mp hs; cases m.pay <;> exact hd
  case cPop => obtain ⟨m, y, _, _, rfl⟩ := spec_cPop.mp hs; exact hd
  case cDeadIsSet => obtain ⟨_, rfl⟩ := spec_cDeadIsSet.mp hs; exact hd
  case cDeadMpIsSet => obtain ⟨_, rfl⟩ := spec_cDeadMpIsSet.mp hs; exact hd
  case cDeadSet => obtain ⟨_, rfl⟩ := spec_cDeadSet.mp hs; exact hd
  case cDeadMpSet => obtain ⟨_, rfl⟩ := spec_cDeadMpSet.mp hs; exact hd
  case cShutSet => obtain ⟨_, rfl⟩ := spec_cShutSet.mp hs; exact hd
  case cShutMpSet => obtain ⟨_, rfl⟩ := spec_cShutMpSet.mp hs; exact hd

theorem pm_noDead_run {c : Cfg} (hp : c.proc = false) : ∀ (as : List Action) (s s' : State), NoDead s →
    run c s as = some s' → NoDead s'
  | [], s, s', hd, hr => by simp only [run, Option.some.injEq] at hr; subst hr; exact hd
  | a :: as, s, s', hd, hr => by
    simp only [run] at hr
    cases hs : step c s a with
    | none => simp [hs] at hr
    | some s1 =>
      simp only [hs] at hr
      exact pm_noDead_run hp as s1 s' (pm_noDead_step hp a hs hd) hr

theorem pm_noDead {c : Cfg} {s : State} (hp : c.proc = false) (h : Reachable c s) : NoDead s := by
  obtain ⟨as, hr⟩ := h
  refine pm_noDead_run hp as _ _ ?_ hr
  intro p hp'
  simp only [init, List.mem_replicate] at hp'
  rw [hp'.2]; simp

end TDV.Refine
