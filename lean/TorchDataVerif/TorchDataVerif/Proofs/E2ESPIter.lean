import TorchDataVerif.Props.SP
import TorchDataVerif.Proofs.E2ESP
/-!
# E2E, part 3b — the single-process iterator over an ITERABLE dataset meets the interface

All epochs of a lawful iterable dataset are alike (`stream`).  Abstraction: `x` is at `a` iff `x` cannot be told
apart (`SP.SimI`: same counters, same place of the dataset iterator, `ended`, `_finished`) from an uninterrupted
iterator after `a.p` batches.  Two instances: dataset and/or its iterator `Stateful` (`meetsIterState`), and
neither (`meetsIterFfwd`: resume by fast-forward).
-/
namespace TDV.E2E
open TDV.Node
open TDV.Loader (Obs Op)
open TDV.SDLApi (It)

section generic
variable {W SSt D Ds Dt : Type} (S : SP.IdxSrc W SSt) (Da : SP.Data D Ds Dt) (c : SP.Cfg)

theorem obsN_succ' (k : Nat) (x : SP.It W D) :
    SP.obsN S Da c (k + 1) x = SP.obsN S Da c k x ++ [(SP.next S Da c (SP.nextN S Da c k x)).1] := by
  rw [SP.obsN_add]
  rfl

theorem nextN_succ' (k : Nat) (x : SP.It W D) :
    SP.nextN S Da c (k + 1) x = (SP.next S Da c (SP.nextN S Da c k x)).2 := by
  rw [SP.nextN_add]
  rfl

/-- `StopIteration` sets `_finished`. -/
theorem next_stop_fin (x : SP.It W D) (h : (SP.next S Da c x).1 = .stop) : (SP.next S Da c x).2.finished = true := by
  unfold SP.next at h ⊢
  generalize S.next x.sw = s at h ⊢
  obtain ⟨o, w'⟩ := s
  cases o with
  | stop => rfl
  | err => simp at h
  | idx ix =>
    dsimp only at h ⊢
    generalize SP.fetch Da c x.dw x.ended ix = r at h ⊢
    obtain ⟨o, d', e'⟩ := r
    cases o with
    | stop => rfl
    | batch l => simp at h
    | single v => simp at h
    | error k => simp at h

/-- A loop that ran to its `StopIteration` within `fuel` calls, as a list of single calls. -/
theorem epoch_obsN : ∀ (l : List SP.Obs) (fuel : Nat) (x : SP.It W D), l.length < fuel →
    (SP.epoch S Da c fuel x).1 = l ++ [.stop] → (∀ o ∈ l, o ≠ .stop) →
    SP.obsN S Da c (l.length + 1) x = l ++ [.stop]
  | [], fuel + 1, x, _, h, _ => by
    rw [SP.epoch] at h
    generalize hn : SP.next S Da c x = r at h
    obtain ⟨o, x'⟩ := r
    have : o = .stop := by
      cases o with
      | stop => rfl
      | batch l => simp at h
      | single v => simp at h
      | error k => simp at h
    subst this
    simp [SP.obsN, hn]
  | o :: l, fuel + 1, x, hf, h, hns => by
    rw [SP.epoch] at h
    generalize hn : SP.next S Da c x = r at h
    obtain ⟨o', x'⟩ := r
    have hne : o ≠ .stop := hns o (by simp)
    have hns' : ∀ o ∈ l, o ≠ .stop := fun q hq => hns q (by simp [hq])
    have key : o' = o ∧ (SP.epoch S Da c fuel x').1 = l ++ [.stop] := by
      cases o' with
      | stop =>
        simp only [List.cons_append, List.cons.injEq] at h
        exact absurd h.1.symm hne
      | batch b => simpa using h
      | single v => simpa using h
      | error k => simpa using h
    obtain ⟨rfl, h2⟩ := key
    have ih := epoch_obsN l fuel x' (by simpa using hf) h2 hns'
    show SP.obsN S Da c (l.length + 1 + 1) x = _
    rw [SP.obsN, hn]
    simp only [List.cons_append, List.cons.injEq, true_and]
    exact ih

end generic

section iter
variable {W SSt D Ds Dt : Type} (S : SP.IdxSrc W SSt) (Da : SP.Data D Ds Dt) (c : SP.Cfg)
variable {items : List Nat} (L : SP.IterLaw Da items) {sh : SP.Shape}

/-- A delivered batch as an `Item`. -/
def obsItem : SP.Obs → Item
  | .batch l => .list (l.map .atom)
  | .single v => .atom v
  | _ => .none

omit L in
theorem toOut_item (o : SP.Obs) (h : (∃ l, o = .batch l) ∨ ∃ v, o = .single v) : toOut o = .item (obsItem o) := by
  rcases h with ⟨l, rfl⟩ | ⟨v, rfl⟩ <;> rfl

/-- Every epoch of an iterable loader is `stream`. -/
def epochsIter (stream : List SP.Obs) : Nat → List Item := fun _ => stream.map obsItem

/-- **The hypotheses of the `TDV.SP` iterable theorems**: the index sampler of an iterable loader, a lawful
dataset (`IterLaw`), a `collate_fn` that never raises; an uninterrupted iterator over a dataset object that is
between epochs delivers `stream` (batches only) and then `StopIteration` (`SP.stream_eq_ref_iter*`). -/
structure IterHyp (stream : List SP.Obs) : Prop where
  src : SP.InfSrc S sh
  isIter : Da.iterable = true
  collate : ∀ v, c.collateFail v = false
  run : ∀ w d, L.Good d → SP.obsN S Da c (stream.length + 1) (SP.create S Da w d) = stream ++ [.stop]
  shape : ∀ o ∈ stream, (∃ l, o = .batch l) ∨ ∃ v, o = .single v

variable {stream : List SP.Obs} (H : IterHyp S Da c L (sh := sh) stream)

/-- The uninterrupted iterator after `k` calls. -/
def canI (w : W) (d : D) (k : Nat) : SP.It W D := SP.nextN S Da c k (SP.create S Da w d)

include H

theorem canI_obsN (w : W) (d : D) (hg : L.Good d) (k : Nat) (hk : k ≤ stream.length + 1) :
    SP.obsN S Da c k (SP.create S Da w d) = (stream ++ [SP.Obs.stop]).take k := by
  have h := H.run w d hg
  have hsplit : stream.length + 1 = k + (stream.length + 1 - k) := by omega
  rw [hsplit, SP.obsN_add] at h
  have := congrArg (List.take k) h
  rw [List.take_left' (SP.obsN_length S Da c k _)] at this
  exact this

theorem stream_ne_stop (o : SP.Obs) (ho : o ∈ stream) : o ≠ .stop := by
  rcases H.shape o ho with ⟨l, rfl⟩ | ⟨v, rfl⟩ <;> simp

theorem canI_nostop (w : W) (d : D) (hg : L.Good d) (k : Nat) (hk : k ≤ stream.length) :
    ∀ o ∈ SP.obsN S Da c k (SP.create S Da w d), o ≠ .stop := by
  rw [canI_obsN S Da c L H w d hg k (by omega)]
  intro o ho
  have hm := List.mem_of_mem_take ho
  rw [List.take_append_of_le_length hk] at ho
  exact stream_ne_stop S Da c L H o (List.mem_of_mem_take ho)

theorem canI_sim (w : W) (d : D) (hg : L.Good d) (k : Nat) (hk : k ≤ stream.length) :
    SP.SimI L (canI S Da c w d k) (canI S Da c w d k) ∧ (canI S Da c w d k).finished = false :=
  SP.simI_nextN S Da c L H.src H.isIter H.collate k _ _ (SP.simI_create S Da L w w d d hg hg) rfl
    (canI_nostop S Da c L H w d hg k hk)

theorem canI_next (w : W) (d : D) (hg : L.Good d) (k : Nat) (hk : k ≤ stream.length) :
    some (SP.next S Da c (canI S Da c w d k)).1 = (stream ++ [SP.Obs.stop])[k]? := by
  have h1 := canI_obsN S Da c L H w d hg (k + 1) (by omega)
  rw [obsN_succ', canI_obsN S Da c L H w d hg k (by omega), List.take_add_one] at h1
  have h2 := List.append_cancel_left h1
  have hlt : k < (stream ++ [SP.Obs.stop]).length := by simp; omega
  rw [List.getElem?_eq_getElem hlt] at h2 ⊢
  simp only [Option.toList_some, List.cons.injEq, and_true] at h2
  unfold canI
  rw [h2]

/-- `a` is a place in `stream`. -/
def PlaceI (stream : List SP.Obs) (a : It) : Prop :=
  a.p ≤ stream.length ∧ (a.fin = true → a.p = stream.length)

/-- What `load_state_dict` has to achieve (proved below from `StateLaw`, and for the fast-forward). -/
def Resumes (stream : List SP.Obs) : Prop :=
  ∀ (a : It), PlaceI stream a → ∀ (w : W) (d : D) (x1 : SP.It W D) (w' : W) (d' : D), L.Good d → L.Good d' →
    SP.SimI L (canI S Da c w d (callsOf a)) x1 →
    ∃ x', SP.restore S Da c w' d' (SP.save S Da x1) = .ok x' ∧ SP.SimI L (canI S Da c w d (callsOf a)) x'

/-- **The single-process iterator over a lawful iterable dataset meets the interface.** -/
def meetsIter (hres : Resumes S Da c L stream) : Meets (spIC S Da c) (epochsIter stream) where
  A x a := PlaceI stream a ∧ ∃ w d, L.Good d ∧ SP.SimI L (canI S Da c w d (callsOf a)) x
  AT st a := PlaceI stream a ∧
    ∃ w d x1, L.Good d ∧ SP.SimI L (canI S Da c w d (callsOf a)) x1 ∧ st = SP.save S Da x1
  AW wd _ := L.Good wd.2
  WN wd := L.Good wd.2
  aw_wn := fun _ _ h => h
  make_none := by
    intro wd g h
    exact ⟨_, rfl, ⟨Nat.zero_le _, fun hf => by cases hf⟩, wd.1, wd.2, h, SP.simI_create S Da L _ _ _ _ h h⟩
  make_some := by
    intro wd st a hw ⟨hp, w, d, x1, hg, hsim, hst⟩
    obtain ⟨x', hr, hx'⟩ := hres a hp w d x1 wd.1 wd.2 hg hw hsim
    refine ⟨x', ?_, hp, w, d, hg, hx'⟩
    show (match SP.restore S Da c wd.1 wd.2 st with
      | .ok x => some x
      | .raised _ _ => none) = some x'
    rw [hst, hr]
  next := by
    intro x a ⟨⟨hp, _⟩, w, d, hg, hsim⟩ hnf
    have hc : callsOf a = a.p := by simp [callsOf, hnf]
    rw [hc] at hsim
    have hcf := (canI_sim S Da c L H w d hg a.p hp).2
    obtain ⟨ho, hs, _⟩ := SP.simI_next S Da c L H.src H.isIter H.collate _ _ hsim hcf
    have hs' : SP.SimI L (canI S Da c w d (a.p + 1)) ((spIC S Da c).next x).2 := by
      unfold canI; rw [nextN_succ']; exact hs
    have hnx := canI_next S Da c L H w d hg a.p hp
    show toOut (SP.next S Da c x).1 = _ ∧ _
    rw [← ho]
    by_cases hlt : a.p < stream.length
    · rw [List.getElem?_append_left hlt, List.getElem?_eq_getElem hlt] at hnx
      have hnx' := Option.some.inj hnx
      have hget : (epochsIter stream a.e)[a.p]? = some (obsItem stream[a.p]) := by
        simp [epochsIter, hlt]
      simp only [SDLApi.itNext, hget]
      refine ⟨?_, ⟨Nat.succ_le_of_lt hlt, fun hf => absurd hf (by simp [hnf])⟩, w, d, hg, ?_⟩
      · rw [hnx']; exact toOut_item _ (H.shape _ (List.getElem_mem hlt))
      · simpa [callsOf, hnf] using hs'
    · have hpe : a.p = stream.length := by omega
      rw [hpe, List.getElem?_append_right (Nat.le_refl _)] at hnx
      simp only [Nat.sub_self, List.getElem?_cons_zero] at hnx
      have hnx' := Option.some.inj hnx
      have hget : (epochsIter stream a.e)[a.p]? = none := by
        simp [epochsIter, hpe]
      simp only [SDLApi.itNext, hget]
      refine ⟨?_, ⟨hp, fun _ => hpe⟩, w, d, hg, ?_⟩
      · rw [hpe, hnx']; rfl
      · simpa [callsOf] using hs'
  state := by
    intro x a ⟨hp, w, d, hg, hsim⟩
    exact ⟨hp, w, d, x, hg, hsim, rfl⟩
  fin := by
    intro x a ⟨⟨hp, hpf⟩, w, d, hg, hsim⟩
    show x.finished = a.fin
    rw [← hsim.2.2.1]
    cases hf : a.fin with
    | false =>
      have hc : callsOf a = a.p := by simp [callsOf, hf]
      rw [hc]
      exact (canI_sim S Da c L H w d hg a.p hp).2
    | true =>
      have hc : callsOf a = stream.length + 1 := by simp [callsOf, hf, hpf hf]
      rw [hc]
      unfold canI
      rw [nextN_succ']
      apply next_stop_fin
      have hnx := canI_next S Da c L H w d hg stream.length (Nat.le_refl _)
      rw [List.getElem?_append_right (Nat.le_refl _)] at hnx
      simp only [Nat.sub_self, List.getElem?_cons_zero] at hnx
      exact Option.some.inj hnx
  world := by
    intro x a ⟨⟨_, hpf⟩, w, d, hg, hsim⟩ hf
    show L.Good x.dw
    have hxf : x.finished = true := by
      -- as in `fin`
      rw [← hsim.2.2.1]
      have hc : callsOf a = stream.length + 1 := by simp [callsOf, hf, hpf hf]
      rw [hc]
      unfold canI
      rw [nextN_succ']
      apply next_stop_fin
      have hnx := canI_next S Da c L H w d hg stream.length (Nat.le_refl _)
      rw [List.getElem?_append_right (Nat.le_refl _)] at hnx
      simp only [Nat.sub_self, List.getElem?_cons_zero] at hnx
      exact Option.some.inj hnx
    obtain ⟨_, _, hfe, hcases⟩ := hsim
    rcases hcases with ⟨a1, _⟩ | ⟨a1, _⟩ | ⟨_, _, g'⟩
    · rw [hfe, hxf] at a1; cases a1
    · rw [hfe, hxf] at a1; cases a1
    · exact g'

omit H in
/-- Dataset and/or its iterator `Stateful`: `load_state_dict` restores the place (`SP.restore_simI`). -/
theorem resumes_state (hS : SP.InfSrc S sh) (hit : Da.iterable = true) (SL : SP.StateLaw Da items L)
    (stream : List SP.Obs) : Resumes S Da c L stream := by
  intro a _ w d x1 w' d' _ hg' hsim
  exact SP.restore_simI S Da c L hS hit SL _ x1 hsim w' d' hg'

/-- Neither has state: `load_state_dict` fast-forwards (`SP.restore_ffwd`, `SP.restore_ffwd_fin`). -/
theorem resumes_ffwd (hds : Da.dsState = none) (hits : Da.itState = none) (hgood : ∀ d, L.Good d) :
    Resumes S Da c L stream := by
  intro a ⟨hp, hpf⟩ w d x1 w' d' hg _ hsim
  cases hf : a.fin with
  | false =>
    have hc : callsOf a = a.p := by simp [callsOf, hf]
    rw [hc] at hsim ⊢
    exact SP.restore_ffwd S Da c L H.src H.isIter H.collate hds hits hgood w d a.p
      (canI_nostop S Da c L H w d hg a.p hp) x1 hsim w' d'
  | true =>
    have hc : callsOf a = stream.length + 1 := by simp [callsOf, hf, hpf hf]
    rw [hc] at hsim ⊢
    unfold canI at hsim ⊢
    rw [nextN_succ'] at hsim ⊢
    have hnx := canI_next S Da c L H w d hg stream.length (Nat.le_refl _)
    rw [List.getElem?_append_right (Nat.le_refl _)] at hnx
    simp only [Nat.sub_self, List.getElem?_cons_zero] at hnx
    exact SP.restore_ffwd_fin S Da c L H.src H.isIter H.collate hds hits hgood w d stream.length
      (canI_nostop S Da c L H w d hg stream.length (Nat.le_refl _)) (Option.some.inj hnx) x1 hsim w' d'

end iter

/-! ### The hypothesis `IterHyp.run` from the C03 theorems of `Props/SP.lean` -/
section streams
variable {W SSt D Ds Dt : Type} (S : SP.IdxSrc W SSt) (Da : SP.Data D Ds Dt) (c : SP.Cfg)
variable {items : List Nat} (L : SP.IterLaw Da items)

/-- Auto-collation: every epoch is torch's chunking of the shard's items. -/
theorem iterHyp_batch (bs : Nat) (hbs : 0 < bs) (hS : SP.InfSrc S (.many bs)) (hit : Da.iterable = true)
    (hcf : ∀ v, c.collateFail v = false) :
    IterHyp S Da c L (sh := .many bs) ((TDV.Sampler.chunkRef bs c.dropLast items).map .batch) where
  src := hS
  isIter := hit
  collate := hcf
  run := by
    intro w d hg
    have hM : SP.InfMany S bs := by
      intro w
      obtain ⟨ix, w', h1, h2⟩ := hS.next w
      cases ix with
      | one i => simp [SP.Idx.shape] at h2
      | many l => exact ⟨l, w', h1, by simpa [SP.Idx.shape] using h2⟩
    have he := (SP.stream_eq_ref_iter S Da c L bs hbs hit hM hcf w d hg
      (items.length + 2 + ((TDV.Sampler.chunkRef bs c.dropLast items).map SP.Obs.batch).length) (by omega)).1
    exact epoch_obsN S Da c _ _ _ (by omega) he (by intro o ho; simp at ho; obtain ⟨l, _, rfl⟩ := ho; simp)
  shape := by
    intro o ho
    simp at ho
    obtain ⟨l, _, rfl⟩ := ho
    exact Or.inl ⟨l, rfl⟩

/-- `batch_size=None`: item by item. -/
theorem iterHyp_one (hS : SP.InfSrc S .one) (hit : Da.iterable = true) (hcf : ∀ v, c.collateFail v = false) :
    IterHyp S Da c L (sh := .one) (items.map .single) where
  src := hS
  isIter := hit
  collate := hcf
  run := by
    intro w d hg
    have hO : SP.InfOne S := by
      intro w
      obtain ⟨ix, w', h1, h2⟩ := hS.next w
      cases ix with
      | one i => exact ⟨i, w', h1⟩
      | many l => simp [SP.Idx.shape] at h2
    have he := (SP.stream_eq_ref_iter_one S Da c L hit hO hcf w d hg
      (items.length + 1 + (items.map SP.Obs.single).length) (by omega)).1
    exact epoch_obsN S Da c _ _ _ (by omega) he (by intro o ho; simp at ho; obtain ⟨l, _, rfl⟩ := ho; simp)
  shape := by
    intro o ho
    simp at ho
    obtain ⟨v, _, rfl⟩ := ho
    exact Or.inr ⟨v, rfl⟩

end streams

end TDV.E2E
