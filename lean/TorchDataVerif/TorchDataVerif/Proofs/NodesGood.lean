import TorchDataVerif.Proofs.NodesReach
/-!
# `Good`: the induction hypothesis behind `Lawful`

`Lawful n` asks for *some* bisimulation `R`.  Combinators with caches (`unbatcher`, `buffered`) have to chain
facts about the source (`R a b`, `R b c`), so the compositional proofs carry a stronger package: a witness
`R` that is a partial equivalence living on reachable states, plus the law (`nr`) that one more `next()`
does not influence what the next `reset()` starts.  `Good n R → Lawful n` (`Good.lawful`); the serialised-state
relation is then the semantic one: `Q x y := ∀ a b, R a b → R (reset a x) (reset b y)`.
-/
namespace TDV.Node

structure Good (n : Node) (R : Run n → Run n → Prop) : Prop where
  symm : ∀ a b, R a b → R b a
  trans : ∀ a b c, R a b → R b c → R a c
  reach : ∀ a b, R a b → n.Reach a
  refl : ∀ s, n.Reach s → R s s
  next : ∀ a b, R a b → (n.rnext a).1 = (n.rnext b).1 ∧ R (n.rnext a).2 (n.rnext b).2
  resetNone : ∀ a b, R a b → a.nexted = true → b.nexted = true → R (n.rreset a none) (n.rreset b none)
  l1 : ∀ s, n.Reach s → R (n.rget s).2 s
  l2 : ∀ s r, n.Reach s → n.Reach r → R (n.rreset r (some (n.rget s).1)) (n.rget s).2
  l2f : ∀ s, n.Reach s → R (n.rreset n.rfresh (some (n.rget s).1)) (n.rget s).2
  /-- one more `next()` does not change which epoch the next `reset()` starts -/
  nr : ∀ s, n.Reach s → s.nexted = true → R (n.rreset (n.rnext s).2 none) (n.rreset s none)
  /-- once `StopIteration` was raised, further `next()` calls raise it again and change nothing -/
  stopIdem : ∀ s, n.Reach s → (n.rnext s).1 = .stop →
    (n.rnext (n.rnext s).2).1 = .stop ∧ R (n.rnext (n.rnext s).2).2 (n.rnext s).2

def IsGood (n : Node) : Prop := ∃ R, Good n R

namespace Good
variable {n : Node} {R : Run n → Run n → Prop}

theorem reach' (g : Good n R) {a b : Run n} (h : R a b) : n.Reach b := g.reach b a (g.symm a b h)

theorem get (g : Good n R) {a b : Run n} (h : R a b) : R (n.rget a).2 (n.rget b).2 :=
  g.trans _ _ _ (g.l1 a (g.reach a b h)) (g.trans _ _ _ h (g.symm _ _ (g.l1 b (g.reach' h))))

/-- Loading the tokens of related states into related states gives related states. -/
theorem resetTok (g : Good n R) {a b a' b' : Run n} (h : R a b) (h' : R a' b') :
    R (n.rreset a' (some (n.rget a).1)) (n.rreset b' (some (n.rget b).1)) := by
  have ha := g.reach a b h
  have hb := g.reach' h
  have h1 := g.l2 a a' ha (g.reach a' b' h')
  have h2 := g.l2 b b' hb (g.reach' h')
  exact g.trans _ _ _ h1 (g.trans _ _ _ (g.get h) (g.symm _ _ h2))

theorem sameOuts (g : Good n R) {a b : Run n} (h : R a b) : SameOuts n a b := by
  intro k
  induction k generalizing a b with
  | zero => rfl
  | succ k ih =>
    have := g.next a b h
    rw [outs_succ, outs_succ, this.1, ih this.2]

theorem getTransparent (g : Good n R) : GetTransparent n :=
  fun r hr => g.sameOuts (g.l1 r hr)

theorem lawful (g : Good n R) : Lawful n := by
  refine ⟨R, fun x y => ∀ a b, R a b → R (n.rreset a (some x)) (n.rreset b (some y)), ?_, g.refl, g.l1, g.l2, g.l2f⟩
  refine ⟨g.next, ?_, g.resetNone, ?_⟩
  · intro a b h
    exact ⟨fun a' b' h' => g.resetTok h h', g.get h⟩
  · intro a b x y h hq
    exact hq a b h

end Good

theorem IsGood.lawful {n : Node} (h : IsGood n) : Lawful n := by
  obtain ⟨R, g⟩ := h
  exact g.lawful

/-- `state_dict()` of a lawful node does not change what it yields. -/
theorem Lawful.getTransparent {n : Node} (h : Lawful n) : GetTransparent n := by
  obtain ⟨R, Q, hb, _, h1, _, _⟩ := h
  intro r hr k
  exact (hb.outs_eq k _ _ (h1 r hr)).1

/-! ## `IterableWrapper(list)` -/

def ListInv (l : List Item) (st : ListSt) : Prop :=
  st.bad = false ∧ st.ny ≤ l.length ∧ st.rem = l.drop st.ny

theorem listReset_inv (l : List Item) (st : ListSt) (x : Option Nat) (hx : ∀ k, x = some k → k ≤ l.length) :
    ListInv l (listReset l st x) := by
  cases x with
  | none => exact ⟨rfl, Nat.zero_le _, rfl⟩
  | some k =>
    have := hx k rfl
    simp only [listReset, this, if_true]
    exact ⟨rfl, this, rfl⟩

theorem listNext_inv (l : List Item) (st : ListSt) (h : ListInv l st) : ListInv l (listNext st).2 := by
  obtain ⟨h1, h2, h3⟩ := h
  cases hr : st.rem with
  | nil =>
    have e : listNext st = (.stop, st) := by simp [listNext, h1, hr]
    rw [e]; exact ⟨h1, h2, h3⟩
  | cons x r =>
    have e : listNext st = (.item x, { st with rem := r, ny := st.ny + 1 }) := by simp [listNext, h1, hr]
    rw [e]
    have hlt : st.ny < l.length := by
      rcases Nat.lt_or_ge st.ny l.length with h | h
      · exact h
      · rw [List.drop_eq_nil_of_le h] at h3; rw [h3] at hr; cases hr
    refine ⟨h1, hlt, ?_⟩
    show r = l.drop (st.ny + 1)
    have : l.drop st.ny = x :: r := by rw [← h3, hr]
    rw [← List.drop_drop, this]
    rfl

theorem listSource_reach (l : List Item) (r : Run (listSource l)) (h : (listSource l).Reach r) :
    ListInv l (r.st : ListSt) := by
  induction h with
  | initNone => exact listReset_inv l (listSource l).fresh none (fun _ h => by cases h)
  | @initSome r' _ ih =>
    refine listReset_inv l (listSource l).fresh _ ?_
    intro k hk
    have : k = (r'.st : ListSt).ny := (Option.some.inj hk).symm
    rw [this]; exact ih.2.1
  | @next r _ ih => exact listNext_inv l _ ih
  | get _ ih => exact ih
  | @resetNone r _ _ => exact listReset_inv l (r.st : ListSt) none (fun _ h => by cases h)
  | @resetSome r r' _ _ _ ih2 =>
    refine listReset_inv l (r.st : ListSt) _ ?_
    intro k hk
    have : k = (r'.st : ListSt).ny := (Option.some.inj hk).symm
    rw [this]; exact ih2.2.1

theorem listNext_stop (st : ListSt) (hb : st.bad = false) (h : (listNext st).1 = .stop) :
    listNext st = (.stop, st) := by
  cases hr : st.rem with
  | nil => simp [listNext, hb, hr]
  | cons x r =>
    have : (listNext st).1 = .item x := by simp [listNext, hb, hr]
    rw [this] at h; cases h

def listR (l : List Item) (a b : Run (listSource l)) : Prop :=
  (a.st : ListSt) = (b.st : ListSt) ∧ (listSource l).Reach a ∧ (listSource l).Reach b

theorem listReset_some_eq (l : List Item) (st st' : ListSt) (h : ListInv l st) :
    listReset l st' (some st.ny) = st := by
  obtain ⟨h1, h2, h3⟩ := h
  simp only [listReset, h2, if_true]
  cases st
  simp_all

theorem listSource_good (l : List Item) : Good (listSource l) (listR l) where
  symm := fun a b ⟨h1, h2, h3⟩ => ⟨h1.symm, h3, h2⟩
  trans := fun a b c ⟨h1, h2, _⟩ ⟨h4, _, h6⟩ => ⟨h1.trans h4, h2, h6⟩
  reach := fun a b h => h.2.1
  refl := fun s h => ⟨rfl, h, h⟩
  next := by
    rintro ⟨sa, na⟩ ⟨sb, nb⟩ ⟨h1, h2, h3⟩
    simp only at h1
    subst h1
    exact ⟨rfl, rfl, Node.Reach.next h2, Node.Reach.next h3⟩
  resetNone := fun a b ⟨_, h2, h3⟩ _ _ => ⟨rfl, Node.Reach.resetNone h2, Node.Reach.resetNone h3⟩
  l1 := fun s h => ⟨rfl, Node.Reach.get h, h⟩
  l2 := fun s r hs hr => ⟨listReset_some_eq l _ (r.st : ListSt) (listSource_reach l s hs), Node.Reach.resetSome hr hs, Node.Reach.get hs⟩
  l2f := fun s hs => ⟨listReset_some_eq l _ (listSource l).fresh (listSource_reach l s hs), Node.Reach.initSome hs, Node.Reach.get hs⟩
  nr := fun s hs _ => ⟨rfl, Node.Reach.resetNone (Node.Reach.next hs), Node.Reach.resetNone hs⟩
  stopIdem := by
    intro s hs h
    have inv := listSource_reach l s hs
    have e := listNext_stop (s.st : ListSt) inv.1 h
    have e1 : ((listSource l).rnext s).2 = ⟨(s.st : ListSt), true⟩ := by
      show (⟨(listNext (s.st : ListSt)).2, true⟩ : Run (listSource l)) = _
      rw [e]
    have hr1 : (listSource l).Reach ⟨(s.st : ListSt), true⟩ := e1 ▸ Node.Reach.next hs
    rw [e1]
    refine ⟨?_, ?_, Node.Reach.next hr1, hr1⟩
    · show (listNext (s.st : ListSt)).1 = .stop
      rw [e]
    · show (listNext (s.st : ListSt)).2 = (s.st : ListSt)
      rw [e]

/-! ## `SamplerWrapper` -/

def SampInv (idx : Nat → List Item) (st : SampSt) (nexted : Bool) : Prop :=
  st.bad = false ∧ st.ny ≤ (idx st.epoch).length ∧ st.rem = (idx st.epoch).drop st.ny ∧ st.started = nexted

theorem sampReset_inv (idx : Nat → List Item) (upd : Nat → Nat) (st : SampSt) (x : Option (Nat × Nat))
    (hx : ∀ k e, x = some (k, e) → k ≤ (idx e).length) : SampInv idx (sampReset idx upd st x) false := by
  cases x with
  | none => exact ⟨rfl, Nat.zero_le _, rfl, rfl⟩
  | some ke =>
    obtain ⟨k, e⟩ := ke
    have := hx k e rfl
    simp only [sampReset, this, if_true]
    exact ⟨rfl, this, rfl, rfl⟩

theorem sampNext_spec (idx : Nat → List Item) (st : SampSt) (b : Bool) (h : SampInv idx st b) :
    SampInv idx (sampNext st).2 true ∧ (sampNext st).2.epoch = st.epoch ∧
    (sampNext st).1 = (match st.rem with | [] => .stop | x :: _ => .item x) ∧
    (sampNext st).2.rem = st.rem.tail ∧
    (sampNext st).2.ny = (match st.rem with | [] => st.ny | _ :: _ => st.ny + 1) := by
  obtain ⟨h1, h2, h3, _⟩ := h
  cases hr : st.rem with
  | nil =>
    have e : sampNext st = (.stop, { st with started := true }) := by simp [sampNext, h1, hr]
    rw [e]; exact ⟨⟨h1, h2, h3, rfl⟩, rfl, rfl, by simp [hr], rfl⟩
  | cons x r =>
    have e : sampNext st = (.item x, { st with rem := r, ny := st.ny + 1, started := true }) := by
      simp [sampNext, h1, hr]
    rw [e]
    have hlt : st.ny < (idx st.epoch).length := by
      rcases Nat.lt_or_ge st.ny (idx st.epoch).length with h | h
      · exact h
      · rw [List.drop_eq_nil_of_le h] at h3; rw [h3] at hr; cases hr
    refine ⟨⟨h1, hlt, ?_, rfl⟩, rfl, rfl, rfl, rfl⟩
    show r = (idx st.epoch).drop (st.ny + 1)
    have : (idx st.epoch).drop st.ny = x :: r := by rw [← h3, hr]
    rw [← List.drop_drop, this]
    rfl

theorem samplerNode_reach (idx : Nat → List Item) (upd : Nat → Nat) (e0 : Nat)
    (r : Run (samplerNode idx upd e0)) (h : (samplerNode idx upd e0).Reach r) :
    SampInv idx (r.st : SampSt) r.nexted := by
  induction h with
  | initNone => exact sampReset_inv idx upd (samplerNode idx upd e0).fresh none (fun _ _ h => by cases h)
  | @initSome r' _ ih =>
    refine sampReset_inv idx upd (samplerNode idx upd e0).fresh _ ?_
    intro k e hk
    have := Option.some.inj hk
    have h1 : k = (r'.st : SampSt).ny := by
      have := congrArg Prod.fst this; exact this.symm
    have h2 : e = (r'.st : SampSt).epoch := by
      have := congrArg Prod.snd this; exact this.symm
    rw [h1, h2]; exact ih.2.1
  | @next r _ ih => exact (sampNext_spec idx (r.st : SampSt) r.nexted ih).1
  | get _ ih => exact ih
  | @resetNone r _ _ => exact sampReset_inv idx upd (r.st : SampSt) none (fun _ _ h => by cases h)
  | @resetSome r r' _ _ _ ih2 =>
    refine sampReset_inv idx upd (r.st : SampSt) _ ?_
    intro k e hk
    have := Option.some.inj hk
    have h1 : k = (r'.st : SampSt).ny := by
      have := congrArg Prod.fst this; exact this.symm
    have h2 : e = (r'.st : SampSt).epoch := by
      have := congrArg Prod.snd this; exact this.symm
    rw [h1, h2]; exact ih2.2.1

def sampR (idx : Nat → List Item) (upd : Nat → Nat) (e0 : Nat) (a b : Run (samplerNode idx upd e0)) : Prop :=
  (a.st : SampSt).rem = (b.st : SampSt).rem ∧ (a.st : SampSt).ny = (b.st : SampSt).ny ∧
  (a.st : SampSt).epoch = (b.st : SampSt).epoch ∧
  (samplerNode idx upd e0).Reach a ∧ (samplerNode idx upd e0).Reach b

theorem sampReset_some_spec (idx : Nat → List Item) (upd : Nat → Nat) (st st' : SampSt) (b : Bool)
    (h : SampInv idx st b) :
    (sampReset idx upd st' (some (st.ny, st.epoch))).rem = st.rem ∧
    (sampReset idx upd st' (some (st.ny, st.epoch))).ny = st.ny ∧
    (sampReset idx upd st' (some (st.ny, st.epoch))).epoch = st.epoch := by
  obtain ⟨_, h2, h3, _⟩ := h
  have e : sampReset idx upd st' (some (st.ny, st.epoch)) =
      { rem := (idx st.epoch).drop st.ny, ny := st.ny, epoch := st.epoch, started := false, bad := false } := by
    simp only [sampReset, h2, if_true]
  rw [e]
  exact ⟨h3.symm, rfl, rfl⟩

theorem samplerNode_good (idx : Nat → List Item) (upd : Nat → Nat) (e0 : Nat) :
    Good (samplerNode idx upd e0) (sampR idx upd e0) where
  symm := fun a b ⟨h1, h2, h3, h4, h5⟩ => ⟨h1.symm, h2.symm, h3.symm, h5, h4⟩
  trans := fun a b c ⟨h1, h2, h3, h4, _⟩ ⟨k1, k2, k3, _, k5⟩ => ⟨h1.trans k1, h2.trans k2, h3.trans k3, h4, k5⟩
  reach := fun a b h => h.2.2.2.1
  refl := fun s h => ⟨rfl, rfl, rfl, h, h⟩
  next := by
    rintro a b ⟨h1, h2, h3, h4, h5⟩
    have sa := sampNext_spec idx (a.st : SampSt) a.nexted (samplerNode_reach idx upd e0 a h4)
    have sb := sampNext_spec idx (b.st : SampSt) b.nexted (samplerNode_reach idx upd e0 b h5)
    refine ⟨?_, ?_, ?_, ?_, Node.Reach.next h4, Node.Reach.next h5⟩
    · show (sampNext (a.st : SampSt)).1 = (sampNext (b.st : SampSt)).1
      rw [sa.2.2.1, sb.2.2.1, h1]
    · show (sampNext (a.st : SampSt)).2.rem = (sampNext (b.st : SampSt)).2.rem
      rw [sa.2.2.2.1, sb.2.2.2.1, h1]
    · show (sampNext (a.st : SampSt)).2.ny = (sampNext (b.st : SampSt)).2.ny
      rw [sa.2.2.2.2, sb.2.2.2.2, h1, h2]
    · show (sampNext (a.st : SampSt)).2.epoch = (sampNext (b.st : SampSt)).2.epoch
      rw [sa.2.1, sb.2.1, h3]
  resetNone := by
    rintro a b ⟨_, _, h3, h4, h5⟩ na nb
    have ia := (samplerNode_reach idx upd e0 a h4).2.2.2
    have ib := (samplerNode_reach idx upd e0 b h5).2.2.2
    rw [na] at ia
    rw [nb] at ib
    refine ⟨?_, rfl, ?_, Node.Reach.resetNone h4, Node.Reach.resetNone h5⟩
    · show (sampReset idx upd (a.st : SampSt) none).rem = (sampReset idx upd (b.st : SampSt) none).rem
      simp only [sampReset, ia, ib, h3, if_true]
    · show (sampReset idx upd (a.st : SampSt) none).epoch = (sampReset idx upd (b.st : SampSt) none).epoch
      simp only [sampReset, ia, ib, h3, if_true]
  l1 := fun s h => ⟨rfl, rfl, rfl, Node.Reach.get h, h⟩
  l2 := fun s r hs hr =>
    have sp := sampReset_some_spec idx upd (s.st : SampSt) (r.st : SampSt) s.nexted (samplerNode_reach idx upd e0 s hs)
    ⟨sp.1, sp.2.1, sp.2.2, Node.Reach.resetSome hr hs, Node.Reach.get hs⟩
  l2f := fun s hs =>
    have sp := sampReset_some_spec idx upd (s.st : SampSt) (samplerNode idx upd e0).fresh s.nexted
      (samplerNode_reach idx upd e0 s hs)
    ⟨sp.1, sp.2.1, sp.2.2, Node.Reach.initSome hs, Node.Reach.get hs⟩
  nr := by
    intro s hs ns
    have inv := samplerNode_reach idx upd e0 s hs
    have sp := sampNext_spec idx (s.st : SampSt) s.nexted inv
    have i1 : (s.st : SampSt).started = true := by rw [inv.2.2.2, ns]
    have i2 : (sampNext (s.st : SampSt)).2.started = true := sp.1.2.2.2
    refine ⟨?_, rfl, ?_, Node.Reach.resetNone (Node.Reach.next hs), Node.Reach.resetNone hs⟩
    · show (sampReset idx upd (sampNext (s.st : SampSt)).2 none).rem = (sampReset idx upd (s.st : SampSt) none).rem
      simp only [sampReset, i1, i2, sp.2.1, if_true]
    · show (sampReset idx upd (sampNext (s.st : SampSt)).2 none).epoch = (sampReset idx upd (s.st : SampSt) none).epoch
      simp only [sampReset, i1, i2, sp.2.1, if_true]
  stopIdem := by
    intro s hs h
    have inv := samplerNode_reach idx upd e0 s hs
    have sp := sampNext_spec idx (s.st : SampSt) s.nexted inv
    have hout : (sampNext (s.st : SampSt)).1 = .stop := h
    have hrem : (s.st : SampSt).rem = [] := by
      cases hr : (s.st : SampSt).rem with
      | nil => rfl
      | cons x r => rw [sp.2.2.1, hr] at hout; cases hout
    have hr1 := Node.Reach.next hs
    have sp1 := sampNext_spec idx (sampNext (s.st : SampSt)).2 true sp.1
    have hrem1 : (sampNext (s.st : SampSt)).2.rem = [] := by rw [sp.2.2.2.1, hrem]; rfl
    refine ⟨?_, ?_, ?_, ?_, Node.Reach.next hr1, hr1⟩
    · show (sampNext (sampNext (s.st : SampSt)).2).1 = .stop
      rw [sp1.2.2.1, hrem1]
    · show (sampNext (sampNext (s.st : SampSt)).2).2.rem = (sampNext (s.st : SampSt)).2.rem
      rw [sp1.2.2.2.1, hrem1]; rfl
    · show (sampNext (sampNext (s.st : SampSt)).2).2.ny = (sampNext (s.st : SampSt)).2.ny
      rw [sp1.2.2.2.2, hrem1]
    · show (sampNext (sampNext (s.st : SampSt)).2).2.epoch = (sampNext (s.st : SampSt)).2.epoch
      rw [sp1.2.1]

/-! ## `IterableWrapper` over a `Stateful` iterable -/

/-- What is assumed of a user's `Stateful` iterable: an observational equivalence `E` on its states and an
invariant `I` of the states the wrapper can drive it into, such that `iter ∘ load_state_dict ∘ state_dict`
returns to an equivalent state and one more `next()` does not change what the next `iter()` starts. -/
structure StLaws (it : StIter) (E : it.τ → it.τ → Prop) (I : it.τ → Prop) : Prop where
  esymm : ∀ a b, E a b → E b a
  etrans : ∀ a b c, E a b → E b c → E a c
  erefl : ∀ a, I a → E a a
  i_init : I it.init
  i_iter : ∀ a, I a → I (it.iter a)
  i_nxt : ∀ a, I a → I (it.nxt a).2
  i_load : ∀ a s, I a → I s → I (it.iter (it.load a (it.sd s)))
  e_nxt : ∀ a b, E a b → (it.nxt a).1 = (it.nxt b).1 ∧ E (it.nxt a).2 (it.nxt b).2
  e_iter : ∀ a b, E a b → E (it.iter a) (it.iter b)
  roundtrip : ∀ s r, I s → I r → E (it.iter (it.load r (it.sd s))) s
  nr : ∀ s, I s → E (it.iter (it.nxt s).2) (it.iter s)
  stop_idem : ∀ s, I s → (it.nxt s).1 = .stop → (it.nxt (it.nxt s).2).1 = .stop ∧ E (it.nxt (it.nxt s).2).2 (it.nxt s).2

theorem stNext_its (it : StIter) (st : SrcSt it) : (stNext it st).2.its = (it.nxt st.its).2 := by
  rcases hx : it.nxt st.its with ⟨o, s'⟩
  cases o <;> simp [stNext, hx]

theorem stNext_out (it : StIter) (st : SrcSt it) : (stNext it st).1 = (it.nxt st.its).1 := by
  rcases hx : it.nxt st.its with ⟨o, s'⟩
  cases o <;> simp [stNext, hx]

theorem stNext_ny (it : StIter) (st : SrcSt it) :
    (stNext it st).2.ny = (match (it.nxt st.its).1 with | .item _ => st.ny + 1 | _ => st.ny) := by
  rcases hx : it.nxt st.its with ⟨o, s'⟩
  cases o <;> simp [stNext, hx]

theorem statefulSource_reach (it : StIter) {E : it.τ → it.τ → Prop} {I : it.τ → Prop} (L : StLaws it E I)
    (r : Run (statefulSource it)) (h : (statefulSource it).Reach r) : I (r.st : SrcSt it).its := by
  induction h with
  | initNone => exact L.i_iter _ L.i_init
  | @initSome r' _ ih => exact L.i_load _ _ L.i_init ih
  | @next r _ ih =>
    have h := L.i_nxt _ ih
    rw [← stNext_its it (r.st : SrcSt it)] at h
    exact h
  | get _ ih => exact ih
  | resetNone _ ih => exact L.i_iter _ ih
  | resetSome _ _ ih1 ih2 => exact L.i_load _ _ ih1 ih2

def stR (it : StIter) (E : it.τ → it.τ → Prop) (a b : Run (statefulSource it)) : Prop :=
  E (a.st : SrcSt it).its (b.st : SrcSt it).its ∧ (a.st : SrcSt it).ny = (b.st : SrcSt it).ny ∧
  (statefulSource it).Reach a ∧ (statefulSource it).Reach b

theorem statefulSource_good (it : StIter) {E : it.τ → it.τ → Prop} {I : it.τ → Prop} (L : StLaws it E I) :
    Good (statefulSource it) (stR it E) where
  symm := fun a b ⟨h1, h2, h3, h4⟩ => ⟨L.esymm _ _ h1, h2.symm, h4, h3⟩
  trans := fun a b c ⟨h1, h2, h3, _⟩ ⟨k1, k2, _, k4⟩ => ⟨L.etrans _ _ _ h1 k1, h2.trans k2, h3, k4⟩
  reach := fun a b h => h.2.2.1
  refl := fun s h => ⟨L.erefl _ (statefulSource_reach it L s h), rfl, h, h⟩
  next := by
    rintro a b ⟨h1, h2, h3, h4⟩
    have e := L.e_nxt _ _ h1
    refine ⟨?_, ?_, ?_, Node.Reach.next h3, Node.Reach.next h4⟩
    · exact (stNext_out it (a.st : SrcSt it)).trans (e.1.trans (stNext_out it (b.st : SrcSt it)).symm)
    · have h := e.2
      rw [← stNext_its it (a.st : SrcSt it), ← stNext_its it (b.st : SrcSt it)] at h
      exact h
    · have ha := stNext_ny it (a.st : SrcSt it)
      have hb := stNext_ny it (b.st : SrcSt it)
      rw [e.1, h2] at ha
      exact ha.trans hb.symm
  resetNone := fun a b ⟨h1, _, h3, h4⟩ _ _ =>
    ⟨L.e_iter _ _ h1, rfl, Node.Reach.resetNone h3, Node.Reach.resetNone h4⟩
  l1 := fun s h => ⟨L.erefl _ (statefulSource_reach it L s h), rfl, Node.Reach.get h, h⟩
  l2 := fun s r hs hr =>
    ⟨L.roundtrip _ _ (statefulSource_reach it L s hs) (statefulSource_reach it L r hr), rfl,
      Node.Reach.resetSome hr hs, Node.Reach.get hs⟩
  l2f := fun s hs =>
    ⟨L.roundtrip _ _ (statefulSource_reach it L s hs) L.i_init, rfl, Node.Reach.initSome hs, Node.Reach.get hs⟩
  nr := by
    intro s hs _
    refine ⟨?_, rfl, Node.Reach.resetNone (Node.Reach.next hs), Node.Reach.resetNone hs⟩
    have h := L.nr _ (statefulSource_reach it L s hs)
    rw [← stNext_its it (s.st : SrcSt it)] at h
    exact h
  stopIdem := by
    intro s hs h
    have hI := statefulSource_reach it L s hs
    have hout : (it.nxt (s.st : SrcSt it).its).1 = .stop := (stNext_out it (s.st : SrcSt it)).symm.trans h
    have si := L.stop_idem _ hI hout
    have hr1 := Node.Reach.next hs
    have e1 := stNext_its it (s.st : SrcSt it)
    have o2 := stNext_out it (stNext it (s.st : SrcSt it)).2
    have i2 := stNext_its it (stNext it (s.st : SrcSt it)).2
    have n2 := stNext_ny it (stNext it (s.st : SrcSt it)).2
    rw [e1] at o2 i2 n2
    refine ⟨o2.trans si.1, ?_, ?_, Node.Reach.next hr1, hr1⟩
    · show E (stNext it (stNext it (s.st : SrcSt it)).2).2.its (stNext it (s.st : SrcSt it)).2.its
      rw [i2, e1]; exact si.2
    · show (stNext it (stNext it (s.st : SrcSt it)).2).2.ny = (stNext it (s.st : SrcSt it)).2.ny
      rw [n2, si.1]

/-- The laws are satisfiable: the list-backed `Stateful` iterable used by the driver. -/
theorem listIter_laws (l : List Item) : StLaws (listIter l) Eq (fun s => s.2 = none) where
  esymm := fun _ _ h => h.symm
  etrans := fun _ _ _ h k => h.trans k
  erefl := fun _ _ => rfl
  i_init := rfl
  i_iter := by rintro ⟨p, q⟩ _; cases q <;> rfl
  i_nxt := by
    rintro ⟨p, q⟩ h
    simp only at h
    subst h
    show (match l[p]? with | some v => (Out.item v, (p + 1, (none : Option Nat))) | none => (Out.stop, (p, none))).2.2 = none
    cases l[p]? <;> rfl
  i_load := fun _ _ _ _ => rfl
  e_nxt := fun _ _ h => by subst h; exact ⟨rfl, rfl⟩
  e_iter := fun _ _ h => by subst h; rfl
  roundtrip := by
    rintro ⟨p, q⟩ ⟨p', q'⟩ h _
    simp only at h
    subst h
    rfl
  nr := by
    rintro ⟨p, q⟩ h
    simp only at h
    subst h
    show (listIter l).iter (match l[p]? with | some v => (Out.item v, (p + 1, (none : Option Nat))) | none => (Out.stop, (p, none))).2 = _
    cases l[p]? <;> rfl
  stop_idem := by
    rintro ⟨p, q⟩ _ h
    have e : (listIter l).nxt (p, q) = (match l[p]? with | some v => (Out.item v, (p + 1, q)) | none => (Out.stop, (p, q))) := rfl
    rw [e] at h ⊢
    cases hl : l[p]? with
    | some v => rw [hl] at h; cases h
    | none =>
      simp only
      rw [e, hl]
      exact ⟨rfl, rfl⟩

end TDV.Node
