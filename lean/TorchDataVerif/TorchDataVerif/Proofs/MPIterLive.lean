import TorchDataVerif.Proofs.MPIterF
/-!
# MP, iterable: a decreasing measure for the steps taken while the consumer is blocked
-/
namespace TDV.MP

/-- `5·(workers still expected to work) + 2·(queued index messages) + (results in flight)`. -/
def measureI (s : State) : Nat := 5 * countUp s.status + 2 * qsum s.workers + s.resQ.length

theorem countUp_set_false (l : List Bool) (u : Nat) (h : l.getD u false = true) :
    countUp (l.set u false) + 1 = countUp l := by
  induction l generalizing u with
  | nil => simp at h
  | cons x l ih =>
    cases u with
    | zero =>
      simp only [List.getD_cons_zero] at h
      subst h
      simp [countUp]; omega
    | succ u =>
      simp only [List.getD_cons_succ] at h
      have := ih u h
      simp only [List.set_cons_succ, countUp]; omega

theorem qsum_pushMsg_le (ws : List Worker) (w : Nat) (m : Msg) : qsum (pushMsg ws w m) ≤ qsum ws + 1 := by
  induction ws generalizing w with
  | nil => simp [pushMsg, qsum]
  | cons x ws ih =>
    cases w with
    | zero => simp [pushMsg, qsum]; omega
    | succ w =>
      have := ih w
      simp only [pushMsg, List.modify_succ_cons, qsum] at this ⊢
      omega

theorem tryPut_measure (c : Cfg) (s : State) :
    qsum (tryPut c s).workers ≤ qsum s.workers + 1 ∧ (tryPut c s).status = s.status ∧ (tryPut c s).resQ = s.resQ := by
  have hc := tryPut_sameCore c s
  refine ⟨?_, hc.status, hc.resQ⟩
  unfold tryPut
  split
  · simp
  · split
    · simp
    · simp only [dispatchTo]; exact qsum_pushMsg_le _ _ _

theorem skip_frame (s : State) (n : Nat) :
    (skip s n).workers = s.workers ∧ (skip s n).resQ = s.resQ ∧ (skip s n).status = s.status := by
  induction n generalizing s with
  | zero => exact ⟨rfl, rfl, rfl⟩
  | succ n ih =>
    unfold skip
    split
    · split
      · split
        · exact ⟨rfl, rfl, rfl⟩
        · exact ih _
      · exact ih _
    · exact ⟨rfl, rfl, rfl⟩

/-- A run of the `_next_data` loop that blocks again has not touched queues or worker status. -/
theorem loop_none_frame (c : Cfg) (n : Nat) (s : State) (h : (loop c n s).2 = none) :
    (loop c n s).1.workers = s.workers ∧ (loop c n s).1.resQ = s.resQ ∧ (loop c n s).1.status = s.status := by
  induction n generalizing s with
  | zero => exact ⟨rfl, rfl, rfl⟩
  | succ n ih =>
    unfold loop at h ⊢
    obtain ⟨e1, e2, e3⟩ := skip_frame s (s.sendIdx - s.rcvdIdx)
    generalize skip s (s.sendIdx - s.rcvdIdx) = s2 at h e1 e2 e3 ⊢
    dsimp only at h ⊢
    split
    · rename_i hle; simp [hle] at h
    · rename_i hle
      simp only [hle, if_false] at h
      split
      · exact ⟨e1, e2, e3⟩
      · rename_i e hlk
        rw [hlk] at h
        simp only at h
        split
        · rename_i r hres
          rw [hres] at h
          simp only at h
          split
          · rename_i hn
            simp only [hn, if_true] at h
            obtain ⟨a1, a2, a3⟩ := ih _ h
            exact ⟨a1.trans e1, a2.trans e2, a3.trans e3⟩
          · rename_i hn
            simp [hn] at h
        · exact ⟨e1, e2, e3⟩

theorem finish_waiting (p : State × Option Obs) (h : (finish p).phase = .waiting) : p.2 = none := by
  unfold finish at h
  split at h
  · simp at h
  · assumption

theorem finish_none (p : State × Option Obs) (h : p.2 = none) :
    (finish p).workers = p.1.workers ∧ (finish p).resQ = p.1.resQ ∧ (finish p).status = p.1.status := by
  unfold finish
  rw [h]
  exact ⟨rfl, rfl, rfl⟩

theorem head_owner_up (c : Cfg) (s : State) (g : Ghost) (r : Res) (rest : List Res) (h : MidI c s g none)
    (hq : s.resQ = r :: rest) : up s r.w = true := by
  have hu : r.w < c.W := h.rqw r (by rw [hq]; exact List.mem_cons_self ..)
  obtain ⟨rc, _⟩ := h.rq r.w hu
  have hfil : s.resQ.filter (fun x => x.w == r.w) = r :: rest.filter (fun x => x.w == r.w) := by
    rw [hq]; simp [List.filter]
  rw [hfil] at rc
  exact (h.st r.w hu).mpr (kindAt_le c r.w _ _ rc.1.2.2.2)

theorem onArrival_measure (c : Cfg) (s : State) (r : Res) (hup : up s r.w = true) :
    5 * countUp (onArrival c s r).status + 2 * qsum (onArrival c s r).workers ≤ 5 * countUp s.status + 2 * qsum s.workers ∧
    (onArrival c s r).resQ = s.resQ := by
  unfold onArrival
  split
  · have hcu := countUp_set_false s.status r.w hup
    by_cases hp : c.persistent = true
    · simp only [hp, if_true]
      obtain ⟨a1, a2, a3⟩ := tryPut_measure c
        { s with status := s.status.set r.w false, bad := s.bad || r.st.isNone }
      rw [a2, a3]
      simp only at a1 ⊢
      exact ⟨by omega, trivial⟩
    · have hp' : c.persistent = false := by simpa using hp
      simp only [hp', Bool.false_eq_true, if_false]
      obtain ⟨a1, a2, a3⟩ := tryPut_measure c
        { markUnavailable c s r.w false with bad := (markUnavailable c s r.w false).bad || r.st.isNone }
      rw [a2, a3]
      have hq := qsum_pushMsg_le s.workers r.w .stop
      simp only [markUnavailable] at a1 ⊢
      exact ⟨by omega, trivial⟩
  · exact ⟨Nat.le_refl _, rfl⟩

theorem loop_waiting_frame (c : Cfg) (n : Nat) (X : State) (h : (finish (loop c n X)).phase = .waiting) :
    (finish (loop c n X)).workers = X.workers ∧ (finish (loop c n X)).resQ = X.resQ ∧
    (finish (loop c n X)).status = X.status := by
  have hn := finish_waiting _ h
  obtain ⟨f1, f2, f3⟩ := finish_none _ hn
  obtain ⟨l1, l2, l3⟩ := loop_none_frame c n X hn
  exact ⟨f1.trans l1, f2.trans l2, f3.trans l3⟩

theorem recvData_waiting_frame (c : Cfg) (s : State) (r : Res) (hio : c.inOrder = true)
    (h : (recvData c s r).phase = .waiting) :
    (recvData c s r).workers = (onArrival c { s with outstanding := s.outstanding - 1 } r).workers ∧
    (recvData c s r).resQ = (onArrival c { s with outstanding := s.outstanding - 1 } r).resQ ∧
    (recvData c s r).status = (onArrival c { s with outstanding := s.outstanding - 1 } r).status := by
  unfold recvData at h ⊢
  generalize onArrival c { s with outstanding := s.outstanding - 1 } r = t at h ⊢
  dsimp only at h ⊢
  by_cases hne : r.idx ≠ t.rcvdIdx
  · rw [if_pos hne] at h ⊢
    have hno : (!c.inOrder) = false := by simp [hio]
    rw [hno] at h ⊢
    simp only [Bool.false_eq_true, if_false] at h ⊢
    exact loop_waiting_frame c _ _ h
  · rw [if_neg hne] at h ⊢
    by_cases hn : r.kind = .notice
    · rw [if_pos hn] at h ⊢
      exact loop_waiting_frame c _ _ h
    · rw [if_neg hn] at h
      simp [finish] at h

/-- A `recv` after which the consumer is still blocked decreases the measure (iterable). -/
theorem recv_decreases_iter (c : Cfg) (s s' : State) (hio : c.inOrder = true) (h : InvI c s)
    (hst : step c s .recv = some s') (hph : s'.phase = .waiting) : measureI s' < measureI s := by
  simp only [step] at hst
  split at hst
  · cases hst
  · rename_i r rest hq
    split at hst
    · cases hst
    · rename_i hphs
      have hsd : s.shutdown = false := by
        rcases Bool.eq_false_or_eq_true s.shutdown with hsd | hsd
        · have := (h.down hsd).2.1; rw [hphs] at this; cases this
        · exact hsd
      obtain ⟨g, _, _, _, hm⟩ := h.core
      have hupr := head_owner_up c s g r rest (hm hsd).1 hq
      split at hst
      · cases hst
      · cases hst
        obtain ⟨m1, m2⟩ := onArrival_measure c { s with resQ := rest, outstanding := s.outstanding - 1 } r hupr
        obtain ⟨f1, f2, f3⟩ := recvData_waiting_frame c { s with resQ := rest } r hio hph
        unfold measureI
        rw [f1, f2, f3, m2, hq]
        simp only [List.length_cons] at m1 ⊢
        omega
    · rename_i k hk
      exact absurd hk (h.ph k)

theorem work_decreases_I (c : Cfg) (s s' : State) (w : Nat) (hst : step c s (.work w) = some s') :
    measureI s' < measureI s := by
  have h1 := work_decreases c s s' w hst
  have h2 : s'.status = s.status := by
    simp only [step] at hst
    split at hst
    · cases hst
    · split at hst
      · cases hst
      · split at hst
        · cases hst
        · cases hst; rfl
  unfold measureI
  unfold measure at h1
  rw [h2]; omega

end TDV.MP
