import TorchDataVerif.Proofs.NodesLoaderF
/-!
# Part G — `Pipe`: the syntax of pipelines, their nodes, their epochs, and the syntactic side conditions
-/
namespace TDV.E2EN
open TDV.Node TDV.Loader

/-- What is assumed of a user's `Stateful` iterable under `IterableWrapper`: the laws `StLaws` of C02 for some
equivalence `E` and invariant `I`, and on the invariant: `next()` never raises, returns items of `xs` only, and
every `iter()` yields exactly `xs`. -/
def StOk (it : StIter) (xs : List Item) : Prop :=
  ∃ (E : it.τ → it.τ → Prop) (I : it.τ → Prop), StLaws it E I ∧
    (∀ s, I s → ∀ e, (it.nxt s).1 ≠ .error e) ∧
    (∀ s, I s → ∀ v, (it.nxt s).1 = .item v → v ∈ xs) ∧
    (∀ s, I s → Yields (iterNode it) ⟨it.iter s, false⟩ xs)

theorem StOk.errFree {it : StIter} {xs : List Item} (h : StOk it xs) : ErrFree (statefulSource it) := by
  obtain ⟨E, I, L, he, _, _⟩ := h
  intro r hr e hc
  have hI := statefulSource_reach it L r hr
  exact he _ hI e ((stNext_out it (r.st : SrcSt it)).symm.trans hc)

theorem StOk.items {it : StIter} {xs : List Item} (h : StOk it xs) :
    ItemsSat (statefulSource it) (fun v => v ∈ xs) := by
  obtain ⟨E, I, L, _, hi, _⟩ := h
  intro r hr v hv
  have hI := statefulSource_reach it L r hr
  exact hi _ hI v ((stNext_out it (r.st : SrcSt it)).symm.trans hv)

theorem StOk.del {it : StIter} {xs : List Item} (h : StOk it xs) :
    Del (statefulSource it) (fun _ => xs) (fun _ _ => True) := by
  obtain ⟨E, I, L, _, _, hy⟩ := h
  refine Del.const ?_
  intro R hR
  have hI : I (R.st : SrcSt it).its := by
    rcases hR with hR | hR
    · exact statefulSource_reach it L R hR
    · subst hR; exact L.i_init
  exact statefulSource_denote it R xs (hy _ hI)

/-- Pipeline descriptions.  `stateful it xs`: `IterableWrapper` over a `Stateful`
iterable whose `iter()` yields `xs`; `map f`: `Mapper` (`f x = none`: `map_fn` raises on `x`); `buffered sf`:
`Prefetcher` / in-order `ParallelMapper` with `snapshot_frequency = sf` (sequential abstraction);
`unbatch`/`filter` carry the loop fuel of the model. -/
inductive Pipe where
  | list (l : List Item)
  | sampler (idx : Nat → List Item) (upd : Nat → Nat) (e0 : Nat)
  | stateful (it : StIter) (xs : List Item)
  | map (f : Item → Option Item) (p : Pipe)
  | batch (bs : Nat) (dl : Bool) (p : Pipe)
  | unbatch (fuel : Nat) (p : Pipe)
  | filter (fuel : Nat) (q : Item → Bool) (p : Pipe)
  | buffered (sf : Nat) (p : Pipe)

namespace Pipe

def node : Pipe → Node
  | .list l => listSource l
  | .sampler idx upd e0 => samplerNode idx upd e0
  | .stateful it _ => statefulSource it
  | .map f p => mapper f p.node
  | .batch bs dl p => batcher bs dl p.node
  | .unbatch fuel p => unbatcher fuel p.node
  | .filter fuel q p => Node.filter fuel q p.node
  | .buffered sf p => Node.buffered sf p.node

/-- `ParallelMapper(num_workers=0, prebatch=pb)` is derived syntax. -/
def prebatch (fuel : Nat) (f : Item → Option Item) (pb : Nat) (p : Pipe) : Pipe :=
  .unbatch fuel (.map (overBatch f) (.batch pb false p))

theorem prebatch_node (fuel : Nat) (f : Item → Option Item) (pb : Nat) (p : Pipe) :
    (prebatch fuel f pb p).node = prebatchMapper fuel f pb p.node := rfl

/-- The elements of a sequence item. -/
def unlist : Item → List Item
  | .list xs => xs
  | _ => []

/-- The items of the `j`-th consecutive epoch (reference semantics, from the denotation lemmas of C04). -/
def epochs : Pipe → Nat → List Item
  | .list l, _ => l
  | .sampler idx upd e0, j => idx (Ref.epochOf upd e0 j)
  | .stateful _ xs, _ => xs
  | .map f p, j => (p.epochs j).filterMap f
  | .batch bs dl p, j => (Ref.chunk bs dl (p.epochs j)).map Item.list
  | .unbatch _ p, j => (p.epochs j).flatMap unlist
  | .filter _ q p, j => (p.epochs j).filter q
  | .buffered _ p, j => p.epochs j

/-- A syntactic over-approximation of the items the pipeline can return. -/
def Items : Pipe → Item → Prop
  | .list l => fun v => v ∈ l
  | .sampler idx _ _ => fun v => ∃ e, v ∈ idx e
  | .stateful _ xs => fun v => v ∈ xs
  | .map f p => fun w => ∃ v, p.Items v ∧ f v = some w
  | .batch _ _ p => IsBatchOf p.Items
  | .unbatch _ p => ElemOf p.Items
  | .filter _ q p => fun v => p.Items v ∧ q v = true
  | .buffered _ p => p.Items

/-- At most `B` items per epoch, established below `Unbatcher`s and for list / sampler sources only (bounds `Filter`'s rejection loop). -/
def Below : Pipe → Nat → Prop
  | .list l, B => l.length ≤ B
  | .sampler idx _ _, B => ∀ e, (idx e).length ≤ B
  | .stateful _ _, _ => False
  | .map _ p, B => p.Below B
  | .batch _ _ p, B => p.Below B
  | .unbatch _ _, _ => False
  | .filter _ _ p, B => p.Below B
  | .buffered _ p, B => p.Below B

/-- The side conditions under which the pipeline never raises:
* `map f`: `f` is defined on every item its source can return;
* `batch`: `batch_size ≥ 1`;
* `unbatch`: every item of the source is a non-empty sequence; loop fuel `≥ 2` and more than the number of
  batches of an epoch;
* `stateful`: `StOk` (assumptions on the user's iterable);
* `filter`: loop fuel exceeds a bound on the number of items of an epoch of the source. -/
def Ok : Pipe → Prop
  | .list _ => True
  | .sampler _ _ _ => True
  | .stateful it xs => StOk it xs
  | .map f p => p.Ok ∧ ∀ v, p.Items v → (f v).isSome = true
  | .batch bs _ p => p.Ok ∧ 1 ≤ bs
  | .unbatch fuel p => p.Ok ∧ (∀ v, p.Items v → IsNeList v) ∧ 2 ≤ fuel ∧ ∀ e, (p.epochs e).length < fuel
  | .filter fuel _ p => p.Ok ∧ ∃ B, B < fuel ∧ p.Below B
  | .buffered _ p => p.Ok

/-- No epoch-counting source. -/
def NoSampler : Pipe → Prop
  | .list _ => True
  | .sampler _ _ _ => False
  | .stateful _ _ => True
  | .map _ p => p.NoSampler
  | .batch _ _ p => p.NoSampler
  | .unbatch _ p => p.NoSampler
  | .filter _ _ p => p.NoSampler
  | .buffered _ p => p.NoSampler

/-- No `Unbatcher` / `Prefetcher` / `ParallelMapper` above an epoch-counting source: their `reset(state)`
pulls from the source, which desynchronises `SamplerWrapper._started` from "an item was requested". -/
def Aligned : Pipe → Prop
  | .list _ => True
  | .sampler _ _ _ => True
  | .stateful _ _ => True
  | .map _ p => p.Aligned
  | .batch _ _ p => p.Aligned
  | .unbatch _ p => p.NoSampler
  | .filter _ _ p => p.Aligned
  | .buffered _ p => p.NoSampler

theorem NoSampler.aligned {p : Pipe} (h : p.NoSampler) : p.Aligned := by
  induction p with
  | list _ => trivial
  | sampler _ _ _ => exact h.elim
  | stateful _ _ => trivial
  | map _ _ ih => exact ih h
  | batch _ _ _ ih => exact ih h
  | unbatch _ _ _ => exact h
  | filter _ _ _ ih => exact ih h
  | buffered _ _ _ => exact h

theorem epochs_const {p : Pipe} (h : p.NoSampler) (e : Nat) : p.epochs e = p.epochs 0 := by
  induction p with
  | list _ => rfl
  | sampler _ _ _ => exact h.elim
  | stateful _ _ => rfl
  | map f p ih => simp only [epochs]; rw [ih h]
  | batch bs dl p ih => simp only [epochs]; rw [ih h]
  | unbatch _ p ih => simp only [epochs]; rw [ih h]
  | filter _ q p ih => simp only [epochs]; rw [ih h]
  | buffered _ p ih => simp only [epochs]; rw [ih h]

theorem epochs_len {p : Pipe} {B : Nat} (ok : p.Ok) (h : p.Below B) (e : Nat) : (p.epochs e).length ≤ B := by
  induction p with
  | list _ => exact h
  | sampler _ _ _ => exact h _
  | stateful _ _ => exact h.elim
  | map f p ih =>
    have := ih ok.1 h
    have h2 := List.length_filterMap_le f (p.epochs e)
    simp only [epochs]
    omega
  | batch bs dl p ih =>
    have := ih ok.1 h
    have h2 := chunkF_length bs dl ok.2 (p.epochs e).length (p.epochs e)
    simp only [epochs, List.length_map, Ref.chunk]
    omega
  | unbatch _ _ _ => exact h.elim
  | filter _ q p ih =>
    have := ih ok.1 h
    have h2 := List.length_filter_le q (p.epochs e)
    simp only [epochs]
    omega
  | buffered _ p ih => exact ih ok h

end Pipe
end TDV.E2EN
