import TorchDataVerif.Proofs.MPRIWalk
import TorchDataVerif.Proofs.MPRINoRes
import TorchDataVerif.Proofs.MPRIHist
/-!
# MPRI — the virtual configuration of a restored iterator

After `K` slots of the round robin worker `w` has had `T w` turns.  A worker with `b_w < T w` had ended before
the checkpoint; the restored worker sends its end-of-shard notice again at its next task.  In the virtual
configuration its shard is padded in front with `T w − b_w` dummy batches, so that it is *about to* end: all
`K` slots of the past were data tasks, and the restored state (positions shifted by the padding) is a
quiescent start state of the virtual configuration.
-/
namespace TDV.MPRI
open TDV.MP

def Tof (c : Cfg) (K w : Nat) : Nat := turns (walk c K).1 (walk c K).2 w

def offOf (c : Cfg) (K w : Nat) : Nat := Tof c K w - bOf c w

def e0Of (c : Cfg) (K w : Nat) : Bool := decide (bOf c w < Tof c K w)

def padShards (c : Cfg) (off : Nat → Nat) : List (List Item) :=
  (List.range c.W).map (fun w => List.replicate (off w) (Item.ok 0) ++ c.shards.getD w [])

def padCfg (c : Cfg) (K : Nat) : Cfg := withShards c (padShards c (offOf c K))

theorem pad_length (c : Cfg) (off : Nat → Nat) : (padShards c off).length = c.W := by simp [padShards]

theorem pad_getD (c : Cfg) (off : Nat → Nat) (w : Nat) (hw : w < c.W) :
    (padShards c off).getD w [] = List.replicate (off w) (Item.ok 0) ++ c.shards.getD w [] := by
  simp [padShards, List.getD_eq_getElem?_getD, List.getElem?_map, List.getElem?_range hw]

theorem pad_getD_ge (c : Cfg) (off : Nat → Nat) (w : Nat) (hw : c.W ≤ w) : (padShards c off).getD w [] = [] := by
  rw [List.getD_eq_getElem?_getD, List.getElem?_eq_none (by rw [pad_length]; exact hw)]
  rfl

theorem bOf_pad (c : Cfg) (off : Nat → Nat) (w : Nat) (hw : w < c.W) :
    bOf (withShards c (padShards c off)) w = off w + bOf c w := by
  show ((padShards c off).getD w []).length = _
  rw [pad_getD c off w hw]
  simp [bOf]

theorem fetchRel_pad (c : Cfg) (off : Nat → Nat) (hS : c.shards.length = c.W) : FetchRel c (padShards c off) off := by
  intro w pos
  by_cases hw : w < c.W
  · rw [pad_getD c off w hw, List.getElem?_append_right (by simp)]
    simp
  · rw [pad_getD_ge c off w (by omega)]
    have : c.shards.getD w [] = [] := by
      rw [List.getD_eq_getElem?_getD, List.getElem?_eq_none (by omega)]; rfl
    rw [this]; simp

theorem shardsOk_pad (c : Cfg) (off : Nat → Nat) (hok : ShardsOk c) : ShardsOk (withShards c (padShards c off)) := by
  intro w j hj
  have hj' : ((padShards c off).getD w [])[j]? = some Item.err := hj
  by_cases hw : w < c.W
  · rw [pad_getD c off w hw, List.getElem?_append] at hj'
    split at hj'
    · rw [List.getElem?_replicate] at hj'
      split at hj' <;> simp at hj'
    · exact hok _ _ hj'
  · rw [pad_getD_ge c off w (by omega)] at hj'
    simp at hj'

theorem walk_withShards (c : Cfg) (sh : List (List Item)) (n : Nat) : walk (withShards c sh) n = walk c n := by
  induction n with
  | zero => rfl
  | succ n ih => simp only [walk, ih]; rfl

theorem hist_withShards (c : Cfg) (sh : List (List Item)) (n : Nat) : hist (withShards c sh) n = hist c n := by
  induction n with
  | zero => rfl
  | succ n ih => simp only [hist, ih, walk_withShards]

/-! ## sums over workers -/

def sumW (f : Nat → Nat) (W : Nat) : Nat := ((List.range W).map f).sum

theorem sumW_succ (f : Nat → Nat) (W : Nat) : sumW f (W + 1) = sumW f W + f W := by
  simp [sumW, List.range_succ]

theorem sumW_add (f g : Nat → Nat) (W : Nat) : sumW (fun w => f w + g w) W = sumW f W + sumW g W := by
  induction W with
  | zero => rfl
  | succ W ih => rw [sumW_succ, sumW_succ, sumW_succ, ih]; omega

theorem sumW_congr (f g : Nat → Nat) (W : Nat) (h : ∀ w, w < W → f w = g w) : sumW f W = sumW g W := by
  induction W with
  | zero => rfl
  | succ W ih => rw [sumW_succ, sumW_succ, ih (fun w hw => h w (by omega)), h W (by omega)]

theorem sumW_ind (v W : Nat) (P : Prop) [Decidable P] :
    sumW (fun w => if v = w ∧ P then 1 else 0) W = if v < W ∧ P then 1 else 0 := by
  induction W with
  | zero => simp [sumW]
  | succ W ih =>
    rw [sumW_succ, ih]
    by_cases hP : P
    · by_cases h1 : v < W
      · have : ¬ v = W := by omega
        have h2 : v < W + 1 := by omega
        simp [h1, hP, this, h2]
      · by_cases h2 : v = W
        · simp [h2, hP]
        · have h3 : ¬ v < W + 1 := by omega
          simp [h1, h2, h3]
    · simp [hP]

/-- The number of data pairs is the sum of the workers' positions. -/
theorem ndE_sum (c : Cfg) (E : List (Nat × Nat)) (hE : ∀ p ∈ E, p.1 < c.W) : ndE c E = sumW (posE c E) c.W := by
  induction E using snoc_induction with
  | nil =>
    have : sumW (posE c []) c.W = sumW (fun _ => 0) c.W := sumW_congr _ _ _ (fun w _ => by simp [posE])
    rw [this]
    have : ∀ W, sumW (fun _ => 0) W = 0 := by
      intro W; induction W with
      | zero => rfl
      | succ W ih => rw [sumW_succ, ih]
    rw [this]; rfl
  | snoc E p ih =>
    have hp := hE p (List.mem_append_right _ (List.mem_singleton.mpr rfl))
    rw [ndE_snoc, ih (fun q hq => hE q (List.mem_append_left _ hq))]
    have : sumW (posE c (E ++ [p])) c.W =
        sumW (fun w => posE c E w + (if p.1 = w ∧ isD c p = true then 1 else 0)) c.W :=
      sumW_congr _ _ _ (fun w _ => posE_snoc c E p w)
    rw [this, sumW_add, sumW_ind]
    simp [hp]

/-! ## the real and the virtual configuration side by side -/

theorem hist_prefix (c : Cfg) (K n : Nat) (h : K ≤ n) : ∃ t, hist c n = hist c K ++ t := by
  induction n with
  | zero => have : K = 0 := by omega
            subst this; exact ⟨[], by simp⟩
  | succ n ih =>
    by_cases hK : K = n + 1
    · subst hK; exact ⟨[], by simp⟩
    · obtain ⟨t, ht⟩ := ih (by omega)
      exact ⟨t ++ [(walk c n).2], by simp only [hist]; rw [ht, List.append_assoc]⟩

theorem hist_count_mono (c : Cfg) (K n w : Nat) (h : K ≤ n) : (hist c K).count w ≤ (hist c n).count w := by
  obtain ⟨t, ht⟩ := hist_prefix c K n h
  rw [ht, List.count_append]; omega

theorem Tof_eq (c : Cfg) (hW : 0 < c.W) (K w : Nat) (hw : w < c.W) : Tof c K w = (hist c K).count w :=
  (hist_count c hW K w hw).symm

theorem livePairs_fst_lt (c : Cfg) (hW : 0 < c.W) (n : Nat) : ∀ p ∈ livePairs c (hist c n), p.1 < c.W := by
  intro p hp
  have : p ∈ liveFrom c 0 0 := by rw [← hist_live c hW n]; exact List.mem_append_left _ hp
  exact ((mem_live0 c p).mp this).1

/-- The ideal worker states after `n ≥ K` slots: the virtual ones are the real ones shifted. -/
theorem idealE_pad (c : Cfg) (hW : 0 < c.W) (K n w : Nat) (hn : K ≤ n) (hw : w < c.W) :
    idealE (padCfg c K) (e0Of c K) (livePairs (padCfg c K) (hist c n)) w =
      shW (offOf c K) w (idealE c (fun _ => false) (livePairs c (hist c n)) w) := by
  have hT := Tof_eq c hW K w hw
  have hmono := hist_count_mono c K n w hn
  have hb2 : bOf (padCfg c K) w = offOf c K w + bOf c w := bOf_pad c _ w hw
  simp only [idealE, shW, posE_livePairs, endE_livePairs, hb2, e0Of, offOf, hT]
  congr 1
  · omega
  · simp only [Bool.or_false]
    by_cases h1 : bOf c w < (hist c K).count w
    · have : bOf c w < (hist c n).count w := by omega
      simp [h1, this]
    · have h2 : (hist c K).count w - bOf c w = 0 := by omega
      simp [h1, h2]

theorem ndE_pad (c : Cfg) (hW : 0 < c.W) (K n : Nat) (hn : K ≤ n) :
    ndE (padCfg c K) (livePairs (padCfg c K) (hist c n)) =
      ndE c (livePairs c (hist c n)) + sumW (offOf c K) c.W := by
  have h1 := ndE_sum (padCfg c K) (livePairs (padCfg c K) (hist c n)) (by
    have := livePairs_fst_lt (padCfg c K) hW n
    rw [show hist (padCfg c K) n = hist c n from hist_withShards c _ n] at this
    exact this)
  have h2 := ndE_sum c (livePairs c (hist c n)) (livePairs_fst_lt c hW n)
  have hWeq : (padCfg c K).W = c.W := rfl
  rw [h1, h2, hWeq, ← sumW_add]
  apply sumW_congr
  intro w hw
  have := idealE_pad c hW K n w hn hw
  simp only [idealE, shW, WSt.mk.injEq] at this
  exact this.1

theorem bOf_padCfg_ge (c : Cfg) (hW : 0 < c.W) (K w : Nat) (hw : w < c.W) :
    (hist c K).count w ≤ bOf (padCfg c K) w := by
  have hb2 : bOf (padCfg c K) w = offOf c K w + bOf c w := bOf_pad c _ w hw
  rw [hb2, offOf, Tof_eq c hW K w hw]; omega

theorem livePairs_pad_succ (c : Cfg) (hW : 0 < c.W) (K n : Nat) :
    livePairs (padCfg c K) (hist c (n + 1)) = livePairs (padCfg c K) (hist c n) ++
      (if (hist c n).count (walk c n).2 ≤ bOf (padCfg c K) (walk c n).2 then
        [((walk c n).2, (hist c n).count (walk c n).2)] else []) := by
  simp only [hist]
  exact livePairs_snoc (padCfg c K) (hist c n) (walk c n).2

/-- Every slot of the virtual past is a data task of the virtual configuration. -/
theorem past_data (c : Cfg) (hW : 0 < c.W) (K n : Nat) (hn : n ≤ K) :
    ndE (padCfg c K) (livePairs (padCfg c K) (hist c n)) = n := by
  induction n with
  | zero => rfl
  | succ n ih =>
    rw [livePairs_pad_succ c hW K n]
    have hv := walk_lt c hW n
    have h1 : (hist c (n + 1)).count (walk c n).2 ≤ (hist c K).count (walk c n).2 :=
      hist_count_mono c (n + 1) K _ hn
    simp only [hist, List.count_append, List.count_singleton, beq_self_eq_true, if_true] at h1
    have h2 := bOf_padCfg_ge c hW K (walk c n).2 hv
    rw [if_pos (by omega), ndE_snoc, ih (by omega)]
    have : isD (padCfg c K) ((walk c n).2, (hist c n).count (walk c n).2) = true := by
      simp only [isD, decide_eq_true_eq]; omega
    simp [this]

/-- Beyond the past both configurations fetch the same items. -/
theorem dataItems_pad (c : Cfg) (hW : 0 < c.W) (K n : Nat) (hn : K ≤ n) :
    ∃ Y, dataItems (padCfg c K) (hist c n) = dataItems (padCfg c K) (hist c K) ++ Y ∧
      dataItems c (hist c n) = dataItems c (hist c K) ++ Y := by
  induction n with
  | zero =>
    have : K = 0 := by omega
    subst this; exact ⟨[], by simp, by simp⟩
  | succ n ih =>
    by_cases hK : K = n + 1
    · subst hK; exact ⟨[], by simp, by simp⟩
    · obtain ⟨Y, h1, h2⟩ := ih (by omega)
      have hv := walk_lt c hW n
      have hcnt : (hist c K).count (walk c n).2 ≤ (hist c n).count (walk c n).2 := hist_count_mono c K n _ (by omega)
      refine ⟨Y ++ ((c.shards.getD (walk c n).2 [])[(hist c n).count (walk c n).2]?).toList, ?_, ?_⟩
      · simp only [hist]
        rw [dataItems_snoc, h1, List.append_assoc]
        congr 2
        show (((padShards c (offOf c K)).getD (walk c n).2 [])[(hist c n).count (walk c n).2]?).toList = _
        congr 1
        rw [pad_getD c _ _ hv]
        have hoff : offOf c K (walk c n).2 ≤ (hist c n).count (walk c n).2 := by
          rw [offOf, Tof_eq c hW K _ hv]; omega
        rw [List.getElem?_append_right (by simpa using hoff)]
        simp only [List.length_replicate]
        by_cases h0 : offOf c K (walk c n).2 = 0
        · rw [h0]; simp
        · -- an ended worker: both fetches fail
          have hb : bOf c (walk c n).2 < (hist c K).count (walk c n).2 := by
            rw [offOf, Tof_eq c hW K _ hv] at h0; omega
          rw [List.getElem?_eq_none, List.getElem?_eq_none]
          · show bOf c (walk c n).2 ≤ _; omega
          · show bOf c (walk c n).2 ≤ _
            rw [offOf, Tof_eq c hW K _ hv]; omega
      · simp only [hist]
        rw [dataItems_snoc, h2, List.append_assoc]

end TDV.MPRI
