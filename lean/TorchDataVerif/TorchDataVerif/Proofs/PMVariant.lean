import TorchDataVerif.Proofs.PMProgress
/-! Variant: a natural-number measure that strictly decreases on every action that is neither a timeout
nor the start of a new `next()` call. -/
namespace TDV.PM
variable {c : Cfg} {s s' : State}

def RPc.rank : RPc → Nat
  | .init => 8 | .top => 7 | .acq => 6 | .next => 5 | .insrc => 4 | .app _ _ => 3 | .put _ => 2 | .ret => 1 | .exited => 0

/-- worker: 60 per held result + control rank -/
def WPc.w : WPc → Nat
  | .top => 3 | .chk => 2 | .get => 1 | .have _ => 60 | .exited => 0 | .dead => 0

def SPc.rank : SPc → Nat
  | .have _ => 4 | .drain => 3 | .top => 2 | .get => 1 | .exited => 0 | .off => 0

def CPc.rank : CPc → Nat
  | .top => 12 | .mp => 11 | .chk => 10 | .set1 => 9 | .get => 9 | .set2 => 8 | .rel _ => 8 | .pop _ => 7
  | .dchk1 => 7 | .dchk2 => 6 | .dset1 => 5 | .dset2 => 4
  | .boot => 4 | .idle => 3 | .shut1 => 2 | .closed => 1

def CPc.holdsN : CPc → Nat
  | .rel _ | .pop _ => 1
  | _ => 0

/-- Weighted distance of every result from the consumer (source 9, reader 8, in-queue 7, worker 6, intermediate
queue 5, sorter 4, buffer 3, sort queue 2, consumer 1; ×10), plus the control ranks of all threads. -/
def mu (c : Cfg) (s : State) : Nat :=
  10 * (9 * (c.src.length + 1 - s.pulled) + 8 * s.rpc.holds + 7 * s.inq.length + 5 * s.mid.length + 4 * s.spc.holds
        + 3 * s.buf.length + 2 * s.sq.length + s.cpc.holdsN)
  + s.rpc.rank + (s.wk.map WPc.w).sum + s.spc.rank + s.cpc.rank

theorem variant_R (h : Inv c s) {a : Action} (hs : stepR c s a = some s') (ht : a.isTimeout = false) :
    mu c s' < mu c s := by
  cases a <;> try (simp [stepR] at hs; done)
  case rInit => obtain ⟨h1, rfl⟩ := spec_rInit.mp hs; simp only [mu, h1, RPc.rank, RPc.holds]; omega
  case rIsSet =>
    obtain ⟨h1, rfl⟩ := spec_rIsSet.mp hs
    cases s.stop <;> simp [mu, h1, RPc.rank, RPc.holds]
  case rAcq => obtain ⟨h1, _, rfl⟩ := spec_rAcq.mp hs; simp only [mu, h1, RPc.rank, RPc.holds]; omega
  case rAcqT => simp [Action.isTimeout] at ht
  case rEnter => obtain ⟨h1, rfl⟩ := spec_rEnter.mp hs; simp only [mu, h1, RPc.rank, RPc.holds]; omega
  case rLeave =>
    obtain ⟨h1, rfl⟩ := spec_rLeave.mp hs
    have := h.rEarly (by simp [h1, RPc.early])
    cases c.src[s.pulled]? with
    | none => simp only [mu, h1, RPc.rank, RPc.holds]; omega
    | some v => cases snapDue c s.pulled <;> (simp only [mu, h1, RPc.rank, RPc.holds, if_true, Bool.false_eq_true, if_false]; omega)
  case rAppend => obtain ⟨v, i, h1, rfl⟩ := spec_rAppend.mp hs; simp only [mu, h1, RPc.rank, RPc.holds]; omega
  case rPut =>
    obtain ⟨m, h1, rfl⟩ := spec_rPut.mp hs
    cases m.pay <;> (simp only [mu, h1, RPc.rank, RPc.holds, List.length_append, List.length_singleton]; omega)
  case rRet => obtain ⟨h1, rfl⟩ := spec_rRet.mp hs; simp only [mu, h1, RPc.rank, RPc.holds]; omega

theorem variant_W (_h : Inv c s) {a : Action} (hs : stepW c s a = some s') (ht : a.isTimeout = false) :
    mu c s' < mu c s := by
  cases a <;> try (simp [stepW] at hs; done)
  case wIsSet i =>
    obtain ⟨h1, rfl⟩ := (spec_wIsSet i).mp hs
    have hx : ∃ x, (if (if c.proc = true then s.mpstop else s.stop) = true then WPc.chk else WPc.get) = x ∧ x.w ≤ 2 := by
      generalize (if c.proc = true then s.mpstop else s.stop) = b
      cases b
      · exact ⟨.get, by simp, by simp [WPc.w]⟩
      · exact ⟨.chk, by simp, by simp [WPc.w]⟩
    obtain ⟨x, hx, hxw⟩ := hx
    rw [hx]
    have h2 := sum_map_set WPc.w s.wk i _ x h1
    have h4 : WPc.top.w = 3 := rfl
    simp only [mu]
    omega
  case wEmpty i =>
    obtain ⟨h1, rfl⟩ := (spec_wEmpty i).mp hs
    have hx : ∃ x, (if s.inq.isEmpty = true then WPc.exited else WPc.get) = x ∧ x.w ≤ 1 := by
      split <;> exact ⟨_, rfl, by simp [WPc.w]⟩
    obtain ⟨x, hx, hxw⟩ := hx
    rw [hx]
    have h2 := sum_map_set WPc.w s.wk i _ x h1
    have h4 : WPc.chk.w = 2 := rfl
    simp only [mu]
    omega
  case wGet i =>
    obtain ⟨m, rest, h1, h2, rfl⟩ := (spec_wGet i).mp hs
    have h3 := sum_map_set WPc.w s.wk i _ (.have m) h1
    simp only [WPc.w] at h3
    simp only [mu, h2, List.length_cons]
    omega
  case wGetT i => simp [Action.isTimeout] at ht
  case wPut i =>
    obtain ⟨m, h1, rfl⟩ := (spec_wPut i).mp hs
    have h3 := sum_map_set WPc.w s.wk i _ .top h1
    simp only [WPc.w] at h3
    simp only [mu, List.length_append, List.length_singleton]
    omega
  case wDie i =>
    obtain ⟨_, hh⟩ := (spec_wDie i).mp hs
    rcases hh with ⟨m, h1, rfl⟩ | ⟨h1, rfl⟩
    · have h3 := sum_map_set WPc.w s.wk i _ .dead h1
      simp only [WPc.w] at h3
      simp only [mu]
      omega
    · rcases h1 with h1 | h1 | h1 <;>
      · have h3 := sum_map_set WPc.w s.wk i _ .dead h1
        simp only [WPc.w] at h3
        simp only [mu]
        omega

theorem variant_S (_h : Inv c s) {a : Action} (hs : stepS c s a = some s') (ht : a.isTimeout = false) :
    mu c s' < mu c s := by
  cases a <;> try (simp [stepS] at hs; done)
  case sIsSet =>
    obtain ⟨h1, rfl⟩ := spec_sIsSet.mp hs
    cases s.stop <;> simp [mu, h1, SPc.rank, SPc.holds]
  case sGet =>
    obtain ⟨m, rest, h1, h2, rfl⟩ := spec_sGet.mp hs
    simp only [mu, h1, h2, SPc.rank, SPc.holds, List.length_cons]; omega
  case sGetT => simp [Action.isTimeout] at ht
  case sHave =>
    obtain ⟨m, h1, rfl⟩ := spec_sHave.mp hs
    split
    · simp only [mu, h1, SPc.rank, SPc.holds, List.length_append, List.length_singleton]; omega
    · split
      · simp only [mu, h1, SPc.rank, SPc.holds, List.length_append, List.length_singleton]; omega
      · simp only [mu, h1, SPc.rank, SPc.holds, List.length_cons]; omega
  case sDrain =>
    obtain ⟨h1, rfl⟩ := spec_sDrain.mp hs
    cases ht' : bufTake s.cur s.buf with
    | none => simp only [mu, h1, SPc.rank, SPc.holds]; omega
    | some p =>
      obtain ⟨m, rest⟩ := p
      have := (bufTake_some _ _ _ _ ht').2.2.1
      simp only [mu, h1, SPc.rank, SPc.holds, List.length_append, List.length_singleton]; omega

theorem variant_C (h : Inv c s) {a : Action} (hs : stepC c s a = some s') (ht : a.isTimeout = false)
    (hc : a ≠ .cCall) : mu c s' < mu c s := by
  cases a <;> try (simp [stepC] at hs; done)
  case cBoot => obtain ⟨h1, _, rfl⟩ := spec_cBoot.mp hs; simp only [mu, h1, CPc.rank, CPc.holdsN]; omega
  case cBootT => simp [Action.isTimeout] at ht
  case cCall => exact absurd rfl hc
  case cIsSet =>
    obtain ⟨h1, rfl⟩ := spec_cIsSet.mp hs
    split <;> (simp only [mu, h1, CPc.rank, CPc.holdsN]; omega)
  case cMpIsSet =>
    obtain ⟨h1, rfl⟩ := spec_cMpIsSet.mp hs
    split <;> (simp only [mu, h1, CPc.rank, CPc.holdsN]; omega)
  case cChk =>
    obtain ⟨h1, rfl⟩ := spec_cChk.mp hs
    cases (s.done && decide (s.sem = c.max)) <;> simp [mu, h1, CPc.rank, CPc.holdsN]
  case cSet => obtain ⟨h1, rfl⟩ := spec_cSet.mp hs; simp only [mu, h1, CPc.rank, CPc.holdsN]; omega
  case cMpSet => obtain ⟨h1, rfl⟩ := spec_cMpSet.mp hs; simp only [mu, h1, CPc.rank, CPc.holdsN]; omega
  case cGet =>
    obtain ⟨m, rest, h1, h2, rfl⟩ := spec_cGet.mp hs
    cases hio : c.inOrder
    · simp only [outq, hio, Bool.false_eq_true, if_false] at h2
      cases m.pay <;> (simp only [mu, setOutq, hio, h1, h2, CPc.rank, CPc.holdsN, List.length_cons, Bool.false_eq_true, if_false]; omega)
    · simp only [outq, hio, if_true] at h2
      cases m.pay <;> (simp only [mu, setOutq, hio, h1, h2, CPc.rank, CPc.holdsN, List.length_cons, if_true]; omega)
  case cGetT => simp [Action.isTimeout] at ht
  case cRel =>
    obtain ⟨m, h1, _, rfl⟩ := spec_cRel.mp hs
    cases m.pay <;> (simp only [mu, h1, CPc.rank, CPc.holdsN]; omega)
  case cPop =>
    obtain ⟨m, y, h1, _, rfl⟩ := spec_cPop.mp hs
    simp only [mu, h1, CPc.rank, CPc.holdsN]; omega
  case cDeadIsSet =>
    obtain ⟨h1, rfl⟩ := spec_cDeadIsSet.mp hs
    have hst := stop_false_of h (by simp [h1])
    simp only [hst, Bool.false_eq_true, if_false, mu, h1, CPc.rank, CPc.holdsN]; omega
  case cDeadMpIsSet =>
    obtain ⟨h1, rfl⟩ := spec_cDeadMpIsSet.mp hs
    have hmp := mpstop_false_of h (stop_false_of h (by simp [h1]))
    simp only [hmp, Bool.false_eq_true, if_false, mu, h1, CPc.rank, CPc.holdsN]; omega
  case cDeadSet => obtain ⟨h1, rfl⟩ := spec_cDeadSet.mp hs; simp only [mu, h1, CPc.rank, CPc.holdsN]; omega
  case cDeadMpSet => obtain ⟨h1, rfl⟩ := spec_cDeadMpSet.mp hs; simp only [mu, h1, CPc.rank, CPc.holdsN]; omega
  case cShutSet => obtain ⟨h1, rfl⟩ := spec_cShutSet.mp hs; simp only [mu, h1, CPc.rank, CPc.holdsN]; omega
  case cShutMpSet => obtain ⟨h1, rfl⟩ := spec_cShutMpSet.mp hs; simp only [mu, h1, CPc.rank, CPc.holdsN]; omega

theorem variant_of_inv (h : Inv c s) {a : Action} (hs : step c s a = some s') (ht : a.isTimeout = false)
    (hc : a ≠ .cCall) : mu c s' < mu c s := by
  cases a <;> simp only [step] at hs
  all_goals first
    | exact variant_R h hs ht
    | exact variant_W h hs ht
    | exact variant_S h hs ht
    | exact variant_C h hs ht hc

end TDV.PM
