import TorchDataVerif.Proofs.MPRIPad
import TorchDataVerif.Proofs.MPRISound
import TorchDataVerif.Proofs.MPRRestore
/-!
# MPRI — the restored iterator, seen in the virtual configuration, satisfies the joint invariant
-/
namespace TDV.MPRI
open TDV.MP TDV.MPU TDV.MPR

/-- The observations of the virtual past. -/
def preV (c : Cfg) (K : Nat) : List Obs := (dataItems (padCfg c K) (hist c K)).map expected

/-- The virtual state: positions shifted by the padding, task indices shifted by the `K` slots of the past. -/
def vs (c : Cfg) (K : Nat) (s : State) : State := lift K (preV c K) (shift (offOf c K) s)

/-- What `exists_ptr` provides for a snapshot step `m`. -/
structure Ptr (c : Cfg) (m K lw : Nat) : Prop where
  nd : ndE c (livePairs c (hist c K)) = m
  last : LastIs c (livePairs c (hist c K)) lw
  cyc : (walk c K).2 = (lw + 1) % c.W
  slot : K = 0 ∨ ∃ K', K = K' + 1 ∧ lw = (walk c K').2 ∧ (hist c K').count lw < bOf c lw

/-- The snapshot handed to the restore constructor, spelled out. -/
theorem snap_of_ptr (c : Cfg) (hit : c.iterable = true) (hv : c.ValidI) (hok : ShardsOk c) (m K lw : Nat)
    (hp : Ptr c m K lw) (sn : Snap) (hsn : SnapEq c sn (idealAt c m)) :
    sn.step = m ∧ sn.lastW = lw ∧ sn.ws = (List.range c.W).map (idealE c (fun _ => false) (livePairs c (hist c K))) := by
  obtain ⟨R, hR⟩ : ∃ R, livePairs c (hist c K) ++ R = liveFrom c 0 0 := ⟨_, hist_live c hv.1.1 K⟩
  have := idealAt_eq c hit hv.2 hok _ R lw hR hp.last
  rw [hp.nd] at this
  rw [this] at hsn
  exact ⟨hsn.1, hsn.2.1, hsn.2.2.1⟩

theorem shWs_get (off : Nat → Nat) (ws : List WSt) (w : Nat) : (shWs off ws)[w]? = (ws[w]?).map (shW off w) := by
  unfold shWs
  rw [mapFrom_getElem?, Nat.zero_add]

theorem shWs_length (off : Nat → Nat) (ws : List WSt) : (shWs off ws).length = ws.length := mapFrom_length _ _ _

theorem shWs_ideal (c : Cfg) (hW : 0 < c.W) (K : Nat) :
    shWs (offOf c K) ((List.range c.W).map (idealE c (fun _ => false) (livePairs c (hist c K)))) =
      (List.range c.W).map (idealE (padCfg c K) (e0Of c K) (livePairs (padCfg c K) (hist c K))) := by
  apply List.ext_getElem?
  intro w
  rw [shWs_get]
  by_cases hw : w < c.W
  · simp only [List.getElem?_map, List.getElem?_range hw, Option.map_some]
    rw [idealE_pad c hW K K w (Nat.le_refl _) hw]
  · simp [List.getElem?_eq_none, hw]

end TDV.MPRI
