import TorchDataVerif.Proofs.MPRIPad
import TorchDataVerif.Proofs.MPRISound
import TorchDataVerif.Proofs.MPRRestore
/-!
# MPRI — the restored iterator, seen in the virtual configuration, satisfies the joint invariant
-/
namespace TDV.MPRI
open TDV.MP TDV.MPU TDV.MPR

/-- The observations of the virtual past. -/
def preV (c : Cfg) (K : Nat) : List Obs := (dataItems (padCfg c K) (hist c K)).map expected

/-- The virtual state: positions shifted by the padding, task indices shifted by the `K` slots of the past. -/
def vs (c : Cfg) (K : Nat) (s : State) : State := lift K (preV c K) (shift (offOf c K) s)

/-- What `exists_ptr` provides for a snapshot step `m`. -/
structure Ptr (c : Cfg) (m K lw : Nat) : Prop where
  nd : ndE c (livePairs c (hist c K)) = m
  last : LastIs c (livePairs c (hist c K)) lw
  cyc : (walk c K).2 = (lw + 1) % c.W
  slot : K = 0 ∨ ∃ K', K = K' + 1 ∧ lw = (walk c K').2 ∧ (hist c K').count lw < bOf c lw

/-- The snapshot handed to the restore constructor, spelled out. -/
theorem snap_of_ptr (c : Cfg) (hit : c.iterable = true) (hv : c.ValidI) (hok : ShardsOk c) (m K lw : Nat)
    (hp : Ptr c m K lw) (sn : Snap) (hsn : SnapEq c sn (idealAt c m)) :
    sn.step = m ∧ sn.lastW = lw ∧ sn.ws = (List.range c.W).map (idealE c (fun _ => false) (livePairs c (hist c K))) := by
  obtain ⟨R, hR⟩ : ∃ R, livePairs c (hist c K) ++ R = liveFrom c 0 0 := ⟨_, hist_live c hv.1.1 K⟩
  have := idealAt_eq c hit hv.2 hok _ R lw hR hp.last
  rw [hp.nd] at this
  rw [this] at hsn
  exact ⟨hsn.1, hsn.2.1, hsn.2.2.1⟩

theorem shWs_get (off : Nat → Nat) (ws : List WSt) (w : Nat) : (shWs off ws)[w]? = (ws[w]?).map (shW off w) := by
  unfold shWs
  rw [mapFrom_getElem?, Nat.zero_add]

theorem shWs_length (off : Nat → Nat) (ws : List WSt) : (shWs off ws).length = ws.length := mapFrom_length _ _ _

theorem shWs_ideal (c : Cfg) (hW : 0 < c.W) (K : Nat) :
    shWs (offOf c K) ((List.range c.W).map (idealE c (fun _ => false) (livePairs c (hist c K)))) =
      (List.range c.W).map (idealE (padCfg c K) (e0Of c K) (livePairs (padCfg c K) (hist c K))) := by
  apply List.ext_getElem?
  intro w
  rw [shWs_get]
  by_cases hw : w < c.W
  · simp only [List.getElem?_map, List.getElem?_range hw, Option.map_some]
    rw [idealE_pad c hW K K w (Nat.le_refl _) hw]
  · simp [List.getElem?_eq_none, hw]

theorem baseG_pad (c : Cfg) (hW : 0 < c.W) (K : Nat) :
    BaseG (padCfg c K) (hist c K) (walk c K).1 (walk c K).2 (Tof c K) := by
  have hW2 : 0 < (padCfg c K).W := hW
  refine ⟨walk_lt c hW K, hist_own c hW K, fun w hw => (Tof_eq c hW K w hw).symm, fun w _ => rfl,
    fun w hw => ?_, ?_⟩
  · rw [Tof_eq c hW K w hw]; exact bOf_padCfg_ge c hW K w hw
  · have := hist_live (padCfg c K) hW2 K
    rw [show hist (padCfg c K) K = hist c K from hist_withShards c _ K,
      show walk (padCfg c K) K = walk c K from walk_withShards c _ K] at this
    exact this

theorem lastIs_pad (c : Cfg) (hW : 0 < c.W) (m K lw : Nat) (hp : Ptr c m K lw) :
    LastIs (padCfg c K) (livePairs (padCfg c K) (hist c K)) lw := by
  rcases hp.slot with h0 | ⟨K', hK, hlw, hcnt⟩
  · subst h0
    rcases hp.last with ⟨_, h2⟩ | ⟨E0, j, h1, _⟩
    · exact Or.inl ⟨rfl, h2⟩
    · simp [hist, livePairs_nil] at h1
  · subst hK
    right
    have hv := walk_lt c hW K'
    have hb2 : bOf (padCfg c (K' + 1)) lw = offOf c (K' + 1) lw + bOf c lw := bOf_pad c _ lw (by rw [hlw]; exact hv)
    refine ⟨livePairs (padCfg c (K' + 1)) (hist c K'), (hist c K').count lw, ?_, by omega⟩
    rw [livePairs_pad_succ c hW (K' + 1) K', ← hlw, if_pos (by omega)]

/-- The worker snapshots and the stored snapshot of the restored base state, in the virtual configuration. -/
theorem ks_base (c : Cfg) (hW : 0 < c.W) (m K lw : Nat) (hp : Ptr c m K lw) (sn : Snap) (h1 : sn.step = m)
    (h2 : sn.lastW = lw)
    (h3 : sn.ws = (List.range c.W).map (idealE c (fun _ => false) (livePairs c (hist c K)))) :
    KS (padCfg c K) (e0Of c K) (sumW (offOf c K) c.W) (shWs (offOf c K) sn.ws)
      ⟨sn.step, sn.lastW, sn.main, shWs (offOf c K) sn.ws⟩ sn.step (livePairs (padCfg c K) (hist c K)) := by
  have hws := shWs_ideal c hW K
  rw [← h3] at hws
  have hyc : sn.step + sumW (offOf c K) c.W = ndE (padCfg c K) (livePairs (padCfg c K) (hist c K)) := by
    rw [ndE_pad c hW K K (Nat.le_refl _), hp.nd, h1]
  refine ⟨by rw [shWs_length, h3]; simp; rfl, ?_, hyc, ?_, _, [], by simp, hws, hyc, ?_⟩
  · intro w hw
    left
    have hw' : w < c.W := hw
    rw [hws, List.getElem?_map, List.getElem?_range hw']
    rfl
  · intro w he
    by_cases hw : w < c.W
    · have hb2 : bOf (padCfg c K) w = offOf c K w + bOf c w := bOf_pad c _ w hw
      rw [posE_livePairs, hb2]
      simp only [e0Of, decide_eq_true_eq] at he
      rw [offOf, Tof_eq c hW K w hw] at *
      omega
    · have : bOf (padCfg c K) w = 0 := by
        show ((padShards c (offOf c K)).getD w []).length = 0
        rw [pad_getD_ge c _ w (by omega)]; rfl
      omega
  · rw [h2]; exact lastIs_pad c hW m K lw hp

/-- The restored base state (before priming) is a quiescent start state of the virtual configuration. -/
theorem base_pad (c : Cfg) (hW : 0 < c.W) (m K lw : Nat) (hp : Ptr c m K lw) (sn : Snap) (h2 : sn.lastW = lw)
    (h3 : sn.ws = (List.range c.W).map (idealE c (fun _ => false) (livePairs c (hist c K)))) :
    Base (padCfg c K) (vs c K (restoreBase c sn)) K (walk c K).2 (Tof c K) := by
  refine ⟨by simp [vs, lift, shift, restoreBase], by simp [vs, lift, shift, restoreBase], rfl, rfl, ?_, ?_, ?_, rfl, rfl,
    rfl, rfl⟩
  · show (sn.lastW + 1) % c.W = _
    rw [h2, hp.cyc]
  · show ((mapFrom (shWorker (offOf c K)) 0 (restoreWorkers c sn.ws c.W)).map (liftWorker K)).length = c.W
    rw [List.length_map, mapFrom_length, restoreWorkers_length]
  · intro w k hk
    have hk' : ((mapFrom (shWorker (offOf c K)) 0 (restoreWorkers c sn.ws c.W)).map (liftWorker K))[w]? = some k := hk
    rw [List.getElem?_map, mapFrom_getElem?, Nat.zero_add] at hk'
    have hw : w < c.W := by
      rcases Nat.lt_or_ge w c.W with h | h
      · exact h
      · rw [List.getElem?_eq_none (by rw [restoreWorkers_length]; exact h)] at hk'; simp at hk'
    rw [restoreWorkers_get c sn.ws c.W w hw] at hk'
    simp only [Option.map_some, Option.some.injEq] at hk'
    subst hk'
    have hget : sn.ws[w]? = some (idealE c (fun _ => false) (livePairs c (hist c K)) w) := by
      rw [h3, List.getElem?_map, List.getElem?_range hw]; rfl
    rw [hget]
    refine ⟨rfl, ?_, rfl⟩
    show (restoreWorker c w (some (idealE c (fun _ => false) (livePairs c (hist c K)) w))).pos + offOf c K w = Tof c K w
    simp only [restoreWorker, idealE, posE_livePairs, endE_livePairs, Bool.or_false]
    rw [offOf, Tof_eq c hW K w hw]
    show (if decide (bOf c w < (hist c K).count w) = true then
        max (min ((hist c K).count w) (bOf c w)) (bOf c w) else min ((hist c K).count w) (bOf c w)) +
      ((hist c K).count w - bOf c w) = (hist c K).count w
    split
    · rename_i h; simp at h; omega
    · rename_i h; simp at h; omega

theorem vs_restore (c : Cfg) (K : Nat) (sn : Snap) :
    vs c K (restore c sn) = prime (padCfg c K) (c.P * c.W) (vs c K (restoreBase c sn)) := by
  unfold vs restore
  rw [← prime_shift c (padShards c (offOf c K)) (offOf c K), ← prime_lift]
  rfl

/-- The restored iterator, seen in the virtual configuration, satisfies the joint invariant. -/
theorem restore_J (c : Cfg) (hv : c.ValidI) (hit : c.iterable = true) (hio : c.inOrder = true) (hok : ShardsOk c)
    (m K lw : Nat) (hp : Ptr c m K lw) (sn : Snap) (hsn : SnapEq c sn (idealAt c m)) :
    J (padCfg c K) (e0Of c K) (sumW (offOf c K) c.W) (vs c K (restore c sn)) := by
  obtain ⟨h1, h2, h3⟩ := snap_of_ptr c hit hv hok m K lw hp sn hsn
  rw [vs_restore]
  have hobs : (vs c K (restoreBase c sn)).obs = preV c K := by simp [vs, lift, shift, restoreBase]
  apply base_J (padCfg c K) (e0Of c K) (sumW (offOf c K) c.W) _ K (walk c K).2 (walk c K).1 (Tof c K) (hist c K)
    hit hio (Nat.mul_pos hv.1.2 hv.1.1) (base_pad c hv.1.1 m K lw hp sn h2 h3) (baseG_pad c hv.1.1 K) (hist_length c K)
  · rw [hobs, preV, taskObs_map_expected]; exact ObsRel_map_expected _
  · rw [hobs]; exact not_mem_map_expected _ _ (fun it => by cases it <;> simp [expected])
  · rw [hobs]; exact not_mem_map_expected _ _ (fun it => by cases it <;> simp [expected])
  · exact ks_base c hv.1.1 m K lw hp sn h1 h2 h3

end TDV.MPRI
