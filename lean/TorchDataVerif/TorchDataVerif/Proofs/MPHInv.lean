import TorchDataVerif.Proofs.MPHBase
/-!
# MPH — the invariant of the fixed handshake: definition, initial state, `start`, `work`, `timeout`
-/
namespace TDV.MPH

/-- What a logged outcome of epoch `e` must satisfy. -/
def LogOk (c : Cfg) (e : Nat) (o : Out) : Prop :=
  (o = .finished → ∀ w, w < c.W → failKind c e w = .none) ∧
  (∀ e' w', o = .raised e' w' → e' = e ∧ w' < c.W ∧ failKind c e w' ≠ .none) ∧
  o ≠ .workerDied

structure Inv (c : Cfg) (s : State) : Prop where
  wl : s.workers.length = c.W
  ep : 1 ≤ s.epoch ∧ (s.epoch = 1 → s.phase = .idle)
  wk : ∀ (w : Nat) (k : Worker), s.workers[w]? = some k → k.alive = true ∧ (k.inbox = [] ∨ k.inbox = [s.epoch])
  idle : s.phase = .idle → s.queue = [] ∧ ∀ (w : Nat) (k : Worker), s.workers[w]? = some k → k.inbox = []
  q : ∀ a ∈ s.queue, a.w < c.W ∧ a.pay = payOf c s.epoch a.w
  cnt : ∀ n x, s.phase = .waiting n x → n = pend s.workers + s.queue.length
  exc : ∀ n e w, s.phase = .waiting n (some (e, w)) → e = s.epoch ∧ w < c.W ∧ failKind c e w ≠ .none
  ev : ∀ n, s.phase = .waiting n none → ∀ w, w < c.W → failKind c s.epoch w ≠ .none →
    (∃ k : Worker, s.workers[w]? = some k ∧ k.inbox = [s.epoch]) ∨ (⟨w, .exc s.epoch w⟩ : Ack) ∈ s.queue
  ie : ∀ (w : Nat) (k : Worker), s.workers[w]? = some k → k.inbox = [] →
    k.initExc = (if s.epoch = 1 then none else excOf c s.epoch w)
  log : ∀ e o, (e, o) ∈ s.log → LogOk c e o
  last : s.phase = .idle → ∀ e o, s.log.getLast? = some (e, o) → e = s.epoch

theorem mem_of_get {α : Type} (l : List α) (w : Nat) (k : α) (h : l[w]? = some k) : k ∈ l :=
  List.mem_of_getElem? h

theorem init_inv (c : Cfg) : Inv c (init c) := by
  have hget : ∀ (w : Nat) (k : Worker), (init c).workers[w]? = some k → k = ⟨true, none, []⟩ := by
    intro w k hk
    simp only [init, List.getElem?_replicate] at hk
    split at hk
    · cases hk; rfl
    · cases hk
  refine ⟨by simp [init], ⟨Nat.le_refl _, fun _ => rfl⟩, ?_, ?_, ?_, ?_, ?_, ?_, ?_, ?_, ?_⟩
  · intro w k hk; rw [hget w k hk]; exact ⟨rfl, Or.inl rfl⟩
  · intro _; exact ⟨rfl, fun w k hk => by rw [hget w k hk]⟩
  · intro a ha; cases ha
  · intro n x h; cases h
  · intro n e w h; cases h
  · intro n h; cases h
  · intro w k hk _; rw [hget w k hk]; rfl
  · intro e o h; cases h
  · intro _ e o h; cases h

theorem start_inv (c : Cfg) (s s' : State) (h : Inv c s) (hst : stepStart c s = some s') : Inv c s' := by
  unfold stepStart at hst
  split at hst
  · cases hst
  · rename_i hph
    have hidle : s.phase = .idle := by simpa using hph
    cases hst
    obtain ⟨hq, hin⟩ := h.idle hidle
    have hget : ∀ (w : Nat) (k' : Worker), (pushAll s.workers (s.epoch + 1))[w]? = some k' →
        ∃ k : Worker, s.workers[w]? = some k ∧ k' = { k with inbox := [s.epoch + 1] } := by
      intro w k' hk'
      simp only [pushAll, List.getElem?_map] at hk'
      cases hk : s.workers[w]? with
      | none => rw [hk] at hk'; cases hk'
      | some k =>
        rw [hk] at hk'
        simp only [Option.map_some, Option.some.injEq] at hk'
        exact ⟨k, rfl, by rw [← hk', hin w k hk]; rfl⟩
    refine ⟨by simp [pushAll, h.wl], ⟨by simp only; omega, fun h1 => by simp only at h1; have := h.ep.1; omega⟩,
      ?_, ?_, ?_, ?_, ?_, ?_, ?_, h.log, ?_⟩
    · intro w k' hk'
      obtain ⟨k, hk, rfl⟩ := hget w k' hk'
      exact ⟨(h.wk w k hk).1, Or.inr rfl⟩
    · intro hx; cases hx
    · intro a ha; simp only [hq] at ha; cases ha
    · intro n x hx
      simp only [Phase.waiting.injEq] at hx
      rw [pend_pushAll, pend_zero _ (fun k hk => by
        obtain ⟨w, hw⟩ := List.mem_iff_getElem?.mp hk
        exact hin w k hw), hq, h.wl]
      simp only [List.length_nil]; omega
    · intro n e w hx; simp only [Phase.waiting.injEq] at hx; cases hx.2
    · intro n _ w hw _
      left
      have hlt : w < s.workers.length := by rw [h.wl]; exact hw
      refine ⟨{ s.workers[w] with inbox := [s.epoch + 1] }, ?_, rfl⟩
      simp only [pushAll, List.getElem?_map, List.getElem?_eq_getElem hlt, Option.map_some]
      rw [hin w _ (List.getElem?_eq_getElem hlt)]; rfl
    · intro w k' hk' he
      obtain ⟨k, _, rfl⟩ := hget w k' hk'
      cases he
    · intro hx; cases hx

theorem work_inv (c : Cfg) (s s' : State) (w : Nat) (h : Inv c s) (hst : stepWork (handle c) s w = some s') :
    Inv c s' := by
  unfold stepWork at hst
  split at hst
  · cases hst
  · rename_i k hk
    split at hst
    · cases hst
    · split at hst
      · cases hst
      · rename_i e rest hin
        cases hst
        obtain ⟨hal, hib⟩ := h.wk w k hk
        have he : e = s.epoch ∧ rest = [] := by
          rcases hib with hib | hib
          · rw [hib] at hin; cases hin
          · rw [hib] at hin; cases hin; exact ⟨rfl, rfl⟩
        obtain ⟨rfl, rfl⟩ := he
        have hnid : s.phase ≠ .idle := by
          intro hx
          have := (h.idle hx).2 w k hk
          rw [this] at hin; cases hin
        have hne1 : s.epoch ≠ 1 := fun hx => hnid (h.ep.2 hx)
        have hw : w < c.W := by
          rw [← h.wl]
          exact (List.getElem?_eq_some_iff.mp hk).1
        rw [handle_eq]
        simp only
        have hget : ∀ (v : Nat) (k' : Worker), (s.workers.set w { k with initExc := excOf c s.epoch w, inbox := [] })[v]? = some k' →
            (v = w ∧ k' = { k with initExc := excOf c s.epoch w, inbox := [] }) ∨ (v ≠ w ∧ s.workers[v]? = some k') := by
          intro v k' hk'
          by_cases hv : v = w
          · subst hv
            rw [List.getElem?_set_self (List.getElem?_eq_some_iff.mp hk).1] at hk'
            cases hk'
            exact Or.inl ⟨rfl, rfl⟩
          · rw [List.getElem?_set_ne (fun hx => hv hx.symm)] at hk'
            exact Or.inr ⟨hv, hk'⟩
        refine ⟨by simp [h.wl], h.ep, ?_, ?_, ?_, ?_, h.exc, ?_, ?_, h.log, ?_⟩
        · intro v k' hk'
          rcases hget v k' hk' with ⟨_, rfl⟩ | ⟨_, hk''⟩
          · exact ⟨hal, Or.inl rfl⟩
          · exact h.wk v k' hk''
        · intro hx; exact absurd hx hnid
        · intro a ha
          rcases List.mem_append.mp ha with ha | ha
          · exact h.q a ha
          · simp only [List.mem_singleton] at ha; subst ha; exact ⟨hw, rfl⟩
        · intro n x hx
          have h1 := h.cnt n x hx
          have h2 := pend_set s.workers w k { k with initExc := excOf c s.epoch w, inbox := [] } hk
          rw [hin] at h2
          simp only [List.length_append, List.length_cons, List.length_nil] at h2 ⊢
          omega
        · intro n hx v hv hf
          by_cases hvw : v = w
          · subst hvw
            right
            rw [payOf_fail c s.epoch v hf]
            exact List.mem_append_right _ (List.mem_singleton.mpr rfl)
          · rcases h.ev n hx v hv hf with ⟨k0, hk0, hi0⟩ | hm
            · left
              exact ⟨k0, by rw [List.getElem?_set_ne (fun hx => hvw hx.symm)]; exact hk0, hi0⟩
            · right; exact List.mem_append_left _ hm
        · intro v k' hk' hi'
          rcases hget v k' hk' with ⟨rfl, rfl⟩ | ⟨_, hk''⟩
          · simp only [hne1, if_false]
          · exact h.ie v k' hk'' hi'
        · intro hx; exact absurd hx hnid

theorem timeout_inv (c : Cfg) (s s' : State) (h : Inv c s) (hst : stepTimeout s = some s') : s' = s := by
  unfold stepTimeout at hst
  split at hst
  · cases hst
  · split at hst
    · cases hst
    · have : anyDead s.workers = false := anyDead_false _ (fun k hk => by
        obtain ⟨w, hw⟩ := List.mem_iff_getElem?.mp hk
        exact (h.wk w k hw).1)
      rw [this] at hst
      simp only [Bool.false_eq_true, if_false, Option.some.injEq] at hst
      exact hst.symm

end TDV.MPH
