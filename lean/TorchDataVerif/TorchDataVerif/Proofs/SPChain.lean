import TorchDataVerif.Proofs.SPRef
/-! Chains of resumes and sequences of epochs. -/
namespace TDV.SP
open TDV.Sampler

section
variable {W SSt D Ds Dt : Type} (S : IdxSrc W SSt) (Da : Data D Ds Dt) (c : Cfg)

theorem obsN_add : ∀ (a b : Nat) (x : It W D),
    obsN S Da c (a + b) x = obsN S Da c a x ++ obsN S Da c b (nextN S Da c a x)
  | 0, b, x => by simp [obsN, nextN]
  | a + 1, b, x => by
    rw [Nat.add_right_comm, obsN, obsN, nextN, obsN_add a b]
    rfl

variable {items : List Nat} (L : IterLaw Da items) {sh : Shape}

theorem simI_nextN (hS : InfSrc S sh) (hit : Da.iterable = true) (hcf : ∀ v, c.collateFail v = false)
    (k : Nat) (x x' : It W D) (h : SimI L x x') (hnf : x.finished = false)
    (hobs : ∀ o ∈ obsN S Da c k x, o ≠ .stop) :
    SimI L (nextN S Da c k x) (nextN S Da c k x') ∧ (nextN S Da c k x).finished = false := by
  obtain ⟨h1, h2, h3⟩ := h
  obtain ⟨_, p, f, _, a, b, a', b'⟩ := posSim_nextN S Da c L hS hit hcf k x x' h3 hnf hobs
  exact ⟨⟨by rw [b, b', h1], by rw [a, a', h2], p⟩, f⟩

/-- **Chain of resumes, dataset with state**: after every `k_i` further batches the state is taken and loaded
into a new iterator over a new between-epochs dataset object; the iterator at the end of the chain is similar
to the uninterrupted iterator after `Σ k_i` batches (as long as the epoch has that many). -/
theorem chain_simI (hS : InfSrc S sh) (hit : Da.iterable = true) (hcf : ∀ v, c.collateFail v = false)
    (SL : StateLaw Da items L) (w : W) (d : D) (hg : L.Good d) :
    ∀ (ks : List (Nat × W × D)) (K : Nat) (x1 : It W D), (∀ e ∈ ks, L.Good e.2.2) →
      (∀ o ∈ obsN S Da c (K + (ks.map (·.1)).sum) (create S Da w d), o ≠ .stop) →
      SimI L (nextN S Da c K (create S Da w d)) x1 →
      ∃ xr, chain S Da c ks x1 = some xr ∧
        SimI L (nextN S Da c (K + (ks.map (·.1)).sum) (create S Da w d)) xr
  | [], K, x1, _, _, h => ⟨x1, rfl, by simpa using h⟩
  | (k, w', d') :: r, K, x1, hgs, hobs, h => by
    have hsum : K + (((k, w', d') :: r).map (·.1)).sum = (K + k) + (r.map (·.1)).sum := by
      simp [Nat.add_assoc]
    rw [hsum] at hobs ⊢
    have hobsK : ∀ o ∈ obsN S Da c K (create S Da w d), o ≠ .stop := by
      intro o ho
      refine hobs o ?_
      rw [Nat.add_assoc, obsN_add]; simp [ho]
    have hobsk : ∀ o ∈ obsN S Da c k (nextN S Da c K (create S Da w d)), o ≠ .stop := by
      intro o ho
      refine hobs o ?_
      rw [Nat.add_assoc, obsN_add, obsN_add]; simp [ho]
    have hfinK := (simI_nextN S Da c L hS hit hcf K _ _ (simI_create S Da L w w d d hg hg) rfl hobsK).2
    have h2 := (simI_nextN S Da c L hS hit hcf k _ _ h hfinK hobsk).1
    rw [← nextN_add] at h2
    obtain ⟨x', hr, hx'⟩ := restore_simI S Da c L hS hit SL _ _ h2 w' d' (hgs (k, w', d') (by simp))
    obtain ⟨xr, hc, hxr⟩ := chain_simI hS hit hcf SL w d hg r (K + k) x'
      (fun e he => hgs e (by simp [he])) hobs hx'
    exact ⟨xr, by simp only [chain, hr]; exact hc, hxr⟩

/-- **Chain of resumes, dataset without state** (every resume is a fast-forward; the counters are set again
after each, so the next state in the chain is right). -/
theorem chain_ffwd (hS : InfSrc S sh) (hit : Da.iterable = true) (hcf : ∀ v, c.collateFail v = false)
    (hds : Da.dsState = none) (hits : Da.itState = none) (hgood : ∀ d, L.Good d) (w : W) (d : D) :
    ∀ (ks : List (Nat × W × D)) (K : Nat) (x1 : It W D),
      (∀ o ∈ obsN S Da c (K + (ks.map (·.1)).sum) (create S Da w d), o ≠ .stop) →
      SimI L (nextN S Da c K (create S Da w d)) x1 →
      ∃ xr, chain S Da c ks x1 = some xr ∧
        SimI L (nextN S Da c (K + (ks.map (·.1)).sum) (create S Da w d)) xr
  | [], K, x1, _, h => ⟨x1, rfl, by simpa using h⟩
  | (k, w', d') :: r, K, x1, hobs, h => by
    have hsum : K + (((k, w', d') :: r).map (·.1)).sum = (K + k) + (r.map (·.1)).sum := by
      simp [Nat.add_assoc]
    rw [hsum] at hobs ⊢
    have hobsK : ∀ o ∈ obsN S Da c K (create S Da w d), o ≠ .stop := by
      intro o ho
      refine hobs o ?_
      rw [Nat.add_assoc, obsN_add]; simp [ho]
    have hobsKk : ∀ o ∈ obsN S Da c (K + k) (create S Da w d), o ≠ .stop := by
      intro o ho
      refine hobs o ?_
      rw [obsN_add]; simp [ho]
    have hobsk : ∀ o ∈ obsN S Da c k (nextN S Da c K (create S Da w d)), o ≠ .stop := by
      intro o ho
      refine hobsKk o ?_
      rw [obsN_add]; simp [ho]
    have hfinK := (simI_nextN S Da c L hS hit hcf K _ _
      (simI_create S Da L w w d d (hgood d) (hgood d)) rfl hobsK).2
    have h2 := (simI_nextN S Da c L hS hit hcf k _ _ h hfinK hobsk).1
    rw [← nextN_add] at h2
    obtain ⟨x', hr, hx'⟩ := restore_ffwd S Da c L hS hit hcf hds hits hgood w d (K + k) hobsKk _ h2 w' d'
    obtain ⟨xr, hc, hxr⟩ := chain_ffwd hS hit hcf hds hits hgood w d r (K + k) x' hobs hx'
    exact ⟨xr, by simp only [chain, hr]; exact hc, hxr⟩

end

/-! ### Sequences of epochs -/
section epochs
variable {W SSt D Ds Dt : Type} (S : IdxSrc W SSt) (Da : Data D Ds Dt) (c : Cfg)

/-- Map-style, a sampler that yields the same index batches `ixs` in every epoch (`R`: an invariant of its
between-epochs worlds): `E` epochs are `E` times the reference epoch. -/
theorem epochs_map_const (data : Nat → Option Nat) (hmap : Da.iterable = false)
    (hget : ∀ d i, (Da.get d i).1 = data i) (ixs : List Idx) (R : W → Prop)
    (hR : ∀ w, R w → ∃ w', IRun S.next (S.seed (S.iter w)) ixs w' ∧ R w') (fuel : Nat) (hf : ixs.length < fuel) :
    ∀ (E : Nat) (x : It W D), R x.sw →
      (Loader.epochs S Da c fuel E (Loader.at (SSt := SSt) (Ds := Ds) (Dt := Dt) x)).1 =
        List.replicate E (refMap data c ixs)
  | 0, _, _ => rfl
  | E + 1, x, hx => by
    obtain ⟨w', hrun, hR'⟩ := hR x.sw hx
    have he := epoch_map S Da c data hmap hget ixs fuel (create S Da x.sw x.dw) w' hrun hf
    rw [epochs_at_succ, he.1, epochs_map_const data hmap hget ixs R hR fuel hf E _ (by rw [he.2.1]; exact hR')]
    rfl

end epochs

end TDV.SP
