import TorchDataVerif.Proofs.NodesErrFree
import TorchDataVerif.Model.Loader
/-!
# Composing the node algebra (C02/C04) with the Loader development (C13) — part A

* `NoError` (Loader) and `ErrFree` (nodes) are the same predicate.
* `Yields` (C04) read as the `strm` of `DeliversEpochs`.
* `Del n ep At`: a compositional form of `DeliversEpochs n ep` with the witness `At` explicit, stated over the
  runtime states a plain `reset()` can be applied to (`V`: reachable, or the never reset fresh object) and with
  `Yields` instead of `outs = strm`.
-/
namespace TDV.E2EN
open TDV.Node TDV.Loader

/-- The two "never raises anything but `StopIteration`" notions coincide (definitionally). -/
theorem noError_iff_errFree (n : Node) : NoError n ↔ ErrFree n := Iff.rfl

theorem noError_of_errFree {n : Node} (h : ErrFree n) : NoError n := h

theorem errFree_of_noError {n : Node} (h : NoError n) : ErrFree n := h

/-- From position `p` of `l`: `Yields` gives the `strm` of the Loader development. -/
theorem yields_strm {n : Node} (l : List Item) (k : Nat) :
    ∀ (p : Nat) (r : Run n), Yields n r (l.drop p) → n.outs k r = strm l p k := by
  induction k with
  | zero => intro p r _; rfl
  | succ k ih =>
    intro p r h
    rw [outs_succ]
    show _ = (match l[p]? with | some v => Out.item v | none => Out.stop) ::
      strm l (if p < l.length then p + 1 else p) k
    rcases Nat.lt_or_ge p l.length with hlt | hge
    · have hd : l.drop p = l[p] :: l.drop (p + 1) := by simp
      rw [hd] at h
      have h1 : (n.rnext r).1 = Out.item l[p] := h.1
      have h2 : Yields n (n.rnext r).2 (l.drop (p + 1)) := h.2
      rw [h1, ih (p + 1) _ h2, List.getElem?_eq_getElem hlt]
      simp [hlt]
    · have hd : l.drop p = [] := List.drop_eq_nil_of_le hge
      rw [hd] at h
      have hs : Stops n r := h
      have h' := stops_iff.mp hs
      have h2 : Yields n (n.rnext r).2 (l.drop p) := by rw [hd]; exact h'.2
      have hnl : ¬ p < l.length := by omega
      rw [h'.1, ih p _ h2, List.getElem?_eq_none hge]
      simp [hnl]

theorem yields_strm0 {n : Node} {r : Run n} {l : List Item} (h : Yields n r l) (k : Nat) :
    n.outs k r = strm l 0 k :=
  yields_strm l k 0 r (by simpa using h)

/-- Compositional form of `DeliversEpochs`. -/
structure Del (n : Node) (ep : Nat → List Item) (At : Run n → Nat → Prop) : Prop where
  fresh : At n.rfresh 0
  next : ∀ r e, n.Reach r → At r e → At (n.rnext r).2 e
  get : ∀ r e, n.Reach r → At r e → At (n.rget r).2 e
  resetNone : ∀ r e, V n r → At r e → At (n.rreset r none) (if r.nexted then e + 1 else e)
  resetSome : ∀ r s e, V n r → n.Reach s → At s e → At (n.rreset r (some (n.rget s).1)) e
  yields : ∀ r e, V n r → At r e → Yields n (n.rreset r none) (ep (if r.nexted then e + 1 else e))

theorem Del.delivers {n : Node} {ep : Nat → List Item} {At : Run n → Nat → Prop} (d : Del n ep At) :
    DeliversEpochs n ep := by
  refine ⟨At, ?_, d.next, d.get, ?_, ?_, ?_, ?_, ?_⟩
  · exact d.resetNone n.rfresh 0 (Or.inr rfl) d.fresh
  · intro r e hr h; exact d.resetNone r e (Or.inl hr) h
  · intro r s e hr hs h; exact d.resetSome r s e (Or.inl hr) hs h
  · intro s e hs h; exact d.resetSome n.rfresh s e (Or.inr rfl) hs h
  · intro k; exact yields_strm0 (d.yields n.rfresh 0 (Or.inr rfl) d.fresh) k
  · intro r e k hr h; exact yields_strm0 (d.yields r e (Or.inl hr) h) k

/-- All epochs alike: nothing to count. -/
theorem Del.const {n : Node} {l : List Item} (h : ∀ r, V n r → Yields n (n.rreset r none) l) :
    Del n (fun _ => l) (fun _ _ => True) where
  fresh := trivial
  next := fun _ _ _ _ => trivial
  get := fun _ _ _ _ => trivial
  resetNone := fun _ _ _ _ => trivial
  resetSome := fun _ _ _ _ _ _ => trivial
  yields := fun r _ hr _ => h r hr

end TDV.E2EN
