import TorchDataVerif.Proofs.MPUFrame
/-!
# MPU — the structural invariant of one epoch with persistent workers

Between two `_reset`s: `W` workers, `W` worker snapshots, nothing but tasks in the index queues, no
acknowledgement in the result queue, never shut down, and `resetDone` is not observed.
-/
namespace TDV.MPU
open TDV.MP

structure SN (c : Cfg) (s : State) : Prop where
  wl : s.workers.length = c.W
  wsl : s.wsnaps.length = c.W
  msgs : ∀ (w : Nat) (k : Worker), s.workers[w]? = some k → ∀ m ∈ k.q, isTask m
  resq : ∀ r ∈ s.resQ, r.kind ≠ .ack ∧ r.w < c.W
  ph : ∀ k, s.phase ≠ .resuming k
  sh : s.shutdown = false
  nrd : Obs.resetDone ∉ s.obs

theorem SN_frame (c : Cfg) (s s' : State) (h : SN c s) (hf : Frame s s')
    (hph : ∀ k, s'.phase ≠ .resuming k) (hobs : Obs.resetDone ∉ s'.obs) : SN c s' := by
  refine ⟨hf.wk.1.trans h.wl, hf.wsl.trans h.wsl, ?_, by rw [hf.resQ]; exact h.resq, hph,
    hf.sh.trans h.sh, hobs⟩
  intro w k' hk' m hm
  obtain ⟨k, hk, _, _, _, ex, hq, hex⟩ := hf.wk.2 w k' hk'
  rw [hq] at hm
  rcases List.mem_append.mp hm with h1 | h1
  · exact h.msgs w k hk m h1
  · exact hex m h1

/-! ## what a call of `next()` can observe -/

theorem processData_out (c : Cfg) (s : State) (r : Res) : (processData c s r).2 ≠ .resetDone := by
  rw [processData_eq]
  cases r.kind with
  | data x =>
    rcases yieldItem_obs c (tryPut c { s with numTasks := s.numTasks.modify r.w (· - 1) }) r x with h | h <;>
      simp [h]
  | notice => simp
  | error => simp
  | ack => simp

theorem loop_out (c : Cfg) (n : Nat) (s : State) (x : Obs) (h : (loop c n s).2 = some x) : x ≠ .resetDone := by
  induction n generalizing s with
  | zero => simp [loop] at h
  | succ n ih =>
    rw [loop_succ_eq] at h
    generalize skip s (s.sendIdx - s.rcvdIdx) = t at h
    unfold loopBody at h
    split at h
    · simp at h; subst h; simp
    · split at h
      · simp at h
      · split at h
        · dsimp only at h
          split at h
          · exact ih _ h
          · simp at h; subst h; exact processData_out c _ _
        · simp at h

theorem finish_phase (p : State × Option Obs) : ∀ k, (finish p).phase ≠ .resuming k := by
  intro k
  unfold finish
  split <;> simp

theorem finish_loop_nrd (c : Cfg) (n : Nat) (s : State) (h : Obs.resetDone ∉ s.obs) :
    Obs.resetDone ∉ (finish (loop c n s)).obs := by
  rw [finish_obs, loop_obs]
  intro hm
  rcases List.mem_append.mp hm with h1 | h1
  · exact h h1
  · cases hx : (loop c n s).2 with
    | none => simp [hx] at h1
    | some x =>
      simp [hx] at h1
      exact loop_out c n s x hx h1.symm

theorem finish_process_nrd (c : Cfg) (s : State) (r : Res) (h : Obs.resetDone ∉ s.obs) :
    Obs.resetDone ∉ (finish ((processData c s r).1, some (processData c s r).2)).obs := by
  rw [finish_obs, processData_obs]
  intro hm
  rcases List.mem_append.mp hm with h1 | h1
  · exact h h1
  · simp at h1
    exact processData_out c s r h1.symm

theorem recvTail_nrd (c : Cfg) (t : State) (r : Res) (h : Obs.resetDone ∉ t.obs) :
    Obs.resetDone ∉ (recvTail c t r).obs ∧ ∀ k, (recvTail c t r).phase ≠ .resuming k := by
  unfold recvTail
  split
  · split
    · split
      · exact ⟨finish_loop_nrd c _ _ h, finish_phase _⟩
      · exact ⟨finish_process_nrd c _ r h, finish_phase _⟩
    · exact ⟨finish_loop_nrd c _ _ h, finish_phase _⟩
  · split
    · exact ⟨finish_loop_nrd c _ _ h, finish_phase _⟩
    · exact ⟨finish_process_nrd c _ r h, finish_phase _⟩

theorem recvData_nrd (c : Cfg) (s : State) (r : Res) (h : Obs.resetDone ∉ s.obs) :
    Obs.resetDone ∉ (recvData c s r).obs ∧ ∀ k, (recvData c s r).phase ≠ .resuming k := by
  rw [recvData_eq_tail]
  apply recvTail_nrd
  rw [onArrival_obs]
  exact h

/-! ## workers -/

theorem handle_task_out (c : Cfg) (sh : Bool) (w : Nat) (k : Worker) (i p : Nat) (sn : Bool) (r : Res)
    (h : (handle c sh w k (.task i p sn)).2 = some r) : r.kind ≠ .ack ∧ r.w = w := by
  simp only [handle] at h
  split at h
  · cases h
  · split at h <;> (cases h; simp)

theorem handle_q' (c : Cfg) (sh : Bool) (w : Nat) (k : Worker) (m : Msg) : (handle c sh w k m).1.q = k.q := by
  cases m with
  | stop => rfl
  | resume => rfl
  | task idx p sn =>
    simp only [handle]
    split
    · rfl
    · split <;> rfl

theorem step_work_eq (c : Cfg) (s : State) (w : Nat) :
    step c s (.work w) =
      match s.workers[w]? with
      | none => none
      | some k =>
        if !k.alive then none else
        match k.q with
        | [] => none
        | m :: rest =>
          some { s with workers := s.workers.set w (handle c s.shutdown w { k with q := rest } m).1
                        resQ := match (handle c s.shutdown w { k with q := rest } m).2 with
                                | some r => s.resQ ++ [r] | none => s.resQ } := rfl

theorem SN_work (c : Cfg) (s s' : State) (w : Nat) (h : SN c s) (hst : step c s (.work w) = some s') :
    SN c s' := by
  rw [step_work_eq] at hst
  cases hk : s.workers[w]? with
  | none => simp [hk] at hst
  | some k =>
    simp only [hk] at hst
    split at hst
    · cases hst
    · cases hq : k.q with
      | nil => simp [hq] at hst
      | cons m rest =>
        simp only [hq, Option.some.injEq] at hst
        have hwlt : w < c.W := by
          rw [← h.wl]; exact (List.getElem?_eq_some_iff.mp hk).1
        have hmsgs := h.msgs w k hk
        have hm : isTask m := hmsgs m (by rw [hq]; exact List.mem_cons_self ..)
        have hq' : (handle c s.shutdown w { k with q := rest } m).1.q = rest := handle_q' c _ w _ m
        subst hst
        refine ⟨by simp [h.wl], h.wsl, ?_, ?_, h.ph, h.sh, h.nrd⟩
        · intro w' k' hk' m' hm'
          simp only [List.getElem?_set] at hk'
          split at hk'
          · split at hk'
            · cases hk'
              rw [hq'] at hm'
              exact hmsgs m' (by rw [hq]; exact List.mem_cons_of_mem _ hm')
            · cases hk'
          · exact h.msgs w' k' hk' m' hm'
        · intro r hr
          cases m with
          | stop => exact hm.elim
          | resume => exact hm.elim
          | task i p sn =>
            cases ho : (handle c s.shutdown w { k with q := rest } (.task i p sn)).2 with
            | none => simp only [ho] at hr; exact h.resq r hr
            | some r0 =>
              simp only [ho] at hr
              rcases List.mem_append.mp hr with h1 | h1
              · exact h.resq r h1
              · simp at h1; subst h1
                obtain ⟨a1, a2⟩ := handle_task_out c _ w _ i p sn r ho
                exact ⟨a1, by rw [a2]; exact hwlt⟩

theorem markAll_obs' (c : Cfg) (l : List Nat) (s : State) : (markAll c s l).obs = s.obs := markAll_obs c l s

/-- One step that is not `reset` keeps the structural invariant (or the death of a worker is reported). -/
theorem step_SN (c : Cfg) (hp : c.persistent = true) (s s' : State) (a : Action) (h : SN c s)
    (ha : a ≠ .reset) (hst : step c s a = some s') : SN c s' ∨ died s' := by
  cases a with
  | reset => exact absurd rfl ha
  | work w => exact Or.inl (SN_work c s s' w h hst)
  | kill w =>
    simp only [step] at hst
    split at hst
    · cases hst
    · rename_i k hk
      split at hst
      · cases hst
      · cases hst
        left
        refine ⟨by simp [h.wl], h.wsl, ?_, h.resq, h.ph, h.sh, h.nrd⟩
        intro w' k' hk' m' hm'
        simp only [List.getElem?_set] at hk'
        split at hk'
        · split at hk'
          · cases hk'; exact h.msgs w k hk m' hm'
          · cases hk'
        · exact h.msgs w' k' hk' m' hm'
  | stateDict =>
    simp only [step] at hst
    split at hst
    · cases hst
    · cases hst
      left
      refine ⟨h.wl, h.wsl, h.msgs, h.resq, h.ph, h.sh, ?_⟩
      intro hm
      rcases List.mem_append.mp hm with h1 | h1
      · exact h.nrd h1
      · simp at h1
  | pollTimeout =>
    simp only [step] at hst
    split at hst
    · cases hst
    · split at hst
      · cases hst; exact Or.inl h
      · cases hst
        right
        unfold died
        simp
  | next =>
    simp only [step] at hst
    split at hst
    · cases hst
    · cases hst
      left
      exact SN_frame c s _ h ((loop_frame c hp _ s).trans (finish_frame _)) (finish_phase _)
        (finish_loop_nrd c _ s h.nrd)
  | recv =>
    rw [step_recv_eq] at hst
    cases hq : s.resQ with
    | nil => simp [hq] at hst
    | cons r rest =>
      simp only [hq] at hst
      cases hph : s.phase with
      | idle => simp [hph] at hst
      | resuming k => exact absurd hph (h.ph k)
      | waiting =>
        simp only [hph] at hst
        split at hst
        · cases hst
        · cases hst
          left
          have h0 : SN c { s with resQ := rest, phase := .waiting } := by
            refine ⟨h.wl, h.wsl, h.msgs, ?_, by simp, h.sh, h.nrd⟩
            intro r' hr'
            exact h.resq r' (by rw [hq]; exact List.mem_cons_of_mem _ hr')
          obtain ⟨n1, n2⟩ := recvData_nrd c { s with resQ := rest, phase := .waiting } r h.nrd
          exact SN_frame c _ _ h0 (recvData_frame c hp _ r) n2 n1

end TDV.MPU
