import TorchDataVerif.Proofs.PMInv
/-! `Inv` is preserved by the reader's actions. -/
namespace TDV.PM
variable {c : Cfg} {s s' : State}

theorem inv_rInit (h : Inv c s) (hpc : s.rpc = .init) : Inv c { s with rpc := .top, sinit := true } := by
  constructor <;> (try (dsimp only; same h))
  case rEarly => fr [hpc] h.rEarly
  case rApp => simp
  case rPut => simp
  case rExit => simp
  case cnt => fr [hpc] h.cnt
  case permits => fr [hpc] h.permits
  case storeSound => fr [hpc] h.storeSound
  case storeComplete => fr [hpc] h.storeComplete

theorem inv_rIsSet (h : Inv c s) (hpc : s.rpc = .top) : Inv c { s with rpc := if s.stop then .exited else .acq } := by
  constructor <;> (try (dsimp only; same h))
  case rEarly => intro _; exact h.rEarly (by simp [hpc, RPc.early])
  case rApp => cases s.stop <;> simp
  case rPut => cases s.stop <;> simp
  case rExit => cases hs : s.stop <;> simp
  case cnt => cases s.stop <;> fr [hpc] h.cnt
  case permits => cases s.stop <;> fr [hpc] h.permits
  case storeSound => cases s.stop <;> fr [hpc] h.storeSound
  case storeComplete => cases s.stop <;> fr [hpc] h.storeComplete

theorem inv_rAcq (h : Inv c s) (hpc : s.rpc = .acq) (hsem : 0 < s.sem) :
    Inv c { s with rpc := .next, sem := s.sem - 1 } := by
  have hnd : s.done = false := by
    cases hd : s.done
    · rfl
    · have := done_not_early h hd
      simp [hpc, RPc.early] at this
  have hnf : ¬ (s.done = true ∨ (c.term = .error ∧ c.src.length ∈ s.got)) := by
    intro hf
    have := fin_not_early h hf
    simp [hpc, RPc.early] at this
  constructor <;> (try (dsimp only; same h))
  case rEarly => fr [hpc] h.rEarly
  case rApp => simp
  case rPut => simp
  case rExit => simp
  case cnt => fr [hpc] h.cnt
  case permits => have := h.permits; simp only [held, pending, hpc, RPc.holds, RPc.inCall] at this ⊢; omega
  case fin =>
    intro hp
    rcases h.fin hp with hd | hd
    · exact Or.inl hd
    · exact absurd hd.2 hnf
  case getNotFin => simp [hnd]
  case storeSound => fr [hpc] h.storeSound
  case storeComplete => fr [hpc] h.storeComplete

theorem inv_rAcqT (h : Inv c s) (hpc : s.rpc = .acq) : Inv c { s with rpc := .top } := by
  constructor <;> (try (dsimp only; same h))
  case rEarly => fr [hpc] h.rEarly
  case rApp => simp
  case rPut => simp
  case rExit => simp
  case cnt => fr [hpc] h.cnt
  case permits => fr [hpc] h.permits
  case storeSound => fr [hpc] h.storeSound
  case storeComplete => fr [hpc] h.storeComplete

theorem inv_rEnter (h : Inv c s) (hpc : s.rpc = .next) : Inv c { s with rpc := .insrc } := by
  constructor <;> (try (dsimp only; same h))
  case rEarly => fr [hpc] h.rEarly
  case rApp => simp
  case rPut => simp
  case rExit => simp
  case cnt => fr [hpc] h.cnt
  case permits => fr [hpc] h.permits
  case storeSound => fr [hpc] h.storeSound
  case storeComplete => fr [hpc] h.storeComplete

theorem inv_rLeave_app (h : Inv c s) (hpc : s.rpc = .insrc) (v : Nat) (hv : c.src[s.pulled]? = some v)
    (hd : snapDue c s.pulled = true) : Inv c { s with pulled := s.pulled + 1, rpc := .app v s.pulled } := by
  have hlt : s.pulled < c.src.length := (List.getElem?_eq_some_iff.mp hv).1
  constructor <;> (try (dsimp only; same h))
  case pulledLe => simp; omega
  case rEarly => simp [RPc.early]
  case rApp => simp; exact ⟨hv, hd⟩
  case rPut => simp
  case rExit => simp
  case cnt =>
    intro k
    have := h.cnt k
    simp only [cnt, hpc, RPc.hand, optCount_none, optCount_some] at this ⊢
    split at this <;> split <;> split <;> omega
  case permits => have := h.permits; simp only [held, pending, hpc, RPc.holds, RPc.inCall] at this ⊢; omega
  case storeSound => fr [hpc] h.storeSound
  case storeComplete => fr [hpc] h.storeComplete

theorem inv_rLeave_put (h : Inv c s) (hpc : s.rpc = .insrc)
    (hnd : ∀ v, c.src[s.pulled]? = some v → snapDue c s.pulled = false) :
    Inv c { s with pulled := s.pulled + 1, rpc := .put ⟨rawAt c s.pulled, s.pulled⟩ } := by
  have hle := h.rEarly (by simp [hpc, RPc.early])
  constructor <;> (try (dsimp only; same h))
  case pulledLe => simp; omega
  case rEarly => simp [RPc.early]
  case rApp => simp
  case rPut => simp
  case rExit => simp
  case cnt =>
    intro k
    have := h.cnt k
    simp only [cnt, hpc, RPc.hand, optCount_none, optCount_some] at this ⊢
    split at this <;> split <;> split <;> omega
  case permits => have := h.permits; simp only [held, pending, hpc, RPc.holds, RPc.inCall] at this ⊢; omega
  case storeSound =>
    intro e he
    have := h.storeSound e he
    simp only [appended, hpc] at this ⊢
    refine ⟨this.1, this.2.1, by omega, this.2.2.2⟩
  case storeComplete =>
    intro hio j hj1 hj2 hj3 hj4
    simp only [appended] at hj2
    by_cases hjp : j = s.pulled
    · subst hjp
      exfalso
      have : s.pulled < c.src.length := hj3
      have hv : c.src[s.pulled]? = some c.src[s.pulled] := by simp [this]
      have := hnd _ hv
      simp [hj4] at this
    · exact h.storeComplete hio j hj1 (by simp only [appended, hpc]; omega) hj3 hj4

theorem inv_rAppend (h : Inv c s) (v i : Nat) (hpc : s.rpc = .app v i) :
    Inv c { s with store := s.store ++ [(i, c.base + i + 1)], rpc := .put ⟨.item v, i⟩ } := by
  obtain ⟨hi, hv, hdue⟩ := h.rApp v i hpc
  have hlt : i < c.src.length := (List.getElem?_eq_some_iff.mp hv).1
  constructor <;> (try (dsimp only; same h))
  case rEarly => simp [RPc.early]
  case rApp => simp
  case rPut => simp [hi, rawAt_of_some hv]
  case rExit => simp
  case cnt => fr [hpc] h.cnt
  case permits => fr [hpc] h.permits
  case storeSorted =>
    rw [List.map_append, List.pairwise_append]
    refine ⟨h.storeSorted, by simp, ?_⟩
    intro a ha b hb
    simp at hb
    subst hb
    obtain ⟨e, he, rfl⟩ := List.mem_map.mp ha
    have := (h.storeSound e he).2.2.1
    simp only [appended, hpc] at this
    omega
  case storeSound =>
    intro e he
    simp only [appended]
    rcases List.mem_append.mp he with he | he
    · have := h.storeSound e he
      simp only [appended, hpc] at this
      exact ⟨this.1, this.2.1, by omega, this.2.2.2⟩
    · simp at he
      subst he
      exact ⟨rfl, hdue, by simp; omega, hlt⟩
  case storeComplete =>
    intro hio j hj1 hj2 hj3 hj4
    simp only [appended] at hj2
    by_cases hji : j = i
    · subst hji; simp
    · have := h.storeComplete hio j hj1 (by simp only [appended, hpc]; omega) hj3 hj4
      simp [this]

theorem inv_rPut (h : Inv c s) (m : Msg) (hpc : s.rpc = .put m) :
    Inv c { s with inq := s.inq ++ [m], rpc := match m.pay with | .item _ => .top | _ => .ret } := by
  obtain ⟨hi, hp⟩ := h.rPut m hpc
  have hple := h.pulledLe
  constructor <;> (try (dsimp only; same h))
  case rEarly =>
    intro he
    cases hpay : m.pay with
    | item v =>
      rw [hpay] at hp
      have := rawAt_item.mp hp.symm
      have := (List.getElem?_eq_some_iff.mp this).1
      show s.pulled ≤ c.src.length
      omega
    | stop => simp [hpay, RPc.early] at he
    | err => simp [hpay, RPc.early] at he
  case rApp => cases m.pay <;> simp
  case rPut => cases m.pay <;> simp
  case rExit =>
    intro he
    right
    show s.pulled = c.src.length + 1
    cases hpay : m.pay with
    | item v => simp [hpay] at he
    | stop =>
      rw [hpay] at hp
      have := (rawAt_stop.mp hp.symm).1
      omega
    | err =>
      rw [hpay] at hp
      have : c.src.length ≤ m.idx := by
        by_cases hlt : m.idx < c.src.length
        · have : rawAt c m.idx = .item c.src[m.idx] := rawAt_of_some (by simp [hlt])
          rw [this] at hp; simp at hp
        · omega
      omega
  case cnt =>
    intro k
    have := h.cnt k
    simp only [cnt, hpc, RPc.hand, idxs_append, List.count_append] at this ⊢
    cases m.pay <;> simp [List.count_cons] at this ⊢ <;> omega
  case permits =>
    have := h.permits
    simp only [held, pending, hpc, RPc.holds, RPc.inCall, List.length_append] at this ⊢
    cases m.pay <;> simp at this ⊢ <;> omega
  case rawInq =>
    intro x hx
    rcases List.mem_append.mp hx with hx | hx
    · exact h.rawInq x hx
    · simp at hx; subst hx; exact hp
  case inqSorted =>
    rw [idxs_append, List.pairwise_append]
    refine ⟨h.inqSorted, by simp, ?_⟩
    intro a ha b hb
    simp at hb
    subst hb
    have h1 := h.cnt a
    have h2 : 0 < (idxs s.inq).count a := List.count_pos_iff.mpr ha
    simp only [cnt, hpc, RPc.hand, optCount_some] at h1
    split at h1 <;> split at h1 <;> omega
  case storeSound => cases m.pay <;> fr [hpc] h.storeSound
  case storeComplete => cases m.pay <;> fr [hpc] h.storeComplete

theorem inv_rRet (h : Inv c s) (hpc : s.rpc = .ret) : Inv c { s with rpc := .exited } := by
  constructor <;> (try (dsimp only; same h))
  case rEarly => simp [RPc.early]
  case rApp => simp
  case rPut => simp
  case rExit => intro _; exact h.rExit (Or.inr hpc)
  case cnt => fr [hpc] h.cnt
  case permits => fr [hpc] h.permits
  case storeSound => fr [hpc] h.storeSound
  case storeComplete => fr [hpc] h.storeComplete

theorem inv_stepR (h : Inv c s) {a : Action} (hs : stepR c s a = some s') : Inv c s' := by
  cases a <;> try (simp [stepR] at hs; done)
  case rInit => obtain ⟨h1, rfl⟩ := spec_rInit.mp hs; exact inv_rInit h h1
  case rIsSet => obtain ⟨h1, rfl⟩ := spec_rIsSet.mp hs; exact inv_rIsSet h h1
  case rAcq => obtain ⟨h1, h2, rfl⟩ := spec_rAcq.mp hs; exact inv_rAcq h h1 h2
  case rAcqT => obtain ⟨h1, _, rfl⟩ := spec_rAcqT.mp hs; exact inv_rAcqT h h1
  case rEnter => obtain ⟨h1, rfl⟩ := spec_rEnter.mp hs; exact inv_rEnter h h1
  case rLeave =>
    obtain ⟨h1, rfl⟩ := spec_rLeave.mp hs
    cases hv : c.src[s.pulled]? with
    | none =>
      simp only []
      exact inv_rLeave_put h h1 (by simp [hv])
    | some v =>
      simp only []
      cases hd : snapDue c s.pulled
      · simp only [Bool.false_eq_true, if_false]
        rw [← rawAt_of_some hv]
        exact inv_rLeave_put h h1 (by simp [hd])
      · simp only [if_true]
        exact inv_rLeave_app h h1 v hv hd
  case rAppend => obtain ⟨v, i, h1, rfl⟩ := spec_rAppend.mp hs; exact inv_rAppend h v i h1
  case rPut => obtain ⟨m, h1, rfl⟩ := spec_rPut.mp hs; exact inv_rPut h m h1
  case rRet => obtain ⟨h1, rfl⟩ := spec_rRet.mp hs; exact inv_rRet h h1

end TDV.PM
