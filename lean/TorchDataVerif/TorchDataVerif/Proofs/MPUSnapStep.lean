import TorchDataVerif.Proofs.MPUSnapRecv
import TorchDataVerif.Proofs.MPUnIterRun
/-!
# MPU — `take_snapshot_assertion_holds`, iterable, `in_order = True`: every action keeps the window invariant
-/
namespace TDV.MPU
open TDV.MP

theorem InfoI_mem (c : Cfg) (g : Ghost) (ex : Option Nat) (j : Nat) (l : List Info) (h : InfoI c g ex j l)
    (e : Info) (he : e ∈ l) :
    g.h[e.idx]? = some e.w ∧ ∀ r', e.res = some r' → (g.h.take e.idx).count e.w < g.arr e.w := by
  induction l generalizing j with
  | nil => cases he
  | cons x l ih =>
    obtain ⟨h1, h2, h3, _, h5⟩ := h
    rcases List.mem_cons.mp he with rfl | he'
    · rw [h1]
      exact ⟨h2, fun r' hr' => (h3 r' hr').2.2⟩
    · exact ih (j + 1) h5 he'

theorem IdxFrom_exists (j i : Nat) (l : List Info) (h : IdxFrom j l) (h1 : j ≤ i) (h2 : i < j + l.length) :
    ∃ e ∈ l, e.idx = i := by
  induction l generalizing j with
  | nil => simp at h2; omega
  | cons x l ih =>
    by_cases hji : j = i
    · exact ⟨x, List.mem_cons_self .., by rw [h.1, hji]⟩
    · simp only [List.length_cons] at h2
      obtain ⟨e, he, hei⟩ := ih (j + 1) h.2 (by omega) (by omega)
      exact ⟨e, List.mem_cons_of_mem _ he, hei⟩

/-- The head of the result queue answers a task that is still in `_task_info` without a result. -/
theorem head_entry (c : Cfg) (s : State) (g : Ghost) (r : Res) (rest : List Res) (hm : MidI c s g none)
    (hq : s.resQ = r :: rest) :
    (∃ e ∈ s.info, e.idx = r.idx) ∧ (∀ e ∈ s.info, e.idx = r.idx → e.res = none) := by
  have hrw : r.w < c.W := hm.rqw r (by rw [hq]; exact List.mem_cons_self ..)
  obtain ⟨hch, _⟩ := hm.rq r.w hrw
  have hf : s.resQ.filter (fun x => x.w == r.w) = r :: rest.filter (fun x => x.w == r.w) := by
    rw [hq]; simp [List.filter_cons]
  rw [hf] at hch
  obtain ⟨⟨_, hown, hseq, hkind⟩, _⟩ := hch
  have hlt : r.idx < s.sendIdx := by rw [← hm.hlen]; exact (List.getElem?_eq_some_iff.mp hown).1
  have hge : s.rcvdIdx ≤ r.idx := by
    by_cases hlt' : r.idx < s.rcvdIdx
    · exfalso
      have hle := kindAt_le c r.w (g.arr r.w) r.kind hkind
      rcases hm.cons r.idx r.w hlt' hown with h1 | h1
      · omega
      · omega
    · omega
  have hlen := hm.len
  refine ⟨IdxFrom_exists _ _ _ (InfoI_idxFrom c g none _ _ hm.info) hge (by omega), ?_⟩
  intro e he hei
  obtain ⟨h1, h2⟩ := InfoI_mem c g none _ _ hm.info e he
  rw [hei, hown] at h1
  have hw : e.w = r.w := (Option.some.inj h1).symm
  cases hres : e.res with
  | none => rfl
  | some r' =>
    exfalso
    have := h2 r' hres
    rw [hei, hw] at this
    omega

/-- `recvData` from a state in which the entry of the received result exists without a result. -/
theorem SW_recvData (c : Cfg) (hit : c.iterable = true) (hio : c.inOrder = true) (s : State) (Z : List (Info × Nat))
    (r : Res) (h : SWk c s Z none 0) (hF1 : ∃ e ∈ s.info, e.idx = r.idx)
    (hF2 : ∀ e ∈ s.info, e.idx = r.idx → e.res = none) (hna : Obs.assertion ∉ s.obs) :
    Obs.assertion ∉ (recvData c s r).obs ∧ ∃ Z', SWk c (recvData c s r) Z' none 0 := by
  rw [recvData_eq_tail]
  by_cases hk : r.kind = .notice
  · rw [onArrival_notice c _ r hit hk]
    obtain ⟨f1, f2, f3, f4, f5⟩ := retire_sw_fields c { s with outstanding := s.outstanding - 1 } r
    have fo : (retireState c { s with outstanding := s.outstanding - 1 } r).obs = s.obs :=
      (retireState_fields c { s with outstanding := s.outstanding - 1 } r).2.2.2.2.2.2.2.2.1
    generalize retireState c { s with outstanding := s.outstanding - 1 } r = s1 at f1 f2 f3 f4 f5 fo
    simp only at f1 f2 f3 f4 f5 fo
    have h1 : SWk c s1 Z (some r.idx) 0 := SWk_of_eq c s s1 Z _ 0 (SWk_except c s Z r.idx h) f1 f2 f3 f4 f5
    have hroom : cntZ (some r.idx) Z + 1 ≤ c.W * c.P := by
      obtain ⟨e, he, hei⟩ := hF1
      have : e ∈ Z.map Prod.fst := by rw [h.zi]; exact he
      obtain ⟨z, hz, hze⟩ := List.mem_map.mp this
      have hn : isNote z.1 = false := by rw [hze]; simp [isNote, hF2 e he hei]
      have := cnt_exclude r.idx Z ⟨z, hz, by rw [hze]; exact hei, hn⟩
      have := h.nn
      omega
    obtain ⟨Z', h2, _, h4, h5⟩ := SWk_tryPut c s1 Z (some r.idx) 0 hit h1 hroom
    have hc := tryPut_sameCore c s1
    apply SW_recvTail c hit hio _ Z' r (some r.idx) h2 ⟨fun _ => rfl, fun hn => absurd hk hn⟩
    · obtain ⟨e, he, hei⟩ := hF1
      exact ⟨e, h5 e (by rw [f1]; exact he), hei⟩
    · intro e he hei
      rcases h4 e he with h6 | h6
      · exact hF2 e (by rw [← f1]; exact h6) hei
      · exact h6
    · rw [hc.obs, fo]; exact hna
  · rw [onArrival_other c _ r hk]
    exact SW_recvTail c hit hio _ Z r none (SWk_of_eq c s _ Z none 0 h rfl rfl rfl rfl rfl)
      ⟨fun hn => absurd hn hk, fun _ => rfl⟩ hF1 hF2 hna

/-- One action (not `reset`) from a state satisfying the in-order iterable invariant. -/
theorem step_SW (c : Cfg) (hit : c.iterable = true) (hio : c.inOrder = true) (s s' : State) (a : Action)
    (Z : List (Info × Nat)) (ha : a ≠ .reset) (hI : InvI c s) (h : SWk c s Z none 0) (hna : Obs.assertion ∉ s.obs)
    (hst : step c s a = some s') : (Obs.assertion ∉ s'.obs ∧ ∃ Z', SWk c s' Z' none 0) ∨ died s' := by
  cases a with
  | reset => exact absurd rfl ha
  | work w =>
    obtain ⟨_, _, _, _, _, _, _, _, _, _, _, e5, e6, e7, e8, _, _, _⟩ := work_shape c s s' w hst
    left
    refine ⟨by rw [e8]; exact hna, Z, SWk_of_eq c s s' Z none 0 h e5 e6 e7 ?_ ?_⟩
    · rw [step_work_eq] at hst
      split at hst
      · cases hst
      · split at hst
        · cases hst
        · split at hst
          · cases hst
          · cases hst; rfl
    · rw [step_work_eq] at hst
      split at hst
      · cases hst
      · split at hst
        · cases hst
        · split at hst
          · cases hst
          · cases hst; rfl
  | kill w =>
    simp only [step] at hst
    split at hst
    · cases hst
    · split at hst
      · cases hst
      · cases hst
        exact Or.inl ⟨hna, Z, SWk_of_eq c s _ Z none 0 h rfl rfl rfl rfl rfl⟩
  | stateDict =>
    simp only [step] at hst
    split at hst
    · cases hst
    · cases hst
      refine Or.inl ⟨?_, Z, SWk_of_eq c s _ Z none 0 h rfl rfl rfl rfl rfl⟩
      intro hm
      rcases List.mem_append.mp hm with h1 | h1
      · exact hna h1
      · simp at h1
  | pollTimeout =>
    simp only [step] at hst
    split at hst
    · cases hst
    · split at hst
      · cases hst; exact Or.inl ⟨hna, Z, h⟩
      · cases hst
        right
        unfold died
        simp
  | next =>
    simp only [step] at hst
    split at hst
    · cases hst
    · cases hst
      exact Or.inl (fin_loop c hit _ s Z h hna)
  | recv =>
    rw [step_recv_eq] at hst
    cases hq : s.resQ with
    | nil => simp [hq] at hst
    | cons r rest =>
      simp only [hq] at hst
      cases hp : s.phase with
      | idle => simp [hp] at hst
      | resuming k => exact absurd hp (hI.ph k)
      | waiting =>
        simp only [hp] at hst
        split at hst
        · cases hst
        · cases hst
          have hsd : s.shutdown = false := by
            cases hs : s.shutdown with
            | false => rfl
            | true => have := (hI.down hs).2.1; rw [hp] at this; cases this
          obtain ⟨g, _, _, _, hmid⟩ := hI.core
          obtain ⟨hF1, hF2⟩ := head_entry c s g r rest (hmid hsd).1 hq
          left
          exact SW_recvData c hit hio _ Z r (SWk_of_eq c s _ Z none 0 h rfl rfl rfl rfl rfl) hF1 hF2 hna

end TDV.MPU
