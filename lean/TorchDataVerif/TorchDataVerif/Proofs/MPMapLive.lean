import TorchDataVerif.Proofs.MPMapSnap
/-!
# MP, map-style, in-order: where every outstanding task is (accounting), progress and a variant
-/
namespace TDV.MP

/-- Task `idx` is waiting in worker `w`'s index queue. -/
def InQueue (s : State) (w idx : Nat) : Prop :=
  ∃ k, s.workers[w]? = some k ∧ ∃ p sn, Msg.task idx p sn ∈ k.q

/-- A result for task `idx` is in the result queue. -/
def InFlight (s : State) (idx : Nat) : Prop := ∃ r ∈ s.resQ, r.idx = idx

structure AcctM (c : Cfg) (s : State) : Prop where
  acct : ∀ e ∈ s.info, e.res = none → InFlight s e.idx ∨ InQueue s e.w e.idx
  noend : ∀ (w : Nat) (k : Worker), s.workers[w]? = some k → k.iterEnd = false
  wait : s.phase = .waiting → ∃ e l, s.info = e :: l ∧ e.res = none

/-- Index queues only grow and workers are otherwise untouched. -/
@[reducible] def QGrow (s s' : State) : Prop :=
  s'.workers.length = s.workers.length ∧ ∀ (w : Nat) (k : Worker), s.workers[w]? = some k → ∃ k' : Worker, s'.workers[w]? = some k' ∧ (∃ t, k'.q = k.q ++ t) ∧ k'.iterEnd = k.iterEnd
    ∧ k'.alive = k.alive ∧ k'.pos = k.pos

theorem QGrow.refl (s : State) : QGrow s s := ⟨rfl, fun _ k hk => ⟨k, hk, ⟨[], by simp⟩, rfl, rfl, rfl⟩⟩

theorem QGrow_of_eq (s s' : State) (h : s'.workers = s.workers) : QGrow s s' := by
  refine ⟨by rw [h], ?_⟩
  intro w k hk; rw [h]; exact ⟨k, hk, ⟨[], by simp⟩, rfl, rfl, rfl⟩

theorem InQueue_grow (s s' : State) (w idx : Nat) (hg : QGrow s s') (h : InQueue s w idx) : InQueue s' w idx := by
  obtain ⟨k, hk, p, sn, hm⟩ := h
  obtain ⟨k', hk', ⟨t, ht⟩, _⟩ := hg.2 w k hk
  exact ⟨k', hk', p, sn, by rw [ht]; exact List.mem_append_left _ hm⟩

theorem pushMsg_mem (ws : List Worker) (w : Nat) (m : Msg) (hw : w < ws.length) :
    ∃ k, (pushMsg ws w m)[w]? = some k ∧ m ∈ k.q := by
  have hk0 : ws[w]? = some ws[w] := List.getElem?_eq_getElem hw
  refine ⟨{ ws[w] with q := ws[w].q ++ [m] }, ?_, List.mem_append_right _ (List.mem_singleton.mpr rfl)⟩
  simp [pushMsg, List.getElem?_modify, hk0]

/-- What `_try_put_index` does to `_task_info` and the queues in an active map-style state. -/
theorem tryPut_acct (c : Cfg) (s : State) (hv : c.Valid) (hm : c.iterable = false) (hio : c.inOrder = true)
    (h : MidM c s) :
    QGrow s (tryPut c s) ∧
    ((tryPut c s).info = s.info ∨
     ∃ e, (tryPut c s).info = s.info ++ [e] ∧ e.res = none ∧ InQueue (tryPut c s) e.w e.idx) := by
  by_cases hlt : s.sendIdx < c.batches.length
  · rw [tryPut_map_lt c s hv hm hio h.status h.sp h.cyc hlt]
    have hwl : s.sendIdx % c.W < s.workers.length := by rw [h.wlen]; exact Nat.mod_lt _ hv.1
    constructor
    · refine ⟨by simp [dispatchTo, pushMsg], ?_⟩
      intro w k hk
      simp only [dispatchTo, pushMsg, List.getElem?_modify, hk, Option.map_eq_map, Option.map_some]
      by_cases hw : s.sendIdx % c.W = w
      · simp only [hw, if_true]
        exact ⟨_, rfl, ⟨_, rfl⟩, rfl, rfl, rfl⟩
      · simp only [hw, if_false]
        exact ⟨k, rfl, ⟨[], by simp⟩, rfl, rfl, rfl⟩
    · right
      refine ⟨⟨s.sendIdx, s.sendIdx % c.W, none⟩, by simp [dispatchTo], rfl, ?_⟩
      obtain ⟨k, hk, hmem⟩ := pushMsg_mem s.workers (s.sendIdx % c.W)
        (.task s.sendIdx (s.samplerPos + 1 - 1) (flags c (s.samplerPos + 1) s.numYielded).2) hwl
      exact ⟨k, hk, _, _, hmem⟩
  · rw [tryPut_map_ge c s hm h.sp (by omega)]
    exact ⟨QGrow_of_eq _ _ rfl, Or.inl rfl⟩

theorem processData_acct (c : Cfg) (s : State) (r : Res) (hv : c.Valid) (hm : c.iterable = false)
    (hio : c.inOrder = true) (h : MidM c s) :
    QGrow s (processData c s r).1 ∧ (processData c s r).1.resQ = s.resQ ∧
    ((processData c s r).1.info = s.info ∨
     ∃ e, (processData c s r).1.info = s.info ++ [e] ∧ e.res = none ∧ InQueue (processData c s r).1 e.w e.idx) := by
  have h0 : MidM c { s with numTasks := s.numTasks.modify r.w (· - 1) } :=
    MidM_of_eq c s _ h rfl rfl rfl rfl rfl rfl rfl rfl
  obtain ⟨h1, h2⟩ := tryPut_acct c _ hv hm hio h0
  have hc := tryPut_sameCore c { s with numTasks := s.numTasks.modify r.w (· - 1) }
  have hproc : processData c s r =
      (match r.kind with
       | .data b => yieldItem c (tryPut c { s with numTasks := s.numTasks.modify r.w (· - 1) }) r b
       | _ => (tryPut c { s with numTasks := s.numTasks.modify r.w (· - 1) }, .error)) := by
    unfold processData; rfl
  rw [hproc]
  generalize tryPut c { s with numTasks := s.numTasks.modify r.w (· - 1) } = s2 at h1 h2 hc
  have key : ∀ s3 : State, s3.workers = s2.workers → s3.info = s2.info → s3.resQ = s2.resQ →
      QGrow s s3 ∧ s3.resQ = s.resQ ∧ (s3.info = s.info ∨
        ∃ e, s3.info = s.info ++ [e] ∧ e.res = none ∧ InQueue s3 e.w e.idx) := by
    intro s3 e1 e2 e3
    refine ⟨?_, by rw [e3]; exact hc.resQ, ?_⟩
    · refine ⟨by rw [e1]; exact h1.1, ?_⟩
      intro w k hk
      obtain ⟨k', hk', rest⟩ := h1.2 w k hk
      exact ⟨k', by rw [e1]; exact hk', rest⟩
    · rcases h2 with h2 | ⟨e, h2, h3, h4⟩
      · exact Or.inl (by rw [e2]; exact h2)
      · refine Or.inr ⟨e, by rw [e2]; exact h2, h3, ?_⟩
        obtain ⟨k, hk, rest⟩ := h4
        exact ⟨k, by rw [e1]; exact hk, rest⟩
  cases r.kind with
  | data b =>
    have hp := yieldItem_sameProto c s2 r b
    exact key _ hp.workers hp.info hp.resQ
  | notice => exact key _ rfl rfl rfl
  | error => exact key _ rfl rfl rfl
  | ack => exact key _ rfl rfl rfl

theorem noend_grow (s s' : State) (hg : QGrow s s')
    (h : ∀ (w : Nat) (k : Worker), s.workers[w]? = some k → k.iterEnd = false) :
    ∀ (w : Nat) (k : Worker), s'.workers[w]? = some k → k.iterEnd = false := by
  intro w k' hk'
  have hw : w < s.workers.length := by
    rw [← hg.1]
    exact (List.getElem?_eq_some_iff.mp hk').1
  obtain ⟨k'', hk'', _, hie, _⟩ := hg.2 w _ (List.getElem?_eq_getElem hw)
  rw [hk'] at hk''
  cases hk''
  rw [hie]
  exact h w _ (List.getElem?_eq_getElem hw)

theorem popProc_acct (c : Cfg) (s : State) (e : Info) (l : List Info) (r : Res) (hv : c.Valid)
    (hm : c.iterable = false) (hio : c.inOrder = true) (hmid : MidM c s)
    (hacc : ∀ e' ∈ l, e'.res = none → InFlight s e'.idx ∨ InQueue s e'.w e'.idx)
    (hnoend : ∀ (w : Nat) (k : Worker), s.workers[w]? = some k → k.iterEnd = false)
    (hi : s.info = e :: l) : AcctM c (popProc c s l r) := by
  have hinfo := hmid.info
  rw [hi] at hinfo
  have hlen := hmid.len
  rw [hi] at hlen
  simp only [List.length_cons] at hlen
  have h1 : MidM c { s with info := l, rcvdIdx := s.rcvdIdx + 1 } := by
    refine ⟨hmid.status, hmid.sp, hmid.le, hmid.cyc, ?_, hinfo.2.2.2, hmid.wlen, hmid.msgs, hmid.resq⟩
    simp only; omega
  obtain ⟨hg, hq, hinf⟩ := processData_acct c _ r hv hm hio h1
  unfold popProc
  generalize processData c { s with info := l, rcvdIdx := s.rcvdIdx + 1 } r = p at hg hq hinf
  obtain ⟨s3, o⟩ := p
  simp only at hg hq hinf
  simp only [finish]
  have hold : ∀ e' ∈ l, e'.res = none →
      InFlight { s3 with phase := .idle, obs := s3.obs ++ [o] } e'.idx ∨
      InQueue { s3 with phase := .idle, obs := s3.obs ++ [o] } e'.w e'.idx := by
    intro e' he' hn
    rcases hacc e' he' hn with h | h
    · left
      obtain ⟨r', hr', hidx⟩ := h
      exact ⟨r', by simp only [hq]; exact hr', hidx⟩
    · right
      exact InQueue_grow { s with info := l, rcvdIdx := s.rcvdIdx + 1 } _ _ _ hg h
  constructor
  · intro e' he' hn
    simp only at he'
    rcases hinf with hinf | ⟨en, hinf, hn1, hn2⟩
    · rw [hinf] at he'; exact hold e' he' hn
    · rw [hinf, List.mem_append, List.mem_singleton] at he'
      rcases he' with he' | he'
      · exact hold e' he' hn
      · subst he'
        right
        obtain ⟨k, hk, rest⟩ := hn2
        exact ⟨k, hk, rest⟩
  · exact noend_grow { s with info := l, rcvdIdx := s.rcvdIdx + 1 } _ hg hnoend
  · intro hph; simp at hph

theorem loopCase_acct (c : Cfg) (s s' : State) (hv : c.Valid) (hm : c.iterable = false) (hio : c.inOrder = true)
    (hmid : MidM c s)
    (hacc : ∀ e' ∈ s.info, e'.res = none → InFlight s e'.idx ∨ InQueue s e'.w e'.idx)
    (hnoend : ∀ (w : Nat) (k : Worker), s.workers[w]? = some k → k.iterEnd = false)
    (hl : LoopCase c s s') : s'.shutdown = false → AcctM c s' := by
  cases hl with
  | stop hle heq =>
    subst heq
    simp only [finish]
    have hlen := hmid.len
    have hnil : s.info = [] := by
      cases hi : s.info with
      | nil => rfl
      | cons e l => simp [hi] at hlen; omega
    by_cases hp' : c.persistent = true
    · simp only [hp', if_true]
      intro _
      exact ⟨by simp [hnil], hnoend, by simp⟩
    · have hp'' : c.persistent = false := by simpa using hp'
      simp only [hp'', Bool.false_eq_true, if_false]
      intro hsd
      rw [shutdownWorkers_shutdown] at hsd; cases hsd
  | wait e l hi hres heq =>
    subst heq
    intro _
    exact ⟨hacc, hnoend, fun _ => ⟨e, l, hi, hres⟩⟩
  | proc e l r hi hres hg hri heq =>
    subst heq
    intro _
    exact popProc_acct c s e l r hv hm hio hmid
      (fun e' he' => hacc e' (by rw [hi]; exact List.mem_cons_of_mem _ he')) hnoend hi

theorem mem_setRes_none (l : List Info) (i : Nat) (r : Res) (e : Info) (he : e ∈ setRes l i r) (hn : e.res = none) :
    e ∈ l ∧ e.idx ≠ i := by
  simp only [setRes, List.mem_map] at he
  obtain ⟨e0, he0, heq⟩ := he
  by_cases h : e0.idx = i
  · simp [h] at heq; subst heq; simp at hn
  · have : (e0.idx == i) = false := by simp [h]
    simp only [this] at heq
    subst heq
    exact ⟨he0, h⟩

theorem handle_task_map (c : Cfg) (w idx p : Nat) (sn : Bool) (k : Worker) (hm : c.iterable = false)
    (hie : k.iterEnd = false) :
    (∃ r, (handle c false w k (.task idx p sn)).2 = some r ∧ r.idx = idx) := by
  simp only [handle, hie, fetch, hm]
  cases c.batches.getD p Item.err <;> simp

theorem handle_iterEnd_map (c : Cfg) (sh : Bool) (w : Nat) (m : Msg) (k : Worker) (hm : c.iterable = false)
    (hie : k.iterEnd = false) : (handle c sh w k m).1.iterEnd = false := by
  cases m with
  | stop => exact hie
  | resume => rfl
  | task idx p sn =>
    simp only [handle, fetch, hm]
    split
    · exact hie
    · cases c.batches.getD p Item.err <;> simp [hie]

theorem InFlight_rest (s : State) (r : Res) (rest : List Res) (idx : Nat) (hq : s.resQ = r :: rest)
    (h : InFlight s idx) (hne : idx ≠ r.idx) : InFlight { s with resQ := rest } idx := by
  obtain ⟨r', hr', hidx⟩ := h
  rw [hq] at hr'
  rcases List.mem_cons.mp hr' with h1 | h1
  · subst h1; exact absurd hidx.symm hne
  · exact ⟨r', h1, hidx⟩

theorem InfoFrom_idx_gt (c : Cfg) (i : Nat) (l : List Info) (h : InfoFrom c i l) : ∀ e ∈ l, i ≤ e.idx := by
  induction l generalizing i with
  | nil => intro e he; cases he
  | cons x l ih =>
    intro e he
    rcases List.mem_cons.mp he with h1 | h1
    · subst h1; exact Nat.le_of_eq h.1.symm
    · have := ih (i + 1) h.2.2.2 e h1; omega

theorem step_acctM (c : Cfg) (s s' : State) (a : Action) (hv : c.Valid) (hm : c.iterable = false)
    (hio : c.inOrder = true) (ha : a ≠ .reset) (h : InvM c s) (hac : s.shutdown = false → AcctM c s)
    (hst : step c s a = some s') : (s'.shutdown = false → AcctM c s') ∨ died s' := by
  cases a with
  | reset => exact absurd rfl ha
  | work w =>
    left
    simp only [step] at hst
    split at hst
    · cases hst
    · rename_i k hk
      split at hst
      · cases hst
      · split at hst
        · cases hst
        · rename_i m rest hq
          cases hst
          intro hsd
          simp only at hsd
          have hA := hac hsd
          refine ⟨?_, ?_, hA.wait⟩
          · intro e he hn
            rcases hA.acct e he hn with hf | hf
            · left
              obtain ⟨r', hr', hidx⟩ := hf
              refine ⟨r', ?_, hidx⟩
              simp only
              split
              · exact List.mem_append_left _ hr'
              · exact hr'
            · obtain ⟨k0, hk0, p, sn, hmem⟩ := hf
              by_cases hw : e.w = w
              · rw [hw, hk] at hk0
                cases hk0
                rw [hq] at hmem
                rcases List.mem_cons.mp hmem with h1 | h1
                · left
                  subst h1
                  rw [hsd]
                  obtain ⟨r, hr, hidx⟩ := handle_task_map c w e.idx p sn
                    { q := rest, pos := k.pos, iterEnd := k.iterEnd, alive := k.alive } hm (hA.noend w k hk)
                  refine ⟨r, ?_, hidx⟩
                  simp only [hr]
                  exact List.mem_append_right _ (List.mem_singleton.mpr rfl)
                · right
                  refine ⟨(handle c s.shutdown w { q := rest, pos := k.pos, iterEnd := k.iterEnd, alive := k.alive } m).1,
                    ?_, p, sn, ?_⟩
                  · simp only [hw, List.getElem?_set, if_true]
                    have : w < s.workers.length := (List.getElem?_eq_some_iff.mp hk).1
                    simp only [this, if_true]
                  · rw [handle_q]; exact h1
              · right
                refine ⟨k0, ?_, p, sn, hmem⟩
                simp only [List.getElem?_set]
                have : ¬ w = e.w := fun h => hw h.symm
                simp only [this, if_false]
                exact hk0
          · intro w' k' hk'
            simp only [List.getElem?_set] at hk'
            by_cases hw : w = w'
            · subst hw
              simp only [if_true] at hk'
              split at hk'
              · cases hk'
                exact handle_iterEnd_map c _ w m _ hm (hA.noend w k hk)
              · cases hk'
            · simp only [hw, if_false] at hk'
              exact hA.noend w' k' hk'
  | kill w =>
    left
    simp only [step] at hst
    split at hst
    · cases hst
    · rename_i k hk
      split at hst
      · cases hst
      · cases hst
        intro hsd
        have hA := hac hsd
        refine ⟨?_, ?_, hA.wait⟩
        · intro e he hn
          rcases hA.acct e he hn with hf | hf
          · exact Or.inl hf
          · right
            obtain ⟨k0, hk0, p, sn, hmem⟩ := hf
            by_cases hw : w = e.w
            · subst hw
              rw [hk] at hk0; cases hk0
              refine ⟨{ k with alive := false }, ?_, p, sn, hmem⟩
              have : e.w < s.workers.length := (List.getElem?_eq_some_iff.mp hk).1
              simp [List.getElem?_set, this]
            · refine ⟨k0, ?_, p, sn, hmem⟩
              simp only [List.getElem?_set, hw, if_false]
              exact hk0
        · intro w' k' hk'
          simp only [List.getElem?_set] at hk'
          by_cases hw : w = w'
          · subst hw
            simp only [if_true] at hk'
            split at hk'
            · cases hk'; exact hA.noend w k hk
            · cases hk'
          · simp only [hw, if_false] at hk'
            exact hA.noend w' k' hk'
  | stateDict =>
    left
    simp only [step] at hst
    split at hst
    · cases hst
    · cases hst
      intro hsd
      have hA := hac hsd
      exact ⟨hA.acct, hA.noend, hA.wait⟩
  | pollTimeout =>
    simp only [step] at hst
    split at hst
    · cases hst
    · split at hst
      · cases hst; exact Or.inl hac
      · cases hst; right; simp [died]
  | next =>
    left
    rcases next_cases c s s' hv h hst with ⟨hsd, heq⟩ | ⟨hsd, hph, hl⟩
    · subst heq; intro hf; simp [hsd] at hf
    · have hA := hac hsd
      exact loopCase_acct c s s' hv hm hio (h.mid hsd) hA.acct hA.noend hl
  | recv =>
    left
    obtain ⟨r, rest, hsd, hph, hq, hg, hlt, hmid0, hr⟩ := recv_cases c s s' hv hm hio h hst
    have hA := hac hsd
    have hmid := h.mid hsd
    cases hr with
    | now e l hi hri heq =>
      subst heq
      intro _
      have hmid1 : MidM c { s with resQ := rest, outstanding := s.outstanding - 1 } :=
        MidM_of_eq c _ _ hmid0 rfl rfl rfl rfl rfl rfl rfl rfl
      have hinfo := hmid.info
      simp only at hi
      rw [hi] at hinfo
      refine popProc_acct c _ e l r hv hm hio hmid1 ?_ hA.noend hi
      intro e' he' hn
      have hgt := InfoFrom_idx_gt c _ l hinfo.2.2.2 e' he'
      rcases hA.acct e' (by rw [hi]; exact List.mem_cons_of_mem _ he') hn with hf | hf
      · left
        have := InFlight_rest s r rest e'.idx hq hf (by simp only at hri; omega)
        exact this
      · right; exact hf
    | store hne hmid2 hl =>
      refine loopCase_acct c _ s' hv hm hio hmid2 ?_ hA.noend hl
      intro e' he' hn
      obtain ⟨hmem, hidx⟩ := mem_setRes_none _ _ _ e' he' hn
      rcases hA.acct e' hmem hn with hf | hf
      · left
        have := InFlight_rest s r rest e'.idx hq hf hidx
        exact this
      · right; exact hf

/-! ## initial state, runs -/

theorem prime_acct (c : Cfg) (n : Nat) (s : State) (hv : c.Valid) (hm : c.iterable = false) (hio : c.inOrder = true)
    (h : MidM c s)
    (hacc : ∀ e' ∈ s.info, e'.res = none → InFlight s e'.idx ∨ InQueue s e'.w e'.idx)
    (hnoend : ∀ (w : Nat) (k : Worker), s.workers[w]? = some k → k.iterEnd = false) :
    (∀ e' ∈ (prime c n s).info, e'.res = none → InFlight (prime c n s) e'.idx ∨ InQueue (prime c n s) e'.w e'.idx) ∧
    (∀ (w : Nat) (k : Worker), (prime c n s).workers[w]? = some k → k.iterEnd = false) := by
  induction n generalizing s with
  | zero => exact ⟨hacc, hnoend⟩
  | succ n ih =>
    unfold prime
    obtain ⟨hg, hinf⟩ := tryPut_acct c s hv hm hio h
    have hc := tryPut_sameCore c s
    refine ih (tryPut c s) (MidM_tryPut c s hv hm hio h).1 ?_ (noend_grow s _ hg hnoend)
    have hold : ∀ e' ∈ s.info, e'.res = none →
        InFlight (tryPut c s) e'.idx ∨ InQueue (tryPut c s) e'.w e'.idx := by
      intro e' he' hn
      rcases hacc e' he' hn with hf | hf
      · left
        obtain ⟨r', hr', hidx⟩ := hf
        exact ⟨r', by rw [hc.resQ]; exact hr', hidx⟩
      · exact Or.inr (InQueue_grow s _ _ _ hg hf)
    intro e' he' hn
    rcases hinf with hinf | ⟨en, hinf, hn1, hn2⟩
    · rw [hinf] at he'; exact hold e' he' hn
    · rw [hinf, List.mem_append, List.mem_singleton] at he'
      rcases he' with he' | he'
      · exact hold e' he' hn
      · subst he'; exact Or.inr hn2

theorem init_acctM (c : Cfg) (hv : c.Valid) (hm : c.iterable = false) (hio : c.inOrder = true) :
    AcctM c (init c) := by
  unfold init resetTail
  generalize hs0 : ({ resetHead c _ with mainSnaps := [], lastW := c.W - 1, snap := _ } : State) = s0
  have hmid0 : MidM c s0 := by
    subst hs0
    refine ⟨rfl, rfl, Nat.zero_le _, by simp [resetHead], rfl, trivial, by simp [resetHead], ?_, ?_⟩
    · intro w k hk m hmem
      simp only [resetHead, List.getElem?_replicate] at hk
      split at hk
      · cases hk; simp at hmem
      · cases hk
    · intro r hr; simp [resetHead] at hr
  have hacc0 : ∀ e' ∈ s0.info, e'.res = none → InFlight s0 e'.idx ∨ InQueue s0 e'.w e'.idx := by
    subst hs0; intro e' he'; simp [resetHead] at he'
  have hnoend0 : ∀ (w : Nat) (k : Worker), s0.workers[w]? = some k → k.iterEnd = false := by
    subst hs0
    intro w k hk
    simp only [resetHead, List.getElem?_replicate] at hk
    split at hk
    · cases hk; rfl
    · cases hk
  obtain ⟨h1, h2⟩ := prime_acct c (c.P * c.W) s0 hv hm hio hmid0 hacc0 hnoend0
  have hc := prime_sameCore c (c.P * c.W) s0
  have e3 : s0.phase = .idle := by subst hs0; rfl
  exact ⟨h1, h2, fun hph => by rw [hc.phase, e3] at hph; cases hph⟩

/-- All three map-style invariants along any reset-free run. -/
theorem run_map_all (c : Cfg) (as : List Action) (s s' : State) (hv : c.Valid) (hm : c.iterable = false)
    (hio : c.inOrder = true) (hnr : NoReset as)
    (h : (InvM c s ∧ SnapM c s ∧ (s.shutdown = false → AcctM c s)) ∨ died s) (hr : run c s as = some s') :
    (InvM c s' ∧ SnapM c s' ∧ (s'.shutdown = false → AcctM c s')) ∨ died s' := by
  induction as generalizing s with
  | nil => simp only [run] at hr; cases hr; exact h
  | cons a as ih =>
    simp only [run] at hr
    split at hr
    · cases hr
    · rename_i s1 hs1
      refine ih s1 hnr.2 ?_ hr
      rcases h with ⟨h1, h2, h3⟩ | h
      · rcases step_invM c s s1 a hv hm hio hnr.1 h1 hs1 with h4 | h4
        · rcases step_snapM c s s1 a hv hm hio hnr.1 h1 h2 hs1 with h5 | h5
          · rcases step_acctM c s s1 a hv hm hio hnr.1 h1 h3 hs1 with h6 | h6
            · exact Or.inl ⟨h4, h5, h6⟩
            · exact Or.inr h6
          · exact Or.inr h5
        · exact Or.inr h4
      · exact Or.inr (died_step c s s1 a hs1 h)

/-! ## progress and variant -/

theorem failedWorkers_mem (s : State) (n w : Nat) (k : Worker) (hw : w < n) (hup : up s w = true)
    (hk : s.workers[w]? = some k) (hd : k.alive = false) : w ∈ failedWorkers s n := by
  induction n with
  | zero => omega
  | succ n ih =>
    unfold failedWorkers
    by_cases hwn : w = n
    · subst hwn
      apply List.mem_append_right
      simp [hup, hk, hd]
    · exact List.mem_append_left _ (ih (by omega))

/-- **kill detection**: the liveness poll reports a dead worker that is still expected to work. -/
theorem pollTimeout_detects (c : Cfg) (s : State) (w : Nat) (k : Worker) (hph : s.phase ≠ .idle) (hq : s.resQ = [])
    (hw : w < c.W) (hup : up s w = true) (hk : s.workers[w]? = some k) (hd : k.alive = false) :
    ∃ s', step c s .pollTimeout = some s' ∧ s'.obs = (markAll c s (failedWorkers s c.W)).obs ++ [.workerDied] ∧
      s'.phase = .idle := by
  have hmem := failedWorkers_mem s c.W w k hw hup hk hd
  simp only [step, hph, hq, ne_eq, not_true_eq_false, or_self, if_false]
  cases hf : failedWorkers s c.W with
  | nil => rw [hf] at hmem; cases hmem
  | cons f fs => exact ⟨_, rfl, rfl, rfl⟩

theorem progress_of_inv (c : Cfg) (s : State) (hv : c.Valid) (h : InvM c s)
    (ha : s.shutdown = false → AcctM c s) (hph : s.phase = .waiting) :
    (∃ s', step c s .recv = some s') ∨ (∃ w s', step c s (.work w) = some s') ∨
    (∃ s', step c s .pollTimeout = some s' ∧ died s') := by
  have hsd : s.shutdown = false := by
    rcases Bool.eq_false_or_eq_true s.shutdown with hsd | hsd
    · have := (h.down hsd).2.1; rw [hph] at this; cases this
    · exact hsd
  have hmid := h.mid hsd
  have hA := ha hsd
  obtain ⟨e, l, hi, hres⟩ := hA.wait hph
  cases hq : s.resQ with
  | cons r rest =>
    left
    have hg := (hmid.resq r (by rw [hq]; exact List.mem_cons_self ..)).1
    have hna : r.kind ≠ .ack := by
      obtain ⟨it, _, hk⟩ := hg.2
      rw [hk]; cases it <;> simp [kindOf]
    simp only [step, hq, hph, hna, if_false]
    exact ⟨_, rfl⟩
  | nil =>
    right
    rcases hA.acct e (by rw [hi]; exact List.mem_cons_self ..) hres with hf | hf
    · obtain ⟨r, hr, _⟩ := hf
      rw [hq] at hr; cases hr
    · obtain ⟨k, hk, p, sn, hmem⟩ := hf
      have hinfo := hmid.info
      rw [hi] at hinfo
      rcases Bool.eq_false_or_eq_true k.alive with hal | hal
      · left
        refine ⟨e.w, ?_⟩
        cases hkq : k.q with
        | nil => rw [hkq] at hmem; cases hmem
        | cons m rest =>
          simp only [step, hk, hal, hkq, Bool.not_true, Bool.false_eq_true, if_false]
          exact ⟨_, rfl⟩
      · right
        have hw : e.w < c.W := by rw [hinfo.2.1]; exact Nat.mod_lt _ hv.1
        have hup : up s e.w = true := up_replicate s c.W _ hmid.status hw
        obtain ⟨s', hs', hobs, _⟩ := pollTimeout_detects c s e.w k (by rw [hph]; simp) hq hw hup hk hal
        exact ⟨s', hs', by unfold died; rw [hobs]; simp⟩

/-- The variant: twice the queued index messages plus the results in flight. -/
def qsum : List Worker → Nat
  | [] => 0
  | k :: r => k.q.length + qsum r

def measure (s : State) : Nat := 2 * qsum s.workers + s.resQ.length

theorem qsum_set (ws : List Worker) (w : Nat) (k k' : Worker) (hk : ws[w]? = some k) :
    qsum (ws.set w k') + k.q.length = qsum ws + k'.q.length := by
  induction ws generalizing w with
  | nil => simp at hk
  | cons x ws ih =>
    cases w with
    | zero =>
      simp only [List.getElem?_cons_zero, Option.some.injEq] at hk
      subst hk
      simp only [List.set_cons_zero, qsum]; omega
    | succ w =>
      simp only [List.getElem?_cons_succ] at hk
      have := ih w hk
      simp only [List.set_cons_succ, qsum]; omega

/-- Every `work` action decreases the variant (any configuration, any state). -/
theorem work_decreases (c : Cfg) (s s' : State) (w : Nat) (hst : step c s (.work w) = some s') :
    measure s' < measure s := by
  simp only [step] at hst
  split at hst
  · cases hst
  · rename_i k hk
    split at hst
    · cases hst
    · split at hst
      · cases hst
      · rename_i m rest hq
        cases hst
        have hs := qsum_set s.workers w k
          (handle c s.shutdown w { q := rest, pos := k.pos, iterEnd := k.iterEnd, alive := k.alive } m).1 hk
        rw [handle_q, hq] at hs
        simp only [List.length_cons] at hs
        unfold measure
        simp only
        split
        · simp only [List.length_append, List.length_singleton]; omega
        · omega

/-- A `recv` after which the consumer is still blocked decreases the variant (map-style). -/
theorem recv_decreases_map (c : Cfg) (s s' : State) (hv : c.Valid) (hm : c.iterable = false)
    (hio : c.inOrder = true) (h : InvM c s) (hst : step c s .recv = some s') (hph : s'.phase = .waiting) :
    measure s' < measure s := by
  obtain ⟨r, rest, hsd, _, hq, hg, hlt, hmid0, hr⟩ := recv_cases c s s' hv hm hio h hst
  cases hr with
  | now e l hi hri heq => subst heq; simp [popProc, finish] at hph
  | store hne hmid2 hl =>
    cases hl with
    | stop hle heq => subst heq; simp [finish] at hph
    | proc e l r' hi hres hg' hri heq => subst heq; simp [popProc, finish] at hph
    | wait e l hi hres heq =>
      subst heq
      unfold measure
      simp only [hq, List.length_cons]
      omega

end TDV.MP
