import TorchDataVerif.Proofs.MPMapSnap
/-!
# MP, map-style, in-order: where every outstanding task is (accounting), progress and a variant
-/
namespace TDV.MP

/-- Task `idx` is waiting in worker `w`'s index queue. -/
def InQueue (s : State) (w idx : Nat) : Prop :=
  ∃ k, s.workers[w]? = some k ∧ ∃ p sn, Msg.task idx p sn ∈ k.q

/-- A result for task `idx` is in the result queue. -/
def InFlight (s : State) (idx : Nat) : Prop := ∃ r ∈ s.resQ, r.idx = idx

structure AcctM (c : Cfg) (s : State) : Prop where
  acct : ∀ e ∈ s.info, e.res = none → InFlight s e.idx ∨ InQueue s e.w e.idx
  noend : ∀ (w : Nat) (k : Worker), s.workers[w]? = some k → k.iterEnd = false
  wait : s.phase = .waiting → ∃ e l, s.info = e :: l ∧ e.res = none

/-- Index queues only grow and workers are otherwise untouched. -/
@[reducible] def QGrow (s s' : State) : Prop :=
  s'.workers.length = s.workers.length ∧ ∀ (w : Nat) (k : Worker), s.workers[w]? = some k → ∃ k' : Worker, s'.workers[w]? = some k' ∧ (∃ t, k'.q = k.q ++ t) ∧ k'.iterEnd = k.iterEnd
    ∧ k'.alive = k.alive ∧ k'.pos = k.pos

theorem QGrow.refl (s : State) : QGrow s s := ⟨rfl, fun _ k hk => ⟨k, hk, ⟨[], by simp⟩, rfl, rfl, rfl⟩⟩

theorem QGrow_of_eq (s s' : State) (h : s'.workers = s.workers) : QGrow s s' := by
  refine ⟨by rw [h], ?_⟩
  intro w k hk; rw [h]; exact ⟨k, hk, ⟨[], by simp⟩, rfl, rfl, rfl⟩

theorem InQueue_grow (s s' : State) (w idx : Nat) (hg : QGrow s s') (h : InQueue s w idx) : InQueue s' w idx := by
  obtain ⟨k, hk, p, sn, hm⟩ := h
  obtain ⟨k', hk', ⟨t, ht⟩, _⟩ := hg.2 w k hk
  exact ⟨k', hk', p, sn, by rw [ht]; exact List.mem_append_left _ hm⟩

theorem pushMsg_mem (ws : List Worker) (w : Nat) (m : Msg) (hw : w < ws.length) :
    ∃ k, (pushMsg ws w m)[w]? = some k ∧ m ∈ k.q := by
  have hk0 : ws[w]? = some ws[w] := List.getElem?_eq_getElem hw
  refine ⟨{ ws[w] with q := ws[w].q ++ [m] }, ?_, List.mem_append_right _ (List.mem_singleton.mpr rfl)⟩
  simp [pushMsg, List.getElem?_modify, hk0]

/-- What `_try_put_index` does to `_task_info` and the queues in an active map-style state. -/
theorem tryPut_acct (c : Cfg) (s : State) (hv : c.Valid) (hm : c.iterable = false) (hio : c.inOrder = true)
    (h : MidM c s) :
    QGrow s (tryPut c s) ∧
    ((tryPut c s).info = s.info ∨
     ∃ e, (tryPut c s).info = s.info ++ [e] ∧ e.res = none ∧ InQueue (tryPut c s) e.w e.idx) := by
  by_cases hlt : s.sendIdx < c.batches.length
  · rw [tryPut_map_lt c s hv hm hio h.status h.sp h.cyc hlt]
    have hwl : s.sendIdx % c.W < s.workers.length := by rw [h.wlen]; exact Nat.mod_lt _ hv.1
    constructor
    · refine ⟨by simp [dispatchTo, pushMsg], ?_⟩
      intro w k hk
      simp only [dispatchTo, pushMsg, List.getElem?_modify, hk, Option.map_eq_map, Option.map_some]
      by_cases hw : s.sendIdx % c.W = w
      · simp only [hw, if_true]
        exact ⟨_, rfl, ⟨_, rfl⟩, rfl, rfl, rfl⟩
      · simp only [hw, if_false]
        exact ⟨k, rfl, ⟨[], by simp⟩, rfl, rfl, rfl⟩
    · right
      refine ⟨⟨s.sendIdx, s.sendIdx % c.W, none⟩, by simp [dispatchTo], rfl, ?_⟩
      obtain ⟨k, hk, hmem⟩ := pushMsg_mem s.workers (s.sendIdx % c.W)
        (.task s.sendIdx (s.samplerPos + 1 - 1) (flags c (s.samplerPos + 1) s.numYielded).2) hwl
      exact ⟨k, hk, _, _, hmem⟩
  · rw [tryPut_map_ge c s hm h.sp (by omega)]
    exact ⟨QGrow_of_eq _ _ rfl, Or.inl rfl⟩

theorem processData_acct (c : Cfg) (s : State) (r : Res) (hv : c.Valid) (hm : c.iterable = false)
    (hio : c.inOrder = true) (h : MidM c s) :
    QGrow s (processData c s r).1 ∧ (processData c s r).1.resQ = s.resQ ∧
    ((processData c s r).1.info = s.info ∨
     ∃ e, (processData c s r).1.info = s.info ++ [e] ∧ e.res = none ∧ InQueue (processData c s r).1 e.w e.idx) := by
  have h0 : MidM c { s with numTasks := s.numTasks.modify r.w (· - 1) } :=
    MidM_of_eq c s _ h rfl rfl rfl rfl rfl rfl rfl rfl
  obtain ⟨h1, h2⟩ := tryPut_acct c _ hv hm hio h0
  have hc := tryPut_sameCore c { s with numTasks := s.numTasks.modify r.w (· - 1) }
  have hproc : processData c s r =
      (match r.kind with
       | .data b => yieldItem c (tryPut c { s with numTasks := s.numTasks.modify r.w (· - 1) }) r b
       | _ => (tryPut c { s with numTasks := s.numTasks.modify r.w (· - 1) }, .error)) := by
    unfold processData; rfl
  rw [hproc]
  generalize tryPut c { s with numTasks := s.numTasks.modify r.w (· - 1) } = s2 at h1 h2 hc
  have key : ∀ s3 : State, s3.workers = s2.workers → s3.info = s2.info → s3.resQ = s2.resQ →
      QGrow s s3 ∧ s3.resQ = s.resQ ∧ (s3.info = s.info ∨
        ∃ e, s3.info = s.info ++ [e] ∧ e.res = none ∧ InQueue s3 e.w e.idx) := by
    intro s3 e1 e2 e3
    refine ⟨?_, by rw [e3]; exact hc.resQ, ?_⟩
    · refine ⟨by rw [e1]; exact h1.1, ?_⟩
      intro w k hk
      obtain ⟨k', hk', rest⟩ := h1.2 w k hk
      exact ⟨k', by rw [e1]; exact hk', rest⟩
    · rcases h2 with h2 | ⟨e, h2, h3, h4⟩
      · exact Or.inl (by rw [e2]; exact h2)
      · refine Or.inr ⟨e, by rw [e2]; exact h2, h3, ?_⟩
        obtain ⟨k, hk, rest⟩ := h4
        exact ⟨k, by rw [e1]; exact hk, rest⟩
  cases r.kind with
  | data b =>
    have hp := yieldItem_sameProto c s2 r b
    exact key _ hp.workers hp.info hp.resQ
  | notice => exact key _ rfl rfl rfl
  | error => exact key _ rfl rfl rfl
  | ack => exact key _ rfl rfl rfl

theorem noend_grow (s s' : State) (hg : QGrow s s')
    (h : ∀ (w : Nat) (k : Worker), s.workers[w]? = some k → k.iterEnd = false) :
    ∀ (w : Nat) (k : Worker), s'.workers[w]? = some k → k.iterEnd = false := by
  intro w k' hk'
  have hw : w < s.workers.length := by
    rw [← hg.1]
    exact (List.getElem?_eq_some_iff.mp hk').1
  obtain ⟨k'', hk'', _, hie, _⟩ := hg.2 w _ (List.getElem?_eq_getElem hw)
  rw [hk'] at hk''
  cases hk''
  rw [hie]
  exact h w _ (List.getElem?_eq_getElem hw)

theorem popProc_acct (c : Cfg) (s : State) (e : Info) (l : List Info) (r : Res) (hv : c.Valid)
    (hm : c.iterable = false) (hio : c.inOrder = true) (hmid : MidM c s)
    (hacc : ∀ e' ∈ l, e'.res = none → InFlight s e'.idx ∨ InQueue s e'.w e'.idx)
    (hnoend : ∀ (w : Nat) (k : Worker), s.workers[w]? = some k → k.iterEnd = false)
    (hi : s.info = e :: l) : AcctM c (popProc c s l r) := by
  have hinfo := hmid.info
  rw [hi] at hinfo
  have hlen := hmid.len
  rw [hi] at hlen
  simp only [List.length_cons] at hlen
  have h1 : MidM c { s with info := l, rcvdIdx := s.rcvdIdx + 1 } := by
    refine ⟨hmid.status, hmid.sp, hmid.le, hmid.cyc, ?_, hinfo.2.2.2, hmid.wlen, hmid.msgs, hmid.resq⟩
    simp only; omega
  obtain ⟨hg, hq, hinf⟩ := processData_acct c _ r hv hm hio h1
  unfold popProc
  generalize processData c { s with info := l, rcvdIdx := s.rcvdIdx + 1 } r = p at hg hq hinf
  obtain ⟨s3, o⟩ := p
  simp only at hg hq hinf
  simp only [finish]
  have hold : ∀ e' ∈ l, e'.res = none →
      InFlight { s3 with phase := .idle, obs := s3.obs ++ [o] } e'.idx ∨
      InQueue { s3 with phase := .idle, obs := s3.obs ++ [o] } e'.w e'.idx := by
    intro e' he' hn
    rcases hacc e' he' hn with h | h
    · left
      obtain ⟨r', hr', hidx⟩ := h
      exact ⟨r', by simp only [hq]; exact hr', hidx⟩
    · right
      exact InQueue_grow { s with info := l, rcvdIdx := s.rcvdIdx + 1 } _ _ _ hg h
  constructor
  · intro e' he' hn
    simp only at he'
    rcases hinf with hinf | ⟨en, hinf, hn1, hn2⟩
    · rw [hinf] at he'; exact hold e' he' hn
    · rw [hinf, List.mem_append, List.mem_singleton] at he'
      rcases he' with he' | he'
      · exact hold e' he' hn
      · subst he'
        right
        obtain ⟨k, hk, rest⟩ := hn2
        exact ⟨k, hk, rest⟩
  · exact noend_grow { s with info := l, rcvdIdx := s.rcvdIdx + 1 } _ hg hnoend
  · intro hph; simp at hph

theorem loopCase_acct (c : Cfg) (s s' : State) (hv : c.Valid) (hm : c.iterable = false) (hio : c.inOrder = true)
    (hmid : MidM c s)
    (hacc : ∀ e' ∈ s.info, e'.res = none → InFlight s e'.idx ∨ InQueue s e'.w e'.idx)
    (hnoend : ∀ (w : Nat) (k : Worker), s.workers[w]? = some k → k.iterEnd = false)
    (hl : LoopCase c s s') : s'.shutdown = false → AcctM c s' := by
  cases hl with
  | stop hle heq =>
    subst heq
    simp only [finish]
    have hlen := hmid.len
    have hnil : s.info = [] := by
      cases hi : s.info with
      | nil => rfl
      | cons e l => simp [hi] at hlen; omega
    by_cases hp' : c.persistent = true
    · simp only [hp', if_true]
      intro _
      exact ⟨by simp [hnil], hnoend, by simp⟩
    · have hp'' : c.persistent = false := by simpa using hp'
      simp only [hp'', Bool.false_eq_true, if_false]
      intro hsd
      rw [shutdownWorkers_shutdown] at hsd; cases hsd
  | wait e l hi hres heq =>
    subst heq
    intro _
    exact ⟨hacc, hnoend, fun _ => ⟨e, l, hi, hres⟩⟩
  | proc e l r hi hres hg hri heq =>
    subst heq
    intro _
    exact popProc_acct c s e l r hv hm hio hmid
      (fun e' he' => hacc e' (by rw [hi]; exact List.mem_cons_of_mem _ he')) hnoend hi

theorem mem_setRes_none (l : List Info) (i : Nat) (r : Res) (e : Info) (he : e ∈ setRes l i r) (hn : e.res = none) :
    e ∈ l ∧ e.idx ≠ i := by
  simp only [setRes, List.mem_map] at he
  obtain ⟨e0, he0, heq⟩ := he
  by_cases h : e0.idx = i
  · simp [h] at heq; subst heq; simp at hn
  · have : (e0.idx == i) = false := by simp [h]
    simp only [this] at heq
    subst heq
    exact ⟨he0, h⟩

theorem handle_task_map (c : Cfg) (w idx p : Nat) (sn : Bool) (k : Worker) (hm : c.iterable = false)
    (hie : k.iterEnd = false) :
    (∃ r, (handle c false w k (.task idx p sn)).2 = some r ∧ r.idx = idx) := by
  simp only [handle, hie, fetch, hm]
  cases c.batches.getD p Item.err <;> simp

theorem handle_iterEnd_map (c : Cfg) (sh : Bool) (w : Nat) (m : Msg) (k : Worker) (hm : c.iterable = false)
    (hie : k.iterEnd = false) : (handle c sh w k m).1.iterEnd = false := by
  cases m with
  | stop => exact hie
  | resume => rfl
  | task idx p sn =>
    simp only [handle, fetch, hm]
    split
    · exact hie
    · cases c.batches.getD p Item.err <;> simp [hie]

theorem InFlight_rest (s : State) (r : Res) (rest : List Res) (idx : Nat) (hq : s.resQ = r :: rest)
    (h : InFlight s idx) (hne : idx ≠ r.idx) : InFlight { s with resQ := rest } idx := by
  obtain ⟨r', hr', hidx⟩ := h
  rw [hq] at hr'
  rcases List.mem_cons.mp hr' with h1 | h1
  · subst h1; exact absurd hidx.symm hne
  · exact ⟨r', h1, hidx⟩

theorem InfoFrom_idx_gt (c : Cfg) (i : Nat) (l : List Info) (h : InfoFrom c i l) : ∀ e ∈ l, i ≤ e.idx := by
  induction l generalizing i with
  | nil => intro e he; cases he
  | cons x l ih =>
    intro e he
    rcases List.mem_cons.mp he with h1 | h1
    · subst h1; exact Nat.le_of_eq h.1.symm
    · have := ih (i + 1) h.2.2.2 e h1; omega

theorem step_acctM (c : Cfg) (s s' : State) (a : Action) (hv : c.Valid) (hm : c.iterable = false)
    (hio : c.inOrder = true) (ha : a ≠ .reset) (h : InvM c s) (hac : s.shutdown = false → AcctM c s)
    (hst : step c s a = some s') : (s'.shutdown = false → AcctM c s') ∨ died s' := by
  cases a with
  | reset => exact absurd rfl ha
  | work w =>
    left
    simp only [step] at hst
    split at hst
    · cases hst
    · rename_i k hk
      split at hst
      · cases hst
      · split at hst
        · cases hst
        · rename_i m rest hq
          cases hst
          intro hsd
          simp only at hsd
          have hA := hac hsd
          refine ⟨?_, ?_, hA.wait⟩
          · intro e he hn
            rcases hA.acct e he hn with hf | hf
            · left
              obtain ⟨r', hr', hidx⟩ := hf
              refine ⟨r', ?_, hidx⟩
              simp only
              split
              · exact List.mem_append_left _ hr'
              · exact hr'
            · obtain ⟨k0, hk0, p, sn, hmem⟩ := hf
              by_cases hw : e.w = w
              · rw [hw, hk] at hk0
                cases hk0
                rw [hq] at hmem
                rcases List.mem_cons.mp hmem with h1 | h1
                · left
                  subst h1
                  rw [hsd]
                  obtain ⟨r, hr, hidx⟩ := handle_task_map c w e.idx p sn
                    { q := rest, pos := k.pos, iterEnd := k.iterEnd, alive := k.alive } hm (hA.noend w k hk)
                  refine ⟨r, ?_, hidx⟩
                  simp only [hr]
                  exact List.mem_append_right _ (List.mem_singleton.mpr rfl)
                · right
                  refine ⟨(handle c s.shutdown w { q := rest, pos := k.pos, iterEnd := k.iterEnd, alive := k.alive } m).1,
                    ?_, p, sn, ?_⟩
                  · simp only [hw, List.getElem?_set, if_true]
                    have : w < s.workers.length := (List.getElem?_eq_some_iff.mp hk).1
                    simp only [this, if_true]
                  · rw [handle_q]; exact h1
              · right
                refine ⟨k0, ?_, p, sn, hmem⟩
                simp only [List.getElem?_set]
                have : ¬ w = e.w := fun h => hw h.symm
                simp only [this, if_false]
                exact hk0
          · intro w' k' hk'
            simp only [List.getElem?_set] at hk'
            by_cases hw : w = w'
            · subst hw
              simp only [if_true] at hk'
              split at hk'
              · cases hk'
                exact handle_iterEnd_map c _ w m _ hm (hA.noend w k hk)
              · cases hk'
            · simp only [hw, if_false] at hk'
              exact hA.noend w' k' hk'
  | kill w =>
    left
    simp only [step] at hst
    split at hst
    · cases hst
    · rename_i k hk
      split at hst
      · cases hst
      · cases hst
        intro hsd
        have hA := hac hsd
        refine ⟨?_, ?_, hA.wait⟩
        · intro e he hn
          rcases hA.acct e he hn with hf | hf
          · exact Or.inl hf
          · right
            obtain ⟨k0, hk0, p, sn, hmem⟩ := hf
            by_cases hw : w = e.w
            · subst hw
              rw [hk] at hk0; cases hk0
              refine ⟨{ k with alive := false }, ?_, p, sn, hmem⟩
              have : e.w < s.workers.length := (List.getElem?_eq_some_iff.mp hk).1
              simp [List.getElem?_set, this]
            · refine ⟨k0, ?_, p, sn, hmem⟩
              simp only [List.getElem?_set, hw, if_false]
              exact hk0
        · intro w' k' hk'
          simp only [List.getElem?_set] at hk'
          by_cases hw : w = w'
          · subst hw
            simp only [if_true] at hk'
            split at hk'
            · cases hk'; exact hA.noend w k hk
            · cases hk'
          · simp only [hw, if_false] at hk'
            exact hA.noend w' k' hk'
  | stateDict =>
    left
    simp only [step] at hst
    split at hst
    · cases hst
    · cases hst
      intro hsd
      have hA := hac hsd
      exact ⟨hA.acct, hA.noend, hA.wait⟩
  | pollTimeout =>
    simp only [step] at hst
    split at hst
    · cases hst
    · split at hst
      · cases hst; exact Or.inl hac
      · cases hst; right; simp [died]
  | next =>
    left
    rcases next_cases c s s' hv h hst with ⟨hsd, heq⟩ | ⟨hsd, hph, hl⟩
    · subst heq; intro hf; simp [hsd] at hf
    · have hA := hac hsd
      exact loopCase_acct c s s' hv hm hio (h.mid hsd) hA.acct hA.noend hl
  | recv =>
    left
    obtain ⟨r, rest, hsd, hph, hq, hg, hlt, hmid0, hr⟩ := recv_cases c s s' hv hm hio h hst
    have hA := hac hsd
    have hmid := h.mid hsd
    cases hr with
    | now e l hi hri heq =>
      subst heq
      intro _
      have hmid1 : MidM c { s with resQ := rest, outstanding := s.outstanding - 1 } :=
        MidM_of_eq c _ _ hmid0 rfl rfl rfl rfl rfl rfl rfl rfl
      have hinfo := hmid.info
      simp only at hi
      rw [hi] at hinfo
      refine popProc_acct c _ e l r hv hm hio hmid1 ?_ hA.noend hi
      intro e' he' hn
      have hgt := InfoFrom_idx_gt c _ l hinfo.2.2.2 e' he'
      rcases hA.acct e' (by rw [hi]; exact List.mem_cons_of_mem _ he') hn with hf | hf
      · left
        have := InFlight_rest s r rest e'.idx hq hf (by simp only at hri; omega)
        exact this
      · right; exact hf
    | store hne hmid2 hl =>
      refine loopCase_acct c _ s' hv hm hio hmid2 ?_ hA.noend hl
      intro e' he' hn
      obtain ⟨hmem, hidx⟩ := mem_setRes_none _ _ _ e' he' hn
      rcases hA.acct e' hmem hn with hf | hf
      · left
        have := InFlight_rest s r rest e'.idx hq hf hidx
        exact this
      · right; exact hf

end TDV.MP
