import TorchDataVerif.Props.C02
import TorchDataVerif.Props.C04
import TorchDataVerif.Proofs.RefinePFSeq
/-!
# Refinement link: sequential facts that are transferred to the protocols

Everything here is about sequential nodes only.  `lawful_resume_outs` and `yields_outs_stop` are consequences of the
C02 notion `Lawful` and the C04 notion `Yields`; `buffered_list_resume_exact` instantiates them for
`buffered sf (listSource l)` with `buffered_lawful_partial` (Props/C02) and `buffered_denote` (Props/C04).
-/
namespace TDV.Refine
open TDV.Node

theorem outs_add (n : Node) : ∀ (m k : Nat) (r : Run n), n.outs (m + k) r = n.outs m r ++ n.outs k (n.after m r)
  | 0, k, _ => by simp [Node.outs, Node.after]
  | m + 1, k, r => by
    rw [show m + 1 + k = (m + k) + 1 by omega]
    simp only [Node.outs, Node.after, List.cons_append]
    rw [outs_add n m k]

theorem reach_after (n : Node) : ∀ (m : Nat) (r : Run n), n.Reach r → n.Reach (n.after m r)
  | 0, _, h => h
  | m + 1, r, h => reach_after n m _ (Node.Reach.next h)

theorem seqRun_nexts (n : Node) : ∀ (k : Nat) (r : Run n),
    seqRun n r (List.replicate k Op.next) = (n.outs k r).map SRes.out
  | 0, _ => rfl
  | k + 1, r => by
    simp only [List.replicate_succ, seqRun, Node.outs, List.map_cons]
    rw [seqRun_nexts n k]

theorem seqAfter_nexts (n : Node) : ∀ (k : Nat) (r : Run n), seqAfter n r (List.replicate k Op.next) = n.after k r
  | 0, _ => rfl
  | k + 1, r => by
    simp only [List.replicate_succ, seqAfter, Node.after]
    rw [seqAfter_nexts n k]

theorem seqRun_append (n : Node) : ∀ (ops1 ops2 : List Op) (r : Run n),
    seqRun n r (ops1 ++ ops2) = seqRun n r ops1 ++ seqRun n (seqAfter n r ops1) ops2
  | [], _, _ => rfl
  | .next :: ops1, ops2, r => by simp [seqRun, seqAfter, seqRun_append n ops1 ops2]
  | .get :: ops1, ops2, r => by simp [seqRun, seqAfter, seqRun_append n ops1 ops2]

/-- C02 as a statement about results: loading the checkpoint taken at a reachable state `s` into any reachable runtime
state `R'` continues exactly like `s`. -/
theorem lawful_resume_outs {n : Node} (hl : Lawful n) (s R' : Run n) (hs : n.Reach s) (hR : n.Reach R') (k : Nat) :
    n.outs k (n.rreset R' (some (n.rget s).1)) = n.outs k s := by
  obtain ⟨Rel, Q, hb, _, h1, h2, _⟩ := hl
  rw [(hb.outs_eq k _ _ (h2 s R' hs hR)).1, (hb.outs_eq k _ _ (h1 s hs)).1]

/-- C04 as a statement about results: if the epoch yields `xs`, a run of `k + 1` calls that returned items `ys` and then
raised StopIteration returned exactly `xs`. -/
theorem yields_outs_stop {n : Node} : ∀ (xs : List Item) (r : Run n) (ys : List Item) (k : Nat), Yields n r xs →
    n.outs (k + 1) r = ys.map Out.item ++ [Out.stop] → ys = xs
  | [], r, ys, k, hy, ho => by
    have := hy (k + 1)
    rw [this] at ho
    cases ys with
    | nil => rfl
    | cons y ys => simp [List.replicate_succ] at ho
  | x :: xs, r, ys, k, hy, ho => by
    obtain ⟨h1, h2⟩ := hy
    simp only [Node.outs, h1] at ho
    cases ys with
    | nil => simp at ho
    | cons y ys =>
      simp only [List.map_cons, List.cons_append, List.cons.injEq, Out.item.injEq] at ho
      obtain ⟨rfl, ho⟩ := ho
      cases k with
      | zero => simp [Node.outs] at ho
      | succ k => rw [yields_outs_stop xs _ ys k h2 ho]

/-- **Resume exactness of `buffered sf (listSource l)`, from Props/C02 + Props/C04.**  An epoch started by `reset(None)`
in which `m` calls returned the items `ys1`, a checkpoint there, `reset(checkpoint)` of any reachable runtime state, and
`n2 + 1` calls that returned `ys2` and then StopIteration: `ys1 ++ ys2` is the source list. -/
theorem buffered_list_resume_exact (sf : Nat) (l : List Item)
    (R R' : Run (buffered sf (listSource l))) (hR : (buffered sf (listSource l)).Reach R)
    (hR' : (buffered sf (listSource l)).Reach R') (m n2 : Nat) (ys1 ys2 : List Item)
    (h1 : (buffered sf (listSource l)).outs m ((buffered sf (listSource l)).rreset R none) = ys1.map Out.item)
    (h2 : (buffered sf (listSource l)).outs (n2 + 1)
        ((buffered sf (listSource l)).rreset R'
          (some ((buffered sf (listSource l)).rget
            ((buffered sf (listSource l)).after m ((buffered sf (listSource l)).rreset R none))).1)) =
      ys2.map Out.item ++ [Out.stop]) :
    ys1 ++ ys2 = l := by
  have hl : Lawful (buffered sf (listSource l)) :=
    buffered_lawful_partial sf ⟨_, listSource_good l⟩ (listSource_errFree l)
  have hy : Yields (buffered sf (listSource l)) ((buffered sf (listSource l)).rreset R none) l :=
    buffered_denote sf (listSource l) (listSource_getTransparent l) l R hR (listSource_denote l _)
  have hr0 := Node.Reach.resetNone hR
  have hs := reach_after _ m _ hr0
  rw [lawful_resume_outs hl _ R' hs hR'] at h2
  have ho := outs_add (buffered sf (listSource l)) m (n2 + 1) ((buffered sf (listSource l)).rreset R none)
  rw [h1, h2, ← List.append_assoc, ← List.map_append, ← Nat.add_assoc] at ho
  exact yields_outs_stop l _ (ys1 ++ ys2) (m + n2) hy ho

/-! ## reading protocol results as sequential results -/

theorem toS_items (its : List Nat) :
    (its.map Res.item).map Res.toS = (((its.map Item.atom).map Out.item).map SRes.out : List (SRes (Nat × Nat))) := by
  simp [List.map_map, Function.comp_def, Res.toS]

theorem op_items (its : List Nat) : (its.map Res.item).map Res.op = List.replicate its.length Op.next := by
  induction its with
  | nil => rfl
  | cons a l ih => simp only [List.map_cons, List.length_cons, List.replicate_succ, ih, Res.op]

theorem out_map_inj {S : Type} {xs ys : List Out} (h : xs.map (SRes.out (S := S)) = ys.map SRes.out) : xs = ys :=
  (List.map_inj_right (by intro x y h; cases h; rfl)).mp h

theorem item_map_inj {xs ys : List Item} (h : xs.map Out.item = ys.map Out.item) : xs = ys :=
  (List.map_inj_right (by intro x y h; cases h; rfl)).mp h

theorem atom_map_inj {xs ys : List Nat} (h : xs.map Item.atom = ys.map Item.atom) : xs = ys :=
  (List.map_inj_right (by intro x y h; cases h; rfl)).mp h

end TDV.Refine
