import TorchDataVerif.Model.Nodes
import TorchDataVerif.Proofs.PF
/-!
# Refinement link, sequential side: what a consumer sees of `buffered sf src`

Shared by the Prefetcher link (`Proofs/RefinePFObs.lean`) and the ParallelMapper link (`Proofs/RefinePMObs.lean`).

* `Op` — the two consumer operations (`next()`, `get_state()`); `SRes` — what they return on a `Node`;
  `seqRun n r ops` — the results of `ops` on the sequential node `n` from runtime state `r` (through `rnext`/`rget`).
* `Res` — what the same operations return on the thread protocols (`TDV.PF`, `TDV.PM`); `Res.toS` embeds them.
* `spec sf base xs n ops` — the closed form both levels are compared with: the `n`-th `next()` returns `xs[n]`, or raises
  StopIteration from `n = |xs|` on; `get_state()` after `n` calls returns (position `base + j*`, `m − j*`) with
  `m = min n |xs|`, `j* = PF.jstar sf m`.
* `Tracks src pos base xs At` — `src` behaves like a positional source: in a state `At r p` it has position `base + p`
  (that is what its `get_state` returns, through `pos`), `state_dict()` is transparent, and `next()` returns `xs[p]`
  (or StopIteration at the end).  `listSource` and `mapper (total) ∘ listSource` are instances.
* `seqRun_buffered` — over such a source, `buffered sf src` computes exactly `spec`.
-/
namespace TDV.Refine
open TDV.Node

inductive Op | next | get
  deriving DecidableEq, Repr

/-- result of one consumer operation on a sequential node with serialised state `S` -/
inductive SRes (S : Type) where
  | out (o : Out)
  | state (s : S)

/-- The consumer operations `ops` run on the node `n` from `r`: the list of their results. -/
def seqRun (n : Node) : Run n → List Op → List (SRes n.S)
  | _, [] => []
  | r, .next :: ops => .out (n.rnext r).1 :: seqRun n (n.rnext r).2 ops
  | r, .get :: ops => .state (n.rget r).1 :: seqRun n (n.rget r).2 ops

/-- The runtime state after the operations. -/
def seqAfter (n : Node) : Run n → List Op → Run n
  | r, [] => r
  | r, .next :: ops => seqAfter n (n.rnext r).2 ops
  | r, .get :: ops => seqAfter n (n.rget r).2 ops

/-- result of one consumer operation on a thread protocol: an item, StopIteration, an exception
(`0`: re-raised source / `map_fn` error, `1`: RuntimeError "worker exited"), or the pair `get_state()` returns -/
inductive Res where
  | item (v : Nat)
  | stop
  | error (k : Nat)
  | state (snap steps : Nat)
  deriving DecidableEq, Repr

def Res.op : Res → Op
  | .state _ _ => .get
  | _ => .next

def Res.toS : Res → SRes (Nat × Nat)
  | .item v => .out (.item (.atom v))
  | .stop => .out .stop
  | .error k => .out (.error k)
  | .state a b => .state (a, b)

def SRes.proj {S : Type} (pos : S → Nat) : SRes (S × Nat) → SRes (Nat × Nat)
  | .out o => .out o
  | .state s => .state (pos s.1, s.2)

theorem SRes.proj_id : (SRes.proj (fun x : Nat => x)) = id := by
  funext r; cases r <;> rfl

theorem SRes.map_proj_id (xs : List (SRes (Nat × Nat))) : xs.map (SRes.proj (fun x : Nat => x)) = xs := by
  rw [SRes.proj_id, List.map_id]

/-- what the `n`-th `next()` of an epoch over the items `xs` returns -/
def nextOut (xs : List Item) (n : Nat) : Out :=
  match xs[n]? with
  | some v => .item v
  | none => .stop

/-- The closed form: results of `ops` when `n` calls of `next()` precede them. -/
def spec (sf base : Nat) (xs : List Item) : Nat → List Op → List (SRes (Nat × Nat))
  | _, [] => []
  | n, .next :: ops => .out (nextOut xs n) :: spec sf base xs (n + 1) ops
  | n, .get :: ops =>
    .state (base + PF.jstar sf (min n xs.length), min n xs.length - PF.jstar sf (min n xs.length))
      :: spec sf base xs n ops

theorem nextOut_lt {xs : List Item} {n : Nat} (h : n < xs.length) : nextOut xs n = .item xs[n] := by
  simp [nextOut, List.getElem?_eq_getElem h]

theorem nextOut_ge {xs : List Item} {n : Nat} (h : xs.length ≤ n) : nextOut xs n = .stop := by
  simp [nextOut, List.getElem?_eq_none h]

/-- `src` is a positional source over the items `xs` counted from position `base`. -/
structure Tracks (src : Node) (pos : src.S → Nat) (base : Nat) (xs : List Item) (At : Run src → Nat → Prop) : Prop where
  get_val : ∀ r p, At r p → pos (src.rget r).1 = base + p
  get_st : ∀ r p, At r p → At (src.rget r).2 p
  next_out : ∀ r p, At r p → (src.rnext r).1 = nextOut xs p
  next_st : ∀ r p, At r p → At (src.rnext r).2 (if p < xs.length then p + 1 else p)

/-- State of `buffered sf src` after `n` calls of `next()` in a generation that started at position `base`. -/
structure SInv (src : Node) (pos : src.S → Nat) (sf base : Nat) (xs : List Item) (At : Run src → Nat → Prop)
    (st : BufSt src) (n : Nat) : Prop where
  bad : st.bad = false
  at_ : At st.inner (min n xs.length)
  snap : ∃ sn, st.snap = some sn ∧ pos sn = base + PF.jstar sf (min n xs.length)
  steps : st.steps + PF.jstar sf (min n xs.length) = min n xs.length
  yielded : st.yielded = min n xs.length
  done : st.done = true ↔ xs.length < n

section
variable {src : Node} {pos : src.S → Nat} {sf base : Nat} {xs : List Item} {At : Run src → Nat → Prop}

theorem sinv_start (T : Tracks src pos base xs At) (r : Run src) (h : At r 0) :
    SInv src pos sf base xs At (bufStart src r) 0 := by
  refine ⟨rfl, ?_, ⟨_, rfl, ?_⟩, ?_, ?_, ?_⟩
  · exact T.get_st r 0 h
  · simpa [PF.jstar] using T.get_val r 0 h
  · simp [bufStart, PF.jstar]
  · simp [bufStart]
  · simp [bufStart]

theorem sinv_get (st : BufSt src) (n : Nat) (h : SInv src pos sf base xs At st n) :
    (bufGet src st).2 = st ∧ pos (bufGet src st).1.1 = base + PF.jstar sf (min n xs.length) ∧
      (bufGet src st).1.2 = min n xs.length - PF.jstar sf (min n xs.length) := by
  obtain ⟨sn, h1, h2⟩ := h.snap
  have := h.steps
  simp only [bufGet, h1]
  exact ⟨trivial, h2, by omega⟩

theorem jstar_succ' (f m : Nat) :
    PF.jstar f (m + 1) = if 0 < f ∧ (m + 1) % f = 0 then m + 1 else PF.jstar f m := rfl

theorem sinv_next (T : Tracks src pos base xs At) (st : BufSt src) (n : Nat)
    (h : SInv src pos sf base xs At st n) :
    (bufNext src sf st).1 = nextOut xs n ∧ SInv src pos sf base xs At (bufNext src sf st).2 (n + 1) := by
  obtain ⟨hb, hat, ⟨sn, hs1, hs2⟩, hst, hy, hd⟩ := h
  by_cases hlt : xs.length < n
  · -- already stopped
    have hdn : st.done = true := hd.mpr hlt
    have e : bufNext src sf st = (.stop, st) := by simp [bufNext, hb, hdn]
    rw [e]
    have hm : min (n + 1) xs.length = min n xs.length := by omega
    refine ⟨(nextOut_ge (by omega)).symm, hb, ?_, ⟨sn, hs1, ?_⟩, ?_, ?_, ?_⟩
    · rw [hm]; exact hat
    · rw [hm]; exact hs2
    · rw [hm]; exact hst
    · rw [hm]; exact hy
    · simp [hdn]; omega
  · have hdn : st.done = false := by
      cases hdd : st.done
      · rfl
      · exact absurd (hd.mp hdd) hlt
    have hmn : min n xs.length = n := by omega
    rw [hmn] at hat hs2 hst hy
    have ho := T.next_out _ _ hat
    have hn := T.next_st _ _ hat
    rcases hr : src.rnext st.inner with ⟨o, r'⟩
    rw [hr] at ho hn
    simp only at ho hn
    by_cases hlast : n < xs.length
    · -- an item
      rw [nextOut_lt hlast] at ho
      simp only [hlast, if_true] at hn
      have hm1 : min (n + 1) xs.length = n + 1 := by omega
      subst ho
      by_cases hsnap : 0 < sf ∧ (st.yielded + 1) % sf = 0
      · have e : bufNext src sf st = (.item xs[n],
            { st with inner := (src.rget r').2, snap := some (src.rget r').1, steps := 0, yielded := st.yielded + 1 }) := by
          simp [bufNext, hb, hdn, hr, hsnap]
        rw [e]
        have hj : PF.jstar sf (n + 1) = n + 1 := by
          rw [jstar_succ', if_pos (by rw [hy] at hsnap; exact hsnap)]
        refine ⟨(nextOut_lt hlast).symm, hb, ?_, ⟨_, rfl, ?_⟩, ?_, ?_, ?_⟩
        · rw [hm1]; exact T.get_st _ _ hn
        · rw [hm1, hj]; exact T.get_val _ _ hn
        · rw [hm1, hj]; simp
        · rw [hm1]; simp [hy]
        · simp [hdn]; omega
      · have e : bufNext src sf st = (.item xs[n],
            { st with inner := r', steps := st.steps + 1, yielded := st.yielded + 1 }) := by
          simp only [bufNext, hb, hdn, hr]
          simp only [gt_iff_lt, hsnap, if_false]
          simp
        rw [e]
        have hj : PF.jstar sf (n + 1) = PF.jstar sf n := by
          rw [jstar_succ', if_neg (by rw [hy] at hsnap; exact hsnap)]
        refine ⟨(nextOut_lt hlast).symm, hb, ?_, ⟨sn, hs1, ?_⟩, ?_, ?_, ?_⟩
        · rw [hm1]; exact hn
        · rw [hm1, hj]; exact hs2
        · rw [hm1, hj]; simp; omega
        · rw [hm1]; simp [hy]
        · simp [hdn]; omega
    · -- the source stops now
      have hge : xs.length ≤ n := by omega
      rw [nextOut_ge hge] at ho
      simp only [hlast, if_false] at hn
      subst ho
      have e : bufNext src sf st = (.stop, { st with inner := r', done := true }) := by
        simp [bufNext, hb, hdn, hr]
      rw [e]
      have hm1 : min (n + 1) xs.length = n := by omega
      refine ⟨(nextOut_ge hge).symm, hb, ?_, ⟨sn, hs1, ?_⟩, ?_, ?_, ?_⟩
      · rw [hm1]; exact hn
      · rw [hm1]; exact hs2
      · rw [hm1]; exact hst
      · rw [hm1]; exact hy
      · simp; omega

/-- Over a positional source, `buffered sf src` computes the closed form, for every sequence of consumer operations. -/
theorem seqRun_buffered (T : Tracks src pos base xs At) :
    ∀ (ops : List Op) (R : Run (buffered sf src)) (n : Nat), SInv src pos sf base xs At (R.st : BufSt src) n →
      (seqRun (buffered sf src) R ops).map (SRes.proj pos) = spec sf base xs n ops
  | [], _, _, _ => rfl
  | .next :: ops, R, n, h => by
    have hn := sinv_next T (R.st : BufSt src) n h
    have ih := seqRun_buffered T ops ((buffered sf src).rnext R).2 (n + 1) hn.2
    show SRes.proj pos (.out (bufNext src sf (R.st : BufSt src)).1) :: _ = _
    rw [hn.1]
    exact congrArg _ ih
  | .get :: ops, R, n, h => by
    have hg := sinv_get (R.st : BufSt src) n h
    have ih := seqRun_buffered T ops ((buffered sf src).rget R).2 n (by
      show SInv src pos sf base xs At (bufGet src (R.st : BufSt src)).2 n
      rw [hg.1]; exact h)
    show SRes.proj pos (.state (bufGet src (R.st : BufSt src)).1) :: _ = _
    simp only [spec, SRes.proj]
    rw [hg.2.1, hg.2.2]
    exact congrArg _ ih

/-- After `k` calls of `next()` that all returned items, the state is the one `bufFF` (fast-forward) computes. -/
theorem bufFF_items (T : Tracks src pos base xs At) :
    ∀ (k : Nat) (st : BufSt src) (n : Nat), SInv src pos sf base xs At st n → n + k ≤ xs.length →
      SInv src pos sf base xs At (bufFF src sf k st) (n + k)
  | 0, _, _, h, _ => h
  | k + 1, st, n, h, hk => by
    have hn := sinv_next T st n h
    rw [nextOut_lt (by omega)] at hn
    rcases hb : bufNext src sf st with ⟨o, st'⟩
    rw [hb] at hn
    have ho : o = .item xs[n] := hn.1
    subst ho
    have := bufFF_items T k st' (n + 1) hn.2 (by omega)
    simp only [bufFF, hb]
    rw [show n + (k + 1) = n + 1 + k by omega]
    exact this

end

/-! ## the two positional sources -/

theorem drop_cons_getElem {α : Type} : ∀ (xs : List α) (p : Nat) (x : α) (r : List α), xs.drop p = x :: r →
    p < xs.length ∧ xs[p]? = some x ∧ xs.drop (p + 1) = r
  | [], p, x, r, h => by simp at h
  | y :: ys, 0, x, r, h => by
    simp only [List.drop_zero, List.cons.injEq] at h
    obtain ⟨rfl, rfl⟩ := h
    simp
  | y :: ys, p + 1, x, r, h => by
    have := drop_cons_getElem ys p x r (by simpa using h)
    refine ⟨by simp; omega, by simpa using this.2.1, by simpa using this.2.2⟩

/-- `IterableWrapper(list)`: in state `listAt base xs r p` it has yielded `base + p` items and still holds `xs.drop p`. -/
def listAt (l : List Item) (base : Nat) (xs : List Item) (r : Run (listSource l)) (p : Nat) : Prop :=
  (r.st : ListSt).bad = false ∧ (r.st : ListSt).rem = xs.drop p ∧ (r.st : ListSt).ny = base + p

theorem listSource_tracks (l : List Item) (base : Nat) (xs : List Item) :
    Tracks (listSource l) (fun x : Nat => x) base xs (listAt l base xs) where
  get_val := fun _ _ h => h.2.2
  get_st := fun _ _ h => h
  next_out := by
    rintro ⟨st, b⟩ p ⟨h1, h2, h3⟩
    simp only at h1 h2 h3
    show (listNext st).1 = _
    cases hd : xs.drop p with
    | nil =>
      have : xs.length ≤ p := by simpa using hd
      rw [nextOut_ge this]
      simp [listNext, h1, h2, hd]
    | cons x r =>
      obtain ⟨hl, hx, _⟩ := drop_cons_getElem xs p x r hd
      simp [listNext, h1, h2, hd, nextOut, hx]
  next_st := by
    rintro ⟨st, b⟩ p ⟨h1, h2, h3⟩
    simp only at h1 h2 h3
    show listAt l base xs ⟨(listNext st).2, true⟩ _
    cases hd : xs.drop p with
    | nil =>
      have : xs.length ≤ p := by simpa using hd
      have hlt : ¬ p < xs.length := by omega
      simp only [hlt, if_false]
      have e : (listNext st).2 = st := by
        simp only [listNext, h1, h2, hd]
        rfl
      rw [e]
      exact ⟨h1, h2, h3⟩
    | cons x r =>
      obtain ⟨hl, hx, hr⟩ := drop_cons_getElem xs p x r hd
      simp only [hl, if_true]
      have e : (listNext st).2 = { st with rem := r, ny := st.ny + 1 } := by simp [listNext, h1, h2, hd]
      rw [e]
      exact ⟨h1, hr.symm, by simp only [h3]; omega⟩

/-- `reset(None)` resp. `reset(j)` (with `j ≤ |l|`) puts the list source at position 0 of `l` resp. of `l.drop j`. -/
theorem listAt_reset_none (l : List Item) (r : Run (listSource l)) :
    listAt l 0 l ((listSource l).rreset r none) 0 := ⟨rfl, rfl, rfl⟩

theorem listAt_reset_some (l : List Item) (r : Run (listSource l)) (j : Nat) (hj : j ≤ l.length) :
    listAt l j (l.drop j) ((listSource l).rreset r (some j)) 0 := by
  show listAt l j (l.drop j) ⟨listReset l r.st (some j), false⟩ 0
  simp only [listReset, hj, if_true]
  exact ⟨rfl, rfl, rfl⟩

/-- `Mapper` with a `map_fn` that never raises, over a positional source, is a positional source over the images. -/
theorem mapper_tracks {src : Node} {pos : src.S → Nat} {base : Nat} {xs : List Item} {At : Run src → Nat → Prop}
    (T : Tracks src pos base xs At) (F : Item → Item) :
    Tracks (mapper (fun x => some (F x)) src) pos base (xs.map F) (fun R p => At (R.st : Run src) p) where
  get_val := fun R p h => T.get_val (R.st : Run src) p h
  get_st := fun R p h => T.get_st (R.st : Run src) p h
  next_out := by
    intro R p h
    have ho := T.next_out (R.st : Run src) p h
    show (mapNext src _ (R.st : Run src)).1 = _
    rcases hr : src.rnext (R.st : Run src) with ⟨o, r'⟩
    rw [hr] at ho
    simp only at ho
    subst ho
    cases hx : xs[p]? with
    | none => simp [mapNext, hr, nextOut, hx]
    | some v => simp [mapNext, hr, nextOut, hx]
  next_st := by
    intro R p h
    have hn := T.next_st (R.st : Run src) p h
    have ho := T.next_out (R.st : Run src) p h
    show At (mapNext src _ (R.st : Run src)).2 _
    rcases hr : src.rnext (R.st : Run src) with ⟨o, r'⟩
    rw [hr] at hn ho
    simp only at hn ho
    subst ho
    simp only [List.length_map]
    cases hx : xs[p]? with
    | none => simpa [mapNext, hr, nextOut, hx] using hn
    | some v => simpa [mapNext, hr, nextOut, hx] using hn

/-! ## `buffered sf (listSource l)`: the sequential abstraction of `Prefetcher(IterableWrapper(l), snapshot_frequency=sf)` -/

/-- a new epoch (`reset(None)`) from any runtime state `R` of the node object -/
theorem seq_list_fresh (sf : Nat) (l : List Item) (R : Run (buffered sf (listSource l))) (ops : List Op) :
    seqRun (buffered sf (listSource l)) ((buffered sf (listSource l)).rreset R none) ops = spec sf 0 l 0 ops := by
  have T := listSource_tracks l 0 l
  have h0 : SInv (listSource l) (fun x : Nat => x) sf 0 l (listAt l 0 l)
      (bufStart (listSource l) ((listSource l).rreset (R.st : BufSt (listSource l)).inner none)) 0 :=
    sinv_start T _ (listAt_reset_none l _)
  have := seqRun_buffered T ops ((buffered sf (listSource l)).rreset R none) 0 h0
  exact (SRes.map_proj_id _).symm.trans this

/-- `reset((j, k))` with `j + k ≤ |l|` from any runtime state `R`: source reset to `j`, `k` items fast-forwarded -/
theorem seq_list_resume (sf : Nat) (l : List Item) (R : Run (buffered sf (listSource l))) (j k : Nat)
    (hjk : j + k ≤ l.length) (ops : List Op) :
    seqRun (buffered sf (listSource l)) ((buffered sf (listSource l)).rreset R (some (j, k))) ops =
      spec sf j (l.drop j) k ops := by
  have T := listSource_tracks l j (l.drop j)
  have h0 : SInv (listSource l) (fun x : Nat => x) sf j (l.drop j) (listAt l j (l.drop j))
      (bufStart (listSource l) ((listSource l).rreset (R.st : BufSt (listSource l)).inner (some j))) 0 :=
    sinv_start T _ (listAt_reset_some l _ j (by omega))
  have hk := bufFF_items T k _ 0 h0 (by simp; omega)
  rw [Nat.zero_add] at hk
  have := seqRun_buffered T ops ((buffered sf (listSource l)).rreset R (some (j, k))) k hk
  exact (SRes.map_proj_id _).symm.trans this

/-! ## splitting the closed form at a block of `next()` calls (the constructor's fast-forward) -/

theorem spec_length (sf base : Nat) (xs : List Item) : ∀ (ops : List Op) (n : Nat),
    (spec sf base xs n ops).length = ops.length
  | [], _ => rfl
  | .next :: ops, n => by simp [spec, spec_length sf base xs ops (n + 1)]
  | .get :: ops, n => by simp [spec, spec_length sf base xs ops n]

theorem spec_append_nexts (sf base : Nat) (xs : List Item) (ops2 : List Op) : ∀ (t : List Op) (n : Nat),
    (∀ o ∈ t, o = Op.next) →
    spec sf base xs n (t ++ ops2) = spec sf base xs n t ++ spec sf base xs (n + t.length) ops2
  | [], n, _ => by simp [spec]
  | o :: t, n, h => by
    have ho : o = .next := h o (by simp)
    subst ho
    have ih := spec_append_nexts sf base xs ops2 t (n + 1) (fun o ho => h o (by simp [ho]))
    simp only [List.cons_append, spec, ih, List.length_cons]
    rw [show n + 1 + t.length = n + (t.length + 1) by omega]

theorem spec_nexts_mem (sf base : Nat) (xs : List Item) : ∀ (t : List Op) (n : Nat), (∀ o ∈ t, o = Op.next) →
    ∀ r ∈ spec sf base xs n t, ∃ i, n ≤ i ∧ i < n + t.length ∧ r = .out (nextOut xs i)
  | [], n, _, r, hr => by simp [spec] at hr
  | o :: t, n, h, r, hr => by
    have ho : o = .next := h o (by simp)
    subst ho
    simp only [spec, List.mem_cons] at hr
    rcases hr with rfl | hr
    · exact ⟨n, Nat.le_refl _, by simp, rfl⟩
    · obtain ⟨i, h1, h2, h3⟩ := spec_nexts_mem sf base xs t (n + 1) (fun o ho => h o (by simp [ho])) r hr
      exact ⟨i, by omega, by simp only [List.length_cons]; omega, h3⟩

/-- every `get_state()` result of the closed form is `(base + j*, m − j*)` for some `m ≤ |xs|` -/
theorem spec_state_mem (sf base : Nat) (xs : List Item) : ∀ (ops : List Op) (n : Nat) (a b : Nat),
    SRes.state (a, b) ∈ spec sf base xs n ops →
    ∃ m, m ≤ xs.length ∧ a = base + PF.jstar sf m ∧ b = m - PF.jstar sf m
  | [], _, _, _, h => by simp [spec] at h
  | .next :: ops, n, a, b, h => by
    simp only [spec, List.mem_cons, reduceCtorEq, false_or] at h
    exact spec_state_mem sf base xs ops (n + 1) a b h
  | .get :: ops, n, a, b, h => by
    simp only [spec, List.mem_cons, SRes.state.injEq, Prod.mk.injEq] at h
    rcases h with ⟨rfl, rfl⟩ | h
    · exact ⟨min n xs.length, Nat.min_le_right _ _, rfl, rfl⟩
    · exact spec_state_mem sf base xs ops n a b h

end TDV.Refine
