import TorchDataVerif.Proofs.SPBase
/-! Map-style resume: similarity of iterators, the index-source law, restore, chains, following epochs. -/
namespace TDV.SP
open TDV.Sampler

/-- What an index source must satisfy for exact resume.  `Same w w'`: the sampler objects behind `w` and
`w'` were constructed with the same arguments.  `resume`: the state saved after ANY number `j` of `next`
calls of an iterator (created from any world `w`), loaded into a newly constructed iterator over `w'`,
reproduces the saving iterator's sampler world exactly. -/
structure IdxLaw {W St : Type} (S : IdxSrc W St) (Same : W → W → Prop) : Prop where
  resume : ∀ (w w' : W) (j : Nat), Same w w' →
    S.load (S.seed (S.iter w')) (S.save (inextN S j (S.seed (S.iter w)))) (idxCount S j (S.seed (S.iter w))) =
      some (inextN S j (S.seed (S.iter w)))
  same_next : ∀ (w w' : W), Same w w' → Same (S.next w).2 w'
  same_iter : ∀ (w w' : W), Same w w' → Same (S.iter w) w'
  same_seed : ∀ (w w' : W), Same w w' → Same (S.seed w) w'

/-- Two map-style iterators that cannot be told apart: same sampler world (incl. generator), same
counters, same `_finished` (the dataset world does not influence a map-style fetch). -/
def SimM {W D : Type} (x x' : It W D) : Prop :=
  x.sw = x'.sw ∧ x.siy = x'.siy ∧ x.ny = x'.ny ∧ x.finished = x'.finished

section
variable {W SSt D Ds Dt : Type} (S : IdxSrc W SSt) (Da : Data D Ds Dt) (c : Cfg)
variable (data : Nat → Option Nat)

theorem simM_refl (x : It W D) : SimM x x := ⟨rfl, rfl, rfl, rfl⟩

theorem simM_trans {x y z : It W D} (h1 : SimM x y) (h2 : SimM y z) : SimM x z :=
  ⟨h1.1.trans h2.1, h1.2.1.trans h2.2.1, h1.2.2.1.trans h2.2.2.1, h1.2.2.2.trans h2.2.2.2⟩

theorem simM_next (hmap : Da.iterable = false) (hget : ∀ d i, (Da.get d i).1 = data i) {x x' : It W D}
    (h : SimM x x') : (next S Da c x).1 = (next S Da c x').1 ∧ SimM (next S Da c x).2 (next S Da c x').2 := by
  obtain ⟨h1, h2, h3, h4⟩ := h
  have a := next_map S Da c data hmap hget x
  have b := next_map S Da c data hmap hget x'
  have sa := next_sw S Da c x
  have sb := next_sw S Da c x'
  have ya := next_siy S Da c x
  have yb := next_siy S Da c x'
  rw [h1] at a sa ya
  refine ⟨by rw [a.1, b.1], ?_, ?_, ?_, ?_⟩
  · rw [sa, sb]
  · rw [ya, yb, h2]
  · rw [a.2.2.2, b.2.2.2, h3]
  · rw [a.2.2.1, b.2.2.1, h4]

theorem simM_nextN (hmap : Da.iterable = false) (hget : ∀ d i, (Da.get d i).1 = data i) :
    ∀ (k : Nat) {x x' : It W D}, SimM x x' → SimM (nextN S Da c k x) (nextN S Da c k x')
  | 0, _, _, h => h
  | k + 1, _, _, h => simM_nextN hmap hget k (simM_next S Da c data hmap hget h).2

theorem simM_obsN (hmap : Da.iterable = false) (hget : ∀ d i, (Da.get d i).1 = data i) :
    ∀ (k : Nat) {x x' : It W D}, SimM x x' → obsN S Da c k x = obsN S Da c k x'
  | 0, _, _, _ => rfl
  | k + 1, _, _, h => by
    have hn := simM_next S Da c data hmap hget h
    rw [obsN, obsN, hn.1, simM_obsN hmap hget k hn.2]

/-- Similar iterators deliver the same rest of the epoch and end similar. -/
theorem simM_epoch (hmap : Da.iterable = false) (hget : ∀ d i, (Da.get d i).1 = data i) :
    ∀ (fuel : Nat) {x x' : It W D}, SimM x x' →
      (epoch S Da c fuel x).1 = (epoch S Da c fuel x').1 ∧ SimM (epoch S Da c fuel x).2 (epoch S Da c fuel x').2
  | 0, _, _, h => ⟨rfl, h⟩
  | f + 1, x, x', h => by
    have hn := simM_next S Da c data hmap hget h
    have ih := simM_epoch hmap hget f hn.2
    rw [epoch, epoch]
    generalize next S Da c x = r at hn ih
    generalize next S Da c x' = r' at hn ih
    obtain ⟨o, y⟩ := r
    obtain ⟨o', y'⟩ := r'
    simp only at hn ih
    obtain ⟨ho, hs⟩ := hn
    subst ho
    cases o with
    | stop => exact ⟨rfl, hs⟩
    | batch l => exact ⟨by simp only [ih.1], ih.2⟩
    | single v => exact ⟨by simp only [ih.1], ih.2⟩
    | error k => exact ⟨by simp only [ih.1], ih.2⟩

theorem simM_create (w : W) (d d' : D) : SimM (create S Da w d) (create S Da w d') := ⟨rfl, rfl, rfl, rfl⟩

/-- `load_state_dict` of a map-style iterator, given what the sampler part does. -/
theorem restore_map (hmap : Da.iterable = false) (w' w2 : W) (d' : D) (st : St SSt Ds Dt)
    (hl : S.load (S.seed (S.iter w')) st.sampler st.siy = some w2) :
    ∃ x', restore S Da c w' d' st = .ok x' ∧ x'.sw = w2 ∧ x'.siy = st.siy ∧ x'.ny = st.ny ∧
      x'.finished = st.finished := by
  unfold restore
  simp only [hl, hmap, Bool.false_eq_true, if_false]
  exact ⟨_, rfl, rfl, rfl, rfl, rfl⟩

/-- **Resume, map-style** (sampler law `L`).  `x1` is any iterator similar to the uninterrupted iterator
after `k` calls (`x1` = that iterator itself, or an iterator that was itself resumed): its `state_dict()`,
loaded into a NEWLY constructed iterator over other objects `w'`, `d'` built with the same arguments, gives an
iterator similar to the uninterrupted one — same sampler world and generator, `_sampler_iter_yielded`,
`_num_yielded`, `_finished`. -/
theorem restore_simM {Same : W → W → Prop} (L : IdxLaw S Same) (hmap : Da.iterable = false)
    (w w' : W) (d d' : D) (hs : Same w w') (k : Nat) (x1 : It W D)
    (h1 : SimM (nextN S Da c k (create S Da w d)) x1) :
    ∃ x', restore S Da c w' d' (save S Da x1) = .ok x' ∧ SimM (nextN S Da c k (create S Da w d)) x' := by
  obtain ⟨e1, e2, e3, e4⟩ := h1
  have hsw := nextN_sw S Da c k (create S Da w d)
  have hsy := nextN_siy S Da c k (create S Da w d)
  have hl := L.resume w w' k hs
  have c1 : (create S Da w d).sw = S.seed (S.iter w) := rfl
  have c2 : (create S Da w d).siy = 0 := rfl
  rw [c1] at hsw hsy
  rw [c2, Nat.zero_add] at hsy
  rw [← hsw, ← hsy, e1, e2] at hl
  obtain ⟨x', hr, r1, r2, r3, r4⟩ := restore_map S Da c hmap w' x1.sw d' (save S Da x1) hl
  exact ⟨x', hr, e1.trans r1.symm, e2.trans r2.symm, e3.trans r3.symm, e4.trans r4.symm⟩

/-- A chain of resumes: after `k` more batches take the state, load it into a new iterator over `(w', d')`,
go on. -/
def chain : List (Nat × W × D) → It W D → Option (It W D)
  | [], x => some x
  | (k, w', d') :: r, x =>
    match restore S Da c w' d' (save S Da (nextN S Da c k x)) with
    | .ok x' => chain r x'
    | .raised _ _ => none

theorem chain_simM {Same : W → W → Prop} (L : IdxLaw S Same) (hmap : Da.iterable = false)
    (hget : ∀ d i, (Da.get d i).1 = data i) (w : W) (d : D) :
    ∀ (ks : List (Nat × W × D)) (K : Nat) (x1 : It W D), (∀ e ∈ ks, Same w e.2.1) →
      SimM (nextN S Da c K (create S Da w d)) x1 →
      ∃ xr, chain S Da c ks x1 = some xr ∧
        SimM (nextN S Da c (K + (ks.map (·.1)).sum) (create S Da w d)) xr
  | [], K, x1, _, h => ⟨x1, rfl, by simpa using h⟩
  | (k, w', d') :: r, K, x1, hs, h => by
    have h2 : SimM (nextN S Da c (K + k) (create S Da w d)) (nextN S Da c k x1) := by
      rw [nextN_add]; exact simM_nextN S Da c data hmap hget k h
    obtain ⟨x', hr, hx'⟩ := restore_simM S Da c L hmap w w' d d' (hs (k, w', d') (by simp)) (K + k) _ h2
    obtain ⟨xr, hc, hxr⟩ := chain_simM L hmap hget w d r (K + k) x' (fun e he => hs e (by simp [he])) hx'
    refine ⟨xr, ?_, ?_⟩
    · simp only [chain, hr]; exact hc
    · simpa [Nat.add_assoc] using hxr

/-- Loaders between epochs that cannot be told apart deliver the same following epochs. -/
theorem epochs_simM (hmap : Da.iterable = false) (hget : ∀ d i, (Da.get d i).1 = data i) (fuel : Nat) :
    ∀ (E : Nat) (l l' : Loader W SSt D Ds Dt), l.nis = none → l'.nis = none → l.init = false → l'.init = false →
      l.x.sw = l'.x.sw →
      (Loader.epochs S Da c fuel E l).1 = (Loader.epochs S Da c fuel E l').1
  | 0, _, _, _, _, _, _, _ => rfl
  | E + 1, l, l', n1, n2, i1, i2, hw => by
    have hi : ∀ (m : Loader W SSt D Ds Dt), m.nis = none → m.init = false →
        Loader.iter S Da c m = (true, { m with x := create S Da m.x.sw m.x.dw, live := true }) := by
      intro m hn hi
      simp [Loader.iter, Loader.getIterator, hn, hi, create]
    rw [Loader.epochs, Loader.epochs, hi l n1 i1, hi l' n2 i2]
    dsimp only
    have hsim : SimM (create S Da l.x.sw l.x.dw) (create S Da l'.x.sw l'.x.dw) := by
      rw [hw]; exact simM_create S Da _ _ _
    have he := simM_epoch S Da c data hmap hget fuel hsim
    have ih := epochs_simM hmap hget fuel E
      { l with x := (epoch S Da c fuel (create S Da l.x.sw l.x.dw)).2, live := true }
      { l' with x := (epoch S Da c fuel (create S Da l'.x.sw l'.x.dw)).2, live := true }
      n1 n2 i1 i2 he.2.1
    rw [he.1, ih]

end

end TDV.SP
