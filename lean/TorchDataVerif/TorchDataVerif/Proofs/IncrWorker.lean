import TorchDataVerif.Model.IncrWorker
import TorchDataVerif.Proofs.Incr
/-! Helper lemmas for M1w `IncrW` (property theorems live in `Props/C07W.lean`). -/
namespace TDV.IncrW
open TDV.Incr

/-! ## `toVal`, `ofVal`, `isNone` -/

theorem toVal_ofVal (v : Val) : toVal (ofVal v) = v := by
  cases v with
  | leaf c =>
    by_cases h : c = noneC
    · simp [ofVal, toVal, h]
    · simp [ofVal, toVal, h]
  | dict kvs => simp [ofVal, toVal]

theorem ofVal_isSome (v : Val) : (ofVal v).isSome = true ↔ v ≠ .leaf noneC := by
  cases v with
  | leaf c =>
    by_cases h : c = noneC
    · simp [ofVal, h]
    · simp [ofVal, h]
  | dict kvs => simp [ofVal]

theorem toVal_WF (x : Option Val) (h : OptWF x) : (toVal x).WF := by
  cases x with
  | none => simp [toVal]
  | some v => exact h.1

theorem isNone_eq (fl : Flat) (h : isNone fl = true) : fl = flatten (toVal none) [] := by
  unfold isNone at h
  split at h
  · simp at h
    simp [toVal, h]
  · cases h

/-! ## One optional-state transfer -/

/-- What the main side does with the optional delta of `genOpt`. -/
def appOpt (main : Flat) : Option Delta → Flat
  | none => main
  | some d => Incr.applyDelta main d

/-- One guarded `generate_delta` / `apply_delta` exchange keeps the pair synchronised, whether or not
a delta was generated. -/
theorem genOpt_sync (old x : Option Val) (main : Flat) (ho : OptWF old) (hx : OptWF x)
    (hm : KeysNodup main) (he : MapEq main (flatten (toVal old) [])) :
    (genOpt (flatten (toVal old) []) x).1 = flatten (toVal x) [] ∧
    KeysNodup (appOpt main (genOpt (flatten (toVal old) []) x).2) ∧
    MapEq (appOpt main (genOpt (flatten (toVal old) []) x).2) (flatten (toVal x) []) := by
  have hb : KeysNodup (flatten (toVal old) []) :=
    flatten_keysNodup_aux.1 _ (toVal_WF old ho) []
  have hn : KeysNodup (flatten (toVal x) []) :=
    flatten_keysNodup_aux.1 _ (toVal_WF x hx) []
  cases x with
  | some v =>
    simp only [genOpt, appOpt]
    exact ⟨rfl, keysNodup_applyDelta _ _ hm, apply_generate_aux _ _ _ hb hm hn he⟩
  | none =>
    simp only [genOpt]
    by_cases hnone : isNone (flatten (toVal old) []) = true
    · simp only [hnone, if_true, appOpt]
      have e := isNone_eq _ hnone
      exact ⟨e, hm, e ▸ he⟩
    · simp only [hnone, appOpt]
      exact ⟨rfl, keysNodup_applyDelta _ _ hm, apply_generate_aux _ _ _ hb hm hn he⟩

/-- A main-side flat state that denotes the map of `x` is read back by `get_state()` as `x`. -/
theorem optEq_of_mapEq (x : Option Val) (main : Flat) (hx : OptWF x)
    (he : MapEq main (flatten (toVal x) [])) : OptEq (ofVal (Incr.getState main)) x := by
  have hl : ∀ q, lookup q main = (toVal x).get q := by
    intro q
    rw [he q]
    simpa using lookup_flatten_aux.1 _ (toVal_WF x hx) [] q
  have hg : ∀ q, (Incr.getState main).get q = (toVal x).get q := by
    intro q
    rw [get_getState _ (prefixFree_of_lookup _ _ hl)]
    exact hl q
  refine ⟨?_, fun q => by rw [toVal_ofVal]; exact hg q⟩
  cases x with
  | none =>
    have h0 := hg []
    simp only [toVal, get_leaf_nil] at h0
    cases hv : Incr.getState main with
    | leaf c =>
      rw [hv] at h0
      simp only [get_leaf_nil, Option.some.injEq] at h0
      simp [ofVal, h0]
    | dict kvs =>
      rw [hv] at h0
      simp at h0
  | some w =>
    have hne : Incr.getState main ≠ .leaf noneC := by
      intro hc
      have h0 := hg []
      rw [hc] at h0
      simp only [toVal, get_leaf_nil] at h0
      cases w with
      | leaf c =>
        simp only [get_leaf_nil, Option.some.injEq] at h0
        exact hx.2 (by rw [h0])
      | dict kvs => simp at h0
    have := (ofVal_isSome (Incr.getState main)).2 hne
    simp [this]

/-! ## The wrapper-pair invariant -/

def iterOfF (lf : Option Fetch) : Option Val := lf.bind (·.iter)

/-- Worker side `w` and main side `m` are synchronised on the report `cur`, except that the fetcher
part is synchronised on `lf` (which is `fetchOf cur` unless a report had `fetcher_state = None`). -/
structure Inv (w m : W) (cur : Option Report) (lf : Option Fetch) : Prop where
  wds : w.ds = flatten (toVal (dsOf cur)) []
  wit : w.it = flatten (toVal (iterOfF lf)) []
  mdsN : KeysNodup m.ds
  mdsE : MapEq m.ds (flatten (toVal (dsOf cur)) [])
  mitN : KeysNodup m.it
  mitE : MapEq m.it (flatten (toVal (iterOfF lf)) [])
  wid : m.wid = cur.map (·.wid)
  ended : m.ended = lf.map (·.ended)
  wfds : OptWF (dsOf cur)
  wfit : OptWF (iterOfF lf)
  wwid : w.wid = cur.map (·.wid)
  wended : w.ended = lf.map (·.ended)

theorem optWF_iterOfF (r : Report) (h : r.WF) : OptWF (iterOfF r.fetch) := by
  cases hf : r.fetch with
  | none => simp [iterOfF, OptWF]
  | some f => simpa [iterOfF] using h.2 f hf

theorem keysNodup_flat (x : Option Val) (h : OptWF x) : KeysNodup (flatten (toVal x) []) :=
  flatten_keysNodup_aux.1 _ (toVal_WF x h) []

theorem inv_init_none : Inv (W.init none) (W.init none) none none := by
  have hn : OptWF none := by simp [OptWF]
  exact ⟨rfl, rfl, keysNodup_flat none hn, fun _ => rfl, keysNodup_flat none hn, fun _ => rfl,
    rfl, rfl, hn, hn, rfl, rfl⟩

theorem inv_init_some (r : Report) (h : r.WF) :
    Inv (W.init (some r)) (W.init (some r)) (some r) r.fetch := by
  have hi := optWF_iterOfF r h
  cases hf : r.fetch with
  | none =>
    simp only [W.init, hf]
    exact ⟨rfl, rfl, keysNodup_flat _ h.1, fun _ => rfl, keysNodup_flat none (by simp [OptWF]),
      fun _ => rfl, rfl, rfl, h.1, by simp [iterOfF, OptWF], rfl, rfl⟩
  | some f =>
    rw [hf] at hi
    simp only [W.init, hf]
    exact ⟨rfl, rfl, keysNodup_flat _ h.1, fun _ => rfl, keysNodup_flat _ hi,
      fun _ => rfl, rfl, rfl, h.1, hi, rfl, rfl⟩

/-- `generate_delta` on the worker side followed by `apply_delta` on the main side re-synchronises the
pair on the new report; a `fetcher_state` of `None` leaves the fetcher part where it was. -/
theorem inv_gen (w m : W) (cur : Option Report) (lf : Option Fetch) (r : Report)
    (h : Inv w m cur lf) (hr : r.WF) :
    Inv (w.generateDelta r).1 (m.applyDelta (w.generateDelta r).2) (some r) (keep r.fetch lf) := by
  have hds := genOpt_sync (dsOf cur) r.ds m.ds h.wfds hr.1 h.mdsN h.mdsE
  rw [← h.wds] at hds
  cases hf : r.fetch with
  | none =>
    simp only [W.generateDelta, W.applyDelta, hf, keep]
    exact ⟨hds.1, h.wit, hds.2.1, hds.2.2, h.mitN, h.mitE, rfl, h.ended, hr.1, h.wfit, rfl, h.wended⟩
  | some f =>
    have hi : OptWF f.iter := hr.2 f hf
    have hit := genOpt_sync (iterOfF lf) f.iter m.it h.wfit hi h.mitN h.mitE
    rw [← h.wit] at hit
    simp only [W.generateDelta, W.applyDelta, hf, keep]
    exact ⟨hds.1, hit.1, hds.2.1, hds.2.2, hit.2.1, hit.2.2, rfl, rfl, hr.1, hi, rfl, rfl⟩

/-! ## Histories -/

theorem inv_run (ops : List Op) (st : Sync) (cur : Option Report) (lf : Option Fetch)
    (h : Inv st.worker st.main cur lf) (hwf : ∀ o ∈ ops, o.WF) :
    Inv (st.run ops).worker (st.run ops).main (lastSynced cur ops) (lastFetch lf ops) := by
  induction ops generalizing st cur lf with
  | nil => exact h
  | cons o ops ih =>
    have ho : o.WF := hwf o (by simp)
    have hwf' : ∀ o ∈ ops, o.WF := fun x hx => hwf x (by simp [hx])
    simp only [Sync.run, List.foldl_cons]
    cases o with
    | report r => exact ih _ _ _ (inv_gen _ _ cur lf r h ho) hwf'
    | reportSkipped r => exact ih _ _ _ h hwf'
    | restart r => exact ih _ _ _ (inv_init_some r ho) hwf'
    | resumeEpoch r => exact ih _ _ _ (inv_init_some r ho) hwf'
    | restore s r => exact ih _ _ _ (inv_gen _ _ (some s) s.fetch r (inv_init_some s ho.1) ho.2) hwf'

/-- Under `FetchStable` the fetcher part the wrappers track is the one of the last synced report. -/
theorem lastFetch_of_stable (ops : List Op) (cur : Option Report) (h : FetchStable cur ops) :
    lastFetch (fetchOf cur) ops = fetchOf (lastSynced cur ops) := by
  induction ops generalizing cur with
  | nil => rfl
  | cons o ops ih =>
    cases o with
    | report r =>
      simp only [FetchStable] at h
      simp only [lastFetch, lastSynced]
      rw [← ih (some r) h.2]
      congr 1
      cases hf : r.fetch with
      | none =>
        have hc := h.1 hf
        simp only [keep, hc]
        simp [fetchOf, hf]
      | some f => simp [keep, fetchOf, hf]
    | reportSkipped r =>
      simp only [FetchStable] at h
      exact ih cur h
    | restart r =>
      simp only [FetchStable] at h
      exact ih (some r) h
    | resumeEpoch r =>
      simp only [FetchStable] at h
      exact ih (some r) h
    | restore s r =>
      simp only [FetchStable] at h
      simp only [lastFetch, lastSynced]
      rw [← ih (some r) h.2]
      congr 1
      cases hf : r.fetch with
      | none =>
        have hc := h.1 hf
        simp only [keep, hc]
        simp [fetchOf, hf]
      | some f => simp [keep, fetchOf, hf]

/-- What a synchronised main side reads back. -/
theorem getState_of_inv (w m : W) (cur : Option Report) (lf : Option Fetch) (h : Inv w m cur lf) :
    m.getState.wid = cur.map (·.wid) ∧ OptEq m.getState.ds (dsOf cur) ∧
      FetchEq m.getState.fetch lf := by
  have hds := optEq_of_mapEq _ _ h.wfds h.mdsE
  have hit := optEq_of_mapEq _ _ h.wfit h.mitE
  refine ⟨h.wid, hds, ?_⟩
  have e := h.ended
  cases lf with
  | none =>
    simp only [Option.map_none] at e
    simp [W.getState, e, FetchEq]
  | some f =>
    simp only [Option.map_some] at e
    simp only [W.getState, e, FetchEq]
    exact ⟨trivial, by simpa [iterOfF] using hit⟩

theorem stateEq_of_inv (w m : W) (cur : Option Report) (h : Inv w m cur (fetchOf cur)) :
    StateEq m.getState cur := by
  obtain ⟨h1, h2, h3⟩ := getState_of_inv w m cur _ h
  cases cur with
  | none =>
    refine ⟨h1, ?_, ?_⟩
    · have := h2.1
      simpa [dsOf] using this
    · cases hf : m.getState.fetch with
      | none => rfl
      | some x => rw [hf] at h3; simp [fetchOf, FetchEq] at h3
  | some r => exact ⟨h1, h2, h3⟩

/-- The worker-side wrapper is synchronised with itself. -/
theorem inv_self (w m : W) (cur : Option Report) (lf : Option Fetch) (h : Inv w m cur lf) :
    Inv w w cur lf :=
  ⟨h.wds, h.wit, h.wds ▸ keysNodup_flat _ h.wfds, h.wds ▸ fun _ => rfl,
    h.wit ▸ keysNodup_flat _ h.wfit, h.wit ▸ fun _ => rfl, h.wwid, h.wended, h.wfds, h.wfit,
    h.wwid, h.wended⟩

/-! ## Skipped reports -/

theorem run_filter_skipped (ops : List Op) (st : Sync) :
    st.run ops = st.run (ops.filter fun o => !o.isSkipped) := by
  induction ops generalizing st with
  | nil => rfl
  | cons o ops ih =>
    cases o with
    | reportSkipped r => exact ih st
    | report r => exact ih _
    | restart r => exact ih _
    | resumeEpoch r => exact ih _
    | restore s r => exact ih _

theorem lastSynced_filter_skipped (ops : List Op) (cur : Option Report) :
    lastSynced cur ops = lastSynced cur (ops.filter fun o => !o.isSkipped) := by
  induction ops generalizing cur with
  | nil => rfl
  | cons o ops ih =>
    cases o with
    | reportSkipped r => exact ih cur
    | report r => exact ih _
    | restart r => exact ih _
    | resumeEpoch r => exact ih _
    | restore s r => exact ih _

end TDV.IncrW
