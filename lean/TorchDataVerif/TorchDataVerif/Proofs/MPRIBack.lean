import TorchDataVerif.Proofs.MPRIRestore
/-!
# MPRI — from the virtual configuration back to the real restored iterator
-/
namespace TDV.MPRI
open TDV.MP TDV.MPU TDV.MPR

theorem NR_prime (c : Cfg) (n : Nat) (s : State) (h : NR s.workers) : NR (prime c n s).workers := by
  induction n generalizing s with
  | zero => exact h
  | succ n ih => unfold prime; exact ih _ (NR_tryPut c s h)

theorem plain_restore (c : Cfg) (sn : Snap) : Plain (restore c sn) := by
  refine ⟨?_, ?_⟩
  · show NR (prime c (c.P * c.W) (restoreBase c sn)).workers
    apply NR_prime
    intro w k hk
    have hk' : (restoreWorkers c sn.ws c.W)[w]? = some k := hk
    have hw : w < c.W := by
      rcases Nat.lt_or_ge w c.W with h | h
      · exact h
      · rw [List.getElem?_eq_none (by rw [restoreWorkers_length]; exact h)] at hk'; cases hk'
    rw [restoreWorkers_get c sn.ws c.W w hw] at hk'
    cases hk'
    unfold restoreWorker
    split <;> simp
  · intro k
    have := (prime_sameCore c (c.P * c.W) (restoreBase c sn)).phase
    unfold restore
    rw [this]
    simp [restoreBase]

/-- A run of the restored iterator is a run of the virtual state in the virtual configuration. -/
theorem run_vs (c : Cfg) (hS : c.shards.length = c.W) (K : Nat) (sn : Snap) (as : List Action) (s' : State)
    (hnr : NoReset as) (hr : run c (restore c sn) as = some s') :
    run (padCfg c K) (vs c K (restore c sn)) as = some (vs c K s') := by
  have h1 := run_shift c (padShards c (offOf c K)) (offOf c K) (fetchRel_pad c _ hS) Plain (fun s h => h)
    (fun s s1 a ha hP hst => Plain_step c s s1 a ha hP hst) as (restore c sn) s' hnr (plain_restore c sn) hr
  unfold vs
  rw [run_lift (padCfg c K) K (preV c K) as _ hnr]
  show Option.map (lift K (preV c K)) (run (withShards c (padShards c (offOf c K))) _ as) = _
  rw [h1]
  rfl

theorem vs_obs (c : Cfg) (K : Nat) (s : State) : (vs c K s).obs = preV c K ++ s.obs.map (shObs (offOf c K)) := rfl

theorem mem_shObs (off : Nat → Nat) (l : List Obs) (o : Obs) (ho : ∀ x, shObs off x = o → x = o) :
    o ∈ l.map (shObs off) → o ∈ l := by
  intro h
  obtain ⟨x, hx, hxo⟩ := List.mem_map.mp h
  rw [← ho x hxo]; exact hx

theorem died_vs (c : Cfg) (K : Nat) (s : State) (h : died (vs c K s)) : died s := by
  unfold died at *
  rw [vs_obs] at h
  rcases List.mem_append.mp h with h1 | h1
  · exact absurd h1 (not_mem_map_expected _ _ (fun it => by cases it <;> simp [expected]))
  · exact mem_shObs _ _ _ (fun x hx => by cases x <;> simp_all [shObs]) h1

theorem yields_shObs (off : Nat → Nat) (l : List Obs) : yields (l.map (shObs off)) = yields l := by
  induction l with
  | nil => rfl
  | cons x r ih => cases x <;> simp [shObs, yields, ih]

theorem taskObs_shObs (off : Nat → Nat) (l : List Obs) : taskObs (l.map (shObs off)) = taskObs l := by
  induction l with
  | nil => rfl
  | cons x r ih => cases x <;> simp [shObs, taskObs, ih]

/-- The reachable states of the restored iterator, in the virtual configuration, satisfy the joint invariant. -/
theorem restored_J (c : Cfg) (hv : c.ValidI) (hit : c.iterable = true) (hio : c.inOrder = true) (hok : ShardsOk c)
    (m K lw : Nat) (hp : Ptr c m K lw) (sn : Snap) (hsn : SnapEq c sn (idealAt c m)) (as : List Action) (s' : State)
    (hnr : NoReset as) (hr : run c (restore c sn) as = some s') (hd : ¬ died s') :
    J (padCfg c K) (e0Of c K) (sumW (offOf c K) c.W) (vs c K s') := by
  have h0 := restore_J c hv hit hio hok m K lw hp sn hsn
  have hrun := run_vs c hv.2 K sn as s' hnr hr
  rcases run_J (padCfg c K) _ _ as _ _ (pad_length c _) hit hio (shardsOk_pad c _ hok) hnr (Or.inl h0) hrun with h | h
  · exact h
  · exact absurd (died_vs c K s' h) hd

/-! ## `_num_yielded` and `snapshot_step` of the restored iterator -/

theorem run_GS_lift (c : Cfg) (hio : c.inOrder = true) (pre : List Obs) (as : List Action) (s s' : State)
    (hnr : NoReset as) (hg : GS c (lift 0 pre s)) (hp : Plain s) (hr : run c s as = some s') :
    GS c (lift 0 pre s') := by
  induction as generalizing s with
  | nil => simp only [run] at hr; cases hr; exact hg
  | cons a as ih =>
    simp only [run] at hr
    cases hs : step c s a with
    | none => rw [hs] at hr; cases hr
    | some s1 =>
      rw [hs] at hr
      have h1 : step c (lift 0 pre s) a = some (lift 0 pre s1) := by rw [step_lift c 0 pre s a hnr.1, hs]; rfl
      exact ih s1 hnr.2 (GS_step c _ _ a hio hnr.1 hg (fun k => hp.2 k) h1) (Plain_step c s s1 a hnr.1 hp hs) hr

theorem yields_replicate (m : Nat) : yields (List.replicate m (Obs.item 0)) = List.replicate m 0 := by
  induction m with
  | zero => rfl
  | succ m ih => simp [List.replicate_succ, yields, ih]

/-- The restored iterator counts its yields from `m`, and its `snapshot_step` is `stepOf`. -/
theorem restored_gs (c : Cfg) (hit : c.iterable = true) (hio : c.inOrder = true) (m : Nat) (hm : SnapStep c m) (sn : Snap) (hsn : sn.step = m)
    (as : List Action) (s' : State) (hnr : NoReset as) (hr : run c (restore c sn) as = some s') :
    s'.numYielded = m + (yields s'.obs).length ∧ s'.snap.step = stepOf c s'.numYielded ∧ m ≤ s'.snap.step := by
  have hc := prime_sameCore c (c.P * c.W) (restoreBase c sn)
  have hg0 : GS c (lift 0 (List.replicate m (Obs.item 0)) (restore c sn)) := by
    refine ⟨?_, ?_, ?_⟩
    · show (restore c sn).numYielded = (yields (List.replicate m (Obs.item 0) ++ (restore c sn).obs)).length
      unfold restore
      rw [hc.numYielded, hc.obs]
      simp [restoreBase, yields_append, yields_replicate, yields, hsn]
    · intro h0
      show (restore c sn).snap.step = 0
      unfold restore
      rw [hc.snap]
      simp only [restoreBase]
      rw [hsn]; exact hm.1 h0
    · intro h0 _
      show c.interval ∣ (restore c sn).snap.step ∧ (restore c sn).snap.step ≤ (restore c sn).numYielded ∧
        (restore c sn).numYielded < (restore c sn).snap.step + c.interval
      unfold restore
      rw [hc.snap, hc.numYielded]
      simp only [restoreBase]
      rw [hsn]
      exact ⟨hm.2 h0, Nat.le_refl _, by have := Nat.pos_of_ne_zero h0; omega⟩
  have hg := run_GS_lift c hio _ as _ s' hnr hg0 (plain_restore c sn) hr
  have hny : s'.numYielded = m + (yields s'.obs).length := by
    have := hg.ny
    have e : (lift 0 (List.replicate m (Obs.item 0)) s').obs = List.replicate m (Obs.item 0) ++ s'.obs := rfl
    rw [e, yields_append, yields_replicate] at this
    have e2 : (lift 0 (List.replicate m (Obs.item 0)) s').numYielded = s'.numYielded := rfl
    rw [e2] at this
    simpa using this
  have hsnap : (lift 0 (List.replicate m (Obs.item 0)) s').snap = s'.snap := rfl
  have hnyl : (lift 0 (List.replicate m (Obs.item 0)) s').numYielded = s'.numYielded := rfl
  refine ⟨hny, ?_, ?_⟩
  · unfold stepOf
    by_cases h0 : c.interval = 0
    · have := hg.st0 h0
      rw [hsnap] at this
      simp [h0, this]
    · obtain ⟨⟨k, hk⟩, h2, h3⟩ := hg.st h0 hit
      rw [hsnap] at hk h2 h3
      rw [hnyl] at h2 h3
      simp only [h0, if_false]
      rw [hk] at h2 h3 ⊢
      congr 1
      have hpos : 0 < c.interval := Nat.pos_of_ne_zero h0
      exact (Nat.div_eq_of_lt_le (by rw [Nat.mul_comm]; exact h2) (by rw [Nat.mul_comm, Nat.mul_succ]; exact h3)).symm
  · by_cases h0 : c.interval = 0
    · have := hm.1 h0; omega
    · obtain ⟨⟨k, hk⟩, h2, h3⟩ := hg.st h0 hit
      rw [hsnap] at hk h2 h3
      rw [hnyl] at h2 h3
      obtain ⟨q, hq⟩ := hm.2 h0
      have hpos : 0 < c.interval := Nat.pos_of_ne_zero h0
      rw [hk, hq]
      apply Nat.mul_le_mul_left
      -- q ≤ k since I*q = m ≤ numYielded < I*k + I
      rcases Nat.lt_or_ge k q with hlt | hge
      · exfalso
        have : c.interval * (k + 1) ≤ c.interval * q := Nat.mul_le_mul_left _ hlt
        rw [Nat.mul_succ] at this
        omega
      · exact hge

/-! ## the stored snapshot, back in the real configuration -/

theorem shWs_inj (off : Nat → Nat) (a b : List WSt) (h : shWs off a = shWs off b) : a = b := by
  apply List.ext_getElem?
  intro w
  have := congrArg (fun l => l[w]?) h
  simp only [shWs_get] at this
  cases ha : a[w]? with
  | none =>
    cases hb : b[w]? with
    | none => rfl
    | some y => rw [ha, hb] at this; cases this
  | some x =>
    cases hb : b[w]? with
    | none => rw [ha, hb] at this; cases this
    | some y =>
      rw [ha, hb] at this
      simp only [Option.map_some, Option.some.injEq, shW, WSt.mk.injEq] at this
      congr 1
      cases x; cases y
      simp only [WSt.mk.injEq] at this ⊢
      exact ⟨by omega, this.2⟩

theorem shWs_map (off : Nat → Nat) (W : Nat) (f : Nat → WSt) :
    shWs off ((List.range W).map f) = (List.range W).map (fun w => shW off w (f w)) := by
  apply List.ext_getElem?
  intro w
  rw [shWs_get]
  by_cases hw : w < W
  · simp [List.getElem?_range hw]
  · simp [List.getElem?_eq_none, hw]

/-- The last pair of a consumed prefix of the virtual configuration is a data pair of the real one. -/
theorem lastIs_back (c : Cfg) (hW : 0 < c.W) (m K lw0 : Nat) (hp : Ptr c m K lw0) (n lw : Nat) (hn : K ≤ n)
    (hslot : n = 0 ∨ ∃ n', n = n' + 1 ∧ (hist c n').count (walk c n').2 ≤ bOf (padCfg c K) (walk c n').2)
    (hl : LastIs (padCfg c K) (livePairs (padCfg c K) (hist c n)) lw) : LastIs c (livePairs c (hist c n)) lw := by
  rcases hslot with h0 | ⟨n', hn', hlive⟩
  · subst h0
    rcases hl with ⟨_, h2⟩ | ⟨E0, j, h1, _⟩
    · exact Or.inl ⟨rfl, h2⟩
    · simp [hist, livePairs_nil] at h1
  · subst hn'
    have hv := walk_lt c hW n'
    rw [livePairs_pad_succ c hW K n', if_pos hlive] at hl
    rcases hl with ⟨h1, _⟩ | ⟨E0, j, h1, h2⟩
    · simp at h1
    · obtain ⟨_, h4⟩ := List.append_inj' h1 rfl
      simp only [List.cons.injEq, Prod.mk.injEq, and_true] at h4
      obtain ⟨hlw, hj⟩ := h4
      subst hlw; subst hj
      by_cases hK : K ≤ n'
      · -- a slot after the past: the worker had not ended
        have hmono := hist_count_mono c K n' (walk c n').2 hK
        have hb2 : bOf (padCfg c K) (walk c n').2 = offOf c K (walk c n').2 + bOf c (walk c n').2 := bOf_pad c _ _ hv
        rw [hb2, offOf, Tof_eq c hW K _ hv] at h2
        have hlt : (hist c n').count (walk c n').2 < bOf c (walk c n').2 := by omega
        right
        refine ⟨livePairs c (hist c n'), _, ?_, hlt⟩
        rw [livePairs_hist_succ c hW n', if_pos (by omega)]
      · -- the last slot of the past
        have hKn : K = n' + 1 := by omega
        rcases hp.slot with h0 | ⟨K', hK', hlw0, _⟩
        · omega
        · have : K' = n' := by omega
          subst this
          rw [hKn] at hp
          have := hp.last
          rw [hlw0] at this
          exact this

/-- A stored snapshot that is ideal in the virtual configuration (shifted) is `idealAt` of the real one. -/
theorem snap_back (c : Cfg) (hv : c.ValidI) (hit : c.iterable = true) (hok : ShardsOk c) (m K lw0 : Nat)
    (hp : Ptr c m K lw0) (sn' : Snap) (hstep : m ≤ sn'.step) (E1 R1 : List (Nat × Nat))
    (hE : E1 ++ R1 = liveFrom (padCfg c K) 0 0)
    (hat : SnapAt (padCfg c K) (e0Of c K) (sumW (offOf c K) c.W) E1 { sn' with ws := shWs (offOf c K) sn'.ws }) :
    SnapEq c sn' (idealAt c sn'.step) := by
  have hW := hv.1.1
  have hW2 : 0 < (padCfg c K).W := hW
  obtain ⟨a1, a2, a3⟩ := hat
  simp only at a1 a2 a3
  obtain ⟨n, hn1, hn2⟩ := prefix_hist (padCfg c K) hW2 E1 R1 hE
  rw [show hist (padCfg c K) n = hist c n from hist_withShards c _ n] at hn1
  have hn2' : n = 0 ∨ ∃ n', n = n' + 1 ∧ (hist c n').count (walk c n').2 ≤ bOf (padCfg c K) (walk c n').2 := by
    rcases hn2 with h | ⟨n', h1, h2⟩
    · exact Or.inl h
    · refine Or.inr ⟨n', h1, ?_⟩
      rw [show hist (padCfg c K) n' = hist c n' from hist_withShards c _ n',
        show walk (padCfg c K) n' = walk c n' from walk_withShards c _ n'] at h2
      exact h2
  subst hn1
  have hKn : K ≤ n := by
    rcases Nat.lt_or_ge n K with hlt | hge
    · exfalso
      have h1 := past_data c hW K n (by omega)
      have h2 := past_data c hW K K (Nat.le_refl _)
      have h3 := ndE_pad c hW K K (Nat.le_refl _)
      rw [hp.nd] at h3
      omega
    · exact hge
  have hnd := ndE_pad c hW K n hKn
  have hstepeq : sn'.step = ndE c (livePairs c (hist c n)) := by omega
  have hws : sn'.ws = (List.range c.W).map (idealE c (fun _ => false) (livePairs c (hist c n))) := by
    apply shWs_inj (offOf c K)
    rw [a1, shWs_map]
    apply List.map_congr_left
    intro w hw
    have hw' : w < c.W := List.mem_range.mp hw
    exact idealE_pad c hW K n w hKn hw'
  have hlast := lastIs_back c hW m K lw0 hp n sn'.lastW hKn hn2' a3
  obtain ⟨R, hR⟩ : ∃ R, livePairs c (hist c n) ++ R = liveFrom c 0 0 := ⟨_, hist_live c hW n⟩
  have := idealAt_eq c hit hv.2 hok _ R sn'.lastW hR hlast
  rw [hstepeq, this]
  exact ⟨hstepeq, rfl, hws, fun hf => by rw [hit] at hf; cases hf⟩

/-! ## the batches of the restored iterator -/

theorem dataItems_len (c : Cfg) (h : List Nat) : (dataItems c h).length = ndE c (livePairs c h) := by
  induction h using snoc_induction with
  | nil => rfl
  | snoc h v ih =>
    rw [dataItems_snoc, livePairs_snoc, List.length_append, ih]
    by_cases hl : h.count v ≤ bOf c v
    · rw [if_pos hl, ndE_snoc]
      congr 1
      by_cases hd : h.count v < bOf c v
      · have : isD c (v, h.count v) = true := by simp [isD, hd]
        rw [this, List.getElem?_eq_getElem (by unfold bOf at hd; exact hd)]
        rfl
      · have : isD c (v, h.count v) = false := by simp [isD, hd]
        rw [this, List.getElem?_eq_none (by unfold bOf at hd; omega)]
        rfl
    · rw [if_neg hl, List.append_nil, List.getElem?_eq_none (by unfold bOf at hl; omega)]
      rfl

theorem dataItems_noerr (c : Cfg) (hok : ShardsOk c) (h : List Nat) : ∀ it ∈ dataItems c h, it ≠ Item.err := by
  intro it hit
  rw [dataItems_eq_itemsOf] at hit
  simp only [itemsOf, List.mem_filterMap] at hit
  obtain ⟨p, _, hp⟩ := hit
  intro he
  rw [he] at hp
  exact hok _ _ hp

theorem livePairs_full (c : Cfg) (hW : 0 < c.W) (N : Nat) (hN : (maxB c + 2) * c.W ≤ N) :
    livePairs c (hist c N) = liveFrom c 0 0 := by
  obtain ⟨t, ht⟩ := hist_prefix c _ N hN
  have h1 : livePairs c (hist c ((maxB c + 2) * c.W)) <+: livePairs c (hist c N) := by
    rw [ht]; exact livePairs_prefix c _ t
  rw [hist_full c hW] at h1
  have h2 : livePairs c (hist c N) <+: liveFrom c 0 0 := ⟨_, hist_live c hW N⟩
  exact prefix_eq_of_len _ _ _ h2 (List.prefix_refl _) (Nat.le_antisymm h2.length_le h1.length_le)

theorem dataItems_full (c : Cfg) (hv : c.ValidI) (N : Nat) (hN : (maxB c + 2) * c.W ≤ N) :
    dataItems c (hist c N) = Ref.interleave c.shards := by
  rw [dataItems_eq_itemsOf, livePairs_full c hv.1.1 N hN, itemsOf_liveFrom_zero c hv.2]

/-- What is left of the virtual stream after the virtual past is what is left of the real stream after `m`
batches. -/
theorem streams (c : Cfg) (hv : c.ValidI) (hok : ShardsOk c) (m K lw : Nat) (hp : Ptr c m K lw) :
    ∃ Z, oks (Ref.interleave (padCfg c K).shards) = oks (dataItems (padCfg c K) (hist c K)) ++ Z ∧
      (oks (Ref.interleave c.shards)).drop m = Z := by
  have hv2 : (padCfg c K).ValidI := ⟨hv.1, pad_length c _⟩
  let N := (maxB c + 2) * c.W + (maxB (padCfg c K) + 2) * c.W + K
  have h1 := dataItems_full c hv N (by omega)
  have h2 := dataItems_full (padCfg c K) hv2 N (by show (maxB (padCfg c K) + 2) * c.W ≤ N; omega)
  rw [show hist (padCfg c K) N = hist c N from hist_withShards c _ N] at h2
  obtain ⟨Y, y1, y2⟩ := dataItems_pad c hv.1.1 K N (by omega)
  refine ⟨oks Y, ?_, ?_⟩
  · rw [← h2, y1, oks_append]
  · rw [← h1, y2, oks_append]
    apply List.drop_left'
    rw [oks_length_errFree _ (dataItems_noerr c hok _), dataItems_len, hp.nd]

/-- The batches of the restored iterator. -/
theorem yields_back (c : Cfg) (hv : c.ValidI) (hok : ShardsOk c) (m K lw : Nat) (hp : Ptr c m K lw) (s' : State)
    (hI : InvI (padCfg c K) (vs c K s')) (hna : Obs.assertion ∉ (vs c K s').obs) :
    yields s'.obs <+: (oks (Ref.interleave c.shards)).drop m ∧
    (Obs.stop ∈ s'.obs → yields s'.obs = (oks (Ref.interleave c.shards)).drop m) := by
  have hv2 : (padCfg c K).ValidI := ⟨hv.1, pad_length c _⟩
  obtain ⟨D, ho, hpre, hfin⟩ := InvI_obs (padCfg c K) (vs c K s') hv2 hI
  have heq := ObsRel_noassert _ _ ho (fun h => hna (mem_taskObs _ _ h))
  have hy : yields (vs c K s').obs = oks D := by rw [← yields_taskObs, heq, yields_map_expected]
  have hy2 : yields (vs c K s').obs = oks (dataItems (padCfg c K) (hist c K)) ++ yields s'.obs := by
    rw [vs_obs, yields_append, yields_shObs, preV, yields_map_expected]
  obtain ⟨Z, z1, z2⟩ := streams c hv hok m K lw hp
  rw [z2]
  have hpre2 : oks D <+: oks (dataItems (padCfg c K) (hist c K)) ++ Z := by rw [← z1]; exact oks_prefix _ _ hpre
  rw [← hy, hy2] at hpre2
  refine ⟨(List.prefix_append_right_inj _).mp hpre2, fun hst => ?_⟩
  have hst2 : Obs.stop ∈ (vs c K s').obs := by
    rw [vs_obs]
    exact List.mem_append_right _ (List.mem_map.mpr ⟨Obs.stop, hst, rfl⟩)
  have hD := hfin hst2
  have : oks D = oks (dataItems (padCfg c K) (hist c K)) ++ Z := by rw [hD, z1]
  rw [← hy, hy2] at this
  exact List.append_cancel_left this

theorem total_len (c : Cfg) (hv : c.ValidI) (hok : ShardsOk c) :
    (oks (Ref.interleave c.shards)).length = ndE c (liveFrom c 0 0) := by
  rw [← dataItems_full c hv _ (Nat.le_refl _), oks_length_errFree _ (dataItems_noerr c hok _), dataItems_len,
    livePairs_full c hv.1.1 _ (Nat.le_refl _)]

theorem not_assert_vs (c : Cfg) (K : Nat) (s : State) (h : Obs.assertion ∉ (vs c K s).obs) :
    Obs.assertion ∉ s.obs := by
  intro hm
  apply h
  rw [vs_obs]
  exact List.mem_append_right _ (List.mem_map.mpr ⟨Obs.assertion, hm, rfl⟩)

/-- Everything `restore_ideal_iter` claims, from a pointer for `m`. -/
theorem restored_all (c : Cfg) (hv : c.ValidI) (hit : c.iterable = true) (hio : c.inOrder = true) (hok : ShardsOk c)
    (m : Nat) (hms : SnapStep c m) (hmle : m ≤ (oks (Ref.interleave c.shards)).length) (sn : Snap)
    (hsn : SnapEq c sn (idealAt c m)) (as : List Action) (s' : State) (hnr : NoReset as)
    (hr : run c (restore c sn) as = some s') (hd : ¬ died s') :
    yields s'.obs <+: (oks (Ref.interleave c.shards)).drop m ∧
    (Obs.stop ∈ s'.obs → yields s'.obs = (oks (Ref.interleave c.shards)).drop m) ∧
    Obs.assertion ∉ s'.obs ∧ s'.numYielded = m + (yields s'.obs).length ∧
    SnapEq c s'.snap (idealAt c (stepOf c s'.numYielded)) := by
  rw [total_len c hv hok] at hmle
  obtain ⟨K, lw, p1, p2, p3, p4⟩ := exists_ptr c hv.1.1 m hmle
  have hp : Ptr c m K lw := ⟨p1, p2, p3, p4⟩
  have hJ := restored_J c hv hit hio hok m K lw hp sn hsn as s' hnr hr hd
  obtain ⟨g1, g2, g3⟩ := restored_gs c hit hio m hms sn hsn.1 as s' hnr hr
  obtain ⟨y1, y2⟩ := yields_back c hv hok m K lw hp s' hJ.1 hJ.2.1
  refine ⟨y1, y2, not_assert_vs c K s' hJ.2.1, g1, ?_⟩
  obtain ⟨E, R, hE, ⟨E1, E2, hE12, hat⟩, _⟩ := hJ.2.2.1
  rw [← g2]
  exact snap_back c hv hit hok m K lw hp s'.snap g3 E1 (E2 ++ R)
    (by rw [← List.append_assoc, ← hE12]; exact hE) hat

end TDV.MPRI
