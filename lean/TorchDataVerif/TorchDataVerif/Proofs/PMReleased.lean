import TorchDataVerif.Proofs.PMSpec
/-! C17: after `_shutdown` has set the stop events every background thread reaches `exited` within a bounded
number of its own steps.  For each thread: a rank (bound on its remaining own steps) that strictly decreases on each
of its own actions, is never increased by the other threads, and is 0 only when it has exited; plus the fact that a
live thread always has an enabled action. -/
namespace TDV.PM
variable {c : Cfg} {s s' : State}

/-! ### reader -/

/-- own steps the reader still needs once stop is set: at its loop head it exits at once; inside an iteration it
finishes that iteration (acquire or time out, leave the source, append, put) first. -/
def rrank : RPc → Nat
  | .exited => 0 | .top => 1 | .ret => 1 | .put _ => 2 | .init => 2 | .app _ _ => 3 | .insrc => 4 | .next => 5 | .acq => 6

theorem released_reader_step (hstop : s.stop = true) {a : Action} (h : stepR c s a = some s') :
    rrank s'.rpc < rrank s.rpc := by
  cases a <;> try (simp [stepR] at h; done)
  case rInit => obtain ⟨h1, rfl⟩ := spec_rInit.mp h; simp [h1, rrank]
  case rIsSet => obtain ⟨h1, rfl⟩ := spec_rIsSet.mp h; simp [h1, hstop, rrank]
  case rAcq => obtain ⟨h1, _, rfl⟩ := spec_rAcq.mp h; simp [h1, rrank]
  case rAcqT => obtain ⟨h1, _, rfl⟩ := spec_rAcqT.mp h; simp [h1, rrank]
  case rEnter => obtain ⟨h1, rfl⟩ := spec_rEnter.mp h; simp [h1, rrank]
  case rLeave =>
    obtain ⟨h1, rfl⟩ := spec_rLeave.mp h
    cases c.src[s.pulled]? with
    | none => simp [h1, rrank]
    | some v => cases snapDue c s.pulled <;> simp [h1, rrank]
  case rAppend => obtain ⟨v, i, h1, rfl⟩ := spec_rAppend.mp h; simp [h1, rrank]
  case rPut => obtain ⟨m, h1, rfl⟩ := spec_rPut.mp h; cases m.pay <;> simp [h1, rrank]
  case rRet => obtain ⟨h1, rfl⟩ := spec_rRet.mp h; simp [h1, rrank]

theorem reader_frame_W {a : Action} (h : stepW c s a = some s') : s'.rpc = s.rpc ∧ s'.stop = s.stop := by
  cases a <;> try (simp [stepW] at h; done)
  case wIsSet i => obtain ⟨_, rfl⟩ := (spec_wIsSet i).mp h; simp
  case wEmpty i => obtain ⟨_, rfl⟩ := (spec_wEmpty i).mp h; simp
  case wGet i => obtain ⟨m, rest, _, _, rfl⟩ := (spec_wGet i).mp h; simp
  case wGetT i => obtain ⟨_, _, rfl⟩ := (spec_wGetT i).mp h; simp
  case wPut i => obtain ⟨m, _, rfl⟩ := (spec_wPut i).mp h; simp
  case wDie i =>
    obtain ⟨_, hh⟩ := (spec_wDie i).mp h
    rcases hh with ⟨m, _, rfl⟩ | ⟨_, rfl⟩ <;> simp

theorem reader_frame_S {a : Action} (h : stepS c s a = some s') : s'.rpc = s.rpc ∧ s'.stop = s.stop := by
  cases a <;> try (simp [stepS] at h; done)
  case sIsSet => obtain ⟨_, rfl⟩ := spec_sIsSet.mp h; simp
  case sGet => obtain ⟨m, rest, _, _, rfl⟩ := spec_sGet.mp h; simp
  case sGetT => obtain ⟨_, _, rfl⟩ := spec_sGetT.mp h; simp
  case sHave =>
    obtain ⟨m, _, rfl⟩ := spec_sHave.mp h
    split
    · simp
    · split <;> simp
  case sDrain =>
    obtain ⟨_, rfl⟩ := spec_sDrain.mp h
    cases bufTake s.cur s.buf with
    | none => simp
    | some p => simp

theorem reader_frame_C {a : Action} (h : stepC c s a = some s') : s'.rpc = s.rpc ∧ (s.stop = true → s'.stop = true) := by
  cases a <;> try (simp [stepC] at h; done)
  case cBoot => obtain ⟨_, _, rfl⟩ := spec_cBoot.mp h; simp
  case cBootT => obtain ⟨_, _, rfl⟩ := spec_cBootT.mp h; simp
  case cCall => obtain ⟨_, rfl⟩ := spec_cCall.mp h; simp
  case cIsSet => obtain ⟨_, rfl⟩ := spec_cIsSet.mp h; split <;> simp
  case cMpIsSet => obtain ⟨_, rfl⟩ := spec_cMpIsSet.mp h; split <;> simp
  case cChk => obtain ⟨_, rfl⟩ := spec_cChk.mp h; simp
  case cSet => obtain ⟨_, rfl⟩ := spec_cSet.mp h; simp
  case cMpSet => obtain ⟨_, rfl⟩ := spec_cMpSet.mp h; simp
  case cGet =>
    obtain ⟨m, rest, _, _, rfl⟩ := spec_cGet.mp h
    cases hio : c.inOrder <;> cases hp : m.pay <;> simp [setOutq, hio]
  case cGetT => obtain ⟨_, _, rfl⟩ := spec_cGetT.mp h; simp
  case cRel => obtain ⟨m, _, _, rfl⟩ := spec_cRel.mp h; cases m.pay <;> simp
  case cPop => obtain ⟨m, y, _, _, rfl⟩ := spec_cPop.mp h; simp
  case cDeadIsSet => obtain ⟨_, rfl⟩ := spec_cDeadIsSet.mp h; split <;> simp
  case cDeadMpIsSet => obtain ⟨_, rfl⟩ := spec_cDeadMpIsSet.mp h; split <;> simp
  case cDeadSet => obtain ⟨_, rfl⟩ := spec_cDeadSet.mp h; simp
  case cDeadMpSet => obtain ⟨_, rfl⟩ := spec_cDeadMpSet.mp h; simp
  case cShutSet => obtain ⟨_, rfl⟩ := spec_cShutSet.mp h; simp
  case cShutMpSet => obtain ⟨_, rfl⟩ := spec_cShutMpSet.mp h; simp

/-- A live reader always has an enabled action (possibly a timeout). -/
theorem reader_live (c : Cfg) (s : State) (h : s.rpc ≠ .exited) :
    ∃ a, a ∈ [Action.rInit, .rIsSet, .rAcq, .rAcqT, .rEnter, .rLeave, .rAppend, .rPut, .rRet] ∧ (step c s a).isSome = true := by
  cases hr : s.rpc with
  | init => exact ⟨.rInit, by simp, by simp [step, stepR, hr]⟩
  | top => exact ⟨.rIsSet, by simp, by simp [step, stepR, hr]⟩
  | acq =>
    by_cases hs : 0 < s.sem
    · exact ⟨.rAcq, by simp, by simp [step, stepR, hr, hs]⟩
    · exact ⟨.rAcqT, by simp, by simp [step, stepR, hr]; omega⟩
  | next => exact ⟨.rEnter, by simp, by simp [step, stepR, hr]⟩
  | insrc =>
    refine ⟨.rLeave, by simp, ?_⟩
    simp only [step, stepR, hr]
    cases c.src[s.pulled]? <;> simp
  | app v i => exact ⟨.rAppend, by simp, by simp [step, stepR, hr]⟩
  | put m => exact ⟨.rPut, by simp, by simp [step, stepR, hr]⟩
  | ret => exact ⟨.rRet, by simp, by simp [step, stepR, hr]⟩
  | exited => exact absurd hr h

/-! ### sorter -/

def srank (s : State) : Nat :=
  match s.spc with
  | .off => 0 | .exited => 0 | .top => 1
  | .drain => s.buf.length + 2
  | .have _ => s.buf.length + 4
  | .get => s.buf.length + 5

theorem released_sorter_step (hstop : s.stop = true) {a : Action} (h : stepS c s a = some s') : srank s' < srank s := by
  cases a <;> try (simp [stepS] at h; done)
  case sIsSet => obtain ⟨h1, rfl⟩ := spec_sIsSet.mp h; simp [srank, h1, hstop]
  case sGet => obtain ⟨m, rest, h1, _, rfl⟩ := spec_sGet.mp h; simp [srank, h1]
  case sGetT => obtain ⟨h1, _, rfl⟩ := spec_sGetT.mp h; simp [srank, h1]
  case sHave =>
    obtain ⟨m, h1, rfl⟩ := spec_sHave.mp h
    split
    · simp [srank, h1]
    · split <;> simp [srank, h1]
  case sDrain =>
    obtain ⟨h1, rfl⟩ := spec_sDrain.mp h
    cases ht : bufTake s.cur s.buf with
    | none => simp [srank, h1]
    | some p =>
      obtain ⟨m, rest⟩ := p
      have := (bufTake_some _ _ _ _ ht).2.2.1
      simp [srank, h1]; omega

theorem sorter_live (c : Cfg) (s : State) (h : s.spc ≠ .exited) (h2 : s.spc ≠ .off) :
    ∃ a, a ∈ [Action.sIsSet, .sGet, .sGetT, .sHave, .sDrain] ∧ (step c s a).isSome = true := by
  cases hr : s.spc with
  | off => exact absurd hr h2
  | top => exact ⟨.sIsSet, by simp, by simp [step, stepS, hr]⟩
  | get =>
    cases hq : s.mid with
    | nil => exact ⟨.sGetT, by simp, by simp [step, stepS, hr, hq]⟩
    | cons m rest => exact ⟨.sGet, by simp, by simp [step, stepS, hr, hq]⟩
  | «have» m =>
    refine ⟨.sHave, by simp, ?_⟩
    simp only [step, stepS, hr]
    split
    · simp
    · split <;> simp
  | drain =>
    refine ⟨.sDrain, by simp, ?_⟩
    simp only [step, stepS, hr]
    cases bufTake s.cur s.buf <;> simp
  | exited => exact absurd hr h

theorem sorter_frame_R {a : Action} (h : stepR c s a = some s') : s'.spc = s.spc ∧ s'.buf = s.buf := by
  cases a <;> try (simp [stepR] at h; done)
  case rInit => obtain ⟨_, rfl⟩ := spec_rInit.mp h; simp
  case rIsSet => obtain ⟨_, rfl⟩ := spec_rIsSet.mp h; simp
  case rAcq => obtain ⟨_, _, rfl⟩ := spec_rAcq.mp h; simp
  case rAcqT => obtain ⟨_, _, rfl⟩ := spec_rAcqT.mp h; simp
  case rEnter => obtain ⟨_, rfl⟩ := spec_rEnter.mp h; simp
  case rLeave => obtain ⟨_, rfl⟩ := spec_rLeave.mp h; simp
  case rAppend => obtain ⟨v, i, _, rfl⟩ := spec_rAppend.mp h; simp
  case rPut => obtain ⟨m, _, rfl⟩ := spec_rPut.mp h; simp
  case rRet => obtain ⟨_, rfl⟩ := spec_rRet.mp h; simp

theorem sorter_frame_W {a : Action} (h : stepW c s a = some s') : s'.spc = s.spc ∧ s'.buf = s.buf := by
  cases a <;> try (simp [stepW] at h; done)
  case wIsSet i => obtain ⟨_, rfl⟩ := (spec_wIsSet i).mp h; simp
  case wEmpty i => obtain ⟨_, rfl⟩ := (spec_wEmpty i).mp h; simp
  case wGet i => obtain ⟨m, rest, _, _, rfl⟩ := (spec_wGet i).mp h; simp
  case wGetT i => obtain ⟨_, _, rfl⟩ := (spec_wGetT i).mp h; simp
  case wPut i => obtain ⟨m, _, rfl⟩ := (spec_wPut i).mp h; simp
  case wDie i =>
    obtain ⟨_, hh⟩ := (spec_wDie i).mp h
    rcases hh with ⟨m, _, rfl⟩ | ⟨_, rfl⟩ <;> simp

theorem sorter_frame_C {a : Action} (h : stepC c s a = some s') : s'.spc = s.spc ∧ s'.buf = s.buf := by
  cases a <;> try (simp [stepC] at h; done)
  case cBoot => obtain ⟨_, _, rfl⟩ := spec_cBoot.mp h; simp
  case cBootT => obtain ⟨_, _, rfl⟩ := spec_cBootT.mp h; simp
  case cCall => obtain ⟨_, rfl⟩ := spec_cCall.mp h; simp
  case cIsSet => obtain ⟨_, rfl⟩ := spec_cIsSet.mp h; split <;> simp
  case cMpIsSet => obtain ⟨_, rfl⟩ := spec_cMpIsSet.mp h; split <;> simp
  case cChk => obtain ⟨_, rfl⟩ := spec_cChk.mp h; simp
  case cSet => obtain ⟨_, rfl⟩ := spec_cSet.mp h; simp
  case cMpSet => obtain ⟨_, rfl⟩ := spec_cMpSet.mp h; simp
  case cGet =>
    obtain ⟨m, rest, _, _, rfl⟩ := spec_cGet.mp h
    cases hio : c.inOrder <;> cases hp : m.pay <;> simp [setOutq, hio]
  case cGetT => obtain ⟨_, _, rfl⟩ := spec_cGetT.mp h; simp
  case cRel => obtain ⟨m, _, _, rfl⟩ := spec_cRel.mp h; cases m.pay <;> simp
  case cPop => obtain ⟨m, y, _, _, rfl⟩ := spec_cPop.mp h; simp
  case cDeadIsSet => obtain ⟨_, rfl⟩ := spec_cDeadIsSet.mp h; split <;> simp
  case cDeadMpIsSet => obtain ⟨_, rfl⟩ := spec_cDeadMpIsSet.mp h; split <;> simp
  case cDeadSet => obtain ⟨_, rfl⟩ := spec_cDeadSet.mp h; simp
  case cDeadMpSet => obtain ⟨_, rfl⟩ := spec_cDeadMpSet.mp h; simp
  case cShutSet => obtain ⟨_, rfl⟩ := spec_cShutSet.mp h; simp
  case cShutMpSet => obtain ⟨_, rfl⟩ := spec_cShutMpSet.mp h; simp

/-! ### workers -/

/-- the reader may still put one more message on the in-queue -/
def rp : RPc → Nat
  | .acq | .next | .insrc | .app _ _ | .put _ => 1
  | _ => 0

def wrankOf (p : Option WPc) (L : Nat) (e : Bool) : Nat :=
  match p with
  | some .top => 5 * L + 4
  | some .chk => 5 * L + 3
  | some .get => if e then 5 * L + 5 else 5 * L + 2
  | some (.have _) => 5 * L + 5
  | _ => 0

/-- bound on the own steps worker `i` still needs once its stop event is set: it drains the in-queue first -/
def wrank (s : State) (i : Nat) : Nat := wrankOf s.wk[i]? (s.inq.length + rp s.rpc) s.inq.isEmpty

theorem wrankOf_mono (p : Option WPc) {L L' : Nat} {e e' : Bool}
    (h : L' < L ∨ (L' = L ∧ (e' = true → e = true))) : wrankOf p L' e' ≤ wrankOf p L e := by
  unfold wrankOf
  rcases h with h | ⟨rfl, h⟩
  · split <;> (try split) <;> (try split) <;> omega
  · cases e' <;> cases e <;> simp at h ⊢ <;> split <;> omega

def Action.worker : Action → Option Nat
  | .wIsSet i | .wEmpty i | .wGet i | .wGetT i | .wPut i | .wDie i => some i
  | _ => none

theorem getElem?_set_same {α : Type} (l : List α) (j : Nat) (x p : α) (h : l[j]? = some p) : (l.set j x)[j]? = some x := by
  have hl : j < l.length := (List.getElem?_eq_some_iff.mp h).1
  rw [List.getElem?_set]; simp [hl]

theorem released_worker_own (i : Nat) (hflag : (if c.proc then s.mpstop else s.stop) = true) {a : Action}
    (ha : a.worker = some i) (h : stepW c s a = some s') : wrank s' i < wrank s i := by
  cases a <;> simp [Action.worker] at ha <;> subst ha
  case wIsSet j =>
    obtain ⟨h1, rfl⟩ := (spec_wIsSet j).mp h
    simp only [wrank, getElem?_set_same _ _ _ _ h1, h1, hflag, wrankOf, if_true]
    omega
  case wEmpty j =>
    obtain ⟨h1, rfl⟩ := (spec_wEmpty j).mp h
    simp only [wrank, getElem?_set_same _ _ _ _ h1, h1]
    cases he : s.inq.isEmpty <;> simp [wrankOf]
  case wGet j =>
    obtain ⟨m, rest, h1, h2, rfl⟩ := (spec_wGet j).mp h
    simp only [wrank, getElem?_set_same _ _ _ _ h1, h1, h2, wrankOf, List.length_cons, List.isEmpty_cons]
    simp
    omega
  case wGetT j =>
    obtain ⟨h1, h2, rfl⟩ := (spec_wGetT j).mp h
    simp only [wrank, getElem?_set_same _ _ _ _ h1, h1, h2, wrankOf, List.isEmpty_nil, if_true]
    omega
  case wPut j =>
    obtain ⟨m, h1, rfl⟩ := (spec_wPut j).mp h
    simp only [wrank, getElem?_set_same _ _ _ _ h1, h1, wrankOf]
    omega
  case wDie j =>
    obtain ⟨_, hh⟩ := (spec_wDie j).mp h
    rcases hh with ⟨m, h1, rfl⟩ | ⟨h1, rfl⟩
    · simp only [wrank, getElem?_set_same _ _ _ _ h1, h1, wrankOf]
      omega
    · rcases h1 with h1 | h1 | h1
      · simp only [wrank, getElem?_set_same _ _ _ _ h1, h1, wrankOf]; omega
      · simp only [wrank, getElem?_set_same _ _ _ _ h1, h1, wrankOf]; omega
      · simp only [wrank, getElem?_set_same _ _ _ _ h1, h1, wrankOf]; split <;> omega

theorem worker_rank_other_W (i : Nat) {a : Action} (ha : a.worker ≠ some i) (h : stepW c s a = some s') :
    wrank s' i ≤ wrank s i := by
  cases a <;> try (simp [stepW] at h; done)
  case wIsSet j =>
    have hij : j ≠ i := by intro he; subst he; simp [Action.worker] at ha
    obtain ⟨h1, rfl⟩ := (spec_wIsSet j).mp h
    simp [wrank, List.getElem?_set, hij]
  case wEmpty j =>
    have hij : j ≠ i := by intro he; subst he; simp [Action.worker] at ha
    obtain ⟨h1, rfl⟩ := (spec_wEmpty j).mp h
    simp [wrank, List.getElem?_set, hij]
  case wGet j =>
    have hij : j ≠ i := by intro he; subst he; simp [Action.worker] at ha
    obtain ⟨m, rest, h1, h2, rfl⟩ := (spec_wGet j).mp h
    simp only [wrank, List.getElem?_set, hij, if_false, h2]
    apply wrankOf_mono
    left; simp
  case wGetT j =>
    have hij : j ≠ i := by intro he; subst he; simp [Action.worker] at ha
    obtain ⟨h1, h2, rfl⟩ := (spec_wGetT j).mp h
    simp [wrank, List.getElem?_set, hij]
  case wPut j =>
    have hij : j ≠ i := by intro he; subst he; simp [Action.worker] at ha
    obtain ⟨m, h1, rfl⟩ := (spec_wPut j).mp h
    simp [wrank, List.getElem?_set, hij]
  case wDie j =>
    have hij : j ≠ i := by intro he; subst he; simp [Action.worker] at ha
    obtain ⟨_, hh⟩ := (spec_wDie j).mp h
    rcases hh with ⟨m, h1, rfl⟩ | ⟨h1, rfl⟩ <;> simp [wrank, List.getElem?_set, hij]

theorem worker_rank_R (i : Nat) (hstop : s.stop = true) {a : Action} (h : stepR c s a = some s') :
    wrank s' i ≤ wrank s i := by
  cases a <;> try (simp [stepR] at h; done)
  case rInit => obtain ⟨h1, rfl⟩ := spec_rInit.mp h; simp [wrank, h1, rp]
  case rIsSet => obtain ⟨h1, rfl⟩ := spec_rIsSet.mp h; simp [wrank, h1, hstop, rp]
  case rAcq => obtain ⟨h1, _, rfl⟩ := spec_rAcq.mp h; simp [wrank, h1, rp]
  case rAcqT =>
    obtain ⟨h1, _, rfl⟩ := spec_rAcqT.mp h
    simp only [wrank, h1, rp]
    exact wrankOf_mono _ (Or.inl (by omega))
  case rEnter => obtain ⟨h1, rfl⟩ := spec_rEnter.mp h; simp [wrank, h1, rp]
  case rLeave =>
    obtain ⟨h1, rfl⟩ := spec_rLeave.mp h
    cases c.src[s.pulled]? with
    | none => simp [wrank, h1, rp]
    | some v => cases snapDue c s.pulled <;> simp [wrank, h1, rp]
  case rAppend => obtain ⟨v, i', h1, rfl⟩ := spec_rAppend.mp h; simp [wrank, h1, rp]
  case rPut =>
    obtain ⟨m, h1, rfl⟩ := spec_rPut.mp h
    simp only [wrank, h1]
    apply wrankOf_mono
    right
    cases m.pay <;> simp [rp]
  case rRet => obtain ⟨h1, rfl⟩ := spec_rRet.mp h; simp [wrank, h1, rp]

theorem worker_frame_S {a : Action} (h : stepS c s a = some s') : s'.wk = s.wk ∧ s'.inq = s.inq ∧ s'.rpc = s.rpc := by
  cases a <;> try (simp [stepS] at h; done)
  case sIsSet => obtain ⟨_, rfl⟩ := spec_sIsSet.mp h; simp
  case sGet => obtain ⟨m, rest, _, _, rfl⟩ := spec_sGet.mp h; simp
  case sGetT => obtain ⟨_, _, rfl⟩ := spec_sGetT.mp h; simp
  case sHave =>
    obtain ⟨m, _, rfl⟩ := spec_sHave.mp h
    split
    · simp
    · split <;> simp
  case sDrain =>
    obtain ⟨_, rfl⟩ := spec_sDrain.mp h
    cases bufTake s.cur s.buf with
    | none => simp
    | some p => simp

theorem worker_frame_C {a : Action} (h : stepC c s a = some s') : s'.wk = s.wk ∧ s'.inq = s.inq ∧ s'.rpc = s.rpc := by
  cases a <;> try (simp [stepC] at h; done)
  case cBoot => obtain ⟨_, _, rfl⟩ := spec_cBoot.mp h; simp
  case cBootT => obtain ⟨_, _, rfl⟩ := spec_cBootT.mp h; simp
  case cCall => obtain ⟨_, rfl⟩ := spec_cCall.mp h; simp
  case cIsSet => obtain ⟨_, rfl⟩ := spec_cIsSet.mp h; split <;> simp
  case cMpIsSet => obtain ⟨_, rfl⟩ := spec_cMpIsSet.mp h; split <;> simp
  case cChk => obtain ⟨_, rfl⟩ := spec_cChk.mp h; simp
  case cSet => obtain ⟨_, rfl⟩ := spec_cSet.mp h; simp
  case cMpSet => obtain ⟨_, rfl⟩ := spec_cMpSet.mp h; simp
  case cGet =>
    obtain ⟨m, rest, _, _, rfl⟩ := spec_cGet.mp h
    cases hio : c.inOrder <;> cases hp : m.pay <;> simp [setOutq, hio]
  case cGetT => obtain ⟨_, _, rfl⟩ := spec_cGetT.mp h; simp
  case cRel => obtain ⟨m, _, _, rfl⟩ := spec_cRel.mp h; cases m.pay <;> simp
  case cPop => obtain ⟨m, y, _, _, rfl⟩ := spec_cPop.mp h; simp
  case cDeadIsSet => obtain ⟨_, rfl⟩ := spec_cDeadIsSet.mp h; split <;> simp
  case cDeadMpIsSet => obtain ⟨_, rfl⟩ := spec_cDeadMpIsSet.mp h; split <;> simp
  case cDeadSet => obtain ⟨_, rfl⟩ := spec_cDeadSet.mp h; simp
  case cDeadMpSet => obtain ⟨_, rfl⟩ := spec_cDeadMpSet.mp h; simp
  case cShutSet => obtain ⟨_, rfl⟩ := spec_cShutSet.mp h; simp
  case cShutMpSet => obtain ⟨_, rfl⟩ := spec_cShutMpSet.mp h; simp

theorem worker_rank_S (i : Nat) {a : Action} (h : stepS c s a = some s') : wrank s' i ≤ wrank s i := by
  obtain ⟨h1, h2, h3⟩ := worker_frame_S h
  simp [wrank, h1, h2, h3]

theorem worker_rank_C (i : Nat) {a : Action} (h : stepC c s a = some s') : wrank s' i ≤ wrank s i := by
  obtain ⟨h1, h2, h3⟩ := worker_frame_C h
  simp [wrank, h1, h2, h3]

theorem worker_live (c : Cfg) (s : State) (i : Nat) (p : WPc) (hi : s.wk[i]? = some p) (h1 : p ≠ .exited)
    (h2 : p ≠ .dead) : ∃ a, a.worker = some i ∧ (step c s a).isSome = true := by
  cases p with
  | top => exact ⟨.wIsSet i, rfl, by simp [step, stepW, hi]⟩
  | chk => exact ⟨.wEmpty i, rfl, by simp [step, stepW, hi]⟩
  | get =>
    cases hq : s.inq with
    | nil => exact ⟨.wGetT i, rfl, by simp [step, stepW, hi, hq]⟩
    | cons m rest => exact ⟨.wGet i, rfl, by simp [step, stepW, hi, hq]⟩
  | «have» m => exact ⟨.wPut i, rfl, by simp [step, stepW, hi]⟩
  | exited => exact absurd rfl h1
  | dead => exact absurd rfl h2

end TDV.PM
