import TorchDataVerif.Proofs.NodesUnb2
/-!
# `buffered sf` preserves `Good` (for sources that do not raise)

As for the unbatcher, runtime states are compared through their tokens `(snapshot, steps_since_snapshot)`:
`bload r t` is what `reset(t)` builds (restore the snapshot, take the initial snapshot, fast-forward).  A
reachable state `x` is either `BCore`-related to what its own token loads to, or `x` has already seen the
source stop (`done`) and the loaded state is about to see it (`BSim`).
-/
namespace TDV.Node
section
variable {src : Node} {Rs : Run src → Run src → Prop}

def BCore (Rs : Run src → Run src → Prop) (sf : Nat) (x y : BufSt src) : Prop :=
  Rs x.inner y.inner ∧ x.steps = y.steps ∧ x.yielded % sf = y.yielded % sf ∧ x.done = y.done ∧
  x.bad = false ∧ y.bad = false

theorem BCore.symm (g : Good src Rs) {sf : Nat} {x y : BufSt src} (h : BCore Rs sf x y) : BCore Rs sf y x :=
  ⟨g.symm _ _ h.1, h.2.1.symm, h.2.2.1.symm, h.2.2.2.1.symm, h.2.2.2.2.2, h.2.2.2.2.1⟩

theorem BCore.trans (g : Good src Rs) {sf : Nat} {x y z : BufSt src} (h : BCore Rs sf x y) (k : BCore Rs sf y z) :
    BCore Rs sf x z :=
  ⟨g.trans _ _ _ h.1 k.1, h.2.1.trans k.2.1, h.2.2.1.trans k.2.2.1, h.2.2.2.1.trans k.2.2.2.1, h.2.2.2.2.1, k.2.2.2.2.2⟩

/-- `bufNext` by cases (for states that are not `bad`). -/
theorem bufNext_done (sf : Nat) (x : BufSt src) (hb : x.bad = false) (hd : x.done = true) :
    bufNext src sf x = (.stop, x) := by
  simp [bufNext, hb, hd]

theorem bufNext_snap (sf : Nat) (x : BufSt src) (hb : x.bad = false) (hd : x.done = false) (v : Item) (r' : Run src)
    (hx : src.rnext x.inner = (.item v, r')) (hc : sf > 0 ∧ (x.yielded + 1) % sf = 0) :
    bufNext src sf x = (.item v, { x with inner := (src.rget r').2, snap := some (src.rget r').1, steps := 0, yielded := x.yielded + 1 }) := by
  simp only [bufNext, hb, hd, Bool.false_eq_true, if_false, hx, hc, and_self, if_true]

theorem bufNext_plain (sf : Nat) (x : BufSt src) (hb : x.bad = false) (hd : x.done = false) (v : Item) (r' : Run src)
    (hx : src.rnext x.inner = (.item v, r')) (hc : ¬ (sf > 0 ∧ (x.yielded + 1) % sf = 0)) :
    bufNext src sf x = (.item v, { x with inner := r', steps := x.steps + 1, yielded := x.yielded + 1 }) := by
  simp only [bufNext, hb, hd, Bool.false_eq_true, if_false, hx, hc]

theorem bufNext_stop (sf : Nat) (x : BufSt src) (hb : x.bad = false) (hd : x.done = false) (r' : Run src)
    (hx : src.rnext x.inner = (.stop, r')) :
    bufNext src sf x = (.stop, { x with inner := r', done := true }) := by
  simp only [bufNext, hb, hd, Bool.false_eq_true, if_false, hx]

theorem bufNext_err (sf : Nat) (x : BufSt src) (hb : x.bad = false) (hd : x.done = false) (e : Nat) (r' : Run src)
    (hx : src.rnext x.inner = (.error e, r')) :
    bufNext src sf x = (.error e, { x with inner := r', done := true }) := by
  simp only [bufNext, hb, hd, Bool.false_eq_true, if_false, hx]

theorem succ_mod_congr (a b sf : Nat) (h : a % sf = b % sf) : (a + 1) % sf = (b + 1) % sf := by
  rw [Nat.add_mod a 1 sf, Nat.add_mod b 1 sf, h]

/-- `next()` on `BCore`-related states. -/
theorem bufNext_congr (g : Good src Rs) (sf : Nat) {x y : BufSt src} (h : BCore Rs sf x y) :
    (bufNext src sf x).1 = (bufNext src sf y).1 ∧ BCore Rs sf (bufNext src sf x).2 (bufNext src sf y).2 := by
  obtain ⟨hr, hs, hm, hd, hbx, hby⟩ := h
  cases hdx : x.done with
  | true =>
    rw [bufNext_done sf x hbx hdx, bufNext_done sf y hby (hd ▸ hdx)]
    exact ⟨rfl, hr, hs, hm, hd, hbx, hby⟩
  | false =>
    have hdy : y.done = false := hd ▸ hdx
    have hn := g.next _ _ hr
    rcases hx : src.rnext x.inner with ⟨ox, rx⟩
    rcases hy : src.rnext y.inner with ⟨oy, ry⟩
    rw [hx, hy] at hn
    simp only at hn
    obtain ⟨h1, h2⟩ := hn
    subst h1
    cases ox with
    | item v =>
      have hm' := succ_mod_congr _ _ sf hm
      by_cases hc : sf > 0 ∧ (x.yielded + 1) % sf = 0
      · have hc' : sf > 0 ∧ (y.yielded + 1) % sf = 0 := ⟨hc.1, hm' ▸ hc.2⟩
        rw [bufNext_snap sf x hbx hdx v rx hx hc, bufNext_snap sf y hby hdy v ry hy hc']
        exact ⟨rfl, g.get h2, rfl, hm', hdx.trans hdy.symm, hbx, hby⟩
      · have hc' : ¬ (sf > 0 ∧ (y.yielded + 1) % sf = 0) := fun h => hc ⟨h.1, hm'.symm ▸ h.2⟩
        rw [bufNext_plain sf x hbx hdx v rx hx hc, bufNext_plain sf y hby hdy v ry hy hc']
        exact ⟨rfl, h2, by show x.steps + 1 = y.steps + 1; rw [hs], hm', hdx.trans hdy.symm, hbx, hby⟩
    | stop =>
      rw [bufNext_stop sf x hbx hdx rx hx, bufNext_stop sf y hby hdy ry hy]
      exact ⟨rfl, h2, hs, hm, rfl, hbx, hby⟩
    | error e =>
      rw [bufNext_err sf x hbx hdx e rx hx, bufNext_err sf y hby hdy e ry hy]
      exact ⟨rfl, h2, hs, hm, rfl, hbx, hby⟩

/-- Fast-forward, one step at the end. -/
theorem bufFF_one_bad (sf : Nat) (x : BufSt src) (hb : x.bad = true) : bufFF src sf 1 x = x := by
  have e : bufNext src sf x = (.error errBad, x) := by simp [bufNext, hb]
  simp only [bufFF, e]
  cases x
  simp_all

theorem bufFF_succ (sf : Nat) (k : Nat) : ∀ x : BufSt src, bufFF src sf (k + 1) x = bufFF src sf 1 (bufFF src sf k x) := by
  induction k with
  | zero => intro x; rfl
  | succ k ih =>
    intro x
    rcases hx : bufNext src sf x with ⟨o, x'⟩
    cases o with
    | item v =>
      have e1 : bufFF src sf (k + 1 + 1) x = bufFF src sf (k + 1) x' := by simp only [bufFF, hx]
      have e2 : bufFF src sf (k + 1) x = bufFF src sf k x' := by simp only [bufFF, hx]
      rw [e1, e2, ih x']
    | stop =>
      have e1 : bufFF src sf (k + 1 + 1) x = { x' with bad := true } := by simp only [bufFF, hx]
      have e2 : bufFF src sf (k + 1) x = { x' with bad := true } := by simp only [bufFF, hx]
      rw [e1, e2, bufFF_one_bad sf _ rfl]
    | error e =>
      have e1 : bufFF src sf (k + 1 + 1) x = { x' with bad := true } := by simp only [bufFF, hx]
      have e2 : bufFF src sf (k + 1) x = { x' with bad := true } := by simp only [bufFF, hx]
      rw [e1, e2, bufFF_one_bad sf _ rfl]

theorem bufFF_one_item (sf : Nat) (x : BufSt src) (v : Item) (h : (bufNext src sf x).1 = .item v) :
    bufFF src sf 1 x = (bufNext src sf x).2 := by
  rcases hx : bufNext src sf x with ⟨o, x'⟩
  rw [hx] at h
  simp only at h
  subst h
  simp only [bufFF, hx]

/-- Fast-forwarding `BCore`-related states: both fail or both succeed and stay related. -/
theorem bufFF_congr (g : Good src Rs) (sf : Nat) (k : Nat) : ∀ x y : BufSt src, BCore Rs sf x y →
    ((bufFF src sf k x).bad = (bufFF src sf k y).bad) ∧
    ((bufFF src sf k x).bad = false → BCore Rs sf (bufFF src sf k x) (bufFF src sf k y)) := by
  induction k with
  | zero => intro x y h; exact ⟨h.2.2.2.2.1.trans h.2.2.2.2.2.symm, fun _ => h⟩
  | succ k ih =>
    intro x y h
    have hn := bufNext_congr g sf h
    rcases hx : bufNext src sf x with ⟨ox, x'⟩
    rcases hy : bufNext src sf y with ⟨oy, y'⟩
    rw [hx, hy] at hn
    simp only at hn
    obtain ⟨h1, h2⟩ := hn
    subst h1
    cases ox with
    | item v =>
      have e1 : bufFF src sf (k + 1) x = bufFF src sf k x' := by simp only [bufFF, hx]
      have e2 : bufFF src sf (k + 1) y = bufFF src sf k y' := by simp only [bufFF, hy]
      rw [e1, e2]; exact ih x' y' h2
    | stop =>
      have e1 : bufFF src sf (k + 1) x = { x' with bad := true } := by simp only [bufFF, hx]
      have e2 : bufFF src sf (k + 1) y = { y' with bad := true } := by simp only [bufFF, hy]
      rw [e1, e2]; exact ⟨rfl, fun h => by cases h⟩
    | error e =>
      have e1 : bufFF src sf (k + 1) x = { x' with bad := true } := by simp only [bufFF, hx]
      have e2 : bufFF src sf (k + 1) y = { y' with bad := true } := by simp only [bufFF, hy]
      rw [e1, e2]; exact ⟨rfl, fun h => by cases h⟩

/-! ### tokens, loads, invariant -/

def bload (src : Node) (sf : Nat) (r : Run src) (t : src.S × Nat) : BufSt src :=
  bufFF src sf t.2 (bufStart src (src.rreset r (some t.1)))

theorem bufReset_some (sf : Nat) (st : BufSt src) (t : src.S × Nat) :
    bufReset src sf st (some t) = bload src sf st.inner t := by
  obtain ⟨c, k⟩ := t
  rfl

def btok (x : BufSt src) : src.S × Nat := (bufGet src x).1

theorem btok_some (x : BufSt src) (c : src.S) (h : x.snap = some c) : btok x = (c, x.steps) := by
  simp only [btok, bufGet, h]

theorem bufGet_some (x : BufSt src) (c : src.S) (h : x.snap = some c) : (bufGet src x).2 = x := by
  simp only [bufGet, h]

/-- `n` (a freshly loaded state) stands for `x`. -/
def BSim (Rs : Run src → Run src → Prop) (sf : Nat) (x n : BufSt src) : Prop :=
  BCore Rs sf n x ∨
  (x.done = true ∧ n.done = false ∧ n.bad = false ∧ x.bad = false ∧ n.steps = x.steps ∧
    n.yielded % sf = x.yielded % sf ∧ (src.rnext n.inner).1 = .stop ∧ Rs (src.rnext n.inner).2 x.inner)

def BInvS (Rs : Run src → Run src → Prop) (sf : Nat) (x : BufSt src) : Prop :=
  x.bad = false ∧ BufInv src x ∧ (∃ c, x.snap = some c) ∧ x.steps = x.yielded % sf ∧
  ∀ r, V src r → BSim Rs sf x (bload src sf r (btok x))

theorem bstart_cur (g : Good src Rs) {u r : Run src} (hu : src.Reach u) (hv : V src r) :
    Rs (src.rget (src.rreset r (some (src.rget u).1))).2 (src.rget u).2 :=
  g.trans _ _ _ (g.get (tok_cur g hu hv)) (g.l1 _ (Node.Reach.get hu))

/-- A fast-forward over a stretch without snapshot points. -/
theorem bufFF_nosnap (sf : Nat) (j : Nat) : ∀ st : BufSt src, st.bad = false → st.done = false →
    (∀ i, i < j → ¬ (sf > 0 ∧ (st.yielded + i + 1) % sf = 0)) → (bufFF src sf j st).bad = false →
    (bufFF src sf j st).snap = st.snap ∧ (bufFF src sf j st).steps = st.steps + j ∧
    (bufFF src sf j st).yielded = st.yielded + j ∧ (bufFF src sf j st).done = false := by
  induction j with
  | zero => intro st _ hd _ _; exact ⟨rfl, rfl, rfl, hd⟩
  | succ j ih =>
    intro st hb hd hns hres
    rcases hx : src.rnext st.inner with ⟨o, r'⟩
    cases o with
    | item v =>
      have hc : ¬ (sf > 0 ∧ (st.yielded + 1) % sf = 0) := by
        have := hns 0 (Nat.succ_pos j); simpa using this
      have e := bufNext_plain sf st hb hd v r' hx hc
      have e1 : bufFF src sf (j + 1) st = bufFF src sf j { st with inner := r', steps := st.steps + 1, yielded := st.yielded + 1 } := by
        simp only [bufFF, e]
      rw [e1] at hres ⊢
      have := ih { st with inner := r', steps := st.steps + 1, yielded := st.yielded + 1 } hb hd
        (fun i hi => by
          have := hns (i + 1) (by omega)
          have e : st.yielded + (i + 1) + 1 = st.yielded + 1 + i + 1 := by omega
          rw [e] at this; exact this) hres
      refine ⟨this.1, ?_, ?_, this.2.2.2⟩
      · rw [this.2.1]; show st.steps + 1 + j = st.steps + (j + 1); omega
      · rw [this.2.2.1]; show st.yielded + 1 + j = st.yielded + (j + 1); omega
    | stop =>
      have e := bufNext_stop sf st hb hd r' hx
      have e1 : (bufFF src sf (j + 1) st).bad = true := by simp only [bufFF, e]
      rw [e1] at hres; cases hres
    | error e' =>
      have e := bufNext_err sf st hb hd e' r' hx
      have e1 : (bufFF src sf (j + 1) st).bad = true := by simp only [bufFF, e]
      rw [e1] at hres; cases hres

theorem bstart_congr (_g : Good src Rs) (sf : Nat) {A B : Run src} (h : Rs (src.rget A).2 (src.rget B).2) :
    BCore Rs sf (bufStart src A) (bufStart src B) := ⟨h, rfl, rfl, rfl, rfl, rfl⟩

/-- (B1) after `reset()`. -/
theorem binv_reset_none (g : Good src Rs) (sf : Nat) (st : BufSt src) (hv : V src st.inner) :
    BInvS Rs sf (bufReset src sf st none) := by
  have hr : src.Reach (src.rreset st.inner none) := by
    rcases hv with h | h
    · exact Node.Reach.resetNone h
    · rw [h]; exact Node.Reach.initNone
  refine ⟨rfl, bufStart_inv src _ hr, ⟨_, rfl⟩, by show 0 = 0 % sf; simp, ?_⟩
  intro r hvr
  left
  have ht : btok (bufReset src sf st none) = ((src.rget (src.rreset st.inner none)).1, 0) := btok_some _ _ rfl
  rw [ht]
  exact bstart_congr g sf (bstart_cur g hr hvr)

/-- (B2) after `reset(state)` with the token of a state satisfying the invariant. -/
theorem binv_load (g : Good src Rs) (sf : Nat) (s : BufSt src) (hs : BInvS Rs sf s) (r0 : Run src) (hv : V src r0) :
    BInvS Rs sf (bload src sf r0 (btok s)) := by
  obtain ⟨hb, hi, ⟨c, hc⟩, hst, hsim⟩ := hs
  have hl : Legit src c := hi.2 c hc
  have ht : btok s = (c, s.steps) := btok_some s c hc
  have hbad : (bload src sf r0 (btok s)).bad = false := by
    rcases hsim r0 hv with h | h
    · exact h.2.2.2.2.1
    · exact h.2.2.1
  rw [ht] at hbad ⊢
  have hA := V.reset c hl hv
  have hns : ∀ i, i < s.steps → ¬ (sf > 0 ∧ ((bufStart src (src.rreset r0 (some c))).yielded + i + 1) % sf = 0) := by
    intro i hi' ⟨hpos, hm⟩
    have hlt : s.steps < sf := by rw [hst]; exact Nat.mod_lt _ hpos
    have e : (bufStart src (src.rreset r0 (some c))).yielded + i + 1 = i + 1 := by show 0 + i + 1 = i + 1; omega
    rw [e, Nat.mod_eq_of_lt (by omega)] at hm
    cases hm
  have ns := bufFF_nosnap sf s.steps (bufStart src (src.rreset r0 (some c))) rfl rfl hns hbad
  have inv : BufInv src (bload src sf r0 (c, s.steps)) := bufFF_inv src sf _ _ (bufStart_inv src _ hA)
  have hsnap : (bload src sf r0 (c, s.steps)).snap = some (src.rget (src.rreset r0 (some c))).1 := ns.1
  have hsteps : (bload src sf r0 (c, s.steps)).steps = s.steps := by
    have := ns.2.1; simp only [bufStart, Nat.zero_add] at this; exact this
  have hy : (bload src sf r0 (c, s.steps)).yielded = s.steps := by
    have := ns.2.2.1; simp only [bufStart, Nat.zero_add] at this; exact this
  refine ⟨hbad, inv, ⟨_, hsnap⟩, ?_, ?_⟩
  · rw [hsteps, hy, hst, Nat.mod_mod]
  · intro r hvr
    left
    rw [btok_some _ _ hsnap, hsteps]
    have hc0 : BCore Rs sf (bufStart src (src.rreset r (some (src.rget (src.rreset r0 (some c))).1)))
        (bufStart src (src.rreset r0 (some c))) := bstart_congr g sf (bstart_cur g hA hvr)
    have := bufFF_congr g sf s.steps _ _ hc0
    have hb2 : (bufFF src sf s.steps (bufStart src (src.rreset r (some (src.rget (src.rreset r0 (some c))).1)))).bad = false :=
      this.1.trans hbad
    exact this.2 hb2

theorem mod_succ_of_ne (a sf : Nat) (h : ¬ (sf > 0 ∧ (a + 1) % sf = 0)) : a % sf + 1 = (a + 1) % sf := by
  rcases Nat.eq_zero_or_pos sf with h0 | hpos
  · subst h0; simp
  · have hlt : a % sf < sf := Nat.mod_lt _ hpos
    have hne : (a + 1) % sf ≠ 0 := fun h' => h ⟨hpos, h'⟩
    rcases Nat.lt_or_ge (a % sf + 1) sf with h1 | h1
    · have : (a + 1) % sf = (a % sf + 1) % sf := by
        rw [Nat.add_mod a 1 sf]
        rcases Nat.lt_or_ge 1 sf with h2 | h2
        · rw [Nat.mod_eq_of_lt h2]
        · have : sf = 1 := by omega
          subst this; omega
      rw [this, Nat.mod_eq_of_lt h1]
    · exfalso
      have e : a % sf + 1 = sf := by omega
      apply hne
      have : (a + 1) % sf = (a % sf + 1) % sf := by
        rw [Nat.add_mod a 1 sf]
        rcases Nat.lt_or_ge 1 sf with h2 | h2
        · rw [Nat.mod_eq_of_lt h2]
        · have : sf = 1 := by omega
          subst this; omega
      rw [this, e, Nat.mod_self]

/-- (B4) `next()` keeps the invariant; a stop leaves the token unchanged; no errors. -/
theorem binv_next (g : Good src Rs) (he : ErrFree src) (sf : Nat) (x : BufSt src) (h : BInvS Rs sf x) :
    BInvS Rs sf (bufNext src sf x).2 ∧
    ((bufNext src sf x).1 = .stop → btok (bufNext src sf x).2 = btok x ∧ (bufNext src sf x).2.done = true) ∧
    (∀ v, (bufNext src sf x).1 = .item v → x.done = false ∧ (bufNext src sf x).2.done = false) ∧
    (∀ e, (bufNext src sf x).1 ≠ .error e) := by
  obtain ⟨hb, hi, ⟨c, hc⟩, hst, hsim⟩ := h
  cases hdx : x.done with
  | true =>
    rw [bufNext_done sf x hb hdx]
    exact ⟨⟨hb, hi, ⟨c, hc⟩, hst, hsim⟩, fun _ => ⟨rfl, hdx⟩, (fun v h => by cases h), (fun e h => by cases h)⟩
  | false =>
    have hdir : ∀ r, V src r → BCore Rs sf (bload src sf r (btok x)) x := by
      intro r hv
      rcases hsim r hv with h | h
      · exact h
      · rw [hdx] at h; cases h.1
    have hn := Node.Reach.next hi.1
    have e1 := he _ hi.1
    rcases hx : src.rnext x.inner with ⟨o, r'⟩
    rw [hx] at hn
    cases o with
    | item v =>
      by_cases hcnd : sf > 0 ∧ (x.yielded + 1) % sf = 0
      · have e := bufNext_snap sf x hb hdx v r' hx hcnd
        have inv := bufNext_inv src sf x hi
        rw [e] at inv ⊢
        refine ⟨⟨hb, inv, ⟨_, rfl⟩, ?_, ?_⟩, (fun h => by cases h), (fun _ _ => ⟨rfl, hdx⟩), (fun e h => by cases h)⟩
        · show 0 = (x.yielded + 1) % sf
          exact hcnd.2.symm
        · intro r hv
          left
          rw [btok_some _ (src.rget r').1 rfl]
          refine ⟨bstart_cur g hn hv, rfl, ?_, hdx.symm, rfl, hb⟩
          show 0 % sf = (x.yielded + 1) % sf
          rw [hcnd.2, Nat.zero_mod]
      · have e := bufNext_plain sf x hb hdx v r' hx hcnd
        have inv := bufNext_inv src sf x hi
        rw [e] at inv ⊢
        refine ⟨⟨hb, inv, ⟨c, hc⟩, ?_, ?_⟩, (fun h => by cases h), (fun _ _ => ⟨rfl, hdx⟩), (fun e h => by cases h)⟩
        · show x.steps + 1 = (x.yielded + 1) % sf
          rw [hst]; exact mod_succ_of_ne _ _ hcnd
        · intro r hv
          left
          have ht : btok ({ x with inner := r', steps := x.steps + 1, yielded := x.yielded + 1 } : BufSt src) = (c, x.steps + 1) :=
            btok_some _ c hc
          rw [ht]
          have hd0 := hdir r hv
          rw [btok_some x c hc] at hd0
          have cg := bufNext_congr g sf hd0
          rw [e] at cg
          have e2 : bload src sf r (c, x.steps + 1) = bufFF src sf 1 (bload src sf r (c, x.steps)) := bufFF_succ sf x.steps _
          rw [e2, bufFF_one_item sf _ v cg.1]
          exact cg.2
    | stop =>
      have e := bufNext_stop sf x hb hdx r' hx
      have inv := bufNext_inv src sf x hi
      rw [e] at inv ⊢
      have ht : btok ({ x with inner := r', done := true } : BufSt src) = btok x :=
        (btok_some ({ x with inner := r', done := true } : BufSt src) c hc).trans (btok_some x c hc).symm
      refine ⟨⟨hb, inv, ⟨c, hc⟩, hst, ?_⟩, (fun _ => ⟨ht, rfl⟩), (fun v h => by cases h), (fun e h => by cases h)⟩
      intro r hv
      right
      rw [ht]
      have hd0 := hdir r hv
      have gn := g.next _ _ hd0.1
      rw [hx] at gn
      exact ⟨rfl, hd0.2.2.2.1.trans hdx, hd0.2.2.2.2.1, hb, hd0.2.1, hd0.2.2.1, gn.1, gn.2⟩
    | error e => exact absurd (by rw [hx]) (e1 e)

theorem buffered_binv (g : Good src Rs) (he : ErrFree src) (sf : Nat) (R : Run (buffered sf src))
    (h : (buffered sf src).Reach R) : BInvS Rs sf (R.st : BufSt src) := by
  induction h with
  | initNone => exact binv_reset_none g sf _ (Or.inr rfl)
  | @initSome r' _ ih =>
    have e : ((buffered sf src).rreset (buffered sf src).rfresh (some ((buffered sf src).rget r').1)).st =
        bload src sf src.rfresh (btok (r'.st : BufSt src)) := bufReset_some sf _ _
    rw [e]
    exact binv_load g sf _ ih _ (Or.inr rfl)
  | @next r _ ih => exact (binv_next g he sf (r.st : BufSt src) ih).1
  | @get r _ ih =>
    obtain ⟨c, hc⟩ := ih.2.2.1
    have e : ((buffered sf src).rget r).2.st = (bufGet src (r.st : BufSt src)).2 := rfl
    rw [e, bufGet_some _ c hc]; exact ih
  | @resetNone r _ ih => exact binv_reset_none g sf _ (Or.inl ih.2.1.1)
  | @resetSome r r' _ _ ih1 ih2 =>
    have e : ((buffered sf src).rreset r (some ((buffered sf src).rget r').1)).st =
        bload src sf (r.st : BufSt src).inner (btok (r'.st : BufSt src)) := bufReset_some sf _ _
    rw [e]
    exact binv_load g sf _ ih2 _ (Or.inl ih1.2.1.1)

end
end TDV.Node
