import TorchDataVerif.Model.MPRestore
import TorchDataVerif.Proofs.MPBase
/-!
# `MPRFF` — the fast-forward branch of `_StatefulMultiProcessingDataLoaderIter.__init__`

Taken when the dataset is iterable and the first non-`None` worker state of the checkpoint has neither a
dataset state nor an iterator state (a dataset without `state_dict` anywhere).  Which branch is taken is a
property of the dataset, not of `Cfg`: `MPR.restore` is the constructor for stateful datasets, `ffStart` /
`RestoreFF` below the one for stateless iterable datasets.

What the code does (`stateful_dataloader.py`, `worker.py`):

* every worker is started with its saved state; the state has no dataset / iterator state, so nothing is
  loaded, `fetcher.ended = False` (`restored = False`), `iteration_end = False`: a fresh worker.  Its start-up
  ack carries the delta to the fresh `_make_state_dict`, so `_worker_snapshots` are the fresh worker states;
* `_reset(first_iter=True, prime_prefetch=False)`: all counters 0, `_last_yielded_worker_id = W − 1`;
* `_restore_main_state`: `_sampler_iter_yielded` = the saved one (`_InfiniteConstantSampler`: a mere counter);
* `_num_yielded = snapshot_step`; `_update_snapshot(saved step, saved last_yielded_worker_id, saved main,
  the (fresh) worker snapshots)` — the stored snapshot is NOT the initial one;
* `fast_forward_steps = _num_yielded; _num_yielded = 0`; `W·P` calls of `_try_put_index` (`ffStart`);
* `next(self)` × `fast_forward_steps`, batches discarded (`Replay`); `_last_yielded_worker_id` is compared with
  the saved one, `ValueError` if different (`ffCheck`); `next(self)` × `steps_since_snapshot` (`Replay` again).

The replay is the protocol itself: ordinary `work` / `recv` / `next` actions under any schedule.
-/
namespace TDV.MPRFF

open TDV.MP TDV.MPR

/-- The worker states every worker reports at start-up in this branch. -/
def freshWs (c : Cfg) : List WSt := List.replicate c.W ⟨0, false⟩

/-- The main-process state just before the priming loop of the fast-forward branch. -/
def ffBase (c : Cfg) (sn : Snap) : State :=
  { sendIdx := 0, rcvdIdx := 0, info := [], status := List.replicate c.W true, cyc := 0
    outstanding := 0, numTasks := List.replicate c.W 0
    samplerPos := sn.main, numYielded := 0, mainSnaps := []
    wsnaps := freshWs c, snap := ⟨sn.step, sn.lastW, sn.main, freshWs c⟩, lastW := c.W - 1
    shutdown := false, bad := false
    workers := List.replicate c.W ⟨[], 0, false, true⟩, resQ := [], phase := .idle, obs := [] }

/-- The fast-forward branch up to the first replay loop. -/
def ffStart (c : Cfg) (sn : Snap) : State := prime c (c.P * c.W) (ffBase c sn)

/-- The constructor's `for _ in range(n): next(self)` run to normal completion from `s` under the schedule
`as`, ending in `s'`: the constructor calls neither `state_dict` nor `_reset`, every one of the `n` calls
returned a batch (an exception would propagate out of the constructor), the loader is idle again.  The
batches are discarded; they stay in the ghost list `obs`. -/
structure Replay (c : Cfg) (s : State) (n : Nat) (as : List Action) (s' : State) : Prop where
  run : run c s as = some s'
  noReset : NoReset as
  noSD : Action.stateDict ∉ as
  idle : s'.phase = .idle
  alive : ¬ died s'
  returned : (yields s'.obs).length = (yields s.obs).length + n

/-- How the constructor's check ends. -/
inductive Check where
  | pass
  | valueError          -- "last_yielded_worker_id does not match, the dataset may have changed"
  deriving DecidableEq, Repr

/-- `if self._last_yielded_worker_id != saved: raise ValueError`, in the state after the first replay loop. -/
def ffCheck (sn : Snap) (s : State) : Check := if s.lastW = sn.lastW then .pass else .valueError

/-- **`restoreFF c (snap, steps)`**: the fast-forward constructor, given the checkpoint `(snap, steps)`, returns
in state `s` — under the schedule `asA` of the `snapshot_step` replayed batches (ending in `sA`, where the
check is made) and the schedule `asB` of the `steps_since_snapshot` further ones. -/
structure RestoreFF (c : Cfg) (sd : Snap × Nat) (asA asB : List Action) (sA s : State) : Prop where
  ff : Replay c (ffStart c sd.1) sd.1.step asA sA
  check : ffCheck sd.1 sA = .pass
  rest : Replay c sA sd.2 asB s

end TDV.MPRFF
