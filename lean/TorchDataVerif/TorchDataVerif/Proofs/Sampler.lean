import TorchDataVerif.Model.Sampler
/-! Helper lemmas for M2 `Sampler` (property theorems are in `Props/C15.lean`). -/
namespace TDV.Sampler

/-! ## Generic iterator lemmas -/
section generic
variable {W : Type} {nx : W → Out × W}

theorem steps_nextN : ∀ {ys : List Nat} {w w' : W}, Steps nx w ys w' → nextN nx ys.length w = w'
  | [], _, _, h => by simpa [Steps, nextN] using h
  | _ :: ys, _, _, h => by
    simp only [Steps] at h
    simpa [nextN] using steps_nextN h.2

theorem steps_append : ∀ {ys zs : List Nat} {w w1 w2 : W},
    Steps nx w ys w1 → Steps nx w1 zs w2 → Steps nx w (ys ++ zs) w2
  | [], _, _, _, _, h1, h2 => by simp only [Steps] at h1; subst h1; simpa using h2
  | _ :: ys, _, _, _, _, h1, h2 => by
    simp only [Steps] at h1
    simp only [List.cons_append, Steps]
    exact ⟨h1.1, steps_append h1.2 h2⟩

theorem steps_emits : ∀ {ys zs : List Nat} {w w1 : W},
    Steps nx w ys w1 → Emits nx w1 zs → Emits nx w (ys ++ zs)
  | [], _, _, _, h1, h2 => by simp only [Steps] at h1; subst h1; simpa using h2
  | _ :: ys, _, _, _, h1, h2 => by
    simp only [Steps] at h1
    simp only [List.cons_append, Emits]
    exact ⟨h1.1, steps_emits h1.2 h2⟩

theorem drain_steps : ∀ {ys : List Nat} {w w1 : W} (f : Nat), Steps nx w ys w1 →
    drain nx (ys.length + f) w = (ys ++ (drain nx f w1).1, (drain nx f w1).2)
  | [], _, _, f, h => by simp only [Steps] at h; subst h; simp
  | y :: ys, w, w1, f, h => by
    simp only [Steps] at h
    have ih := drain_steps f h.2
    have e : (y :: ys).length + f = (ys.length + f) + 1 := by simp; omega
    rw [e, drain]
    have hw : nx w = (.item y, (nx w).2) := by rw [← h.1]
    rw [hw]
    simp [ih]

theorem drain_emits : ∀ {xs : List Nat} {w : W} {f : Nat}, Emits nx w xs → xs.length < f →
    (drain nx f w).1 = xs
  | [], w, f + 1, h, _ => by
    have h0 := h 0
    simp only [nextN] at h0
    rw [drain]
    have hw : nx w = (.stop, (nx w).2) := by rw [← h0]
    rw [hw]
  | x :: xs, w, f + 1, h, hf => by
    simp only [Emits] at h
    rw [drain]
    have hw : nx w = (.item x, (nx w).2) := by rw [← h.1]
    rw [hw]
    have := drain_emits (f := f) h.2 (by simpa using hf)
    simp [this]

theorem emits_unique : ∀ {xs ys : List Nat} {w : W}, Emits nx w xs → Emits nx w ys → xs = ys
  | [], [], _, _, _ => rfl
  | [], y :: ys, _, h1, h2 => by
    have := h1 0; simp only [nextN] at this
    simp only [Emits] at h2; rw [this] at h2; cases h2.1
  | x :: xs, [], _, h1, h2 => by
    have := h2 0; simp only [nextN] at this
    simp only [Emits] at h1; rw [this] at h1; cases h1.1
  | x :: xs, y :: ys, _, h1, h2 => by
    simp only [Emits] at h1 h2
    have := h1.1.symm.trans h2.1
    cases this
    rw [emits_unique h1.2 h2.2]

/-- A state whose `next` returns `stop` without changing the state is exhausted for good. -/
theorem emits_nil_of_fix {w : W} (h : nx w = (.stop, w)) : Emits nx w [] := by
  intro k
  have : ∀ k, nextN nx k w = w := by
    intro k; induction k with
    | zero => rfl
    | succ k ih => simp [nextN, h, ih]
  rw [this k, h]

end generic

/-! ## `_StatefulRandomSamplerIterator` -/
section random
variable {G : Type} (R : Gen G) (c : RCfg)

theorem rnext_stop (w : RIter G × G) (h : w.1.yielded = c.numSamples) :
    RIter.next R c w = (.stop, w) := by
  simp [RIter.next, h]

theorem rnext_in (w : RIter G × G) (hy : w.1.yielded ≠ c.numSamples)
    (hi : w.1.permIndex < w.1.perm.length) :
    RIter.next R c w = (.item (w.1.perm[w.1.permIndex]),
      ({ w.1 with permIndex := w.1.permIndex + 1, yielded := w.1.yielded + 1 }, w.2)) := by
  have hne : w.1.permIndex ≠ w.1.perm.length := by omega
  simp [RIter.next, hy, hne, hi]

theorem rnext_redraw (w : RIter G × G) (hy : w.1.yielded ≠ c.numSamples)
    (hi : w.1.permIndex = w.1.perm.length) (v : Nat) (r : List Nat)
    (hp : (getPerm R c w.2).1 = v :: r) :
    RIter.next R c w = (.item v,
      ({ w.1 with perm := v :: r, permIndex := 1, yielded := w.1.yielded + 1 }, (getPerm R c w.2).2)) := by
  simp [RIter.next, hy, hi, hp]

theorem rsteps_block : ∀ (j : Nat) (it : RIter G) (g : G),
    it.permIndex + j ≤ it.perm.length → it.yielded + j ≤ c.numSamples →
    Steps (RIter.next R c) (it, g) ((it.perm.drop it.permIndex).take j)
      ({ it with permIndex := it.permIndex + j, yielded := it.yielded + j }, g)
  | 0, it, g, _, _ => by simp [Steps]
  | j + 1, it, g, hi, hy => by
    have hlt : it.permIndex < it.perm.length := by omega
    have hne : it.yielded ≠ c.numSamples := by omega
    rw [List.drop_eq_getElem_cons hlt, List.take_succ_cons]
    simp only [Steps]
    rw [rnext_in R c (it, g) hne hlt]
    refine ⟨rfl, ?_⟩
    have ih := rsteps_block j { it with permIndex := it.permIndex + 1, yielded := it.yielded + 1 } g
      (by simp; omega) (by simp; omega)
    simpa [Nat.add_assoc, Nat.add_comm 1 j] using ih

/-- From an exhausted permutation: the next `j` items are the first `j` of a new draw. -/
theorem rsteps_redraw (it : RIter G) (g : G) (hi : it.permIndex = it.perm.length) (j : Nat)
    (hj1 : 1 ≤ j) (hj : j ≤ (getPerm R c g).1.length) (hy : it.yielded + j ≤ c.numSamples) :
    Steps (RIter.next R c) (it, g) ((getPerm R c g).1.take j)
      ({ it with perm := (getPerm R c g).1, permIndex := j, yielded := it.yielded + j },
        (getPerm R c g).2) := by
  obtain ⟨j, rfl⟩ : ∃ j', j = j' + 1 := ⟨j - 1, by omega⟩
  match hp : (getPerm R c g).1 with
  | [] => rw [hp] at hj; simp at hj
  | v :: r =>
    rw [hp] at hj
    simp only [List.take_succ_cons, Steps]
    rw [rnext_redraw R c (it, g) (by simp; omega) hi v r hp]
    refine ⟨rfl, ?_⟩
    have ih := rsteps_block R c j
      { it with perm := v :: r, permIndex := 1, yielded := it.yielded + 1 } (getPerm R c g).2
      (by simp at hj ⊢; omega) (by simp; omega)
    simpa [Nat.add_assoc, Nat.add_comm 1 j] using ih

theorem drawsSeq_succ (q : Nat) (g : G) :
    drawsSeq R c (q + 1) g =
      ((getPerm R c g).1 :: (drawsSeq R c q (getPerm R c g).2).1, (drawsSeq R c q (getPerm R c g).2).2) := rfl

/-- `q` whole draws from an exhausted permutation. -/
theorem rsteps_blocks (L : Nat) (hL : ∀ g, (getPerm R c g).1.length = L) (hL0 : 0 < L) :
    ∀ (q : Nat) (it : RIter G) (g : G), it.permIndex = it.perm.length →
      it.yielded + q * L ≤ c.numSamples →
      ∃ it', Steps (RIter.next R c) (it, g) (drawsSeq R c q g).1.flatten (it', (drawsSeq R c q g).2) ∧
        it'.permIndex = it'.perm.length ∧ it'.yielded = it.yielded + q * L ∧ it'.genState = it.genState
  | 0, it, g, hi, _ => ⟨it, by simp [drawsSeq, Steps], hi, by simp, rfl⟩
  | q + 1, it, g, hi, hy => by
    have hmul : (q + 1) * L = q * L + L := Nat.succ_mul q L
    have h1 := rsteps_redraw R c it g hi L hL0 (by rw [hL]; exact Nat.le_refl _) (by omega)
    obtain ⟨it', hs, hi', hy', hg'⟩ := rsteps_blocks L hL hL0 q
      { it with perm := (getPerm R c g).1, permIndex := L, yielded := it.yielded + L } (getPerm R c g).2
      (by simp [hL]) (by simp; omega)
    refine ⟨it', ?_, hi', by simp at hy'; omega, by simpa using hg'⟩
    rw [drawsSeq_succ]
    simp only [List.flatten_cons]
    have ht : (getPerm R c g).1.take L = (getPerm R c g).1 := List.take_of_length_le (by rw [hL]; exact Nat.le_refl _)
    rw [ht] at h1
    exact steps_append h1 hs

/-- The whole epoch in closed form: `q` whole draws, then the first `r` indices of one more. -/
theorem rsteps_epoch (L : Nat) (hL : ∀ g, (getPerm R c g).1.length = L) (q r : Nat)
    (hns : c.numSamples = q * L + r) (hr : r < L) (hpos : 0 < c.numSamples) (g0 : G) :
    ∃ it', Steps (RIter.next R c) (RIter.create R c g0)
        ((drawsSeq R c q g0).1.flatten ++ (getPerm R c (drawsSeq R c q g0).2).1.take r)
        (it', if r = 0 then (drawsSeq R c q g0).2 else (getPerm R c (drawsSeq R c q g0).2).2) ∧
      it'.yielded = c.numSamples ∧ it'.genState = g0 := by
  have hL0 : 0 < L := by omega
  cases q with
  | zero =>
    have hr0 : r ≠ 0 := by omega
    have h := rsteps_block R c r (RIter.create R c g0).1 (RIter.create R c g0).2
      (by simp [RIter.create, hL]; omega) (by simp [RIter.create]; omega)
    refine ⟨{ (RIter.create R c g0).1 with permIndex := (RIter.create R c g0).1.permIndex + r,
                                               yielded := (RIter.create R c g0).1.yielded + r }, ?_, ?_, ?_⟩
    · simpa [drawsSeq, hr0, RIter.create] using h
    · simp [RIter.create]; omega
    · rfl
  | succ q =>
    have hmul : (q + 1) * L = q * L + L := Nat.succ_mul q L
    have h0 := rsteps_block R c L (RIter.create R c g0).1 (RIter.create R c g0).2
      (by simp [RIter.create, hL]) (by simp [RIter.create]; omega)
    have ht : ((RIter.create R c g0).1.perm.drop (RIter.create R c g0).1.permIndex).take L = (getPerm R c g0).1 := by
      simp [RIter.create]; exact List.take_of_length_le (by rw [hL]; exact Nat.le_refl _)
    rw [ht] at h0
    obtain ⟨it1, hs1, hi1, hy1, hg1⟩ := rsteps_blocks R c L hL hL0 q
      { (RIter.create R c g0).1 with permIndex := (RIter.create R c g0).1.permIndex + L,
                                      yielded := (RIter.create R c g0).1.yielded + L }
      (RIter.create R c g0).2 (by simp [RIter.create, hL]) (by simp [RIter.create]; omega)
    have h01 := steps_append h0 hs1
    simp only [RIter.create] at hy1 hg1
    by_cases hr0 : r = 0
    · subst hr0
      refine ⟨it1, ?_, by simp at hy1; omega, by simpa using hg1⟩
      rw [drawsSeq_succ]
      simpa [RIter.create] using h01
    · have h2 := rsteps_redraw R c it1 (drawsSeq R c q (RIter.create R c g0).2).2 hi1 r (by omega)
        (by rw [hL]; omega) (by simp at hy1; omega)
      refine ⟨{ it1 with perm := (getPerm R c (drawsSeq R c q (RIter.create R c g0).2).2).1, permIndex := r,
                           yielded := it1.yielded + r }, ?_, ?_, ?_⟩
      · have h012 := steps_append h01 h2
        rw [drawsSeq_succ]
        simpa [RIter.create, hr0, List.append_assoc] using h012
      · simp at hy1 ⊢; omega
      · simpa using hg1

end random

section random2
variable {G : Type} (R : Gen G) (c : RCfg)

theorem rnext_item (w : RIter G × G) (v : Nat) (h : (RIter.next R c w).1 = .item v) :
    (RIter.next R c w).2.1.yielded = w.1.yielded + 1 ∧ (RIter.next R c w).2.1.genState = w.1.genState := by
  unfold RIter.next at h ⊢
  by_cases hy : w.1.yielded = c.numSamples
  · simp [hy] at h
  · simp only [hy, if_false] at h ⊢
    generalize (if w.1.permIndex = w.1.perm.length then
        ((getPerm R c w.2).1, 0, (getPerm R c w.2).2) else (w.1.perm, w.1.permIndex, w.2)) = d at h ⊢
    cases hd : d.1[d.2.1]? <;> simp_all

theorem rsteps_yielded : ∀ {ys : List Nat} {w w' : RIter G × G}, Steps (RIter.next R c) w ys w' →
    w'.1.yielded = w.1.yielded + ys.length ∧ w'.1.genState = w.1.genState
  | [], _, _, h => by simp only [Steps] at h; subst h; simp
  | y :: ys, w, _, h => by
    simp only [Steps] at h
    have h1 := rnext_item R c w y h.1
    have h2 := rsteps_yielded h.2
    simp only [List.length_cons]
    constructor
    · omega
    · rw [h2.2, h1.2]

theorem skip_steps : ∀ (k : Nat) (w w' : RIter G × G), RIter.skip R c k w = some w' →
    ∃ ys, ys.length = k ∧ Steps (RIter.next R c) w ys w'
  | 0, w, w', h => by
    simp only [RIter.skip, Option.some.injEq] at h
    exact ⟨[], rfl, by simpa [Steps] using h⟩
  | k + 1, w, w', h => by
    rw [RIter.skip] at h
    split at h
    · rename_i v w1 hn
      obtain ⟨ys, hl, hs⟩ := skip_steps k w1 w' h
      refine ⟨v :: ys, by simp [hl], ?_⟩
      simp only [Steps, hn]
      exact ⟨trivial, hs⟩
    · cases h

theorem steps_skip : ∀ (ys : List Nat) (w w' : RIter G × G), Steps (RIter.next R c) w ys w' →
    RIter.skip R c ys.length w = some w'
  | [], w, w', h => by simp only [Steps] at h; subst h; rfl
  | y :: ys, w, w', h => by
    simp only [Steps] at h
    simp only [List.length_cons, RIter.skip]
    have hw : RIter.next R c w = (.item y, (RIter.next R c w).2) := by rw [← h.1]
    rw [hw]
    exact steps_skip ys _ _ h.2

/-- With non-empty draws the fast-forward loop never raises inside an epoch. -/
theorem skip_some (hne : ∀ g, (getPerm R c g).1 ≠ []) : ∀ (k : Nat) (it : RIter G) (g : G),
    it.permIndex ≤ it.perm.length → it.yielded + k ≤ c.numSamples →
    ∃ w, RIter.skip R c k (it, g) = some w
  | 0, it, g, _, _ => ⟨_, rfl⟩
  | k + 1, it, g, hi, hy => by
    have hny : it.yielded ≠ c.numSamples := by omega
    by_cases hlt : it.permIndex < it.perm.length
    · rw [RIter.skip, rnext_in R c (it, g) hny hlt]
      exact skip_some hne k _ g (by simp; omega) (by simp; omega)
    · have hi' : it.permIndex = it.perm.length := by omega
      match hp : (getPerm R c g).1 with
      | [] => exact absurd hp (hne g)
      | v :: r =>
        rw [RIter.skip, rnext_redraw R c (it, g) hny hi' v r hp]
        exact skip_some hne k _ _ (by simp) (by simp; omega)

/-- Loading the state taken after `k` indices into a NEW iterator (created from any generator state
`g'`, its construction having drawn from it) gives exactly the uninterrupted iterator's state. -/
theorem load_fresh (g0 g' : G) (k : Nat) (w : RIter G × G)
    (h : RIter.skip R c k (RIter.create R c g0) = some w) :
    RIter.load R c (RIter.create R c g') (k, g0) = some w ∧ w.1.stateDict = (k, g0) := by
  obtain ⟨ys, hl, hs⟩ := skip_steps R c k _ _ h
  have hy := rsteps_yielded R c hs
  have hyk : w.1.yielded = k := by simpa [RIter.create, hl] using hy.1
  have hg : w.1.genState = g0 := by simpa [RIter.create] using hy.2
  constructor
  · have e : ({ (RIter.create R c g').1 with genState := g0, perm := (getPerm R c g0).1 }, (getPerm R c g0).2)
        = RIter.create R c g0 := rfl
    simp only [RIter.load, e, h]
    rw [← hyk]
  · simp [RIter.stateDict, hyk, hg]

theorem drain_at_end (w : RIter G × G) (h : w.1.yielded = c.numSamples) (f : Nat) :
    drain (RIter.next R c) f w = ([], w) := by
  cases f with
  | zero => rfl
  | succ f => rw [drain, rnext_stop R c w h]

theorem epoch_of_steps (g0 : G) (ys : List Nat) (w' : RIter G × G)
    (hs : Steps (RIter.next R c) (RIter.create R c g0) ys w') (hy : w'.1.yielded = c.numSamples) :
    RIter.epoch R c g0 = (ys, w') := by
  have hl := (rsteps_yielded R c hs).1
  simp only [RIter.create] at hl
  have e : c.numSamples + 1 = ys.length + 1 := by omega
  rw [RIter.epoch, e, drain_steps 1 hs, drain_at_end R c w' hy]
  simp

theorem drawsSeq_length : ∀ (q : Nat) (g : G), (drawsSeq R c q g).1.length = q
  | 0, _ => rfl
  | q + 1, g => by rw [drawsSeq_succ]; simp [drawsSeq_length q]

theorem drawsSeq_all (P : List Nat → Prop) (hP : ∀ g, P (getPerm R c g).1) :
    ∀ (q : Nat) (g : G), ∀ p ∈ (drawsSeq R c q g).1, P p
  | 0, _, p, hp => by simp [drawsSeq] at hp
  | q + 1, g, p, hp => by
    rw [drawsSeq_succ] at hp
    simp only [List.mem_cons] at hp
    rcases hp with rfl | hp
    · exact hP g
    · exact drawsSeq_all P hP q _ p hp

end random2

/-! ## `_BatchSamplerIterator` -/
section batch
variable {W S T : Type} (N : Nested W S T)

theorem emits_nil_next {nx : W → Out × W} {w : W} (h : Emits nx w []) :
    (nx w).1 = .stop ∧ Emits nx (nx w).2 [] :=
  ⟨by simpa [nextN] using h 0, fun k => by simpa [nextN] using h (k + 1)⟩

theorem fill_full : ∀ (k : Nat) (xs : List Nat) (b : BIter W), Emits N.next b.w xs → k ≤ xs.length →
    ∃ b', BIter.fill N k b = (xs.take k, .full, b') ∧ b'.samplesYielded = b.samplesYielded + k ∧
      Emits N.next b'.w (xs.drop k) ∧ Steps N.next b.w (xs.take k) b'.w
  | 0, xs, b, h, _ => ⟨b, by simp [BIter.fill], by simp, by simpa using h, by simp [Steps]⟩
  | k + 1, [], b, _, hk => by simp at hk
  | k + 1, x :: xs, b, h, hk => by
    simp only [Emits] at h
    have hw : N.next b.w = (.item x, (N.next b.w).2) := by rw [← h.1]
    obtain ⟨b', hf, hy, he, hs⟩ := fill_full k xs
      { w := (N.next b.w).2, samplesYielded := b.samplesYielded + 1 } h.2 (by simpa using hk)
    refine ⟨b', ?_, by simp at hy; omega, by simpa using he, ?_⟩
    · rw [BIter.fill, hw]; simp [hf]
    · simp only [List.take_succ_cons, Steps]; exact ⟨h.1, hs⟩

theorem fill_short : ∀ (k : Nat) (xs : List Nat) (b : BIter W), Emits N.next b.w xs → xs.length < k →
    ∃ b', BIter.fill N k b = (xs, .stopped, b') ∧ b'.samplesYielded = b.samplesYielded + xs.length ∧
      Emits N.next b'.w [] ∧ ∃ w1, Steps N.next b.w xs w1 ∧ (N.next w1).1 = .stop ∧ b'.w = (N.next w1).2
  | 0, xs, b, _, hk => by simp at hk
  | k + 1, [], b, h, _ => by
    have hn := emits_nil_next h
    have hw : N.next b.w = (.stop, (N.next b.w).2) := by rw [← hn.1]
    refine ⟨{ b with w := (N.next b.w).2 }, ?_, by simp, hn.2, b.w, by simp [Steps], hn.1, rfl⟩
    rw [BIter.fill, hw]
  | k + 1, x :: xs, b, h, hk => by
    simp only [Emits] at h
    have hw : N.next b.w = (.item x, (N.next b.w).2) := by rw [← h.1]
    obtain ⟨b', hf, hy, he, w1, hs, hst, hb'⟩ := fill_short k xs
      { w := (N.next b.w).2, samplesYielded := b.samplesYielded + 1 } h.2 (by simpa using hk)
    refine ⟨b', ?_, by simp at hy ⊢; omega, he, w1, ?_, hst, hb'⟩
    · rw [BIter.fill, hw]; simp [hf]
    · simp only [Steps]; exact ⟨h.1, hs⟩

variable (c : BCfg)

theorem bnext_full (xs : List Nat) (b : BIter W) (h : Emits N.next b.w xs) (hk : c.batchSize ≤ xs.length) :
    ∃ b', BIter.next N c b = (.batch (xs.take c.batchSize), b') ∧
      b'.samplesYielded = b.samplesYielded + c.batchSize ∧ Emits N.next b'.w (xs.drop c.batchSize) ∧
      Steps N.next b.w (xs.take c.batchSize) b'.w := by
  obtain ⟨b', hf, hy, he, hs⟩ := fill_full N c.batchSize xs b h hk
  exact ⟨b', by simp [BIter.next, hf], hy, he, hs⟩

theorem bnext_short (xs : List Nat) (b : BIter W) (h : Emits N.next b.w xs) (hk : xs.length < c.batchSize) :
    ∃ b', BIter.next N c b = (if c.dropLast || xs.isEmpty then .stop else .batch xs, b') ∧
      b'.samplesYielded = b.samplesYielded + xs.length ∧ Emits N.next b'.w [] ∧
      ∃ w1, Steps N.next b.w xs w1 ∧ (N.next w1).1 = .stop ∧ b'.w = (N.next w1).2 := by
  obtain ⟨b', hf, hy, he, hs⟩ := fill_short N c.batchSize xs b h hk
  refine ⟨b', ?_, hy, he, hs⟩
  simp only [BIter.next, hf]
  split <;> rfl

/-! ### `chunkRef` unfolds like the loop -/

theorem chunkRef_ge (bs : Nat) (dl : Bool) (xs : List Nat) (hbs : 0 < bs) (h : bs ≤ xs.length) :
    chunkRef bs dl xs = xs.take bs :: chunkRef bs dl (xs.drop bs) := by
  have hcount : (if dl then xs.length / bs else (xs.length + bs - 1) / bs) =
      (if dl then (xs.drop bs).length / bs else ((xs.drop bs).length + bs - 1) / bs) + 1 := by
    rw [List.length_drop]
    cases dl
    · simp only [Bool.false_eq_true, if_false]
      rw [Nat.div_eq (xs.length + bs - 1) bs, if_pos ⟨hbs, by omega⟩]
      congr 2; omega
    · simp only [if_true]
      rw [Nat.div_eq xs.length bs, if_pos ⟨hbs, h⟩]
  unfold chunkRef
  rw [hcount, List.range_succ_eq_map, List.map_cons, List.map_map]
  congr 1
  · simp
  · apply List.map_congr_left
    intro i _
    simp only [Function.comp, List.drop_drop]
    rw [Nat.succ_mul, Nat.add_comm]

theorem chunkRef_lt (bs : Nat) (dl : Bool) (xs : List Nat) (h : xs.length < bs) :
    chunkRef bs dl xs = if dl || xs.isEmpty then [] else [xs] := by
  unfold chunkRef
  cases dl
  · cases xs with
    | nil => simp; omega
    | cons x xs =>
      have : ((x :: xs).length + bs - 1) / bs = 1 := by
        apply Nat.div_eq_of_lt_le <;> simp at h ⊢ <;> omega
      simp only [Bool.false_eq_true, if_false, this]
      simp [List.take_of_length_le (Nat.le_of_lt h)]
  · simp [Nat.div_eq_of_lt h]

theorem bdrain_chunk (hbs : 0 < c.batchSize) : ∀ (fuel : Nat) (xs : List Nat) (b : BIter W),
    Emits N.next b.w xs → xs.length + 1 ≤ fuel →
    (BIter.drain N c fuel b).1 = chunkRef c.batchSize c.dropLast xs
  | 0, _, _, _, hf => by omega
  | f + 1, xs, b, h, hf => by
    by_cases hk : c.batchSize ≤ xs.length
    · obtain ⟨b', hn, _, he, _⟩ := bnext_full N c xs b h hk
      rw [BIter.drain, hn, chunkRef_ge _ _ _ hbs hk]
      simp only
      rw [bdrain_chunk hbs f _ b' he (by rw [List.length_drop]; omega)]
    · have hk' : xs.length < c.batchSize := by omega
      obtain ⟨b', hn, _, he, _⟩ := bnext_short N c xs b h hk'
      rw [BIter.drain, hn, chunkRef_lt _ _ _ hk']
      by_cases hd : (c.dropLast || xs.isEmpty) = true
      · simp [hd]
      · simp only [hd]
        have hne : xs ≠ [] := by intro e; simp [e] at hd
        have hpos : 0 < xs.length := List.length_pos_iff.mpr hne
        have := bdrain_chunk hbs f [] b' he (by simp; omega)
        rw [chunkRef_lt _ _ _ (by simpa using hbs)] at this
        simp [this]

end batch

section batch2
variable {W S T : Type} (N : Nested W S T) (c : BCfg)

/-- `w'` is reached from `w` by `next` calls that all raised `StopIteration`. -/
inductive StopReach {W : Type} (nx : W → Out × W) : W → W → Prop
  | refl (w : W) : StopReach nx w w
  | step {w w' : W} : StopReach nx w w' → (nx w').1 = .stop → StopReach nx w (nx w').2

/-- Invariant of a batch iterator over a nested iterator that started in `w0` and emits `xs`:
`samples_yielded` indices were consumed, the nested world is the one reached after them (possibly
followed by `StopIteration`s once everything is consumed). -/
def BInv (w0 : W) (xs : List Nat) (b : BIter W) : Prop :=
  ∃ wpre, Steps N.next w0 (xs.take b.samplesYielded) wpre ∧ b.samplesYielded ≤ xs.length ∧
    Emits N.next b.w (xs.drop b.samplesYielded) ∧
    (b.w = wpre ∨ (xs.length ≤ b.samplesYielded ∧ StopReach N.next wpre b.w))

theorem binv_start (w0 : W) (xs : List Nat) (h : Emits N.next w0 xs) :
    BInv N w0 xs { w := w0, samplesYielded := 0 } :=
  ⟨w0, by simp [Steps], by simp, by simpa using h, Or.inl rfl⟩

theorem binv_next (hbs : 0 < c.batchSize) (w0 : W) (xs : List Nat) (b : BIter W)
    (h : BInv N w0 xs b) : BInv N w0 xs (BIter.next N c b).2 := by
  obtain ⟨wpre, hs, hle, he, hor⟩ := h
  have hlen : (xs.drop b.samplesYielded).length = xs.length - b.samplesYielded := List.length_drop
  by_cases hk : c.batchSize ≤ (xs.drop b.samplesYielded).length
  · obtain ⟨b', hn, hy, he', hs'⟩ := bnext_full N c _ b he hk
    rw [hn]
    have hw : b.w = wpre := by
      rcases hor with h | ⟨h, _⟩
      · exact h
      · omega
    refine ⟨b'.w, ?_, by simp only; omega, ?_, Or.inl rfl⟩
    · simp only [hy, List.take_add]
      exact steps_append hs (hw ▸ hs')
    · simpa [hy, List.drop_drop] using he'
  · have hk' : (xs.drop b.samplesYielded).length < c.batchSize := by omega
    obtain ⟨b', hn, hy, he', w1, hs1, hst, hb'⟩ := bnext_short N c _ b he hk'
    rw [hn]
    have hy' : b'.samplesYielded = xs.length := by omega
    rcases hor with hw | ⟨hge, hsr⟩
    · refine ⟨w1, ?_, by simp only; omega, ?_, Or.inr ⟨by simp only; omega, ?_⟩⟩
      · have := steps_append hs (hw ▸ hs1)
        simpa [hy', List.take_append_drop] using this
      · simpa [hy'] using he'
      · simp only; rw [hb']; exact StopReach.step (StopReach.refl w1) hst
    · have hsy : b.samplesYielded = xs.length := by omega
      have hnil : xs.drop b.samplesYielded = [] := by simp [hsy]
      rw [hnil] at hs1
      simp only [Steps] at hs1
      refine ⟨wpre, ?_, by simp only; omega, ?_, Or.inr ⟨by simp only; omega, ?_⟩⟩
      · simpa [hy', hsy] using hs
      · simpa [hy'] using he'
      · simp only; rw [hb', ← hs1]; exact StopReach.step hsr (hs1 ▸ hst)

theorem binv_nextN (hbs : 0 < c.batchSize) (w0 : W) (xs : List Nat) : ∀ (j : Nat) (b : BIter W),
    BInv N w0 xs b → BInv N w0 xs (BIter.nextN N c j b)
  | 0, _, h => h
  | j + 1, b, h => binv_nextN hbs w0 xs j _ (binv_next N c hbs w0 xs b h)

end batch2

/-! ## torch `DistributedSampler` arithmetic -/
section distarith

theorem ceilDiv_mul_ge (a b : Nat) (hb : 0 < b) : a ≤ ceilDiv a b * b := by
  unfold ceilDiv
  have h1 := Nat.div_add_mod (a + b - 1) b
  have h2 := Nat.mod_lt (a + b - 1) hb
  rw [Nat.mul_comm] at h1
  omega

theorem ceilDiv_mul_lt (a b : Nat) (hb : 0 < b) : ceilDiv a b * b < a + b := by
  unfold ceilDiv
  have h1 := Nat.div_add_mod (a + b - 1) b
  rw [Nat.mul_comm] at h1
  omega

theorem ceilDiv_of_dvd (a b : Nat) (hb : 0 < b) (h : a % b = 0) : ceilDiv a b * b = a := by
  have h0 := Nat.div_add_mod a b
  rw [h, Nat.add_zero] at h0
  unfold ceilDiv
  have : (a + b - 1) / b = a / b := by
    apply Nat.div_eq_of_lt_le
    · rw [Nat.mul_comm]; omega
    · rw [Nat.succ_mul, Nat.mul_comm]; omega
  rw [this, Nat.mul_comm]; exact h0

variable (c : DCfg)

theorem totalSize_drop (hR : 0 < c.replicas) (hd : c.dropLast = true) : c.totalSize ≤ c.n := by
  unfold DCfg.totalSize DCfg.numSamples
  by_cases hm : c.n % c.replicas = 0
  · simp only [hd, hm, Bool.true_and, bne_self_eq_false, Bool.false_eq_true, if_false]
    exact Nat.le_of_eq (ceilDiv_of_dvd _ _ hR hm)
  · have hb : (c.dropLast && c.n % c.replicas != 0) = true := by simp [hd, hm]
    simp only [hb, if_true]
    by_cases hlt : c.n ≤ c.replicas
    · have : c.n - c.replicas = 0 := by omega
      rw [this]
      have := ceilDiv_mul_lt 0 c.replicas hR
      have h2 : ceilDiv 0 c.replicas = 0 := by
        unfold ceilDiv; exact Nat.div_eq_of_lt (by omega)
      rw [h2]; omega
    · have := ceilDiv_mul_lt (c.n - c.replicas) c.replicas hR
      omega

theorem totalSize_nodrop (hR : 0 < c.replicas) (hd : c.dropLast = false) :
    c.n ≤ c.totalSize ∧ c.totalSize < c.n + c.replicas := by
  unfold DCfg.totalSize DCfg.numSamples
  simp only [hd, Bool.false_and, Bool.false_eq_true, if_false]
  exact ⟨ceilDiv_mul_ge _ _ hR, ceilDiv_mul_lt _ _ hR⟩

theorem length_flatten_replicate (k : Nat) (l : List Nat) : (List.replicate k l).flatten.length = k * l.length := by
  induction k with
  | zero => simp
  | succ k ih => simp [List.replicate_succ, ih, Nat.succ_mul, Nat.add_comm]

theorem padded_length (idx : List Nat) (hR : 0 < c.replicas) (hn : idx.length = c.n) :
    (c.padded idx).length = c.totalSize := by
  unfold DCfg.padded
  cases hd : c.dropLast
  · have ht := totalSize_nodrop c hR hd
    simp only [Bool.false_eq_true, if_false]
    split
    · simp [List.length_take]; omega
    · rename_i hp
      have hn0 : 0 < idx.length := by
        apply Nat.pos_of_ne_zero
        intro h0
        have : c.totalSize = 0 := by
          unfold DCfg.totalSize DCfg.numSamples
          simp only [hd, Bool.false_and, Bool.false_eq_true, if_false, ← hn, h0]
          have : ceilDiv 0 c.replicas = 0 := by unfold ceilDiv; exact Nat.div_eq_of_lt (by omega)
          rw [this]; simp
        omega
      have := ceilDiv_mul_ge (c.totalSize - idx.length) idx.length hn0
      rw [List.length_append, List.length_take, length_flatten_replicate]; omega
  · have ht := totalSize_drop c hR hd
    simp [List.length_take]; omega

theorem length_filterMap_all {α β : Type} (f : α → Option β) : ∀ (l : List α),
    (∀ x ∈ l, (f x).isSome) → (l.filterMap f).length = l.length
  | [], _ => rfl
  | a :: l, h => by
    have ha := h a (by simp)
    obtain ⟨b, hb⟩ := Option.isSome_iff_exists.mp ha
    rw [List.filterMap_cons_some hb]
    simp [length_filterMap_all f l (fun x hx => h x (by simp [hx]))]

/-- `ceil((m*R - rank) / R) = m` for `rank < R`. -/
theorem slice_count (m R rank : Nat) (hr : rank < R) : ceilDiv (m * R - rank) R = m := by
  unfold ceilDiv
  cases m with
  | zero => simp; omega
  | succ m =>
    have hmul : (m + 1) * R = m * R + R := Nat.succ_mul m R
    apply Nat.div_eq_of_lt_le
    · omega
    · have : (m + 1 + 1) * R = (m + 1) * R + R := Nat.succ_mul (m + 1) R
      omega

theorem slice_length (l : List Nat) (m R rank : Nat) (hr : rank < R) (hl : l.length = m * R) :
    (slice l rank (m * R) R).length = m := by
  unfold slice
  rw [hl, Nat.min_self, slice_count m R rank hr, length_filterMap_all, List.length_range]
  intro i hi
  have hi' : i < m := List.mem_range.mp hi
  have : rank + i * R < l.length := by
    rw [hl]
    have h1 : (i + 1) * R ≤ m * R := Nat.mul_le_mul_right R hi'
    rw [Nat.succ_mul] at h1
    omega
  simp [this]

end distarith

/-! ## `StatefulDistributedSampler` -/
section distworld

theorem emits_nil_of_next {W : Type} {nx : W → Out × W} {w : W} (h1 : (nx w).1 = .stop)
    (h2 : Emits nx (nx w).2 []) : Emits nx w [] := by
  intro k
  cases k with
  | zero => simpa [nextN] using h1
  | succ k => simpa [nextN] using h2 k

theorem dnext_unstarted_nil (w : DWorld) (it : List Nat) (hg : w.gen = .unstarted it)
    (h : it.drop w.s.yielded = []) :
    DWorld.next w = (.stop, { w with gen := .finished }) := by
  unfold DWorld.next
  rw [hg]
  simp only
  rw [h]

theorem dnext_unstarted_cons (w : DWorld) (it : List Nat) (hg : w.gen = .unstarted it) (x : Nat) (r : List Nat)
    (h : it.drop w.s.yielded = x :: r) :
    DWorld.next w = (.item x, { s := { w.s with yielded := w.s.yielded + 1 }, gen := .running r }) := by
  unfold DWorld.next
  rw [hg]
  simp only
  rw [h]

theorem demits_finished (s : DSampler) : Emits DWorld.next { s := s, gen := .finished } [] :=
  emits_nil_of_fix (by simp [DWorld.next])

/-- A suspended generator object yields the rest of its `islice`. -/
theorem demits_running : ∀ (rest : List Nat) (s : DSampler),
    Emits DWorld.next { s := s, gen := .running rest } rest
  | [], s => emits_nil_of_next (by simp [DWorld.next]) (by simpa [DWorld.next] using demits_finished s)
  | x :: r, s => by
    simp only [Emits]
    exact ⟨by simp [DWorld.next], by simpa [DWorld.next] using demits_running r _⟩

/-- An unstarted generator object yields its index list from the sampler's current `yielded` on. -/
theorem demits_unstarted (w : DWorld) (it : List Nat) (hg : w.gen = .unstarted it) :
    Emits DWorld.next w (it.drop w.s.yielded) := by
  match h : it.drop w.s.yielded with
  | [] =>
    apply emits_nil_of_next
    · rw [dnext_unstarted_nil w it hg h]
    · rw [dnext_unstarted_nil w it hg h]; exact demits_finished _
  | x :: r =>
    simp only [Emits]
    rw [dnext_unstarted_cons w it hg x r h]
    exact ⟨rfl, demits_running r _⟩

/-- Bookkeeping while running: after `j` more indices `yielded` has grown by `j`. -/
theorem dsteps_running : ∀ (ys r : List Nat) (s : DSampler),
    Steps DWorld.next { s := s, gen := .running (ys ++ r) } ys
      { s := { s with yielded := s.yielded + ys.length }, gen := .running r }
  | [], r, s => by simp [Steps]
  | y :: ys, r, s => by
    simp only [List.cons_append, Steps]
    refine ⟨by simp [DWorld.next], ?_⟩
    have := dsteps_running ys r { s with yielded := s.yielded + 1 }
    simpa [DWorld.next, Nat.add_assoc, Nat.add_comm 1] using this

/-- From an unstarted generator object: after `j ≥ 1` indices the sampler's `yielded` has grown by `j`. -/
theorem dsteps_unstarted (w : DWorld) (it : List Nat) (hg : w.gen = .unstarted it) (j : Nat) (hj1 : 1 ≤ j)
    (hj : w.s.yielded + j ≤ it.length) :
    Steps DWorld.next w ((it.drop w.s.yielded).take j)
      { s := { w.s with yielded := w.s.yielded + j }, gen := .running (it.drop (w.s.yielded + j)) } := by
  obtain ⟨j, rfl⟩ : ∃ j', j = j' + 1 := ⟨j - 1, by omega⟩
  have hlt : w.s.yielded < it.length := by omega
  have hd : it.drop w.s.yielded = it[w.s.yielded] :: it.drop (w.s.yielded + 1) := List.drop_eq_getElem_cons hlt
  rw [hd, List.take_succ_cons]
  simp only [Steps]
  rw [dnext_unstarted_cons w it hg _ _ hd]
  refine ⟨rfl, ?_⟩
  have hsplit : it.drop (w.s.yielded + 1) = (it.drop (w.s.yielded + 1)).take j ++ it.drop (w.s.yielded + (j + 1)) := by
    have e : w.s.yielded + (j + 1) = (w.s.yielded + 1) + j := by omega
    rw [e, ← List.drop_drop (i := j) (j := w.s.yielded + 1), List.take_append_drop]
  have := dsteps_running ((it.drop (w.s.yielded + 1)).take j) (it.drop (w.s.yielded + (j + 1)))
    { w.s with yielded := w.s.yielded + 1 }
  rw [← hsplit] at this
  have hl : ((it.drop (w.s.yielded + 1)).take j).length = j := by
    rw [List.length_take, List.length_drop]; omega
  simp only [hl] at this
  simpa [Nat.add_assoc, Nat.add_comm 1 j] using this

end distworld

/-! ## Nested-sampler instances for the batch iterator -/
section inst_random
variable {G : Type} (R : Gen G) (c : RCfg)

theorem rnext_stop_fix (w : RIter G × G) (h : (RIter.next R c w).1 = .stop) : (RIter.next R c w).2 = w := by
  by_cases hy : w.1.yielded = c.numSamples
  · rw [rnext_stop R c w hy]
  · exfalso
    unfold RIter.next at h
    simp only [hy, if_false] at h
    generalize (if w.1.permIndex = w.1.perm.length then
        ((getPerm R c w.2).1, 0, (getPerm R c w.2).2) else (w.1.perm, w.1.permIndex, w.2)) = d at h
    cases hd : d.1[d.2.1]? <;> simp_all

theorem rstopReach (w1 w : RIter G × G) (h : StopReach (RIter.next R c) w1 w) : w = w1 := by
  induction h with
  | refl => rfl
  | step _ hst ih => rw [rnext_stop_fix R c _ hst, ih]

/-- With non-empty draws a new iterator emits exactly the epoch's index list. -/
theorem remits (hne : ∀ g, (getPerm R c g).1 ≠ []) (g0 : G) :
    Emits (RIter.next R c) (RIter.create R c g0) (RIter.epoch R c g0).1 := by
  obtain ⟨w, hw⟩ := skip_some R c hne c.numSamples (RIter.create R c g0).1 (RIter.create R c g0).2
    (by simp [RIter.create]) (by simp [RIter.create])
  obtain ⟨ys, hl, hs⟩ := skip_steps R c _ _ _ hw
  have hy : w.1.yielded = c.numSamples := by
    have := (rsteps_yielded R c hs).1
    simpa [RIter.create, hl] using this
  rw [epoch_of_steps R c g0 ys w hs hy]
  have := steps_emits hs (emits_nil_of_fix (rnext_stop R c w hy))
  simpa using this

end inst_random

section inst_plain

theorem pemits : ∀ (l r : List Nat), Emits plainNested.next (l, r) r
  | l, [] => emits_nil_of_fix (by simp [plainNested])
  | l, x :: r => by
    simp only [Emits]
    exact ⟨by simp [plainNested], by simpa [plainNested] using pemits l r⟩

theorem psteps : ∀ (l r : List Nat) (k : Nat), k ≤ r.length →
    Steps plainNested.next (l, r) (r.take k) (l, r.drop k)
  | l, r, 0, _ => by simp [Steps]
  | l, [], k + 1, h => by simp at h
  | l, x :: r, k + 1, h => by
    simp only [List.take_succ_cons, List.drop_succ_cons, Steps]
    exact ⟨by simp [plainNested], by simpa [plainNested] using psteps l r k (by simpa using h)⟩

theorem pstop_fix (w : List Nat × List Nat) (h : (plainNested.next w).1 = .stop) : (plainNested.next w).2 = w := by
  obtain ⟨l, r⟩ := w
  cases r <;> simp_all [plainNested]

theorem pstopReach (w1 w : List Nat × List Nat) (h : StopReach plainNested.next w1 w) : w = w1 := by
  induction h with
  | refl => rfl
  | step _ hst ih => rw [pstop_fix _ hst, ih]

end inst_plain

section generic_skip
variable {W : Type} {nx : W → Out × W}

theorem steps_skipN : ∀ (ys : List Nat) (w w' : W), Steps nx w ys w' → skipN nx ys.length w = some w'
  | [], w, w', h => by simp only [Steps] at h; subst h; rfl
  | y :: ys, w, w', h => by
    simp only [Steps] at h
    simp only [List.length_cons, skipN]
    have hw : nx w = (.item y, (nx w).2) := by rw [← h.1]
    rw [hw]
    exact steps_skipN ys _ _ h.2

theorem steps_det : ∀ {ys : List Nat} {w w1 w2 : W}, Steps nx w ys w1 → Steps nx w ys w2 → w1 = w2 := by
  intro ys w w1 w2 h1 h2
  rw [← steps_nextN h1, ← steps_nextN h2]

end generic_skip

section inst_dist
variable (c : DCfg) (shuf : Nat → List Nat)

/-- Invariant of a batch iterator over a `StatefulDistributedSampler` whose current iterator was created
at position `p0` in epoch `e0`: `yielded` is exact at every moment. -/
def DInv (e0 p0 : Nat) (w : DWorld) (sy : Nat) : Prop :=
  w.s.yielded = p0 + sy ∧ w.s.epoch = e0 ∧ w.s.nextYielded = none

theorem dinv_next (e0 p0 : Nat) (w : DWorld) (sy : Nat) (h : DInv e0 p0 w sy) :
    (∃ v, (DWorld.next w).1 = .item v ∧ DInv e0 p0 (DWorld.next w).2 (sy + 1)) ∨
    ((DWorld.next w).1 = .stop ∧ DInv e0 p0 (DWorld.next w).2 sy) := by
  obtain ⟨hy, he, hn⟩ := h
  obtain ⟨s, g⟩ := w
  cases g with
  | unstarted it =>
    match hd : it.drop s.yielded with
    | [] =>
      right
      rw [dnext_unstarted_nil ⟨s, .unstarted it⟩ it rfl hd]
      exact ⟨rfl, hy, he, hn⟩
    | x :: r =>
      left
      rw [dnext_unstarted_cons ⟨s, .unstarted it⟩ it rfl x r hd]
      refine ⟨x, rfl, ?_, he, hn⟩
      simp only at hy ⊢
      omega
  | finished =>
    right
    simp only [DWorld.next]
    exact ⟨trivial, hy, he, hn⟩
  | running rest =>
    cases rest with
    | nil =>
      right
      simp only [DWorld.next]
      exact ⟨trivial, hy, he, hn⟩
    | cons x r =>
      left
      simp only [DWorld.next]
      refine ⟨x, rfl, ?_, he, hn⟩
      simp only at hy ⊢
      omega

theorem dinv_fill (e0 p0 : Nat) : ∀ (k : Nat) (b : BIter DWorld),
    DInv e0 p0 b.w b.samplesYielded →
    DInv e0 p0 (BIter.fill (distNested c shuf) k b).2.2.w (BIter.fill (distNested c shuf) k b).2.2.samplesYielded
  | 0, b, h => by simpa [BIter.fill] using h
  | k + 1, b, h => by
    rcases dinv_next e0 p0 b.w b.samplesYielded h with ⟨v, hv, hi⟩ | ⟨hst, hi⟩
    · have hw : (distNested c shuf).next b.w = (.item v, (DWorld.next b.w).2) := by
        show DWorld.next b.w = _
        rw [← hv]
      have ih := dinv_fill e0 p0 k { w := (DWorld.next b.w).2, samplesYielded := b.samplesYielded + 1 } hi
      rw [BIter.fill, hw]
      exact ih
    · have hw : (distNested c shuf).next b.w = (.stop, (DWorld.next b.w).2) := by
        show DWorld.next b.w = _
        rw [← hst]
      rw [BIter.fill, hw]
      exact hi

theorem dinv_bnext (bc : BCfg) (e0 p0 : Nat) (b : BIter DWorld) (h : DInv e0 p0 b.w b.samplesYielded) :
    DInv e0 p0 (BIter.next (distNested c shuf) bc b).2.w (BIter.next (distNested c shuf) bc b).2.samplesYielded := by
  have hf := dinv_fill c shuf e0 p0 bc.batchSize b h
  unfold BIter.next
  generalize BIter.fill (distNested c shuf) bc.batchSize b = r at hf
  obtain ⟨l, f, b'⟩ := r
  cases f
  · exact hf
  · simp only
    split <;> exact hf
  · exact hf

theorem dinv_bnextN (bc : BCfg) (e0 p0 : Nat) :
    ∀ (j : Nat) (b : BIter DWorld), DInv e0 p0 b.w b.samplesYielded →
      DInv e0 p0 (BIter.nextN (distNested c shuf) bc j b).w (BIter.nextN (distNested c shuf) bc j b).samplesYielded
  | 0, _, h => h
  | j + 1, b, h => dinv_bnextN bc e0 p0 j _ (dinv_bnext c shuf bc e0 p0 b h)

end inst_dist

section distget

theorem getElem?_filterMap_range (f : Nat → Option Nat) : ∀ (m : Nat), (∀ i < m, (f i).isSome) →
    ∀ j < m, ((List.range m).filterMap f)[j]? = f j
  | 0, _, j, hj => by omega
  | m + 1, h, j, hj => by
    have hlen : ((List.range m).filterMap f).length = m := by
      rw [length_filterMap_all, List.length_range]
      intro i hi; exact h i (by have := List.mem_range.mp hi; omega)
    rw [List.range_succ, List.filterMap_append]
    by_cases hjm : j < m
    · rw [List.getElem?_append_left (by omega)]
      exact getElem?_filterMap_range f m (fun i hi => h i (by omega)) j hjm
    · have : j = m := by omega
      subst this
      rw [List.getElem?_append_right (by omega), hlen, Nat.sub_self]
      obtain ⟨b, hb⟩ := Option.isSome_iff_exists.mp (h j (by omega))
      simp [hb]

theorem slice_get (l : List Nat) (m R rank : Nat) (hr : rank < R) (hl : l.length = m * R) (j : Nat) (hj : j < m) :
    (slice l rank (m * R) R)[j]? = l[rank + j * R]? := by
  unfold slice
  rw [hl, Nat.min_self, slice_count m R rank hr]
  apply getElem?_filterMap_range _ m _ j hj
  intro i hi
  have : rank + i * R < l.length := by
    rw [hl]
    have h1 : (i + 1) * R ≤ m * R := Nat.mul_le_mul_right R hi
    rw [Nat.succ_mul] at h1
    omega
  simp [this]

theorem flatten_replicate_get (l : List Nat) (hl : 0 < l.length) : ∀ (k i : Nat), i < k * l.length →
    (List.replicate k l).flatten[i]? = l[i % l.length]?
  | 0, i, h => by simp at h
  | k + 1, i, h => by
    rw [List.replicate_succ, List.flatten_cons]
    by_cases hi : i < l.length
    · rw [List.getElem?_append_left hi, Nat.mod_eq_of_lt hi]
    · rw [List.getElem?_append_right (by omega), Nat.mod_eq_sub_mod (by omega)]
      apply flatten_replicate_get l hl k
      rw [Nat.succ_mul] at h; omega

variable (c : DCfg)

theorem totalSize_zero (hR : 0 < c.replicas) (hd : c.dropLast = false) (h0 : c.n = 0) : c.totalSize = 0 := by
  unfold DCfg.totalSize DCfg.numSamples
  simp only [hd, Bool.false_and, Bool.false_eq_true, if_false, h0]
  have : ceilDiv 0 c.replicas = 0 := by unfold ceilDiv; exact Nat.div_eq_of_lt (by omega)
  rw [this]; simp

/-- Padding is by repetition of the list from its start; `drop_last` truncates. -/
theorem padded_get (idx : List Nat) (hR : 0 < c.replicas) (hn : idx.length = c.n) (i : Nat) (hi : i < c.totalSize) :
    (c.padded idx)[i]? = if c.dropLast then idx[i]? else idx[i % c.n]? := by
  unfold DCfg.padded
  cases hd : c.dropLast
  · have ht := totalSize_nodrop c hR hd
    simp only [Bool.false_eq_true, if_false]
    have hn0 : 0 < idx.length := by
      apply Nat.pos_of_ne_zero
      intro h0
      have := totalSize_zero c hR hd (by omega)
      omega
    by_cases hin : i < idx.length
    · have e : i % c.n = i := Nat.mod_eq_of_lt (by omega)
      split <;> rw [List.getElem?_append_left hin, e]
    · have hmod : i % c.n = (i - idx.length) % c.n := by rw [hn]; exact Nat.mod_eq_sub_mod (by omega)
      split
      · rename_i hp
        rw [List.getElem?_append_right (by omega), List.getElem?_take_of_lt (by omega), hmod,
          Nat.mod_eq_of_lt (by omega)]
      · rename_i hp
        rw [List.getElem?_append_right (by omega), List.getElem?_take_of_lt (by omega), hmod, ← hn]
        apply flatten_replicate_get idx hn0
        have := ceilDiv_mul_ge (c.totalSize - idx.length) idx.length hn0
        omega
  · have ht := totalSize_drop c hR hd
    simp only [if_true]
    rw [List.getElem?_take_of_lt hi]

end distget
section distperm

theorem flatMap_append_perm {α : Type} (a b : α → List Nat) : ∀ (l : List α),
    (l.flatMap fun x => a x ++ b x).Perm (l.flatMap a ++ l.flatMap b)
  | [] => by simp
  | x :: l => by
    simp only [List.flatMap_cons, List.append_assoc]
    refine List.Perm.append_left (a x) ?_
    refine ((flatMap_append_perm a b l).append_left (b x)).trans ?_
    exact List.perm_append_comm_assoc _ _ _

theorem flatMap_congr' {α β : Type} {f g : α → List β} : ∀ (l : List α), (∀ x ∈ l, f x = g x) →
    l.flatMap f = l.flatMap g
  | [], _ => rfl
  | a :: l, h => by
    rw [List.flatMap_cons, List.flatMap_cons, h a (by simp), flatMap_congr' l (fun x hx => h x (by simp [hx]))]

theorem filterMap_congr' {α β : Type} {f g : α → Option β} : ∀ (l : List α), (∀ x ∈ l, f x = g x) →
    l.filterMap f = l.filterMap g
  | [], _ => rfl
  | a :: l, h => by
    have ha := h a (by simp)
    have ih := filterMap_congr' l (fun x hx => h x (by simp [hx]))
    cases hg : g a with
    | none => rw [List.filterMap_cons_none (ha.trans hg), List.filterMap_cons_none hg, ih]
    | some b => rw [List.filterMap_cons_some (ha.trans hg), List.filterMap_cons_some hg, ih]

theorem flatMap_toList_range : ∀ (l : List Nat), (List.range l.length).flatMap (fun r => (l[r]?).toList) = l
  | [] => by simp
  | a :: l => by
    rw [List.length_cons, List.range_succ_eq_map, List.flatMap_cons, List.flatMap_map]
    have ih := flatMap_toList_range l
    have hf : (fun r => ((a :: l)[Nat.succ r]?).toList) = fun r => (l[r]?).toList := by
      funext r; simp
    rw [hf, ih]
    simp

/-- One block of `R` in front: every rank's slice gets its element of the block in front. -/
theorem slice_block (h t : List Nat) (m R r : Nat) (hr : r < R) (hh : h.length = R) (ht : t.length = m * R) :
    slice (h ++ t) r ((m + 1) * R) R = (h[r]?).toList ++ slice t r (m * R) R := by
  have hlen : (h ++ t).length = (m + 1) * R := by rw [List.length_append, hh, ht, Nat.succ_mul]; omega
  unfold slice
  rw [hlen, Nat.min_self, slice_count (m + 1) R r hr, ht, Nat.min_self, slice_count m R r hr,
    List.range_succ_eq_map]
  have h0 : (h ++ t)[r + 0 * R]? = h[r]? := by
    rw [Nat.zero_mul, Nat.add_zero, List.getElem?_append_left (by omega)]
  have hrest : List.filterMap (fun i => (h ++ t)[r + i * R]?) (List.map Nat.succ (List.range m)) =
      List.filterMap (fun i => t[r + i * R]?) (List.range m) := by
    rw [List.filterMap_map]
    apply filterMap_congr'
    intro i _
    simp only [Function.comp]
    rw [List.getElem?_append_right (by rw [hh, Nat.succ_mul]; omega)]
    congr 1
    rw [hh, Nat.succ_mul]; omega
  cases hv : h[r]? with
  | none => rw [List.filterMap_cons_none (by rw [h0, hv]), hrest]; simp
  | some v => rw [List.filterMap_cons_some (by rw [h0, hv]), hrest]; simp

theorem slices_perm (R : Nat) (hR : 0 < R) : ∀ (m : Nat) (l : List Nat), l.length = m * R →
    ((List.range R).flatMap fun r => slice l r (m * R) R).Perm l
  | 0, l, hl => by
    have : l = [] := List.eq_nil_of_length_eq_zero (by simpa using hl)
    subst this
    have : ∀ r, slice [] r (0 * R) R = [] := by
      intro r; unfold slice
      have : ceilDiv (min (0 * R) ([] : List Nat).length - r) R = 0 := by
        simp [ceilDiv]; omega
      rw [this]; rfl
    have h2 : (List.range R).flatMap (fun r => slice [] r (0 * R) R) = (List.range R).flatMap (fun _ => ([] : List Nat)) :=
      flatMap_congr' _ (fun r _ => this r)
    rw [h2]; simp
  | m + 1, l, hl => by
    have hsm : (m + 1) * R = m * R + R := Nat.succ_mul m R
    have hsplit : l = l.take R ++ l.drop R := (List.take_append_drop R l).symm
    have hh : (l.take R).length = R := by rw [List.length_take]; omega
    have ht : (l.drop R).length = m * R := by rw [List.length_drop]; omega
    have h1 : (List.range R).flatMap (fun r => slice l r ((m + 1) * R) R) =
        (List.range R).flatMap (fun r => ((l.take R)[r]?).toList ++ slice (l.drop R) r (m * R) R) := by
      apply flatMap_congr'
      intro r hr
      conv => lhs; rw [hsplit]
      exact slice_block _ _ m R r (List.mem_range.mp hr) hh ht
    rw [h1]
    refine (flatMap_append_perm _ _ _).trans ?_
    have h2 := flatMap_toList_range (l.take R)
    rw [hh] at h2
    rw [h2]
    conv => rhs; rw [hsplit]
    exact (slices_perm R hR m (l.drop R) ht).append_left _

end distperm

section distworld3

theorem dnext_fields (w : DWorld) :
    (DWorld.next w).2.s.nextYielded = w.s.nextYielded ∧ (DWorld.next w).2.s.epoch = w.s.epoch := by
  obtain ⟨s, g⟩ := w
  cases g with
  | unstarted it =>
    match hd : it.drop s.yielded with
    | [] => rw [dnext_unstarted_nil ⟨s, .unstarted it⟩ it rfl hd]; exact ⟨rfl, rfl⟩
    | x :: r => rw [dnext_unstarted_cons ⟨s, .unstarted it⟩ it rfl x r hd]; exact ⟨rfl, rfl⟩
  | finished => exact ⟨rfl, rfl⟩
  | running rest => cases rest <;> exact ⟨rfl, rfl⟩

theorem dnextN_fields : ∀ (k : Nat) (w : DWorld),
    (nextN DWorld.next k w).s.nextYielded = w.s.nextYielded ∧ (nextN DWorld.next k w).s.epoch = w.s.epoch
  | 0, _ => ⟨rfl, rfl⟩
  | k + 1, w => by
    have h1 := dnext_fields w
    have h2 := dnextN_fields k (DWorld.next w).2
    exact ⟨h2.1.trans h1.1, h2.2.trans h1.2⟩

end distworld3

end TDV.Sampler
