import TorchDataVerif.Proofs.RefinePFSeq
/-!
# Refinement link, sequential side of ParallelMapper: `buffered sf (mapper f (listSource l))`

`Drv/Nodes.lean` ("pmap") composes in-order `ParallelMapper(num_workers>0)` as `(p.mapper f).buffered sf`.
Over a `map_fn` that never raises it is a positional source (`mapper_tracks`), so it computes the closed form `spec`
over the mapped items.
-/
namespace TDV.Refine
open TDV.Node

/-- the `map_fn` `f` on numbers, as a function on items (numbers are the atoms) -/
def liftF (f : Nat → Nat) : Item → Item
  | .atom v => .atom (f v)
  | x => x

theorem map_liftF (f : Nat → Nat) (l : List Nat) : (l.map Item.atom).map (liftF f) = (l.map f).map Item.atom := by
  induction l with
  | nil => rfl
  | cons a l ih => simp [liftF]

/-- the sequential abstraction of `ParallelMapper(IterableWrapper(l), f, in_order=True, snapshot_frequency=sf)` -/
abbrev pmNode (sf : Nat) (f : Nat → Nat) (l : List Item) : Node :=
  buffered sf (mapper (fun x => some (liftF f x)) (listSource l))

/-- a new epoch (`reset(None)`) from any runtime state `R` of the node object -/
theorem seq_map_fresh (sf : Nat) (f : Nat → Nat) (l : List Item) (R : Run (pmNode sf f l)) (ops : List Op) :
    seqRun (pmNode sf f l) ((pmNode sf f l).rreset R none) ops = spec sf 0 (l.map (liftF f)) 0 ops := by
  have T := mapper_tracks (listSource_tracks l 0 l) (liftF f)
  have h0 := sinv_start (sf := sf) T
    ((mapper (fun x => some (liftF f x)) (listSource l)).rreset
      (R.st : BufSt (mapper (fun x => some (liftF f x)) (listSource l))).inner none)
    (listAt_reset_none l _)
  have := seqRun_buffered T ops ((pmNode sf f l).rreset R none) 0 h0
  exact (SRes.map_proj_id _).symm.trans this

/-- `reset((j, k))` with `j + k ≤ |l|` from any runtime state `R` -/
theorem seq_map_resume (sf : Nat) (f : Nat → Nat) (l : List Item) (R : Run (pmNode sf f l)) (j k : Nat)
    (hjk : j + k ≤ l.length) (ops : List Op) :
    seqRun (pmNode sf f l) ((pmNode sf f l).rreset R (some (j, k))) ops =
      spec sf j ((l.drop j).map (liftF f)) k ops := by
  have T := mapper_tracks (listSource_tracks l j (l.drop j)) (liftF f)
  have h0 := sinv_start (sf := sf) T
    ((mapper (fun x => some (liftF f x)) (listSource l)).rreset
      (R.st : BufSt (mapper (fun x => some (liftF f x)) (listSource l))).inner (some j))
    (listAt_reset_some l _ j (by omega))
  have hk := bufFF_items T k _ 0 h0 (by simp; omega)
  rw [Nat.zero_add] at hk
  have := seqRun_buffered T ops ((pmNode sf f l).rreset R (some (j, k))) k hk
  exact (SRes.map_proj_id _).symm.trans this

end TDV.Refine
